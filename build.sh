#!/bin/sh
# Build the Coq development (full .vo build) and the extracted model driver.
set -e
cd "$(dirname "$0")/coq"
exec 9>.build.lock
flock 9
[ -f Makefile ] || coq_makefile -f _CoqProject -o Makefile >/dev/null
timeout 3000 make -j16 >/dev/null 2>make.err || { cat make.err; exit 2; }
mkdir -p ../ocaml/gen
if [ ! -f ../ocaml/gen/model.ml ] || [ model.ml -nt ../ocaml/gen/model.ml ] || [ ! -x ../ocaml/driver ] || [ ../ocaml/driver.ml -nt ../ocaml/driver ]; then
  cp model.ml model.mli ../ocaml/gen/
  cd ../ocaml
  rm -rf _obj && mkdir _obj
  cp gen/model.ml gen/model.mli driver.ml _obj/
  (cd _obj && ocamlfind ocamlopt -w -a -o ../driver model.mli model.ml driver.ml)
  rm -rf _obj
fi
