(* C14 - Random fill and padding are fresh, unpredictable and within their
   alphabet: the part that is a statement about the library (model).

   The entropy source itself (secrets.choice / os.urandom) is outside any model.
   In the model every random draw is an explicit tape argument; proved here:
   the outputs are exact functions of the tape and expose the used part of the
   tape bijectively - nothing of the tape is dropped, reused, reordered or
   mapped outside its alphabet, and nothing else of the output depends on it.
   (That the tape comes from the OS entropy source, once per call, is checked
   at run time by the harness: see DESIGN.md, C14 "partial by nature".) *)
From Psec Require Import Lib.Base Cipher.Cipher Cipher.Toy Model.Tools Model.Mac Model.Pinblock
  Model.Tr31 Proofs.TdesLemmas Proofs.DomainLemmas Proofs.DomainPinblock Proofs.DomainHostile
  Proofs.TapeLemmas Model.Entropy Proofs.EntropyLemmas Proofs.EntropyFill.
Open Scope N_scope.

(* ------------------------------------------------------------------ *)
(* format 3: for valid pin / pan and EVERY draw of ten symbols from "ABCDEF" the
   fill, read through the model's own decoding view
   hex_upper (block xor pan_block), is the first 14 - len(pin) tape symbols,
   position by position - hence within A..F *)
Theorem C14_format3_alphabet : forall pin pan choices, dom_pin pin -> dom_pan13 pan ->
  length choices = 10%nat -> af_str choices ->
  exists block pb,
    encode_pinblock_iso_3 pin pan choices = Ok block /\ pan_block pan = Ok pb /\
    length block = 8%nat /\
    hex_upper (py_xor block pb) =
      51 :: hexdigit_upper (lenN pin) :: pin ++ firstn (14 - length pin) choices /\
    skipn (2 + length pin) (hex_upper (py_xor block pb)) = firstn (14 - length pin) choices /\
    length (firstn (14 - length pin) choices) = (14 - length pin)%nat /\
    af_str (skipn (2 + length pin) (hex_upper (py_xor block pb))).
Proof. exact format3_alphabet. Qed.
Print Assumptions C14_format3_alphabet.

(* the fill is a bijection of the used tape prefix; the symbols beyond it are unused *)
Theorem C14_format3_tape_injective : forall pin pan c1 c2, dom_pin pin -> dom_pan13 pan ->
  length c1 = 10%nat -> af_str c1 -> length c2 = 10%nat -> af_str c2 ->
  (firstn (14 - length pin) c1 = firstn (14 - length pin) c2 ->
     encode_pinblock_iso_3 pin pan c1 = encode_pinblock_iso_3 pin pan c2) /\
  (firstn (14 - length pin) c1 <> firstn (14 - length pin) c2 ->
     encode_pinblock_iso_3 pin pan c1 <> encode_pinblock_iso_3 pin pan c2).
Proof. exact format3_tape_injective. Qed.
Print Assumptions C14_format3_tape_injective.

(* ------------------------------------------------------------------ *)
(* format 4: the trailing 8 bytes of the PIN field are the os.urandom(8) bytes
   verbatim; the leading 8 bytes do not depend on them *)
Theorem C14_format4_tail : forall pin tape8 f, length tape8 = 8%nat -> bytes_ok tape8 = true ->
  encode_pin_field_iso_4 pin tape8 = Ok f ->
  skipn 8 f = tape8 /\ length f = 16%nat /\
  forall tape8' f', length tape8' = 8%nat -> bytes_ok tape8' = true ->
    encode_pin_field_iso_4 pin tape8' = Ok f' -> firstn 8 f' = firstn 8 f.
Proof. exact format4_tail. Qed.
Print Assumptions C14_format4_tail.

Theorem C14_format4_tape_injective : forall pin t1 t2 f, length t1 = 8%nat -> bytes_ok t1 = true ->
  length t2 = 8%nat -> bytes_ok t2 = true ->
  encode_pin_field_iso_4 pin t1 = Ok f -> encode_pin_field_iso_4 pin t2 = Ok f -> t1 = t2.
Proof. exact format4_tape_injective. Qed.
Print Assumptions C14_format4_tape_injective.

(* ------------------------------------------------------------------ *)
(* CBC encryption under a lawful cipher is undone by CBC decryption, hence
   injective in its data for fixed key and IV *)
Theorem C14_cbc_invertible : forall c k iv d e, cipher_ok c -> bytes_ok iv = true ->
  bytes_ok d = true -> encrypt_cbc c k iv d = Ok e -> decrypt_cbc c k iv e = Ok d.
Proof. exact decrypt_encrypt_cbc. Qed.
Print Assumptions C14_cbc_invertible.

Theorem C14_cbc_injective : forall c k iv d1 d2 e, cipher_ok c -> bytes_ok iv = true ->
  bytes_ok d1 = true -> bytes_ok d2 = true ->
  encrypt_cbc c k iv d1 = Ok e -> encrypt_cbc c k iv d2 = Ok e -> d1 = d2.
Proof. exact encrypt_cbc_injective. Qed.
Print Assumptions C14_cbc_injective.

(* ------------------------------------------------------------------ *)
(* TR-31 wraps.  The data a wrap encrypts is
     clear_key_data lp key tape = lp ++ key ++ tape
   (2-byte bit-length prefix, key, then the random pad).  A wrap succeeds only
   when the tape has exactly pad_len + extra_pad bytes (the number drawn), its
   output is header ++ HEX(CBC(clear key data)) ++ HEX(mac), and decrypting the
   encrypted part gives the clear key data - so the tape - back. *)
Theorem C14_clear_key_data_tape : forall lp key tape, length lp = 2%nat ->
  clear_key_data lp key tape = lp ++ key ++ tape /\
  skipn (2 + length key) (clear_key_data lp key tape) = tape.
Proof. intros lp key tape L. split; [reflexivity | exact (clear_key_data_tape lp key tape L)]. Qed.
Print Assumptions C14_clear_key_data_tape.

(* versions A and C *)
Theorem C14_tr31_pad_is_tape_c : forall cd ca, cipher_ok cd ->
  forall kbpk hdr key extra tape s, bytes_ok key = true -> bytes_ok tape = true ->
  c_wrap cd ca kbpk hdr key extra tape = Ok s ->
  length tape = (8 - (2 + length key + extra) mod 8 + extra)%nat /\
  exists lp hb enc_key mac,
    key_len_prefix key = Ok lp /\ length lp = 2%nat /\ encode_ascii hdr = Ok hb /\
    bytes_ok hb = true /\
    encrypt_cbc cd (fst (c_derive kbpk)) (firstn 8 hb) (clear_key_data lp key tape) = Ok enc_key /\
    length enc_key = length (clear_key_data lp key tape) /\
    s = hdr ++ hex_upper enc_key ++ hex_upper mac /\
    decrypt_cbc cd (fst (c_derive kbpk)) (firstn 8 hb) enc_key = Ok (clear_key_data lp key tape).
Proof. exact c_wrap_exposes_tape. Qed.
Print Assumptions C14_tr31_pad_is_tape_c.

Theorem C14_tr31_tape_injective_c : forall cd ca, cipher_ok cd ->
  forall kbpk hdr key extra t1 t2 s,
  bytes_ok key = true -> bytes_ok t1 = true -> bytes_ok t2 = true ->
  c_wrap cd ca kbpk hdr key extra t1 = Ok s -> c_wrap cd ca kbpk hdr key extra t2 = Ok s ->
  t1 = t2.
Proof. exact c_wrap_tape_injective. Qed.
Print Assumptions C14_tr31_tape_injective_c.

(* version B (the IV is the MAC, which is itself part of the output) *)
Theorem C14_tr31_pad_is_tape_b : forall cd ca, cipher_ok cd -> cipher_ok ca ->
  forall kbpk hdr key extra tape s, bytes_ok key = true -> bytes_ok tape = true ->
  b_wrap cd ca kbpk hdr key extra tape = Ok s ->
  length tape = (8 - (2 + length key + extra) mod 8 + extra)%nat /\
  exists kbek kbak lp enc_key mac,
    b_derive cd ca kbpk = Ok (kbek, kbak) /\
    key_len_prefix key = Ok lp /\ length lp = 2%nat /\
    b_generate_mac cd ca kbak hdr (clear_key_data lp key tape) = Ok mac /\ bytes_ok mac = true /\
    encrypt_cbc cd kbek mac (clear_key_data lp key tape) = Ok enc_key /\
    length enc_key = length (clear_key_data lp key tape) /\
    s = hdr ++ hex_upper enc_key ++ hex_upper mac /\
    decrypt_cbc cd kbek mac enc_key = Ok (clear_key_data lp key tape).
Proof. exact b_wrap_exposes_tape. Qed.
Print Assumptions C14_tr31_pad_is_tape_b.

Theorem C14_tr31_tape_injective_b : forall cd ca, cipher_ok cd -> cipher_ok ca ->
  forall kbpk hdr key extra t1 t2 s,
  bytes_ok key = true -> bytes_ok t1 = true -> bytes_ok t2 = true ->
  b_wrap cd ca kbpk hdr key extra t1 = Ok s -> b_wrap cd ca kbpk hdr key extra t2 = Ok s ->
  t1 = t2.
Proof. exact b_wrap_tape_injective. Qed.
Print Assumptions C14_tr31_tape_injective_b.

(* version D *)
Theorem C14_tr31_pad_is_tape_d : forall cd ca, cipher_ok cd -> cipher_ok ca ->
  forall kbpk hdr key extra tape s, bytes_ok key = true -> bytes_ok tape = true ->
  d_wrap cd ca kbpk hdr key extra tape = Ok s ->
  length tape = (16 - (2 + length key + extra) mod 16 + extra)%nat /\
  exists kbek kbak lp enc_key mac,
    d_derive cd ca kbpk = Ok (kbek, kbak) /\
    key_len_prefix key = Ok lp /\ length lp = 2%nat /\
    d_generate_mac cd ca kbak hdr (clear_key_data lp key tape) = Ok mac /\ bytes_ok mac = true /\
    encrypt_cbc ca kbek mac (clear_key_data lp key tape) = Ok enc_key /\
    length enc_key = length (clear_key_data lp key tape) /\
    s = hdr ++ hex_upper enc_key ++ hex_upper mac /\
    decrypt_cbc ca kbek mac enc_key = Ok (clear_key_data lp key tape).
Proof. exact d_wrap_exposes_tape. Qed.
Print Assumptions C14_tr31_pad_is_tape_d.

Theorem C14_tr31_tape_injective_d : forall cd ca, cipher_ok cd -> cipher_ok ca ->
  forall kbpk hdr key extra t1 t2 s,
  bytes_ok key = true -> bytes_ok t1 = true -> bytes_ok t2 = true ->
  d_wrap cd ca kbpk hdr key extra t1 = Ok s -> d_wrap cd ca kbpk hdr key extra t2 = Ok s ->
  t1 = t2.
Proof. exact d_wrap_tape_injective. Qed.
Print Assumptions C14_tr31_tape_injective_d.

(* ------------------------------------------------------------------ *)
(* From OS bytes to fill symbols.  Model/Entropy.v models how CPython's secrets.choice("ABCDEF") consumes the OS
   generator (one byte per attempt, symbol = byte >> 5, rejected when >= 6).  The harness checks on every run that the
   fill psec emits IS this function of the bytes the OS generator returned during the call (harness/c14_monitor.py);
   proved here: that function is exactly uniform and independent per symbol when the bytes are. *)
Theorem C14_choice_draw_spec : forall stream n syms rest,
  draw stream n = Some (syms, rest) ->
  syms = map attempt (firstn n (filter accepted stream)) /\
  length syms = n /\
  Forall (fun s => s < 6) syms /\
  exists used, stream = used ++ rest /\
               filter accepted used = firstn n (filter accepted stream) /\
               ends_accepted n used.
Proof. exact draw_spec_l. Qed.
Print Assumptions C14_choice_draw_spec.

Theorem C14_choice_runs_out_iff : forall stream n,
  draw stream n = None <-> (length (filter accepted stream) < n)%nat.
Proof. exact draw_none_iff_l. Qed.
Print Assumptions C14_choice_runs_out_iff.

(* one byte: each of the six symbols has exactly 32 of the 256 byte values, 64 values are rejected *)
Theorem C14_choice_one_byte :
  (forall s, s < 6 -> length (filter (fun b => attempt b =? s) all_bytes) = 32%nat) /\
  length (filter accepted all_bytes) = 192%nat.
Proof. split; [exact attempt_uniform_l | exact accepted_count_l]. Qed.
Print Assumptions C14_choice_one_byte.

(* n symbols: every word over the six symbols has exactly 32^n preimages among the rejection-free byte strings of
   its length - the symbols are independent and exactly uniform when the bytes are *)
Theorem C14_choice_uniform : forall (w : list N), Forall (fun s => s < 6) w ->
  length (filter (draws_exactly w) (words (length w))) = Nat.pow 32 (length w).
Proof. exact draw_uniform_draw_l. Qed.
Print Assumptions C14_choice_uniform.

Theorem C14_choices10_spec : forall stream ch rest,
  choices10 stream = Some (ch, rest) ->
  ch = choices_of_syms (map attempt (firstn 10 (filter accepted stream))) /\
  length ch = 10%nat /\ af_str ch /\
  exists used, stream = used ++ rest /\ filter accepted used = firstn 10 (filter accepted stream).
Proof. exact choices10_spec. Qed.
Print Assumptions C14_choices10_spec.

(* the fill a format 3 block carries is the image of the first 14 - len(pin) accepted OS bytes *)
Theorem C14_format3_fill_from_os_bytes : forall pin pan stream ch rest,
  dom_pin pin -> dom_pan13 pan -> choices10 stream = Some (ch, rest) ->
  exists block pb,
    encode_pinblock_iso_3 pin pan ch = Ok block /\ pan_block pan = Ok pb /\
    skipn (2 + length pin) (hex_upper (py_xor block pb)) =
      firstn (14 - length pin) (choices_of_syms (map attempt (firstn 10 (filter accepted stream)))).
Proof. exact format3_fill_from_os_bytes. Qed.
Print Assumptions C14_format3_fill_from_os_bytes.

Example C14_choices10_on_data :
  choices10 [0; 255; 64; 200; 32; 96; 128; 160; 191; 1; 33; 65; 7] = Some ([65; 67; 66; 68; 69; 70; 70; 65; 66; 67], [7]).
Proof. vm_compute. reflexivity. Qed.

(* ------------------------------------------------------------------ *)
(* Examples: premises are satisfiable, and what the statements say on data *)
Example C14_ciphers_exist : cipher_ok toy_tdes /\ cipher_ok toy_aes.
Proof. split; [exact (tdes_ok toy_des toy_des_ok)|exact toy_aes_ok]. Qed.

(* "1234", PAN 5544332211009966, symbols "FEDCBAABCD": the view reads 34 1234 FEDCBAABCD *)
Example C14_format3_instance :
  encode_pinblock_iso_3 good_pin good_pan [70; 69; 68; 67; 66; 65; 65; 66; 67; 68]
    = Ok [52; 18; 119; 204; 253; 170; 162; 91] /\
  pan_block good_pan = Ok [0; 0; 67; 50; 33; 16; 9; 150] /\
  hex_upper (py_xor [52; 18; 119; 204; 253; 170; 162; 91] [0; 0; 67; 50; 33; 16; 9; 150])
    = [51; 52; 49; 50; 51; 52; 70; 69; 68; 67; 66; 65; 65; 66; 67; 68].
Proof. vm_compute. repeat split. Qed.

(* a 12-digit PIN uses two symbols; the other eight do not matter *)
Example C14_format3_unused :
  same (encode_pinblock_iso_3 (good_pin ++ good_pin ++ good_pin) good_pan
          [70; 69; 65; 65; 65; 65; 65; 65; 65; 65])
       (encode_pinblock_iso_3 (good_pin ++ good_pin ++ good_pin) good_pan
          [70; 69; 70; 70; 70; 70; 70; 70; 70; 70]) = true /\
  differ (encode_pinblock_iso_3 (good_pin ++ good_pin ++ good_pin) good_pan
            [70; 69; 65; 65; 65; 65; 65; 65; 65; 65])
         (encode_pinblock_iso_3 (good_pin ++ good_pin ++ good_pin) good_pan
            [70; 70; 65; 65; 65; 65; 65; 65; 65; 65]) = true.
Proof. vm_compute. split; reflexivity. Qed.

Example C14_format4_instance :
  encode_pin_field_iso_4 good_pin good_tape8 =
    Ok ([68; 18; 52; 170; 170; 170; 170; 170] ++ good_tape8).
Proof. vm_compute. reflexivity. Qed.

(* wraps with the toy ciphers ([ex_hdr] = "B0096P0TE00N0000"; [differ a b]: both are values,
   and different ones): 16-byte key, no extra pad: 6 (A/B/C) or 14 (D) bytes drawn *)
Example C14_wrap_instances :
  is_ok (c_wrap toy_tdes toy_aes key16 ex_hdr key16 0 [1; 2; 3; 4; 5; 6]) = true /\
  is_ok (b_wrap toy_tdes toy_aes key16 ex_hdr key16 0 [1; 2; 3; 4; 5; 6]) = true /\
  is_ok (d_wrap toy_tdes toy_aes key16 ex_hdr key16 0 [1; 2; 3; 4; 5; 6; 7; 8; 9; 10; 11; 12; 13; 14])
    = true /\
  (* a tape of another length is not a draw of this wrap *)
  is_ok (c_wrap toy_tdes toy_aes key16 ex_hdr key16 0 [1; 2; 3; 4; 5; 6; 7]) = false /\
  is_ok (b_wrap toy_tdes toy_aes key16 ex_hdr key16 0 [1; 2; 3; 4; 5]) = false /\
  (* with extra_pad = 8 (masked key length 24): 6 + 8 bytes drawn *)
  is_ok (b_wrap toy_tdes toy_aes key16 ex_hdr key16 8 [1; 2; 3; 4; 5; 6; 7; 8; 9; 10; 11; 12; 13; 14])
    = true /\
  (* different tapes, different key blocks *)
  differ (c_wrap toy_tdes toy_aes key16 ex_hdr key16 0 [1; 2; 3; 4; 5; 6])
         (c_wrap toy_tdes toy_aes key16 ex_hdr key16 0 [1; 2; 3; 4; 5; 7]) = true /\
  differ (b_wrap toy_tdes toy_aes key16 ex_hdr key16 0 [1; 2; 3; 4; 5; 6])
         (b_wrap toy_tdes toy_aes key16 ex_hdr key16 0 [1; 2; 3; 4; 5; 7]) = true /\
  differ (d_wrap toy_tdes toy_aes key16 ex_hdr key16 0 [1; 2; 3; 4; 5; 6; 7; 8; 9; 10; 11; 12; 13; 14])
         (d_wrap toy_tdes toy_aes key16 ex_hdr key16 0 [1; 2; 3; 4; 5; 6; 7; 8; 9; 10; 11; 12; 13; 15])
    = true.
Proof. vm_compute. repeat split. Qed.
