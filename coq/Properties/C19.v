(* C19 - TDES/AES ECB and CBC wrappers are exact, length-preserving inverses.
   Only statements, each closed by [exact] of a lemma from Proofs/CipherLemmas.v.
   The cipher is abstract: any [c] with [cipher_ok c] (a keyed permutation of
   well-formed blocks); psec's encrypt_tdes_* / encrypt_aes_* are by definition
   (Model/Tools.v) these wrappers at the Triple-DES / AES instance. *)
From Psec Require Import Lib.Base Cipher.Cipher Cipher.Toy Model.Tools
  Proofs.XorLemmas Proofs.TdesLemmas Proofs.CipherLemmas.
Open Scope nat_scope.

(* ---- the length guard: "len(data) < bs or len(data) % bs != 0" rejects exactly
   the empty and the non-block-multiple messages ---- *)
Theorem C19_bad_len_iff : forall c, cipher_ok c -> forall data,
  bad_len c data = true <-> (length data = 0 \/ length data mod bs c <> 0).
Proof. exact bad_len_iff. Qed.
Print Assumptions C19_bad_len_iff.

Theorem C19_reject : forall c k iv data, bad_len c data = true ->
  encrypt_ecb c k data = Err ValueError /\ decrypt_ecb c k data = Err ValueError /\
  encrypt_cbc c k iv data = Err ValueError /\ decrypt_cbc c k iv data = Err ValueError.
Proof. exact wrappers_reject_len. Qed.
Print Assumptions C19_reject.

(* a key of the wrong size, or an IV that is not one block: ValueError *)
Theorem C19_reject_key : forall c k iv data, valid_key c k = false ->
  encrypt_ecb c k data = Err ValueError /\ decrypt_ecb c k data = Err ValueError /\
  encrypt_cbc c k iv data = Err ValueError /\ decrypt_cbc c k iv data = Err ValueError.
Proof. exact wrappers_reject_key. Qed.
Print Assumptions C19_reject_key.

Theorem C19_reject_iv : forall c k iv data, length iv <> bs c ->
  encrypt_cbc c k iv data = Err ValueError /\ decrypt_cbc c k iv data = Err ValueError.
Proof. exact wrappers_reject_iv. Qed.
Print Assumptions C19_reject_iv.

(* never anything but a result or ValueError, whatever the arguments *)
Theorem C19_total : forall c k iv data,
  (is_ok (encrypt_ecb c k data) = true \/ encrypt_ecb c k data = Err ValueError) /\
  (is_ok (decrypt_ecb c k data) = true \/ decrypt_ecb c k data = Err ValueError) /\
  (is_ok (encrypt_cbc c k iv data) = true \/ encrypt_cbc c k iv data = Err ValueError) /\
  (is_ok (decrypt_cbc c k iv data) = true \/ decrypt_cbc c k iv data = Err ValueError).
Proof. exact wrappers_total. Qed.
Print Assumptions C19_total.

(* ---- inverses, both ways round, with equal lengths ---- *)
Theorem C19_ecb_roundtrip : forall c, cipher_ok c -> forall k data,
  valid_key c k = true -> bytes_ok data = true -> bad_len c data = false ->
  (exists ct, encrypt_ecb c k data = Ok ct /\ length ct = length data /\
              bytes_ok ct = true /\ decrypt_ecb c k ct = Ok data) /\
  (exists pt, decrypt_ecb c k data = Ok pt /\ length pt = length data /\
              bytes_ok pt = true /\ encrypt_ecb c k pt = Ok data).
Proof. exact ecb_roundtrip. Qed.
Print Assumptions C19_ecb_roundtrip.

Theorem C19_cbc_roundtrip : forall c, cipher_ok c -> forall k iv data,
  valid_key c k = true -> length iv = bs c -> bytes_ok iv = true ->
  bytes_ok data = true -> bad_len c data = false ->
  (exists ct, encrypt_cbc c k iv data = Ok ct /\ length ct = length data /\
              bytes_ok ct = true /\ decrypt_cbc c k iv ct = Ok data) /\
  (exists pt, decrypt_cbc c k iv data = Ok pt /\ length pt = length data /\
              bytes_ok pt = true /\ encrypt_cbc c k iv pt = Ok data).
Proof. exact cbc_roundtrip. Qed.
Print Assumptions C19_cbc_roundtrip.

(* whenever a wrapper succeeds, nothing is added, buffered or dropped *)
Theorem C19_length : forall c, cipher_ok c -> forall k iv data out,
  bytes_ok data = true -> bytes_ok iv = true ->
  (encrypt_ecb c k data = Ok out \/ decrypt_ecb c k data = Ok out \/
   encrypt_cbc c k iv data = Ok out \/ decrypt_cbc c k iv data = Ok out) ->
  length out = length data /\ bytes_ok out = true.
Proof. exact wrappers_length. Qed.
Print Assumptions C19_length.

(* ---- ECB = independent per-block encryption / decryption ---- *)
Theorem C19_ecb_blockwise : forall c, cipher_ok c -> forall k data out,
  bytes_ok data = true ->
  (encrypt_ecb c k data = Ok out ->
   forall j, j < length data / bs c ->
     slice (j * bs c) (bs c) out = enc c k (slice (j * bs c) (bs c) data)) /\
  (decrypt_ecb c k data = Ok out ->
   forall j, j < length data / bs c ->
     slice (j * bs c) (bs c) out = dec c k (slice (j * bs c) (bs c) data)).
Proof. exact ecb_blockwise. Qed.
Print Assumptions C19_ecb_blockwise.

(* ---- CBC = textbook chaining from the IV:
        C_j = E(P_j xor C_{j-1}),  C_{-1} = IV;   P_j = D(C_j) xor C_{j-1} ---- *)
Theorem C19_cbc_chaining : forall c, cipher_ok c -> forall k iv data ct,
  bytes_ok data = true -> bytes_ok iv = true ->
  encrypt_cbc c k iv data = Ok ct ->
  forall j, j < length data / bs c ->
    slice (j * bs c) (bs c) ct =
    enc c k (xor_pos (slice (j * bs c) (bs c) data)
                     (if j =? 0 then iv else slice ((j - 1) * bs c) (bs c) ct)).
Proof. exact cbc_chaining_enc. Qed.
Print Assumptions C19_cbc_chaining.

Theorem C19_cbc_chaining_dec : forall c, cipher_ok c -> forall k iv data pt,
  bytes_ok data = true -> bytes_ok iv = true ->
  decrypt_cbc c k iv data = Ok pt ->
  forall j, j < length data / bs c ->
    slice (j * bs c) (bs c) pt =
    xor_pos (dec c k (slice (j * bs c) (bs c) data))
            (if j =? 0 then iv else slice ((j - 1) * bs c) (bs c) data).
Proof. exact cbc_chaining_dec. Qed.
Print Assumptions C19_cbc_chaining_dec.

(* ---- key check value: leftmost bytes of the encryption of a zero block ---- *)
Theorem C19_kcv : forall cd key n,
  generate_kcv cd key n =
  if valid_key cd key then Ok (firstn n (enc cd key (repeat 0%N 8))) else Err ValueError.
Proof. exact kcv_exact. Qed.
Print Assumptions C19_kcv.

Theorem C19_kcv_is_ecb_prefix : forall cd key n, bs cd = 8 ->
  generate_kcv cd key n = bind (encrypt_ecb cd key (repeat 0%N 8)) (fun ct => Ok (firstn n ct)).
Proof. exact kcv_is_ecb_prefix. Qed.
Print Assumptions C19_kcv_is_ecb_prefix.

(* ---- the entry points of psec.des / psec.aes are these wrappers ---- *)
Theorem C19_entry_points : forall cd ca,
  encrypt_tdes_ecb cd = encrypt_ecb cd /\ decrypt_tdes_ecb cd = decrypt_ecb cd /\
  encrypt_tdes_cbc cd = encrypt_cbc cd /\ decrypt_tdes_cbc cd = decrypt_cbc cd /\
  encrypt_aes_ecb ca = encrypt_ecb ca /\ decrypt_aes_ecb ca = decrypt_ecb ca /\
  encrypt_aes_cbc ca = encrypt_cbc ca /\ decrypt_aes_cbc ca = decrypt_cbc ca.
Proof. exact tools_wrappers. Qed.
Print Assumptions C19_entry_points.

(* ---- Triple DES (EDE, keying options 1-3) over any lawful single DES ---- *)
Theorem C19_tdes_ecb_roundtrip : forall d, des_ok d -> forall k data,
  tdes_valid_key k = true -> bytes_ok data = true ->
  0 < length data -> length data mod 8 = 0 ->
  (exists ct, encrypt_tdes_ecb (tdes d) k data = Ok ct /\ length ct = length data /\
              bytes_ok ct = true /\ decrypt_tdes_ecb (tdes d) k ct = Ok data) /\
  (exists pt, decrypt_tdes_ecb (tdes d) k data = Ok pt /\ length pt = length data /\
              bytes_ok pt = true /\ encrypt_tdes_ecb (tdes d) k pt = Ok data).
Proof. exact tdes_ecb_roundtrip. Qed.
Print Assumptions C19_tdes_ecb_roundtrip.

Theorem C19_tdes_cbc_roundtrip : forall d, des_ok d -> forall k iv data,
  tdes_valid_key k = true -> length iv = 8 -> bytes_ok iv = true ->
  bytes_ok data = true -> 0 < length data -> length data mod 8 = 0 ->
  (exists ct, encrypt_tdes_cbc (tdes d) k iv data = Ok ct /\ length ct = length data /\
              bytes_ok ct = true /\ decrypt_tdes_cbc (tdes d) k iv ct = Ok data) /\
  (exists pt, decrypt_tdes_cbc (tdes d) k iv data = Ok pt /\ length pt = length data /\
              bytes_ok pt = true /\ encrypt_tdes_cbc (tdes d) k iv pt = Ok data).
Proof. exact tdes_cbc_roundtrip. Qed.
Print Assumptions C19_tdes_cbc_roundtrip.

Theorem C19_tdes_rejects : forall d, des_ok d -> forall k iv data,
  (length data = 0 \/ length data mod 8 <> 0) ->
  encrypt_tdes_ecb (tdes d) k data = Err ValueError /\
  decrypt_tdes_ecb (tdes d) k data = Err ValueError /\
  encrypt_tdes_cbc (tdes d) k iv data = Err ValueError /\
  decrypt_tdes_cbc (tdes d) k iv data = Err ValueError.
Proof. exact tdes_rejects. Qed.
Print Assumptions C19_tdes_rejects.

(* ------------------------------------------------------------------ *)
(* premises are satisfiable: lawful toy ciphers, 2-block messages       *)
Open Scope N_scope.
Definition ex_key : list N := [1; 2; 3; 4; 5; 6; 7; 8; 9; 10; 11; 12; 13; 14; 15; 16].
Definition ex_iv8 : list N := [0xA0; 0xA1; 0xA2; 0xA3; 0xA4; 0xA5; 0xA6; 0xA7].
Definition ex_d16 : list N :=
  [0x10; 0x11; 0x12; 0x13; 0x14; 0x15; 0x16; 0x17; 0x20; 0x21; 0x22; 0x23; 0x24; 0x25; 0x26; 0x27].
Definition ex_ct_ecb : list N :=
  [31; 30; 29; 28; 27; 26; 25; 24; 47; 46; 45; 44; 43; 42; 41; 40].
Definition ex_ct_cbc : list N :=
  [184; 184; 184; 184; 184; 184; 184; 184; 151; 150; 149; 148; 147; 146; 145; 144].

Example C19_toy_tdes_lawful : des_ok toy_des /\ cipher_ok toy_tdes.
Proof. split; [exact toy_des_ok|exact (tdes_ok toy_des toy_des_ok)]. Qed.

Example C19_toy_tdes_premises :
  valid_key toy_tdes ex_key = true /\ tdes_valid_key ex_key = true /\
  bytes_ok ex_d16 = true /\ bad_len toy_tdes ex_d16 = false /\
  (0 < length ex_d16)%nat /\ (length ex_d16 mod 8 = 0)%nat /\
  length ex_iv8 = bs toy_tdes /\ bytes_ok ex_iv8 = true /\ (length ex_d16 / bs toy_tdes = 2)%nat.
Proof. repeat split; try (vm_compute; reflexivity). apply Nat.ltb_lt. reflexivity. Qed.

Example C19_toy_tdes_ecb :
  encrypt_tdes_ecb toy_tdes ex_key ex_d16 = Ok ex_ct_ecb /\
  decrypt_tdes_ecb toy_tdes ex_key ex_ct_ecb = Ok ex_d16 /\
  slice 8 8 ex_ct_ecb = enc toy_tdes ex_key (slice 8 8 ex_d16).
Proof. vm_compute. repeat split. Qed.

Example C19_toy_tdes_cbc :
  encrypt_tdes_cbc toy_tdes ex_key ex_iv8 ex_d16 = Ok ex_ct_cbc /\
  decrypt_tdes_cbc toy_tdes ex_key ex_iv8 ex_ct_cbc = Ok ex_d16 /\
  slice 0 8 ex_ct_cbc = enc toy_tdes ex_key (xor_pos (slice 0 8 ex_d16) ex_iv8) /\
  slice 8 8 ex_ct_cbc = enc toy_tdes ex_key (xor_pos (slice 8 8 ex_d16) (slice 0 8 ex_ct_cbc)) /\
  ex_ct_cbc <> ex_ct_ecb.
Proof. vm_compute. repeat split. discriminate. Qed.

Example C19_toy_kcv :
  generate_kcv toy_tdes ex_key 3 = Ok [8; 8; 8] /\
  generate_kcv toy_tdes (firstn 7 ex_key) 3 = Err ValueError.
Proof. vm_compute. repeat split. Qed.

Example C19_toy_rejects :
  bad_len toy_tdes [] = true /\ bad_len toy_tdes (firstn 12 ex_d16) = true /\
  encrypt_tdes_ecb toy_tdes ex_key (firstn 12 ex_d16) = Err ValueError /\
  encrypt_tdes_cbc toy_tdes ex_key (firstn 7 ex_iv8) ex_d16 = Err ValueError /\
  decrypt_tdes_cbc toy_tdes (firstn 9 ex_key) ex_iv8 ex_d16 = Err ValueError.
Proof. vm_compute. repeat split. Qed.

(* a 16-byte-block cipher ("AES" shape): 2 blocks of 16 *)
Definition ex_iv16 : list N := ex_iv8 ++ ex_iv8.
Definition ex_d32 : list N := ex_d16 ++ map (fun x => x + 0x40) ex_d16.

Example C19_toy_aes :
  cipher_ok toy_aes /\
  valid_key toy_aes ex_key = true /\ bytes_ok ex_d32 = true /\ bad_len toy_aes ex_d32 = false /\
  length ex_iv16 = bs toy_aes /\ bytes_ok ex_iv16 = true /\ (length ex_d32 / bs toy_aes = 2)%nat /\
  encrypt_aes_ecb toy_aes ex_key ex_d32 =
    Ok [55; 54; 53; 52; 51; 50; 49; 48; 7; 6; 5; 4; 3; 2; 1; 0;
        119; 118; 117; 116; 115; 114; 113; 112; 71; 70; 69; 68; 67; 66; 65; 64] /\
  encrypt_aes_cbc toy_aes ex_key ex_iv16 ex_d32 =
    Ok [144; 144; 144; 144; 144; 144; 144; 144; 160; 160; 160; 160; 160; 160; 160; 160;
        215; 214; 213; 212; 211; 210; 209; 208; 215; 214; 213; 212; 211; 210; 209; 208] /\
  (do ct <- encrypt_aes_cbc toy_aes ex_key ex_iv16 ex_d32; decrypt_aes_cbc toy_aes ex_key ex_iv16 ct)
    = Ok ex_d32 /\
  (do ct <- encrypt_aes_ecb toy_aes ex_key ex_d32; decrypt_aes_ecb toy_aes ex_key ct) = Ok ex_d32.
Proof. split; [exact toy_aes_ok|]. vm_compute. repeat split. Qed.
