(* C16 - Generators and codecs accept exactly their documented domain.

   For every public function f of psec outside tr31 the documented domain is an
   explicit predicate [dom_f] (Proofs/Domain*.v; written with [dec_str] = every
   code point in 48..57, [hex_char], explicit lengths - not with the model's
   guards), and

     accepts_exactly (dom_f args) (f args)

   unfolds (C16_reading) to
     (dom_f args -> exists v, f args = Ok v)              accept
  /\ (~ dom_f args -> f args = Err ValueError)            reject: never Ok, never a Crash
  /\ ((exists v, f args = Ok v) <-> dom_f args).

   Ciphers are abstract: any [cd]/[ca] that is a keyed permutation of 8/16-byte
   blocks admitting the Triple DES / AES key sizes.  bytes arguments satisfy
   [bytes_ok] by their Python type; where that is used it is a premise.
   The random draws (format 3 symbols, format 4 tail) are explicit arguments in
   their real range. *)
From Psec Require Import Lib.Base Cipher.Cipher Cipher.Toy Model.Tools Model.Mac Model.Cvv Model.Pin
  Model.Pinblock Proofs.TdesLemmas Proofs.DomainLemmas Proofs.DomainPinblock Proofs.DomainCard
  Proofs.DomainMac Proofs.DomainHostile.
Open Scope N_scope.

(* ------------------------------------------------------------------ *)
(* reading of the statements                                            *)
Theorem C16_reading : forall A (dom : Prop) (r : res A),
  accepts_exactly dom r <->
  (dom -> exists v, r = Ok v) /\ (~ dom -> r = Err ValueError) /\ ((exists v, r = Ok v) <-> dom).
Proof. exact @accepts_exactly_reading. Qed.
Print Assumptions C16_reading.

Theorem C16_never_other_exception : forall A (dom : Prop) (r : res A),
  accepts_exactly dom r -> ok_or_value_error r /\ is_crash r = false.
Proof. exact @accepts_ok_or_value_error. Qed.
Print Assumptions C16_never_other_exception.

(* the character classes are the ones the model's guards compute *)
Theorem C16_ascii_numeric_is_dec_str : forall s,
  ascii_numeric s = true <-> Forall (fun c => 48 <= c <= 57) s.
Proof. exact ascii_numeric_iff. Qed.
Print Assumptions C16_ascii_numeric_is_dec_str.

Theorem C16_ascii_hexchar_is_hex_str : forall s,
  ascii_hexchar s = true <->
  Forall (fun c => 48 <= c <= 57 \/ 65 <= c <= 70 \/ 97 <= c <= 102) s.
Proof. exact ascii_hexchar_iff. Qed.
Print Assumptions C16_ascii_hexchar_is_hex_str.

(* ------------------------------------------------------------------ *)
(* the internal conversions cannot fail on guarded input               *)
Theorem C16_a2b_hex_total : forall n s, length s = (2 * n)%nat -> hex_str s ->
  exists b, a2b_hex s = Ok b /\ length b = n /\ bytes_ok b = true.
Proof. exact a2b_hex_ok. Qed.
Print Assumptions C16_a2b_hex_total.

Theorem C16_bytes_fromhex_total : forall n s, length s = (2 * n)%nat -> hex_str s ->
  exists b, bytes_fromhex s = Ok b /\ length b = n /\ bytes_ok b = true.
Proof. exact bytes_fromhex_ok. Qed.
Print Assumptions C16_bytes_fromhex_total.

Theorem C16_to_bytes_1_total : forall v, v < 256 -> to_bytes_be 1 v = Ok [v].
Proof. exact to_bytes_be_1. Qed.
Print Assumptions C16_to_bytes_1_total.

Theorem C16_index_total : forall A (s : list A) i d, (i < length s)%nat -> index s i = Ok (nth i s d).
Proof. exact @index_ok. Qed.
Print Assumptions C16_index_total.

Theorem C16_int_of_digit_total : forall c, 48 <= c <= 57 -> int_of_dec [c] = Ok (c - 48).
Proof. exact int_of_dec_digit. Qed.
Print Assumptions C16_int_of_digit_total.

Theorem C16_encrypt_ecb_total : forall c, cipher_ok c -> forall key data,
  valid_key c key = true -> bytes_ok data = true ->
  (0 < length data)%nat -> (length data mod bs c = 0)%nat ->
  exists r, encrypt_ecb c key data = Ok r /\ length r = length data /\ bytes_ok r = true.
Proof. exact encrypt_ecb_ok. Qed.
Print Assumptions C16_encrypt_ecb_total.

(* ------------------------------------------------------------------ *)
(* psec.pinblock                                                        *)
Theorem C16_encode_pinblock_iso_0 : forall pin pan,
  accepts_exactly (dom_encode_pinblock_iso_0 pin pan) (encode_pinblock_iso_0 pin pan).
Proof. exact encode_pinblock_iso_0_domain. Qed.
Print Assumptions C16_encode_pinblock_iso_0.

Theorem C16_encode_pinblock_iso_2 : forall pin,
  accepts_exactly (dom_encode_pinblock_iso_2 pin) (encode_pinblock_iso_2 pin).
Proof. exact encode_pinblock_iso_2_domain. Qed.
Print Assumptions C16_encode_pinblock_iso_2.

(* for every draw of ten symbols from "ABCDEF" *)
Theorem C16_encode_pinblock_iso_3 : forall pin pan choices,
  length choices = 10%nat -> af_str choices ->
  accepts_exactly (dom_encode_pinblock_iso_3 pin pan) (encode_pinblock_iso_3 pin pan choices).
Proof. exact encode_pinblock_iso_3_domain. Qed.
Print Assumptions C16_encode_pinblock_iso_3.

(* rejection does not look at the random draw at all *)
Theorem C16_encode_pinblock_iso_3_reject_any_draw : forall pin pan choices,
  ~ dom_encode_pinblock_iso_3 pin pan -> encode_pinblock_iso_3 pin pan choices = Err ValueError.
Proof. exact encode_pinblock_iso_3_reject_any_draw. Qed.
Print Assumptions C16_encode_pinblock_iso_3_reject_any_draw.

Theorem C16_encode_pin_field_iso_4_reject_any_draw : forall pin tape,
  ~ dom_encode_pin_field_iso_4 pin -> encode_pin_field_iso_4 pin tape = Err ValueError.
Proof. exact encode_pin_field_iso_4_reject_any_draw. Qed.
Print Assumptions C16_encode_pin_field_iso_4_reject_any_draw.

(* for every os.urandom(8) *)
Theorem C16_encode_pin_field_iso_4 : forall pin tape8,
  length tape8 = 8%nat -> bytes_ok tape8 = true ->
  accepts_exactly (dom_encode_pin_field_iso_4 pin) (encode_pin_field_iso_4 pin tape8).
Proof. exact encode_pin_field_iso_4_domain. Qed.
Print Assumptions C16_encode_pin_field_iso_4.

Theorem C16_encode_pan_field_iso_4 : forall pan,
  accepts_exactly (dom_encode_pan_field_iso_4 pan) (encode_pan_field_iso_4 pan).
Proof. exact encode_pan_field_iso_4_domain. Qed.
Print Assumptions C16_encode_pan_field_iso_4.

Theorem C16_encipher_pinblock_iso_4 : forall ca, cipher_ok ca -> bs ca = 16%nat ->
  (forall k, valid_key ca k = aes_valid_key k) ->
  forall key pin pan tape8, length tape8 = 8%nat -> bytes_ok tape8 = true ->
  accepts_exactly (dom_encipher_pinblock_iso_4 key pin pan)
                  (encipher_pinblock_iso_4 ca key pin pan tape8).
Proof. exact encipher_pinblock_iso_4_domain. Qed.
Print Assumptions C16_encipher_pinblock_iso_4.

(* decoders: the exact accept set is property C06; here the documented
   necessary conditions are enforced with ValueError, and on EVERY input the
   outcome is a value or ValueError *)
Theorem C16_decode_pinblock_iso_0 : forall pinblock pan,
  (~ dom_decode_pinblock_pan pinblock pan -> decode_pinblock_iso_0 pinblock pan = Err ValueError) /\
  ok_or_value_error (decode_pinblock_iso_0 pinblock pan).
Proof. exact decode_pinblock_iso_0_domain. Qed.
Print Assumptions C16_decode_pinblock_iso_0.

Theorem C16_decode_pinblock_iso_3 : forall pinblock pan,
  (~ dom_decode_pinblock_pan pinblock pan -> decode_pinblock_iso_3 pinblock pan = Err ValueError) /\
  ok_or_value_error (decode_pinblock_iso_3 pinblock pan).
Proof. exact decode_pinblock_iso_3_domain. Qed.
Print Assumptions C16_decode_pinblock_iso_3.

Theorem C16_decode_pinblock_iso_2 : forall pinblock, bytes_ok pinblock = true ->
  (length pinblock <> 8%nat -> decode_pinblock_iso_2 pinblock = Err ValueError) /\
  ok_or_value_error (decode_pinblock_iso_2 pinblock).
Proof. exact decode_pinblock_iso_2_domain. Qed.
Print Assumptions C16_decode_pinblock_iso_2.

Theorem C16_decode_pin_field_iso_4 : forall pin_field, bytes_ok pin_field = true ->
  (length pin_field <> 16%nat -> decode_pin_field_iso_4 pin_field = Err ValueError) /\
  ok_or_value_error (decode_pin_field_iso_4 pin_field).
Proof. exact decode_pin_field_iso_4_domain. Qed.
Print Assumptions C16_decode_pin_field_iso_4.

Theorem C16_decipher_pinblock_iso_4 : forall ca, cipher_ok ca -> bs ca = 16%nat ->
  (forall k, valid_key ca k = aes_valid_key k) ->
  forall key pin_block pan, bytes_ok pin_block = true ->
  (~ dom_decipher_pinblock_iso_4 key pin_block pan ->
     decipher_pinblock_iso_4 ca key pin_block pan = Err ValueError) /\
  ok_or_value_error (decipher_pinblock_iso_4 ca key pin_block pan).
Proof. exact decipher_pinblock_iso_4_domain. Qed.
Print Assumptions C16_decipher_pinblock_iso_4.

(* ------------------------------------------------------------------ *)
(* psec.cvv, psec.pin                                                   *)
Theorem C16_generate_cvv : forall cd, cipher_ok cd -> bs cd = 8%nat ->
  (forall k, valid_key cd k = tdes_valid_key k) ->
  forall cvk pan expiry service_code,
  accepts_exactly (dom_generate_cvv cvk pan expiry service_code)
                  (generate_cvv cd cvk pan expiry service_code).
Proof. exact generate_cvv_domain. Qed.
Print Assumptions C16_generate_cvv.

Theorem C16_generate_visa_pvv : forall cd, cipher_ok cd -> bs cd = 8%nat ->
  (forall k, valid_key cd k = tdes_valid_key k) ->
  forall pvk pvki pin pan,
  accepts_exactly (dom_generate_visa_pvv pvk pvki pin pan) (generate_visa_pvv cd pvk pvki pin pan).
Proof. exact generate_visa_pvv_domain. Qed.
Print Assumptions C16_generate_visa_pvv.

Theorem C16_generate_ibm3624_pin : forall cd, cipher_ok cd -> bs cd = 8%nat ->
  (forall k, valid_key cd k = tdes_valid_key k) ->
  forall pvk table offset pan pv_offset pv_length pan_pad,
  accepts_exactly (dom_generate_ibm3624 pvk table offset pan pv_offset pv_length pan_pad)
                  (generate_ibm3624_pin cd pvk table offset pan pv_offset pv_length pan_pad).
Proof. exact generate_ibm3624_pin_domain. Qed.
Print Assumptions C16_generate_ibm3624_pin.

Theorem C16_generate_ibm3624_offset : forall cd, cipher_ok cd -> bs cd = 8%nat ->
  (forall k, valid_key cd k = tdes_valid_key k) ->
  forall pvk table pin pan pv_offset pv_length pan_pad,
  accepts_exactly (dom_generate_ibm3624 pvk table pin pan pv_offset pv_length pan_pad)
                  (generate_ibm3624_offset cd pvk table pin pan pv_offset pv_length pan_pad).
Proof. exact generate_ibm3624_offset_domain. Qed.
Print Assumptions C16_generate_ibm3624_offset.

(* ------------------------------------------------------------------ *)
(* psec.mac, psec.des, psec.aes                                         *)
(* premise of padding method 3: the bit length fits the length block (outside
   it CPython raises OverflowError and so does the model: C08_pad3_overflow) *)
Theorem C16_generate_cbc_mac : forall cd ca, cipher_ok cd -> cipher_ok ca ->
  bs cd = 8%nat -> bs ca = 16%nat ->
  (forall k, valid_key cd k = tdes_valid_key k) -> (forall k, valid_key ca k = aes_valid_key k) ->
  forall key data padding mlen (aes : bool),
  (padding = 3 -> lenN data * 8 < (if aes then 256 ^ 16 else 256 ^ 8)) ->
  accepts_exactly (dom_generate_cbc_mac key padding aes)
                  (generate_cbc_mac cd ca key data padding mlen aes).
Proof. exact generate_cbc_mac_domain. Qed.
Print Assumptions C16_generate_cbc_mac.

Theorem C16_generate_retail_mac : forall cd, bs cd = 8%nat ->
  (forall k, valid_key cd k = tdes_valid_key k) ->
  forall key1 key2 data padding mlen,
  (padding = 3 -> lenN data * 8 < 256 ^ 8) ->
  accepts_exactly (dom_generate_retail_mac key1 key2 padding)
                  (generate_retail_mac cd key1 key2 data padding mlen).
Proof. exact generate_retail_mac_domain. Qed.
Print Assumptions C16_generate_retail_mac.

Theorem C16_tdes_wrappers : forall cd, cipher_ok cd -> bs cd = 8%nat ->
  (forall k, valid_key cd k = tdes_valid_key k) ->
  forall key iv data,
  accepts_exactly (dom_tdes_ecb key data) (encrypt_tdes_ecb cd key data) /\
  accepts_exactly (dom_tdes_ecb key data) (decrypt_tdes_ecb cd key data) /\
  accepts_exactly (dom_tdes_cbc key iv data) (encrypt_tdes_cbc cd key iv data) /\
  accepts_exactly (dom_tdes_cbc key iv data) (decrypt_tdes_cbc cd key iv data).
Proof. exact tdes_wrappers_domain. Qed.
Print Assumptions C16_tdes_wrappers.

Theorem C16_aes_wrappers : forall ca, cipher_ok ca -> bs ca = 16%nat ->
  (forall k, valid_key ca k = aes_valid_key k) ->
  forall key iv data,
  accepts_exactly (dom_aes_ecb key data) (encrypt_aes_ecb ca key data) /\
  accepts_exactly (dom_aes_ecb key data) (decrypt_aes_ecb ca key data) /\
  accepts_exactly (dom_aes_cbc key iv data) (encrypt_aes_cbc ca key iv data) /\
  accepts_exactly (dom_aes_cbc key iv data) (decrypt_aes_cbc ca key iv data).
Proof. exact aes_wrappers_domain. Qed.
Print Assumptions C16_aes_wrappers.

Theorem C16_generate_kcv : forall cd, (forall k, valid_key cd k = tdes_valid_key k) ->
  forall key klen, accepts_exactly (dom_generate_kcv key) (generate_kcv cd key klen).
Proof. exact generate_kcv_domain. Qed.
Print Assumptions C16_generate_kcv.

Theorem C16_apply_key_variant : forall key variant,
  accepts_exactly (dom_apply_key_variant key variant) (apply_key_variant key variant).
Proof. exact apply_key_variant_domain. Qed.
Print Assumptions C16_apply_key_variant.

(* ------------------------------------------------------------------ *)
(* the domain predicates used above, spelled out                        *)
Theorem C16_domains_explicit :
  (forall s, dec_str s <-> Forall (fun c => 48 <= c <= 57) s) /\
  (forall c, hex_char c <-> (48 <= c <= 57 \/ 65 <= c <= 70 \/ 97 <= c <= 102)) /\
  (forall s, af_str s <-> Forall (fun c => 65 <= c <= 70) s) /\
  (forall k, dom_tdes_key k <-> (length k = 8 \/ length k = 16 \/ length k = 24)%nat) /\
  (forall k, dom_aes_key k <-> (length k = 16 \/ length k = 24 \/ length k = 32)%nat) /\
  (forall pin pan, dom_encode_pinblock_iso_0 pin pan <->
     ((4 <= length pin <= 12)%nat /\ dec_str pin) /\ ((13 <= length pan)%nat /\ dec_str pan)) /\
  (forall pin, dom_encode_pinblock_iso_2 pin <-> (4 <= length pin <= 12)%nat /\ dec_str pin) /\
  (forall pin pan, dom_encode_pinblock_iso_3 pin pan <->
     ((4 <= length pin <= 12)%nat /\ dec_str pin) /\ ((13 <= length pan)%nat /\ dec_str pan)) /\
  (forall pin, dom_encode_pin_field_iso_4 pin <-> (4 <= length pin <= 12)%nat /\ dec_str pin) /\
  (forall pan, dom_encode_pan_field_iso_4 pan <-> (1 <= length pan <= 19)%nat /\ dec_str pan) /\
  (forall key pin pan, dom_encipher_pinblock_iso_4 key pin pan <->
     (length key = 16 \/ length key = 24 \/ length key = 32)%nat /\
     ((4 <= length pin <= 12)%nat /\ dec_str pin) /\ ((1 <= length pan <= 19)%nat /\ dec_str pan)) /\
  (forall pinblock pan, dom_decode_pinblock_pan pinblock pan <->
     ((13 <= length pan)%nat /\ dec_str pan) /\ length pinblock = 8%nat) /\
  (forall key pin_block pan, dom_decipher_pinblock_iso_4 key pin_block pan <->
     (length key = 16 \/ length key = 24 \/ length key = 32)%nat /\ length pin_block = 16%nat /\
     ((1 <= length pan <= 19)%nat /\ dec_str pan)) /\
  (forall cvk pan expiry service_code, dom_generate_cvv cvk pan expiry service_code <->
     length cvk = 16%nat /\ ((length pan <= 19)%nat /\ dec_str pan) /\
     (length expiry = 4%nat /\ dec_str expiry) /\
     (length service_code = 3%nat /\ dec_str service_code)) /\
  (forall pvk pvki pin pan, dom_generate_visa_pvv pvk pvki pin pan <->
     (length pvk = 8 \/ length pvk = 16 \/ length pvk = 24)%nat /\
     (length pvki = 1%nat /\ dec_str pvki) /\ (length pin = 4%nat /\ dec_str pin) /\
     ((12 <= length pan)%nat /\ dec_str pan)) /\
  (forall pvk table digits pan o l pan_pad, dom_generate_ibm3624 pvk table digits pan o l pan_pad <->
     (length pvk = 8 \/ length pvk = 16 \/ length pvk = 24)%nat /\
     (length table = 16%nat /\ dec_str table) /\
     ((4 <= length digits <= 16)%nat /\ dec_str digits) /\
     ((length pan <= 19)%nat /\ dec_str pan) /\
     (exists c, pan_pad = [c] /\ hex_char c) /\
     (l = 0%nat \/ (o + l <= length pan)%nat)) /\
  (forall key padding (aes : bool), dom_generate_cbc_mac key padding aes <->
     (if aes then (length key = 16 \/ length key = 24 \/ length key = 32)%nat
      else (length key = 8 \/ length key = 16 \/ length key = 24)%nat) /\
     (padding = 1 \/ padding = 2 \/ padding = 3)) /\
  (forall key1 key2 padding, dom_generate_retail_mac key1 key2 padding <->
     (length key1 = 8 \/ length key1 = 16 \/ length key1 = 24)%nat /\
     (length key2 = 8 \/ length key2 = 16 \/ length key2 = 24)%nat /\
     (padding = 1 \/ padding = 2 \/ padding = 3)) /\
  (forall key data, dom_tdes_ecb key data <->
     (length key = 8 \/ length key = 16 \/ length key = 24)%nat /\
     (0 < length data)%nat /\ (length data mod 8 = 0)%nat) /\
  (forall key iv data, dom_tdes_cbc key iv data <->
     (length key = 8 \/ length key = 16 \/ length key = 24)%nat /\ length iv = 8%nat /\
     (0 < length data)%nat /\ (length data mod 8 = 0)%nat) /\
  (forall key data, dom_aes_ecb key data <->
     (length key = 16 \/ length key = 24 \/ length key = 32)%nat /\
     (0 < length data)%nat /\ (length data mod 16 = 0)%nat) /\
  (forall key iv data, dom_aes_cbc key iv data <->
     (length key = 16 \/ length key = 24 \/ length key = 32)%nat /\ length iv = 16%nat /\
     (0 < length data)%nat /\ (length data mod 16 = 0)%nat) /\
  (forall key, dom_generate_kcv key <-> (length key = 8 \/ length key = 16 \/ length key = 24)%nat) /\
  (forall key variant, dom_apply_key_variant key variant <->
     (length key = 8 \/ length key = 16 \/ length key = 24)%nat /\ (0 <= variant <= 31)%Z).
Proof. exact domains_explicit. Qed.
Print Assumptions C16_domains_explicit.

(* ------------------------------------------------------------------ *)
(* the cipher premises are satisfiable                                  *)
Example C16_ciphers_exist :
  (cipher_ok toy_tdes /\ bs toy_tdes = 8%nat /\ forall k, valid_key toy_tdes k = tdes_valid_key k) /\
  (cipher_ok toy_aes /\ bs toy_aes = 16%nat /\ forall k, valid_key toy_aes k = aes_valid_key k).
Proof.
  split; split; [exact (tdes_ok toy_des toy_des_ok)|split; reflexivity
                |exact toy_aes_ok|split; reflexivity].
Qed.

(* ... and so are the domains: a well-formed argument set is accepted by
   every function *)
Example C16_good_inputs_accepted :
  all_ok (pin_calls good_pin) = true /\
  (* (the seventh call deciphers an arbitrary block: its PIN field does not decode) *)
  map is_ok (pan_calls good_pan) =
    [true; true; true; true; true; true; false; true; true; true; true] /\
  all_ok (ibm_calls chr_F 0 16) = true /\
  (* an empty window is accepted at any offset: len(pan[o:o+0]) = 0 *)
  all_ok (ibm_calls chr_F 40 0) = true /\
  is_ok (generate_cbc_mac toy_tdes toy_aes key16 [1; 2; 3] 3 None false) = true /\
  is_ok (generate_cbc_mac toy_tdes toy_aes key16 [] 1 (Some 4%nat) true) = true /\
  is_ok (generate_retail_mac toy_tdes key16 key16 [1; 2; 3] 2 None) = true /\
  is_ok (encrypt_tdes_cbc toy_tdes key16 (repeat 0 8) key16) = true /\
  is_ok (decrypt_aes_ecb toy_aes key16 key16) = true /\
  is_ok (generate_kcv toy_tdes key16 3) = true /\
  is_ok (apply_key_variant key16 31) = true.
Proof. vm_compute. repeat split. Qed.

(* ------------------------------------------------------------------ *)
(* C16_hostile: concrete hostile inputs are rejected with ValueError   *)
(* every PIN-taking function, on "12\uFF134", "12\uFF114", "12\u06634", "+123", "-123", "12 4",
   " 123", "123\n", "1234\n", "12\x004", "1_23", "123\u00B2", "123", 17 digits, "" *)
Example C16_hostile_pins :
  forallb (fun pin => all_value_error (pin_calls pin)) hostile_pins = true.
Proof. vm_compute. reflexivity. Qed.

(* every PAN-taking function, on the same edits of a 16-digit PAN *)
Example C16_hostile_pans :
  forallb (fun pan => all_value_error (pan_calls pan)) hostile_pans = true.
Proof. vm_compute. reflexivity. Qed.

Example C16_hostile_fullwidth_digit :
  encode_pinblock_iso_0 [49; 50; 65297; 52] good_pan = Err ValueError /\
  encode_pin_field_iso_4 [49; 50; 65297; 52] good_tape8 = Err ValueError.
Proof. split; vm_compute; reflexivity. Qed.

Example C16_hostile_arabic_indic_digit :
  encode_pinblock_iso_2 [49; 50; 1635; 52] = Err ValueError /\
  generate_visa_pvv toy_tdes key16 [49] [49; 50; 1635; 52] good_pan = Err ValueError.
Proof. split; vm_compute; reflexivity. Qed.

Example C16_hostile_sign_space_newline_nul :
  encode_pinblock_iso_0 [43; 49; 50; 51] good_pan = Err ValueError /\
  encode_pinblock_iso_0 [49; 50; 32; 52] good_pan = Err ValueError /\
  encode_pinblock_iso_0 [49; 50; 51; 10] good_pan = Err ValueError /\
  encode_pinblock_iso_0 [49; 50; 51; 52; 10] good_pan = Err ValueError /\
  encode_pinblock_iso_0 [49; 50; 0; 52] good_pan = Err ValueError.
Proof. repeat split; vm_compute; reflexivity. Qed.

(* pad character "g", "G", " ", "\n", "\uFF21"; a pad of two characters; an empty pad *)
Example C16_hostile_pan_pad :
  forallb (fun pad => all_value_error (ibm_calls pad 0 16))
          [[103]; [71]; [32]; [10]; [65313]; [70; 70]; []] = true.
Proof. vm_compute. reflexivity. Qed.

(* a validation window reaching past the 16-digit PAN *)
Example C16_hostile_window :
  all_value_error (ibm_calls chr_F 10 7) = true /\ all_value_error (ibm_calls chr_F 0 17) = true /\
  all_value_error (ibm_calls chr_F 17 1) = true /\ all_ok (ibm_calls chr_F 10 6) = true.
Proof. vm_compute. repeat split. Qed.

(* expiry / service code / key index / table *)
Example C16_hostile_card_fields :
  generate_cvv toy_tdes key16 good_pan [57; 57; 49; 10] [50; 50; 48] = Err ValueError /\
  generate_cvv toy_tdes key16 good_pan [57; 57; 49; 50] [50; 50; 65296] = Err ValueError /\
  generate_cvv toy_tdes key16 good_pan [57; 57; 49; 50; 51] [50; 50; 48] = Err ValueError /\
  generate_cvv toy_tdes (key16 ++ [0]) good_pan [57; 57; 49; 50] [50; 50; 48] = Err ValueError /\
  generate_visa_pvv toy_tdes key16 [65] good_pin good_pan = Err ValueError /\
  generate_visa_pvv toy_tdes key16 [49; 49] good_pin good_pan = Err ValueError /\
  generate_ibm3624_pin toy_tdes key16 (65 :: tl good_table) good_pin good_pan 0 16 chr_F
    = Err ValueError /\
  generate_ibm3624_pin toy_tdes key16 (tl good_table) good_pin good_pan 0 16 chr_F
    = Err ValueError.
Proof. repeat split; vm_compute; reflexivity. Qed.

(* keys, IVs, data sizes, padding method, key variant *)
Example C16_hostile_sizes :
  encrypt_tdes_ecb toy_tdes (tl key16) key16 = Err ValueError /\
  encrypt_tdes_ecb toy_tdes key16 (tl key16) = Err ValueError /\
  encrypt_tdes_ecb toy_tdes key16 [] = Err ValueError /\
  encrypt_aes_cbc toy_aes key16 (tl key16) key16 = Err ValueError /\
  decrypt_aes_cbc toy_aes (firstn 8 key16) key16 key16 = Err ValueError /\
  generate_cbc_mac toy_tdes toy_aes key16 [1; 2; 3] 0 None false = Err ValueError /\
  generate_cbc_mac toy_tdes toy_aes key16 [1; 2; 3] 4 None true = Err ValueError /\
  generate_cbc_mac toy_tdes toy_aes (firstn 8 key16) [1; 2; 3] 1 None true = Err ValueError /\
  generate_retail_mac toy_tdes key16 (tl key16) [1; 2; 3] 1 None = Err ValueError /\
  generate_kcv toy_tdes (tl key16) 2 = Err ValueError /\
  apply_key_variant key16 32 = Err ValueError /\
  apply_key_variant key16 (-1) = Err ValueError /\
  encipher_pinblock_iso_4 toy_aes (firstn 8 key16) good_pin good_pan good_tape8 = Err ValueError /\
  decipher_pinblock_iso_4 toy_aes key16 (key16 ++ key16) good_pan = Err ValueError /\
  decode_pinblock_iso_2 (tl key16) = Err ValueError.
Proof. repeat split; vm_compute; reflexivity. Qed.
