(* C12 - Every emitted TR-31 key block and header string is well-framed.

   "Every key block returned by wrap is printable ASCII of at most 9999
   characters whose 4-digit length field equals its true length, whose length is
   a multiple of the cipher block size, whose block-count field equals the
   number of optional blocks present (at most 99, at most one pad block, placed
   last), whose header section is a multiple of the cipher block size, and whose
   remainder is upper-case hex holding a block-multiple of encrypted key data
   and a MAC of the version's size.  The string form of a header re-loads to an
   equal header and reports the length it occupies."

   Only statements, each closed by [exact] of a lemma of Proofs/Tr31Codec.v
   (text lemmas in Proofs/TextLemmas.v).  [cd] / [ca] are arbitrary lawful block
   ciphers of block size 8 / 16 ([ciphers_ok], Proofs/Tr31Defs.v); [header_ok]
   describes a Header object reachable through the public API whose optional
   blocks do not use the pad-block id ("PB" in any case) - that premise is
   necessary, see [C12_pb_premise_needed].  [tape] is the os.urandom draw.
   [is_upper_hex c] := digit or 'A'..'F'.  The 8/16 block size and the MAC size
   are read from the model's own class tables [algo_block_size] and
   [key_block_mac_len]. *)
From Psec Require Import Lib.Base Cipher.Cipher Cipher.Toy Model.Mac Model.Tr31.
From Psec Require Import Proofs.TextLemmas Proofs.Tr31Defs Proofs.Tr31Codec.
Open Scope N_scope.

(* ---- the wrap output ---- *)
Theorem C12_wrap_framing : forall cd ca, ciphers_ok cd ca ->
  forall kbpk h key mask tape s abs ml,
  header_ok h -> bytes_ok key = true -> bytes_ok tape = true ->
  algo_block_size (version_id h) = Ok abs -> key_block_mac_len (version_id h) = Ok ml ->
  kb_wrap cd ca kbpk h key mask tape = Ok s ->
  ascii_printable s = true /\ lenN s <= 9999 /\
  slice 1 4 s = zfill 4 (str_of_N (lenN s)) /\ (length s mod abs = 0)%nat /\
  exists n t ek mac,
    blocks_dump abs (blocks h) = Ok (n, t) /\
    slice 12 2 s = zfill 2 (str_of_N (N.of_nat n)) /\ (n <= 99)%nat /\
    (n = length (blocks h) \/ n = S (length (blocks h))) /\
    ((16 + length t) mod abs = 0)%nat /\
    s = header_text h (lenN s) n t ++ hex_upper ek ++ hex_upper mac /\
    length mac = ml /\
    (length ek mod abs = 0)%nat /\ (abs <= length ek)%nat /\
    bytes_ok ek = true /\ bytes_ok mac = true /\
    forallb is_upper_hex (hex_upper ek ++ hex_upper mac) = true.
Proof. exact wrap_framing_tables. Qed.
Print Assumptions C12_wrap_framing.

(* the two fields named above really are the decimal texts of those numbers *)
Theorem C12_length_field_decodes : forall n, n <= 9999 ->
  int_of_dec (zfill 4 (str_of_N n)) = Ok n /\ length (zfill 4 (str_of_N n)) = 4%nat /\
  ascii_numeric (zfill 4 (str_of_N n)) = true.
Proof. exact int_of_dec_zfill4. Qed.
Print Assumptions C12_length_field_decodes.

Theorem C12_count_field_decodes : forall n, n <= 99 ->
  int_of_dec (zfill 2 (str_of_N n)) = Ok n /\ length (zfill 2 (str_of_N n)) = 2%nat /\
  ascii_numeric (zfill 2 (str_of_N n)) = true.
Proof. exact int_of_dec_zfill2. Qed.
Print Assumptions C12_count_field_decodes.

Theorem C12_hex_upper_is_upper_hex : forall b, bytes_ok b = true ->
  forallb is_upper_hex (hex_upper b) = true.
Proof. exact hex_upper_is_upper_hex. Qed.
Print Assumptions C12_hex_upper_is_upper_hex.

(* ---- at most one pad block, placed last: "PB", its own length in 2 hex
        characters, p zeros, 1 <= p <= block size (both branches of the pad
        formula, p = block size included) ---- *)
Theorem C12_pad_block_shape : forall abs d n t t0, (abs = 8 \/ abs = 16)%nat ->
  blocks_dump abs d = Ok (n, t) -> dump_items d = Ok t0 ->
  (t = t0 /\ n = length d /\ (length t0 mod abs = 0)%nat) \/
  (exists p, (1 <= p <= abs)%nat /\
     t = t0 ++ [80; 66] ++ hex_upper (be_bytes 1 (N.of_nat (4 + p))) ++ repeat 48 p /\
     n = S (length d) /\ (length t mod abs = 0)%nat).
Proof. exact blocks_dump_pad_shape. Qed.
Print Assumptions C12_pad_block_shape.

(* the dumped blocks (pad block included) re-load to the same ordered dict, the
   pad block being skipped, whatever text follows *)
Theorem C12_blocks_roundtrip : forall abs d n t, (abs = 8 \/ abs = 16)%nat ->
  Forall block_entry_ok d -> NoDup (map fst d) -> blocks_dump abs d = Ok (n, t) ->
  (forall rest, blocks_load n (t ++ rest) = (d, Ok (length t))) /\
  (length t mod abs = 0)%nat /\ (n <= 99)%nat /\ ascii_printable t = true.
Proof. exact blocks_roundtrip_tables. Qed.
Print Assumptions C12_blocks_roundtrip.

(* ---- str(header) re-loads, over every prior state of the loading object.
   The premise [lenN t <= 9999] is necessary: Header.__str__ does not enforce
   the 9999 limit, see [C12_str_load_oversize_refuted].  Header.__str__ writes
   16 + len(blocks) in the length field, which load ignores.

   Full statement without the premise (false):
     forall h t, header_ok h -> header_str h = Ok t ->
       forall st, header_load st t = (h, Ok (length t))                    ---- *)
Theorem C12_str_load : forall h t, header_ok h -> header_str h = Ok t -> lenN t <= 9999 ->
  (forall st, header_load st t = (h, Ok (length t))) /\
  (forall st rest, header_load st (t ++ rest) = (h, Ok (length t))) /\
  exists abs n bt, algo_block_size (version_id h) = Ok abs /\
    blocks_dump abs (blocks h) = Ok (n, bt) /\ t = header_text h (16 + lenN bt) n bt.
Proof. exact header_str_load_tables. Qed.
Print Assumptions C12_str_load.

(* the header that wrap emits (Header.dump) re-loads likewise *)
Theorem C12_dump_load : forall h key_len t, header_ok h -> header_dump h key_len = Ok t ->
  (forall st, header_load st t = (h, Ok (length t))) /\
  (forall st rest, header_load st (t ++ rest) = (h, Ok (length t))).
Proof. exact header_dump_load_tables. Qed.
Print Assumptions C12_dump_load.

(* ---- limits: Header.dump succeeds only within them ... ---- *)
Theorem C12_limits_ok : forall h kl s, version_supported (version_id h) = true ->
  header_dump h kl = Ok s ->
  Forall (fun e => lenN (snd e) <= 65525) (blocks h) /\
  exists n t t0, blocks_dump (version_abs (version_id h)) (blocks h) = Ok (n, t) /\
    dump_items (blocks h) = Ok t0 /\
    n = (length (blocks h) + pad_count (version_abs (version_id h)) t0)%nat /\ (n <= 99)%nat /\
    kb_len_of (version_abs (version_id h)) (version_maclen (version_id h)) kl t <= 9999 /\
    kb_len_of (version_abs (version_id h)) (version_maclen (version_id h)) kl t
      = 16 + lenN t + 2 * (2 + kl + pad_len_N (version_abs (version_id h)) kl)
        + 2 * N.of_nat (version_maclen (version_id h)).
Proof. exact header_dump_limits_ok. Qed.
Print Assumptions C12_limits_ok.

(* ... and fails exactly when a block is longer than 65535 - 10, the block count
   (pad block included) exceeds 99, or the total exceeds 9999 - always with
   HeaderError.  ([version_abs] / [version_maclen] are the tables 8,8,8,16 and
   4,8,4,16 for A,B,C,D; [pad_count] is 0 or 1.) *)
Theorem C12_limits_err : forall h kl e, version_supported (version_id h) = true ->
  header_dump h kl = Err e ->
  e = HeaderError /\
  (Exists (fun b => 65525 < lenN (snd b)) (blocks h) \/
   (exists t0, dump_items (blocks h) = Ok t0 /\
               (99 < length (blocks h) + pad_count (version_abs (version_id h)) t0)%nat) \/
   (exists n t, blocks_dump (version_abs (version_id h)) (blocks h) = Ok (n, t) /\
                9999 < kb_len_of (version_abs (version_id h)) (version_maclen (version_id h)) kl t)).
Proof. exact header_dump_limits_err. Qed.
Print Assumptions C12_limits_err.

Theorem C12_version_tables : forall v, version_supported v = true ->
  algo_block_size v = Ok (version_abs v) /\ key_block_mac_len v = Ok (version_maclen v) /\
  (version_abs v = 8 \/ version_abs v = 16)%nat.
Proof. exact version_tables. Qed.
Print Assumptions C12_version_tables.

(* ------------------------------------------------------------------ *)
(* Examples: the premises are satisfiable (toy ciphers, Cipher/Toy.v)   *)
Example C12_ciphers_inhabited : ciphers_ok toy_tdes toy_aes.
Proof. exact toy_ciphers_ok. Qed.

Ltac header_ok_tac :=
  unfold header_ok, field_ok, block_entry_ok;
  cbn [version_id key_usage algorithm mode_of_use version_num exportability reserved blocks
       fst snd map];
  repeat split; try reflexivity;
  repeat (constructor; cbn [fst snd]; try (repeat split; vm_compute; reflexivity));
  try (cbn [In]; intuition discriminate).

(* "B" "P0" "T" "E" "00" "N", no optional block *)
Definition exB : header := mkHeader [66] [80; 48] [84] [69] [48; 48] [78] [48; 48] [].
Example exB_ok : header_ok exB.
Proof. header_ok_tac. Qed.

(* a wrap under version B: 96 characters, as the pinned library produces *)
Example C12_wrap_B_instance :
  match kb_wrap toy_tdes toy_aes (repeat 255 16) exB (repeat 238 16) None (repeat 7 14) with
  | Ok s => (lenN s =? 96) && list_eqb (firstn 16 s)
              [66; 48; 48; 57; 54; 80; 48; 84; 69; 48; 48; 78; 48; 48; 48; 48]
  | Err _ => false
  end = true.
Proof. vm_compute. reflexivity. Qed.

(* blocks["TT"] = "HelloWorld": needs a pad block; str() is the library's
   documented 'B0040P0TE00N0200TT0EHelloWorldPB0A000000' and re-loads *)
Definition exTT : header :=
  mkHeader [66] [80; 48] [84] [69] [48; 48] [78] [48; 48]
           [([84; 84], [72; 101; 108; 108; 111; 87; 111; 114; 108; 100])].
Example exTT_ok : header_ok exTT.
Proof. header_ok_tac. Qed.

Definition exTT_str : str :=
  [66; 48; 48; 52; 48; 80; 48; 84; 69; 48; 48; 78; 48; 50; 48; 48; 84; 84; 48; 69; 72; 101;
   108; 108; 111; 87; 111; 114; 108; 100; 80; 66; 48; 65; 48; 48; 48; 48; 48; 48].
Example C12_str_pad_instance :
  header_str exTT = Ok exTT_str /\ header_load default_header exTT_str = (exTT, Ok 40%nat).
Proof. split; vm_compute; reflexivity. Qed.

Example C12_wrap_pad_instance :
  match kb_wrap toy_tdes toy_aes (repeat 255 16) exTT (repeat 238 16) None (repeat 7 14) with
  | Ok s => (lenN s =? 120) && list_eqb (firstn 40 s) ([66; 48; 49; 50; 48] ++ skipn 5 exTT_str)
  | Err _ => false
  end = true.
Proof. vm_compute. reflexivity. Qed.

(* a full-size pad block: blocks["AA"] = "" gives "AA04", (4 + 4) mod 8 = 0, pad of 8 zeros *)
Example C12_full_pad_instance :
  blocks_dump 8 [([65; 65], [])]
  = Ok (2%nat, [65; 65; 48; 52] ++ [80; 66; 48; 67] ++ repeat 48 8).
Proof. vm_compute. reflexivity. Qed.

(* version D, an extended-length block (300 characters), wrap of a 16-byte AES key *)
Definition exKS : header :=
  mkHeader [68] [75; 48] [65] [66] [48; 48] [69] [48; 48] [([75; 83], repeat 65 300)].
Example exKS_ok : header_ok exKS.
Proof. header_ok_tac. Qed.

Example C12_extended_len_instance :
  match header_str exKS with
  | Ok t => (lenN t =? 336)
            && list_eqb (slice 16 10 t) [75; 83; 48; 48; 48; 50; 48; 49; 51; 54]
            && match header_load default_header t with
               | (h, Ok n) => (n =? 336)%nat && list_eqb (snd (hd ([], []) (blocks h))) (repeat 65 300)
               | _ => false
               end
  | Err _ => false
  end = true.
Proof. vm_compute. reflexivity. Qed.

Example C12_wrap_D_instance :
  match kb_wrap toy_tdes toy_aes (repeat 17 32) exKS (repeat 34 16) None (repeat 9 30) with
  | Ok s => (lenN s =? 464)
  | Err _ => false
  end = true.
Proof. vm_compute. reflexivity. Qed.

(* ---- the premise [is_pad_id = false] of [header_ok] is necessary: a caller
        block "pb" is written by str() but dropped by load ---- *)
Definition exPb : header :=
  mkHeader [66] [80; 48] [84] [69] [48; 48] [78] [48; 48] [([112; 98], [88])].
Example C12_pb_premise_needed :
  blocks_setitem [112; 98] [88] [] = Ok (blocks exPb) /\
  is_pad_id [112; 98] = true /\
  exists t, header_str exPb = Ok t /\
            header_load default_header t = (set_blocks exPb [], Ok 32%nat) /\
            set_blocks exPb [] <> exPb.
Proof.
  split; [reflexivity|]. split; [reflexivity|]. eexists. split; [vm_compute; reflexivity|].
  split; [vm_compute; reflexivity | discriminate].
Qed.

(* ---- the premise [lenN t <= 9999] of [C12_str_load] is necessary: with a
        9980-character block str() writes a 5-digit length and does not re-load
        (same behaviour on the pinned library: HeaderError) ---- *)
Definition exBig : header :=
  mkHeader [66] [80; 48] [84] [69] [48; 48] [78] [48; 48] [([65; 65], repeat 120 (N.to_nat 9980))].
Example exBig_ok : header_ok exBig.
Proof. header_ok_tac. Qed.

Example C12_str_load_oversize_refuted :
  header_ok exBig /\
  match header_str exBig with
  | Ok t => (lenN t =? 10017) && match snd (header_load default_header t) with
                                 | Err HeaderError => true
                                 | _ => false
                                 end
  | Err _ => false
  end = true.
Proof. split; [exact exBig_ok | vm_compute; reflexivity]. Qed.
