(* C12 - Every emitted TR-31 key block and header string is well-framed.

   "Every key block returned by wrap is printable ASCII of at most 9999
   characters whose 4-digit length field equals its true length, whose length is
   a multiple of the cipher block size, whose block-count field equals the
   number of optional blocks present (at most 99, at most one pad block, placed
   last), whose header section is a multiple of the cipher block size, and whose
   remainder is upper-case hex holding a block-multiple of encrypted key data
   and a MAC of the version's size.  The string form of a header re-loads to an
   equal header and reports the length it occupies."

   Only statements, each closed by [exact] of a lemma of Proofs/Tr31Codec.v
   (text lemmas in Proofs/TextLemmas.v).  [cd] / [ca] are arbitrary lawful block
   ciphers of block size 8 / 16 ([ciphers_ok], Proofs/Tr31Defs.v); [header_ok]
   describes a Header object reachable through the public API whose optional
   blocks do not use the pad-block id ("PB" in any case) - that premise is
   necessary, see [C12_pb_premise_needed].  [tape] is the os.urandom draw.
   [is_upper_hex c] := digit or 'A'..'F'.  The 8/16 block size and the MAC size
   are read from the model's own class tables [algo_block_size] and
   [key_block_mac_len]. *)
From Psec Require Import Lib.Base Cipher.Cipher Cipher.Toy Model.Mac Model.Tr31.
From Psec Require Import Proofs.TextLemmas Proofs.Tr31Defs Proofs.Tr31Codec.
Open Scope N_scope.

(* ---- the wrap output ---- *)
Theorem C12_wrap_framing : forall cd ca, ciphers_ok cd ca ->
  forall kbpk h key mask tape s abs ml,
  header_ok h -> bytes_ok key = true -> bytes_ok tape = true ->
  algo_block_size (version_id h) = Ok abs -> key_block_mac_len (version_id h) = Ok ml ->
  kb_wrap cd ca kbpk h key mask tape = Ok s ->
  ascii_printable s = true /\ lenN s <= 9999 /\
  slice 1 4 s = zfill 4 (str_of_N (lenN s)) /\ (length s mod abs = 0)%nat /\
  exists n t ek mac,
    blocks_dump abs (blocks h) = Ok (n, t) /\
    slice 12 2 s = zfill 2 (str_of_N (N.of_nat n)) /\ (n <= 99)%nat /\
    (n = length (blocks h) \/ n = S (length (blocks h))) /\
    ((16 + length t) mod abs = 0)%nat /\
    s = header_text h (lenN s) n t ++ hex_upper ek ++ hex_upper mac /\
    length mac = ml /\
    (length ek mod abs = 0)%nat /\ (abs <= length ek)%nat /\
    bytes_ok ek = true /\ bytes_ok mac = true /\
    forallb is_upper_hex (hex_upper ek ++ hex_upper mac) = true.
Proof. exact wrap_framing_tables. Qed.
Print Assumptions C12_wrap_framing.

(* the two fields named above really are the decimal texts of those numbers *)
Theorem C12_length_field_decodes : forall n, n <= 9999 ->
  int_of_dec (zfill 4 (str_of_N n)) = Ok n /\ length (zfill 4 (str_of_N n)) = 4%nat /\
  ascii_numeric (zfill 4 (str_of_N n)) = true.
Proof. exact int_of_dec_zfill4. Qed.
Print Assumptions C12_length_field_decodes.

Theorem C12_count_field_decodes : forall n, n <= 99 ->
  int_of_dec (zfill 2 (str_of_N n)) = Ok n /\ length (zfill 2 (str_of_N n)) = 2%nat /\
  ascii_numeric (zfill 2 (str_of_N n)) = true.
Proof. exact int_of_dec_zfill2. Qed.
Print Assumptions C12_count_field_decodes.

Theorem C12_hex_upper_is_upper_hex : forall b, bytes_ok b = true ->
  forallb is_upper_hex (hex_upper b) = true.
Proof. exact hex_upper_is_upper_hex. Qed.
Print Assumptions C12_hex_upper_is_upper_hex.

(* ---- at most one pad block, placed last: "PB", its own length in 2 hex
        characters, p zeros, 1 <= p <= block size (both branches of the pad
        formula, p = block size included) ---- *)
Theorem C12_pad_block_shape : forall abs d n t t0, (abs = 8 \/ abs = 16)%nat ->
  blocks_dump abs d = Ok (n, t) -> dump_items d = Ok t0 ->
  (t = t0 /\ n = length d /\ (length t0 mod abs = 0)%nat) \/
  (exists p, (1 <= p <= abs)%nat /\
     t = t0 ++ [80; 66] ++ hex_upper (be_bytes 1 (N.of_nat (4 + p))) ++ repeat 48 p /\
     n = S (length d) /\ (length t mod abs = 0)%nat).
Proof. exact blocks_dump_pad_shape. Qed.
Print Assumptions C12_pad_block_shape.

(* the dumped blocks (pad block included) re-load to the same ordered dict, the
   pad block being skipped, whatever text follows *)
Theorem C12_blocks_roundtrip : forall abs d n t, (abs = 8 \/ abs = 16)%nat ->
  Forall block_entry_ok d -> NoDup (map fst d) -> blocks_dump abs d = Ok (n, t) ->
  (forall rest, blocks_load n (t ++ rest) = (d, Ok (length t))) /\
  (length t mod abs = 0)%nat /\ (n <= 99)%nat /\ ascii_printable t = true.
Proof. exact blocks_roundtrip_tables. Qed.
Print Assumptions C12_blocks_roundtrip.

(* ---- str(header) re-loads, over every prior state of the loading object.
   The premise [lenN t <= 9999] is necessary: Header.__str__ does not enforce
   the 9999 limit, see [C12_str_load_oversize_refuted].  Header.__str__ writes
   16 + len(blocks) in the length field, which load ignores.

   Full statement without the premise (false):
     forall h t, header_ok h -> header_str h = Ok t ->
       forall st, header_load st t = (h, Ok (length t))                    ---- *)
Theorem C12_str_load : forall h t, header_ok h -> header_str h = Ok t -> lenN t <= 9999 ->
  (forall st, header_load st t = (h, Ok (length t))) /\
  (forall st rest, header_load st (t ++ rest) = (h, Ok (length t))) /\
  exists abs n bt, algo_block_size (version_id h) = Ok abs /\
    blocks_dump abs (blocks h) = Ok (n, bt) /\ t = header_text h (16 + lenN bt) n bt.
Proof. exact header_str_load_tables. Qed.
Print Assumptions C12_str_load.

(* the header that wrap emits (Header.dump) re-loads likewise *)
Theorem C12_dump_load : forall h key_len t, header_ok h -> header_dump h key_len = Ok t ->
  (forall st, header_load st t = (h, Ok (length t))) /\
  (forall st rest, header_load st (t ++ rest) = (h, Ok (length t))).
Proof. exact header_dump_load_tables. Qed.
Print Assumptions C12_dump_load.

(* ---- limits: Header.dump succeeds only within them ... ---- *)
Theorem C12_limits_ok : forall h kl s, version_supported (version_id h) = true ->
  header_dump h kl = Ok s ->
  Forall (fun e => lenN (snd e) <= 65525) (blocks h) /\
  exists n t t0, blocks_dump (version_abs (version_id h)) (blocks h) = Ok (n, t) /\
    dump_items (blocks h) = Ok t0 /\
    n = (length (blocks h) + pad_count (version_abs (version_id h)) t0)%nat /\ (n <= 99)%nat /\
    kb_len_of (version_abs (version_id h)) (version_maclen (version_id h)) kl t <= 9999 /\
    kb_len_of (version_abs (version_id h)) (version_maclen (version_id h)) kl t
      = 16 + lenN t + 2 * (2 + kl + pad_len_N (version_abs (version_id h)) kl)
        + 2 * N.of_nat (version_maclen (version_id h)).
Proof. exact header_dump_limits_ok. Qed.
Print Assumptions C12_limits_ok.

(* ... and fails exactly when a block is longer than 65535 - 10, the block count
   (pad block included) exceeds 99, or the total exceeds 9999 - always with
   HeaderError.  ([version_abs] / [version_maclen] are the tables 8,8,8,16 and
   4,8,4,16 for A,B,C,D; [pad_count] is 0 or 1.) *)
Theorem C12_limits_err : forall h kl e, version_supported (version_id h) = true ->
  header_dump h kl = Err e ->
  e = HeaderError /\
  (Exists (fun b => 65525 < lenN (snd b)) (blocks h) \/
   (exists t0, dump_items (blocks h) = Ok t0 /\
               (99 < length (blocks h) + pad_count (version_abs (version_id h)) t0)%nat) \/
   (exists n t, blocks_dump (version_abs (version_id h)) (blocks h) = Ok (n, t) /\
                9999 < kb_len_of (version_abs (version_id h)) (version_maclen (version_id h)) kl t)).
Proof. exact header_dump_limits_err. Qed.
Print Assumptions C12_limits_err.

Theorem C12_version_tables : forall v, version_supported v = true ->
  algo_block_size v = Ok (version_abs v) /\ key_block_mac_len v = Ok (version_maclen v) /\
  (version_abs v = 8 \/ version_abs v = 16)%nat.
Proof. exact version_tables. Qed.
Print Assumptions C12_version_tables.

(* ------------------------------------------------------------------ *)
(* Examples: the premises are satisfiable (toy ciphers, Cipher/Toy.v)   *)
Example C12_ciphers_inhabited : ciphers_ok toy_tdes toy_aes.
Proof. exact toy_ciphers_ok. Qed.

Ltac header_ok_tac :=
  unfold header_ok, field_ok, block_entry_ok;
  cbn [version_id key_usage algorithm mode_of_use version_num exportability reserved blocks
       fst snd map];
  repeat split; try reflexivity;
  repeat (constructor; cbn [fst snd]; try (repeat split; vm_compute; reflexivity));
  try (cbn [In]; intuition discriminate).

(* "B" "P0" "T" "E" "00" "N", no optional block *)
Definition exB : header := mkHeader [66] [80; 48] [84] [69] [48; 48] [78] [48; 48] [].
Example exB_ok : header_ok exB.
Proof. header_ok_tac. Qed.

(* a wrap under version B: 96 characters, as the pinned library produces *)
Example C12_wrap_B_instance :
  match kb_wrap toy_tdes toy_aes (repeat 255 16) exB (repeat 238 16) None (repeat 7 14) with
  | Ok s => (lenN s =? 96) && list_eqb (firstn 16 s)
              [66; 48; 48; 57; 54; 80; 48; 84; 69; 48; 48; 78; 48; 48; 48; 48]
  | Err _ => false
  end = true.
Proof. vm_compute. reflexivity. Qed.

(* blocks["TT"] = "HelloWorld": needs a pad block; str() is the library's
   documented 'B0040P0TE00N0200TT0EHelloWorldPB0A000000' and re-loads *)
Definition exTT : header :=
  mkHeader [66] [80; 48] [84] [69] [48; 48] [78] [48; 48]
           [([84; 84], [72; 101; 108; 108; 111; 87; 111; 114; 108; 100])].
Example exTT_ok : header_ok exTT.
Proof. header_ok_tac. Qed.

Definition exTT_str : str :=
  [66; 48; 48; 52; 48; 80; 48; 84; 69; 48; 48; 78; 48; 50; 48; 48; 84; 84; 48; 69; 72; 101;
   108; 108; 111; 87; 111; 114; 108; 100; 80; 66; 48; 65; 48; 48; 48; 48; 48; 48].
Example C12_str_pad_instance :
  header_str exTT = Ok exTT_str /\ header_load default_header exTT_str = (exTT, Ok 40%nat).
Proof. split; vm_compute; reflexivity. Qed.

Example C12_wrap_pad_instance :
  match kb_wrap toy_tdes toy_aes (repeat 255 16) exTT (repeat 238 16) None (repeat 7 14) with
  | Ok s => (lenN s =? 120) && list_eqb (firstn 40 s) ([66; 48; 49; 50; 48] ++ skipn 5 exTT_str)
  | Err _ => false
  end = true.
Proof. vm_compute. reflexivity. Qed.

(* a full-size pad block: blocks["AA"] = "" gives "AA04", (4 + 4) mod 8 = 0, pad of 8 zeros *)
Example C12_full_pad_instance :
  blocks_dump 8 [([65; 65], [])]
  = Ok (2%nat, [65; 65; 48; 52] ++ [80; 66; 48; 67] ++ repeat 48 8).
Proof. vm_compute. reflexivity. Qed.

(* version D, an extended-length block (300 characters), wrap of a 16-byte AES key *)
Definition exKS : header :=
  mkHeader [68] [75; 48] [65] [66] [48; 48] [69] [48; 48] [([75; 83], repeat 65 300)].
Example exKS_ok : header_ok exKS.
Proof. header_ok_tac. Qed.

Example C12_extended_len_instance :
  match header_str exKS with
  | Ok t => (lenN t =? 336)
            && list_eqb (slice 16 10 t) [75; 83; 48; 48; 48; 50; 48; 49; 51; 54]
            && match header_load default_header t with
               | (h, Ok n) => (n =? 336)%nat && list_eqb (snd (hd ([], []) (blocks h))) (repeat 65 300)
               | _ => false
               end
  | Err _ => false
  end = true.
Proof. vm_compute. reflexivity. Qed.

Example C12_wrap_D_instance :
  match kb_wrap toy_tdes toy_aes (repeat 17 32) exKS (repeat 34 16) None (repeat 9 30) with
  | Ok s => (lenN s =? 464)
  | Err _ => false
  end = true.
Proof. vm_compute. reflexivity. Qed.

(* ---- the premise [is_pad_id = false] of [header_ok] is necessary: a caller
        block "pb" is written by str() but dropped by load ---- *)
Definition exPb : header :=
  mkHeader [66] [80; 48] [84] [69] [48; 48] [78] [48; 48] [([112; 98], [88])].
Example C12_pb_premise_needed :
  blocks_setitem [112; 98] [88] [] = Ok (blocks exPb) /\
  is_pad_id [112; 98] = true /\
  exists t, header_str exPb = Ok t /\
            header_load default_header t = (set_blocks exPb [], Ok 32%nat) /\
            set_blocks exPb [] <> exPb.
Proof.
  split; [reflexivity|]. split; [reflexivity|]. eexists. split; [vm_compute; reflexivity|].
  split; [vm_compute; reflexivity | discriminate].
Qed.

(* ---- the premise [lenN t <= 9999] of [C12_str_load] is necessary: with a
        9980-character block str() writes a 5-digit length and does not re-load
        (same behaviour on the pinned library: HeaderError) ---- *)
Definition exBig : header :=
  mkHeader [66] [80; 48] [84] [69] [48; 48] [78] [48; 48] [([65; 65], repeat 120 (N.to_nat 9980))].
Example exBig_ok : header_ok exBig.
Proof. header_ok_tac. Qed.

Example C12_str_load_oversize_refuted :
  header_ok exBig /\
  match header_str exBig with
  | Ok t => (lenN t =? 10017) && match snd (header_load default_header t) with
                                 | Err HeaderError => true
                                 | _ => false
                                 end
  | Err _ => false
  end = true.
Proof. split; [exact exBig_ok | vm_compute; reflexivity]. Qed.

(* ================================================================== *)
(* The whole mapping API of Blocks (the methods Blocks defines and the collections.abc.MutableMapping mixins built on
   them: update, setdefault, pop, popitem, clear; Model/BlocksApi.v).  Whatever a caller does through that API, the
   object holds only 2-character alphanumeric ids with printable ASCII data, unique ids - the invariant the framing
   theorems above start from.  Strings are lists of code points: "KS" = [75;83], "KP" = [75;80], "TS" = [84;83],
   "PB" = [80;66], "K!" = [75;33], "12" = [49;50]. *)
From Psec Require Import Proofs.Tr31SafetyLoad Proofs.Tr31Loaded Model.BlocksApi Proofs.BlocksApiLemmas.

(* ---------------- (a) every reachable Blocks object ---------------- *)
Theorem C12_api_step_wf : forall d op,
  Forall entry_wf d -> Forall entry_wf (fst (api_step d op)).
Proof. exact api_step_wf. Qed.
Print Assumptions C12_api_step_wf.

Theorem C12_api_step_nodup : forall d op,
  NoDup (map fst d) -> NoDup (map fst (fst (api_step d op))).
Proof. exact api_step_nodup. Qed.
Print Assumptions C12_api_step_nodup.

Theorem C12_api_run_wf : forall ops d,
  Forall entry_wf d -> Forall entry_wf (fst (api_run d ops)).
Proof. exact api_run_wf. Qed.
Print Assumptions C12_api_run_wf.

Theorem C12_api_run_nodup : forall ops d,
  NoDup (map fst d) -> NoDup (map fst (fst (api_run d ops))).
Proof. exact api_run_nodup. Qed.
Print Assumptions C12_api_run_nodup.

(* Blocks() and then any calls: valid ids, printable data, distinct ids *)
Theorem C12_api_reachable : forall ops,
  Forall entry_wf (fst (api_run [] ops)) /\ NoDup (map fst (fst (api_run [] ops))).
Proof. exact api_reachable. Qed.
Print Assumptions C12_api_reachable.

(* ---------------- (b) exceptions ---------------- *)
Theorem C12_api_step_errors : forall d op e, snd (api_step d op) = AoErr e ->
  (e = HeaderError /\ match op with ASetItem _ _ | AUpdate _ | ASetDefault _ _ => True | _ => False end) \/
  (e = Crash CKey /\ match op with ADelItem _ | APop _ | AGetItem _ | APopItem => True | _ => False end).
Proof. exact api_step_errors. Qed.
Print Assumptions C12_api_step_errors.

Theorem C12_api_setitem_error_iff : forall d id v,
  snd (api_step d (ASetItem id v)) = AoErr HeaderError <->
  ~ (length id = 2%nat /\ ascii_alphanumeric id = true /\ ascii_printable v = true).
Proof. exact setitem_error_iff. Qed.
Print Assumptions C12_api_setitem_error_iff.

Theorem C12_api_setitem_ok_iff : forall d id v,
  snd (api_step d (ASetItem id v)) = AoNone <->
  length id = 2%nat /\ ascii_alphanumeric id = true /\ ascii_printable v = true.
Proof. exact setitem_ok_iff. Qed.
Print Assumptions C12_api_setitem_ok_iff.

Theorem C12_api_update_error_iff : forall d kvs,
  snd (api_step d (AUpdate kvs)) = AoErr HeaderError <->
  Exists (fun kv => ~ (length (fst kv) = 2%nat /\ ascii_alphanumeric (fst kv) = true /\
                       ascii_printable (snd kv) = true)) kvs.
Proof. exact update_error_iff. Qed.
Print Assumptions C12_api_update_error_iff.

Theorem C12_api_update_ok_iff : forall d kvs,
  snd (api_step d (AUpdate kvs)) = AoNone <->
  Forall (fun kv => length (fst kv) = 2%nat /\ ascii_alphanumeric (fst kv) = true /\
                    ascii_printable (snd kv) = true) kvs.
Proof. exact update_ok_iff. Qed.
Print Assumptions C12_api_update_ok_iff.

Theorem C12_api_setdefault_error_iff : forall d id v,
  snd (api_step d (ASetDefault id v)) = AoErr HeaderError <->
  dict_mem id d = false /\
  ~ (length id = 2%nat /\ ascii_alphanumeric id = true /\ ascii_printable v = true).
Proof. exact setdefault_error_iff. Qed.
Print Assumptions C12_api_setdefault_error_iff.

Theorem C12_api_key_error_iff : forall d id,
  (snd (api_step d (ADelItem id)) = AoErr (Crash CKey) <-> dict_mem id d = false) /\
  (snd (api_step d (APop id)) = AoErr (Crash CKey) <-> dict_mem id d = false) /\
  (snd (api_step d (AGetItem id)) = AoErr (Crash CKey) <-> dict_mem id d = false) /\
  (snd (api_step d APopItem) = AoErr (Crash CKey) <-> d = []).
Proof.
  exact (fun d id => conj (delitem_error_iff d id) (conj (pop_error_iff d id)
           (conj (getitem_error_iff d id) (popitem_error_iff d)))).
Qed.
Print Assumptions C12_api_key_error_iff.

Theorem C12_api_mem_is_in : forall k d, dict_mem k d = true <-> In k (map fst d).
Proof. exact dict_mem_in. Qed.
Print Assumptions C12_api_mem_is_in.

Theorem C12_api_total_ops : forall d op e,
  match op with AClear | AContains _ | ALen => True | _ => False end ->
  snd (api_step d op) <> AoErr e.
Proof. exact total_ops_no_error. Qed.
Print Assumptions C12_api_total_ops.

(* a call that raises leaves the object as it was, update excepted *)
Theorem C12_api_error_unchanged : forall d op e, snd (api_step d op) = AoErr e ->
  (forall kvs, op <> AUpdate kvs) -> fst (api_step d op) = d.
Proof. exact api_step_error_unchanged. Qed.
Print Assumptions C12_api_error_unchanged.

(* ---------------- (c) update ---------------- *)
Theorem C12_api_update_is_fold : forall kvs d,
  api_step d (AUpdate kvs) =
  fold_left (fun (st : dict * api_out) kv =>
               match snd st with
               | AoNone => match blocks_setitem (fst kv) (snd kv) (fst st) with
                           | Ok d' => (d', AoNone)
                           | Err e => (fst st, AoErr e)
                           end
               | _ => st
               end) kvs (d, AoNone).
Proof. exact update_is_fold. Qed.
Print Assumptions C12_api_update_is_fold.

Theorem C12_api_update_all_valid : forall kvs d,
  Forall (fun kv => length (fst kv) = 2%nat /\ ascii_alphanumeric (fst kv) = true /\
                    ascii_printable (snd kv) = true) kvs ->
  api_step d (AUpdate kvs) =
  (fold_left (fun d kv => dict_set (fst kv) (snd kv) d) kvs d, AoNone).
Proof. exact update_all_valid. Qed.
Print Assumptions C12_api_update_all_valid.

(* the assignments before the first invalid pair persist; the rest is not reached *)
Theorem C12_api_update_first_invalid : forall good bad rest d,
  Forall (fun kv => length (fst kv) = 2%nat /\ ascii_alphanumeric (fst kv) = true /\
                    ascii_printable (snd kv) = true) good ->
  ~ (length (fst bad) = 2%nat /\ ascii_alphanumeric (fst bad) = true /\
     ascii_printable (snd bad) = true) ->
  api_step d (AUpdate (good ++ bad :: rest)) =
  (fold_left (fun d kv => dict_set (fst kv) (snd kv) d) good d, AoErr HeaderError).
Proof. exact update_first_invalid. Qed.
Print Assumptions C12_api_update_first_invalid.

(* ---------------- (d) setdefault ---------------- *)
(* v is arbitrary - also invalid: it is neither validated nor stored *)
Theorem C12_api_setdefault_existing : forall d id v, dict_mem id d = true ->
  exists s, dict_get id d = Some s /\ In (id, s) d /\
            api_step d (ASetDefault id v) = (d, AoStr s).
Proof. exact setdefault_existing. Qed.
Print Assumptions C12_api_setdefault_existing.

Theorem C12_api_setdefault_missing : forall d id v, dict_mem id d = false ->
  api_step d (ASetDefault id v) =
  match api_step d (ASetItem id v) with
  | (d', AoNone) => (d', AoStr v)
  | r => r
  end.
Proof. exact setdefault_missing. Qed.
Print Assumptions C12_api_setdefault_missing.

(* ---------------- (e) pop, popitem, clear ---------------- *)
Theorem C12_api_pop_is_get_then_del : forall d id,
  api_step d (APop id) =
  match snd (api_step d (AGetItem id)) with
  | AoStr v => (fst (api_step d (ADelItem id)), AoStr v)
  | o => (d, o)
  end.
Proof. exact pop_is_get_then_del. Qed.
Print Assumptions C12_api_pop_is_get_then_del.

(* no premise: NoDup of the ids is not needed *)
Theorem C12_api_popitem_first : forall k v r,
  api_step ((k, v) :: r) APopItem = (r, AoPair k v).
Proof. exact popitem_first. Qed.
Print Assumptions C12_api_popitem_first.

Theorem C12_api_clear_empties : forall d,
  fst (api_step d AClear) = [] /\ snd (api_step d AClear) = AoNone /\
  api_step (fst (api_step d AClear)) APopItem = ([], AoErr (Crash CKey)).
Proof. exact (fun d => conj (clear_empties d) (conj (clear_returns_none d) (clear_exit d))). Qed.
Print Assumptions C12_api_clear_empties.

(* any fuel >= len(self) gives the same result: the loop is not cut short *)
Theorem C12_api_clear_fuel : forall n d, (length d <= n)%nat ->
  api_clear_loop n d = api_step d AClear.
Proof. exact clear_fuel_enough. Qed.
Print Assumptions C12_api_clear_fuel.

(* ---------------- (f) order ---------------- *)
Theorem C12_api_setitem_existing_order : forall d id v,
  length id = 2%nat /\ ascii_alphanumeric id = true /\ ascii_printable v = true ->
  dict_mem id d = true ->
  exists l1 old l2, d = l1 ++ (id, old) :: l2 /\ ~ In id (map fst l1) /\
    api_step d (ASetItem id v) = (l1 ++ (id, v) :: l2, AoNone) /\
    map fst (fst (api_step d (ASetItem id v))) = map fst d.
Proof. exact setitem_existing_order. Qed.
Print Assumptions C12_api_setitem_existing_order.

Theorem C12_api_setitem_new_appends : forall d id v,
  length id = 2%nat /\ ascii_alphanumeric id = true /\ ascii_printable v = true ->
  dict_mem id d = false ->
  api_step d (ASetItem id v) = (d ++ [(id, v)], AoNone).
Proof. exact setitem_new_appends. Qed.
Print Assumptions C12_api_setitem_new_appends.

Theorem C12_api_delitem_order : forall d id, dict_mem id d = true ->
  exists l1 v l2, d = l1 ++ (id, v) :: l2 /\ ~ In id (map fst l1) /\
    api_step d (ADelItem id) = (l1 ++ l2, AoNone) /\
    api_step d (APop id) = (l1 ++ l2, AoStr v).
Proof. exact delitem_order. Qed.
Print Assumptions C12_api_delitem_order.

Theorem C12_api_delitem_filter : forall d id, NoDup (map fst d) -> dict_mem id d = true ->
  fst (api_step d (ADelItem id)) = filter (fun kv => negb (list_eqb id (fst kv))) d /\
  fst (api_step d (APop id)) = filter (fun kv => negb (list_eqb id (fst kv))) d /\
  dict_mem id (fst (api_step d (ADelItem id))) = false.
Proof. exact delitem_filter. Qed.
Print Assumptions C12_api_delitem_filter.

(* ---------------- (g) the header ---------------- *)
Theorem C12_api_header_wf : forall h ops, header_wf h ->
  header_wf (set_blocks h (fst (api_run (blocks h) ops))).
Proof. exact api_run_header_wf. Qed.
Print Assumptions C12_api_header_wf.

(* header_ok's entries exclude pad ids, which __setitem__ accepts *)
Theorem C12_api_header_ok : forall h ops, Forall (fun op => op_pad_free op = true) ops ->
  header_ok h -> header_ok (set_blocks h (fst (api_run (blocks h) ops))).
Proof. exact api_run_header_ok. Qed.
Print Assumptions C12_api_header_ok.

(*  forall h ops, header_ok h -> header_ok (set_blocks h (fst (api_run (blocks h) ops)))
    is false: *)
Example C12_api_header_ok_no_premise_refuted :
  exists h ops, header_ok h /\
    header_wf (set_blocks h (fst (api_run (blocks h) ops))) /\
    ~ header_ok (set_blocks h (fst (api_run (blocks h) ops))).
Proof. exact header_ok_pad_premise_needed. Qed.

(*  delitem_filter without NoDup is false (on dicts no call sequence reaches) *)
Example C12_api_delitem_filter_no_nodup_refuted :
  exists d id, dict_mem id d = true /\
    fst (api_step d (ADelItem id)) <> filter (fun kv => negb (list_eqb id (fst kv))) d.
Proof. exact delitem_filter_needs_nodup. Qed.

(* ---------------- examples ---------------- *)
Definition KS : str := [75; 83].
Definition KP : str := [75; 80].
Definition TS : str := [84; 83].
Definition PB : str := [80; 66].
Definition bad_id : str := [75; 33].       (* "K!" *)
Definition nl : str := [10].                (* "\n": not printable *)
Definition s12 : str := [49; 50].
Definition s34 : str := [51; 52].
Definition s56 : str := [53; 54].

(* update with an invalid pair in the middle: the first pair stays, HeaderError,
   the third pair is not assigned *)
Example ex_update_invalid_middle :
  api_step [] (AUpdate [(KS, s12); (bad_id, s34); (KP, s56)]) = ([(KS, s12)], AoErr HeaderError).
Proof. vm_compute. reflexivity. Qed.

Example ex_update_invalid_data_middle :
  api_step [(TS, s56)] (AUpdate [(KS, s12); (TS, s34); (KP, nl); (KP, s56)])
  = ([(TS, s34); (KS, s12)], AoErr HeaderError).
Proof. vm_compute. reflexivity. Qed.

Example ex_update_all_valid :
  api_step [(TS, s56)] (AUpdate [(KS, s12); (TS, s34); (KS, s56)])
  = ([(TS, s34); (KS, s56)], AoNone).
Proof. vm_compute. reflexivity. Qed.

(* setdefault on an existing id with invalid data: the default is not validated,
   no error, nothing changes *)
Example ex_setdefault_existing_invalid :
  api_step [(KS, s12)] (ASetDefault KS nl) = ([(KS, s12)], AoStr s12).
Proof. vm_compute. reflexivity. Qed.

Example ex_setdefault_missing_invalid :
  api_step [(KS, s12)] (ASetDefault KP nl) = ([(KS, s12)], AoErr HeaderError).
Proof. vm_compute. reflexivity. Qed.

Example ex_setdefault_missing_valid :
  api_step [(KS, s12)] (ASetDefault KP s34) = ([(KS, s12); (KP, s34)], AoStr s34).
Proof. vm_compute. reflexivity. Qed.

(* popitem: first in insertion order (FIFO - unlike dict.popitem, which is LIFO) *)
Example ex_popitem_order :
  api_run [(KS, s12); (KP, s34); (TS, s56)] [APopItem; APopItem; APopItem; APopItem]
  = ([], [AoPair KS s12; AoPair KP s34; AoPair TS s56; AoErr (Crash CKey)]).
Proof. vm_compute. reflexivity. Qed.

Example ex_clear :
  api_run [(KS, s12); (KP, s34); (TS, s56)] [ALen; AClear; ALen; AClear]
  = ([], [AoNat 3; AoNone; AoNat 0; AoNone]).
Proof. vm_compute. reflexivity. Qed.

(* all ops *)
Example ex_mixed :
  api_run []
    [ ASetItem KS s12;                  (* {KS:12} *)
      ASetItem bad_id s12;              (* HeaderError *)
      AUpdate [(KP, s34); (TS, s56)];   (* {KS:12, KP:34, TS:56} *)
      ASetItem KS s56;                  (* in place: {KS:56, KP:34, TS:56} *)
      ASetDefault KP nl;                (* "34", no validation *)
      ASetDefault PB [];                (* appended: PB is alphanumeric *)
      AContains PB; ALen;
      APop KP;                          (* "34" *)
      APop KP;                          (* KeyError *)
      ADelItem PB; ADelItem PB;         (* None, KeyError *)
      AGetItem TS; AGetItem KP;         (* "56", KeyError *)
      APopItem;                         (* (KS, 56) *)
      AUpdate [(KS, s12); (KP, nl)];    (* KS appended after TS, then HeaderError *)
      AContains KP; ALen; AClear; ALen; APopItem ]
  = ([], [ AoNone; AoErr HeaderError; AoNone; AoNone; AoStr s34; AoStr []; AoBool true; AoNat 4;
           AoStr s34; AoErr (Crash CKey); AoNone; AoErr (Crash CKey); AoStr s56; AoErr (Crash CKey);
           AoPair KS s56; AoErr HeaderError; AoBool false; AoNat 2; AoNone; AoNat 0;
           AoErr (Crash CKey) ]).
Proof. vm_compute. reflexivity. Qed.

Example ex_mixed_state_before_clear :
  fst (api_run []
    [ ASetItem KS s12; AUpdate [(KP, s34); (TS, s56)]; ASetItem KS s56; APop KP; APopItem;
      AUpdate [(KS, s12); (KP, nl)] ])
  = [(TS, s56); (KS, s12)].
Proof. vm_compute. reflexivity. Qed.

(* the premises of the implications are satisfiable *)
Example ex_header_ok_premise :
  header_ok default_header /\
  Forall (fun op => op_pad_free op = true)
    [ASetItem KS s12; AUpdate [(KP, s34)]; ASetDefault TS s56; APopItem; AClear].
Proof. split; [exact Proofs.Tr31Safety.default_header_ok | repeat constructor]. Qed.
