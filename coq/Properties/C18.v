(* C18 - deterministic operations are pure under repetition, interleaving and threads.
   (1) a generic theorem: calls that never write the shared store (module /
       class state, the callers' argument objects) do not interfere under ANY
       interleaving, and each returns what it returns alone;
   (2) the purity policy re-checked, on every run, against the write-effect
       summaries regenerated from the current psec source (Gen/Effects.v).
   The step from (2) to the premise of (1) - "a function whose summary satisfies
   the policy is a write-free process" - is the abstraction performed by the
   translator harness/effects.py and is part of the trusted base. *)
From Coq Require Import List String.
From Psec Require Import Proofs.Interleave Proofs.EffectPolicy Proofs.EffectClosure Gen.Effects.
Import ListNotations.
Open Scope string_scope.

Theorem C18_pure_calls_do_not_interfere :
  forall (store pstate result : Type) (procs : list (proc store pstate result)) (sched : list nat) (st0 : store),
  Forall (write_free store pstate result) procs ->
  let m := run_sched store pstate result procs sched (st0, initial store pstate result procs) in
  fst m = st0 /\
  forall i p, nth_error procs i = Some p ->
    nth_error (snd m) i =
    Some (solo store pstate result p st0 (count i sched) (Running pstate result (p_init store pstate result p))).
Proof. exact pure_calls_do_not_interfere. Qed.
Print Assumptions C18_pure_calls_do_not_interfere.

(* the current tree: every psec function respects the purity policy and every
   function of the deterministic public API is summarised *)
Theorem C18_current_tree : tree_ok effects = true.
Proof. vm_compute. reflexivity. Qed.
Print Assumptions C18_current_tree.

(* what the policy means for a function that is neither a declared nor a derived mutator *)
Theorem C18_policy_meaning : forall fs f e,
  policy_ok fs = true -> In f fs -> In e (fn_effects f) -> str_in (fn_name f) (all_mutators fs) = false ->
  match e with
  | EWrite OSelf | EWrite (OParam _) | EWrite (OModule _) | EWrite (OUnknown _) => False
  | ECallMethod OSelf m | ECallMethod (OParam _) m | ECallMethod (OModule _) m =>
      str_in m (all_mutating_methods fs) = false
  | ECallMethod (OUnknown _) _ | ECallUnknown _ | EDeclGlobal _ => False
  | _ => True
  end.
Proof. exact policy_non_mutator. Qed.
Print Assumptions C18_policy_meaning.

(* on the current tree none of the functions of the deterministic API is a (declared or derived) mutator *)
Theorem C18_api_is_not_mutator :
  forallb (fun n => negb (str_in n (all_mutators effects)))
    [ "tools.xor"; "tools.odd_parity"; "des.apply_key_variant"; "des.adjust_key_parity"; "des.generate_kcv";
      "des.encrypt_tdes_cbc"; "des.decrypt_tdes_cbc"; "aes.encrypt_aes_cbc"; "aes.decrypt_aes_cbc";
      "mac.generate_cbc_mac"; "mac.generate_retail_mac"; "mac.pad_iso_1"; "mac.pad_iso_2"; "mac.pad_iso_3";
      "cvv.generate_cvv"; "pin.generate_ibm3624_pin"; "pin.generate_ibm3624_offset"; "pin.generate_visa_pvv";
      "pinblock.encode_pinblock_iso_0"; "pinblock.decode_pinblock_iso_0"; "pinblock.decode_pinblock_iso_3";
      "pinblock.decipher_pinblock_iso_4"; "tr31.unwrap"; "tr31.wrap"; "tr31.KeyBlock.wrap"; "tr31.Header.dump";
      "tr31.Header.__str__"; "tr31.Blocks.dump" ] = true.
Proof. vm_compute. reflexivity. Qed.
Print Assumptions C18_api_is_not_mutator.

(* ---- whole call trees.  [policy_non_mutator] is local to one function; lifted to everything a function may run on
   caller-visible state ([calls]: a psec function called by name - dispatch tables are summaries whose effects are
   calls of their members - or a method called on self / a parameter / module state, resolved conservatively by bare
   method name; calls on objects created inside the call are not followed, they cannot touch caller-visible state) *)
Theorem C18_closure_write_free : forall fs f g e,
  policy_ok fs = true -> mutators_guarded fs = true -> In f fs ->
  str_in (fn_name f) (all_mutators fs) = false -> reaches fs f g -> In e (fn_effects g) ->
  direct_shared_write (all_mutating_methods fs) e = false.
Proof. exact closure_write_free. Qed.
Print Assumptions C18_closure_write_free.

(* the side condition on the current tree: no mutator can be reached by name, or as a constructor / setter by bare
   method name, from a function that is not a mutator *)
Theorem C18_current_tree_guarded : mutators_guarded effects = true.
Proof. rewrite <- mutators_guarded_fast_eq. vm_compute. reflexivity. Qed.
Print Assumptions C18_current_tree_guarded.

(* the computed call closure of the deterministic public API on the current tree: saturated (one more round adds
   nothing), every call target has a summary, and it contains no mutator *)
Theorem C18_api_closure :
  let c := reach_list 10 effects required in
  reach_list 1 effects c = c /\
  unresolved effects c = [] /\
  forallb (fun n => negb (str_in n (all_mutators effects))) c = true.
Proof. vm_compute. repeat split. Qed.
Print Assumptions C18_api_closure.

(* the serialisation path of TR-31 is not among the mutators *)
Example C18_wrap_is_not_a_mutator :
  str_in "tr31.KeyBlock.wrap" mutators = false /\ str_in "tr31.Header.dump" mutators = false /\
  str_in "tr31.Header.__str__" mutators = false /\ str_in "tr31.Blocks.dump" mutators = false.
Proof. vm_compute. repeat split. Qed.
