(* C05 - every encoded PIN block has exactly the ISO 9564-1 layout.
   The layout is the independent construction of Spec/ISO9564.v on nibbles;
   [nibbles_of_bytes] lists the two 4-bit halves of each byte, high half first.
   Only statements, each closed by [exact] of a lemma from Proofs/PinblockLemmas.v. *)
From Psec Require Import Lib.Base Cipher.Cipher Cipher.Toy Model.Pinblock.
From Psec Require Import Proofs.XorLemmas Proofs.HexLemmas Spec.ISO9564 Proofs.PinblockLemmas.

(* format 0: (0 | L | PIN | F..F) xor (0000 | 12 PAN digits), bit for bit *)
Theorem C05_format0 : forall pin pan, bad_pin pin = false -> bad_pan13 pan = false ->
  exists b, encode_pinblock_iso_0 pin pan = Ok b /\
            nibbles_of_bytes b = xor_pos (spec_pin_block_0 pin) (spec_pan_block pan).
Proof. exact layout0. Qed.
Print Assumptions C05_format0.

(* format 2: 2 | L | PIN | F..F, bit for bit *)
Theorem C05_format2 : forall pin, bad_pin pin = false ->
  exists b, encode_pinblock_iso_2 pin = Ok b /\ nibbles_of_bytes b = spec_pin_block_2 pin.
Proof. exact layout2. Qed.
Print Assumptions C05_format2.

(* format 3: (3 | L | PIN | fill) xor PAN block; the fill nibbles are the values of
   the first 14 - L random symbols and each lies in A..F *)
Theorem C05_format3 : forall pin pan choices, bad_pin pin = false -> bad_pan13 pan = false ->
  length choices = 10%nat -> Forall (fun c => 65 <= c <= 70)%N choices ->
  exists b, encode_pinblock_iso_3 pin pan choices = Ok b /\
            nibbles_of_bytes b =
              xor_pos (spec_pin_block_3 pin (map (fun c => c - 55)%N choices)) (spec_pan_block pan) /\
            Forall (fun n => 10 <= n <= 15)%N (map (fun c => c - 55)%N choices).
Proof. exact layout3. Qed.
Print Assumptions C05_format3.

(* format 4 PIN field: 4 | L | PIN | A..A up to 16 nibbles | the 8 random bytes *)
Theorem C05_pin_field4 : forall pin tape8, bad_pin pin = false -> length tape8 = 8%nat -> bytes_ok tape8 = true ->
  exists f, encode_pin_field_iso_4 pin tape8 = Ok f /\ length f = 16%nat /\ bytes_ok f = true /\
            nibbles_of_bytes f = spec_pin_field_4 pin (nibbles_of_bytes tape8).
Proof. exact layout_pin_field4. Qed.
Print Assumptions C05_pin_field4.

(* format 4 PAN field, every PAN of 1..19 digits *)
Theorem C05_pan_field4 : forall pan, bad_pan4 pan = false ->
  exists f, encode_pan_field_iso_4 pan = Ok f /\ length f = 16%nat /\ bytes_ok f = true /\
            nibbles_of_bytes f = spec_pan_field_4 pan.
Proof. exact layout_pan_field4. Qed.
Print Assumptions C05_pan_field4.

(* its two regimes: up to 12 digits - length nibble 0 and left zero fill ... *)
Theorem C05_pan_field4_short : forall pan, (length pan <= 12)%nat ->
  spec_pan_field_4 pan = [0%N] ++ repeat 0%N (12 - length pan) ++ digits pan ++ repeat 0%N 19.
Proof. exact spec_pan_field_4_short. Qed.
Print Assumptions C05_pan_field4_short.

(* ... 12 to 19 digits - length nibble len - 12, no left fill *)
Theorem C05_pan_field4_long : forall pan, (12 <= length pan <= 19)%nat ->
  spec_pan_field_4 pan = [N.of_nat (length pan - 12)] ++ digits pan ++ repeat 0%N (31 - length pan).
Proof. exact spec_pan_field_4_long. Qed.
Print Assumptions C05_pan_field4_long.

(* enciphered block = E_K (E_K (PIN field) xor PAN field), a 16-byte block *)
Theorem C05_encipher4 : forall ca, cipher_ok ca -> bs ca = 16%nat ->
  forall key pin pan tape8 pin_field pan_field,
  valid_key ca key = true -> length tape8 = 8%nat -> bytes_ok tape8 = true ->
  encode_pin_field_iso_4 pin tape8 = Ok pin_field -> encode_pan_field_iso_4 pan = Ok pan_field ->
  encipher_pinblock_iso_4 ca key pin pan tape8 =
    Ok (enc ca key (xor_pos (enc ca key pin_field) pan_field)) /\
  block_ok ca (enc ca key (xor_pos (enc ca key pin_field) pan_field)).
Proof. exact encipher4_spec. Qed.
Print Assumptions C05_encipher4.

(* premises are satisfiable *)
Definition c05_pin : str := digit_chars [1; 2; 3; 4]%N.
Definition c05_pan : str := digit_chars [5; 5; 5; 5; 5; 5; 5; 5; 5; 1; 2; 3; 4; 5; 6; 7]%N.
Definition c05_tape : bytes := [1; 2; 3; 4; 5; 6; 7; 255]%N.

Example C05_format0_instance :
  bad_pin c05_pin = false /\ bad_pan13 c05_pan = false /\
  xor_pos (spec_pin_block_0 c05_pin) (spec_pan_block c05_pan) =
    [0; 4; 1; 2; 6; 1; 10; 10; 10; 10; 14; 13; 12; 11; 10; 9]%N /\                   (* 041261AAAAEDCBA9 *)
  spec_pin_block_2 c05_pin = [2; 4; 1; 2; 3; 4; 15; 15; 15; 15; 15; 15; 15; 15; 15; 15]%N.
Proof. vm_compute. repeat split; reflexivity. Qed.

Example C05_pan_field4_instance :
  bad_pan4 (digit_chars [1; 1; 2; 2; 3; 3; 4; 4; 5; 5; 6; 6; 7; 7; 8; 8; 9; 9]%N) = false /\
  encode_pan_field_iso_4 (digit_chars [1; 1; 2; 2; 3; 3; 4; 4; 5; 5; 6; 6; 7; 7; 8; 8; 9; 9]%N) =
    Ok [97; 18; 35; 52; 69; 86; 103; 120; 137; 144; 0; 0; 0; 0; 0; 0]%N /\           (* 6112233445566778899000.. *)
  bad_pan4 (digit_chars [1; 2; 3]%N) = false /\
  encode_pan_field_iso_4 (digit_chars [1; 2; 3]%N) = Ok [0; 0; 0; 0; 0; 18; 48; 0; 0; 0; 0; 0; 0; 0; 0; 0]%N.
Proof. vm_compute. repeat split; reflexivity. Qed.

Example C05_encipher4_instance :
  cipher_ok toy_aes /\ bs toy_aes = 16%nat /\ valid_key toy_aes (repeat 7%N 16) = true /\
  is_ok (encode_pin_field_iso_4 c05_pin c05_tape) = true /\ is_ok (encode_pan_field_iso_4 c05_pan) = true /\
  is_ok (encipher_pinblock_iso_4 toy_aes (repeat 7%N 16) c05_pin c05_pan c05_tape) = true.
Proof. split; [exact toy_aes_ok|]. vm_compute. repeat split; reflexivity. Qed.
