(* C13 - TR-31 key block length does not reveal the key length within the mask.

   "For a fixed version, header and masking argument, the length of the produced
   key block is the same for every key whose length does not exceed the
   effective mask - 24 bytes for algorithm T or D and 32 for algorithm A when no
   mask is given, otherwise the given mask - and the encrypted section always
   holds at least two bytes plus the effective masked length and at most one
   cipher block more.  Keys longer than the mask are still wrapped whole."

   Only statements, each closed by [exact] of a lemma of Proofs/Tr31Codec.v.
   [masked_len h key mask] (Model/Tr31.v) is the masked length wrap computes;
   [eff_mask h mask dflt] (Proofs/Tr31Codec.v) is the effective mask:
       mask = None   : 24 for algorithm "T"/"D", 32 for "A", else dflt (= len key: no mask)
       mask = Some z : z  (a negative z counts as 0)
   and masked_len = max (eff_mask .. (len key)) (len key).
   [abs] / [ml] are the cipher block size and MAC size from the model's own
   tables; [tape] is the os.urandom draw; [t] the optional-block text. *)
From Psec Require Import Lib.Base Cipher.Cipher Cipher.Toy Model.Mac Model.Tr31.
From Psec Require Import Proofs.TextLemmas Proofs.Tr31Defs Proofs.Tr31Codec.
Open Scope N_scope.

(* ---- the length of the key block is a function of the masked length only ---- *)
Theorem C13_len : forall cd ca, ciphers_ok cd ca ->
  forall kbpk h key mask tape s abs ml n t,
  header_ok h -> bytes_ok key = true -> bytes_ok tape = true ->
  algo_block_size (version_id h) = Ok abs -> key_block_mac_len (version_id h) = Ok ml ->
  kb_wrap cd ca kbpk h key mask tape = Ok s ->
  blocks_dump abs (blocks h) = Ok (n, t) ->
  let m := masked_len h key mask in
  let padlen := N.of_nat abs - (2 + m) mod N.of_nat abs in
  lenN s = 16 + lenN t + 2 * (2 + m + padlen) + 2 * N.of_nat ml.
Proof. exact wrap_length_tables. Qed.
Print Assumptions C13_len.

(* ---- the masked length: the effective mask for keys within it, the key's own
        length beyond it (keys longer than the mask are wrapped whole) ---- *)
Theorem C13_masked_len : forall h key mask,
  masked_len h key mask = N.max (eff_mask h mask (lenN key)) (lenN key).
Proof. exact masked_len_eff. Qed.
Print Assumptions C13_masked_len.

Theorem C13_masked_len_within : forall h key mask,
  lenN key <= eff_mask h mask (lenN key) -> masked_len h key mask = eff_mask h mask (lenN key).
Proof. exact masked_len_within. Qed.
Print Assumptions C13_masked_len_within.

Theorem C13_masked_len_beyond : forall h key mask,
  eff_mask h mask (lenN key) <= lenN key -> masked_len h key mask = lenN key.
Proof. exact masked_len_beyond. Qed.
Print Assumptions C13_masked_len_beyond.

Theorem C13_eff_mask_T : forall h d, algorithm h = [84] -> eff_mask h None d = 24.
Proof. exact eff_mask_T. Qed.
Print Assumptions C13_eff_mask_T.
Theorem C13_eff_mask_D : forall h d, algorithm h = [68] -> eff_mask h None d = 24.
Proof. exact eff_mask_D. Qed.
Print Assumptions C13_eff_mask_D.
Theorem C13_eff_mask_A : forall h d, algorithm h = [65] -> eff_mask h None d = 32.
Proof. exact eff_mask_A. Qed.
Print Assumptions C13_eff_mask_A.
Theorem C13_eff_mask_other : forall h d,
  algorithm h <> [84] -> algorithm h <> [68] -> algorithm h <> [65] -> eff_mask h None d = d.
Proof. exact eff_mask_other. Qed.
Print Assumptions C13_eff_mask_other.
Theorem C13_eff_mask_given : forall h z d, eff_mask h (Some z) d = Z.to_N z.
Proof. exact eff_mask_some. Qed.
Print Assumptions C13_eff_mask_given.

(* ---- equal lengths: same kbpk, header and mask argument; the effective mask
        [e] does not depend on the key (algorithm T, D or A, or an explicit
        mask); two keys within it, each with its own random draw ---- *)
Theorem C13_equal : forall cd ca, ciphers_ok cd ca ->
  forall kbpk h mask e k1 k2 tape1 tape2 s1 s2,
  header_ok h -> (forall dflt, eff_mask h mask dflt = e) ->
  bytes_ok k1 = true -> bytes_ok k2 = true -> bytes_ok tape1 = true -> bytes_ok tape2 = true ->
  lenN k1 <= e -> lenN k2 <= e ->
  kb_wrap cd ca kbpk h k1 mask tape1 = Ok s1 -> kb_wrap cd ca kbpk h k2 mask tape2 = Ok s2 ->
  length s1 = length s2.
Proof. exact wrap_length_equal. Qed.
Print Assumptions C13_equal.

(* ---- the encrypted section [ek] (in bytes): more than 2 + masked length, at
        most one cipher block more; the masked length covers the key ---- *)
Theorem C13_enc_bounds : forall cd ca, ciphers_ok cd ca ->
  forall kbpk h key mask tape s abs ml,
  header_ok h -> bytes_ok key = true -> bytes_ok tape = true ->
  algo_block_size (version_id h) = Ok abs -> key_block_mac_len (version_id h) = Ok ml ->
  kb_wrap cd ca kbpk h key mask tape = Ok s ->
  let m := masked_len h key mask in
  exists n t ek mac,
    blocks_dump abs (blocks h) = Ok (n, t) /\
    s = header_text h (lenN s) n t ++ hex_upper ek ++ hex_upper mac /\
    length mac = ml /\
    2 + m < lenN ek /\ lenN ek <= 2 + m + N.of_nat abs /\ lenN key <= m.
Proof. exact wrap_enc_bounds_tables. Qed.
Print Assumptions C13_enc_bounds.

(* ---- the number of random bytes a successful wrap has drawn ---- *)
Theorem C13_tape_len : forall cd ca, ciphers_ok cd ca ->
  forall kbpk h key mask tape s abs,
  header_ok h -> bytes_ok key = true -> bytes_ok tape = true ->
  algo_block_size (version_id h) = Ok abs ->
  kb_wrap cd ca kbpk h key mask tape = Ok s ->
  let m := masked_len h key mask in
  let padlen := N.of_nat abs - (2 + m) mod N.of_nat abs in
  lenN tape = padlen + (m - lenN key).
Proof. exact wrap_tape_len_tables. Qed.
Print Assumptions C13_tape_len.

(* ------------------------------------------------------------------ *)
(* Examples: the premises are satisfiable (toy ciphers, Cipher/Toy.v)   *)
Example C13_ciphers_inhabited : ciphers_ok toy_tdes toy_aes.
Proof. exact toy_ciphers_ok. Qed.

Ltac header_ok_tac :=
  unfold header_ok, field_ok, block_entry_ok;
  cbn [version_id key_usage algorithm mode_of_use version_num exportability reserved blocks
       fst snd map];
  repeat split; try reflexivity;
  repeat (constructor; cbn [fst snd]; try (repeat split; vm_compute; reflexivity));
  try (cbn [In]; intuition discriminate).

(* "B" "P0" "T" "E" "00" "N" with blocks["TT"] = "HelloWorld" (needs a pad block) *)
Definition exT : header :=
  mkHeader [66] [80; 48] [84] [69] [48; 48] [78] [48; 48]
           [([84; 84], [72; 101; 108; 108; 111; 87; 111; 114; 108; 100])].
Example exT_ok : header_ok exT.
Proof. header_ok_tac. Qed.

Example C13_eff_mask_instance : forall dflt, eff_mask exT None dflt = 24.
Proof. intros. reflexivity. Qed.

Definition wrap_len (h : header) (kbpk key : bytes) (mask : option Z) (tape : bytes) : option N :=
  match kb_wrap toy_tdes toy_aes kbpk h key mask tape with Ok s => Some (lenN s) | Err _ => None end.

(* 8-, 16- and 24-byte keys under algorithm T and no mask: all 120 characters;
   the draws are 6 + 16, 6 + 8 and 6 + 0 bytes *)
Example C13_equal_instance :
  wrap_len exT (repeat 255 16) (repeat 1 8) None (repeat 7 22) = Some 120 /\
  wrap_len exT (repeat 255 16) (repeat 2 16) None (repeat 7 14) = Some 120 /\
  wrap_len exT (repeat 255 16) (repeat 3 24) None (repeat 7 6) = Some 120.
Proof. repeat split; vm_compute; reflexivity. Qed.

(* a key longer than the mask is wrapped whole: 32 bytes under algorithm T *)
Example C13_beyond_instance :
  masked_len exT (repeat 4 32) None = 32 /\
  wrap_len exT (repeat 255 16) (repeat 4 32) None (repeat 7 6) = Some 136.
Proof. split; vm_compute; reflexivity. Qed.

(* an explicit mask of 16: 8- and 16-byte keys give the same length *)
Example C13_given_mask_instance :
  wrap_len exT (repeat 255 16) (repeat 1 8) (Some 16%Z) (repeat 7 14) = Some 104 /\
  wrap_len exT (repeat 255 16) (repeat 2 16) (Some 16%Z) (repeat 7 6) = Some 104.
Proof. split; vm_compute; reflexivity. Qed.

(* a draw of the wrong size cannot succeed (the model's stand-in for os.urandom
   returning exactly the requested number of bytes) *)
Example C13_tape_len_instance :
  wrap_len exT (repeat 255 16) (repeat 2 16) None (repeat 7 13) = None.
Proof. vm_compute. reflexivity. Qed.

(* version D / algorithm A with an extended-length optional block: 16-, 24- and
   32-byte keys all give 464 characters *)
Definition exA : header :=
  mkHeader [68] [75; 48] [65] [66] [48; 48] [69] [48; 48] [([75; 83], repeat 65 300)].
Example exA_ok : header_ok exA.
Proof. header_ok_tac. Qed.

Example C13_equal_D_instance :
  wrap_len exA (repeat 17 32) (repeat 34 16) None (repeat 9 30) = Some 464 /\
  wrap_len exA (repeat 17 32) (repeat 34 24) None (repeat 9 22) = Some 464 /\
  wrap_len exA (repeat 17 32) (repeat 34 32) None (repeat 9 14) = Some 464.
Proof. repeat split; vm_compute; reflexivity. Qed.
