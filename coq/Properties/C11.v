(* C11 - IBM 3624 PIN and offset are standard and mutually inverse.
   Only statements, each closed by [exact] of a lemma from Proofs/CardLemmas.v.
   [spec_ibm3624_pin] / [spec_ibm3624_offset] (Spec/IBM3624.v): natural PIN =
   decimalisation table applied to the nibbles of the encrypted validation data;
   PIN = natural + offset, offset = PIN - natural, digit-wise modulo 10.
   The pad is one hex character [padc]; the window is the one the code accepts:
   length (slice o l pan) = l, i.e. l = 0 \/ o + l <= length pan (C11_window). *)
From Psec Require Import Lib.Base Cipher.Cipher Cipher.Toy Model.Pin
  Spec.CardValues Spec.IBM3624 Proofs.TdesLemmas Proofs.CardLemmas.

Theorem C11_pin : forall cd : cipher,
  cipher_ok cd -> bs cd = 8%nat -> (forall k, valid_key cd k = tdes_valid_key k) ->
  forall pvk table offset pan pv_offset pv_length padc,
  tdes_valid_key pvk = true ->
  length table = 16%nat -> ascii_numeric table = true ->
  (4 <= length offset <= 16)%nat -> ascii_numeric offset = true ->
  (length pan <= 19)%nat -> ascii_numeric pan = true ->
  is_hexch padc = true ->
  length (slice pv_offset pv_length pan) = pv_length ->
  exists p, generate_ibm3624_pin cd pvk table offset pan pv_offset pv_length [padc] = Ok p /\
            p = spec_ibm3624_pin (enc cd) pvk table offset pan pv_offset pv_length padc /\
            length p = length offset /\ ascii_numeric p = true.
Proof. exact ibm_pin_ok. Qed.
Print Assumptions C11_pin.

Theorem C11_offset : forall cd : cipher,
  cipher_ok cd -> bs cd = 8%nat -> (forall k, valid_key cd k = tdes_valid_key k) ->
  forall pvk table pin pan pv_offset pv_length padc,
  tdes_valid_key pvk = true ->
  length table = 16%nat -> ascii_numeric table = true ->
  (4 <= length pin <= 16)%nat -> ascii_numeric pin = true ->
  (length pan <= 19)%nat -> ascii_numeric pan = true ->
  is_hexch padc = true ->
  length (slice pv_offset pv_length pan) = pv_length ->
  exists f, generate_ibm3624_offset cd pvk table pin pan pv_offset pv_length [padc] = Ok f /\
            f = spec_ibm3624_offset (enc cd) pvk table pin pan pv_offset pv_length padc /\
            length f = length pin /\ ascii_numeric f = true.
Proof. exact ibm_offset_ok. Qed.
Print Assumptions C11_offset.

(* offset(pin(o)) = o *)
Theorem C11_inverse1 : forall cd : cipher,
  cipher_ok cd -> bs cd = 8%nat -> (forall k, valid_key cd k = tdes_valid_key k) ->
  forall pvk table offset pan pv_offset pv_length padc,
  tdes_valid_key pvk = true ->
  length table = 16%nat -> ascii_numeric table = true ->
  (4 <= length offset <= 16)%nat -> ascii_numeric offset = true ->
  (length pan <= 19)%nat -> ascii_numeric pan = true ->
  is_hexch padc = true ->
  length (slice pv_offset pv_length pan) = pv_length ->
  exists p, generate_ibm3624_pin cd pvk table offset pan pv_offset pv_length [padc] = Ok p /\
            generate_ibm3624_offset cd pvk table p pan pv_offset pv_length [padc] = Ok offset.
Proof. exact ibm_inverse1. Qed.
Print Assumptions C11_inverse1.

(* pin(offset(p)) = p *)
Theorem C11_inverse2 : forall cd : cipher,
  cipher_ok cd -> bs cd = 8%nat -> (forall k, valid_key cd k = tdes_valid_key k) ->
  forall pvk table pin pan pv_offset pv_length padc,
  tdes_valid_key pvk = true ->
  length table = 16%nat -> ascii_numeric table = true ->
  (4 <= length pin <= 16)%nat -> ascii_numeric pin = true ->
  (length pan <= 19)%nat -> ascii_numeric pan = true ->
  is_hexch padc = true ->
  length (slice pv_offset pv_length pan) = pv_length ->
  exists f, generate_ibm3624_offset cd pvk table pin pan pv_offset pv_length [padc] = Ok f /\
            generate_ibm3624_pin cd pvk table f pan pv_offset pv_length [padc] = Ok pin.
Proof. exact ibm_inverse2. Qed.
Print Assumptions C11_inverse2.

(* Triple DES over any lawful single DES satisfies the three cipher premises *)
Theorem C11_tdes_premises : forall d : des_prim, des_ok d ->
  cipher_ok (tdes d) /\ bs (tdes d) = 8%nat /\ (forall k, valid_key (tdes d) k = tdes_valid_key k).
Proof. intros d Hd. exact (conj (tdes_ok d Hd) (conj eq_refl (fun _ => eq_refl))). Qed.
Print Assumptions C11_tdes_premises.

(* pad characters 'a'..'f' give the same result as 'A'..'F' (any cipher, any input) *)
Theorem C11_pad_case : forall (cd : cipher) pvk table digits pan pv_offset pv_length c,
  (97 <= c <= 102)%N ->
  generate_ibm3624_pin cd pvk table digits pan pv_offset pv_length [c] =
    generate_ibm3624_pin cd pvk table digits pan pv_offset pv_length [(c - 32)%N] /\
  generate_ibm3624_offset cd pvk table digits pan pv_offset pv_length [c] =
    generate_ibm3624_offset cd pvk table digits pan pv_offset pv_length [(c - 32)%N].
Proof. exact ibm_pad_case. Qed.
Print Assumptions C11_pad_case.

(* any violated guard: ValueError *)
Theorem C11_domain_pin : forall (cd : cipher) pvk table offset pan pv_offset pv_length pad,
  (tdes_valid_key pvk = false \/ length table <> 16%nat \/ ascii_numeric table = false \/
   (length offset < 4)%nat \/ (16 < length offset)%nat \/ ascii_numeric offset = false \/
   (19 < length pan)%nat \/ ascii_numeric pan = false \/
   length pad <> 1%nat \/ ascii_hexchar pad = false \/
   length (slice pv_offset pv_length pan) <> pv_length) ->
  generate_ibm3624_pin cd pvk table offset pan pv_offset pv_length pad = Err ValueError.
Proof. exact ibm_pin_domain. Qed.
Print Assumptions C11_domain_pin.

Theorem C11_domain_offset : forall (cd : cipher) pvk table pin pan pv_offset pv_length pad,
  (tdes_valid_key pvk = false \/ length table <> 16%nat \/ ascii_numeric table = false \/
   (length pin < 4)%nat \/ (16 < length pin)%nat \/ ascii_numeric pin = false \/
   (19 < length pan)%nat \/ ascii_numeric pan = false \/
   length pad <> 1%nat \/ ascii_hexchar pad = false \/
   length (slice pv_offset pv_length pan) <> pv_length) ->
  generate_ibm3624_offset cd pvk table pin pan pv_offset pv_length pad = Err ValueError.
Proof. exact ibm_offset_domain. Qed.
Print Assumptions C11_domain_offset.

(* the accepted window in arithmetic terms (an empty window is accepted anywhere) *)
Theorem C11_window : forall (pv_offset pv_length : nat) (pan : str),
  length (slice pv_offset pv_length pan) = pv_length <->
  (pv_length = 0 \/ pv_offset + pv_length <= length pan)%nat.
Proof. exact (@ibm_window_iff N). Qed.
Print Assumptions C11_window.

(* on every input: a value or ValueError; never another exception *)
Theorem C11_total : forall cd : cipher,
  cipher_ok cd -> bs cd = 8%nat -> (forall k, valid_key cd k = tdes_valid_key k) ->
  forall pvk table digits pan pv_offset pv_length pad,
  ((exists v, generate_ibm3624_pin cd pvk table digits pan pv_offset pv_length pad = Ok v) \/
   generate_ibm3624_pin cd pvk table digits pan pv_offset pv_length pad = Err ValueError) /\
  ((exists v, generate_ibm3624_offset cd pvk table digits pan pv_offset pv_length pad = Ok v) \/
   generate_ibm3624_offset cd pvk table digits pan pv_offset pv_length pad = Err ValueError).
Proof. exact ibm_total. Qed.
Print Assumptions C11_total.

Theorem C11_no_crash : forall cd : cipher,
  cipher_ok cd -> bs cd = 8%nat -> (forall k, valid_key cd k = tdes_valid_key k) ->
  forall pvk table digits pan pv_offset pv_length pad,
  is_crash (generate_ibm3624_pin cd pvk table digits pan pv_offset pv_length pad) = false /\
  is_crash (generate_ibm3624_offset cd pvk table digits pan pv_offset pv_length pad) = false.
Proof. exact ibm_no_crash. Qed.
Print Assumptions C11_no_crash.

(* premises are satisfiable: toy Triple DES, PVK 0123456789ABCDEFFEDCBA9876543210,
   table 1234567890123456, PAN 1122334455667788; a full window with pad F and a
   10-digit window at offset 4 with pad f and a 5-digit offset 19573 *)
Example C11_cipher_instance :
  cipher_ok toy_tdes /\ bs toy_tdes = 8%nat /\ (forall k, valid_key toy_tdes k = tdes_valid_key k).
Proof. exact (C11_tdes_premises toy_des toy_des_ok). Qed.

Example C11_instance :
  let pvk := [1;35;69;103;137;171;205;239;254;220;186;152;118;84;50;16]%N in
  let table := [49;50;51;52;53;54;55;56;57;48;49;50;51;52;53;54]%N in
  let pan := [49;49;50;50;51;51;52;52;53;53;54;54;55;55;56;56]%N in
  let off5 := [49;57;53;55;51]%N in
  tdes_valid_key pvk = true /\ length table = 16%nat /\ ascii_numeric table = true /\
  (4 <= length off5 <= 16)%nat /\ ascii_numeric off5 = true /\
  (length pan <= 19)%nat /\ ascii_numeric pan = true /\
  is_hexch 102%N = true /\ length (slice 4 10 pan) = 10%nat /\
  generate_ibm3624_pin toy_tdes pvk table [48;48;48;48]%N pan 0 16 [70]%N = Ok [57;49;56;54]%N /\
  generate_ibm3624_pin toy_tdes pvk table off5 pan 4 10 [102]%N = Ok [55;55;49;53;57]%N /\
  spec_ibm3624_pin (enc toy_tdes) pvk table off5 pan 4 10 102%N = [55;55;49;53;57]%N /\
  generate_ibm3624_offset toy_tdes pvk table [55;55;49;53;57]%N pan 4 10 [70]%N = Ok off5 /\
  generate_ibm3624_pin toy_tdes pvk table off5 pan 10 7 [70]%N = Err ValueError /\
  generate_ibm3624_pin toy_tdes pvk table off5 pan 40 0 [70]%N = Ok [55;55;49;53;57]%N.
Proof. vm_compute. repeat split; (reflexivity || (repeat constructor)). Qed.
