(* C03 - TR-31 key blocks interoperate with an independent implementation of
   the specification: the cryptography of psec's TR-31 (hand-built CMAC, key
   derivation, variant keys, MACs) equals the from-the-standard definitions of
   Spec/CMAC.v (SP 800-38B / RFC 4493) and Spec/TR31.v (TR-31:2018), for every
   lawful pair of ciphers.  Only statements, each closed by [exact] of a lemma
   of Proofs/Tr31Spec.v.  The Spec itself is validated at the end of this file
   against the RFC 4493 / SP 800-38B vectors and third-party key blocks. *)
From Psec Require Import Lib.Base Cipher.Cipher Model.Tr31 Proofs.XorLemmas Proofs.Tr31Defs
  Spec.CMAC Spec.TR31 Proofs.Tr31Spec.
Open Scope N_scope.

(* the mask / shift_left_1 / conditional-xor construction of
   _derive_{des,aes}_cmac_subkey yields K1 = dbl(E_k(0)) and K2 = dbl(K1) *)
Theorem C03_subkeys : forall cd ca, ciphers_ok cd ca -> forall key,
  (valid_key cd key = true ->
     cmac_subkeys cd r64 key = Ok (cmac_K1 cd key, cmac_K2 cd key)) /\
  (valid_key ca key = true ->
     cmac_subkeys ca r128 key = Ok (cmac_K1 ca key, cmac_K2 ca key)).
Proof. exact subkeys_both. Qed.
Print Assumptions C03_subkeys.

(* _b_generate_mac / _d_generate_mac (K1 xored into the last block, CBC-MAC
   with padding method 1) is CMAC whenever the MAC input is a positive block
   multiple *)
Theorem C03_cmac_b : forall cd ca, ciphers_ok cd ca -> forall kbak hs data,
  valid_key cd kbak = true -> ascii_str hs -> bytes_ok data = true ->
  (0 < length hs + length data)%nat -> ((length hs + length data) mod 8 = 0)%nat ->
  b_generate_mac cd ca kbak hs data = Ok (cmac cd kbak (hs ++ data)).
Proof. exact cmac_b. Qed.
Print Assumptions C03_cmac_b.

Theorem C03_cmac_d : forall cd ca, ciphers_ok cd ca -> forall kbak hs data,
  valid_key ca kbak = true -> ascii_str hs -> bytes_ok data = true ->
  (0 < length hs + length data)%nat -> ((length hs + length data) mod 16 = 0)%nat ->
  d_generate_mac cd ca kbak hs data = Ok (cmac ca kbak (hs ++ data)).
Proof. exact cmac_d. Qed.
Print Assumptions C03_cmac_d.

(* _b_derive: one complete 8-byte block per CMAC call (K1); 2-key TDEA uses
   algorithm 0x0000 / length 0x0080, 3-key TDEA 0x0001 / 0x00C0 *)
Theorem C03_kdf_b : forall cd ca, ciphers_ok cd ca -> forall kbpk,
  bytes_ok kbpk = true -> (length kbpk = 16 \/ length kbpk = 24)%nat ->
  b_derive cd ca kbpk = Ok (spec_kdf_b cd kbpk).
Proof. exact kdf_b. Qed.
Print Assumptions C03_kdf_b.

(* _d_derive: the hard-coded pre-padded 16-byte block xor K2 is CMAC's
   incomplete-block case of the 8-byte derivation data; AES-128/192/256 use
   algorithm 0x0002/0x0003/0x0004 and length 0x0080/0x00C0/0x0100 *)
Theorem C03_kdf_d : forall cd ca, ciphers_ok cd ca -> forall kbpk,
  bytes_ok kbpk = true -> (length kbpk = 16 \/ length kbpk = 24 \/ length kbpk = 32)%nat ->
  d_derive cd ca kbpk = Ok (spec_kdf_d ca kbpk).
Proof. exact kdf_d. Qed.
Print Assumptions C03_kdf_d.

(* the AES-192 derivation data, spelled out *)
Example C03_kdf_d_aes192_inputs : forall c kbpk, length kbpk = 24%nat ->
  spec_kdf_d c kbpk =
  (firstn 24 (cmac c kbpk [1; 0; 0; 0; 0; 3; 0; 192] ++ cmac c kbpk [2; 0; 0; 0; 0; 3; 0; 192] ++ []),
   firstn 24 (cmac c kbpk [1; 0; 1; 0; 0; 3; 0; 192] ++ cmac c kbpk [2; 0; 1; 0; 0; 3; 0; 192] ++ [])).
Proof. intros c kbpk E. unfold spec_kdf_d. rewrite E. reflexivity. Qed.

(* _c_derive is the variant method *)
Theorem C03_variant : forall kbpk, bytes_ok kbpk = true -> c_derive kbpk = spec_variant kbpk.
Proof. exact variant_c. Qed.
Print Assumptions C03_variant.

(* _c_generate_mac is the leftmost 4 bytes of the ISO 9797-1 algorithm 1 MAC *)
Theorem C03_mac_c : forall cd ca, ciphers_ok cd ca -> forall kbak hs data,
  valid_key cd kbak = true -> ascii_str hs -> bytes_ok data = true ->
  (0 < length hs + length data)%nat -> ((length hs + length data) mod 8 = 0)%nat ->
  c_generate_mac cd ca kbak hs data = Ok (firstn 4 (cbc_mac cd kbak (hs ++ data))).
Proof. exact mac_c. Qed.
Print Assumptions C03_mac_c.

(* ... and, without the length premise, of the MAC of the zero-padded input *)
Theorem C03_mac_c_padded : forall cd ca, ciphers_ok cd ca -> forall kbak hs data,
  valid_key cd kbak = true -> ascii_str hs -> bytes_ok data = true ->
  c_generate_mac cd ca kbak hs data = Ok (spec_mac_c cd kbak hs data).
Proof. exact mac_c_padded. Qed.
Print Assumptions C03_mac_c_padded.
