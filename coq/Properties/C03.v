(* C03 - TR-31 key blocks interoperate with an independent implementation of
   the specification: the cryptography of psec's TR-31 (hand-built CMAC, key
   derivation, variant keys, MACs) equals the from-the-standard definitions of
   Spec/CMAC.v (SP 800-38B / RFC 4493) and Spec/TR31.v (TR-31:2018), for every
   lawful pair of ciphers.  Only statements, each closed by [exact] of a lemma
   of Proofs/Tr31Spec.v.  The Spec itself is validated at the end of this file
   against the RFC 4493 / SP 800-38B vectors and third-party key blocks. *)
From Psec Require Import Lib.Base Cipher.Cipher Model.Tr31 Proofs.XorLemmas Proofs.Tr31Defs
  Spec.CMAC Spec.TR31 Proofs.Tr31Spec.
Open Scope N_scope.

(* the mask / shift_left_1 / conditional-xor construction of
   _derive_{des,aes}_cmac_subkey yields K1 = dbl(E_k(0)) and K2 = dbl(K1) *)
Theorem C03_subkeys : forall cd ca, ciphers_ok cd ca -> forall key,
  (valid_key cd key = true ->
     cmac_subkeys cd r64 key = Ok (cmac_K1 cd key, cmac_K2 cd key)) /\
  (valid_key ca key = true ->
     cmac_subkeys ca r128 key = Ok (cmac_K1 ca key, cmac_K2 ca key)).
Proof. exact subkeys_both. Qed.
Print Assumptions C03_subkeys.

(* _b_generate_mac / _d_generate_mac (K1 xored into the last block, CBC-MAC
   with padding method 1) is CMAC whenever the MAC input is a positive block
   multiple *)
Theorem C03_cmac_b : forall cd ca, ciphers_ok cd ca -> forall kbak hs data,
  valid_key cd kbak = true -> ascii_str hs -> bytes_ok data = true ->
  (0 < length hs + length data)%nat -> ((length hs + length data) mod 8 = 0)%nat ->
  b_generate_mac cd ca kbak hs data = Ok (cmac cd kbak (hs ++ data)).
Proof. exact cmac_b. Qed.
Print Assumptions C03_cmac_b.

Theorem C03_cmac_d : forall cd ca, ciphers_ok cd ca -> forall kbak hs data,
  valid_key ca kbak = true -> ascii_str hs -> bytes_ok data = true ->
  (0 < length hs + length data)%nat -> ((length hs + length data) mod 16 = 0)%nat ->
  d_generate_mac cd ca kbak hs data = Ok (cmac ca kbak (hs ++ data)).
Proof. exact cmac_d. Qed.
Print Assumptions C03_cmac_d.

(* _b_derive: one complete 8-byte block per CMAC call (K1); 2-key TDEA uses
   algorithm 0x0000 / length 0x0080, 3-key TDEA 0x0001 / 0x00C0 *)
Theorem C03_kdf_b : forall cd ca, ciphers_ok cd ca -> forall kbpk,
  bytes_ok kbpk = true -> (length kbpk = 16 \/ length kbpk = 24)%nat ->
  b_derive cd ca kbpk = Ok (spec_kdf_b cd kbpk).
Proof. exact kdf_b. Qed.
Print Assumptions C03_kdf_b.

(* _d_derive: the hard-coded pre-padded 16-byte block xor K2 is CMAC's
   incomplete-block case of the 8-byte derivation data; AES-128/192/256 use
   algorithm 0x0002/0x0003/0x0004 and length 0x0080/0x00C0/0x0100 *)
Theorem C03_kdf_d : forall cd ca, ciphers_ok cd ca -> forall kbpk,
  bytes_ok kbpk = true -> (length kbpk = 16 \/ length kbpk = 24 \/ length kbpk = 32)%nat ->
  d_derive cd ca kbpk = Ok (spec_kdf_d ca kbpk).
Proof. exact kdf_d. Qed.
Print Assumptions C03_kdf_d.

(* the AES-192 derivation data, spelled out *)
Example C03_kdf_d_aes192_inputs : forall c kbpk, length kbpk = 24%nat ->
  spec_kdf_d c kbpk =
  (firstn 24 (cmac c kbpk [1; 0; 0; 0; 0; 3; 0; 192] ++ cmac c kbpk [2; 0; 0; 0; 0; 3; 0; 192] ++ []),
   firstn 24 (cmac c kbpk [1; 0; 1; 0; 0; 3; 0; 192] ++ cmac c kbpk [2; 0; 1; 0; 0; 3; 0; 192] ++ [])).
Proof. intros c kbpk E. unfold spec_kdf_d. rewrite E. reflexivity. Qed.

(* _c_derive is the variant method *)
Theorem C03_variant : forall kbpk, bytes_ok kbpk = true -> c_derive kbpk = spec_variant kbpk.
Proof. exact variant_c. Qed.
Print Assumptions C03_variant.

(* _c_generate_mac is the leftmost 4 bytes of the ISO 9797-1 algorithm 1 MAC *)
Theorem C03_mac_c : forall cd ca, ciphers_ok cd ca -> forall kbak hs data,
  valid_key cd kbak = true -> ascii_str hs -> bytes_ok data = true ->
  (0 < length hs + length data)%nat -> ((length hs + length data) mod 8 = 0)%nat ->
  c_generate_mac cd ca kbak hs data = Ok (firstn 4 (cbc_mac cd kbak (hs ++ data))).
Proof. exact mac_c. Qed.
Print Assumptions C03_mac_c.

(* ... and, without the length premise, of the MAC of the zero-padded input *)
Theorem C03_mac_c_padded : forall cd ca, ciphers_ok cd ca -> forall kbak hs data,
  valid_key cd kbak = true -> ascii_str hs -> bytes_ok data = true ->
  c_generate_mac cd ca kbak hs data = Ok (spec_mac_c cd kbak hs data).
Proof. exact mac_c_padded. Qed.
Print Assumptions C03_mac_c_padded.

(* ---------------- validation of the Spec ----------------
   The definitions of Spec/CMAC.v and Spec/TR31.v are run (vm_compute, with the
   executable AES / Triple DES of Cipher/) on published vectors.  These Examples
   do not involve the model. *)
From Psec Require Import Cipher.AES Cipher.DES Cipher.Toy.

Definition rfc4493_msg : list N :=
  [107; 193; 190; 226; 46; 64; 159; 150; 233; 61; 126; 17; 115; 147; 23; 42; 174; 45; 138; 87; 30; 3; 172; 156; 158; 183; 111; 172; 69; 175; 142; 81; 48; 200; 28; 70; 163; 92; 228; 17; 229; 251; 193; 25; 26; 10; 82; 239; 246; 159; 36; 69; 223; 79; 155; 23; 173; 43; 65; 123; 230; 108; 55; 16].

(* RFC 4493 section 4 / SP 800-38B D.1: AES-128, subkeys and the four examples (0, 16, 40, 64 bytes) *)
Example C03_spec_rfc4493 :
  let K := [43; 126; 21; 22; 40; 174; 210; 166; 171; 247; 21; 136; 9; 207; 79; 60] in
  cmac_K1 real_aes K = [251; 238; 214; 24; 53; 113; 51; 102; 124; 133; 224; 143; 114; 54; 168; 222] /\
  cmac_K2 real_aes K = [247; 221; 172; 48; 106; 226; 102; 204; 249; 11; 193; 30; 228; 109; 81; 59] /\
  cmac real_aes K (firstn 0 rfc4493_msg) = [187; 29; 105; 41; 233; 89; 55; 40; 127; 163; 125; 18; 155; 117; 103; 70] /\
  cmac real_aes K (firstn 16 rfc4493_msg) = [7; 10; 22; 180; 107; 77; 65; 68; 247; 155; 221; 157; 208; 74; 40; 124] /\
  cmac real_aes K (firstn 40 rfc4493_msg) = [223; 166; 103; 71; 222; 154; 230; 48; 48; 202; 50; 97; 20; 151; 200; 39] /\
  cmac real_aes K (firstn 64 rfc4493_msg) = [81; 240; 190; 191; 126; 59; 157; 146; 252; 73; 116; 23; 121; 54; 60; 254].
Proof. vm_compute. repeat split; reflexivity. Qed.

(* SP 800-38B D.2: AES-192 (0 and 40 bytes) *)
Example C03_spec_sp800_38b_aes192 :
  let K := [142; 115; 176; 247; 218; 14; 100; 82; 200; 16; 243; 43; 128; 144; 121; 229; 98; 248; 234; 210; 82; 44; 107; 123] in
  cmac real_aes K [] = [209; 125; 223; 70; 173; 170; 205; 229; 49; 202; 196; 131; 222; 122; 147; 103] /\
  cmac real_aes K (firstn 40 rfc4493_msg) = [138; 29; 229; 190; 46; 179; 26; 173; 8; 154; 130; 230; 238; 144; 139; 14].
Proof. vm_compute. split; reflexivity. Qed.

(* SP 800-38B D.4 / D.5: three-key and two-key TDEA (0, 8, 20, 32 bytes) *)
Example C03_spec_sp800_38b_tdes3 :
  let K := [138; 168; 59; 248; 203; 218; 16; 98; 11; 193; 191; 25; 251; 182; 205; 88; 188; 49; 61; 74; 55; 28; 168; 181] in
  cmac_K1 real_tdes K = [145; 152; 233; 211; 20; 230; 83; 95] /\
  cmac_K2 real_tdes K = [35; 49; 211; 166; 41; 204; 166; 165] /\
  cmac real_tdes K (firstn 0 rfc4493_msg) = [183; 166; 136; 225; 34; 255; 175; 149] /\
  cmac real_tdes K (firstn 8 rfc4493_msg) = [142; 143; 41; 49; 54; 40; 55; 151] /\
  cmac real_tdes K (firstn 20 rfc4493_msg) = [116; 61; 219; 224; 206; 45; 194; 237] /\
  cmac real_tdes K (firstn 32 rfc4493_msg) = [51; 230; 177; 9; 36; 0; 234; 229].
Proof. vm_compute. repeat split; reflexivity. Qed.

Example C03_spec_sp800_38b_tdes2 :
  let K := [76; 241; 81; 52; 162; 133; 13; 213; 138; 61; 16; 186; 128; 87; 13; 56] in
  cmac real_tdes K (firstn 0 rfc4493_msg) = [189; 46; 191; 154; 59; 160; 3; 97] /\
  cmac real_tdes K (firstn 8 rfc4493_msg) = [79; 242; 171; 129; 60; 83; 206; 131] /\
  cmac real_tdes K (firstn 20 rfc4493_msg) = [98; 221; 27; 71; 25; 2; 189; 78] /\
  cmac real_tdes K (firstn 32 rfc4493_msg) = [49; 177; 228; 49; 218; 188; 78; 184].
Proof. vm_compute. repeat split; reflexivity. Qed.

(* third-party TR-31 key blocks (the known-value vectors of the repository's
   test-suite, among them the examples of TR-31:2018): the Spec alone opens them *)
(* B0080P0TE00E000094B420079CC80BA3461F86FE26EFC4A3B8E4FA4C5F5341176EED7B727B8A248E
   KBPK DD7515F2BFC17F85CE48F3CA25CB21F6, key 3F419E1CB7079442AA37474C2EFBF8B8 *)
Example C03_spec_vector_B_tdes2 :
  option_map spec_key_of (spec_open_b real_tdes
    [221; 117; 21; 242; 191; 193; 127; 133; 206; 72; 243; 202; 37; 203; 33; 246]
    [66; 48; 48; 56; 48; 80; 48; 84; 69; 48; 48; 69; 48; 48; 48; 48]
    [148; 180; 32; 7; 156; 200; 11; 163; 70; 31; 134; 254; 38; 239; 196; 163; 184; 228; 250; 76; 95; 83; 65; 23]
    [110; 237; 123; 114; 123; 138; 36; 142])
  = Some [63; 65; 158; 28; 183; 7; 148; 66; 170; 55; 71; 76; 46; 251; 248; 184].
Proof. vm_compute. reflexivity. Qed.

(* B0096M3TC00E0000C7C6FE86A5DE769C20DCA238C52341378B484D544A9764D43963C3B2824AE56C2D07A565DD3AB342
   KBPK AAAAAAAAAAAAAAAABBBBBBBBBBBBBBBBCCCCCCCCCCCCCCCC, key CCCCCCCCCCCCCCCCDDDDDDDDDDDDDDDD *)
Example C03_spec_vector_B_tdes3 :
  option_map spec_key_of (spec_open_b real_tdes
    [170; 170; 170; 170; 170; 170; 170; 170; 187; 187; 187; 187; 187; 187; 187; 187; 204; 204; 204; 204; 204; 204; 204; 204]
    [66; 48; 48; 57; 54; 77; 51; 84; 67; 48; 48; 69; 48; 48; 48; 48]
    [199; 198; 254; 134; 165; 222; 118; 156; 32; 220; 162; 56; 197; 35; 65; 55; 139; 72; 77; 84; 74; 151; 100; 212; 57; 99; 195; 178; 130; 74; 229; 108]
    [45; 7; 165; 101; 221; 58; 179; 66])
  = Some [204; 204; 204; 204; 204; 204; 204; 204; 221; 221; 221; 221; 221; 221; 221; 221].
Proof. vm_compute. reflexivity. Qed.

(* B0104B0TX12S0100KS1800604B120F9292800000BB68BE8680A400D9191AD4ECE45B6E6C0D21C4738A52190E248719E24B433627
   KBPK 1D22BF32387C600AD97F9B97A51311AC, key E8BC63E5479455E26577F715D587FE68 *)
Example C03_spec_vector_B_optional_block :
  option_map spec_key_of (spec_open_b real_tdes
    [29; 34; 191; 50; 56; 124; 96; 10; 217; 127; 155; 151; 165; 19; 17; 172]
    [66; 48; 49; 48; 52; 66; 48; 84; 88; 49; 50; 83; 48; 49; 48; 48; 75; 83; 49; 56; 48; 48; 54; 48; 52; 66; 49; 50; 48; 70; 57; 50; 57; 50; 56; 48; 48; 48; 48; 48]
    [187; 104; 190; 134; 128; 164; 0; 217; 25; 26; 212; 236; 228; 91; 110; 108; 13; 33; 196; 115; 138; 82; 25; 14]
    [36; 135; 25; 226; 75; 67; 54; 39])
  = Some [232; 188; 99; 229; 71; 148; 85; 226; 101; 119; 247; 21; 213; 135; 254; 104].
Proof. vm_compute. reflexivity. Qed.

(* D0112P0AE00E0000B82679114F470F540165EDFBF7E250FCEA43F810D215F8D207E2E417C07156A27E8E31DA05F7425509593D03A457DC34
   KBPK 88E1AB2A2E3DD38C1FA039A536500CC8A87AB9D62DC92C01058FA79F44657DE6, key 3F419E1CB7079442AA37474C2EFBF8B8 *)
Example C03_spec_vector_D_aes256 :
  option_map spec_key_of (spec_open_d real_aes
    [136; 225; 171; 42; 46; 61; 211; 140; 31; 160; 57; 165; 54; 80; 12; 200; 168; 122; 185; 214; 45; 201; 44; 1; 5; 143; 167; 159; 68; 101; 125; 230]
    [68; 48; 49; 49; 50; 80; 48; 65; 69; 48; 48; 69; 48; 48; 48; 48]
    [184; 38; 121; 17; 79; 71; 15; 84; 1; 101; 237; 251; 247; 226; 80; 252; 234; 67; 248; 16; 210; 21; 248; 210; 7; 226; 228; 23; 192; 113; 86; 162]
    [126; 142; 49; 218; 5; 247; 66; 85; 9; 89; 61; 3; 164; 87; 220; 52])
  = Some [63; 65; 158; 28; 183; 7; 148; 66; 170; 55; 71; 76; 46; 251; 248; 184].
Proof. vm_compute. reflexivity. Qed.

(* A0072P0TE00E0000F5161ED902807AF26F1D62263644BD24192FDB3193C730301CEE8701
   KBPK 89E88CF7931444F334BD7547FC3F380C, key F039121BEC83D26B169BDCD5B22AAF8F *)
Example C03_spec_vector_A_variant :
  option_map spec_key_of (spec_open_c real_tdes
    [137; 232; 140; 247; 147; 20; 68; 243; 52; 189; 117; 71; 252; 63; 56; 12]
    [65; 48; 48; 55; 50; 80; 48; 84; 69; 48; 48; 69; 48; 48; 48; 48]
    [245; 22; 30; 217; 2; 128; 122; 242; 111; 29; 98; 38; 54; 68; 189; 36; 25; 47; 219; 49; 147; 199; 48; 48]
    [28; 238; 135; 1])
  = Some [240; 57; 18; 27; 236; 131; 210; 107; 22; 155; 220; 213; 178; 42; 175; 143].
Proof. vm_compute. reflexivity. Qed.

(* C0096B0TX12S0100KS1800604B120F9292800000BFB9B689CB567E66FC3FEE5AD5F52161FC6545B9D60989015D02155C
   KBPK B8ED59E0A279A295E9F5ED7944FD06B9, key EDB380DD340BC2620247D445F5B8D678 *)
Example C03_spec_vector_C_optional_block :
  option_map spec_key_of (spec_open_c real_tdes
    [184; 237; 89; 224; 162; 121; 162; 149; 233; 245; 237; 121; 68; 253; 6; 185]
    [67; 48; 48; 57; 54; 66; 48; 84; 88; 49; 50; 83; 48; 49; 48; 48; 75; 83; 49; 56; 48; 48; 54; 48; 52; 66; 49; 50; 48; 70; 57; 50; 57; 50; 56; 48; 48; 48; 48; 48]
    [191; 185; 182; 137; 203; 86; 126; 102; 252; 63; 238; 90; 213; 245; 33; 97; 252; 101; 69; 185; 214; 9; 137; 1]
    [93; 2; 21; 92])
  = Some [237; 179; 128; 221; 52; 11; 194; 98; 2; 71; 212; 69; 245; 184; 214; 120].
Proof. vm_compute. reflexivity. Qed.

(* the premises of the theorems are satisfiable, and a concrete instance *)
Example C03_ciphers_exist : ciphers_ok toy_tdes toy_aes.
Proof. exact toy_ciphers_ok. Qed.

Example C03_instance :
  let kbpk := [1;2;3;4;5;6;7;8;9;10;11;12;13;14;15;16;17;18;19;20;21;22;23;24] in
  b_derive toy_tdes toy_aes kbpk = Ok (spec_kdf_b toy_tdes kbpk) /\
  d_derive toy_tdes toy_aes kbpk = Ok (spec_kdf_d toy_aes kbpk) /\
  b_generate_mac toy_tdes toy_aes kbpk [66;48;48;56;48;80;48;84] [1;2;3;4;5;6;7;8]
    = Ok (cmac toy_tdes kbpk ([66;48;48;56;48;80;48;84] ++ [1;2;3;4;5;6;7;8])).
Proof. vm_compute. repeat split; reflexivity. Qed.

(* ---------------- whole key blocks ---------------- *)
From Psec Require Import Proofs.Tr31SpecC02 Proofs.Tr31SpecWrap Proofs.Tr31SpecHeader.

(* The Spec spells a key block as
     spec_block_text hs (ek, mac) = hs ++ hex_upper ek ++ hex_upper mac
   where hs = spec_header_text <7 fields> total_len items is the header text and
   each item (id, data, form) is an optional block with its chosen length form
   (LenShort cases | LenExtended cases ll cases): the encoder's `choices` are
   the forms (short / extended with any size ll of the length field), the
   letter case of every hex digit, the pad blocks (any size, any printable
   filling), the amount of key padding, and - on the decoding side - the hex
   spelling of the binary section.  [item_ok] is "legal per the standard":
   2-character alphanumeric id, printable data, a length form that fits. *)

(* forward, cryptographic half: what the version-specific wrap emits for a
   header text hs is the Spec's binding of (hs, key, tape) *)
Theorem C03_wrap_b : forall cd ca, ciphers_ok cd ca -> forall kbpk hs key extra tape s,
  bytes_ok kbpk = true -> bytes_ok key = true -> bytes_ok tape = true ->
  ascii_str hs -> (length hs mod 8 = 0)%nat ->
  b_wrap cd ca kbpk hs key extra tape = Ok s ->
  s = spec_block_text hs (spec_bind_b cd kbpk hs (spec_key_data key tape)) /\
  length tape = (8 - (2 + length key + extra) mod 8 + extra)%nat /\
  length s = (length hs + 2 * (2 + length key + length tape) + 2 * 8)%nat.
Proof. exact wrap_b. Qed.
Print Assumptions C03_wrap_b.

Theorem C03_wrap_d : forall cd ca, ciphers_ok cd ca -> forall kbpk hs key extra tape s,
  bytes_ok kbpk = true -> bytes_ok key = true -> bytes_ok tape = true ->
  ascii_str hs -> (length hs mod 16 = 0)%nat ->
  d_wrap cd ca kbpk hs key extra tape = Ok s ->
  s = spec_block_text hs (spec_bind_d ca kbpk hs (spec_key_data key tape)) /\
  length tape = (16 - (2 + length key + extra) mod 16 + extra)%nat /\
  length s = (length hs + 2 * (2 + length key + length tape) + 2 * 16)%nat.
Proof. exact wrap_d. Qed.
Print Assumptions C03_wrap_d.

Theorem C03_wrap_c : forall cd ca, ciphers_ok cd ca -> forall kbpk hs key extra tape s,
  bytes_ok kbpk = true -> bytes_ok key = true -> bytes_ok tape = true ->
  ascii_str hs -> (8 <= length hs)%nat ->
  c_wrap cd ca kbpk hs key extra tape = Ok s ->
  s = spec_block_text hs (spec_bind_c cd kbpk hs (spec_key_data key tape)) /\
  length tape = (8 - (2 + length key + extra) mod 8 + extra)%nat /\
  length s = (length hs + 2 * (2 + length key + length tape) + 2 * 4)%nat.
Proof. exact wrap_c. Qed.
Print Assumptions C03_wrap_c.

(* forward, header half: Header.dump emits the Spec's header text under psec's
   choices (short form up to 255, else "0002" + 4 digits; upper-case hex; a pad
   block "PB" filled with '0' exactly when needed) *)
Theorem C03_header_dump : forall h klen hs, header_ok h -> header_dump h klen = Ok hs ->
  exists abs ml total_len (pads : list item),
    algo_block_size (version_id h) = Ok abs /\ (abs = 8 \/ abs = 16)%nat /\
    key_block_mac_len (version_id h) = Ok ml /\
    total_len = lenN hs + 4 + 2 * klen + 2 * (N.of_nat abs - (2 + klen) mod N.of_nat abs)
                + 2 * N.of_nat ml /\
    total_len < 10000 /\
    hs = spec_header_text (version_id h) (key_usage h) (algorithm h) (mode_of_use h)
           (version_num h) (exportability h) (reserved h) total_len (map psec_item (blocks h) ++ pads) /\
    Forall item_ok (map psec_item (blocks h) ++ pads) /\
    map item_entry (map psec_item (blocks h)) = blocks h /\
    Forall (fun it : item => is_pad_id (fst (fst it)) = true) pads /\
    (length (map psec_item (blocks h) ++ pads) <= 99)%nat /\
    (length hs mod abs = 0)%nat.
Proof. exact header_dump_spec. Qed.
Print Assumptions C03_header_dump.

(* C03_forward: wrap ... = Ok s -> exists choices legal per the standard such
   that s is the Spec's encoding, with the length field equal to the length of
   s, a block-multiple header and total length *)
Theorem C03_forward_b : forall cd ca, ciphers_ok cd ca -> forall kbpk h key mask tape s,
  header_ok h -> version_id h = [66] ->
  bytes_ok kbpk = true -> bytes_ok key = true -> bytes_ok tape = true ->
  kb_wrap cd ca kbpk h key mask tape = Ok s ->
  exists total_len (pads : list item),
    let items := map psec_item (blocks h) ++ pads in
    let hs := spec_header_text (version_id h) (key_usage h) (algorithm h) (mode_of_use h)
                (version_num h) (exportability h) (reserved h) total_len items in
    Forall item_ok items /\ map item_entry (map psec_item (blocks h)) = blocks h /\
    Forall (fun it : item => is_pad_id (fst (fst it)) = true) pads /\
    (length items <= 99)%nat /\ (length hs mod 8 = 0)%nat /\
    s = spec_block_text hs (spec_bind_b cd kbpk hs (spec_key_data key tape)) /\
    total_len = lenN s /\ total_len < 10000 /\
    ((2 + length key + length tape) mod 8 = 0)%nat /\ (length s mod 8 = 0)%nat.
Proof. exact forward_b. Qed.
Print Assumptions C03_forward_b.

Theorem C03_forward_d : forall cd ca, ciphers_ok cd ca -> forall kbpk h key mask tape s,
  header_ok h -> version_id h = [68] ->
  bytes_ok kbpk = true -> bytes_ok key = true -> bytes_ok tape = true ->
  kb_wrap cd ca kbpk h key mask tape = Ok s ->
  exists total_len (pads : list item),
    let items := map psec_item (blocks h) ++ pads in
    let hs := spec_header_text (version_id h) (key_usage h) (algorithm h) (mode_of_use h)
                (version_num h) (exportability h) (reserved h) total_len items in
    Forall item_ok items /\ map item_entry (map psec_item (blocks h)) = blocks h /\
    Forall (fun it : item => is_pad_id (fst (fst it)) = true) pads /\
    (length items <= 99)%nat /\ (length hs mod 16 = 0)%nat /\
    s = spec_block_text hs (spec_bind_d ca kbpk hs (spec_key_data key tape)) /\
    total_len = lenN s /\ total_len < 10000 /\
    ((2 + length key + length tape) mod 16 = 0)%nat /\ (length s mod 16 = 0)%nat.
Proof. exact forward_d. Qed.
Print Assumptions C03_forward_d.

Theorem C03_forward_c : forall cd ca, ciphers_ok cd ca -> forall kbpk h key mask tape s,
  header_ok h -> (version_id h = [65] \/ version_id h = [67]) ->
  bytes_ok kbpk = true -> bytes_ok key = true -> bytes_ok tape = true ->
  kb_wrap cd ca kbpk h key mask tape = Ok s ->
  exists total_len (pads : list item),
    let items := map psec_item (blocks h) ++ pads in
    let hs := spec_header_text (version_id h) (key_usage h) (algorithm h) (mode_of_use h)
                (version_num h) (exportability h) (reserved h) total_len items in
    Forall item_ok items /\ map item_entry (map psec_item (blocks h)) = blocks h /\
    Forall (fun it : item => is_pad_id (fst (fst it)) = true) pads /\
    (length items <= 99)%nat /\ (length hs mod 8 = 0)%nat /\
    s = spec_block_text hs (spec_bind_c cd kbpk hs (spec_key_data key tape)) /\
    total_len = lenN s /\ total_len < 10000 /\
    ((2 + length key + length tape) mod 8 = 0)%nat /\ (length s mod 8 = 0)%nat.
Proof. exact forward_c. Qed.
Print Assumptions C03_forward_c.

(* ... and the Spec itself opens what it binds (the Spec's own round trip) *)
Theorem C03_spec_roundtrip_b : forall cd ca, ciphers_ok cd ca -> forall kbpk hs clear,
  bytes_ok kbpk = true -> (length kbpk = 16 \/ length kbpk = 24)%nat ->
  ascii_str hs -> bytes_ok clear = true -> (8 <= length clear)%nat -> (length clear mod 8 = 0)%nat ->
  spec_open_b cd kbpk hs (fst (spec_bind_b cd kbpk hs clear)) (snd (spec_bind_b cd kbpk hs clear))
  = Some clear.
Proof. exact spec_roundtrip_b. Qed.
Print Assumptions C03_spec_roundtrip_b.

Theorem C03_spec_roundtrip_d : forall cd ca, ciphers_ok cd ca -> forall kbpk hs clear,
  bytes_ok kbpk = true -> (length kbpk = 16 \/ length kbpk = 24 \/ length kbpk = 32)%nat ->
  ascii_str hs -> bytes_ok clear = true -> (16 <= length clear)%nat -> (length clear mod 16 = 0)%nat ->
  spec_open_d ca kbpk hs (fst (spec_bind_d ca kbpk hs clear)) (snd (spec_bind_d ca kbpk hs clear))
  = Some clear.
Proof. exact spec_roundtrip_d. Qed.
Print Assumptions C03_spec_roundtrip_d.

Theorem C03_spec_roundtrip_c : forall cd ca, ciphers_ok cd ca -> forall kbpk hs clear,
  bytes_ok kbpk = true -> (length kbpk = 8 \/ length kbpk = 16 \/ length kbpk = 24)%nat ->
  ascii_str hs -> (8 <= length hs)%nat ->
  bytes_ok clear = true -> (8 <= length clear)%nat -> (length clear mod 8 = 0)%nat ->
  spec_open_c cd kbpk hs (fst (spec_bind_c cd kbpk hs clear)) (snd (spec_bind_c cd kbpk hs clear))
  = Some clear.
Proof. exact spec_roundtrip_c. Qed.
Print Assumptions C03_spec_roundtrip_c.

Theorem C03_spec_key_of : forall key pad, 8 * lenN key < 65536 ->
  spec_key_of (spec_key_data key pad) = key.
Proof. exact spec_key_of_data. Qed.
Print Assumptions C03_spec_key_of.

(* reverse, header half: Header.load decodes EVERY legal spelling of the header
   of h (whatever follows it), consuming exactly the header text *)
Theorem C03_header_load : forall h0 h total_len (opt pads : list item) tail,
  header_ok h -> total_len < 10000 ->
  map item_entry opt = blocks h ->
  Forall item_ok (opt ++ pads) ->
  Forall (fun it : item => is_pad_id (fst (fst it)) = true) pads ->
  (length (opt ++ pads) <= 99)%nat ->
  let hs := spec_header_text (version_id h) (key_usage h) (algorithm h) (mode_of_use h)
              (version_num h) (exportability h) (reserved h) total_len (opt ++ pads) in
  header_load h0 (hs ++ tail) = (h, Ok (length hs)).
Proof. exact header_load_spec. Qed.
Print Assumptions C03_header_load.

(* C03_reverse: for ALL choices legal per the standard - block length forms,
   hex letter case, pad blocks, key padding [pad] of any admissible length, any
   hex spelling [et] / [mt] of the binary section (letter case per character,
   white space in the key part) - unwrap returns (h, key) *)
Theorem C03_reverse_b : forall cd ca, ciphers_ok cd ca ->
  forall kbpk h key pad (opt pads : list item) total_len et mt,
  bytes_ok kbpk = true -> (length kbpk = 16 \/ length kbpk = 24)%nat ->
  bytes_ok key = true -> bytes_ok pad = true -> 8 * lenN key < 65536 ->
  ((2 + length key + length pad) mod 8 = 0)%nat ->
  header_ok h -> version_id h = [66] -> map item_entry opt = blocks h ->
  Forall item_ok (opt ++ pads) -> Forall (fun it : item => is_pad_id (fst (fst it)) = true) pads ->
  (length (opt ++ pads) <= 99)%nat ->
  let hs := spec_header_text (version_id h) (key_usage h) (algorithm h) (mode_of_use h)
              (version_num h) (exportability h) (reserved h) total_len (opt ++ pads) in
  (length hs mod 8 = 0)%nat ->
  let em := spec_bind_b cd kbpk hs (spec_key_data key pad) in
  bytes_fromhex et = Ok (fst em) -> bytes_fromhex mt = Ok (snd em) -> length mt = 16%nat ->
  let s := hs ++ et ++ mt in
  total_len = lenN s -> total_len < 10000 -> (length s mod 8 = 0)%nat ->
  unwrap cd ca kbpk s = Ok (h, key).
Proof. exact reverse_full_b. Qed.
Print Assumptions C03_reverse_b.

Theorem C03_reverse_d : forall cd ca, ciphers_ok cd ca ->
  forall kbpk h key pad (opt pads : list item) total_len et mt,
  bytes_ok kbpk = true -> (length kbpk = 16 \/ length kbpk = 24 \/ length kbpk = 32)%nat ->
  bytes_ok key = true -> bytes_ok pad = true -> 8 * lenN key < 65536 ->
  ((2 + length key + length pad) mod 16 = 0)%nat ->
  header_ok h -> version_id h = [68] -> map item_entry opt = blocks h ->
  Forall item_ok (opt ++ pads) -> Forall (fun it : item => is_pad_id (fst (fst it)) = true) pads ->
  (length (opt ++ pads) <= 99)%nat ->
  let hs := spec_header_text (version_id h) (key_usage h) (algorithm h) (mode_of_use h)
              (version_num h) (exportability h) (reserved h) total_len (opt ++ pads) in
  (length hs mod 16 = 0)%nat ->
  let em := spec_bind_d ca kbpk hs (spec_key_data key pad) in
  bytes_fromhex et = Ok (fst em) -> bytes_fromhex mt = Ok (snd em) -> length mt = 32%nat ->
  let s := hs ++ et ++ mt in
  total_len = lenN s -> total_len < 10000 -> (length s mod 16 = 0)%nat ->
  unwrap cd ca kbpk s = Ok (h, key).
Proof. exact reverse_full_d. Qed.
Print Assumptions C03_reverse_d.

Theorem C03_reverse_c : forall cd ca, ciphers_ok cd ca ->
  forall kbpk h key pad (opt pads : list item) total_len et mt,
  bytes_ok kbpk = true -> (length kbpk = 8 \/ length kbpk = 16 \/ length kbpk = 24)%nat ->
  bytes_ok key = true -> bytes_ok pad = true -> 8 * lenN key < 65536 ->
  ((2 + length key + length pad) mod 8 = 0)%nat ->
  header_ok h -> (version_id h = [65] \/ version_id h = [67]) -> map item_entry opt = blocks h ->
  Forall item_ok (opt ++ pads) -> Forall (fun it : item => is_pad_id (fst (fst it)) = true) pads ->
  (length (opt ++ pads) <= 99)%nat ->
  let hs := spec_header_text (version_id h) (key_usage h) (algorithm h) (mode_of_use h)
              (version_num h) (exportability h) (reserved h) total_len (opt ++ pads) in
  let em := spec_bind_c cd kbpk hs (spec_key_data key pad) in
  bytes_fromhex et = Ok (fst em) -> bytes_fromhex mt = Ok (snd em) -> length mt = 8%nat ->
  let s := hs ++ et ++ mt in
  total_len = lenN s -> total_len < 10000 -> (length s mod 8 = 0)%nat ->
  unwrap cd ca kbpk s = Ok (h, key).
Proof. exact reverse_full_c. Qed.
Print Assumptions C03_reverse_c.

(* the canonical spelling (upper-case hex) is one of the admitted spellings *)
Theorem C03_canonical_hex : forall b, bytes_ok b = true ->
  bytes_fromhex (hex_upper b) = Ok b /\ length (hex_upper b) = (2 * length b)%nat.
Proof. intros b Hb. split; [exact (fromhex_hex_upper b Hb) | exact (hex_upper_length b)]. Qed.
Print Assumptions C03_canonical_hex.

(* an instance with the executable ciphers: the block kb_wrap emits is the
   Spec's encoding of its own header text, and unwrap opens it *)
Example C03_whole_block_instance :
  let g := ex_wrap real_tdes real_aes in
  let hs := firstn 24 g in
  g = spec_block_text hs (spec_bind_b real_tdes ex_kbpk hs (spec_key_data ex_key ex_tape)) /\
  header_load default_header g = (ex_header, Ok 24%nat) /\
  unwrap real_tdes real_aes ex_kbpk g = Ok (ex_header, ex_key).
Proof. vm_compute. repeat split; reflexivity. Qed.

(* a liberal spelling of the same key block that psec would never emit: the KS
   block with an extended, mixed-case length field ("00" "02" "000e"), a pad
   block of 6 blanks, lower-case hex for the encrypted key, twice the key
   padding: the premises of C03_reverse_b hold and unwrap opens it *)
Example C03_liberal_instance :
  let opt : list item := [([75;83], [49;50;51;52], LenExtended [true;true] 2 [true;true;true;false])] in
  let pads : list item := [([80;66], [32;32;32;32;32;32], LenShort [false;false])] in
  let pad := ex_tape ++ [1;2;3;4;5;6;7;8] in
  let hs := spec_header_text [66] [80;48] [84] [69] [48;48] [78] [48;48] 136 (opt ++ pads) in
  let em := spec_bind_b real_tdes ex_kbpk hs (spec_key_data ex_key pad) in
  let s := hs ++ hex_lower (fst em) ++ hex_upper (snd em) in
  (length hs mod 8 = 0)%nat /\ lenN s = 136 /\
  bytes_fromhex (hex_lower (fst em)) = Ok (fst em) /\
  firstn 40 s = [66;48;49;51;54;80;48;84;69;48;48;78;48;50;48;48;
                 75;83;48;48;48;50;48;48;48;101;49;50;51;52;
                 80;66;48;97;32;32;32;32;32;32] /\
  unwrap real_tdes real_aes ex_kbpk s = Ok (ex_header, ex_key).
Proof. vm_compute. repeat split; reflexivity. Qed.
