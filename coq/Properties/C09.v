(* C09 - Card verification value is the standard CVV and always three digits.
   Only statements, each closed by [exact] of a lemma from Proofs/CardLemmas.v.
   [spec_cvv] / [spec_cvv_des] (Spec/CardValues.v) are the Visa CVV / Mastercard
   CVC algorithm at nibble level, written independently of the model. *)
From Psec Require Import Lib.Base Cipher.Cipher Cipher.Toy Model.Cvv
  Spec.CardValues Proofs.CardLemmas.

(* every lawful 8-byte block cipher with the Triple DES key sizes *)
Theorem C09_cvv : forall cd : cipher,
  cipher_ok cd -> bs cd = 8%nat -> (forall k, valid_key cd k = tdes_valid_key k) ->
  forall cvk pan expiry service_code,
  length cvk = 16%nat ->
  (length pan <= 19)%nat -> ascii_numeric pan = true ->
  length expiry = 4%nat -> ascii_numeric expiry = true ->
  length service_code = 3%nat -> ascii_numeric service_code = true ->
  exists v, generate_cvv cd cvk pan expiry service_code = Ok v /\
            v = spec_cvv (enc cd) cvk pan expiry service_code /\
            length v = 3%nat /\ ascii_numeric v = true.
Proof. exact cvv_ok. Qed.
Print Assumptions C09_cvv.

(* Triple DES over any lawful single DES: encrypt under KA, xor, then
   encrypt KA - decrypt KB - encrypt KA, decimalise *)
Theorem C09_cvv_tdes : forall (d : des_prim) cvk pan expiry service_code, des_ok d ->
  length cvk = 16%nat ->
  (length pan <= 19)%nat -> ascii_numeric pan = true ->
  length expiry = 4%nat -> ascii_numeric expiry = true ->
  length service_code = 3%nat -> ascii_numeric service_code = true ->
  exists v, generate_cvv (tdes d) cvk pan expiry service_code = Ok v /\
            v = spec_cvv (enc (tdes d)) cvk pan expiry service_code /\
            v = spec_cvv_des (des_enc d) (des_dec d) cvk pan expiry service_code /\
            length v = 3%nat /\ ascii_numeric v = true.
Proof. exact cvv_ok_tdes. Qed.
Print Assumptions C09_cvv_tdes.

(* any violated guard: ValueError *)
Theorem C09_domain : forall (cd : cipher) cvk pan expiry service_code,
  (length cvk <> 16%nat \/ (19 < length pan)%nat \/ ascii_numeric pan = false \/
   length expiry <> 4%nat \/ ascii_numeric expiry = false \/
   length service_code <> 3%nat \/ ascii_numeric service_code = false) ->
  generate_cvv cd cvk pan expiry service_code = Err ValueError.
Proof. exact cvv_domain. Qed.
Print Assumptions C09_domain.

(* on every input: a value or ValueError, never another exception *)
Theorem C09_total : forall cd : cipher,
  cipher_ok cd -> bs cd = 8%nat -> (forall k, valid_key cd k = tdes_valid_key k) ->
  forall cvk pan expiry service_code,
  (exists v, generate_cvv cd cvk pan expiry service_code = Ok v) \/
  generate_cvv cd cvk pan expiry service_code = Err ValueError.
Proof. exact cvv_total. Qed.
Print Assumptions C09_total.

(* The pinned (pre-fix) code has a single decimalisation pass.  The statement
     forall c cvk pan e s, cipher_ok c -> bs c = 8 -> (guards hold) ->
       exists v, generate_cvv_legacy c cvk pan e s = Ok v /\ length v = 3
   is FALSE; refutation by a witness: *)
Theorem C09_legacy_refuted :
  exists c, cipher_ok c /\ bs c = 8%nat /\ (forall k, valid_key c k = tdes_valid_key k) /\
  exists cvk pan e s,
    length cvk = 16%nat /\ bytes_ok cvk = true /\
    (length pan <= 19)%nat /\ ascii_numeric pan = true /\
    length e = 4%nat /\ ascii_numeric e = true /\
    length s = 3%nat /\ ascii_numeric s = true /\
    exists v, generate_cvv_legacy c cvk pan e s = Ok v /\ (length v < 3)%nat.
Proof. exact cvv_legacy_refuted. Qed.
Print Assumptions C09_legacy_refuted.

(* the same inside the genuine Triple DES construction; the repaired function
   returns three digits on the very same input *)
Theorem C09_legacy_refuted_tdes :
  exists d, des_ok d /\
  exists cvk pan e s,
    length cvk = 16%nat /\ bytes_ok cvk = true /\
    (length pan <= 19)%nat /\ ascii_numeric pan = true /\
    length e = 4%nat /\ ascii_numeric e = true /\
    length s = 3%nat /\ ascii_numeric s = true /\
    exists v, generate_cvv_legacy (tdes d) cvk pan e s = Ok v /\ (length v < 3)%nat /\
    exists v', generate_cvv (tdes d) cvk pan e s = Ok v' /\ length v' = 3%nat /\ v' <> v.
Proof. exact cvv_legacy_refuted_tdes. Qed.
Print Assumptions C09_legacy_refuted_tdes.

(* premises are satisfiable: the toy Triple DES is lawful, and a concrete call
   CVK 0123456789ABCDEFFEDCBA9876543210, PAN 1234567890123456, 9912, 220 *)
Example C09_cipher_instance :
  cipher_ok toy_tdes /\ bs toy_tdes = 8%nat /\ (forall k, valid_key toy_tdes k = tdes_valid_key k).
Proof. split; [exact (Proofs.TdesLemmas.tdes_ok toy_des toy_des_ok) | split; reflexivity]. Qed.

Example C09_instance :
  let cvk := [1;35;69;103;137;171;205;239;254;220;186;152;118;84;50;16]%N in
  let pan := [49;50;51;52;53;54;55;56;57;48;49;50;51;52;53;54]%N in
  let expiry := [57;57;49;50]%N in
  let sc := [50;50;48]%N in
  length cvk = 16%nat /\ (length pan <= 19)%nat /\ ascii_numeric pan = true /\
  length expiry = 4%nat /\ ascii_numeric expiry = true /\
  length sc = 3%nat /\ ascii_numeric sc = true /\
  generate_cvv toy_tdes cvk pan expiry sc = Ok [49; 50; 51]%N /\
  spec_cvv (enc toy_tdes) cvk pan expiry sc = [49; 50; 51]%N /\
  generate_cvv toy_tdes cvk pan [57;57;49]%N sc = Err ValueError.
Proof. vm_compute. repeat split; (reflexivity || (repeat constructor)). Qed.
