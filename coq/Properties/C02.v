(* C02 - TR-31 unwrap rejects every unauthentic or tampered key block.

   "Every string that differs from a genuine block is rejected" is a
   cryptographic claim (a 4-byte MAC is guessed with probability 2^-32) and is
   FALSE for some lawful block ciphers (C02_not_structural below exhibits an
   accepted forgery under the linear toy cipher), so it cannot be a theorem
   over abstract ciphers.  What is proved, for every lawful pair of ciphers, is
   the reduction: unwrap returns a key ONLY IF (and if) the received MAC equals
   the MAC recomputed under the KBAK derived from the whole KBPK over the
   ENTIRE header text (all header_len characters: version, length field, usage,
   ..., block count, reserved field, every optional block including the pad
   block) followed by the whole key data, compared over the full MAC length.
   Hence accepting a string whose (message, tag) pair the wrapper never issued
   is a forgery against CMAC (versions B, D) or CBC-MAC (versions A, C).

   NOT PROVED, and not provable here: the unforgeability of CMAC / CBC-MAC.

   Only statements, each closed by [exact] of a lemma of Proofs/Tr31SpecC02.v. *)
From Psec Require Import Lib.Base Cipher.Cipher Cipher.Toy Cipher.DES Cipher.AES Model.Tr31
  Proofs.XorLemmas Proofs.Tr31Defs Spec.CMAC Spec.TR31 Proofs.Tr31Spec Proofs.Tr31SpecC02.
Open Scope N_scope.

(* [accepts cd ca kbpk s h k] (Proofs/Tr31SpecC02.v) spelled out:
     exists header_len ek mac,
       header_load default_header s = (h, Ok header_len) /\
       int_of_dec (slice 1 4 s) = Ok (lenN s) /\               (length field = true length)
       let hdr := firstn header_len s in
       version B:  binary_section 8 8 s header_len ek mac /\ auth_b cd kbpk hdr ek mac k
       version D:  binary_section 16 16 s header_len ek mac /\ auth_d ca kbpk hdr ek mac k
       version A/C: binary_section 8 4 s header_len ek mac /\ auth_c cd kbpk hdr ek mac k
   binary_section abs maclen s header_len ek mac :=
       length s mod abs = 0 /\
       bytes_fromhex (last_n (maclen*2) (skipn header_len s)) = Ok mac /\ length mac = maclen /\
       bytes_fromhex (drop_last (maclen*2) (skipn header_len s)) = Ok ek
   auth_b cd kbpk hdr ek mac k :=
       length kbpk in {16,24} /\ 8 <= length ek /\ length ek mod 8 = 0 /\ ascii_str hdr /\
       let (kbek, kbak) := spec_kdf_b cd kbpk in
       let clear := spec_decrypt cd kbek mac ek in              (CBC, IV = received MAC)
       mac = psec_mac_bd cd kbak (hdr ++ clear) /\ extract_key clear = Ok k
     where psec_mac_bd = cmac whenever length hdr is a block multiple (C02_mac_is_cmac_b),
     which is the case when the binary section has no white space (C02_no_ws_header_multiple);
   auth_d likewise with AES, 16-byte blocks, KBPK of 16/24/32 bytes;
   auth_c cd kbpk hdr ek mac k :=
       length kbpk in {8,16,24} /\ 8 <= length ek /\ length ek mod 8 = 0 /\ ascii_str hdr /\
       8 <= length hdr /\ let (kbek, kbak) := spec_variant kbpk in
       mac = spec_mac_c cd kbak hdr ek /\                        (4 bytes of CBC-MAC)
       extract_key (spec_decrypt cd kbek (firstn 8 hdr) ek) = Ok k *)

Theorem C02_accept_iff : forall cd ca, ciphers_ok cd ca -> forall kbpk s h k, bytes_ok kbpk = true ->
  (unwrap cd ca kbpk s = Ok (h, k) <-> accepts cd ca kbpk s h k).
Proof. exact accept_iff. Qed.
Print Assumptions C02_accept_iff.

Theorem C02_accept_only_if : forall cd ca, ciphers_ok cd ca -> forall kbpk s h k, bytes_ok kbpk = true ->
  unwrap cd ca kbpk s = Ok (h, k) -> accepts cd ca kbpk s h k.
Proof. exact accept_only_if. Qed.
Print Assumptions C02_accept_only_if.

(* per version, on the parsed pieces *)
Theorem C02_accept_iff_b : forall cd ca, ciphers_ok cd ca -> forall kbpk hdr ek mac k,
  bytes_ok kbpk = true -> bytes_ok ek = true -> bytes_ok mac = true -> length mac = 8%nat ->
  (b_unwrap cd ca kbpk hdr ek mac = Ok k <-> auth_b cd kbpk hdr ek mac k).
Proof. exact b_unwrap_iff. Qed.
Print Assumptions C02_accept_iff_b.

Theorem C02_accept_iff_d : forall cd ca, ciphers_ok cd ca -> forall kbpk hdr ek mac k,
  bytes_ok kbpk = true -> bytes_ok ek = true -> bytes_ok mac = true -> length mac = 16%nat ->
  (d_unwrap cd ca kbpk hdr ek mac = Ok k <-> auth_d ca kbpk hdr ek mac k).
Proof. exact d_unwrap_iff. Qed.
Print Assumptions C02_accept_iff_d.

Theorem C02_accept_iff_c : forall cd ca, ciphers_ok cd ca -> forall kbpk hdr ek mac k,
  bytes_ok kbpk = true -> bytes_ok ek = true -> bytes_ok mac = true ->
  (c_unwrap cd ca kbpk hdr ek mac = Ok k <-> auth_c cd kbpk hdr ek mac k).
Proof. exact c_unwrap_iff. Qed.
Print Assumptions C02_accept_iff_c.

(* list_eqb, the comparison of the two MACs, is equality of the whole lists *)
Theorem C02_mac_compare_is_equality : forall a b, list_eqb a b = true <-> a = b.
Proof. exact list_eqb_eq. Qed.
Print Assumptions C02_mac_compare_is_equality.

(* C02_mac_covers_everything.  If unwrap accepts s (version B / D, header text
   a whole number of blocks) then the pair
       message := header text ++ clear key data,   tag := received MAC
   satisfies tag = CMAC_kbak(message): the Spec itself opens the block.
   Therefore accepting a string s' whose (message', tag') differs from every
   pair the wrapper issued is a CMAC forgery under KBAK. *)
Theorem C02_mac_is_cmac_b : forall cd ca, ciphers_ok cd ca -> forall kbpk hdr ek mac k,
  bytes_ok kbpk = true -> bytes_ok ek = true -> bytes_ok mac = true -> length mac = 8%nat ->
  auth_b cd kbpk hdr ek mac k -> (length hdr mod 8 = 0)%nat ->
  spec_open_b cd kbpk hdr ek mac = Some (spec_decrypt cd (fst (spec_kdf_b cd kbpk)) mac ek) /\
  mac = cmac cd (snd (spec_kdf_b cd kbpk)) (hdr ++ spec_decrypt cd (fst (spec_kdf_b cd kbpk)) mac ek).
Proof. exact auth_b_cmac. Qed.
Print Assumptions C02_mac_is_cmac_b.

Theorem C02_mac_is_cmac_d : forall cd ca, ciphers_ok cd ca -> forall kbpk hdr ek mac k,
  bytes_ok kbpk = true -> bytes_ok ek = true -> bytes_ok mac = true -> length mac = 16%nat ->
  auth_d ca kbpk hdr ek mac k -> (length hdr mod 16 = 0)%nat ->
  spec_open_d ca kbpk hdr ek mac = Some (spec_decrypt ca (fst (spec_kdf_d ca kbpk)) mac ek) /\
  mac = cmac ca (snd (spec_kdf_d ca kbpk)) (hdr ++ spec_decrypt ca (fst (spec_kdf_d ca kbpk)) mac ek).
Proof. exact auth_d_cmac. Qed.
Print Assumptions C02_mac_is_cmac_d.

Theorem C02_mac_is_cbc_mac_c : forall cd ca, ciphers_ok cd ca -> forall kbpk hdr ek mac k,
  auth_c cd kbpk hdr ek mac k ->
  spec_open_c cd kbpk hdr ek mac = Some (spec_decrypt cd (fst (spec_variant kbpk)) (firstn 8 hdr) ek) /\
  ((length hdr + length ek) mod 8 = 0 ->
   mac = firstn 4 (cbc_mac cd (snd (spec_variant kbpk)) (hdr ++ ek)))%nat.
Proof. exact auth_c_open. Qed.
Print Assumptions C02_mac_is_cbc_mac_c.

(* no white space in the binary section => the header text is a block multiple *)
Theorem C02_no_ws_header_multiple : forall abs maclen s hl ek mac,
  (abs = 8 \/ abs = 16)%nat -> (0 < maclen)%nat -> ((maclen * 2) mod abs = 0)%nat ->
  binary_section abs maclen s hl ek mac -> (length ek mod abs = 0)%nat ->
  length (skipn hl s) = (2 * length ek + 2 * maclen)%nat ->
  (hl mod abs = 0)%nat /\ (hl <= length s)%nat.
Proof. exact no_ws_header_multiple. Qed.
Print Assumptions C02_no_ws_header_multiple.

(* the map s |-> (message, tag) is injective on accepted parses of equal header
   length: same message and same tag force the same header text, the same
   encrypted key data (CBC decryption under KBEK with IV = tag is injective) and
   the same key.  Two accepted texts with the same (header text, ek, mac) differ
   only in letter case / white space of the binary section; the canonical
   upper-case text is unique.
   [partial] the full statement would drop the premise [length hdr = length hdr']
   (the header text delimits itself - a property of the header codec). *)
Theorem C02_binding_b_partial : forall cd ca, ciphers_ok cd ca -> forall kbpk hdr hdr' ek ek' mac k k',
  bytes_ok kbpk = true -> bytes_ok ek = true -> bytes_ok ek' = true -> bytes_ok mac = true ->
  length mac = 8%nat ->
  auth_b cd kbpk hdr ek mac k -> auth_b cd kbpk hdr' ek' mac k' -> length hdr = length hdr' ->
  hdr ++ spec_decrypt cd (fst (spec_kdf_b cd kbpk)) mac ek
    = hdr' ++ spec_decrypt cd (fst (spec_kdf_b cd kbpk)) mac ek' ->
  hdr = hdr' /\ ek = ek' /\ k = k'.
Proof. exact binding_b_partial. Qed.
Print Assumptions C02_binding_b_partial.

Theorem C02_binding_d_partial : forall cd ca, ciphers_ok cd ca -> forall kbpk hdr hdr' ek ek' mac k k',
  bytes_ok kbpk = true -> bytes_ok ek = true -> bytes_ok ek' = true -> bytes_ok mac = true ->
  length mac = 16%nat ->
  auth_d ca kbpk hdr ek mac k -> auth_d ca kbpk hdr' ek' mac k' -> length hdr = length hdr' ->
  hdr ++ spec_decrypt ca (fst (spec_kdf_d ca kbpk)) mac ek
    = hdr' ++ spec_decrypt ca (fst (spec_kdf_d ca kbpk)) mac ek' ->
  hdr = hdr' /\ ek = ek' /\ k = k'.
Proof. exact binding_d_partial. Qed.
Print Assumptions C02_binding_d_partial.

Theorem C02_binding_c_partial : forall cd kbpk hdr hdr' ek ek' mac k k',
  auth_c cd kbpk hdr ek mac k -> auth_c cd kbpk hdr' ek' mac k' -> length hdr = length hdr' ->
  hdr ++ ek = hdr' ++ ek' -> hdr = hdr' /\ ek = ek' /\ k = k'.
Proof. exact binding_c_partial. Qed.
Print Assumptions C02_binding_c_partial.

Theorem C02_canonical_text : forall hdr hdr' ek ek' mac mac' : list N,
  hdr = hdr' -> ek = ek' -> mac = mac' ->
  spec_block_text hdr (ek, mac) = spec_block_text hdr' (ek', mac').
Proof. exact canonical_text_determined. Qed.
Print Assumptions C02_canonical_text.

(* direct from the model: wrong length field, wrong total length *)
Theorem C02_wrong_length_field : forall cd ca kbpk s h hl,
  header_load default_header s = (h, Ok hl) ->
  int_of_dec (slice 1 4 s) <> Ok (lenN s) -> unwrap cd ca kbpk s = Err KeyBlockError.
Proof. exact wrong_length_field. Qed.
Print Assumptions C02_wrong_length_field.

Theorem C02_truncation : forall cd ca kbpk s h hl abs,
  header_load default_header s = (h, Ok hl) ->
  algo_block_size (version_id h) = Ok abs -> (length s mod abs <> 0)%nat ->
  unwrap cd ca kbpk s = Err KeyBlockError.
Proof. exact truncation. Qed.
Print Assumptions C02_truncation.

(* every version's block size is 8 or 16 *)
Theorem C02_truncation_8 : forall cd ca kbpk s h hl,
  header_load default_header s = (h, Ok hl) ->
  (length s mod 8 <> 0)%nat -> unwrap cd ca kbpk s = Err KeyBlockError.
Proof. exact truncation_8. Qed.
Print Assumptions C02_truncation_8.

(* ---------------- Examples ---------------- *)
(* the premises are satisfiable *)
Example C02_ciphers_exist : ciphers_ok toy_tdes toy_aes.
Proof. exact toy_ciphers_ok. Qed.

(* a genuine version-B block with one optional block, built by kb_wrap with the
   executable Triple DES, is accepted ... *)
Example C02_genuine_accepted :
  lenN (ex_wrap real_tdes real_aes) = 104 /\
  unwrap real_tdes real_aes ex_kbpk (ex_wrap real_tdes real_aes) = Ok (ex_header, ex_key).
Proof. vm_compute. split; reflexivity. Qed.

(* ... also with the hex digits of its binary section in lower case ... *)
Example C02_hex_case_accepted :
  lower_from 24 (ex_wrap real_tdes real_aes) <> ex_wrap real_tdes real_aes /\
  unwrap real_tdes real_aes ex_kbpk (lower_from 24 (ex_wrap real_tdes real_aes)) = Ok (ex_header, ex_key).
Proof. split; [vm_compute; discriminate | vm_compute; reflexivity]. Qed.

(* ... and rejected after changing one header character (key usage P0 -> K0),
   one optional-block character (1234 -> 1294), one ciphertext nibble, one MAC
   nibble, or the length field (computations, not cryptographic claims) *)
Example C02_tampered_rejected :
  let g := ex_wrap real_tdes real_aes in
  (nth 5 g 0 <> 75 /\ nth 22 g 0 <> 57 /\ nth 40 g 0 <> 70 /\ nth 95 g 0 <> 70) /\
  unwrap real_tdes real_aes ex_kbpk (tamper 5 75 g) = Err KeyBlockError /\
  unwrap real_tdes real_aes ex_kbpk (tamper 22 57 g) = Err KeyBlockError /\
  unwrap real_tdes real_aes ex_kbpk (tamper 40 70 g) = Err KeyBlockError /\
  unwrap real_tdes real_aes ex_kbpk (tamper 95 70 g) = Err KeyBlockError /\
  unwrap real_tdes real_aes ex_kbpk (tamper 4 53 g) = Err KeyBlockError /\
  unwrap real_tdes real_aes ex_kbpk (g ++ [48; 48; 48; 48; 48; 48; 48; 48]) = Err KeyBlockError /\
  unwrap real_tdes real_aes ex_kbpk (drop_last 8 g) = Err KeyBlockError.
Proof. vm_compute. repeat split; try reflexivity; discriminate. Qed.

(* the same with the toy ciphers: header and optional-block changes are rejected *)
Example C02_toy_tampered_rejected :
  let g := ex_wrap toy_tdes toy_aes in
  unwrap toy_tdes toy_aes ex_kbpk g = Ok (ex_header, ex_key) /\
  unwrap toy_tdes toy_aes ex_kbpk (tamper 5 75 g) = Err KeyBlockError /\
  unwrap toy_tdes toy_aes ex_kbpk (tamper 22 57 g) = Err KeyBlockError.
Proof. vm_compute. repeat split; reflexivity. Qed.

(* rejection of tampering is not structural: the toy cipher is lawful
   (cipher_ok) but linear, and a block whose MAC was changed by one nibble is
   accepted and yields a different key.  So "every differing string is
   rejected" does not follow from [ciphers_ok]; it needs unforgeability. *)
Example C02_not_structural :
  let g := ex_wrap toy_tdes toy_aes in
  nth 95 g 0 <> 70 /\
  exists k', k' <> ex_key /\ unwrap toy_tdes toy_aes ex_kbpk (tamper 95 70 g) = Ok (ex_header, k').
Proof.
  cbv zeta. split; [vm_compute; discriminate|].
  exists [17; 46; 51; 68; 85; 102; 119; 136]. split; [discriminate | vm_compute; reflexivity].
Qed.

(* boundary of the CMAC form: bytes.fromhex skips white space, so the header
   text of an accepted block need not be a whole number of blocks.  This block
   (header text of 20 characters, 4 blanks before the encrypted key; produced
   with psec's own helpers and accepted by psec) is accepted, yet its tag is
   not the CMAC of header text ++ clear key data (the Spec does not open it):
   there the accepted tag is [psec_mac_bd], K1 folded into the last 8 bytes of
   the unpadded input followed by zero padding.  Producing it still requires
   the KBAK; C02_accept_iff covers it. *)
Example C02_white_space_boundary :
  let s := [66; 48; 48; 56; 56; 80; 48; 84; 69; 48; 48; 78; 48; 49; 48; 48; 75; 83; 48; 52; 32; 32; 32; 32; 49; 53; 69; 48; 48; 70; 49; 57; 57; 69; 48; 48; 55; 57; 52; 68; 68; 51; 55; 55; 68; 51; 52; 66; 67; 65; 65; 70; 57; 50; 51; 53; 53; 70; 57; 54; 51; 67; 70; 49; 65; 52; 66; 51; 53; 68; 70; 70; 67; 65; 67; 53; 68; 68; 70; 69; 48; 67; 56; 48; 51; 55; 54; 66] in
  header_load default_header s
    = (mkHeader [cB] [80;48] [84] [69] [48;48] [78] [48;48] [([75;83], [])], Ok 20%nat) /\
  unwrap real_tdes real_aes ex_kbpk s
    = Ok (mkHeader [cB] [80;48] [84] [69] [48;48] [78] [48;48] [([75;83], [])], ex_key) /\
  match bytes_fromhex (slice 24 48 s), bytes_fromhex (skipn 72 s) with
  | Ok ek, Ok mac => spec_open_b real_tdes ex_kbpk (firstn 20 s) ek mac = None
  | _, _ => False
  end.
Proof. vm_compute. repeat split; reflexivity. Qed.
