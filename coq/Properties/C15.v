(* C15 - TR-31 parsing fails only with its documented errors.
   Only statements, each closed by [exact] of a lemma from Proofs/Tr31Safety*.v.

   [safe r] (Proofs/Tr31SafetyBase.v): r is [Ok _], [Err HeaderError] or
   [Err KeyBlockError]; every other exception of the model ([Err ValueError],
   [Err (Crash _)]: UnicodeEncodeError, OverflowError, IndexError, KeyError,
   ZeroDivisionError, non-psec ValueError) is excluded.
   [safe_or_tape r]: [safe r] or r is [Err (Crash CType)], the MODEL's marker for
   a random tape of the wrong length handed to the model of wrap (the code draws
   the tape itself with os.urandom, so this is not a behaviour of the code); the
   [_good_tape] theorems show that the marker occurs for no tape of the right length.

   The input text is any list of code points of any length, the KBPK any byte
   list of any length (not even [bytes_ok] is needed), the key to wrap any list.
   "Never hangs": all model functions are structural Fixpoints (see the header
   of Proofs/Tr31SafetyBase.v). *)
From Psec Require Import Lib.Base Cipher.Cipher Cipher.Toy Model.Tr31 Proofs.Tr31Defs
  Proofs.Tr31SafetyBase Proofs.Tr31SafetyLoad Proofs.Tr31SafetyUnwrap Proofs.Tr31SafetyWrap
  Proofs.Tr31Safety.

(* Header.load on ANY prior object state *)
Theorem C15_header_load_safe : forall st s, safe (snd (header_load st s)).
Proof. exact header_load_safe. Qed.
Print Assumptions C15_header_load_safe.

(* unwrap(kbpk, key_block) *)
Theorem C15_unwrap_safe : forall cd ca, ciphers_ok cd ca ->
  forall kbpk s, safe (unwrap cd ca kbpk s).
Proof. exact unwrap_safe. Qed.
Print Assumptions C15_unwrap_safe.

(* KeyBlock.unwrap on ANY prior object state *)
Theorem C15_kb_unwrap_safe : forall cd ca, ciphers_ok cd ca ->
  forall kbpk h s, safe (snd (kb_unwrap cd ca kbpk h s)).
Proof. exact kb_unwrap_safe. Qed.
Print Assumptions C15_kb_unwrap_safe.

(* wrap(kbpk, header_string, key, masked_key_len) *)
Theorem C15_wrap_str_safe : forall cd ca, ciphers_ok cd ca ->
  forall kbpk hs key mask tape, safe_or_tape (wrap_str cd ca kbpk hs key mask tape).
Proof. exact wrap_str_safe. Qed.
Print Assumptions C15_wrap_str_safe.

Theorem C15_wrap_str_safe_good_tape : forall cd ca, ciphers_ok cd ca ->
  forall kbpk hs key mask tape,
  length tape = wrap_tape_len (fst (header_load default_header hs)) key mask ->
  safe (wrap_str cd ca kbpk hs key mask tape).
Proof. exact wrap_str_good_tape. Qed.
Print Assumptions C15_wrap_str_safe_good_tape.

(* KeyBlock.wrap / wrap() with a Header object built through the API *)
Theorem C15_wrap_safe : forall cd ca, ciphers_ok cd ca ->
  forall kbpk h key mask tape, header_ok h -> safe_or_tape (kb_wrap cd ca kbpk h key mask tape).
Proof. exact kb_wrap_ok_header. Qed.
Print Assumptions C15_wrap_safe.

Theorem C15_wrap_safe_good_tape : forall cd ca, ciphers_ok cd ca ->
  forall kbpk h key mask tape, header_ok h ->
  length tape = wrap_tape_len h key mask -> safe (kb_wrap cd ca kbpk h key mask tape).
Proof. exact kb_wrap_ok_header_good_tape. Qed.
Print Assumptions C15_wrap_safe_good_tape.

(* the same under the weaker invariant [header_wf] (header_ok without "no pad id"
   and "no duplicate id"), which every object reachable through the API has *)
Theorem C15_wrap_safe_wf : forall cd ca, ciphers_ok cd ca ->
  forall kbpk h key mask tape, header_wf h ->
  safe_or_badtape (length tape <> wrap_tape_len h key mask) (kb_wrap cd ca kbpk h key mask tape).
Proof. exact kb_wrap_sharp. Qed.
Print Assumptions C15_wrap_safe_wf.

(* Header.dump and str(header) need the supported-version invariant only *)
Theorem C15_header_dump_safe : forall h key_len, version_supported (version_id h) = true ->
  safe (header_dump h key_len) /\ safe (header_str h).
Proof. intros h kl V. split; [exact (header_dump_safe h kl V) | exact (header_str_safe h V)]. Qed.
Print Assumptions C15_header_dump_safe.

(* the invariants hold of Header() and are kept by every operation, also a failing one *)
Theorem C15_version_invariant : forall cd ca st o,
  version_supported (version_id (st_header st)) = true ->
  version_supported (version_id (st_header (fst (step cd ca st o)))) = true.
Proof. exact step_version. Qed.
Print Assumptions C15_version_invariant.

Theorem C15_wf_invariant : forall cd ca st o,
  header_wf (st_header st) -> header_wf (st_header (fst (step cd ca st o))).
Proof. exact step_wf. Qed.
Print Assumptions C15_wf_invariant.

(* object form: after any history on KeyBlock(kbpk), the next operation *)
Theorem C15_reachable_safe : forall cd ca, ciphers_ok cd ca -> forall kbpk ops o,
  let st := fst (run cd ca (mkState kbpk default_header) ops) in
  header_wf (st_header st) /\
  match o with
  | OpDelBlock _ => True      (* KeyError of  del blocks[id]  is dict behaviour, not parsing *)
  | OpWrap _ _ _ => out_safe (snd (step cd ca st o)) \/ snd (step cd ca st o) = OutErr (Crash CType)
  | _ => out_safe (snd (step cd ca st o))
  end.
Proof. exact reachable_safe. Qed.
Print Assumptions C15_reachable_safe.

(* The pinned tree (pad-block data not validated) is NOT safe: a key block whose
   pad block carries U+00E9 passes Header.load and unwrap raises UnicodeEncodeError.
   Full statement that fails there:
     forall cd ca, ciphers_ok cd ca -> forall kbpk s, safe (unwrap_legacy cd ca kbpk s). *)
Theorem C15_legacy_refuted : exists cd ca kbpk s, ciphers_ok cd ca /\ bytes_ok kbpk = true /\
  unwrap_legacy cd ca kbpk s = Err (Crash CUnicodeEncode).
Proof. exact legacy_refuted. Qed.
Print Assumptions C15_legacy_refuted.

Example C15_legacy_witness :
  unwrap_legacy toy_tdes toy_aes legacy_kbpk legacy_witness = Err (Crash CUnicodeEncode) /\
  snd (header_load_legacy default_header legacy_witness) = Ok 24%nat /\
  unwrap toy_tdes toy_aes legacy_kbpk legacy_witness = Err HeaderError.
Proof. exact (conj legacy_crash (conj legacy_load_ok repaired_on_witness)). Qed.

(* premises are satisfiable, and all three outcomes occur *)
Example C15_ciphers_ok_inhabited : ciphers_ok toy_tdes toy_aes.
Proof. exact toy_ciphers_ok. Qed.

Example C15_header_ok_inhabited : header_ok default_header /\ header_wf default_header.
Proof. exact (conj default_header_ok default_header_wf). Qed.

Example C15_wrap_unwrap_B :
  length ex_tape = wrap_tape_len (fst (header_load default_header ex_whdr)) ex_key None /\
  match wrap_str toy_tdes toy_aes legacy_kbpk ex_whdr ex_key None ex_tape with
  | Ok blk => match unwrap toy_tdes toy_aes legacy_kbpk blk with
              | Ok (_, k) => k = ex_key
              | Err _ => False
              end
  | Err _ => False
  end.
Proof. exact wrap_unwrap_example_B. Qed.

Example C15_wrap_unwrap_D :
  length ex_tape_d = wrap_tape_len (fst (header_load default_header ex_dhdr)) ex_key None /\
  match wrap_str toy_tdes toy_aes legacy_kbpk ex_dhdr ex_key None ex_tape_d with
  | Ok blk => match unwrap toy_tdes toy_aes legacy_kbpk blk with
              | Ok (_, k) => k = ex_key
              | Err _ => False
              end
  | Err _ => False
  end.
Proof. exact wrap_unwrap_example_D. Qed.

Example C15_errors_occur :
  unwrap toy_tdes toy_aes legacy_kbpk [] = Err HeaderError /\
  unwrap toy_tdes toy_aes legacy_kbpk ex_whdr = Err KeyBlockError /\
  unwrap toy_tdes toy_aes [] ex_whdr = Err KeyBlockError /\
  wrap_str toy_tdes toy_aes [1; 2; 3]%N ex_whdr ex_key None ex_tape = Err KeyBlockError.
Proof. exact errors_example. Qed.

Example C15_wrong_tape_marker :
  wrap_str toy_tdes toy_aes legacy_kbpk ex_whdr ex_key None [] = Err (Crash CType).
Proof. exact wrong_tape_example. Qed.
