(* C20 - Key parity, key variants and bit helpers are exact.
   Only statements, each closed by [exact] of a lemma from Proofs/ToolsLemmas.v.
   [popcount_odd n v] (Proofs/ToolsLemmas.v) is the xor of bits 0..n-1 of v. *)
From Psec Require Import Lib.Base Model.Tools Proofs.ToolsLemmas.
Open Scope N_scope.

(* tools.odd_parity is the bit-count parity of every 32-bit value *)
Theorem C20_odd_parity : forall v, v < 2 ^ 32 ->
  odd_parity v = if popcount_odd 32 v then 1 else 0.
Proof. exact odd_parity_spec. Qed.
Print Assumptions C20_odd_parity.

(* ... and for larger integers it silently looks at the low 32 bits only *)
Theorem C20_odd_parity_any : forall v, odd_parity v = if popcount_odd 32 v then 1 else 0.
Proof. exact odd_parity_low32. Qed.
Print Assumptions C20_odd_parity_any.

(* des.adjust_key_parity: same length; every output byte has odd parity, is the
   input byte or the input byte with its lowest bit flipped, and keeps the 7
   effective bits (o / 2 = i / 2) *)
Theorem C20_parity_adjust : forall key, bytes_ok key = true ->
  length (adjust_key_parity key) = length key /\
  bytes_ok (adjust_key_parity key) = true /\
  Forall2 (fun i o => popcount_odd 8 o = true /\ (o = i \/ o = N.lxor i 1) /\ o / 2 = i / 2)
          key (adjust_key_parity key).
Proof. exact parity_adjust. Qed.
Print Assumptions C20_parity_adjust.

Theorem C20_parity_idempotent : forall key, bytes_ok key = true ->
  adjust_key_parity (adjust_key_parity key) = adjust_key_parity key.
Proof. exact parity_idempotent. Qed.
Print Assumptions C20_parity_idempotent.

(* des.apply_key_variant: 8*v is xored into byte 0 of every 8-byte component, and
   nothing else changes *)
Theorem C20_variant : forall key v, bytes_ok key = true ->
  (length key = 8 \/ length key = 16 \/ length key = 24)%nat -> (0 <= v <= 31)%Z ->
  exists out, apply_key_variant key v = Ok out /\ length out = length key /\
    bytes_ok out = true /\
    forall i, (i < length key)%nat ->
      nth i out 0 = if (i mod 8 =? 0)%nat then N.lxor (nth i key 0) (8 * Z.to_N v)
                    else nth i key 0.
Proof. exact variant_exact. Qed.
Print Assumptions C20_variant.

Theorem C20_variant_involutive : forall key v out, bytes_ok key = true ->
  (length key = 8 \/ length key = 16 \/ length key = 24)%nat -> (0 <= v <= 31)%Z ->
  apply_key_variant key v = Ok out -> apply_key_variant out v = Ok key.
Proof. exact variant_involutive. Qed.
Print Assumptions C20_variant_involutive.

Theorem C20_variant_rejects : forall key v,
  (~ (length key = 8 \/ length key = 16 \/ length key = 24)%nat \/ (v < 0)%Z \/ (31 < v)%Z) ->
  apply_key_variant key v = Err ValueError.
Proof. exact variant_rejects. Qed.
Print Assumptions C20_variant_rejects.

(* tools.xor: as long as the data; data[i]^mask[i] where the mask reaches,
   data[i] beyond; surplus mask bytes ignored *)
Theorem C20_xor : forall data mask, bytes_ok data = true -> bytes_ok mask = true ->
  length (py_xor data mask) = length data /\
  forall i, (i < length data)%nat ->
    nth i (py_xor data mask) 0 =
    if (i <? length mask)%nat then N.lxor (nth i data 0) (nth i mask 0) else nth i data 0.
Proof. exact xor_exact. Qed.
Print Assumptions C20_xor.

(* ------------------------------------------------------------------ *)
(* premises are satisfiable: concrete non-trivial instances             *)

(* doctest of adjust_key_parity:
   1A2B3C4D5F0A1B2C4D5F6A7B8C9D0F1A -> 1A2A3D4C5E0B1A2C4C5E6B7A8C9D0E1A *)
Example C20_parity_doctest :
  let key := [0x1A; 0x2B; 0x3C; 0x4D; 0x5F; 0x0A; 0x1B; 0x2C;
              0x4D; 0x5F; 0x6A; 0x7B; 0x8C; 0x9D; 0x0F; 0x1A] in
  bytes_ok key = true /\
  adjust_key_parity key =
    [0x1A; 0x2A; 0x3D; 0x4C; 0x5E; 0x0B; 0x1A; 0x2C;
     0x4C; 0x5E; 0x6B; 0x7A; 0x8C; 0x9D; 0x0E; 0x1A] /\
  adjust_key_parity (adjust_key_parity key) = adjust_key_parity key.
Proof. vm_compute. repeat split. Qed.

(* doctest of apply_key_variant: variant 1 on 0123456789ABCDEF -> 0923456789ABCDEF,
   and back; a double-length key has both components masked *)
Example C20_variant_doctest :
  let key := [0x01; 0x23; 0x45; 0x67; 0x89; 0xAB; 0xCD; 0xEF] in
  bytes_ok key = true /\ length key = 8%nat /\
  apply_key_variant key 1 = Ok [0x09; 0x23; 0x45; 0x67; 0x89; 0xAB; 0xCD; 0xEF] /\
  apply_key_variant [0x09; 0x23; 0x45; 0x67; 0x89; 0xAB; 0xCD; 0xEF] 1 = Ok key /\
  apply_key_variant (key ++ key) 31 =
    Ok [0xF9; 0x23; 0x45; 0x67; 0x89; 0xAB; 0xCD; 0xEF; 0xF9; 0x23; 0x45; 0x67; 0x89; 0xAB; 0xCD; 0xEF].
Proof. vm_compute. repeat split. Qed.

Example C20_variant_rejects_instances :
  apply_key_variant (repeat 0 8) 32 = Err ValueError /\
  apply_key_variant (repeat 0 8) (-1) = Err ValueError /\
  apply_key_variant (repeat 0 7) 1 = Err ValueError /\
  apply_key_variant (repeat 0 32) 1 = Err ValueError.
Proof. vm_compute. repeat split. Qed.

(* xor: surplus mask ignored; short mask leaves the tail of the data unchanged *)
Example C20_xor_instances :
  py_xor [0x12; 0x34; 0x56] [0xFF; 0x0F; 0xF0; 0xAA] = [0xED; 0x3B; 0xA6] /\
  py_xor [0x12; 0x34; 0x56] [0xFF] = [0xED; 0x34; 0x56].
Proof. vm_compute. repeat split. Qed.

(* odd_parity: 0x80000001 has two bits set, 0x80000000 one; 0x1_0000_0000 is outside
   the 32-bit domain and is reported as even *)
Example C20_odd_parity_instances :
  odd_parity 0x80000001 = 0 /\ odd_parity 0x80000000 = 1 /\ odd_parity 7 = 1 /\
  odd_parity 0x100000000 = 0.
Proof. vm_compute. repeat split. Qed.
