(* C06 - the decoders accept exactly the well-formed blocks and bind the PAN.
   Well-formedness (wf0, wf2, wf3, wf4) is defined in Spec/ISO9564.v on the nibbles
   of the PAN-unmasked block.  Only statements, each closed by [exact] of a lemma
   from Proofs/PinblockLemmas.v.  [bytes_ok b] says that b is a bytes object. *)
From Psec Require Import Lib.Base Cipher.Cipher Cipher.Toy Model.Pinblock.
From Psec Require Import Proofs.XorLemmas Proofs.HexLemmas Spec.ISO9564 Proofs.PinblockLemmas.

(* ---- acceptance: a PIN is returned iff the block is well formed, and it is the encoded PIN ---- *)
Theorem C06_decode0_iff : forall b pan p, length b = 8%nat -> bytes_ok b = true -> bad_pan13 pan = false ->
  (decode_pinblock_iso_0 b pan = Ok p <-> wf0 (xor_pos (nibbles_of_bytes b) (spec_pan_block pan)) p).
Proof. exact decode0_iff. Qed.
Print Assumptions C06_decode0_iff.

Theorem C06_decode2_iff : forall b p, length b = 8%nat -> bytes_ok b = true ->
  (decode_pinblock_iso_2 b = Ok p <-> wf2 (nibbles_of_bytes b) p).
Proof. exact decode2_iff. Qed.
Print Assumptions C06_decode2_iff.

Theorem C06_decode3_iff : forall b pan p, length b = 8%nat -> bytes_ok b = true -> bad_pan13 pan = false ->
  (decode_pinblock_iso_3 b pan = Ok p <-> wf3 (xor_pos (nibbles_of_bytes b) (spec_pan_block pan)) p).
Proof. exact decode3_iff. Qed.
Print Assumptions C06_decode3_iff.

Theorem C06_decode4_iff : forall f p, length f = 16%nat -> bytes_ok f = true ->
  (decode_pin_field_iso_4 f = Ok p <-> wf4 (nibbles_of_bytes f) p).
Proof. exact decode4_iff. Qed.
Print Assumptions C06_decode4_iff.

(* the well-formed blocks are exactly the constructions of the standard *)
Theorem C06_wf0_is_spec : forall ns p, wf0 ns p <-> pin_ok p /\ ns = spec_pin_block_0 p.
Proof. exact wf0_spec. Qed.
Print Assumptions C06_wf0_is_spec.
Theorem C06_wf2_is_spec : forall ns p, wf2 ns p <-> pin_ok p /\ ns = spec_pin_block_2 p.
Proof. exact wf2_spec. Qed.
Print Assumptions C06_wf2_is_spec.
Theorem C06_wf3_is_spec : forall ns p, wf3 ns p <->
  pin_ok p /\ exists fill, length fill = (14 - length p)%nat /\ Forall (fun n => 10 <= n <= 15)%N fill /\
                           ns = spec_pin_block_3 p fill.
Proof. exact wf3_spec. Qed.
Print Assumptions C06_wf3_is_spec.
Theorem C06_wf4_is_spec : forall ns p, wf4 ns p <->
  pin_ok p /\ exists tape, length tape = 16%nat /\ ns = spec_pin_field_4 p tape.
Proof. exact wf4_spec. Qed.
Print Assumptions C06_wf4_is_spec.

(* ---- totality: whatever the arguments, the result is a PIN or ValueError (never another
        exception); in particular for a wrong block size or an invalid PAN ---- *)
Theorem C06_decode0_total : forall b pan, bytes_ok b = true ->
  (exists p, decode_pinblock_iso_0 b pan = Ok p) \/ decode_pinblock_iso_0 b pan = Err ValueError.
Proof. exact decode0_total. Qed.
Print Assumptions C06_decode0_total.

Theorem C06_decode2_total : forall b, bytes_ok b = true ->
  (exists p, decode_pinblock_iso_2 b = Ok p) \/ decode_pinblock_iso_2 b = Err ValueError.
Proof. exact decode2_total. Qed.
Print Assumptions C06_decode2_total.

Theorem C06_decode3_total : forall b pan, bytes_ok b = true ->
  (exists p, decode_pinblock_iso_3 b pan = Ok p) \/ decode_pinblock_iso_3 b pan = Err ValueError.
Proof. exact decode3_total. Qed.
Print Assumptions C06_decode3_total.

Theorem C06_decode4_total : forall f, bytes_ok f = true ->
  (exists p, decode_pin_field_iso_4 f = Ok p) \/ decode_pin_field_iso_4 f = Err ValueError.
Proof. exact decode4_total. Qed.
Print Assumptions C06_decode4_total.

(* every ill-formed block of the right size is rejected with ValueError *)
Theorem C06_decode0_rejects : forall b pan, length b = 8%nat -> bytes_ok b = true -> bad_pan13 pan = false ->
  (forall p, ~ wf0 (xor_pos (nibbles_of_bytes b) (spec_pan_block pan)) p) ->
  decode_pinblock_iso_0 b pan = Err ValueError.
Proof. exact decode0_reject_illformed. Qed.
Print Assumptions C06_decode0_rejects.

Theorem C06_decode2_rejects : forall b, length b = 8%nat -> bytes_ok b = true ->
  (forall p, ~ wf2 (nibbles_of_bytes b) p) -> decode_pinblock_iso_2 b = Err ValueError.
Proof. exact decode2_reject_illformed. Qed.
Print Assumptions C06_decode2_rejects.

Theorem C06_decode3_rejects : forall b pan, length b = 8%nat -> bytes_ok b = true -> bad_pan13 pan = false ->
  (forall p, ~ wf3 (xor_pos (nibbles_of_bytes b) (spec_pan_block pan)) p) ->
  decode_pinblock_iso_3 b pan = Err ValueError.
Proof. exact decode3_reject_illformed. Qed.
Print Assumptions C06_decode3_rejects.

Theorem C06_decode4_rejects : forall f, length f = 16%nat -> bytes_ok f = true ->
  (forall p, ~ wf4 (nibbles_of_bytes f) p) -> decode_pin_field_iso_4 f = Err ValueError.
Proof. exact decode4_reject_illformed. Qed.
Print Assumptions C06_decode4_rejects.

(* wrong size or invalid PAN: ValueError *)
Theorem C06_decode0_bad_args : forall b pan, length b <> 8%nat \/ bad_pan13 pan = true ->
  decode_pinblock_iso_0 b pan = Err ValueError.
Proof. exact decode0_bad_args. Qed.
Print Assumptions C06_decode0_bad_args.
Theorem C06_decode2_bad_args : forall b, length b <> 8%nat -> decode_pinblock_iso_2 b = Err ValueError.
Proof. exact decode2_bad_args. Qed.
Print Assumptions C06_decode2_bad_args.
Theorem C06_decode3_bad_args : forall b pan, length b <> 8%nat \/ bad_pan13 pan = true ->
  decode_pinblock_iso_3 b pan = Err ValueError.
Proof. exact decode3_bad_args. Qed.
Print Assumptions C06_decode3_bad_args.
Theorem C06_decode4_bad_args : forall f, length f <> 16%nat -> decode_pin_field_iso_4 f = Err ValueError.
Proof. exact decode4_bad_args. Qed.
Print Assumptions C06_decode4_bad_args.

(* ---- corollaries ---- *)
(* an accepted PIN is 4..12 ASCII decimal digits *)
Theorem C06_decode0_pin_ok : forall b pan p, bytes_ok b = true ->
  decode_pinblock_iso_0 b pan = Ok p -> bad_pin p = false.
Proof. exact decode0_pin_ok. Qed.
Print Assumptions C06_decode0_pin_ok.
Theorem C06_decode2_pin_ok : forall b p, bytes_ok b = true -> decode_pinblock_iso_2 b = Ok p -> bad_pin p = false.
Proof. exact decode2_pin_ok. Qed.
Print Assumptions C06_decode2_pin_ok.
Theorem C06_decode3_pin_ok : forall b pan p, bytes_ok b = true ->
  decode_pinblock_iso_3 b pan = Ok p -> bad_pin p = false.
Proof. exact decode3_pin_ok. Qed.
Print Assumptions C06_decode3_pin_ok.
Theorem C06_decode4_pin_ok : forall f p, bytes_ok f = true -> decode_pin_field_iso_4 f = Ok p -> bad_pin p = false.
Proof. exact decode4_pin_ok. Qed.
Print Assumptions C06_decode4_pin_ok.

(* a block accepted by one format's decoder is rejected by all the others, whatever PANs *)
Theorem C06_formats_exclusive : forall b pan0 pan3 p, bytes_ok b = true ->
  (decode_pinblock_iso_0 b pan0 = Ok p ->
     decode_pinblock_iso_2 b = Err ValueError /\ decode_pinblock_iso_3 b pan3 = Err ValueError /\
     decode_pin_field_iso_4 b = Err ValueError) /\
  (decode_pinblock_iso_2 b = Ok p ->
     decode_pinblock_iso_0 b pan0 = Err ValueError /\ decode_pinblock_iso_3 b pan3 = Err ValueError /\
     decode_pin_field_iso_4 b = Err ValueError) /\
  (decode_pinblock_iso_3 b pan3 = Ok p ->
     decode_pinblock_iso_0 b pan0 = Err ValueError /\ decode_pinblock_iso_2 b = Err ValueError /\
     decode_pin_field_iso_4 b = Err ValueError) /\
  (decode_pin_field_iso_4 b = Ok p ->
     decode_pinblock_iso_0 b pan0 = Err ValueError /\ decode_pinblock_iso_2 b = Err ValueError /\
     decode_pinblock_iso_3 b pan3 = Err ValueError).
Proof. exact formats_exclusive. Qed.
Print Assumptions C06_formats_exclusive.

(* ---- PAN binding ---- *)
(* format 0: decoding with a PAN whose 12 bound digits differ never returns the PIN *)
Theorem C06_bind0 : forall pin pan pan' b, bad_pin pin = false -> bad_pan13 pan = false -> bad_pan13 pan' = false ->
  spec_pan_block pan <> spec_pan_block pan' ->
  encode_pinblock_iso_0 pin pan = Ok b -> decode_pinblock_iso_0 b pan' <> Ok pin.
Proof. exact bind0. Qed.
Print Assumptions C06_bind0.

(* format 3 is NOT part of the binding claim.  The statement
     forall pin pan pan' choices b, (premises as for format 0) -> spec_pan_block pan <> spec_pan_block pan' ->
       encode_pinblock_iso_3 pin pan choices = Ok b -> decode_pinblock_iso_3 b pan' <> Ok pin
   is false: a differing PAN digit that lies under a random fill nibble A..F can turn it into
   another value of A..F, which decode_pinblock_iso_3 accepts. *)
Theorem C06_bind3_refuted : exists pin pan pan' choices b,
  bad_pin pin = false /\ bad_pan13 pan = false /\ bad_pan13 pan' = false /\
  length choices = 10%nat /\ Forall (fun c => 65 <= c <= 70)%N choices /\
  spec_pan_block pan <> spec_pan_block pan' /\
  encode_pinblock_iso_3 pin pan choices = Ok b /\ decode_pinblock_iso_3 b pan' = Ok pin.
Proof.
  exists (digit_chars [2; 5; 4; 9]%N).                                                 (* "2549" *)
  exists (digit_chars [3; 3; 2; 2; 9; 5; 5; 3; 4; 8; 5; 3; 2; 8; 4; 3]%N).            (* "3322955348532843" *)
  exists (digit_chars [3; 3; 2; 2; 9; 5; 5; 3; 4; 8; 6; 3; 2; 8; 4; 3]%N).            (* "3322955348632843" *)
  exists (repeat 67%N 10).                                                             (* "CCCCCCCCCC" *)
  exists [52; 37; 96; 153; 248; 73; 254; 72]%N.
  split; [reflexivity|]. split; [reflexivity|]. split; [reflexivity|]. split; [reflexivity|].
  split; [apply AF_ok_iff; reflexivity|].
  split; [vm_compute; intro H; discriminate H|].
  split; vm_compute; reflexivity.
Qed.
Print Assumptions C06_bind3_refuted.

(* what does hold for format 3: the PAN digits lying under the control, length and PIN digit
   nibbles (the first 2 + L nibbles of the PAN block) are bound *)
Theorem C06_bind3_partial : forall pin pan pan' choices b, bad_pin pin = false ->
  bad_pan13 pan = false -> bad_pan13 pan' = false ->
  length choices = 10%nat -> Forall (fun c => 65 <= c <= 70)%N choices ->
  firstn (2 + length pin) (spec_pan_block pan) <> firstn (2 + length pin) (spec_pan_block pan') ->
  encode_pinblock_iso_3 pin pan choices = Ok b -> decode_pinblock_iso_3 b pan' <> Ok pin.
Proof. exact bind3_partial. Qed.
Print Assumptions C06_bind3_partial.

(* format 4.  Full statement (not provable for an abstract keyed permutation):
     pan_field <> pan_field' -> decipher_pinblock_iso_4 ca key blk pan' <> Ok pin.
   Proved part: deciphering with a PAN whose PAN field differs yields
   decode_pin_field_iso_4 of a 16-byte block that is NOT the original PIN field.  That this
   other block does not by coincidence decode to the same PIN depends on the cipher
   (there are keyed permutations for which it does), so it is not claimed.  Note that the premise must be on the PAN fields, not on the PANs:
   "123" and "0123" have the same PAN field. *)
Theorem C06_bind4_partial : forall ca, cipher_ok ca -> bs ca = 16%nat ->
  forall key pin pan pan' tape8 pin_field pan_field pan_field' blk,
  valid_key ca key = true -> length tape8 = 8%nat -> bytes_ok tape8 = true ->
  encode_pin_field_iso_4 pin tape8 = Ok pin_field ->
  encode_pan_field_iso_4 pan = Ok pan_field -> encode_pan_field_iso_4 pan' = Ok pan_field' ->
  pan_field <> pan_field' ->
  encipher_pinblock_iso_4 ca key pin pan tape8 = Ok blk ->
  decipher_pinblock_iso_4 ca key blk pan' =
    decode_pin_field_iso_4 (dec ca key (py_xor (dec ca key blk) pan_field')) /\
  dec ca key (py_xor (dec ca key blk) pan_field') <> pin_field.
Proof. exact bind4_field. Qed.
Print Assumptions C06_bind4_partial.

(* premises are satisfiable *)
Definition c06_pin : str := digit_chars [1; 2; 3; 4]%N.
Definition c06_pan : str := digit_chars [5; 5; 4; 4; 3; 3; 2; 2; 1; 1; 0; 0; 9; 9; 6; 6]%N.   (* "5544332211009966" *)
Definition c06_pan' : str := digit_chars [5; 5; 4; 4; 3; 3; 2; 2; 1; 1; 0; 0; 9; 8; 6; 6]%N.
Definition c06_tape : bytes := [1; 2; 3; 4; 5; 6; 7; 255]%N.

(* the repository's doctest vectors: accepted; and the format 0 block is refused by the others *)
Example C06_accept_instance :
  decode_pinblock_iso_0 [4; 18; 119; 205; 222; 239; 246; 105]%N c06_pan = Ok c06_pin /\     (* 041277CDDEEFF669 *)
  decode_pinblock_iso_2 [44; 18; 52; 86; 120; 144; 18; 255]%N =
    Ok (digit_chars [1; 2; 3; 4; 5; 6; 7; 8; 9; 0; 1; 2]%N) /\                              (* 2C123456789012FF *)
  decode_pinblock_iso_3 [52; 18; 119; 238; 239; 204; 180; 60]%N c06_pan = Ok c06_pin /\     (* 341277EEEFCCB43C *)
  decode_pin_field_iso_4 [68; 18; 52; 170; 170; 170; 170; 170; 84; 142; 215; 253; 101; 73; 89; 80]%N
    = Ok c06_pin /\                                                                         (* 441234AAAAAAAAAA548ED7FD65495950 *)
  decode_pinblock_iso_2 [4; 18; 119; 205; 222; 239; 246; 105]%N = Err ValueError /\
  decode_pinblock_iso_3 [4; 18; 119; 205; 222; 239; 246; 105]%N c06_pan = Err ValueError.
Proof. vm_compute. repeat split; reflexivity. Qed.

(* ill-formed blocks: PIN length 3, non-decimal PIN digit, wrong fill, wrong size *)
Example C06_reject_instance :
  decode_pinblock_iso_2 [35; 18; 63; 255; 255; 255; 255; 255]%N = Err ValueError /\
  decode_pinblock_iso_2 [36; 18; 58; 255; 255; 255; 255; 255]%N = Err ValueError /\
  decode_pinblock_iso_2 [36; 18; 52; 255; 255; 255; 255; 254]%N = Err ValueError /\
  decode_pinblock_iso_2 [36; 18; 52; 255; 255; 255; 255]%N = Err ValueError.
Proof. vm_compute. repeat split; reflexivity. Qed.

Example C06_bind0_instance :
  bad_pin c06_pin = false /\ bad_pan13 c06_pan = false /\ bad_pan13 c06_pan' = false /\
  spec_pan_block c06_pan <> spec_pan_block c06_pan' /\
  encode_pinblock_iso_0 c06_pin c06_pan = Ok [4; 18; 119; 205; 222; 239; 246; 105]%N /\
  decode_pinblock_iso_0 [4; 18; 119; 205; 222; 239; 246; 105]%N c06_pan' = Err ValueError.
Proof.
  split; [reflexivity|]. split; [reflexivity|]. split; [reflexivity|].
  split; [vm_compute; intro H; discriminate H|]. split; vm_compute; reflexivity.
Qed.

Example C06_bind4_instance :
  cipher_ok toy_aes /\ bs toy_aes = 16%nat /\ valid_key toy_aes (repeat 7%N 16) = true /\
  (exists f g g', encode_pin_field_iso_4 c06_pin c06_tape = Ok f /\
                  encode_pan_field_iso_4 c06_pan = Ok g /\ encode_pan_field_iso_4 c06_pan' = Ok g' /\ g <> g') /\
  is_ok (encipher_pinblock_iso_4 toy_aes (repeat 7%N 16) c06_pin c06_pan c06_tape) = true.
Proof.
  split; [exact toy_aes_ok|]. split; [reflexivity|]. split; [reflexivity|]. split; [|vm_compute; reflexivity].
  eexists. eexists. eexists. split; [vm_compute; reflexivity|]. split; [vm_compute; reflexivity|].
  split; [vm_compute; reflexivity|]. intro H; discriminate H.
Qed.
