(* C10 - Visa PVV is the standard PVV and always four digits.
   Only statements, each closed by [exact] of a lemma from Proofs/CardLemmas.v.
   [spec_pvv] (Spec/CardValues.v): TSP = 11 right-most PAN digits excluding the
   check digit, key index, PIN; encrypt; decimal digits first, then A-F minus
   ten; written independently of the model. *)
From Psec Require Import Lib.Base Cipher.Cipher Cipher.Toy Model.Pin
  Spec.CardValues Proofs.CardLemmas.

Theorem C10_pvv : forall cd : cipher,
  cipher_ok cd -> bs cd = 8%nat -> (forall k, valid_key cd k = tdes_valid_key k) ->
  forall pvk pvki pin pan,
  tdes_valid_key pvk = true ->                        (* 8, 16 or 24 bytes *)
  length pvki = 1%nat -> ascii_numeric pvki = true ->
  length pin = 4%nat -> ascii_numeric pin = true ->
  (12 <= length pan)%nat -> ascii_numeric pan = true ->
  exists v, generate_visa_pvv cd pvk pvki pin pan = Ok v /\
            v = spec_pvv (enc cd) pvk pvki pin pan /\
            length v = 4%nat /\ ascii_numeric v = true.
Proof. exact pvv_ok. Qed.
Print Assumptions C10_pvv.

(* Triple DES over any lawful single DES *)
Theorem C10_pvv_tdes : forall (d : des_prim) pvk pvki pin pan, des_ok d ->
  tdes_valid_key pvk = true ->
  length pvki = 1%nat -> ascii_numeric pvki = true ->
  length pin = 4%nat -> ascii_numeric pin = true ->
  (12 <= length pan)%nat -> ascii_numeric pan = true ->
  exists v, generate_visa_pvv (tdes d) pvk pvki pin pan = Ok v /\
            v = spec_pvv (enc (tdes d)) pvk pvki pin pan /\
            length v = 4%nat /\ ascii_numeric v = true.
Proof. exact pvv_ok_tdes. Qed.
Print Assumptions C10_pvv_tdes.

(* the shared decimalisation lemma: the model's two-pass text scan is the
   nibble-level decimalisation, and yields [n] digits whenever the block has
   at least [n] nibbles *)
Theorem C10_decimalize : forall n b, bytes_ok b = true ->
  decimalize n (hex_lower b) = ascii_of_digits (spec_decimalize n (nibbles_of_bytes b)) /\
  ((n <= 2 * length b)%nat -> length (decimalize n (hex_lower b)) = n) /\
  ascii_numeric (decimalize n (hex_lower b)) = true.
Proof. exact decimalize_hex_lower. Qed.
Print Assumptions C10_decimalize.

(* the key sizes *)
Theorem C10_key_sizes : forall k, tdes_valid_key k = true <->
  (length k = 8 \/ length k = 16 \/ length k = 24)%nat.
Proof. exact tdes_valid_key_len. Qed.
Print Assumptions C10_key_sizes.

(* any violated guard: ValueError *)
Theorem C10_domain : forall (cd : cipher) pvk pvki pin pan,
  (tdes_valid_key pvk = false \/ length pvki <> 1%nat \/ ascii_numeric pvki = false \/
   length pin <> 4%nat \/ ascii_numeric pin = false \/
   (length pan < 12)%nat \/ ascii_numeric pan = false) ->
  generate_visa_pvv cd pvk pvki pin pan = Err ValueError.
Proof. exact pvv_domain. Qed.
Print Assumptions C10_domain.

(* on every input: a value or ValueError, never another exception *)
Theorem C10_total : forall cd : cipher,
  cipher_ok cd -> bs cd = 8%nat -> (forall k, valid_key cd k = tdes_valid_key k) ->
  forall pvk pvki pin pan,
  (exists v, generate_visa_pvv cd pvk pvki pin pan = Ok v) \/
  generate_visa_pvv cd pvk pvki pin pan = Err ValueError.
Proof. exact pvv_total. Qed.
Print Assumptions C10_total.

(* premises are satisfiable: toy Triple DES, PVK 0123456789ABCDEFFEDCBA9876543210,
   PVKI 3, PIN 4524, PAN 1122334455667788; an all-letters block decimalises too *)
Example C10_cipher_instance :
  cipher_ok toy_tdes /\ bs toy_tdes = 8%nat /\ (forall k, valid_key toy_tdes k = tdes_valid_key k).
Proof. split; [exact (Proofs.TdesLemmas.tdes_ok toy_des toy_des_ok) | split; reflexivity]. Qed.

Example C10_instance :
  let pvk := [1;35;69;103;137;171;205;239;254;220;186;152;118;84;50;16]%N in
  let pan := [49;49;50;50;51;51;52;52;53;53;54;54;55;55;56;56]%N in
  let pvki := [51]%N in
  let pin := [52;53;50;52]%N in
  tdes_valid_key pvk = true /\ length pvki = 1%nat /\ ascii_numeric pvki = true /\
  length pin = 4%nat /\ ascii_numeric pin = true /\
  (12 <= length pan)%nat /\ ascii_numeric pan = true /\
  generate_visa_pvv toy_tdes pvk pvki pin pan = Ok [50; 52; 56; 55]%N /\
  spec_pvv (enc toy_tdes) pvk pvki pin pan = [50; 52; 56; 55]%N /\
  generate_visa_pvv toy_tdes pvk pvki pin (firstn 11 pan) = Err ValueError /\
  decimalize 4 (hex_lower [171; 205; 239; 250; 188; 222; 255; 170]%N) = [48; 49; 50; 51]%N.
Proof. vm_compute. repeat split; (reflexivity || (repeat constructor)). Qed.
