(* C04 - PIN block encode then decode returns the PIN (ISO 9564-1 formats 0, 2, 3, 4).
   Only statements, each closed by [exact] of a lemma from Proofs/PinblockLemmas.v.
   PIN guard  [bad_pin pin = false]  : 4..12 ASCII decimal digits;
   PAN guard  [bad_pan13 pan = false]: 13 or more ASCII decimal digits;
   PAN guard  [bad_pan4 pan = false] : 1..19 ASCII decimal digits (format 4).
   The encoder's random fill is an explicit, universally quantified argument. *)
From Psec Require Import Lib.Base Cipher.Cipher Cipher.Toy Model.Pinblock.
From Psec Require Import Proofs.HexLemmas Proofs.PinblockLemmas.

Theorem C04_format0 : forall pin pan, bad_pin pin = false -> bad_pan13 pan = false ->
  exists b, encode_pinblock_iso_0 pin pan = Ok b /\ length b = 8%nat /\ bytes_ok b = true /\
            decode_pinblock_iso_0 b pan = Ok pin.
Proof. exact roundtrip0. Qed.
Print Assumptions C04_format0.

Theorem C04_format2 : forall pin, bad_pin pin = false ->
  exists b, encode_pinblock_iso_2 pin = Ok b /\ length b = 8%nat /\ bytes_ok b = true /\
            decode_pinblock_iso_2 b = Ok pin.
Proof. exact roundtrip2. Qed.
Print Assumptions C04_format2.

(* every value of the ten random symbols secrets.choice("ABCDEF"): code points 65..70 *)
Theorem C04_format3 : forall pin pan choices, bad_pin pin = false -> bad_pan13 pan = false ->
  length choices = 10%nat -> Forall (fun c => 65 <= c <= 70)%N choices ->
  exists b, encode_pinblock_iso_3 pin pan choices = Ok b /\ length b = 8%nat /\ bytes_ok b = true /\
            decode_pinblock_iso_3 b pan = Ok pin.
Proof. exact roundtrip3. Qed.
Print Assumptions C04_format3.

(* every value of the eight os.urandom bytes *)
Theorem C04_field4 : forall pin tape8, bad_pin pin = false -> length tape8 = 8%nat -> bytes_ok tape8 = true ->
  exists f, encode_pin_field_iso_4 pin tape8 = Ok f /\ length f = 16%nat /\ bytes_ok f = true /\
            decode_pin_field_iso_4 f = Ok pin.
Proof. exact roundtrip_field4. Qed.
Print Assumptions C04_field4.

(* any lawful block cipher with 16-byte blocks and any key it admits
   (AES: 16, 24 or 32 bytes), any PAN of 1..19 digits *)
Theorem C04_encipher4 : forall ca, cipher_ok ca -> bs ca = 16%nat ->
  forall key pin pan tape8, valid_key ca key = true -> bad_pin pin = false ->
  ((length pan <? 1)%nat || (19 <? length pan)%nat || negb (ascii_numeric pan)) = false ->
  length tape8 = 8%nat -> bytes_ok tape8 = true ->
  exists blk, encipher_pinblock_iso_4 ca key pin pan tape8 = Ok blk /\ length blk = 16%nat /\
              bytes_ok blk = true /\ decipher_pinblock_iso_4 ca key blk pan = Ok pin.
Proof. exact roundtrip_encipher4. Qed.
Print Assumptions C04_encipher4.

(* premises are satisfiable: the repository's vectors, and the toy cipher for format 4 *)
Definition c04_pin : str := digit_chars [1; 2; 3; 4]%N.                               (* "1234" *)
Definition c04_pan : str := digit_chars [5; 5; 5; 5; 5; 5; 5; 5; 5; 1; 2; 3; 4; 5; 6; 7]%N. (* "5555555551234567" *)
Definition c04_tape : bytes := [1; 2; 3; 4; 5; 6; 7; 255]%N.

Example C04_format0_instance :
  bad_pin c04_pin = false /\ bad_pan13 c04_pan = false /\
  encode_pinblock_iso_0 c04_pin c04_pan = Ok [4; 18; 97; 170; 170; 237; 203; 169]%N /\  (* 041261AAAAEDCBA9 *)
  decode_pinblock_iso_0 [4; 18; 97; 170; 170; 237; 203; 169]%N c04_pan = Ok c04_pin.
Proof. vm_compute. repeat split; reflexivity. Qed.

Example C04_format2_instance :
  encode_pinblock_iso_2 c04_pin = Ok [36; 18; 52; 255; 255; 255; 255; 255]%N /\         (* 241234FFFFFFFFFF *)
  decode_pinblock_iso_2 [36; 18; 52; 255; 255; 255; 255; 255]%N = Ok c04_pin.
Proof. vm_compute. repeat split; reflexivity. Qed.

Example C04_format3_instance :
  length (repeat 67%N 10) = 10%nat /\ forallb (fun c => (65 <=? c) && (c <=? 70))%N (repeat 67%N 10) = true /\
  encode_pinblock_iso_3 c04_pin c04_pan (repeat 67%N 10) = Ok [52; 18; 97; 153; 153; 222; 248; 154]%N /\
  decode_pinblock_iso_3 [52; 18; 97; 153; 153; 222; 248; 154]%N c04_pan = Ok c04_pin.
Proof. vm_compute. repeat split; reflexivity. Qed.

Example C04_field4_instance :
  length c04_tape = 8%nat /\ bytes_ok c04_tape = true /\
  encode_pin_field_iso_4 c04_pin c04_tape =
    Ok [68; 18; 52; 170; 170; 170; 170; 170; 1; 2; 3; 4; 5; 6; 7; 255]%N /\          (* 441234AAAAAAAAAA ... *)
  decode_pin_field_iso_4 [68; 18; 52; 170; 170; 170; 170; 170; 1; 2; 3; 4; 5; 6; 7; 255]%N = Ok c04_pin.
Proof. vm_compute. repeat split; reflexivity. Qed.

Example C04_encipher4_instance :
  cipher_ok toy_aes /\ bs toy_aes = 16%nat /\ valid_key toy_aes (repeat 7%N 16) = true /\
  bad_pan4 c04_pan = false /\
  (do blk <- encipher_pinblock_iso_4 toy_aes (repeat 7%N 16) c04_pin c04_pan c04_tape;
   decipher_pinblock_iso_4 toy_aes (repeat 7%N 16) blk c04_pan) = Ok c04_pin.
Proof. split; [exact toy_aes_ok|]. vm_compute. repeat split; reflexivity. Qed.
