(* C01 - TR-31 wrap then unwrap returns the original key and header.
   Only statements, each closed by [exact] of a lemma from Proofs/Tr31RoundTrip.v,
   followed by Examples (evaluated with the toy ciphers of Cipher/Toy.v) showing
   that the premises are satisfiable for every version and that the premise on
   the pad block id is necessary.

   [kb_wrap] is KeyBlock.wrap / module-level wrap with a Header object (the
   os.urandom draw is the explicit argument [tape]); [unwrap] is the module-level
   unwrap, [kb_unwrap] KeyBlock.unwrap; [header_ok] says the six attribute
   fields and the reserved field have their lengths and are ASCII alphanumeric,
   and that the optional blocks are what Blocks.__setitem__ accepts, with
   distinct ids, none of them the pad block id. *)
From Psec Require Import Lib.Base Cipher.Cipher Cipher.Toy Model.Tr31.
From Psec Require Import Proofs.Tr31Defs Proofs.Tr31Crypto Proofs.Tr31CryptoExamples
  Proofs.Tr31RoundTrip.
Open Scope N_scope.

(* every version, every KBPK size, every header, key and mask for which the
   wrap succeeds: unwrap returns the key and the header *)
Theorem C01_roundtrip : forall cd ca : cipher, ciphers_ok cd ca ->
  forall kbpk h key mask tape s,
  header_ok h -> bytes_ok kbpk = true -> bytes_ok key = true -> bytes_ok tape = true ->
  kb_wrap cd ca kbpk h key mask tape = Ok s ->
  unwrap cd ca kbpk s = Ok (h, key).
Proof. exact roundtrip. Qed.
Print Assumptions C01_roundtrip.

(* module-level wrap called with a header string: the string is first loaded
   into a fresh Header *)
Theorem C01_roundtrip_header_string : forall cd ca : cipher, ciphers_ok cd ca ->
  forall kbpk hs h n key mask tape s,
  header_load default_header hs = (h, Ok n) -> header_ok h ->
  bytes_ok kbpk = true -> bytes_ok key = true -> bytes_ok tape = true ->
  wrap_str cd ca kbpk hs key mask tape = Ok s -> unwrap cd ca kbpk s = Ok (h, key).
Proof. exact roundtrip_str. Qed.
Print Assumptions C01_roundtrip_header_string.

(* success of the wrap already means the KBPK has a size the version admits
   (A/C: 8, 16, 24; B: 16, 24; D: 16, 24, 32) and the key is short enough for
   the 16-bit length prefix; neither is a premise of C01_roundtrip *)
Theorem C01_wrap_kbpk_size : forall (cd ca : cipher) kbpk h key mask tape s,
  version_supported (version_id h) = true ->
  kb_wrap cd ca kbpk h key mask tape = Ok s -> kbpk_size_ok (version_id h) (length kbpk).
Proof. exact kb_wrap_kbpk_size. Qed.
Print Assumptions C01_wrap_kbpk_size.

Theorem C01_wrap_key_len : forall (cd ca : cipher) kbpk h key mask tape s,
  version_supported (version_id h) = true ->
  kb_wrap cd ca kbpk h key mask tape = Ok s -> lenN key * 8 < 65536.
Proof. exact kb_wrap_key_len. Qed.
Print Assumptions C01_wrap_key_len.

(* wrapping does not modify the caller's object: state, hence str(header), unchanged *)
Theorem C01_wrap_pure : forall (cd ca : cipher) st key mask tape,
  fst (step cd ca st (OpWrap key mask tape)) = st /\
  header_str (st_header (fst (step cd ca st (OpWrap key mask tape)))) = header_str (st_header st).
Proof. exact wrap_pure. Qed.
Print Assumptions C01_wrap_pure.

(* KeyBlock.unwrap on an object holding ANY prior header h' *)
Theorem C01_roundtrip_kb : forall cd ca : cipher, ciphers_ok cd ca ->
  forall (h' : header) kbpk h key mask tape s,
  header_ok h -> bytes_ok kbpk = true -> bytes_ok key = true -> bytes_ok tape = true ->
  kb_wrap cd ca kbpk h key mask tape = Ok s ->
  kb_unwrap cd ca kbpk h' s = (h, Ok key).
Proof. exact kb_roundtrip. Qed.
Print Assumptions C01_roundtrip_kb.

(* the same through the object API *)
Theorem C01_roundtrip_object : forall cd ca : cipher, ciphers_ok cd ca ->
  forall kbpk h h' key mask tape s,
  header_ok h -> bytes_ok kbpk = true -> bytes_ok key = true -> bytes_ok tape = true ->
  step cd ca (mkState kbpk h) (OpWrap key mask tape) = (mkState kbpk h, OutStr s) ->
  step cd ca (mkState kbpk h') (OpUnwrap s) = (mkState kbpk h, OutBytes key).
Proof. exact roundtrip_object. Qed.
Print Assumptions C01_roundtrip_object.

(* ------------------------------------------------------------------ *)
(* headers that come out of a load (Proofs/Tr31Loaded.v)                *)
From Psec Require Import Proofs.Tr31Loaded.

(* every Header a successful Header.load produces - whatever the object held
   before - satisfies [header_ok]: supported version, fields and reserved field
   of the right length and alphanumeric, optional blocks accepted by
   Blocks.__setitem__, none with the pad id, ids pairwise distinct *)
Theorem C01_header_load_ok : forall st s h n,
  header_load st s = (h, Ok n) -> header_ok h.
Proof. exact header_load_ok. Qed.
Print Assumptions C01_header_load_ok.

(* the same through the object API: after a successful kb.header.load(s) or
   kb.unwrap(s) the object's header satisfies [header_ok] *)
Theorem C01_object_load_header_ok : forall (cd ca : cipher) st s n,
  snd (step cd ca st (OpLoad s)) = OutNat n ->
  header_ok (st_header (fst (step cd ca st (OpLoad s)))).
Proof. exact step_load_header_ok. Qed.
Print Assumptions C01_object_load_header_ok.

Theorem C01_object_unwrap_header_ok : forall (cd ca : cipher) st s k,
  snd (step cd ca st (OpUnwrap s)) = OutBytes k ->
  header_ok (st_header (fst (step cd ca st (OpUnwrap s)))).
Proof. exact step_unwrap_header_ok. Qed.
Print Assumptions C01_object_unwrap_header_ok.

(* module-level wrap called with a header string, WITHOUT a premise on the
   header: the load inside wrap_str succeeded, so its header is well formed *)
Theorem C01_roundtrip_header_string_full : forall cd ca : cipher, ciphers_ok cd ca ->
  forall kbpk hs key mask tape s,
  bytes_ok kbpk = true -> bytes_ok key = true -> bytes_ok tape = true ->
  wrap_str cd ca kbpk hs key mask tape = Ok s ->
  exists h n, header_load default_header hs = (h, Ok n) /\ unwrap cd ca kbpk s = Ok (h, key).
Proof. exact roundtrip_str_full. Qed.
Print Assumptions C01_roundtrip_header_string_full.

(* the header unwrap returns is well formed (any ciphers, any input) ... *)
Theorem C01_unwrap_header_ok : forall (cd ca : cipher) kbpk s h k,
  unwrap cd ca kbpk s = Ok (h, k) -> header_ok h.
Proof. exact unwrap_returns_header_ok. Qed.
Print Assumptions C01_unwrap_header_ok.

(* ... and the key it returns is a byte string *)
Theorem C01_unwrap_key_bytes_ok : forall cd ca : cipher, ciphers_ok cd ca ->
  forall kbpk s h k, unwrap cd ca kbpk s = Ok (h, k) -> bytes_ok k = true.
Proof. exact unwrap_key_bytes_ok. Qed.
Print Assumptions C01_unwrap_key_bytes_ok.

(* idempotence: what unwrap returned, wrapped again (any mask, any random draw
   for which the wrap succeeds), unwraps to the same header and key; no premise
   on h or k *)
Theorem C01_rewrap_roundtrip : forall cd ca : cipher, ciphers_ok cd ca ->
  forall kbpk s h k mask tape s',
  bytes_ok kbpk = true -> bytes_ok tape = true ->
  unwrap cd ca kbpk s = Ok (h, k) ->
  kb_wrap cd ca kbpk h k mask tape = Ok s' ->
  unwrap cd ca kbpk s' = Ok (h, k).
Proof. exact rewrap_roundtrip. Qed.
Print Assumptions C01_rewrap_roundtrip.

(* ------------------------------------------------------------------ *)
(* Examples: the premises are satisfiable for each version              *)

(* "<v>....P0TE00N..R7" with blocks KS = "00604B120F9292800000", T1 = "ab c!";
   the blocks take 24 + 9 = 33 characters, so a pad block (7 characters) is appended *)
Definition ex_blocks : dict :=
  [([75; 83], [48;48;54;48;52;66;49;50;48;70;57;50;57;50;56;48;48;48;48;48]);
   ([84; 49], [97; 98; 32; 99; 33])].
Definition ex_header (v : N) : header :=
  mkHeader [v] [80; 48] [84] [69] [48; 48] [78] [82; 55] ex_blocks.
Definition ex_key : bytes := [171; 0; 255; 16; 1].
Definition ex_tape (n : nat) : bytes := map N.of_nat (seq 100 n).

Definition ex_case (v : N) (kbpk : bytes) (mask : option Z) (tape : bytes) : Prop :=
  exists s, kb_wrap toy_tdes toy_aes kbpk (ex_header v) ex_key mask tape = Ok s /\
            unwrap toy_tdes toy_aes kbpk s = Ok (ex_header v, ex_key).

Example C01_example_premises :
  ciphers_ok toy_tdes toy_aes /\
  header_ok (ex_header 65) /\ header_ok (ex_header 66) /\
  header_ok (ex_header 67) /\ header_ok (ex_header 68) /\
  bytes_ok ex_key = true /\ bytes_ok kbpk8 = true /\ bytes_ok kbpk16 = true /\
  bytes_ok kbpk24 = true /\ bytes_ok kbpk32 = true /\
  bytes_ok (ex_tape 41) = true.
Proof.
  split; [exact toy_ciphers_ok|].
  assert (H : forall v, version_supported [v] = true -> header_ok (ex_header v)).
  { intros v Hv. unfold header_ok, field_ok, ex_header.
    cbn [version_id key_usage algorithm mode_of_use version_num exportability reserved blocks].
    repeat split; try reflexivity; try assumption.
    - repeat constructor.
    - cbn. repeat constructor; cbn; intuition discriminate. }
  repeat split; try (apply H; reflexivity); vm_compute; reflexivity.
Qed.

(* the key block is (for version B, mask None) "B0136P0TE00N03R7KS18...T109ab c!PB07000" + data *)
Example C01_example_header_text :
  header_dump (ex_header 66) 24 =
  Ok ([66; 48;49;51;54; 80;48; 84; 69; 48;48; 78; 48;51; 82;55]
      ++ [75;83; 49;56; 48;48;54;48;52;66;49;50;48;70;57;50;57;50;56;48;48;48;48;48]
      ++ [84;49; 48;57; 97;98;32;99;33]
      ++ [80;66; 48;55] ++ repeat 48 3).
Proof. vm_compute. reflexivity. Qed.

Ltac ex_solve := eexists; split; [vm_compute; reflexivity|]; vm_compute; reflexivity.
Ltac each_conj tac :=
  lazymatch goal with
  | |- _ /\ _ => split; [tac | each_conj tac]
  | _ => tac
  end.

(* versions A, B, C, D; mask None (24 for algorithm 'T'), Some 3 (below the
   key length: no masking), Some 40 *)
Example C01_all_versions_inhabited :
  ex_case 65 kbpk8 None (ex_tape 25) /\ ex_case 65 kbpk16 (Some 3%Z) (ex_tape 1) /\
  ex_case 65 kbpk24 (Some 40%Z) (ex_tape 41) /\
  ex_case 66 kbpk16 None (ex_tape 25) /\ ex_case 66 kbpk24 (Some 3%Z) (ex_tape 1) /\
  ex_case 66 kbpk16 (Some 40%Z) (ex_tape 41) /\
  ex_case 67 kbpk24 None (ex_tape 25) /\ ex_case 67 kbpk8 (Some 3%Z) (ex_tape 1) /\
  ex_case 67 kbpk16 (Some 40%Z) (ex_tape 41) /\
  ex_case 68 kbpk16 None (ex_tape 25) /\ ex_case 68 kbpk24 (Some 3%Z) (ex_tape 9) /\
  ex_case 68 kbpk32 (Some 40%Z) (ex_tape 41).
Proof. unfold ex_case. each_conj ex_solve. Qed.

(* the general theorem instantiated on the toy pair agrees *)
Example C01_roundtrip_toy : forall s,
  kb_wrap toy_tdes toy_aes kbpk32 (ex_header 68) ex_key None (ex_tape 25) = Ok s ->
  unwrap toy_tdes toy_aes kbpk32 s = Ok (ex_header 68, ex_key).
Proof.
  intros s W. apply (C01_roundtrip _ _ toy_ciphers_ok kbpk32 (ex_header 68) ex_key None (ex_tape 25));
    try exact W; try (vm_compute; reflexivity).
  apply C01_example_premises.
Qed.

(* wrap given the header string "D0000K0AB16S0000": the loaded header is well formed *)
Definition ex_hs : str := [68; 48;48;48;48; 75;48; 65; 66; 49;54; 83; 48;48; 48;48].
Definition ex_hs_header : header := mkHeader [68] [75; 48] [65] [66] [49; 54] [83] [48; 48] [].
Example C01_header_string_example :
  header_load default_header ex_hs = (ex_hs_header, Ok 16%nat) /\ header_ok ex_hs_header /\
  exists s, wrap_str toy_tdes toy_aes kbpk24 ex_hs ex_key None (ex_tape 41) = Ok s /\
            unwrap toy_tdes toy_aes kbpk24 s = Ok (ex_hs_header, ex_key).
Proof.
  split; [vm_compute; reflexivity|]. split; [|ex_solve].
  unfold header_ok, field_ok, ex_hs_header.
  cbn [version_id key_usage algorithm mode_of_use version_num exportability reserved blocks].
  repeat split; try reflexivity; constructor.
Qed.

(* a wrap under a KBPK size the version does not admit fails *)
Example C01_wrong_kbpk_size :
  kb_wrap toy_tdes toy_aes kbpk8 (ex_header 66) ex_key None (ex_tape 25) = Err KeyBlockError /\
  kb_wrap toy_tdes toy_aes kbpk8 (ex_header 68) ex_key None (ex_tape 25) = Err KeyBlockError /\
  kb_wrap toy_tdes toy_aes kbpk32 (ex_header 65) ex_key None (ex_tape 25) = Err KeyBlockError.
Proof. each_conj ltac:(vm_compute; reflexivity). Qed.

(* the object API: an object that held another header (version D, no blocks)
   unwraps the block produced by a version A object *)
Example C01_object_example : exists s,
  step toy_tdes toy_aes (mkState kbpk16 (ex_header 65)) (OpWrap ex_key None (ex_tape 25))
    = (mkState kbpk16 (ex_header 65), OutStr s) /\
  step toy_tdes toy_aes (mkState kbpk16 (mkHeader [68] [75; 48] [65] [66] [49; 54] [83] [48; 48] []))
       (OpUnwrap s)
    = (mkState kbpk16 (ex_header 65), OutBytes ex_key).
Proof. ex_solve. Qed.

(* ------------------------------------------------------------------ *)
(* the premise "no caller block has the pad block id" is necessary: a header
   whose only block is "pb" = "xyz" wraps, but the unwrapped header has lost
   the block (Blocks.load skips every block whose id upper-cases to "PB") *)
Definition pb_header : header :=
  mkHeader [66] [80; 48] [84] [69] [48; 48] [78] [48; 48] [([112; 98], [120; 121; 122])].

Example C01_pb_premise_needed :
  (* only the pad-id clause of block_entry_ok fails *)
  length [112; 98] = 2%nat /\ ascii_alphanumeric [112; 98] = true /\
  ascii_printable [120; 121; 122] = true /\ is_pad_id [112; 98] = true /\
  ~ header_ok pb_header /\
  exists s, kb_wrap toy_tdes toy_aes kbpk16 pb_header ex_key None (ex_tape 25) = Ok s /\
            unwrap toy_tdes toy_aes kbpk16 s = Ok (set_blocks pb_header [], ex_key) /\
            set_blocks pb_header [] <> pb_header.
Proof.
  repeat split; try reflexivity.
  - intros (_ & _ & _ & _ & _ & _ & _ & Hb & _). inversion Hb as [|? ? (_ & _ & Hp & _) _]; subst.
    discriminate Hp.
  - eexists. split; [vm_compute; reflexivity|]. split; [vm_compute; reflexivity|]. discriminate.
Qed.

(* ------------------------------------------------------------------ *)
(* C01_roundtrip_header_string_full instantiated: the header string
   "D0000K0AB16S02R7" + "KS08ABCD" + "T107x y" (two optional blocks, reserved
   field "R7"); the theorem gives the unwrap result, the load is computed *)
Definition ex_hs2 : str :=
  [68; 48;48;48;48; 75;48; 65; 66; 49;54; 83; 48;50; 82;55]
  ++ [75;83; 48;56; 65;66;67;68] ++ [84;49; 48;55; 120;32;121].
Definition ex_hs2_header : header :=
  mkHeader [68] [75; 48] [65] [66] [49; 54] [83] [82; 55]
           [([75; 83], [65; 66; 67; 68]); ([84; 49], [120; 32; 121])].

Example C01_header_string_full_example :
  exists s, wrap_str toy_tdes toy_aes kbpk24 ex_hs2 ex_key None (ex_tape 41) = Ok s /\
            header_load default_header ex_hs2 = (ex_hs2_header, Ok 31%nat) /\
            unwrap toy_tdes toy_aes kbpk24 s = Ok (ex_hs2_header, ex_key).
Proof.
  destruct (wrap_str toy_tdes toy_aes kbpk24 ex_hs2 ex_key None (ex_tape 41)) as [s|e] eqn:W;
    [|vm_compute in W; discriminate W].
  exists s. split; [reflexivity|].
  assert (L' : header_load default_header ex_hs2 = (ex_hs2_header, Ok 31%nat))
    by (vm_compute; reflexivity).
  split; [exact L'|].
  destruct (C01_roundtrip_header_string_full _ _ toy_ciphers_ok kbpk24 ex_hs2 ex_key None
              (ex_tape 41) s) as (h & n & L & U);
    try exact W; try (vm_compute; reflexivity).
  rewrite L' in L. injection L as <- _. exact U.
Qed.

(* the same by evaluation, and the re-wrap of what was unwrapped (another mask
   and another random draw) *)
Example C01_rewrap_example : exists s s',
  wrap_str toy_tdes toy_aes kbpk24 ex_hs2 ex_key None (ex_tape 41) = Ok s /\
  unwrap toy_tdes toy_aes kbpk24 s = Ok (ex_hs2_header, ex_key) /\
  kb_wrap toy_tdes toy_aes kbpk24 ex_hs2_header ex_key (Some 3%Z) (ex_tape 9) = Ok s' /\
  s' <> s /\
  unwrap toy_tdes toy_aes kbpk24 s' = Ok (ex_hs2_header, ex_key).
Proof.
  eexists. eexists. split; [vm_compute; reflexivity|]. split; [vm_compute; reflexivity|].
  split; [vm_compute; reflexivity|]. split; [discriminate | vm_compute; reflexivity].
Qed.
