(* C17 - A reused KeyBlock / Header behaves like a fresh one.
   Only statements, each closed by [exact] of a lemma from Proofs/Tr31History.v.
   All theorems hold for every pair of ciphers: no cipher hypothesis. *)
From Psec Require Import Lib.Base Cipher.Cipher Cipher.Toy Model.Tr31 Proofs.Tr31History.

(* Header.load: the returned length or the error raised depends on the input
   text only; after success every field (version, usage, algorithm, mode,
   version number, exportability, reserved) and the ordered optional blocks do *)
Theorem C17_load_history_free : forall s h1 h2,
  snd (header_load h1 s) = snd (header_load h2 s) /\
  (forall n, snd (header_load h1 s) = Ok n -> fst (header_load h1 s) = fst (header_load h2 s)).
Proof. exact load_history_free. Qed.
Print Assumptions C17_load_history_free.

(* KeyBlock.unwrap: the returned key or the error raised depends on the KBPK and
   the input text only; after success so does the whole header object *)
Theorem C17_unwrap_history_free : forall cd ca kbpk s h1 h2,
  snd (kb_unwrap cd ca kbpk h1 s) = snd (kb_unwrap cd ca kbpk h2 s) /\
  (forall k, snd (kb_unwrap cd ca kbpk h1 s) = Ok k ->
             fst (kb_unwrap cd ca kbpk h1 s) = fst (kb_unwrap cd ca kbpk h2 s)).
Proof. exact unwrap_history_free. Qed.
Print Assumptions C17_unwrap_history_free.

(* no operation changes the KBPK of the object *)
Theorem C17_run_keeps_kbpk : forall cd ca st ops, st_kbpk (fst (run cd ca st ops)) = st_kbpk st.
Proof. exact run_kbpk. Qed.
Print Assumptions C17_run_keeps_kbpk.

(* after ANY history of loads, unwraps, wraps, field / block assignments,
   deletions and prints (successful or failed), the next unwrap / load has the
   outcome it has on a fresh KeyBlock(kbpk), and on success leaves the same object *)
Theorem C17_reachable : forall cd ca kbpk ops s,
  let st := fst (run cd ca (mkState kbpk default_header) ops) in
  let fresh := mkState kbpk default_header in
  (snd (step cd ca st (OpUnwrap s)) = snd (step cd ca fresh (OpUnwrap s)) /\
   (forall k, snd (step cd ca fresh (OpUnwrap s)) = OutBytes k ->
              fst (step cd ca st (OpUnwrap s)) = fst (step cd ca fresh (OpUnwrap s)))) /\
  (snd (step cd ca st (OpLoad s)) = snd (step cd ca fresh (OpLoad s)) /\
   (forall n, snd (step cd ca fresh (OpLoad s)) = OutNat n ->
              fst (step cd ca st (OpLoad s)) = fst (step cd ca fresh (OpLoad s)))).
Proof. exact reachable_history_free. Qed.
Print Assumptions C17_reachable.

(* wrap and str() leave the object unchanged; the wrap outcome is the function
   kb_wrap of (KBPK, current header fields, key, mask, random tape) *)
Theorem C17_wrap_pure : forall cd ca st key mask tape,
  fst (step cd ca st (OpWrap key mask tape)) = st /\
  fst (step cd ca st OpStr) = st /\
  snd (step cd ca st (OpWrap key mask tape)) =
    match kb_wrap cd ca (st_kbpk st) (st_header st) key mask tape with
    | Ok s => OutStr s | Err e => OutErr e end.
Proof. exact wrap_pure. Qed.
Print Assumptions C17_wrap_pure.

Theorem C17_wrap_depends_on_fields : forall cd ca st1 st2 key mask tape,
  st_kbpk st1 = st_kbpk st2 -> st_header st1 = st_header st2 ->
  snd (step cd ca st1 (OpWrap key mask tape)) = snd (step cd ca st2 (OpWrap key mask tape)) /\
  snd (step cd ca st1 OpStr) = snd (step cd ca st2 OpStr).
Proof. exact wrap_depends_on_fields. Qed.
Print Assumptions C17_wrap_depends_on_fields.

(* a failed load leaves a mixture (new fields and reserved, OLD blocks): the
   theorems above are not consequences of "a failure leaves no trace" *)
Example C17_failed_load_keeps_prefix :
  header_load (fst (header_load default_header ex_hdr1)) ex_bad =
  (mkHeader [68] [75; 49] [65] [66] [48; 49] [83] [55; 55] [([75; 83], [65; 66; 67; 68])],
   Err HeaderError)%N.
Proof. exact failed_load_keeps_prefix. Qed.

(* load (block KS, reserved "ZZ"); failing load; load another header *)
Example C17_history_instance : forall cd ca kbpk,
  let st := fst (run cd ca (mkState kbpk default_header) [OpLoad ex_hdr1; OpLoad ex_bad]) in
  snd (run cd ca (mkState kbpk default_header) [OpLoad ex_hdr1; OpLoad ex_bad]) =
    [OutNat 24; OutErr HeaderError] /\
  step cd ca st (OpLoad ex_hdr2) = step cd ca (mkState kbpk default_header) (OpLoad ex_hdr2) /\
  step cd ca st (OpLoad ex_hdr2) =
    (mkState kbpk (mkHeader [65] [68; 48] [65] [78] [48; 48] [69] [48; 48] []), OutNat 16)%N.
Proof. exact history_example. Qed.

(* unwrap a version-D block; fail on garbage; unwrap a version-B block (toy ciphers) *)
Example C17_unwrap_history_instance :
  match wrap_str toy_tdes toy_aes ex_kbpk ex_whdr_b ex_key_b None ex_tape_b,
        wrap_str toy_tdes toy_aes ex_kbpk ex_whdr_d ex_key_d None ex_tape_dd with
  | Ok blk_b, Ok blk_d =>
      let fresh := mkState ex_kbpk default_header in
      let st := fst (run toy_tdes toy_aes fresh [OpUnwrap blk_d; OpUnwrap ex_bad]) in
      snd (run toy_tdes toy_aes fresh [OpUnwrap blk_d; OpUnwrap ex_bad]) =
        [OutBytes ex_key_d; OutErr HeaderError] /\
      st_header st <> default_header /\
      step toy_tdes toy_aes st (OpUnwrap blk_b) = step toy_tdes toy_aes fresh (OpUnwrap blk_b) /\
      snd (step toy_tdes toy_aes st (OpUnwrap blk_b)) = OutBytes ex_key_b
  | _, _ => False
  end.
Proof. exact unwrap_history_example. Qed.
