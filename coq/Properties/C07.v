(* C07 - the MACs equal ISO/IEC 9797-1 MAC algorithm 1 (CBC-MAC) and MAC
   algorithm 3 (retail MAC) over the padded message; a shorter requested length
   returns the leftmost bytes of the full MAC; an unknown padding method is
   rejected.
   Only statements, each closed by [exact] of a lemma from Proofs/MacLemmas.v.
   The reference algorithms [alg1], [alg3], [split_blocks], [mac_truncate] are
   in Spec/ISO9797.v.  [cd] is the cipher behind psec.des (Triple DES), [ca] the
   one behind psec.aes; both are arbitrary lawful block ciphers here. *)
From Psec Require Import Lib.Base Cipher.Cipher Cipher.Toy Model.Mac Spec.ISO9797.
From Psec Require Import Proofs.XorLemmas Proofs.MacLemmas.

(* ---- truncation is "leftmost bytes" ---- *)
Theorem C07_truncate_is_leftmost : forall len m,
  mac_truncate len m = firstn len m /\
  length (mac_truncate len m) = Nat.min len (length m) /\
  exists rest, m = mac_truncate len m ++ rest.
Proof. exact mac_truncate_leftmost. Qed.
Print Assumptions C07_truncate_is_leftmost.

(* ---- the spec's block splitting is faithful: n blocks of bsz bytes whose
        concatenation is the message ---- *)
Theorem C07_split_blocks_faithful : forall bsz n data, length data = (n * bsz)%nat ->
  length (split_blocks bsz n data) = n /\
  concat (split_blocks bsz n data) = data /\
  forall b, In b (split_blocks bsz n data) -> length b = bsz.
Proof. exact split_blocks_faithful. Qed.
Print Assumptions C07_split_blocks_faithful.

(* ---- CBC-MAC = algorithm 1 over the padded message ----
   block size 8 (TDES) or 16 (AES) is [bs c]; default length = block size *)
Theorem C07_cbc_mac : forall cd ca, cipher_ok cd -> cipher_ok ca ->
  forall key data padding mlen (aes : bool),
  let c := if aes then ca else cd in
  valid_key c key = true -> bytes_ok data = true ->
  forall padded, pad_dispatch padding data (bs c) = Ok padded ->
  generate_cbc_mac cd ca key data padding mlen aes =
  Ok (mac_truncate (match mlen with Some l => l | None => bs c end)
        (alg1 c key (split_blocks (bs c) (length padded / bs c) padded))).
Proof. exact cbc_mac_is_alg1. Qed.
Print Assumptions C07_cbc_mac.

(* unknown padding method -> ValueError; invalid key -> ValueError; the only
   crash is method 3 on a message whose bit length does not fit one block
   (then OverflowError) *)
Theorem C07_cbc_mac_errors : forall cd ca, cipher_ok cd -> cipher_ok ca ->
  forall key data padding mlen (aes : bool),
  let c := if aes then ca else cd in
  ((padding <> 1 -> padding <> 2 -> padding <> 3 ->
    generate_cbc_mac cd ca key data padding mlen aes = Err ValueError) /\
   (forall padded, pad_dispatch padding data (bs c) = Ok padded -> valid_key c key = false ->
    generate_cbc_mac cd ca key data padding mlen aes = Err ValueError) /\
   (is_crash (generate_cbc_mac cd ca key data padding mlen aes) = true <->
    padding = 3 /\ 256 ^ N.of_nat (bs c) <= N.of_nat (length data) * 8) /\
   (256 ^ N.of_nat (bs c) <= N.of_nat (length data) * 8 ->
    generate_cbc_mac cd ca key data 3 mlen aes = Err (Crash COverflow)))%N.
Proof. exact cbc_mac_errors. Qed.
Print Assumptions C07_cbc_mac_errors.

(* ---- retail MAC = algorithm 3 over the padded message ---- *)
Theorem C07_retail_mac : forall cd, cipher_ok cd ->
  forall key1 key2 data padding mlen padded,
  valid_key cd key1 = true -> valid_key cd key2 = true -> bs cd = 8%nat ->
  bytes_ok data = true -> pad_dispatch padding data 8 = Ok padded ->
  generate_retail_mac cd key1 key2 data padding mlen =
  Ok (mac_truncate (match mlen with Some l => l | None => 8%nat end)
        (alg3 cd key1 key2 (split_blocks 8 (length padded / 8) padded))).
Proof. exact retail_mac_is_alg3. Qed.
Print Assumptions C07_retail_mac.

Theorem C07_retail_errors : forall cd key1 key2 data padding mlen,
  ((padding <> 1 -> padding <> 2 -> padding <> 3 ->
    generate_retail_mac cd key1 key2 data padding mlen = Err ValueError) /\
   (forall padded, pad_dispatch padding data 8 = Ok padded ->
    valid_key cd key1 = false \/ valid_key cd key2 = false ->
    generate_retail_mac cd key1 key2 data padding mlen = Err ValueError))%N.
Proof. exact retail_mac_errors. Qed.
Print Assumptions C07_retail_errors.

(* ---- corollaries ---- *)
(* a message that pads to exactly one block B: E_k1 (D_k2 (E_k1 B)) *)
Theorem C07_retail_single_block : forall cd, cipher_ok cd ->
  forall key1 key2 data padding mlen B,
  valid_key cd key1 = true -> valid_key cd key2 = true -> bs cd = 8%nat ->
  bytes_ok data = true -> pad_dispatch padding data 8 = Ok B -> length B = 8%nat ->
  generate_retail_mac cd key1 key2 data padding mlen =
  Ok (mac_truncate (match mlen with Some l => l | None => 8%nat end)
        (enc cd key1 (dec cd key2 (enc cd key1 B)))).
Proof. exact retail_single_block. Qed.
Print Assumptions C07_retail_single_block.

(* CBC-MAC splice identity: the MAC of bl1 ++ bl2 is the iteration over bl2
   started from the MAC of bl1 *)
Theorem C07_splice : forall c key h bl1 bl2,
  alg1_from c key h (bl1 ++ bl2) = alg1_from c key (alg1_from c key h bl1) bl2 /\
  alg1 c key (bl1 ++ bl2) = alg1_from c key (alg1 c key bl1) bl2 /\
  alg1 c key bl1 = alg1_from c key (repeat 0%N (bs c)) bl1.
Proof. exact alg1_splice_all. Qed.
Print Assumptions C07_splice.

(* the same on bytes: splitting a concatenation *)
Theorem C07_split_app : forall bsz n1 n2 d1 d2, length d1 = (n1 * bsz)%nat ->
  split_blocks bsz (n1 + n2) (d1 ++ d2) = split_blocks bsz n1 d1 ++ split_blocks bsz n2 d2.
Proof. exact split_blocks_app. Qed.
Print Assumptions C07_split_app.

(* ---- Triple DES built from any lawful single DES (block size 8 by computation) ---- *)
Theorem C07_tdes_cbc_mac : forall d, des_ok d -> forall ca, cipher_ok ca ->
  forall key data padding mlen padded,
  tdes_valid_key key = true -> bytes_ok data = true ->
  pad_dispatch padding data 8 = Ok padded ->
  generate_cbc_mac (tdes d) ca key data padding mlen false =
  Ok (mac_truncate (match mlen with Some l => l | None => 8%nat end)
        (alg1 (tdes d) key (split_blocks 8 (length padded / 8) padded))).
Proof. exact tdes_cbc_mac_is_alg1. Qed.
Print Assumptions C07_tdes_cbc_mac.

Theorem C07_tdes_retail_mac : forall d, des_ok d ->
  forall key1 key2 data padding mlen padded,
  tdes_valid_key key1 = true -> tdes_valid_key key2 = true ->
  bytes_ok data = true -> pad_dispatch padding data 8 = Ok padded ->
  generate_retail_mac (tdes d) key1 key2 data padding mlen =
  Ok (mac_truncate (match mlen with Some l => l | None => 8%nat end)
        (alg3 (tdes d) key1 key2 (split_blocks 8 (length padded / 8) padded))).
Proof. exact tdes_retail_mac_is_alg3. Qed.
Print Assumptions C07_tdes_retail_mac.

(* single-length keys, one-block message: DES-EDE under (k1, k2, k1) *)
Theorem C07_tdes_retail_single_block : forall d, des_ok d ->
  forall key1 key2 data padding mlen B,
  length key1 = 8%nat -> length key2 = 8%nat -> bytes_ok data = true ->
  pad_dispatch padding data 8 = Ok B -> length B = 8%nat ->
  generate_retail_mac (tdes d) key1 key2 data padding mlen =
  Ok (mac_truncate (match mlen with Some l => l | None => 8%nat end)
        (des_enc d key1 (des_dec d key2 (des_enc d key1 B)))).
Proof. exact tdes_retail_single_block. Qed.
Print Assumptions C07_tdes_retail_single_block.

(* ---- premises are satisfiable (toy lawful ciphers of Cipher/Toy.v):
        2-block messages with each padding method, both algorithms ---- *)
Definition ex_k8 : list N := [1; 2; 3; 4; 5; 6; 7; 8]%N.
Definition ex_k16 : list N := [1; 2; 3; 4; 5; 6; 7; 8; 9; 10; 11; 12; 13; 14; 15; 16]%N.
Definition ex_k24 : list N := ex_k16 ++ ex_k8.
Definition ex_d5 : list N := [49; 50; 51; 52; 53]%N.
Definition ex_d9 : list N := [49; 50; 51; 52; 53; 54; 55; 56; 57]%N.
Definition ex_d17 : list N := ex_d9 ++ ex_k8.

Example C07_toy_ciphers_lawful : cipher_ok toy_tdes /\ cipher_ok toy_aes /\ des_ok toy_des.
Proof.
  split; [exact (Proofs.TdesLemmas.tdes_ok toy_des toy_des_ok)|].
  split; [exact toy_aes_ok | exact toy_des_ok].
Qed.

(* TDES, methods 1, 2, 3: key valid, data are bytes, padding yields 2 blocks *)
Example C07_cbc_mac_premises_tdes :
  valid_key toy_tdes ex_k16 = true /\ bytes_ok ex_d9 = true /\ bytes_ok ex_d5 = true /\
  pad_dispatch 1 ex_d9 (bs toy_tdes) = Ok (ex_d9 ++ [0; 0; 0; 0; 0; 0; 0])%N /\
  pad_dispatch 2 ex_d9 (bs toy_tdes) = Ok (ex_d9 ++ [128; 0; 0; 0; 0; 0; 0])%N /\
  pad_dispatch 3 ex_d5 (bs toy_tdes) = Ok ([0; 0; 0; 0; 0; 0; 0; 40] ++ ex_d5 ++ [0; 0; 0])%N /\
  generate_cbc_mac toy_tdes toy_aes ex_k16 ex_d9 1 None false = Ok [49; 50; 51; 52; 53; 54; 55; 1]%N /\
  generate_cbc_mac toy_tdes toy_aes ex_k16 ex_d9 2 (Some 4%nat) false = Ok [49; 50; 51; 52]%N /\
  generate_cbc_mac toy_tdes toy_aes ex_k16 ex_d5 3 None false = Ok [0; 0; 0; 53; 52; 51; 50; 25]%N.
Proof. vm_compute. repeat split. Qed.

(* AES, methods 1, 2, 3 *)
Example C07_cbc_mac_premises_aes :
  valid_key toy_aes ex_k24 = true /\ bytes_ok ex_d17 = true /\ bytes_ok ex_d9 = true /\
  (exists p, pad_dispatch 1 ex_d17 (bs toy_aes) = Ok p /\ length p = 32%nat) /\
  (exists p, pad_dispatch 2 ex_d17 (bs toy_aes) = Ok p /\ length p = 32%nat) /\
  (exists p, pad_dispatch 3 ex_d9 (bs toy_aes) = Ok p /\ length p = 32%nat) /\
  generate_cbc_mac toy_tdes toy_aes ex_k24 ex_d17 1 None true =
    Ok [49; 50; 51; 52; 53; 54; 55; 56; 57; 1; 2; 3; 4; 5; 6; 15]%N /\
  generate_cbc_mac toy_tdes toy_aes ex_k24 ex_d17 2 (Some 4%nat) true = Ok [49; 50; 51; 52]%N /\
  generate_cbc_mac toy_tdes toy_aes ex_k24 ex_d9 3 None true =
    Ok [0; 0; 0; 0; 0; 0; 0; 57; 56; 55; 54; 53; 52; 51; 50; 121]%N.
Proof. vm_compute. repeat split; eexists; split; reflexivity. Qed.

(* retail MAC, methods 1, 2, 3 (2 blocks) and a one-block message with
   single-length keys *)
Example C07_retail_premises :
  valid_key toy_tdes ex_k16 = true /\ valid_key toy_tdes ex_k8 = true /\ bs toy_tdes = 8%nat /\
  (exists p, pad_dispatch 1 ex_d9 8 = Ok p /\ length p = 16%nat) /\
  (exists p, pad_dispatch 2 ex_d9 8 = Ok p /\ length p = 16%nat) /\
  (exists p, pad_dispatch 3 ex_d5 8 = Ok p /\ length p = 16%nat) /\
  (exists p, pad_dispatch 1 ex_d5 8 = Ok p /\ length p = 8%nat) /\
  generate_retail_mac toy_tdes ex_k16 ex_k8 ex_d9 1 None = Ok [49; 50; 51; 52; 53; 54; 55; 1]%N /\
  generate_retail_mac toy_tdes ex_k16 ex_k8 ex_d9 2 (Some 4%nat) = Ok [49; 50; 51; 52]%N /\
  generate_retail_mac toy_tdes ex_k16 ex_k8 ex_d5 3 None = Ok [0; 0; 0; 53; 52; 51; 50; 25]%N /\
  generate_retail_mac toy_tdes ex_k8 ex_k16 ex_d5 1 None = Ok [8; 8; 8; 61; 60; 59; 58; 57]%N.
Proof. vm_compute. repeat split; eexists; split; reflexivity. Qed.

(* premises of the error statements *)
Example C07_error_premises :
  generate_cbc_mac toy_tdes toy_aes ex_k16 ex_d9 4 None false = Err ValueError /\
  generate_cbc_mac toy_tdes toy_aes ex_d9 ex_d9 1 None false = Err ValueError /\
  valid_key toy_tdes ex_d9 = false /\
  generate_retail_mac toy_tdes ex_k16 ex_k8 ex_d9 0 None = Err ValueError /\
  generate_retail_mac toy_tdes ex_d9 ex_k8 ex_d9 1 None = Err ValueError /\
  generate_retail_mac toy_tdes ex_k8 ex_d9 ex_d9 1 None = Err ValueError.
Proof. vm_compute. repeat split. Qed.

(* the overflow premise of method 3 is satisfiable for a (degenerate) lawful
   cipher with 1-byte blocks: 32 bytes = 256 bits do not fit one byte *)
Example C07_overflow_premise :
  cipher_ok (toy_cipher 1 aes_valid_key) /\
  (256 ^ N.of_nat (bs (toy_cipher 1 aes_valid_key)) <= N.of_nat (length (ex_d17 ++ ex_d17 ++ ex_d17)) * 8)%N /\
  generate_cbc_mac toy_tdes (toy_cipher 1 aes_valid_key) ex_k16 (ex_d17 ++ ex_d17 ++ ex_d17) 3 None true
    = Err (Crash COverflow).
Proof.
  split; [apply toy_cipher_ok; repeat constructor|]. split; [vm_compute; discriminate | reflexivity].
Qed.
