(* C08 - ISO 9797-1 padding methods 1, 2 and 3 are exact.
   Only statements, each closed by [exact] of a lemma from Proofs/PadLemmas.v. *)
From Psec Require Import Lib.Base Model.Mac Proofs.PadLemmas.

(* method 1: data followed by the least number k of zero bytes that makes the
   length a positive multiple of the block size *)
Theorem C08_pad1_exact : forall data bsz, (0 < bsz)%nat ->
  exists k, pad_iso_1 data bsz = Ok (data ++ repeat 0%N k) /\ least_pad bsz (length data) k.
Proof. exact pad1_exact. Qed.
Print Assumptions C08_pad1_exact.

Theorem C08_pad1_empty : forall bsz, (0 < bsz)%nat -> pad_iso_1 [] bsz = Ok (repeat 0%N bsz).
Proof. exact pad1_empty. Qed.
Print Assumptions C08_pad1_empty.

(* method 2: data, 0x80, then the least number of zero bytes *)
Theorem C08_pad2_exact : forall data bsz, (0 < bsz)%nat ->
  exists k, pad_iso_2 data bsz = Ok (data ++ [128%N] ++ repeat 0%N k) /\
            ((length data + 1 + k) mod bsz = 0)%nat /\
            forall j, (j < k)%nat -> ((length data + 1 + j) mod bsz <> 0)%nat.
Proof. exact pad2_exact. Qed.
Print Assumptions C08_pad2_exact.

(* method 3: one block holding the bit length big-endian, then method 1 *)
Theorem C08_pad3_exact : forall data bsz, (0 < bsz)%nat ->
  (N.of_nat (length data) * 8 < 256 ^ N.of_nat bsz)%N ->
  exists k, pad_iso_3 data bsz =
              Ok (be_bytes bsz (N.of_nat (length data) * 8) ++ data ++ repeat 0%N k) /\
            least_pad bsz (length data) k.
Proof. exact pad3_exact. Qed.
Print Assumptions C08_pad3_exact.

Theorem C08_length_block_value : forall n v, (v < 256 ^ N.of_nat n)%N ->
  be_int (be_bytes n v) = v /\ length (be_bytes n v) = n.
Proof. intros n v H. split; [exact (be_int_be_bytes n v H) | exact (be_bytes_length n v)]. Qed.
Print Assumptions C08_length_block_value.

(* positive multiple of the block size; starts with (method 3: contains after
   one block) the message *)
Theorem C08_multiple_and_prefix : forall p data bsz out, (0 < bsz)%nat ->
  (p = 1 \/ p = 2 \/ p = 3)%N -> pad_dispatch p data bsz = Ok out ->
  (0 < length out)%nat /\ (length out mod bsz = 0)%nat /\
  (p <> 3%N -> firstn (length data) out = data) /\
  (p = 3%N -> firstn (length data) (skipn bsz out) = data).
Proof. exact pad_multiple. Qed.
Print Assumptions C08_multiple_and_prefix.

(* methods 2 and 3 are injective *)
Theorem C08_pad2_injective : forall d1 d2 bsz p, (0 < bsz)%nat ->
  pad_iso_2 d1 bsz = Ok p -> pad_iso_2 d2 bsz = Ok p -> d1 = d2.
Proof. exact pad2_injective. Qed.
Print Assumptions C08_pad2_injective.

Theorem C08_pad3_injective : forall d1 d2 bsz p, (0 < bsz)%nat ->
  pad_iso_3 d1 bsz = Ok p -> pad_iso_3 d2 bsz = Ok p -> d1 = d2.
Proof. exact pad3_injective. Qed.
Print Assumptions C08_pad3_injective.

(* the least pad is unique, so "fewest" determines the output *)
Theorem C08_least_unique : forall bsz n k1 k2, least_pad bsz n k1 -> least_pad bsz n k2 -> k1 = k2.
Proof. exact least_pad_unique. Qed.
Print Assumptions C08_least_unique.

(* outside the documented domain: a bit length that does not fit one block *)
Theorem C08_pad3_overflow : forall data bsz,
  (256 ^ N.of_nat bsz <= N.of_nat (length data) * 8)%N -> pad_iso_3 data bsz = Err (Crash COverflow).
Proof. exact pad3_overflow. Qed.
Print Assumptions C08_pad3_overflow.

(* premises are satisfiable: a concrete non-trivial instance *)
Example C08_instance :
  pad_iso_2 [1; 2; 128]%N 4 = Ok [1; 2; 128; 128]%N /\
  pad_iso_3 [1; 2; 3; 4; 5]%N 4 = Ok [0; 0; 0; 40; 1; 2; 3; 4; 5; 0; 0; 0]%N.
Proof. split; reflexivity. Qed.
