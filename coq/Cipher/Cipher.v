(* Block ciphers as a parameter; ECB / CBC over whole messages and the
   streaming CBC context that the retail MAC relies on. *)
From Psec Require Export Lib.Base.

Record cipher := {
  bs : nat;                                   (* block size in bytes *)
  valid_key : list N -> bool;                 (* key sizes the cipher admits *)
  enc : list N -> list N -> list N;           (* key -> one block -> one block *)
  dec : list N -> list N -> list N
}.

Definition block_ok (c : cipher) (b : list N) : Prop :=
  length b = bs c /\ bytes_ok b = true.

(* what the theorems assume of a cipher: a keyed permutation of blocks *)
Record cipher_ok (c : cipher) : Prop := {
  bs_pos : (0 < bs c)%nat;
  enc_block : forall k b, valid_key c k = true -> block_ok c b -> block_ok c (enc c k b);
  dec_block : forall k b, valid_key c k = true -> block_ok c b -> block_ok c (dec c k b);
  dec_enc : forall k b, valid_key c k = true -> block_ok c b -> dec c k (enc c k b) = b;
  enc_dec : forall k b, valid_key c k = true -> block_ok c b -> enc c k (dec c k b) = b
}.

(* bytewise xor of two blocks, through the library's own helper *)
Definition xorb := py_xor.

(* n blocks of ECB / CBC; [n] is the block count of [data] *)
Fixpoint ecb_n (f : list N -> list N) (bsz n : nat) (data : list N) : list N :=
  match n with
  | O => []
  | S n' => f (firstn bsz data) ++ ecb_n f bsz n' (skipn bsz data)
  end.

Fixpoint cbc_enc_n (c : cipher) (k : list N) (n : nat) (iv data : list N) : list N :=
  match n with
  | O => []
  | S n' => let ct := enc c k (xorb (firstn (bs c) data) iv) in
            ct ++ cbc_enc_n c k n' ct (skipn (bs c) data)
  end.

Fixpoint cbc_dec_n (c : cipher) (k : list N) (n : nat) (iv data : list N) : list N :=
  match n with
  | O => []
  | S n' => let ct := firstn (bs c) data in
            xorb (dec c k ct) iv ++ cbc_dec_n c k n' ct (skipn (bs c) data)
  end.

Definition nblocks (c : cipher) (data : list N) : nat := length data / bs c.

(* psec's length guard: len(data) < bs or len(data) % bs != 0 *)
Definition bad_len (c : cipher) (data : list N) : bool :=
  (length data <? bs c)%nat || negb (length data mod bs c =? 0)%nat.

(* The four wrapper shapes of psec.des / psec.aes.  After psec's own guard,
   [cryptography] raises ValueError for a key or IV of the wrong size. *)
Definition encrypt_ecb (c : cipher) (key data : list N) : res (list N) :=
  if bad_len c data then Err ValueError
  else if negb (valid_key c key) then Err ValueError
  else Ok (ecb_n (enc c key) (bs c) (nblocks c data) data).

Definition decrypt_ecb (c : cipher) (key data : list N) : res (list N) :=
  if bad_len c data then Err ValueError
  else if negb (valid_key c key) then Err ValueError
  else Ok (ecb_n (dec c key) (bs c) (nblocks c data) data).

Definition encrypt_cbc (c : cipher) (key iv data : list N) : res (list N) :=
  if bad_len c data then Err ValueError
  else if negb (valid_key c key) then Err ValueError
  else if negb (length iv =? bs c)%nat then Err ValueError
  else Ok (cbc_enc_n c key (nblocks c data) iv data).

Definition decrypt_cbc (c : cipher) (key iv data : list N) : res (list N) :=
  if bad_len c data then Err ValueError
  else if negb (valid_key c key) then Err ValueError
  else if negb (length iv =? bs c)%nat then Err ValueError
  else Ok (cbc_dec_n c key (nblocks c data) iv data).

(* Triple DES built from a single DES exactly as OpenSSL / cryptography expand
   8-, 16- and 24-byte keys: (k,k,k), (k1,k2,k1), (k1,k2,k3); EDE. *)
Record des_prim := {
  des_enc : list N -> list N -> list N;       (* 8-byte key -> block -> block *)
  des_dec : list N -> list N -> list N
}.

Definition tdes_keys (k : list N) : list N * list N * list N :=
  let k1 := firstn 8 k in
  match length k with
  | 8%nat => (k1, k1, k1)
  | 16%nat => (k1, skipn 8 k, k1)
  | _ => (k1, firstn 8 (skipn 8 k), skipn 16 k)
  end.

Definition tdes_valid_key (k : list N) : bool := mem_nat (length k) [8; 16; 24]%nat.

Definition tdes (d : des_prim) : cipher := {|
  bs := 8;
  valid_key := tdes_valid_key;
  enc := fun k b => let '(k1, k2, k3) := tdes_keys k in
                    des_enc d k3 (des_dec d k2 (des_enc d k1 b));
  dec := fun k b => let '(k1, k2, k3) := tdes_keys k in
                    des_dec d k1 (des_enc d k2 (des_dec d k3 b))
|}.

Definition des_key_ok (k : list N) : Prop := length k = 8%nat /\ bytes_ok k = true.
Definition block8_ok (b : list N) : Prop := length b = 8%nat /\ bytes_ok b = true.

Record des_ok (d : des_prim) : Prop := {
  des_enc_block : forall k b, length k = 8%nat -> block8_ok b -> block8_ok (des_enc d k b);
  des_dec_block : forall k b, length k = 8%nat -> block8_ok b -> block8_ok (des_dec d k b);
  des_dec_enc : forall k b, length k = 8%nat -> block8_ok b -> des_dec d k (des_enc d k b) = b;
  des_enc_dec : forall k b, length k = 8%nat -> block8_ok b -> des_enc d k (des_dec d k b) = b
}.

Definition aes_valid_key (k : list N) : bool := mem_nat (length k) [16; 24; 32]%nat.
