(* A toy keyed permutation: shows that [cipher_ok] / [des_ok] are inhabited, so
   no theorem quantified over lawful ciphers is vacuous.  Also used to evaluate
   Examples inside Coq cheaply. *)
From Coq Require Import Lia.
From Psec Require Import Lib.Base Cipher.Cipher Proofs.XorLemmas.
Open Scope N_scope.

Definition toy_mask (k : list N) : N := N.of_nat (length k mod 256).
Definition toy_f (k b : list N) : list N := map (fun x => N.lxor x (toy_mask k)) (rev b).
Definition toy_g (k b : list N) : list N := rev (map (fun x => N.lxor x (toy_mask k)) b).

Definition toy_cipher (bsz : nat) (valid : list N -> bool) : cipher :=
  {| bs := bsz; valid_key := valid; enc := toy_f; dec := toy_g |}.

Definition toy_des : des_prim := {| des_enc := toy_f; des_dec := toy_g |}.
Definition toy_tdes : cipher := tdes toy_des.
Definition toy_aes : cipher := toy_cipher 16 aes_valid_key.

Lemma toy_mask_lt k : toy_mask k < 256.
Proof. unfold toy_mask. pose proof (Nat.mod_upper_bound (length k) 256). lia. Qed.

Lemma bytes_ok_rev l : bytes_ok l = true -> bytes_ok (rev l) = true.
Proof.
  unfold bytes_ok. rewrite !forallb_forall. intros H x Hx. apply H. apply in_rev. assumption.
Qed.

Lemma bytes_ok_map_xor m l : m < 256 -> bytes_ok l = true ->
  bytes_ok (map (fun x => N.lxor x m) l) = true.
Proof.
  intros Hm. unfold bytes_ok, byte_ok. rewrite !forallb_forall. intros H x Hx.
  apply in_map_iff in Hx as (y & <- & Hy). apply N.ltb_lt. apply lxor_lt; [|assumption].
  apply N.ltb_lt. apply H. assumption.
Qed.

Lemma map_xor_twice m l : map (fun x => N.lxor x m) (map (fun x => N.lxor x m) l) = l.
Proof.
  rewrite map_map. rewrite <- (map_id l) at 2. apply map_ext. intros a.
  rewrite N.lxor_assoc, N.lxor_nilpotent, N.lxor_0_r. reflexivity.
Qed.

Lemma toy_g_f k b : toy_g k (toy_f k b) = b.
Proof. unfold toy_g, toy_f. rewrite map_xor_twice. apply rev_involutive. Qed.
Lemma toy_f_g k b : toy_f k (toy_g k b) = b.
Proof. unfold toy_g, toy_f. rewrite rev_involutive. apply map_xor_twice. Qed.

Lemma toy_f_ok n k b : length b = n /\ bytes_ok b = true -> length (toy_f k b) = n /\ bytes_ok (toy_f k b) = true.
Proof.
  intros [L B]. unfold toy_f. rewrite map_length, rev_length. split; [assumption|].
  apply bytes_ok_map_xor; [apply toy_mask_lt | apply bytes_ok_rev; assumption].
Qed.
Lemma toy_g_ok n k b : length b = n /\ bytes_ok b = true -> length (toy_g k b) = n /\ bytes_ok (toy_g k b) = true.
Proof.
  intros [L B]. unfold toy_g. rewrite rev_length, map_length. split; [assumption|].
  apply bytes_ok_rev. apply bytes_ok_map_xor; [apply toy_mask_lt | assumption].
Qed.

Theorem toy_cipher_ok bsz valid : (0 < bsz)%nat -> cipher_ok (toy_cipher bsz valid).
Proof.
  intros Hb. constructor; cbn [bs enc dec valid_key toy_cipher]; unfold block_ok; cbn [bs toy_cipher].
  - assumption.
  - intros k b _ H. apply toy_f_ok; assumption.
  - intros k b _ H. apply toy_g_ok; assumption.
  - intros. apply toy_g_f.
  - intros. apply toy_f_g.
Qed.

Theorem toy_des_ok : des_ok toy_des.
Proof.
  constructor; cbn [des_enc des_dec toy_des]; unfold block8_ok.
  - intros k b _ H. apply toy_f_ok; assumption.
  - intros k b _ H. apply toy_g_ok; assumption.
  - intros. apply toy_g_f.
  - intros. apply toy_f_g.
Qed.

Theorem toy_aes_ok : cipher_ok toy_aes.
Proof. apply toy_cipher_ok. lia. Qed.
