(* The executable instances are lawful: what the theorems of the development
   (all quantified over lawful ciphers) assume holds of the instances the
   correspondence harness runs.

   DES / Triple DES: unconditionally ([real_des_ok], [real_tdes_ok]).
   AES: [cipher_ok real_aes] and hence [ciphers_ok real_tdes real_aes] are FALSE
   as stated, because [valid_key real_aes] constrains only the key length while
   [bytes = list N] admits elements >= 256 (refutations below).  What holds:
     - real_aes_b (same functions, valid_key := length && bytes_ok) is lawful, but
       [ciphers_ok] demands valid_key = aes_valid_key, so it does not fit there;
     - real_aes_n (same functions run on the key reduced mod 256, valid_key :=
       aes_valid_key) is lawful, fits [ciphers_ok], and coincides with real_aes on
       every key made of bytes ([real_aes_n_agrees]). *)
From Psec Require Import Lib.Base Cipher.Cipher Cipher.DES Cipher.AES.
From Psec Require Import Proofs.TdesLemmas Proofs.Tr31Defs Cipher.DESok Cipher.AESok.

Theorem real_tdes_ok : cipher_ok real_tdes.
Proof. exact (tdes_ok real_des real_des_ok). Qed.

Theorem real_ciphers_n_ok : ciphers_ok real_tdes real_aes_n.
Proof.
  constructor.
  - exact real_tdes_ok.
  - exact real_aes_n_ok.
  - reflexivity.
  - reflexivity.
  - intro k. reflexivity.
  - intro k. reflexivity.
Qed.

(* full statement refuted:  Theorem real_ciphers_ok : ciphers_ok real_tdes real_aes. *)
Theorem real_ciphers_ok_refuted : ~ ciphers_ok real_tdes real_aes.
Proof. intros [_ A _ _ _ _]. exact (real_aes_not_ok A). Qed.

(* the byte-key record is lawful but has another [valid_key] than [ciphers_ok] asks *)
Theorem real_ciphers_b_partial :
  cipher_ok real_tdes /\ cipher_ok real_aes_b /\ bs real_tdes = 8%nat /\ bs real_aes_b = 16%nat /\
  (forall k, valid_key real_tdes k = tdes_valid_key k) /\
  (forall k, bytes_ok k = true -> valid_key real_aes_b k = aes_valid_key k).
Proof.
  split; [exact real_tdes_ok|]. split; [exact real_aes_b_ok|].
  split; [reflexivity|]. split; [reflexivity|]. split; [intro k; reflexivity|].
  intros k B. apply (real_aes_b_agrees k). exact B.
Qed.

Theorem real_ciphers_b_refuted : ~ ciphers_ok real_tdes real_aes_b.
Proof. intros [_ _ _ _ _ K]. specialize (K bad_key). discriminate K. Qed.

Print Assumptions real_tdes_ok.
Print Assumptions real_ciphers_n_ok.
Print Assumptions real_ciphers_ok_refuted.
Print Assumptions real_ciphers_b_partial.
