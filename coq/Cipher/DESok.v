(* The executable DES of Cipher/DES.v is a lawful DES primitive ([des_ok]):
   every theorem quantified over lawful DES primitives applies to the very
   instance the correspondence harness runs. *)
From Coq Require Import Lia.
From Psec Require Import Lib.Base Cipher.Cipher Cipher.DES Cipher.Toy.
From Psec Require Import Proofs.XorLemmas Proofs.PadLemmas.
Open Scope N_scope.

(* ------------------------------------------------------------------ *)
(* bits and bounds                                                      *)
Lemma bits_high_false x k i : x < 2 ^ k -> k <= i -> N.testbit x i = false.
Proof.
  intros Hx Hi. rewrite <- (N.mod_small x (2 ^ k)) by assumption.
  apply N.mod_pow2_bits_high. assumption.
Qed.

Lemma lt_pow2_of_bits x k : (forall i, k <= i -> N.testbit x i = false) -> x < 2 ^ k.
Proof.
  intros H. assert (x = x mod 2 ^ k) as ->.
  { apply N.bits_inj; intro i. destruct (N.ltb_spec i k).
    - rewrite N.mod_pow2_bits_low by assumption. reflexivity.
    - rewrite N.mod_pow2_bits_high by assumption. apply H; assumption. }
  apply N.mod_lt. apply N.pow_nonzero. discriminate.
Qed.

Lemma lxor_lt_pow2 a b k : a < 2 ^ k -> b < 2 ^ k -> N.lxor a b < 2 ^ k.
Proof.
  intros Ha Hb. apply lt_pow2_of_bits. intros i Hi.
  rewrite N.lxor_spec, (bits_high_false a k i), (bits_high_false b k i) by assumption. reflexivity.
Qed.

(* ------------------------------------------------------------------ *)
(* big-endian integers <-> bytes                                        *)
Lemma bytes_ok_le_bytes n v : bytes_ok (le_bytes n v) = true.
Proof.
  revert v; induction n as [|n IH]; intro v; cbn [le_bytes]; [reflexivity|].
  apply bytes_ok_cons. split; [apply N.mod_lt; discriminate | apply IH].
Qed.

Lemma be_bytes_ok n v : bytes_ok (be_bytes n v) = true.
Proof. unfold be_bytes. apply bytes_ok_rev, bytes_ok_le_bytes. Qed.

Lemma be_bytes_be_int b : bytes_ok b = true -> be_bytes (length b) (be_int b) = b.
Proof.
  intros H. unfold be_bytes, be_int. rewrite <- (rev_length b).
  rewrite le_bytes_le_int by (apply bytes_ok_rev; exact H). apply rev_involutive.
Qed.

Lemma le_int_lt l : bytes_ok l = true -> le_int l < 256 ^ N.of_nat (length l).
Proof.
  induction l as [|a l IH]; intro H; [cbn; lia|].
  apply bytes_ok_cons in H as [Ha Hl]. specialize (IH Hl).
  cbn [length le_int]. rewrite Nat2N.inj_succ, N.pow_succ_r'. lia.
Qed.

Lemma be_int_lt b : bytes_ok b = true -> be_int b < 256 ^ N.of_nat (length b).
Proof.
  intros H. unfold be_int. rewrite <- (rev_length b). apply le_int_lt, bytes_ok_rev, H.
Qed.

Lemma pow256_8 : 256 ^ N.of_nat 8 = 2 ^ 64.
Proof. reflexivity. Qed.

Lemma be_int_block_lt b : block8_ok b -> be_int b < 2 ^ 64.
Proof. intros [L B]. rewrite <- pow256_8, <- L. apply be_int_lt, B. Qed.

(* ------------------------------------------------------------------ *)
(* [perm]: bit j of the result is one chosen bit of the argument          *)
Definition pr (x n : N) (l : list N) : N :=
  fold_right (fun p acc => 2 * acc + bit x (n - p)) 0 l.

Lemma perm_pr x n t : perm x n t = pr x n (rev t).
Proof. unfold perm, pr. symmetry. apply fold_left_rev_right. Qed.

Lemma bit_b2n x i : bit x i = N.b2n (N.testbit x i).
Proof. reflexivity. Qed.

Lemma pr_cons x n p l : pr x n (p :: l) = 2 * pr x n l + N.b2n (N.testbit x (n - p)).
Proof. reflexivity. Qed.

Lemma pr_testbit_lt x n l j : (j < length l)%nat ->
  N.testbit (pr x n l) (N.of_nat j) = N.testbit x (n - nth j l 0).
Proof.
  revert j. induction l as [|p l IH]; intros j Hj; cbn [length] in Hj; [lia|].
  rewrite pr_cons. destruct j as [|j].
  - change (N.of_nat 0) with 0. rewrite N.testbit_0_r. reflexivity.
  - rewrite Nat2N.inj_succ, N.testbit_succ_r. cbn [nth]. apply IH. lia.
Qed.

Lemma pr_testbit_ge x n l j : (length l <= j)%nat ->
  N.testbit (pr x n l) (N.of_nat j) = false.
Proof.
  revert j. induction l as [|p l IH]; intros j Hj; cbn [length] in Hj.
  - apply N.bits_0.
  - rewrite pr_cons. destruct j as [|j]; [lia|].
    rewrite Nat2N.inj_succ, N.testbit_succ_r. apply IH. lia.
Qed.

Lemma perm_lt x n t : perm x n t < 2 ^ N.of_nat (length t).
Proof.
  apply lt_pow2_of_bits. intros i Hi.
  rewrite <- (N2Nat.id i), perm_pr. apply pr_testbit_ge. rewrite rev_length. lia.
Qed.

(* ------------------------------------------------------------------ *)
(* two 64-entry tables that are inverse permutations: checked by running  *)
Definition inv_check (t1 t2 : list N) : bool :=
  forallb (fun j => let q := 64 - nth j (rev t2) 0 in
                    (q <? 64) && (64 - nth (N.to_nat q) (rev t1) 0 =? N.of_nat j))
          (seq 0 64).

Lemma perm_inv_gen t1 t2 x : length t1 = 64%nat -> length t2 = 64%nat ->
  inv_check t1 t2 = true -> x < 2 ^ 64 -> perm (perm x 64 t1) 64 t2 = x.
Proof.
  intros L1 L2 C Hx. apply N.bits_inj; intro i.
  destruct (N.ltb_spec i 64) as [Hi|Hi].
  - unfold inv_check in C. rewrite forallb_forall in C.
    specialize (C (N.to_nat i)). rewrite in_seq in C. specialize (C ltac:(lia)).
    cbv zeta in C. apply andb_true_iff in C as [Cq Ce].
    apply N.ltb_lt in Cq. apply N.eqb_eq in Ce. rewrite N2Nat.id in Ce.
    rewrite <- (N2Nat.id i) at 1. rewrite (perm_pr _ 64 t2).
    rewrite pr_testbit_lt by (rewrite rev_length; lia).
    rewrite <- (N2Nat.id (64 - nth (N.to_nat i) (rev t2) 0)).
    rewrite (perm_pr x 64 t1). rewrite pr_testbit_lt by (rewrite rev_length; lia).
    rewrite Ce. reflexivity.
  - rewrite (bits_high_false x 64 i) by assumption.
    apply bits_high_false with 64; [|assumption].
    pose proof (perm_lt (perm x 64 t1) 64 t2) as P. rewrite L2 in P. exact P.
Qed.

Lemma IP_FP_check : inv_check tIP tFP = true.
Proof. vm_compute. reflexivity. Qed.
Lemma FP_IP_check : inv_check tFP tIP = true.
Proof. vm_compute. reflexivity. Qed.

Lemma FP_IP x : x < 2 ^ 64 -> perm (perm x 64 tIP) 64 tFP = x.
Proof. apply perm_inv_gen; [reflexivity | reflexivity | exact IP_FP_check]. Qed.
Lemma IP_FP x : x < 2 ^ 64 -> perm (perm x 64 tFP) 64 tIP = x.
Proof. apply perm_inv_gen; [reflexivity | reflexivity | exact FP_IP_check]. Qed.

(* ------------------------------------------------------------------ *)
(* halves                                                               *)
Definition m32 : N := 4294967295.
Lemma m32_ones : m32 = N.ones 32.
Proof. reflexivity. Qed.

Lemma join_split x : N.lor (N.shiftl (N.shiftr x 32) 32) (N.land x m32) = x.
Proof.
  apply N.bits_inj; intro i. rewrite N.lor_spec, m32_ones, N.land_ones.
  destruct (N.ltb_spec i 32).
  - rewrite N.shiftl_spec_low, N.mod_pow2_bits_low by assumption. reflexivity.
  - rewrite N.shiftl_spec_high', N.shiftr_spec', N.mod_pow2_bits_high by assumption.
    rewrite N.sub_add by assumption. apply orb_false_r.
Qed.

Lemma split_join_hi r l : l < 2 ^ 32 -> N.shiftr (N.lor (N.shiftl r 32) l) 32 = r.
Proof.
  intros Hl. apply N.bits_inj; intro i.
  rewrite N.shiftr_spec', N.lor_spec, N.shiftl_spec_high' by lia.
  rewrite (bits_high_false l 32) by (assumption || lia).
  rewrite N.add_sub. apply orb_false_r.
Qed.

Lemma split_join_lo r l : l < 2 ^ 32 -> N.land (N.lor (N.shiftl r 32) l) m32 = l.
Proof.
  intros Hl. apply N.bits_inj; intro i. rewrite m32_ones, N.land_ones.
  destruct (N.ltb_spec i 32).
  - rewrite N.mod_pow2_bits_low, N.lor_spec, N.shiftl_spec_low by assumption. reflexivity.
  - rewrite N.mod_pow2_bits_high by assumption.
    symmetry. apply bits_high_false with 32; assumption.
Qed.

Lemma hi_lt x : x < 2 ^ 64 -> N.shiftr x 32 < 2 ^ 32.
Proof.
  intros Hx. apply lt_pow2_of_bits. intros i Hi. rewrite N.shiftr_spec'.
  apply bits_high_false with 64; [assumption | lia].
Qed.

Lemma lo_lt x : N.land x m32 < 2 ^ 32.
Proof. rewrite m32_ones, N.land_ones. apply N.mod_lt. discriminate. Qed.

Lemma join_lt r l : r < 2 ^ 32 -> l < 2 ^ 32 -> N.lor (N.shiftl r 32) l < 2 ^ 64.
Proof.
  intros Hr Hl. apply lt_pow2_of_bits. intros i Hi.
  rewrite N.lor_spec, N.shiftl_spec_high' by lia.
  rewrite (bits_high_false r 32), (bits_high_false l 32) by (assumption || lia). reflexivity.
Qed.

(* ------------------------------------------------------------------ *)
(* the Feistel network                                                  *)
Lemma feistel_lt r k : feistel r k < 2 ^ 32.
Proof. unfold feistel. exact (perm_lt _ 32 tP). Qed.

Lemma rounds_cons k ks l r : rounds (k :: ks) l r = rounds ks r (N.lxor l (feistel r k)).
Proof. reflexivity. Qed.

Lemma rounds_app a b l r :
  rounds (a ++ b) l r = rounds b (fst (rounds a l r)) (snd (rounds a l r)).
Proof.
  revert l r. induction a as [|k a IH]; intros l r; [reflexivity|].
  rewrite <- app_comm_cons, !rounds_cons. apply IH.
Qed.

Lemma rounds_rev ks l0 r0 l r : rounds ks l0 r0 = (l, r) -> rounds (rev ks) r l = (r0, l0).
Proof.
  revert l0 r0. induction ks as [|k ks IH]; intros l0 r0 E.
  - cbn [rounds] in E. injection E as -> ->. reflexivity.
  - rewrite rounds_cons in E. apply IH in E. cbn [rev].
    rewrite rounds_app, E. cbn [fst snd]. rewrite rounds_cons. cbn [rounds].
    rewrite N.lxor_assoc, N.lxor_nilpotent, N.lxor_0_r. reflexivity.
Qed.

Lemma rounds_lt ks l0 r0 l r : l0 < 2 ^ 32 -> r0 < 2 ^ 32 -> rounds ks l0 r0 = (l, r) ->
  l < 2 ^ 32 /\ r < 2 ^ 32.
Proof.
  revert l0 r0. induction ks as [|k ks IH]; intros l0 r0 Hl Hr E.
  - cbn [rounds] in E. injection E as <- <-. auto.
  - rewrite rounds_cons in E. apply IH in E; auto.
    apply lxor_lt_pow2; [assumption | apply feistel_lt].
Qed.

Lemma des_core_unfold ks b :
  des_core ks b =
  perm (N.lor (N.shiftl (snd (rounds ks (N.shiftr (perm b 64 tIP) 32) (N.land (perm b 64 tIP) m32))) 32)
              (fst (rounds ks (N.shiftr (perm b 64 tIP) 32) (N.land (perm b 64 tIP) m32)))) 64 tFP.
Proof.
  unfold des_core. change 4294967295 with m32.
  destruct (rounds ks (N.shiftr (perm b 64 tIP) 32) (N.land (perm b 64 tIP) m32)) as [l r].
  reflexivity.
Qed.

Lemma des_core_lt ks b : des_core ks b < 2 ^ 64.
Proof. rewrite des_core_unfold. exact (perm_lt _ 64 tFP). Qed.

Lemma des_core_inv ks x : x < 2 ^ 64 -> des_core (rev ks) (des_core ks x) = x.
Proof.
  intros Hx. rewrite (des_core_unfold ks x).
  pose proof (perm_lt x 64 tIP) as Hy. change (N.of_nat (length tIP)) with 64 in Hy.
  set (y := perm x 64 tIP) in *.
  destruct (rounds ks (N.shiftr y 32) (N.land y m32)) as [l r] eqn:E. cbn [fst snd].
  destruct (rounds_lt _ _ _ _ _ (hi_lt y Hy) (lo_lt y) E) as [Hl Hr].
  rewrite des_core_unfold.
  rewrite IP_FP by (apply join_lt; assumption).
  rewrite split_join_hi, split_join_lo by assumption.
  rewrite (rounds_rev _ _ _ _ _ E). cbn [fst snd].
  rewrite join_split. subst y. apply FP_IP. assumption.
Qed.

Lemma des_core_inv' ks x : x < 2 ^ 64 -> des_core ks (des_core (rev ks) x) = x.
Proof. intros Hx. rewrite <- (rev_involutive ks) at 1. apply des_core_inv. assumption. Qed.

(* ------------------------------------------------------------------ *)
Lemma des_out_ok v : block8_ok (be_bytes 8 v).
Proof. split; [apply be_bytes_length | apply be_bytes_ok]. Qed.

Lemma be_bytes8_be_int b : block8_ok b -> be_bytes 8 (be_int b) = b.
Proof. intros [L B]. rewrite <- L. apply be_bytes_be_int. assumption. Qed.

(* no premise on the key at all: the key schedule reads the key only through [perm] *)
Theorem real_des_dec_enc k b : block8_ok b -> des_decrypt_block k (des_encrypt_block k b) = b.
Proof.
  intros Hb. unfold des_decrypt_block, des_encrypt_block.
  rewrite be_int_be_bytes by (rewrite pow256_8; apply des_core_lt).
  rewrite des_core_inv by (apply be_int_block_lt; assumption).
  apply be_bytes8_be_int. assumption.
Qed.

Theorem real_des_enc_dec k b : block8_ok b -> des_encrypt_block k (des_decrypt_block k b) = b.
Proof.
  intros Hb. unfold des_decrypt_block, des_encrypt_block.
  rewrite be_int_be_bytes by (rewrite pow256_8; apply des_core_lt).
  rewrite des_core_inv' by (apply be_int_block_lt; assumption).
  apply be_bytes8_be_int. assumption.
Qed.

Theorem real_des_ok : des_ok real_des.
Proof.
  constructor; cbn [des_enc des_dec real_des]; intros k b _ Hb.
  - apply des_out_ok.
  - apply des_out_ok.
  - apply real_des_dec_enc. assumption.
  - apply real_des_enc_dec. assumption.
Qed.

Print Assumptions real_des_ok.
