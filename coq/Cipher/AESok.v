(* The executable AES of Cipher/AES.v is a lawful cipher on every key made of
   bytes.  [cipher_ok real_aes] as such is FALSE (see [real_aes_not_ok]): the
   record's [valid_key] only constrains the key LENGTH, and a key holding a value
   >= 256 drives the S-box lookup out of its table.  Proved here:
     real_aes_ok_bytes : the four laws for keys with aes_valid_key and bytes_ok
     real_aes_b_ok     : cipher_ok of real_aes with valid_key := length && bytes
     real_aes_n_ok     : cipher_ok of real_aes run on the key reduced mod 256
                         (valid_key := aes_valid_key), equal to real_aes on byte keys *)
From Coq Require Import Lia Btauto.
From Psec Require Import Lib.Base Cipher.Cipher Cipher.AES Proofs.XorLemmas.
Open Scope N_scope.

(* ------------------------------------------------------------------ *)
(* sweeping the 256 bytes                                               *)
Definition bytes256 : list N := map N.of_nat (seq 0 256).

Lemma in_bytes256 b : b < 256 -> In b bytes256.
Proof.
  intros H. unfold bytes256. rewrite <- (N2Nat.id b). apply in_map. apply in_seq. lia.
Qed.

Lemma byte_sweep (P : N -> bool) : forallb P bytes256 = true -> forall b, b < 256 -> P b = true.
Proof. intros H b Hb. rewrite forallb_forall in H. apply H, in_bytes256, Hb. Qed.

Lemma byte_sweep2 (P : N -> N -> bool) :
  forallb (fun a => forallb (P a) bytes256) bytes256 = true ->
  forall a b, a < 256 -> b < 256 -> P a b = true.
Proof.
  intros H a b Ha Hb. apply (byte_sweep (P a)); [|exact Hb].
  apply (byte_sweep (fun a => forallb (P a) bytes256)); assumption.
Qed.

(* goal [e = tgt] where the only free byte is [a : N], [Ha : a < 256] *)
Ltac sweep_eq a Ha :=
  match goal with
  | |- ?l = ?r =>
      apply N.eqb_eq;
      match eval pattern a in (l =? r) with
      | ?f _ => refine (byte_sweep f _ a Ha); vm_compute; reflexivity
      end
  end.
Ltac sweep_lt a Ha :=
  match goal with
  | |- ?l < ?r =>
      apply N.ltb_lt;
      match eval pattern a in (l <? r) with
      | ?f _ => refine (byte_sweep f _ a Ha); vm_compute; reflexivity
      end
  end.
Ltac sweep2_eq a b Ha Hb :=
  match goal with
  | |- ?l = ?r =>
      apply N.eqb_eq;
      match eval pattern a, b in (l =? r) with
      | ?f _ _ => refine (byte_sweep2 f _ a b Ha Hb); vm_compute; reflexivity
      end
  end.

(* ------------------------------------------------------------------ *)
(* lists of n bytes                                                     *)
Definition lb (n : nat) (l : list N) : Prop := length l = n /\ bytes_ok l = true.
Notation st := (lb 16).
Notation word_ok := (lb 4).

Lemma nth_byte s i : bytes_ok s = true -> nth i s 0 < 256.
Proof.
  revert i. induction s as [|x s IH]; intros [|i] H; cbn [nth]; try lia;
    apply bytes_ok_cons in H as [Hx Hs]; auto.
Qed.

Lemma map_bytes (f : N -> N) s : (forall b, b < 256 -> f b < 256) -> bytes_ok s = true ->
  bytes_ok (map f s) = true.
Proof.
  intros Hf. induction s as [|x s IH]; intro H; [reflexivity|].
  apply bytes_ok_cons in H as [Hx Hs]. cbn [map]. apply bytes_ok_cons. auto.
Qed.

Lemma map_inv (f g : N -> N) s : (forall b, b < 256 -> g (f b) = b) -> bytes_ok s = true ->
  map g (map f s) = s.
Proof.
  intros Hf. induction s as [|x s IH]; intro H; [reflexivity|].
  apply bytes_ok_cons in H as [Hx Hs]. cbn [map]. rewrite Hf, IH by assumption. reflexivity.
Qed.

Lemma map_lb n (f : N -> N) s : (forall b, b < 256 -> f b < 256) -> lb n s -> lb n (map f s).
Proof. intros Hf [L B]. split; [rewrite map_length; exact L | apply map_bytes; assumption]. Qed.

(* ------------------------------------------------------------------ *)
(* xor_list                                                             *)
Lemma xor_list_cancel a k : (length a <= length k)%nat -> xor_list (xor_list a k) k = a.
Proof.
  revert k. induction a as [|x a IH]; intros [|y k] H; cbn [length] in H; try lia; try reflexivity.
  cbn [xor_list]. rewrite N.lxor_assoc, N.lxor_nilpotent, N.lxor_0_r. f_equal. apply IH. lia.
Qed.

Lemma xor_list_lb n a k : lb n a -> lb n k -> lb n (xor_list a k).
Proof.
  revert a k. induction n as [|n IH]; intros a k [La Ba] [Lk Bk].
  - destruct a; [|discriminate La]. split; reflexivity.
  - destruct a as [|x a]; [discriminate La|]. destruct k as [|y k]; [discriminate Lk|].
    apply bytes_ok_cons in Ba as [Hx Ba]. apply bytes_ok_cons in Bk as [Hy Bk].
    cbn [length] in La, Lk. injection La as La. injection Lk as Lk.
    destruct (IH a k (conj La Ba) (conj Lk Bk)) as [L B].
    cbn [xor_list]. split; [cbn [length]; rewrite L; reflexivity|].
    apply bytes_ok_cons. split; [apply lxor_lt; assumption | exact B].
Qed.

Lemma xor_list_cancel_lb n a k : lb n a -> lb n k -> xor_list (xor_list a k) k = a.
Proof. intros [La _] [Lk _]. apply xor_list_cancel. lia. Qed.

(* ------------------------------------------------------------------ *)
(* SubBytes                                                             *)
Lemma isub_sub b : b < 256 -> isub (sub b) = b.
Proof. intro Hb. sweep_eq b Hb. Qed.
Lemma sub_isub b : b < 256 -> sub (isub b) = b.
Proof. intro Hb. sweep_eq b Hb. Qed.
Lemma sub_lt b : b < 256 -> sub b < 256.
Proof. intro Hb. sweep_lt b Hb. Qed.
Lemma isub_lt b : b < 256 -> isub b < 256.
Proof. intro Hb. sweep_lt b Hb. Qed.

(* ------------------------------------------------------------------ *)
(* ShiftRows                                                            *)
Ltac list16 s H :=
  do 16 (destruct s as [|? s]; [exfalso; cbn [length] in H; lia|]);
  (destruct s; [|exfalso; cbn [length] in H; lia]).

Lemma isr_sr s : length s = 16%nat -> inv_shift_rows (shift_rows s) = s.
Proof. intros H. list16 s H. reflexivity. Qed.
Lemma sr_isr s : length s = 16%nat -> shift_rows (inv_shift_rows s) = s.
Proof. intros H. list16 s H. reflexivity. Qed.

Lemma pick_bytes s idx : bytes_ok s = true -> bytes_ok (pick s idx) = true.
Proof.
  intros H. unfold pick. induction idx as [|i idx IH]; [reflexivity|].
  cbn [map]. apply bytes_ok_cons. split; [apply nth_byte; exact H | exact IH].
Qed.

Lemma sr_st s : st s -> st (shift_rows s).
Proof. intros [L B]. split; [reflexivity | apply pick_bytes; exact B]. Qed.
Lemma isr_st s : st s -> st (inv_shift_rows s).
Proof. intros [L B]. split; [reflexivity | apply pick_bytes; exact B]. Qed.

(* SubBytes then ShiftRows, and back *)
Lemma srsb_st s : st s -> st (shift_rows (map sub s)).
Proof. intros H. apply sr_st, map_lb; [exact sub_lt | exact H]. Qed.
Lemma isbisr_st s : st s -> st (map isub (inv_shift_rows s)).
Proof. intros H. apply map_lb; [exact isub_lt | apply isr_st, H]. Qed.

Lemma isbisr_srsb s : st s -> map isub (inv_shift_rows (shift_rows (map sub s))) = s.
Proof.
  intros [L B]. rewrite isr_sr by (rewrite map_length; exact L).
  apply map_inv; [exact isub_sub | exact B].
Qed.
Lemma srsb_isbisr s : st s -> shift_rows (map sub (map isub (inv_shift_rows s))) = s.
Proof.
  intros [L B]. rewrite map_inv by (try exact sub_isub; apply pick_bytes; exact B).
  apply sr_isr. exact L.
Qed.

(* ------------------------------------------------------------------ *)
(* MixColumns: GF(2^8) multiplications are xor-linear on bytes            *)
Lemma mul2_lt a : a < 256 -> mul2 a < 256. Proof. intro Ha. sweep_lt a Ha. Qed.
Lemma mul3_lt a : a < 256 -> mul3 a < 256. Proof. intro Ha. sweep_lt a Ha. Qed.
Lemma mul9_lt a : a < 256 -> mul9 a < 256. Proof. intro Ha. sweep_lt a Ha. Qed.
Lemma mul11_lt a : a < 256 -> mul11 a < 256. Proof. intro Ha. sweep_lt a Ha. Qed.
Lemma mul13_lt a : a < 256 -> mul13 a < 256. Proof. intro Ha. sweep_lt a Ha. Qed.
Lemma mul14_lt a : a < 256 -> mul14 a < 256. Proof. intro Ha. sweep_lt a Ha. Qed.
Lemma xtime_lt a : a < 256 -> xtime a < 256. Proof. exact (mul2_lt a). Qed.

Definition xor_linear (f : N -> N) : Prop :=
  forall a b, a < 256 -> b < 256 -> f (N.lxor a b) = N.lxor (f a) (f b).

Lemma mul2_lin : xor_linear mul2. Proof. intros a b Ha Hb. sweep2_eq a b Ha Hb. Qed.
Lemma mul3_lin : xor_linear mul3. Proof. intros a b Ha Hb. sweep2_eq a b Ha Hb. Qed.
Lemma mul9_lin : xor_linear mul9. Proof. intros a b Ha Hb. sweep2_eq a b Ha Hb. Qed.
Lemma mul11_lin : xor_linear mul11. Proof. intros a b Ha Hb. sweep2_eq a b Ha Hb. Qed.
Lemma mul13_lin : xor_linear mul13. Proof. intros a b Ha Hb. sweep2_eq a b Ha Hb. Qed.
Lemma mul14_lin : xor_linear mul14. Proof. intros a b Ha Hb. sweep2_eq a b Ha Hb. Qed.

Lemma x4_lt a b c d : a < 256 -> b < 256 -> c < 256 -> d < 256 -> x4 a b c d < 256.
Proof. intros. unfold x4. repeat apply lxor_lt; assumption. Qed.

Lemma lin4 f p q r s : xor_linear f -> p < 256 -> q < 256 -> r < 256 -> s < 256 ->
  f (x4 p q r s) = x4 (f p) (f q) (f r) (f s).
Proof.
  intros H Hp Hq Hr Hs. unfold x4.
  rewrite !H by (try apply lxor_lt; assumption). reflexivity.
Qed.

Lemma x4_transpose a b c d e f g h i j k l m n o p :
  x4 (x4 a b c d) (x4 e f g h) (x4 i j k l) (x4 m n o p) =
  x4 (x4 a e i m) (x4 b f j n) (x4 c g k o) (x4 d h l p).
Proof. unfold x4. apply N.bits_inj; intro t. rewrite !N.lxor_spec. btauto. Qed.

#[local] Hint Resolve mul2_lt mul3_lt mul9_lt mul11_lt mul13_lt mul14_lt x4_lt : aesb.

(* one output byte of (inverse o forward) on a column: spread by linearity,
   regroup per input byte, and sweep the four one-byte functions *)
Ltac sweep_term e a Ha tgt :=
  let H := fresh "Hs" in
  assert (H : e = tgt) by sweep_eq a Ha; rewrite H; clear H.

Ltac row_tac a b c d Ha Hb Hc Hd ta tb tc td :=
  rewrite ?(lin4 mul14), ?(lin4 mul11), ?(lin4 mul13), ?(lin4 mul9), ?(lin4 mul2), ?(lin4 mul3)
    by (auto with aesb || exact mul14_lin || exact mul11_lin || exact mul13_lin ||
        exact mul9_lin || exact mul2_lin || exact mul3_lin);
  rewrite x4_transpose;
  match goal with
  | |- x4 ?e1 ?e2 ?e3 ?e4 = _ =>
      sweep_term e1 a Ha ta; sweep_term e2 b Hb tb; sweep_term e3 c Hc tc; sweep_term e4 d Hd td
  end;
  unfold x4; rewrite ?N.lxor_0_l, ?N.lxor_0_r; reflexivity.

Lemma imc_mc_col a b c d r : a < 256 -> b < 256 -> c < 256 -> d < 256 ->
  inv_mix_columns (mix_columns (a :: b :: c :: d :: r)) =
  a :: b :: c :: d :: inv_mix_columns (mix_columns r).
Proof.
  intros Ha Hb Hc Hd. cbn [mix_columns inv_mix_columns].
  f_equal; [|f_equal; [|f_equal; [|f_equal]]].
  - row_tac a b c d Ha Hb Hc Hd a 0 0 0.
  - row_tac a b c d Ha Hb Hc Hd 0 b 0 0.
  - row_tac a b c d Ha Hb Hc Hd 0 0 c 0.
  - row_tac a b c d Ha Hb Hc Hd 0 0 0 d.
Qed.

Lemma mc_imc_col a b c d r : a < 256 -> b < 256 -> c < 256 -> d < 256 ->
  mix_columns (inv_mix_columns (a :: b :: c :: d :: r)) =
  a :: b :: c :: d :: mix_columns (inv_mix_columns r).
Proof.
  intros Ha Hb Hc Hd. cbn [mix_columns inv_mix_columns].
  f_equal; [|f_equal; [|f_equal; [|f_equal]]].
  - row_tac a b c d Ha Hb Hc Hd a 0 0 0.
  - row_tac a b c d Ha Hb Hc Hd 0 b 0 0.
  - row_tac a b c d Ha Hb Hc Hd 0 0 c 0.
  - row_tac a b c d Ha Hb Hc Hd 0 0 0 d.
Qed.

Ltac bytes16 B := repeat (apply bytes_ok_cons in B as [? B]).

Lemma imc_mc s : st s -> inv_mix_columns (mix_columns s) = s.
Proof.
  intros [L B]. list16 s L. bytes16 B.
  rewrite !imc_mc_col by assumption. reflexivity.
Qed.

Lemma mc_imc s : st s -> mix_columns (inv_mix_columns s) = s.
Proof.
  intros [L B]. list16 s L. bytes16 B.
  rewrite !mc_imc_col by assumption. reflexivity.
Qed.

Lemma mc_st s : st s -> st (mix_columns s).
Proof.
  intros [L B]. list16 s L. bytes16 B. cbn [mix_columns]. split; [reflexivity|].
  repeat (apply bytes_ok_cons; split; [auto 6 with aesb|]). reflexivity.
Qed.

Lemma imc_st s : st s -> st (inv_mix_columns s).
Proof.
  intros [L B]. list16 s L. bytes16 B. cbn [inv_mix_columns]. split; [reflexivity|].
  repeat (apply bytes_ok_cons; split; [auto 6 with aesb|]). reflexivity.
Qed.

(* ------------------------------------------------------------------ *)
(* the round structure, over an arbitrary list of round keys             *)
Definition enc_mid (s rk : list N) : list N :=
  xor_list (mix_columns (shift_rows (map sub s))) rk.
Definition dec_mid (t rk : list N) : list N :=
  inv_mix_columns (xor_list (map isub (inv_shift_rows t)) rk).

Lemma enc_mid_st s rk : st s -> st rk -> st (enc_mid s rk).
Proof. intros Hs Hk. apply xor_list_lb; [apply mc_st, srsb_st, Hs | exact Hk]. Qed.
Lemma dec_mid_st t rk : st t -> st rk -> st (dec_mid t rk).
Proof. intros Ht Hk. apply imc_st, xor_list_lb; [apply isbisr_st, Ht | exact Hk]. Qed.

Lemma fold_enc_mid_st mid s : st s -> Forall st mid -> st (fold_left enc_mid mid s).
Proof.
  revert s. induction mid as [|rk mid IH]; intros s Hs F; [exact Hs|].
  inversion F; subst. cbn [fold_left]. apply IH; [apply enc_mid_st|]; assumption.
Qed.
Lemma fold_dec_mid_st m t : st t -> Forall st m -> st (fold_left dec_mid m t).
Proof.
  revert t. induction m as [|rk m IH]; intros t Ht F; [exact Ht|].
  inversion F; subst. cbn [fold_left]. apply IH; [apply dec_mid_st|]; assumption.
Qed.

Lemma enc_rounds_cons rk r s : r <> [] -> enc_rounds (rk :: r) s = enc_rounds r (enc_mid s rk).
Proof. destruct r; [congruence | reflexivity]. Qed.
Lemma dec_rounds_cons rk r t : r <> [] -> dec_rounds (rk :: r) t = dec_rounds r (dec_mid t rk).
Proof. destruct r; [congruence | reflexivity]. Qed.

Lemma snoc_nonnil {A} (l : list A) x : l ++ [x] <> [].
Proof. destruct l; discriminate. Qed.

Lemma enc_rounds_snoc mid rkN s :
  enc_rounds (mid ++ [rkN]) s = xor_list (shift_rows (map sub (fold_left enc_mid mid s))) rkN.
Proof.
  revert s. induction mid as [|rk mid IH]; intro s; [reflexivity|].
  rewrite <- app_comm_cons, enc_rounds_cons by apply snoc_nonnil. cbn [fold_left]. apply IH.
Qed.
Lemma dec_rounds_snoc m rk0 t :
  dec_rounds (m ++ [rk0]) t = xor_list (map isub (inv_shift_rows (fold_left dec_mid m t))) rk0.
Proof.
  revert t. induction m as [|rk m IH]; intro t; [reflexivity|].
  rewrite <- app_comm_cons, dec_rounds_cons by apply snoc_nonnil. cbn [fold_left]. apply IH.
Qed.

Lemma dec_undoes_mid mid s R : R <> [] -> st s -> Forall st mid ->
  dec_rounds (rev mid ++ R) (shift_rows (map sub (fold_left enc_mid mid s))) =
  dec_rounds R (shift_rows (map sub s)).
Proof.
  revert s R. induction mid as [|rk mid IH]; intros s R HR Hs F; [reflexivity|].
  inversion F as [|? ? Hk F']; subst. cbn [rev fold_left]. rewrite <- app_assoc. cbn [app].
  rewrite IH by (try discriminate; try apply enc_mid_st; assumption).
  rewrite dec_rounds_cons by exact HR. f_equal. unfold dec_mid.
  rewrite isbisr_srsb by (apply enc_mid_st; assumption).
  unfold enc_mid. rewrite (xor_list_cancel_lb 16) by (try apply mc_st, srsb_st; assumption).
  apply imc_mc, srsb_st, Hs.
Qed.

Lemma enc_undoes_mid m t R : R <> [] -> st t -> Forall st m ->
  enc_rounds (rev m ++ R) (map isub (inv_shift_rows (fold_left dec_mid m t))) =
  enc_rounds R (map isub (inv_shift_rows t)).
Proof.
  revert t R. induction m as [|rk m IH]; intros t R HR Ht F; [reflexivity|].
  inversion F as [|? ? Hk F']; subst. cbn [rev fold_left]. rewrite <- app_assoc. cbn [app].
  rewrite IH by (try discriminate; try apply dec_mid_st; assumption).
  rewrite enc_rounds_cons by exact HR. f_equal. unfold enc_mid.
  rewrite srsb_isbisr by (apply dec_mid_st; assumption).
  unfold dec_mid. rewrite mc_imc by (apply xor_list_lb; [apply isbisr_st|]; assumption).
  apply (xor_list_cancel_lb 16); [apply isbisr_st|]; assumption.
Qed.

Definition enc_rk (rks : list (list N)) (b : list N) : list N :=
  match rks with [] => b | rk0 :: r => enc_rounds r (xor_list b rk0) end.
Definition dec_rk (rks : list (list N)) (b : list N) : list N :=
  match rev rks with [] => b | rkl :: r => dec_rounds r (xor_list b rkl) end.

Lemma aes_enc_rk key b : aes_encrypt_block key b = enc_rk (round_keys key) b.
Proof. reflexivity. Qed.
Lemma aes_dec_rk key b : aes_decrypt_block key b = dec_rk (round_keys key) b.
Proof. reflexivity. Qed.

Section Rounds.
  Variables (rk0 rkN : list N) (mid : list (list N)).
  Hypotheses (H0 : st rk0) (HN : st rkN) (Hmid : Forall st mid).
  Let rks := rk0 :: mid ++ [rkN].

  Lemma enc_rk_eq b :
    enc_rk rks b = xor_list (shift_rows (map sub (fold_left enc_mid mid (xor_list b rk0)))) rkN.
  Proof. unfold enc_rk, rks. apply enc_rounds_snoc. Qed.

  Lemma dec_rk_eq c :
    dec_rk rks c =
    xor_list (map isub (inv_shift_rows (fold_left dec_mid (rev mid) (xor_list c rkN)))) rk0.
  Proof.
    unfold dec_rk, rks. cbn [rev]. rewrite rev_app_distr. cbn [rev app].
    apply dec_rounds_snoc.
  Qed.

  Lemma enc_rk_st b : st b -> st (enc_rk rks b).
  Proof.
    intros Hb. rewrite enc_rk_eq. apply xor_list_lb; [|exact HN].
    apply srsb_st, fold_enc_mid_st; [apply xor_list_lb|]; assumption.
  Qed.

  Lemma dec_rk_st c : st c -> st (dec_rk rks c).
  Proof.
    intros Hc. rewrite dec_rk_eq. apply xor_list_lb; [|exact H0].
    apply isbisr_st, fold_dec_mid_st; [apply xor_list_lb; assumption | apply Forall_rev, Hmid].
  Qed.

  Lemma dec_enc_rk b : st b -> dec_rk rks (enc_rk rks b) = b.
  Proof.
    intros Hb. rewrite enc_rk_eq.
    assert (Hs0 : st (xor_list b rk0)) by (apply xor_list_lb; assumption).
    unfold dec_rk, rks. cbn [rev]. rewrite rev_app_distr. cbn [rev app].
    rewrite (xor_list_cancel_lb 16)
      by (try exact HN; apply srsb_st, fold_enc_mid_st; assumption).
    rewrite dec_undoes_mid by (try discriminate; assumption).
    cbn [dec_rounds]. rewrite isbisr_srsb by exact Hs0.
    apply (xor_list_cancel_lb 16); assumption.
  Qed.

  Lemma enc_dec_rk c : st c -> enc_rk rks (dec_rk rks c) = c.
  Proof.
    intros Hc. rewrite dec_rk_eq.
    assert (Ht0 : st (xor_list c rkN)) by (apply xor_list_lb; assumption).
    assert (Hr : Forall st (rev mid)) by (apply Forall_rev, Hmid).
    unfold enc_rk, rks.
    rewrite (xor_list_cancel_lb 16)
      by (try exact H0; apply isbisr_st, fold_dec_mid_st; assumption).
    rewrite <- (rev_involutive mid) at 1.
    rewrite enc_undoes_mid by (try discriminate; assumption).
    cbn [enc_rounds]. rewrite srsb_isbisr by exact Ht0.
    apply (xor_list_cancel_lb 16); assumption.
  Qed.
End Rounds.

(* ------------------------------------------------------------------ *)
(* key expansion: nk+7 round keys of 16 bytes, for a key of 4*nk bytes    *)
Lemma lb_app n m a b : lb n a -> lb m b -> lb (n + m) (a ++ b).
Proof.
  intros [La Ba] [Lb Bb]. split; [rewrite app_length; lia | apply bytes_ok_app; auto].
Qed.

Lemma split4_ok n l : length l = (4 * n)%nat -> bytes_ok l = true ->
  Forall word_ok (split4 n l) /\ length (split4 n l) = n.
Proof.
  revert l. induction n as [|n IH]; intros l L B; cbn [split4]; [split; [constructor | reflexivity]|].
  destruct (IH (skipn 4 l)) as [F Ln].
  - rewrite skipn_length. lia.
  - apply bytes_ok_skipn, B.
  - split; [|cbn [length]; rewrite Ln; reflexivity].
    constructor; [|exact F]. split; [rewrite firstn_length; lia | apply bytes_ok_firstn, B].
Qed.

Lemma rot_word_ok w : word_ok w -> word_ok (rot_word w).
Proof.
  intros [L B]. destruct w as [|a w]; [discriminate L|]. cbn [rot_word].
  apply bytes_ok_cons in B as [Ha Bw]. split.
  - rewrite app_length. cbn [length] in *. lia.
  - apply bytes_ok_app. split; [exact Bw | apply bytes_ok_cons; split; [exact Ha | reflexivity]].
Qed.

Lemma rcon_word_ok rcon : rcon < 256 -> word_ok [rcon; 0; 0; 0].
Proof.
  intros H. split; [reflexivity|].
  apply bytes_ok_cons; split; [exact H | reflexivity].
Qed.

Lemma expand_ok fuel nk i rcon acc : (1 <= nk)%nat -> (nk <= length acc)%nat -> rcon < 256 ->
  Forall word_ok acc ->
  Forall word_ok (expand fuel nk i rcon acc) /\
  length (expand fuel nk i rcon acc) = (fuel + length acc)%nat.
Proof.
  revert i rcon acc. induction fuel as [|f IH]; intros i rcon acc Hnk Hacc Hr F.
  - split; [exact F | reflexivity].
  - assert (Hprev : word_ok (nth 0 acc [])) by (apply Forall_nth; [exact F | lia]).
    assert (Hback : word_ok (nth (nk - 1) acc [])) by (apply Forall_nth; [exact F | lia]).
    cbn [expand]. cbv zeta.
    assert (G : forall t rcon', word_ok t -> rcon' < 256 ->
              Forall word_ok (expand f nk (S i) rcon' (xor_list (nth (nk - 1) acc []) t :: acc)) /\
              length (expand f nk (S i) rcon' (xor_list (nth (nk - 1) acc []) t :: acc)) =
              (S f + length acc)%nat).
    { intros t rcon' Ht Hr'.
      destruct (IH (S i) rcon' (xor_list (nth (nk - 1) acc []) t :: acc)) as [F' L'];
        [exact Hnk | cbn [length]; lia | exact Hr' | | ].
      - constructor; [apply xor_list_lb; assumption | exact F].
      - split; [exact F' | rewrite L'; cbn [length]; lia]. }
    destruct (i mod nk =? 0)%nat.
    + apply G; [|apply xtime_lt, Hr].
      apply xor_list_lb; [|apply rcon_word_ok, Hr].
      apply map_lb; [exact sub_lt | apply rot_word_ok, Hprev].
    + destruct ((6 <? nk) && (i mod nk =? 4))%nat.
      * apply G; [|exact Hr]. apply map_lb; [exact sub_lt | exact Hprev].
      * apply G; assumption.
Qed.

Lemma group4_ok n ws : length ws = (4 * n)%nat -> Forall word_ok ws ->
  Forall st (group4 n ws) /\ length (group4 n ws) = n.
Proof.
  revert ws. induction n as [|n IH]; intros ws L F; cbn [group4]; [split; [constructor | reflexivity]|].
  do 4 (destruct ws as [|? ws]; [exfalso; cbn [length] in L; lia|]).
  inversion F as [|? ? W1 F1]; subst. inversion F1 as [|? ? W2 F2]; subst.
  inversion F2 as [|? ? W3 F3]; subst. inversion F3 as [|? ? W4 F4]; subst.
  cbn [firstn skipn concat].
  destruct (IH ws) as [F' L']; [cbn [length] in L; lia | exact F4 |].
  split; [|cbn [length]; rewrite L'; reflexivity].
  constructor; [|exact F'].
  apply (lb_app 4 12); [exact W1|]. apply (lb_app 4 8); [exact W2|].
  apply (lb_app 4 4); [exact W3|]. rewrite app_nil_r. exact W4.
Qed.

Lemma round_keys_ok key nk : (1 <= nk)%nat -> length key = (4 * nk)%nat -> bytes_ok key = true ->
  Forall st (round_keys key) /\ length (round_keys key) = (nk + 6 + 1)%nat.
Proof.
  intros Hnk L B. unfold round_keys.
  assert (E : (length key / 4)%nat = nk) by (rewrite L, Nat.mul_comm; apply Nat.div_mul; lia).
  rewrite E. cbv zeta.
  destruct (split4_ok nk key L B) as [F Ln].
  destruct (expand_ok (4 * (nk + 6 + 1) - nk) nk nk 1 (rev (split4 nk key))) as [F2 L2];
    [exact Hnk | rewrite rev_length; lia | lia | apply Forall_rev, F |].
  apply group4_ok; [|apply Forall_rev, F2].
  rewrite rev_length, L2, rev_length, Ln. lia.
Qed.

Lemma list_ends {A} (l : list A) : (2 <= length l)%nat -> exists a m z, l = a :: m ++ [z].
Proof.
  destruct l as [|a l]; cbn [length]; [lia|]. intros H.
  destruct (@exists_last A l) as (m & z & ->); [destruct l; [cbn [length] in H; lia | discriminate]|].
  exists a, m, z. reflexivity.
Qed.

Lemma aes_valid_key_cases k : aes_valid_key k = true ->
  length k = 16%nat \/ length k = 24%nat \/ length k = 32%nat.
Proof.
  unfold aes_valid_key, mem_nat. cbn [existsb]. rewrite !orb_true_iff, !Nat.eqb_eq. lia.
Qed.

Lemma round_keys_shape key : aes_valid_key key = true -> bytes_ok key = true ->
  exists rk0 mid rkN, round_keys key = rk0 :: mid ++ [rkN] /\ st rk0 /\ Forall st mid /\ st rkN.
Proof.
  intros V B. apply aes_valid_key_cases in V.
  assert (exists nk, (1 <= nk)%nat /\ length key = (4 * nk)%nat) as (nk & Hnk & L).
  { destruct V as [V|[V|V]]; [exists 4%nat | exists 6%nat | exists 8%nat]; rewrite V; split; (lia || reflexivity). }
  destruct (round_keys_ok key nk Hnk L B) as [F Ln].
  destruct (list_ends (round_keys key)) as (rk0 & mid & rkN & E); [lia|].
  rewrite E in F. exists rk0, mid, rkN. split; [exact E|].
  inversion F as [|? ? H0 F']; subst. apply Forall_app in F' as [Fm Fz].
  inversion Fz; subst. auto.
Qed.

(* ------------------------------------------------------------------ *)
(* the laws, for keys made of bytes                                      *)
Theorem real_aes_ok_bytes k : aes_valid_key k = true -> bytes_ok k = true ->
  forall b, block_ok real_aes b ->
    block_ok real_aes (enc real_aes k b) /\ block_ok real_aes (dec real_aes k b) /\
    dec real_aes k (enc real_aes k b) = b /\ enc real_aes k (dec real_aes k b) = b.
Proof.
  intros V B b Hb. change (st b) in Hb. unfold block_ok. cbn [bs enc dec real_aes].
  rewrite !aes_enc_rk, !aes_dec_rk.
  destruct (round_keys_shape k V B) as (rk0 & mid & rkN & -> & H0 & Hm & HN).
  repeat split.
  - apply (enc_rk_st rk0 rkN mid); assumption.
  - apply (enc_rk_st rk0 rkN mid); assumption.
  - apply (dec_rk_st rk0 rkN mid); assumption.
  - apply (dec_rk_st rk0 rkN mid); assumption.
  - apply dec_enc_rk; assumption.
  - apply enc_dec_rk; assumption.
Qed.

(* 1. the very functions of [real_aes]; keys restricted to byte strings *)
Definition aes_valid_key_bytes (k : list N) : bool := aes_valid_key k && bytes_ok k.

Definition real_aes_b : cipher := {|
  bs := 16; valid_key := aes_valid_key_bytes;
  enc := aes_encrypt_block; dec := aes_decrypt_block |}.

Theorem real_aes_b_ok : cipher_ok real_aes_b.
Proof.
  constructor; cbn [bs valid_key enc dec real_aes_b]; [lia | | | |];
    intros k b V Hb; apply andb_true_iff in V as [V B];
    destruct (real_aes_ok_bytes k V B b Hb) as (P1 & P2 & P3 & P4); assumption.
Qed.

(* 2. same key-length test as [real_aes]; the key is reduced to bytes first.
      On every key made of bytes this IS real_aes. *)
Definition norm_key (k : list N) : list N := map (fun x => x mod 256) k.

Definition real_aes_n : cipher := {|
  bs := 16; valid_key := aes_valid_key;
  enc := fun k b => aes_encrypt_block (norm_key k) b;
  dec := fun k b => aes_decrypt_block (norm_key k) b |}.

Lemma norm_key_bytes k : bytes_ok (norm_key k) = true.
Proof.
  unfold norm_key. induction k as [|x k IH]; [reflexivity|]. cbn [map].
  apply bytes_ok_cons. split; [apply N.mod_lt; discriminate | exact IH].
Qed.

Lemma norm_key_id k : bytes_ok k = true -> norm_key k = k.
Proof.
  unfold norm_key. induction k as [|x k IH]; intro B; [reflexivity|].
  apply bytes_ok_cons in B as [Hx B]. cbn [map]. rewrite N.mod_small, IH by assumption. reflexivity.
Qed.

Lemma norm_key_valid k : aes_valid_key (norm_key k) = aes_valid_key k.
Proof. unfold aes_valid_key, norm_key. rewrite map_length. reflexivity. Qed.

Theorem real_aes_n_ok : cipher_ok real_aes_n.
Proof.
  constructor; cbn [bs valid_key enc dec real_aes_n]; [lia | | | |];
    intros k b V Hb; rewrite <- norm_key_valid in V;
    destruct (real_aes_ok_bytes (norm_key k) V (norm_key_bytes k) b Hb) as (P1 & P2 & P3 & P4);
    assumption.
Qed.

Theorem real_aes_n_agrees k : bytes_ok k = true ->
  valid_key real_aes_n k = valid_key real_aes k /\
  enc real_aes_n k = enc real_aes k /\ dec real_aes_n k = dec real_aes k.
Proof.
  intros B. cbn [valid_key enc dec real_aes_n real_aes]. rewrite norm_key_id by exact B. auto.
Qed.

Theorem real_aes_b_agrees k :
  enc real_aes_b k = enc real_aes k /\ dec real_aes_b k = dec real_aes k /\
  (bytes_ok k = true -> valid_key real_aes_b k = valid_key real_aes k).
Proof.
  cbn [valid_key enc dec real_aes_b real_aes]. unfold aes_valid_key_bytes.
  repeat split. intros ->. apply andb_true_r.
Qed.

(* ------------------------------------------------------------------ *)
(* [cipher_ok real_aes] itself is false: a 16-element key holding 256      *)
(* full statement refuted:  Theorem real_aes_ok : cipher_ok real_aes.      *)
Definition bad_key : list N := 256 :: repeat 0 15.
Definition bad_block : list N := 1 :: repeat 0 15.

Theorem real_aes_ok_refuted : exists k b,
  valid_key real_aes k = true /\ block_ok real_aes b /\ dec real_aes k (enc real_aes k b) <> b.
Proof.
  exists bad_key, bad_block. split; [reflexivity|]. split; [split; reflexivity|].
  vm_compute. discriminate.
Qed.

Theorem real_aes_not_ok : ~ cipher_ok real_aes.
Proof.
  intros [_ _ _ DE _]. destruct real_aes_ok_refuted as (k & b & V & Hb & Hne).
  apply Hne, DE; assumption.
Qed.

(* premises of the positive theorems are satisfiable *)
Example real_aes_b_key : valid_key real_aes_b (repeat 7 16) = true.
Proof. reflexivity. Qed.
Example real_aes_example :
  enc real_aes (map N.of_nat (seq 0 16))
      [0; 17; 34; 51; 68; 85; 102; 119; 136; 153; 170; 187; 204; 221; 238; 255] =
  [105; 196; 224; 216; 106; 123; 4; 48; 216; 205; 183; 128; 112; 180; 197; 90].
Proof. vm_compute. reflexivity. Qed.

Print Assumptions real_aes_ok_bytes.
Print Assumptions real_aes_b_ok.
Print Assumptions real_aes_n_ok.
Print Assumptions real_aes_not_ok.
