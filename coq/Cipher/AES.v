(* Executable AES (FIPS 197) over byte lists, used only to RUN the model.
   Theorems quantify over every cipher satisfying [cipher_ok]; this instance is
   compared with OpenSSL on every check run. *)
From Psec Require Import Lib.Base Cipher.Cipher.
Open Scope N_scope.

Definition sbox_t : list N := [99; 124; 119; 123; 242; 107; 111; 197; 48; 1; 103; 43; 254; 215; 171; 118; 202; 130; 201; 125; 250; 89; 71; 240; 173; 212; 162; 175; 156; 164; 114; 192; 183; 253; 147; 38; 54; 63; 247; 204; 52; 165; 229; 241; 113; 216; 49; 21; 4; 199; 35; 195; 24; 150; 5; 154; 7; 18; 128; 226; 235; 39; 178; 117; 9; 131; 44; 26; 27; 110; 90; 160; 82; 59; 214; 179; 41; 227; 47; 132; 83; 209; 0; 237; 32; 252; 177; 91; 106; 203; 190; 57; 74; 76; 88; 207; 208; 239; 170; 251; 67; 77; 51; 133; 69; 249; 2; 127; 80; 60; 159; 168; 81; 163; 64; 143; 146; 157; 56; 245; 188; 182; 218; 33; 16; 255; 243; 210; 205; 12; 19; 236; 95; 151; 68; 23; 196; 167; 126; 61; 100; 93; 25; 115; 96; 129; 79; 220; 34; 42; 144; 136; 70; 238; 184; 20; 222; 94; 11; 219; 224; 50; 58; 10; 73; 6; 36; 92; 194; 211; 172; 98; 145; 149; 228; 121; 231; 200; 55; 109; 141; 213; 78; 169; 108; 86; 244; 234; 101; 122; 174; 8; 186; 120; 37; 46; 28; 166; 180; 198; 232; 221; 116; 31; 75; 189; 139; 138; 112; 62; 181; 102; 72; 3; 246; 14; 97; 53; 87; 185; 134; 193; 29; 158; 225; 248; 152; 17; 105; 217; 142; 148; 155; 30; 135; 233; 206; 85; 40; 223; 140; 161; 137; 13; 191; 230; 66; 104; 65; 153; 45; 15; 176; 84; 187; 22].
Definition isbox_t : list N := [82; 9; 106; 213; 48; 54; 165; 56; 191; 64; 163; 158; 129; 243; 215; 251; 124; 227; 57; 130; 155; 47; 255; 135; 52; 142; 67; 68; 196; 222; 233; 203; 84; 123; 148; 50; 166; 194; 35; 61; 238; 76; 149; 11; 66; 250; 195; 78; 8; 46; 161; 102; 40; 217; 36; 178; 118; 91; 162; 73; 109; 139; 209; 37; 114; 248; 246; 100; 134; 104; 152; 22; 212; 164; 92; 204; 93; 101; 182; 146; 108; 112; 72; 80; 253; 237; 185; 218; 94; 21; 70; 87; 167; 141; 157; 132; 144; 216; 171; 0; 140; 188; 211; 10; 247; 228; 88; 5; 184; 179; 69; 6; 208; 44; 30; 143; 202; 63; 15; 2; 193; 175; 189; 3; 1; 19; 138; 107; 58; 145; 17; 65; 79; 103; 220; 234; 151; 242; 207; 206; 240; 180; 230; 115; 150; 172; 116; 34; 231; 173; 53; 133; 226; 249; 55; 232; 28; 117; 223; 110; 71; 241; 26; 113; 29; 41; 197; 137; 111; 183; 98; 14; 170; 24; 190; 27; 252; 86; 62; 75; 198; 210; 121; 32; 154; 219; 192; 254; 120; 205; 90; 244; 31; 221; 168; 51; 136; 7; 199; 49; 177; 18; 16; 89; 39; 128; 236; 95; 96; 81; 127; 169; 25; 181; 74; 13; 45; 229; 122; 159; 147; 201; 156; 239; 160; 224; 59; 77; 174; 42; 245; 176; 200; 235; 187; 60; 131; 83; 153; 97; 23; 43; 4; 126; 186; 119; 214; 38; 225; 105; 20; 99; 85; 33; 12; 125].
Definition sub (b : N) : N := nth (N.to_nat b) sbox_t 0.
Definition isub (b : N) : N := nth (N.to_nat b) isbox_t 0.

Definition xtime (a : N) : N :=
  let d := 2 * a in if d <? 256 then d else N.lxor (d - 256) 27.
Definition mul2 := xtime.
Definition mul3 a := N.lxor (xtime a) a.
Definition mul4 a := xtime (xtime a).
Definition mul8 a := xtime (mul4 a).
Definition mul9 a := N.lxor (mul8 a) a.
Definition mul11 a := N.lxor (N.lxor (mul8 a) (xtime a)) a.
Definition mul13 a := N.lxor (N.lxor (mul8 a) (mul4 a)) a.
Definition mul14 a := N.lxor (N.lxor (mul8 a) (mul4 a)) (xtime a).

Definition x4 a b c d := N.lxor (N.lxor a b) (N.lxor c d).

Fixpoint mix_columns (s : list N) : list N :=
  match s with
  | a :: b :: c :: d :: r =>
      x4 (mul2 a) (mul3 b) c d :: x4 a (mul2 b) (mul3 c) d ::
      x4 a b (mul2 c) (mul3 d) :: x4 (mul3 a) b c (mul2 d) :: mix_columns r
  | _ => []
  end.
Fixpoint inv_mix_columns (s : list N) : list N :=
  match s with
  | a :: b :: c :: d :: r =>
      x4 (mul14 a) (mul11 b) (mul13 c) (mul9 d) :: x4 (mul9 a) (mul14 b) (mul11 c) (mul13 d) ::
      x4 (mul13 a) (mul9 b) (mul14 c) (mul11 d) :: x4 (mul11 a) (mul13 b) (mul9 c) (mul14 d) ::
      inv_mix_columns r
  | _ => []
  end.

Definition pick (s : list N) (idx : list nat) : list N := map (fun i => nth i s 0) idx.
Definition shift_rows (s : list N) : list N :=
  pick s [0; 5; 10; 15; 4; 9; 14; 3; 8; 13; 2; 7; 12; 1; 6; 11]%nat.
Definition inv_shift_rows (s : list N) : list N :=
  pick s [0; 13; 10; 7; 4; 1; 14; 11; 8; 5; 2; 15; 12; 9; 6; 3]%nat.

Fixpoint xor_list (a b : list N) : list N :=
  match a, b with
  | x :: a', y :: b' => N.lxor x y :: xor_list a' b'
  | _, _ => []
  end.

(* key expansion: words are 4-byte lists, newest word first in [acc] *)
Definition rot_word (w : list N) : list N :=
  match w with a :: r => r ++ [a] | [] => [] end.
Fixpoint split4 (n : nat) (l : list N) : list (list N) :=
  match n with O => [] | S n' => firstn 4 l :: split4 n' (skipn 4 l) end.

Fixpoint expand (fuel : nat) (nk : nat) (i : nat) (rcon : N) (acc : list (list N)) : list (list N) :=
  match fuel with
  | O => acc
  | S f =>
      let prev := nth 0 acc [] in
      let back := nth (nk - 1) acc [] in
      let '(t, rcon') :=
        if (i mod nk =? 0)%nat then
          (xor_list (map sub (rot_word prev)) [rcon; 0; 0; 0], xtime rcon)
        else if ((6 <? nk) && (i mod nk =? 4))%nat then (map sub prev, rcon)
        else (prev, rcon) in
      expand f nk (S i) rcon' (xor_list back t :: acc)
  end.

(* round keys, first round first, each 16 bytes *)
Fixpoint group4 (n : nat) (ws : list (list N)) : list (list N) :=
  match n with
  | O => []
  | S n' => concat (firstn 4 ws) :: group4 n' (skipn 4 ws)
  end.
Definition round_keys (key : list N) : list (list N) :=
  let nk := (length key / 4)%nat in
  let nr := (nk + 6)%nat in
  let total := (4 * (nr + 1))%nat in
  let ws := rev (expand (total - nk) nk nk 1 (rev (split4 nk key))) in
  group4 (nr + 1) ws.

Fixpoint enc_rounds (rks : list (list N)) (s : list N) : list N :=
  match rks with
  | [] => s
  | [rk] => xor_list (shift_rows (map sub s)) rk
  | rk :: r => enc_rounds r (xor_list (mix_columns (shift_rows (map sub s))) rk)
  end.
Definition aes_encrypt_block (key b : list N) : list N :=
  match round_keys key with
  | [] => b
  | rk0 :: r => enc_rounds r (xor_list b rk0)
  end.

(* decryption: straightforward inverse cipher, round keys taken in reverse *)
Fixpoint dec_rounds (rks : list (list N)) (s : list N) : list N :=
  match rks with
  | [] => s
  | [rk0] => xor_list (map isub (inv_shift_rows s)) rk0
  | rk :: r => dec_rounds r (inv_mix_columns (xor_list (map isub (inv_shift_rows s)) rk))
  end.
Definition aes_decrypt_block (key b : list N) : list N :=
  match rev (round_keys key) with
  | [] => b
  | rkl :: r => dec_rounds r (xor_list b rkl)
  end.

Definition real_aes : cipher := {|
  bs := 16; valid_key := aes_valid_key;
  enc := aes_encrypt_block; dec := aes_decrypt_block |}.
