(* Base library of the psec model: Python values and the Python primitives the
   library calls, each with its real domain (outside it: a Crash result).
   bytes and str are both [list N] (byte values / Unicode code points).
   This file contains definitions only; lemmas live under Proofs/. *)
From Coq Require Export NArith ZArith List Bool.
Export ListNotations.
Open Scope N_scope.

(* ------------------------------------------------------------------ *)
(* Exceptions as values                                                 *)
Inductive crash := CUnicodeEncode | COverflow | CIndex | CKey | CZeroDiv | CValue | CType.
Inductive err := ValueError | HeaderError | KeyBlockError | Crash (k : crash).
Inductive res (A : Type) := Ok (a : A) | Err (e : err).
Arguments Ok {A} a.
Arguments Err {A} e.

Definition bind {A B} (m : res A) (f : A -> res B) : res B :=
  match m with Ok a => f a | Err e => Err e end.
Notation "'do' x <- m ; f" := (bind m (fun x => f))
  (at level 200, x pattern, m at level 100, f at level 200, right associativity).

Definition is_ok {A} (r : res A) : bool := match r with Ok _ => true | Err _ => false end.
(* an exception that is neither a psec error nor ValueError *)
Definition is_crash {A} (r : res A) : bool :=
  match r with Err (Crash _) => true | _ => false end.
(* the module's own errors (TR-31) *)
Definition is_psec_err {A} (r : res A) : bool :=
  match r with Err HeaderError | Err KeyBlockError => true | _ => false end.

Definition bytes := list N.
Definition str := list N.

(* ------------------------------------------------------------------ *)
(* bytes                                                                *)
Definition byte_ok (b : N) : bool := b <? 256.
Definition bytes_ok (l : list N) : bool := forallb byte_ok l.

Definition lenN {A} (l : list A) : N := N.of_nat (length l).

(* int.from_bytes(b, "little") / int.to_bytes(n, "little") *)
Fixpoint le_int (l : list N) : N :=
  match l with [] => 0 | b :: r => b + 256 * le_int r end.
Fixpoint le_bytes (n : nat) (v : N) : list N :=
  match n with O => [] | S n' => (v mod 256) :: le_bytes n' (v / 256) end.
(* big endian *)
Definition be_int (l : list N) : N := le_int (rev l).
Definition be_bytes (n : nat) (v : N) : list N := rev (le_bytes n v).
(* n.to_bytes(k, "big"): OverflowError when it does not fit *)
Definition to_bytes_be (k : nat) (v : N) : res (list N) :=
  if v <? 256 ^ (N.of_nat k) then Ok (be_bytes k v) else Err (Crash COverflow).

(* s[-k:]  and  s[:-k]  (k > 0 in every use) with CPython clamping *)
Definition last_n {A} (k : nat) (s : list A) : list A := skipn (length s - k)%nat s.
Definition drop_last {A} (k : nat) (s : list A) : list A := firstn (length s - k)%nat s.
(* s[a:a+n] *)
Definition slice {A} (a n : nat) (s : list A) : list A := firstn n (skipn a s).

(* psec.tools.xor, as written: through host-order (little endian) integers *)
Definition py_xor (data key : list N) : list N :=
  let key := firstn (length data) key in
  le_bytes (length data) (N.lxor (le_int data) (le_int key)).

(* ------------------------------------------------------------------ *)
(* ASCII classes (psec.tools.ascii_X helpers): every code point in the set      *)
Definition is_digit (c : N) : bool := (48 <=? c) && (c <=? 57).
Definition is_upper (c : N) : bool := (65 <=? c) && (c <=? 90).
Definition is_lower (c : N) : bool := (97 <=? c) && (c <=? 122).
Definition is_alnum (c : N) : bool := is_digit c || is_upper c || is_lower c.
Definition is_print (c : N) : bool := (32 <=? c) && (c <=? 126).
Definition is_hexch (c : N) : bool :=
  is_digit c || ((65 <=? c) && (c <=? 70)) || ((97 <=? c) && (c <=? 102)).
Definition ascii_numeric (s : str) : bool := forallb is_digit s.
Definition ascii_alphanumeric (s : str) : bool := forallb is_alnum s.
Definition ascii_printable (s : str) : bool := forallb is_print s.
Definition ascii_hexchar (s : str) : bool := forallb is_hexch s.

(* s.encode("ascii") *)
Definition encode_ascii (s : str) : res bytes :=
  if forallb (fun c => c <? 128) s then Ok s else Err (Crash CUnicodeEncode).

(* str.upper() restricted to ASCII letters (all uses are behind ASCII guards,
   except the pad-block id test which has its own definition below) *)
Definition up_char (c : N) : N := if is_lower c then c - 32 else c.
Definition ascii_upper (s : str) : str := map up_char s.

(* ------------------------------------------------------------------ *)
(* hex and decimal text                                                 *)
Definition hexdigit_lower (n : N) : N := if n <? 10 then 48 + n else 87 + n.
Definition hexdigit_upper (n : N) : N := if n <? 10 then 48 + n else 55 + n.
(* bytes.hex()  and  bytes.hex().upper() *)
Definition hex_lower (b : bytes) : str :=
  flat_map (fun x => [hexdigit_lower (x / 16); hexdigit_lower (x mod 16)]) b.
Definition hex_upper (b : bytes) : str :=
  flat_map (fun x => [hexdigit_upper (x / 16); hexdigit_upper (x mod 16)]) b.

Definition unhex_digit (c : N) : option N :=
  if is_digit c then Some (c - 48)
  else if (65 <=? c) && (c <=? 70) then Some (c - 55)
  else if (97 <=? c) && (c <=? 102) then Some (c - 87)
  else None.

(* binascii.a2b_hex: strict pairs; binascii.Error otherwise *)
Fixpoint a2b_hex (s : str) : res bytes :=
  match s with
  | [] => Ok []
  | c :: d :: r =>
      match unhex_digit c, unhex_digit d with
      | Some h, Some l => do t <- a2b_hex r; Ok (16 * h + l :: t)
      | _, _ => Err (Crash CValue)
      end
  | _ => Err (Crash CValue)
  end.

(* bytes.fromhex: ASCII white space may precede every pair; ValueError otherwise *)
Definition is_space (c : N) : bool :=
  (c =? 32) || ((9 <=? c) && (c <=? 13)).
Fixpoint bytes_fromhex (s : str) : res bytes :=
  match s with
  | [] => Ok []
  | c :: r =>
      if is_space c then bytes_fromhex r
      else match r with
           | d :: r' =>
               match unhex_digit c, unhex_digit d with
               | Some h, Some l => do t <- bytes_fromhex r'; Ok (16 * h + l :: t)
               | _, _ => Err ValueError
               end
           | [] => Err ValueError
           end
  end.

(* int(s) for the only arguments psec passes (ASCII digits, non-empty) *)
Definition dec_value (s : str) : N := fold_left (fun acc c => 10 * acc + (c - 48)) s 0.
Definition int_of_dec (s : str) : res N :=
  match s with
  | [] => Err (Crash CValue)
  | _ => if ascii_numeric s then Ok (dec_value s) else Err (Crash CValue)
  end.
(* int(s, 16) *)
Definition hex_value (s : str) : N :=
  fold_left (fun acc c => 16 * acc + match unhex_digit c with Some v => v | None => 0 end) s 0.
Definition int_of_hex (s : str) : res N :=
  match s with
  | [] => Err (Crash CValue)
  | _ => if ascii_hexchar s then Ok (hex_value s) else Err (Crash CValue)
  end.

(* str(n) for n >= 0: decimal digits, most significant first.
   Fuel = number of binary digits + 1 is always enough. *)
Fixpoint dec_digits_aux (fuel : nat) (n : N) (acc : str) : str :=
  match fuel with
  | O => acc
  | S f => let acc' := (48 + n mod 10) :: acc in
           if n <? 10 then acc' else dec_digits_aux f (n / 10) acc'
  end.
Definition str_of_N (n : N) : str := dec_digits_aux (S (N.to_nat (N.size n))) n [].

Definition ljust (k : nat) (c : N) (s : str) : str := s ++ repeat c (k - length s)%nat.
Definition rjust (k : nat) (c : N) (s : str) : str := repeat c (k - length s)%nat ++ s.
Definition zfill (k : nat) (s : str) : str := rjust k 48 s.

(* s[i]  (IndexError outside) *)
Definition index {A} (s : list A) (i : nat) : res A :=
  match nth_error s i with Some x => Ok x | None => Err (Crash CIndex) end.

(* list equality on N *)
Fixpoint list_eqb (a b : list N) : bool :=
  match a, b with
  | [], [] => true
  | x :: a', y :: b' => (x =? y) && list_eqb a' b'
  | _, _ => false
  end.

Definition mem_nat (n : nat) (l : list nat) : bool := existsb (Nat.eqb n) l.
