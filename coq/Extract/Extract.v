(* Extraction of the executable model, the cipher parameters instantiated by
   the Gallina DES / AES.  Only ExtrOcamlBasic's directives are in force; N,
   positive, nat and Z stay Coq inductives. *)
From Psec Require Import Lib.Base Cipher.Cipher Cipher.DES Cipher.AES Cipher.AESok
  Model.Tools Model.Mac Model.Cvv Model.Pin Model.Pinblock Model.Tr31 Model.Entropy Model.BlocksApi.
Require Extraction.
Require ExtrOcamlBasic.

Definition x_des_block_enc := des_encrypt_block.
Definition x_des_block_dec := des_decrypt_block.
Definition x_aes_block_enc := aes_encrypt_block.
Definition x_aes_block_dec := aes_decrypt_block.

Definition x_xor := py_xor.
Definition x_odd_parity := odd_parity.
Definition x_apply_key_variant := apply_key_variant.
Definition x_adjust_key_parity := adjust_key_parity.
Definition x_generate_kcv := generate_kcv real_tdes.
Definition x_encrypt_tdes_cbc := encrypt_cbc real_tdes.
Definition x_encrypt_tdes_ecb := encrypt_ecb real_tdes.
Definition x_decrypt_tdes_cbc := decrypt_cbc real_tdes.
Definition x_decrypt_tdes_ecb := decrypt_ecb real_tdes.
Definition x_encrypt_aes_cbc := encrypt_cbc real_aes_n.
Definition x_encrypt_aes_ecb := encrypt_ecb real_aes_n.
Definition x_decrypt_aes_cbc := decrypt_cbc real_aes_n.
Definition x_decrypt_aes_ecb := decrypt_ecb real_aes_n.
Definition x_pad_iso_1 := pad_iso_1.
Definition x_pad_iso_2 := pad_iso_2.
Definition x_pad_iso_3 := pad_iso_3.
Definition x_generate_cbc_mac := generate_cbc_mac real_tdes real_aes_n.
Definition x_generate_retail_mac := generate_retail_mac real_tdes.
Definition x_generate_cvv := generate_cvv real_tdes.
Definition x_generate_cvv_legacy := generate_cvv_legacy real_tdes.
Definition x_generate_ibm3624_pin := generate_ibm3624_pin real_tdes.
Definition x_generate_ibm3624_offset := generate_ibm3624_offset real_tdes.
Definition x_generate_visa_pvv := generate_visa_pvv real_tdes.
Definition x_encode_pinblock_iso_0 := encode_pinblock_iso_0.
Definition x_encode_pinblock_iso_2 := encode_pinblock_iso_2.
Definition x_encode_pinblock_iso_3 := encode_pinblock_iso_3.
Definition x_encode_pin_field_iso_4 := encode_pin_field_iso_4.
Definition x_encode_pan_field_iso_4 := encode_pan_field_iso_4.
Definition x_encipher_pinblock_iso_4 := encipher_pinblock_iso_4 real_aes_n.
Definition x_decode_pinblock_iso_0 := decode_pinblock_iso_0.
Definition x_decode_pinblock_iso_2 := decode_pinblock_iso_2.
Definition x_decode_pinblock_iso_3 := decode_pinblock_iso_3.
Definition x_decode_pin_field_iso_4 := decode_pin_field_iso_4.
Definition x_decipher_pinblock_iso_4 := decipher_pinblock_iso_4 real_aes_n.
Definition x_decrypt_aes_ecb_raw := decrypt_ecb real_aes_n.

Definition x_new_header := new_header.
Definition x_default_header := default_header.
Definition x_run := run real_tdes real_aes_n.
Definition x_step := step real_tdes real_aes_n.
Definition x_mkState := mkState.
Definition x_unwrap := unwrap real_tdes real_aes_n.
Definition x_unwrap_legacy := unwrap_legacy real_tdes real_aes_n.
Definition x_unwrap_clear := kb_unwrap_clear real_tdes real_aes_n.
Definition x_wrap_str := wrap_str real_tdes real_aes_n.
Definition x_header_str := header_str.

(* Python primitives, exposed for the conformance test against CPython *)
Definition p_fromhex := bytes_fromhex.
Definition p_a2b := a2b_hex.
Definition p_str_of_N := str_of_N.
Definition p_to_bytes_be := to_bytes_be.
Definition p_hex_lower := hex_lower.
Definition p_hex_upper := hex_upper.
Definition p_class (s : str) : list N :=
  map (fun b : bool => if b then 1%N else 0%N)
      [ascii_numeric s; ascii_alphanumeric s; ascii_printable s; ascii_hexchar s; is_pad_id s].
Definition p_upper := ascii_upper.
Definition p_int_of_dec := int_of_dec.
Definition p_int_of_hex := int_of_hex.
Definition p_encode_ascii := encode_ascii.
Definition x_choices10 := choices10.
Definition x_draw := draw.
Definition x_api_run := api_run.

Extraction "model.ml"
  x_des_block_enc x_des_block_dec x_aes_block_enc x_aes_block_dec
  x_xor x_odd_parity x_apply_key_variant x_adjust_key_parity x_generate_kcv
  x_encrypt_tdes_cbc x_encrypt_tdes_ecb x_decrypt_tdes_cbc x_decrypt_tdes_ecb
  x_encrypt_aes_cbc x_encrypt_aes_ecb x_decrypt_aes_cbc x_decrypt_aes_ecb
  x_pad_iso_1 x_pad_iso_2 x_pad_iso_3 x_generate_cbc_mac x_generate_retail_mac
  x_generate_cvv x_generate_cvv_legacy
  x_generate_ibm3624_pin x_generate_ibm3624_offset x_generate_visa_pvv
  x_encode_pinblock_iso_0 x_encode_pinblock_iso_2 x_encode_pinblock_iso_3
  x_encode_pin_field_iso_4 x_encode_pan_field_iso_4 x_encipher_pinblock_iso_4
  x_decode_pinblock_iso_0 x_decode_pinblock_iso_2 x_decode_pinblock_iso_3
  x_decode_pin_field_iso_4 x_decipher_pinblock_iso_4
  x_new_header x_default_header x_run x_step x_mkState x_unwrap x_unwrap_legacy x_unwrap_clear
  x_wrap_str x_header_str
  p_fromhex p_a2b p_str_of_N p_to_bytes_be p_hex_lower p_hex_upper p_class p_upper
  p_int_of_dec p_int_of_hex p_encode_ascii x_choices10 x_draw x_api_run.
