(* psec/tr31.py: Blocks, Header, KeyBlock, wrap, unwrap.
   Objects are records; methods that mutate return the new object, also when
   they fail (a failing load keeps the assignments made before the failing
   check).  The os.urandom draw of a wrap is the explicit argument [tape]. *)
From Psec Require Export Model.Mac.
Open Scope N_scope.

Definition dict := list (str * str).

Record header := mkHeader {
  version_id : str; key_usage : str; algorithm : str; mode_of_use : str;
  version_num : str; exportability : str; reserved : str;
  blocks : dict
}.

Definition cA : N := 65.  Definition cB : N := 66.
Definition cC : N := 67.  Definition cD : N := 68.
Definition cP : N := 80.  Definition c0 : N := 48.

(* Header() *)
Definition default_header : header :=
  mkHeader [cB] [c0; c0] [c0] [c0] [c0; c0] [78] [c0; c0] [].

(* ---------------- dict (insertion ordered) ---------------- *)
Fixpoint dict_set (k v : str) (d : dict) : dict :=
  match d with
  | [] => [(k, v)]
  | (k', v') :: r => if list_eqb k k' then (k', v) :: r else (k', v') :: dict_set k v r
  end.
Fixpoint dict_mem (k : str) (d : dict) : bool :=
  match d with [] => false | (k', _) :: r => list_eqb k k' || dict_mem k r end.
Fixpoint dict_remove (k : str) (d : dict) : dict :=
  match d with
  | [] => []
  | (k', v') :: r => if list_eqb k k' then r else (k', v') :: dict_remove k r
  end.
(* del d[k]: KeyError when absent *)
Definition dict_del (k : str) (d : dict) : res dict :=
  if dict_mem k d then Ok (dict_remove k d) else Err (Crash CKey).

(* Blocks.__setitem__ *)
Definition blocks_setitem (key item : str) (d : dict) : res dict :=
  if negb (length key =? 2)%nat || negb (ascii_alphanumeric key) then Err HeaderError
  else if negb (ascii_printable item) then Err HeaderError
  else Ok (dict_set key item d).

(* block_id.upper() == "PB" for a 2-character id (only p,P / b,B upper-case to
   P / B among all Unicode code points: checked exhaustively at run time) *)
Definition is_pad_id (id : str) : bool :=
  match id with
  | [a; b] => ((a =? 80) || (a =? 112)) && ((b =? 66) || (b =? 98))
  | _ => false
  end.

(* ---------------- Blocks.dump ---------------- *)
Fixpoint dump_items (d : dict) : res str :=
  match d with
  | [] => Ok []
  | (id, data) :: r =>
      do lenpart <-
        (if lenN data + 4 <=? 255 then
           do b <- to_bytes_be 1 (lenN data + 4); Ok (hex_upper b)
         else
           match to_bytes_be 2 (lenN data + 10) with
           | Ok b => Ok ([c0; c0; c0; 50] ++ hex_upper b)      (* "0002" *)
           | Err _ => Err HeaderError
           end);
      do t <- dump_items r;
      Ok (id ++ lenpart ++ data ++ t)
  end.

Definition blocks_dump (algo_block_size : nat) (d : dict) : res (nat * str) :=
  do blocks <- dump_items d;
  do pb <-
    (if negb (length blocks mod algo_block_size =? 0)%nat then
       let pad_num := (algo_block_size - (length blocks + 4) mod algo_block_size)%nat in
       do lb <- to_bytes_be 1 (N.of_nat (4 + pad_num));
       Ok ([cP; cB] ++ hex_upper lb ++ repeat c0 pad_num, 1%nat)
     else Ok ([], 0%nat));
  let '(pb_block, pb_count) := pb in
  if (99 <? length d + pb_count)%nat then Err HeaderError
  else Ok ((length d + pb_count)%nat, blocks ++ pb_block).

(* ---------------- Blocks.load ---------------- *)
(* returns (block_len - 6 - block_len_len, text after the length, characters used) *)
Definition parse_extended_len (rest : str) : res (Z * str * nat) :=
  let lls := firstn 2 rest in
  if negb (length lls =? 2)%nat || negb (ascii_hexchar lls) then Err HeaderError
  else
    do ll <- int_of_hex lls;
    let bll := 2 * ll in
    if bll =? 0 then Err HeaderError
    else
      let blln := N.to_nat bll in
      let rest1 := skipn 2 rest in
      let bls := firstn blln rest1 in
      if negb (length bls =? blln)%nat || negb (ascii_hexchar bls) then Err HeaderError
      else
        do bl <- int_of_hex bls;
        Ok ((Z.of_N bl - 6 - Z.of_N bll)%Z, skipn blln rest1, (2 + blln)%nat).

Fixpoint blocks_load_aux (n : nat) (rest : str) (consumed : nat) (acc : dict)
  : dict * res nat :=
  match n with
  | O => (acc, Ok consumed)
  | S n' =>
      let block_id := firstn 2 rest in
      if negb (length block_id =? 2)%nat then (acc, Err HeaderError) else
      let rest1 := skipn 2 rest in
      let block_len_s := firstn 2 rest1 in
      if negb (length block_len_s =? 2)%nat || negb (ascii_hexchar block_len_s)
      then (acc, Err HeaderError) else
      let rest2 := skipn 2 rest1 in
      match int_of_hex block_len_s with
      | Err e => (acc, Err e)
      | Ok bl0 =>
          match (if bl0 =? 0 then parse_extended_len rest2
                 else Ok ((Z.of_N bl0 - 4)%Z, rest2, 0%nat)) with
          | Err e => (acc, Err e)
          | Ok (block_len, rest3, used) =>
              if (block_len <? 0)%Z then (acc, Err HeaderError) else
              let bln := Z.to_N block_len in
              if lenN rest3 <? bln then (acc, Err HeaderError) else
              let k := N.to_nat bln in
              let data := firstn k rest3 in
              let rest4 := skipn k rest3 in
              let consumed' := (consumed + 4 + used + k)%nat in
              if is_pad_id block_id then
                if negb (ascii_printable data) then (acc, Err HeaderError)
                else blocks_load_aux n' rest4 consumed' acc
              else
                match blocks_setitem block_id data acc with
                | Err e => (acc, Err e)
                | Ok acc' => blocks_load_aux n' rest4 consumed' acc'
                end
          end
      end
  end.

(* Blocks.load: clears first *)
Definition blocks_load (blocks_num : nat) (s : str) : dict * res nat :=
  blocks_load_aux blocks_num s 0 [].

(* Blocks.load on the pinned tree: pad block data is not validated *)
Fixpoint blocks_load_aux_legacy (n : nat) (rest : str) (consumed : nat) (acc : dict)
  : dict * res nat :=
  match n with
  | O => (acc, Ok consumed)
  | S n' =>
      let block_id := firstn 2 rest in
      if negb (length block_id =? 2)%nat then (acc, Err HeaderError) else
      let rest1 := skipn 2 rest in
      let block_len_s := firstn 2 rest1 in
      if negb (length block_len_s =? 2)%nat || negb (ascii_hexchar block_len_s)
      then (acc, Err HeaderError) else
      let rest2 := skipn 2 rest1 in
      match int_of_hex block_len_s with
      | Err e => (acc, Err e)
      | Ok bl0 =>
          match (if bl0 =? 0 then parse_extended_len rest2
                 else Ok ((Z.of_N bl0 - 4)%Z, rest2, 0%nat)) with
          | Err e => (acc, Err e)
          | Ok (block_len, rest3, used) =>
              if (block_len <? 0)%Z then (acc, Err HeaderError) else
              let bln := Z.to_N block_len in
              if lenN rest3 <? bln then (acc, Err HeaderError) else
              let k := N.to_nat bln in
              let data := firstn k rest3 in
              let rest4 := skipn k rest3 in
              let consumed' := (consumed + 4 + used + k)%nat in
              if is_pad_id block_id then blocks_load_aux_legacy n' rest4 consumed' acc
              else
                match blocks_setitem block_id data acc with
                | Err e => (acc, Err e)
                | Ok acc' => blocks_load_aux_legacy n' rest4 consumed' acc'
                end
          end
      end
  end.

(* ---------------- Header ---------------- *)
Definition version_supported (v : str) : bool :=
  match v with [c] => (c =? cA) || (c =? cB) || (c =? cC) || (c =? cD) | _ => false end.

(* class-level lookup tables (KeyError outside A-D) *)
Definition algo_block_size (v : str) : res nat :=
  match v with
  | [65] | [66] | [67] => Ok 8%nat
  | [68] => Ok 16%nat
  | _ => Err (Crash CKey)
  end.
Definition key_block_mac_len (v : str) : res nat :=
  match v with
  | [65] | [67] => Ok 4%nat
  | [66] => Ok 8%nat
  | [68] => Ok 16%nat
  | _ => Err (Crash CKey)
  end.

Inductive field := FVersionId | FKeyUsage | FAlgorithm | FModeOfUse | FVersionNum | FExportability.

Definition field_len (f : field) : nat :=
  match f with FKeyUsage | FVersionNum => 2%nat | _ => 1%nat end.

(* property setters *)
Definition set_field (h : header) (f : field) (v : str) : res header :=
  match f with
  | FVersionId =>
      if version_supported v
      then Ok (mkHeader v (key_usage h) (algorithm h) (mode_of_use h) (version_num h)
                        (exportability h) (reserved h) (blocks h))
      else Err HeaderError
  | _ =>
      if negb (length v =? field_len f)%nat || negb (ascii_alphanumeric v) then Err HeaderError
      else Ok
        match f with
        | FKeyUsage => mkHeader (version_id h) v (algorithm h) (mode_of_use h) (version_num h)
                                (exportability h) (reserved h) (blocks h)
        | FAlgorithm => mkHeader (version_id h) (key_usage h) v (mode_of_use h) (version_num h)
                                 (exportability h) (reserved h) (blocks h)
        | FModeOfUse => mkHeader (version_id h) (key_usage h) (algorithm h) v (version_num h)
                                 (exportability h) (reserved h) (blocks h)
        | FVersionNum => mkHeader (version_id h) (key_usage h) (algorithm h) (mode_of_use h) v
                                  (exportability h) (reserved h) (blocks h)
        | _ => mkHeader (version_id h) (key_usage h) (algorithm h) (mode_of_use h) (version_num h)
                        v (reserved h) (blocks h)
        end
  end.

Definition set_reserved (h : header) (v : str) : header :=
  mkHeader (version_id h) (key_usage h) (algorithm h) (mode_of_use h) (version_num h)
           (exportability h) v (blocks h).
Definition set_blocks (h : header) (d : dict) : header :=
  mkHeader (version_id h) (key_usage h) (algorithm h) (mode_of_use h) (version_num h)
           (exportability h) (reserved h) d.

(* Header(version_id, key_usage, algorithm, mode_of_use, version_num, exportability) *)
Definition new_header (v ku alg mou vn ex : str) : res header :=
  do h <- set_field default_header FVersionId v;
  do h <- set_field h FKeyUsage ku;
  do h <- set_field h FAlgorithm alg;
  do h <- set_field h FModeOfUse mou;
  do h <- set_field h FVersionNum vn;
  set_field h FExportability ex.

Definition header_text (h : header) (len : N) (blocks_num : nat) (blocks_s : str) : str :=
  version_id h ++ zfill 4 (str_of_N len) ++ key_usage h ++ algorithm h ++ mode_of_use h
  ++ version_num h ++ exportability h ++ zfill 2 (str_of_N (N.of_nat blocks_num))
  ++ reserved h ++ blocks_s.

(* Header.__str__ *)
Definition header_str (h : header) : res str :=
  do abs <- algo_block_size (version_id h);
  do nb <- blocks_dump abs (blocks h);
  let '(blocks_num, blocks_s) := nb in
  Ok (header_text h (16 + lenN blocks_s) blocks_num blocks_s).

(* Header.dump(key_len) *)
Definition header_dump (h : header) (key_len : N) : res str :=
  do abs <- algo_block_size (version_id h);
  let pad_len := N.of_nat abs - (2 + key_len) mod N.of_nat abs in
  do nb <- blocks_dump abs (blocks h);
  let '(blocks_num, blocks_s) := nb in
  do ml <- key_block_mac_len (version_id h);
  let kb_len := 16 + 4 + key_len * 2 + pad_len * 2 + N.of_nat ml * 2 + lenN blocks_s in
  if 9999 <? kb_len then Err HeaderError
  else Ok (header_text h kb_len blocks_num blocks_s).

(* Header.load, generic in the Blocks.load it calls *)
Definition header_load_with (bload : nat -> str -> dict * res nat)
           (h : header) (s : str) : header * res nat :=
  if negb (ascii_alphanumeric (firstn 16 s)) then (h, Err HeaderError) else
  if (length s <? 16)%nat then (h, Err HeaderError) else
  match set_field h FVersionId (slice 0 1 s) with Err e => (h, Err e) | Ok h1 =>
  match set_field h1 FKeyUsage (slice 5 2 s) with Err e => (h1, Err e) | Ok h2 =>
  match set_field h2 FAlgorithm (slice 7 1 s) with Err e => (h2, Err e) | Ok h3 =>
  match set_field h3 FModeOfUse (slice 8 1 s) with Err e => (h3, Err e) | Ok h4 =>
  match set_field h4 FVersionNum (slice 9 2 s) with Err e => (h4, Err e) | Ok h5 =>
  match set_field h5 FExportability (slice 11 1 s) with Err e => (h5, Err e) | Ok h6 =>
  let h7 := set_reserved h6 (slice 14 2 s) in
  if negb (ascii_numeric (slice 12 2 s)) then (h7, Err HeaderError) else
  match int_of_dec (slice 12 2 s) with
  | Err e => (h7, Err e)
  | Ok blocks_num =>
      let '(d, r) := bload (N.to_nat blocks_num) (skipn 16 s) in
      (set_blocks h7 d, do n <- r; Ok (16 + n)%nat)
  end end end end end end end.

Definition header_load := header_load_with blocks_load.
Definition header_load_legacy :=
  header_load_with (fun n s => blocks_load_aux_legacy n s 0 []).

(* ---------------- KeyBlock ---------------- *)
Definition algo_id_max_key_len (alg : str) (dflt : N) : N :=
  match alg with
  | [84] | [68] => 24       (* 'T', 'D' *)
  | [65] => 32              (* 'A' *)
  | _ => dflt
  end.

(* bytes.fromhex under  try/except ValueError -> KeyBlockError *)
Definition fromhex_kbe (s : str) : res bytes :=
  match bytes_fromhex s with
  | Ok b => Ok b
  | Err ValueError => Err KeyBlockError
  | Err e => Err e
  end.

(* key extraction shared by the three unwrap methods *)
Definition extract_key (clear_key_data : bytes) : res bytes :=
  let key_length := be_int (firstn 2 clear_key_data) in
  if negb (key_length mod 8 =? 0) then Err KeyBlockError
  else
    let key_length := N.to_nat (key_length / 8) in
    let key := slice 2 key_length clear_key_data in
    if negb (length key =? key_length)%nat then Err KeyBlockError else Ok key.

(* shift_left_1 of the CMAC subkey derivation *)
Definition shift_left_1 (b : bytes) : res bytes :=
  match b with
  | [] => Err (Crash CIndex)
  | b0 :: r => to_bytes_be (length b) (2 * be_int (N.land b0 127 :: r))
  end.

Section WithCiphers.
  Variable cd : cipher.   (* Triple DES *)
  Variable ca : cipher.   (* AES *)

  Definition cmac_subkeys (c : cipher) (r_const : bytes) (key : bytes) : res (bytes * bytes) :=
    do s <- encrypt_ecb c key (repeat 0 (bs c));
    do s0 <- index s 0;
    do sh <- shift_left_1 s;
    let k1 := if negb (N.land s0 128 =? 0) then py_xor sh r_const else sh in
    do k10 <- index k1 0;
    do sh1 <- shift_left_1 k1;
    let k2 := if negb (N.land k10 128 =? 0) then py_xor sh1 r_const else sh1 in
    Ok (k1, k2).

  Definition r64 : bytes := [0; 0; 0; 0; 0; 0; 0; 27].
  Definition r128 : bytes := repeat 0 15 ++ [135].
  Definition derive_des_cmac_subkey := cmac_subkeys cd r64.
  Definition derive_aes_cmac_subkey := cmac_subkeys ca r128.

  (* ---- version B ---- *)
  Definition b_kd_input (i usage : N) (kbpk_len : nat) : bytes :=
    if (kbpk_len =? 16)%nat then [i; 0; usage; 0; 0; 0; 0; 128]
    else [i; 0; usage; 0; 0; 1; 0; 192].

  Fixpoint b_derive_loop (kbpk k1 : bytes) (calls : list N) : res (bytes * bytes) :=
    match calls with
    | [] => Ok ([], [])
    | i :: r =>
        do e <- generate_cbc_mac cd ca kbpk (py_xor (b_kd_input i 0 (length kbpk)) k1) 1 (Some 8%nat) false;
        do a <- generate_cbc_mac cd ca kbpk (py_xor (b_kd_input i 1 (length kbpk)) k1) 1 (Some 8%nat) false;
        do t <- b_derive_loop kbpk k1 r;
        Ok (e ++ fst t, a ++ snd t)
    end.

  Definition b_derive (kbpk : bytes) : res (bytes * bytes) :=
    do ks <- derive_des_cmac_subkey kbpk;
    b_derive_loop kbpk (fst ks) (if (length kbpk =? 16)%nat then [1; 2] else [1; 2; 3]).

  Definition b_generate_mac (kbak : bytes) (hdr : str) (key_data : bytes) : res bytes :=
    do ks <- derive_des_cmac_subkey kbak;
    do hb <- encode_ascii hdr;
    let mac_data := hb ++ key_data in
    let mac_data := drop_last 8 mac_data ++ py_xor (last_n 8 mac_data) (fst ks) in
    generate_cbc_mac cd ca kbak mac_data 1 (Some 8%nat) false.

  Definition key_len_prefix (key : bytes) : res bytes := to_bytes_be 2 (lenN key * 8).

  Definition b_wrap (kbpk : bytes) (hdr : str) (key : bytes) (extra_pad : nat) (tape : bytes)
    : res str :=
    if negb (mem_nat (length kbpk) [16; 24]%nat) then Err KeyBlockError else
    do ks <- b_derive kbpk;
    let '(kbek, kbak) := ks in
    let pad_len := (8 - (2 + length key + extra_pad) mod 8)%nat in
    if negb (length tape =? pad_len + extra_pad)%nat then Err (Crash CType) else
    do lp <- key_len_prefix key;
    let clear_key_data := lp ++ key ++ tape in
    do mac <- b_generate_mac kbak hdr clear_key_data;
    do enc_key <- encrypt_cbc cd kbek mac clear_key_data;
    Ok (hdr ++ hex_upper enc_key ++ hex_upper mac).

  Definition b_unwrap_clear (kbpk : bytes) (hdr : str) (key_data received_mac : bytes) : res bytes :=
    if negb (mem_nat (length kbpk) [16; 24]%nat) then Err KeyBlockError else
    if (length key_data <? 8)%nat || negb (length key_data mod 8 =? 0)%nat then Err KeyBlockError else
    do ks <- b_derive kbpk;
    let '(kbek, kbak) := ks in
    do clear_key_data <- decrypt_cbc cd kbek received_mac key_data;
    do mac <- b_generate_mac kbak hdr clear_key_data;
    if negb (list_eqb mac received_mac) then Err KeyBlockError else
    Ok clear_key_data.
  Definition b_unwrap (kbpk : bytes) (hdr : str) (key_data received_mac : bytes) : res bytes :=
    do c <- b_unwrap_clear kbpk hdr key_data received_mac; extract_key c.

  (* ---- versions A and C ---- *)
  Definition c_derive (kbpk : bytes) : bytes * bytes :=
    (py_xor kbpk (repeat 69 (length kbpk)), py_xor kbpk (repeat 77 (length kbpk))).

  Definition c_generate_mac (kbak : bytes) (hdr : str) (key_data : bytes) : res bytes :=
    do hb <- encode_ascii hdr;
    generate_cbc_mac cd ca kbak (hb ++ key_data) 1 (Some 4%nat) false.

  Definition c_wrap (kbpk : bytes) (hdr : str) (key : bytes) (extra_pad : nat) (tape : bytes)
    : res str :=
    if negb (mem_nat (length kbpk) [8; 16; 24]%nat) then Err KeyBlockError else
    let '(kbek, kbak) := c_derive kbpk in
    let pad_len := (8 - (2 + length key + extra_pad) mod 8)%nat in
    if negb (length tape =? pad_len + extra_pad)%nat then Err (Crash CType) else
    do lp <- key_len_prefix key;
    let clear_key_data := lp ++ key ++ tape in
    do hb <- encode_ascii hdr;
    do enc_key <- encrypt_cbc cd kbek (firstn 8 hb) clear_key_data;
    do mac <- c_generate_mac kbak hdr enc_key;
    Ok (hdr ++ hex_upper enc_key ++ hex_upper mac).

  Definition c_unwrap_clear (kbpk : bytes) (hdr : str) (key_data received_mac : bytes) : res bytes :=
    if negb (mem_nat (length kbpk) [8; 16; 24]%nat) then Err KeyBlockError else
    if (length key_data <? 8)%nat || negb (length key_data mod 8 =? 0)%nat then Err KeyBlockError else
    let '(kbek, kbak) := c_derive kbpk in
    do mac <- c_generate_mac kbak hdr key_data;
    if negb (list_eqb mac received_mac) then Err KeyBlockError else
    do hb <- encode_ascii hdr;
    decrypt_cbc cd kbek (firstn 8 hb) key_data.
  Definition c_unwrap (kbpk : bytes) (hdr : str) (key_data received_mac : bytes) : res bytes :=
    do c <- c_unwrap_clear kbpk hdr key_data received_mac; extract_key c.

  (* ---- version D ---- *)
  Definition d_kd_input (i usage : N) (kbpk_len : nat) : bytes :=
    (if (kbpk_len =? 16)%nat then [i; 0; usage; 0; 0; 2; 0; 128]
     else if (kbpk_len =? 24)%nat then [i; 0; usage; 0; 0; 3; 0; 192]
     else [i; 0; usage; 0; 0; 4; 1; 0]) ++ [128; 0; 0; 0; 0; 0; 0; 0].

  Fixpoint d_derive_loop (kbpk k2 : bytes) (calls : list N) : res (bytes * bytes) :=
    match calls with
    | [] => Ok ([], [])
    | i :: r =>
        do e <- generate_cbc_mac cd ca kbpk (py_xor (d_kd_input i 0 (length kbpk)) k2) 1 (Some 16%nat) true;
        do a <- generate_cbc_mac cd ca kbpk (py_xor (d_kd_input i 1 (length kbpk)) k2) 1 (Some 16%nat) true;
        do t <- d_derive_loop kbpk k2 r;
        Ok (e ++ fst t, a ++ snd t)
    end.

  Definition d_derive (kbpk : bytes) : res (bytes * bytes) :=
    do ks <- derive_aes_cmac_subkey kbpk;
    do ea <- d_derive_loop kbpk (snd ks) (if (length kbpk =? 16)%nat then [1] else [1; 2]);
    Ok (firstn (length kbpk) (fst ea), firstn (length kbpk) (snd ea)).

  Definition d_generate_mac (kbak : bytes) (hdr : str) (key_data : bytes) : res bytes :=
    do ks <- derive_aes_cmac_subkey kbak;
    do hb <- encode_ascii hdr;
    let mac_data := hb ++ key_data in
    let mac_data := drop_last 16 mac_data ++ py_xor (last_n 16 mac_data) (fst ks) in
    generate_cbc_mac cd ca kbak mac_data 1 (Some 16%nat) true.

  Definition d_wrap (kbpk : bytes) (hdr : str) (key : bytes) (extra_pad : nat) (tape : bytes)
    : res str :=
    if negb (mem_nat (length kbpk) [16; 24; 32]%nat) then Err KeyBlockError else
    do ks <- d_derive kbpk;
    let '(kbek, kbak) := ks in
    let pad_len := (16 - (2 + length key + extra_pad) mod 16)%nat in
    if negb (length tape =? pad_len + extra_pad)%nat then Err (Crash CType) else
    do lp <- key_len_prefix key;
    let clear_key_data := lp ++ key ++ tape in
    do mac <- d_generate_mac kbak hdr clear_key_data;
    do enc_key <- encrypt_cbc ca kbek mac clear_key_data;
    Ok (hdr ++ hex_upper enc_key ++ hex_upper mac).

  Definition d_unwrap_clear (kbpk : bytes) (hdr : str) (key_data received_mac : bytes) : res bytes :=
    if negb (mem_nat (length kbpk) [16; 24; 32]%nat) then Err KeyBlockError else
    if (length key_data <? 16)%nat || negb (length key_data mod 16 =? 0)%nat then Err KeyBlockError else
    do ks <- d_derive kbpk;
    let '(kbek, kbak) := ks in
    do clear_key_data <- decrypt_cbc ca kbek received_mac key_data;
    do mac <- d_generate_mac kbak hdr clear_key_data;
    if negb (list_eqb mac received_mac) then Err KeyBlockError else
    Ok clear_key_data.
  Definition d_unwrap (kbpk : bytes) (hdr : str) (key_data received_mac : bytes) : res bytes :=
    do c <- d_unwrap_clear kbpk hdr key_data received_mac; extract_key c.

  (* ---- dispatch tables ---- *)
  Definition wrap_dispatch (v : str)
    : res (bytes -> str -> bytes -> nat -> bytes -> res str) :=
    match v with
    | [65] | [67] => Ok c_wrap
    | [66] => Ok b_wrap
    | [68] => Ok d_wrap
    | _ => Err KeyBlockError
    end.
  Definition unwrap_dispatch (v : str)
    : res (bytes -> str -> bytes -> bytes -> res bytes) :=
    match v with
    | [65] | [67] => Ok c_unwrap
    | [66] => Ok b_unwrap
    | [68] => Ok d_unwrap
    | _ => Err KeyBlockError
    end.
  (* harness helper (not a psec function): the decrypted, authenticated key
     data, from which the wrap's os.urandom draw is recovered *)
  Definition unwrap_clear_dispatch (v : str)
    : res (bytes -> str -> bytes -> bytes -> res bytes) :=
    match v with
    | [65] | [67] => Ok c_unwrap_clear
    | [66] => Ok b_unwrap_clear
    | [68] => Ok d_unwrap_clear
    | _ => Err KeyBlockError
    end.

  (* number of os.urandom bytes a wrap of [key] under [h] / [mask] draws *)
  Definition masked_len (h : header) (key : bytes) (mask : option Z) : N :=
    match mask with
    | None => N.max (algo_id_max_key_len (algorithm h) (lenN key)) (lenN key)
    | Some m => Z.to_N (Z.max m (Z.of_N (lenN key)))
    end.

  (* KeyBlock.wrap(key, masked_key_len) on a KeyBlock holding (kbpk, h) *)
  Definition kb_wrap (kbpk : bytes) (h : header) (key : bytes) (mask : option Z) (tape : bytes)
    : res str :=
    do w <- wrap_dispatch (version_id h);
    let masked := masked_len h key mask in
    do hs <- header_dump h masked;
    w kbpk hs key (N.to_nat masked - length key)%nat tape.

  (* KeyBlock.unwrap(key_block): the header object is updated even on failure *)
  Definition kb_unwrap_gen (disp : str -> res (bytes -> str -> bytes -> bytes -> res bytes))
             (hload : header -> str -> header * res nat)
             (kbpk : bytes) (h : header) (key_block : str) : header * res bytes :=
    let '(h', r) := hload h key_block in
    (h',
     do header_len <- r;
     if negb (ascii_numeric (slice 1 4 key_block)) then Err KeyBlockError else
     do key_block_len <- int_of_dec (slice 1 4 key_block);
     if negb (key_block_len =? lenN key_block) then Err KeyBlockError else
     do abs <- algo_block_size (version_id h');
     if negb (length key_block mod abs =? 0)%nat then Err KeyBlockError else
     do algo_mac_len <- key_block_mac_len (version_id h');
     let tail := skipn header_len key_block in
     let received_mac_s := last_n (algo_mac_len * 2) tail in
     do received_mac <- fromhex_kbe received_mac_s;
     if negb (length received_mac =? algo_mac_len)%nat then Err KeyBlockError else
     let key_data_s := drop_last (algo_mac_len * 2) tail in
     do key_data <- fromhex_kbe key_data_s;
     do u <- disp (version_id h');
     u kbpk (firstn header_len key_block) key_data received_mac).

  Definition kb_unwrap := kb_unwrap_gen unwrap_dispatch header_load.
  Definition kb_unwrap_legacy := kb_unwrap_gen unwrap_dispatch header_load_legacy.
  Definition kb_unwrap_clear (kbpk : bytes) (key_block : str) : res bytes :=
    snd (kb_unwrap_gen unwrap_clear_dispatch header_load kbpk default_header key_block).

  (* module-level  unwrap(kbpk, key_block) -> (header, key) *)
  Definition unwrap (kbpk : bytes) (key_block : str) : res (header * bytes) :=
    let '(h, r) := kb_unwrap kbpk default_header key_block in
    do k <- r; Ok (h, k).
  Definition unwrap_legacy (kbpk : bytes) (key_block : str) : res (header * bytes) :=
    let '(h, r) := kb_unwrap_legacy kbpk default_header key_block in
    do k <- r; Ok (h, k).

  (* module-level  wrap(kbpk, header, key, masked_key_len)  with a Header object *)
  Definition wrap := kb_wrap.
  (* ... and with a header string: KeyBlock(kbpk, str) loads it first *)
  Definition wrap_str (kbpk : bytes) (hs : str) (key : bytes) (mask : option Z) (tape : bytes)
    : res str :=
    let '(h, r) := header_load default_header hs in
    do _ <- r; kb_wrap kbpk h key mask tape.

  (* ---------------- object histories (C17) ---------------- *)
  Record kb_state := mkState { st_kbpk : bytes; st_header : header }.

  Inductive op :=
  | OpLoad (s : str)                       (* kb.header.load(s) *)
  | OpUnwrap (s : str)                     (* kb.unwrap(s) *)
  | OpWrap (key : bytes) (mask : option Z) (tape : bytes)
  | OpSetField (f : field) (v : str)       (* kb.header.<f> = v *)
  | OpSetBlock (id data : str)             (* kb.header.blocks[id] = data *)
  | OpDelBlock (id : str)                  (* del kb.header.blocks[id] *)
  | OpStr.                                 (* str(kb) *)

  Inductive outcome :=
  | OutNone | OutNat (n : nat) | OutBytes (b : bytes) | OutStr (s : str) | OutErr (e : err).

  Definition step (st : kb_state) (o : op) : kb_state * outcome :=
    match o with
    | OpLoad s =>
        let '(h, r) := header_load (st_header st) s in
        (mkState (st_kbpk st) h, match r with Ok n => OutNat n | Err e => OutErr e end)
    | OpUnwrap s =>
        let '(h, r) := kb_unwrap (st_kbpk st) (st_header st) s in
        (mkState (st_kbpk st) h, match r with Ok k => OutBytes k | Err e => OutErr e end)
    | OpWrap key mask tape =>
        (st, match kb_wrap (st_kbpk st) (st_header st) key mask tape with
             | Ok s => OutStr s | Err e => OutErr e end)
    | OpSetField f v =>
        match set_field (st_header st) f v with
        | Ok h => (mkState (st_kbpk st) h, OutNone)
        | Err e => (st, OutErr e)
        end
    | OpSetBlock id data =>
        match blocks_setitem id data (blocks (st_header st)) with
        | Ok d => (mkState (st_kbpk st) (set_blocks (st_header st) d), OutNone)
        | Err e => (st, OutErr e)
        end
    | OpDelBlock id =>
        match dict_del id (blocks (st_header st)) with
        | Ok d => (mkState (st_kbpk st) (set_blocks (st_header st) d), OutNone)
        | Err e => (st, OutErr e)
        end
    | OpStr =>
        (st, match header_str (st_header st) with Ok s => OutStr s | Err e => OutErr e end)
    end.

  Definition run (st : kb_state) (ops : list op) : kb_state * list outcome :=
    fold_left (fun acc o => let '(s, outs) := acc in
                            let '(s', out) := step s o in (s', outs ++ [out]))
              ops (st, []).
End WithCiphers.
