(* psec/tools.py and the key utilities of psec/des.py *)
From Psec Require Export Lib.Base Cipher.Cipher.
Open Scope N_scope.

(* tools.xor is [py_xor] (Lib/Base.v); the ascii_* helpers are there too. *)

(* tools.odd_parity *)
Definition odd_parity (v : N) : N :=
  let v := N.lxor v (N.shiftr v 16) in
  let v := N.lxor v (N.shiftr v 8) in
  let v := N.lxor v (N.shiftr v 4) in
  let v := N.land v 15 in
  N.land (N.shiftr 27030 v) 1.          (* 0x6996 *)

(* des.adjust_key_parity *)
Definition adjust_key_parity (key : bytes) : bytes :=
  map (fun b => if odd_parity b =? 0 then N.lxor b 1 else b) key.

(* des.apply_key_variant *)
Fixpoint repeat_list {A} (n : nat) (l : list A) : list A :=
  match n with O => [] | S n' => l ++ repeat_list n' l end.

Definition apply_key_variant (key : bytes) (variant : Z) : res bytes :=
  if negb (mem_nat (length key) [8; 16; 24]%nat) then Err ValueError
  else if ((variant <? 0) || (31 <? variant))%Z then Err ValueError
  else
    do v <- to_bytes_be 1 (8 * Z.to_N variant);
    let mask := repeat_list (length key / 8) (v ++ repeat 0 7) in
    Ok (py_xor key mask).

Section WithCiphers.
  Variable cd : cipher.   (* Triple DES *)
  Variable ca : cipher.   (* AES *)

  (* des.generate_kcv *)
  Definition generate_kcv (key : bytes) (klen : nat) : res bytes :=
    if negb (valid_key cd key) then Err ValueError
    else Ok (firstn klen (enc cd key (repeat 0 8))).

  Definition encrypt_tdes_cbc := encrypt_cbc cd.
  Definition encrypt_tdes_ecb := encrypt_ecb cd.
  Definition decrypt_tdes_cbc := decrypt_cbc cd.
  Definition decrypt_tdes_ecb := decrypt_ecb cd.
  Definition encrypt_aes_cbc := encrypt_cbc ca.
  Definition encrypt_aes_ecb := encrypt_ecb ca.
  Definition decrypt_aes_cbc := decrypt_cbc ca.
  Definition decrypt_aes_ecb := decrypt_ecb ca.
End WithCiphers.
