(* psec/tr31.py, class Blocks(typing.MutableMapping[str, str]): the whole mapping
   API.  Blocks defines __len__, __getitem__, __setitem__, __delitem__,
   __iter__, __contains__; every other method a caller can use is the mixin of
   CPython's collections.abc.MutableMapping, written in terms of those:

     update(other=(), /, ** kwds) for key, value in <pairs>: self[key] = value
     setdefault(key, default)     try: return self[key]
                                  except KeyError: self[key] = default
                                  return default
     pop(key)                     value = self[key]   (KeyError propagates)
                                  del self[key]; return value
     popitem()                    try: key = next(iter(self))
                                  except StopIteration: raise KeyError
                                  value = self[key]; del self[key]
                                  return key, value
     clear()                      try:
                                      while True: self.popitem()
                                  except KeyError: pass

   Definitions only; everything is executable and structurally recursive. *)
From Psec Require Import Lib.Base Model.Tr31.
Open Scope N_scope.

(* self._blocks[key] of an insertion-ordered dict *)
Fixpoint dict_get (k : str) (d : dict) : option str :=
  match d with
  | [] => None
  | (k', v') :: r => if list_eqb k k' then Some v' else dict_get k r
  end.

(* Blocks.__getitem__:  if key in self._blocks: return self._blocks[key]
                        raise KeyError(key) *)
Definition blocks_getitem (k : str) (d : dict) : res str :=
  if dict_mem k d then
    match dict_get k d with Some v => Ok v | None => Err (Crash CKey) end
  else Err (Crash CKey).

Inductive api_op :=
| ASetItem (id d : str)               (* blocks[id] = d *)
| AUpdate (kvs : list (str * str))    (* blocks.update(pairs) / update(mapping) / update(k=v, ...):
                                         the pairs in the iteration order of the argument(s) *)
| ASetDefault (id d : str)            (* blocks.setdefault(id, d) *)
| ADelItem (id : str)                 (* del blocks[id] *)
| APop (id : str)                     (* blocks.pop(id) *)
| APopItem                            (* blocks.popitem() *)
| AClear                              (* blocks.clear() *)
| AGetItem (id : str)                 (* blocks[id] *)
| AContains (id : str)                (* id in blocks *)
| ALen.                               (* len(blocks) *)

Inductive api_out :=
| AoNone | AoStr (s : str) | AoPair (k v : str) | AoBool (b : bool) | AoNat (n : nat)
| AoErr (e : err).

(* blocks[id] = v *)
Definition api_setitem (id v : str) (d : dict) : dict * api_out :=
  match blocks_setitem id v d with
  | Ok d' => (d', AoNone)
  | Err e => (d, AoErr e)
  end.

(* for key, value in pairs: self[key] = value
   the first exception leaves the loop; what was assigned stays assigned *)
Fixpoint api_update (kvs : list (str * str)) (d : dict) : dict * api_out :=
  match kvs with
  | [] => (d, AoNone)
  | (k, v) :: r =>
      match api_setitem k v d with
      | (d', AoNone) => api_update r d'
      | (d', o) => (d', o)
      end
  end.

(* try: return self[key]  except KeyError: self[key] = default; return default *)
Definition api_setdefault (id v : str) (d : dict) : dict * api_out :=
  match blocks_getitem id d with
  | Ok s => (d, AoStr s)
  | Err (Crash CKey) =>
      match api_setitem id v d with
      | (d', AoNone) => (d', AoStr v)
      | (d', o) => (d', o)
      end
  | Err e => (d, AoErr e)
  end.

(* del self[key] *)
Definition api_delitem (id : str) (d : dict) : dict * api_out :=
  match dict_del id d with
  | Ok d' => (d', AoNone)
  | Err e => (d, AoErr e)
  end.

(* value = self[key]; del self[key]; return value *)
Definition api_pop (id : str) (d : dict) : dict * api_out :=
  match blocks_getitem id d with
  | Ok v =>
      match api_delitem id d with
      | (d', AoNone) => (d', AoStr v)
      | (d', o) => (d', o)
      end
  | Err e => (d, AoErr e)
  end.

(* key = next(iter(self)) (KeyError when empty); value = self[key]; del self[key] *)
Definition api_popitem (d : dict) : dict * api_out :=
  match d with
  | [] => (d, AoErr (Crash CKey))
  | (k, _) :: _ =>
      match blocks_getitem k d with
      | Ok v =>
          match api_delitem k d with
          | (d', AoNone) => (d', AoPair k v)
          | (d', o) => (d', o)
          end
      | Err e => (d, AoErr e)
      end
  end.

(* try: while True: self.popitem()  except KeyError: pass
   [fuel] iterations of the loop body; an exception other than KeyError would
   propagate.  With fuel = len(self) the loop has emptied the dict
   (BlocksApiLemmas.clear_empties), so the next popitem is the one that raises
   KeyError and ends the loop (BlocksApiLemmas.clear_exit). *)
Fixpoint api_clear_loop (fuel : nat) (d : dict) : dict * api_out :=
  match fuel with
  | O => (d, AoNone)
  | S f =>
      match api_popitem d with
      | (d', AoErr (Crash CKey)) => (d', AoNone)
      | (d', AoErr e) => (d', AoErr e)
      | (d', _) => api_clear_loop f d'
      end
  end.

Definition api_step (d : dict) (op : api_op) : dict * api_out :=
  match op with
  | ASetItem id v => api_setitem id v d
  | AUpdate kvs => api_update kvs d
  | ASetDefault id v => api_setdefault id v d
  | ADelItem id => api_delitem id d
  | APop id => api_pop id d
  | APopItem => api_popitem d
  | AClear => api_clear_loop (length d) d
  | AGetItem id =>
      match blocks_getitem id d with
      | Ok v => (d, AoStr v)
      | Err e => (d, AoErr e)
      end
  | AContains id => (d, AoBool (dict_mem id d))
  | ALen => (d, AoNat (length d))
  end.

Fixpoint api_run (d : dict) (ops : list api_op) : dict * list api_out :=
  match ops with
  | [] => (d, [])
  | op :: r =>
      let (d1, o) := api_step d op in
      let (d2, os) := api_run d1 r in
      (d2, o :: os)
  end.

(* the ops that can insert an id: used to state which sequences keep [header_ok]
   (whose entries exclude pad ids) *)
Definition op_pad_free (op : api_op) : bool :=
  match op with
  | ASetItem id _ | ASetDefault id _ => negb (is_pad_id id)
  | AUpdate kvs => forallb (fun kv => negb (is_pad_id (fst kv))) kvs
  | _ => true
  end.
