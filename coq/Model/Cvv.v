(* psec/cvv.py *)
From Psec Require Export Model.Tools.
Open Scope N_scope.

(* the A-F -> 0-5 substitution on lower-case hex text *)
Definition af_to_digit (c : N) : N := c - 49.      (* 'a' (97) -> '0' (48) *)
Definition is_af_lower (c : N) : bool := (97 <=? c) && (c <=? 102).

(* decimalise hex text to [n] digits: decimal digits first, then A-F minus ten *)
Definition decimalize (n : nat) (hex : str) : str :=
  let first := firstn n (filter is_digit hex) in
  if (length first <? n)%nat then
    first ++ map af_to_digit (firstn (n - length first) (filter is_af_lower hex))
  else first.

Section WithCiphers.
  Variable cd : cipher.

  Definition cvv_block (cvk : bytes) (pan expiry service_code : str) : res bytes :=
    if negb (length cvk =? 16)%nat then Err ValueError
    else if (19 <? length pan)%nat || negb (ascii_numeric pan) then Err ValueError
    else if negb (length expiry =? 4)%nat || negb (ascii_numeric expiry) then Err ValueError
    else if negb (length service_code =? 3)%nat || negb (ascii_numeric service_code) then Err ValueError
    else
      let block := ljust 32 48 (pan ++ expiry ++ service_code) in
      do b1 <- a2b_hex (firstn 16 block);
      do r1 <- encrypt_ecb cd (firstn 8 cvk) b1;
      do b2 <- a2b_hex (skipn 16 block);
      let r2 := py_xor r1 b2 in
      encrypt_ecb cd cvk r2.

  (* generate_cvv on the repaired tree (two decimalisation passes) *)
  Definition generate_cvv (cvk : bytes) (pan expiry service_code : str) : res str :=
    do r <- cvv_block cvk pan expiry service_code;
    Ok (decimalize 3 (hex_lower r)).

  (* generate_cvv as on the pinned tree: first pass only *)
  Definition generate_cvv_legacy (cvk : bytes) (pan expiry service_code : str) : res str :=
    do r <- cvv_block cvk pan expiry service_code;
    Ok (firstn 3 (filter is_digit (hex_lower r))).
End WithCiphers.
