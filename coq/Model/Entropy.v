(* How CPython's secrets.choice("ABCDEF") consumes the OS generator (Lib/random.py, SystemRandom):
     choice(seq)      = seq[_randbelow(len(seq))]
     _randbelow(n)    : k = n.bit_length(); r = getrandbits(k); while r >= n: r = getrandbits(k); return r
     getrandbits(k)   = int.from_bytes(urandom((k+7)//8), "big") >> ((k+7)//8*8 - k)
   For n = 6: k = 3, one byte per attempt, r = byte >> 5, accepted iff r < 6.
   This file is a model of that library code (not of psec) and the counting facts that make the
   derived symbols exactly uniform when the bytes are. *)
From Coq Require Import List NArith Arith Lia Bool.
Import ListNotations.
Open Scope N_scope.

Definition attempt (b : N) : N := N.shiftr b 5.
Definition accepted (b : N) : bool := attempt b <? 6.

(* symbols drawn from a byte stream: n symbols or None when the stream runs out.
   Single structural recursion over the stream with a counter of symbols still wanted:
   a rejected byte is skipped (counter unchanged), an accepted one yields a symbol. *)
Fixpoint draw (stream : list N) (n : nat) {struct stream} : option (list N * list N) :=
  match n with
  | O => Some ([], stream)
  | S n' =>
    match stream with
    | [] => None
    | b :: rest =>
      if accepted b then
        match draw rest n' with
        | Some (syms, r) => Some (attempt b :: syms, r)
        | None => None
        end
      else draw rest n
    end
  end.

(* psec.pinblock.encode_pinblock_iso_3: "".join(secrets.choice("ABCDEF") for _ in range(10)) - ten symbols, each
   the letter chr(65 + symbol) *)
Definition choices_of_syms (syms : list N) : list N := map (fun s => 65 + s) syms.
Definition choices10 (stream : list N) : option (list N * list N) :=
  match draw stream 10 with
  | Some (syms, rest) => Some (choices_of_syms syms, rest)
  | None => None
  end.
