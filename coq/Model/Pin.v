(* psec/pin.py *)
From Psec Require Export Model.Cvv.
Open Scope N_scope.

(* str.translate(s, str.maketrans("0123456789ABCDEF", table)) *)
Definition translate16 (table s : str) : str :=
  map (fun c => if is_digit c || ((65 <=? c) && (c <=? 70))
                then match unhex_digit c with
                     | Some v => nth (N.to_nat v) table c
                     | None => c
                     end
                else c) s.

(* "".join(str(int(ip[i]) + int(off[i]))[-1:] for i in range(len(off))) *)
Fixpoint ibm_add (ip off : str) : res str :=
  match off with
  | [] => Ok []
  | o :: off' =>
      match ip with
      | [] => Err (Crash CIndex)
      | a :: ip' =>
          do x <- int_of_dec [a];
          do y <- int_of_dec [o];
          do t <- ibm_add ip' off';
          Ok (last_n 1 (str_of_N (x + y)) ++ t)
      end
  end.

(* "".join(str(10 + int(pin[i]) - int(ip[i]))[-1:] for i in range(len(pin))) *)
Fixpoint ibm_sub (ip pin : str) : res str :=
  match pin with
  | [] => Ok []
  | p :: pin' =>
      match ip with
      | [] => Err (Crash CIndex)
      | a :: ip' =>
          do x <- int_of_dec [p];
          do y <- int_of_dec [a];
          do t <- ibm_sub ip' pin';
          Ok (last_n 1 (str_of_N (10 + x - y)) ++ t)
      end
  end.

Section WithCiphers.
  Variable cd : cipher.

  (* common part of generate_ibm3624_pin / _offset: the decimalised
     intermediate PIN (16 characters) *)
  Definition ibm_intermediate (pvk : bytes) (table digits pan : str)
             (pv_offset pv_length : nat) (pan_pad : str) : res str :=
    if negb (mem_nat (length pvk) [8; 16; 24]%nat) then Err ValueError
    else if negb (length table =? 16)%nat || negb (ascii_numeric table) then Err ValueError
    else if (length digits <? 4)%nat || (16 <? length digits)%nat || negb (ascii_numeric digits)
      then Err ValueError
    else if (19 <? length pan)%nat || negb (ascii_numeric pan) then Err ValueError
    else if negb (length pan_pad =? 1)%nat || negb (ascii_hexchar pan_pad) then Err ValueError
    else
      let validation_data := slice pv_offset pv_length pan in
      if negb (length validation_data =? pv_length)%nat then Err ValueError
      else
        let padc := match pan_pad with c :: _ => c | [] => 0 end in
        let validation_data := ascii_upper (ljust 16 padc (firstn 16 validation_data)) in
        do vb <- bytes_fromhex validation_data;
        do e <- encrypt_ecb cd pvk vb;
        Ok (translate16 table (hex_upper e)).

  Definition generate_ibm3624_pin (pvk : bytes) (table offset pan : str)
             (pv_offset pv_length : nat) (pan_pad : str) : res str :=
    do ip <- ibm_intermediate pvk table offset pan pv_offset pv_length pan_pad;
    ibm_add ip offset.

  Definition generate_ibm3624_offset (pvk : bytes) (table pin pan : str)
             (pv_offset pv_length : nat) (pan_pad : str) : res str :=
    do ip <- ibm_intermediate pvk table pin pan pv_offset pv_length pan_pad;
    ibm_sub ip pin.

  Definition generate_visa_pvv (pvk : bytes) (pvki pin pan : str) : res str :=
    if negb (mem_nat (length pvk) [8; 16; 24]%nat) then Err ValueError
    else if negb (length pvki =? 1)%nat || negb (ascii_numeric pvki) then Err ValueError
    else if negb (length pin =? 4)%nat || negb (ascii_numeric pin) then Err ValueError
    else if (length pan <? 12)%nat || negb (ascii_numeric pan) then Err ValueError
    else
      let tsp := drop_last 1 (last_n 12 pan) ++ pvki ++ pin in
      do tb <- bytes_fromhex tsp;
      do e <- encrypt_ecb cd pvk tb;
      Ok (decimalize 4 (hex_lower e)).
End WithCiphers.
