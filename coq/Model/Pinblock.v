(* psec/pinblock.py.  Random fill is an explicit argument:
   [choices] = the ten secrets.choice("ABCDEF") symbols of format 3,
   [tape8]   = the os.urandom(8) bytes of the format 4 PIN field. *)
From Psec Require Export Model.Tools.
Open Scope N_scope.

Definition bad_pin (pin : str) : bool :=
  (length pin <? 4)%nat || (12 <? length pin)%nat || negb (ascii_numeric pin).
Definition bad_pan13 (pan : str) : bool :=
  (length pan <? 13)%nat || negb (ascii_numeric pan).

Definition chF : N := 70.
Definition chA : N := 65.

(* b"\x00\x00" + a2b_hex(pan[-13:-1]) *)
Definition pan_block (pan : str) : res bytes :=
  do p <- a2b_hex (drop_last 1 (last_n 13 pan)); Ok (0 :: 0 :: p).

Definition encode_pinblock_iso_0 (pin pan : str) : res bytes :=
  if bad_pin pin then Err ValueError
  else if bad_pan13 pan then Err ValueError
  else
    do l <- to_bytes_be 1 (lenN pin);
    do body <- a2b_hex (pin ++ repeat chF (14 - length pin));
    do pb <- pan_block pan;
    Ok (py_xor (l ++ body) pb).

Definition encode_pinblock_iso_2 (pin : str) : res bytes :=
  if bad_pin pin then Err ValueError
  else
    do l <- to_bytes_be 1 (lenN pin + 32);
    do body <- a2b_hex (pin ++ repeat chF (14 - length pin));
    Ok (l ++ body).

Definition encode_pinblock_iso_3 (pin pan choices : str) : res bytes :=
  if bad_pin pin then Err ValueError
  else if bad_pan13 pan then Err ValueError
  else
    do l <- to_bytes_be 1 (lenN pin + 48);
    do body <- a2b_hex (pin ++ firstn (14 - length pin) choices);
    do pb <- pan_block pan;
    Ok (py_xor (l ++ body) pb).

Definition encode_pin_field_iso_4 (pin : str) (tape8 : bytes) : res bytes :=
  if bad_pin pin then Err ValueError
  else
    let random_pad := hex_upper tape8 in
    do l <- to_bytes_be 1 (lenN pin);
    do pin_len_hex <- index (hex_lower l) 1;
    a2b_hex ([52] ++ [pin_len_hex] ++ pin ++ repeat chA (14 - length pin) ++ random_pad).

Definition encode_pan_field_iso_4 (pan : str) : res bytes :=
  if (length pan <? 1)%nat || (19 <? length pan)%nat || negb (ascii_numeric pan)
  then Err ValueError
  else a2b_hex (ljust 32 48 (str_of_N (N.of_nat (length pan - 12)) ++ rjust 12 48 pan)).

(* shared tail of the format 0 / 2 / 3 / 4 decoders, on the upper-case hex text:
   [fill_ok] receives the fill characters and the PIN length *)
Definition decode_body (ctrl : N) (fill_ok : str -> nat -> bool) (fill_end : nat)
           (block : str) : res str :=
  do c0 <- index block 0;
  if negb (c0 =? ctrl) then Err ValueError
  else
    do c1 <- index block 1;
    do pin_len <- int_of_hex [c1];
    if (pin_len <? 4) || (12 <? pin_len) then Err ValueError
    else
      let pl := N.to_nat pin_len in
      if negb (fill_ok (firstn (fill_end - (pl + 2)) (skipn (pl + 2) block)) pl) then Err ValueError
      else
        let pin := slice 2 pl block in
        if negb (ascii_numeric pin) then Err ValueError else Ok pin.

Definition fill_is (ch : N) (fill : str) (pl : nat) : bool := list_eqb fill (repeat ch (14 - pl)).
Definition fill_af (fill : str) (pl : nat) : bool := forallb (fun c => (65 <=? c) && (c <=? 70)) fill.

Definition decode_pinblock_iso_0 (pinblock : bytes) (pan : str) : res str :=
  if bad_pan13 pan then Err ValueError
  else if negb (length pinblock =? 8)%nat then Err ValueError
  else
    do pb <- pan_block pan;
    decode_body 48 (fill_is chF) 16 (hex_upper (py_xor pinblock pb)).

Definition decode_pinblock_iso_2 (pinblock : bytes) : res str :=
  if negb (length pinblock =? 8)%nat then Err ValueError
  else decode_body 50 (fill_is chF) 16 (hex_upper pinblock).

Definition decode_pinblock_iso_3 (pinblock : bytes) (pan : str) : res str :=
  if bad_pan13 pan then Err ValueError
  else if negb (length pinblock =? 8)%nat then Err ValueError
  else
    do pb <- pan_block pan;
    decode_body 51 fill_af 16 (hex_upper (py_xor pinblock pb)).

Definition decode_pin_field_iso_4 (pin_field : bytes) : res str :=
  if negb (length pin_field =? 16)%nat then Err ValueError
  else decode_body 52 (fill_is chA) 16 (hex_upper pin_field).

Section WithCiphers.
  Variable ca : cipher.

  Definition encipher_pinblock_iso_4 (key : bytes) (pin pan : str) (tape8 : bytes) : res bytes :=
    do pin_field <- encode_pin_field_iso_4 pin tape8;
    do pan_field <- encode_pan_field_iso_4 pan;
    do a <- encrypt_ecb ca key pin_field;
    let b := py_xor a pan_field in
    encrypt_ecb ca key b.

  Definition decipher_pinblock_iso_4 (key pin_block : bytes) (pan : str) : res str :=
    do b <- decrypt_ecb ca key pin_block;
    do pan_field <- encode_pan_field_iso_4 pan;
    let a := py_xor b pan_field in
    do pin_field <- decrypt_ecb ca key a;
    decode_pin_field_iso_4 pin_field.
End WithCiphers.
