(* psec/mac.py *)
From Psec Require Export Model.Tools.
Open Scope N_scope.

Definition pad_iso_1 (data : bytes) (block_size : nat) : res bytes :=
  if (block_size =? 0)%nat then Err (Crash CZeroDiv)
  else
    let remainder := (length data mod block_size)%nat in
    if (0 <? remainder)%nat then Ok (data ++ repeat 0 (block_size - remainder))
    else if (length data =? 0)%nat then Ok (repeat 0 block_size)
    else Ok data.

Definition pad_iso_2 (data : bytes) (block_size : nat) : res bytes :=
  pad_iso_1 (data ++ [128]) block_size.

Definition pad_iso_3 (data : bytes) (block_size : nat) : res bytes :=
  do hd <- to_bytes_be block_size (lenN data * 8);
  do t <- pad_iso_1 data block_size;
  Ok (hd ++ t).

(* _pad_dispatch[padding]: KeyError -> ValueError *)
Definition pad_dispatch (padding : N) (data : bytes) (block_size : nat) : res bytes :=
  match padding with
  | 1 => pad_iso_1 data block_size
  | 2 => pad_iso_2 data block_size
  | 3 => pad_iso_3 data block_size
  | _ => Err ValueError
  end.

Section WithCiphers.
  Variable cd : cipher.
  Variable ca : cipher.

  (* generate_cbc_mac(key, data, padding, length=None, algorithm=None);
     [aes] = (algorithm == Algorithm.AES) *)
  Definition generate_cbc_mac (key data : bytes) (padding : N) (mlen : option nat)
             (aes : bool) : res bytes :=
    let c := if aes then ca else cd in
    let block_size := bs c in
    let mlen := match mlen with Some l => l | None => block_size end in
    do data <- pad_dispatch padding data block_size;
    do ct <- encrypt_cbc c key (repeat 0 block_size) data;
    Ok (firstn mlen (last_n block_size ct)).

  (* generate_retail_mac(key1, key2, data, padding, length=None) *)
  Definition generate_retail_mac (key1 key2 data : bytes) (padding : N)
             (mlen : option nat) : res bytes :=
    let mlen := match mlen with Some l => l | None => 8%nat end in
    do data <- pad_dispatch padding data 8;
    if negb (valid_key cd key1) then Err ValueError else
    (* encryptor1.update(data)[-8:] *)
    let h := last_n 8 (cbc_enc_n cd key1 (length data / 8) (repeat 0 8) data) in
    if negb (valid_key cd key2) then Err ValueError else
    (* decryptor2 is CBC with IV = h; encryptor1 continues its chain from h *)
    let d := cbc_dec_n cd key2 1 h h in
    Ok (firstn mlen (cbc_enc_n cd key1 1 h d)).
End WithCiphers.
