(* C15, part 3: key derivation, MAC generation and KeyBlock.unwrap / unwrap()
   raise KeyBlockError / HeaderError only. *)
From Coq Require Import Lia ZifyBool ZifyNat ZifyN.
From Psec Require Import Lib.Base Cipher.Cipher Model.Tools Model.Mac Model.Tr31
  Proofs.XorLemmas Proofs.Tr31Defs Proofs.Tr31SafetyBase Proofs.Tr31SafetyLoad.
Ltac Zify.zify_post_hook ::= Z.to_euclidean_division_equations.
Open Scope N_scope.

Lemma version_cases v : version_supported v = true ->
  v = [65] \/ v = [66] \/ v = [67] \/ v = [68].
Proof.
  destruct v as [|c [|? ?]]; try discriminate. unfold version_supported, cA, cB, cC, cD.
  rewrite !orb_true_iff, !N.eqb_eq. intuition (subst; auto).
Qed.

Lemma extract_key_safe d : safe (extract_key d).
Proof.
  unfold extract_key. destruct (negb (be_int (firstn 2 d) mod 8 =? 0)); [exact I|].
  destruct (negb _); exact I.
Qed.

Lemma mem_nat_in n l : mem_nat n l = true <-> In n l.
Proof.
  unfold mem_nat. rewrite existsb_exists. split.
  - intros (x & Hx & E). apply Nat.eqb_eq in E. subst. exact Hx.
  - intros H. exists n. split; [exact H | apply Nat.eqb_refl].
Qed.

Section Unwrap.
  Variable cd ca : cipher.
  Hypothesis CO : ciphers_ok cd ca.

  Let Hd : cipher_ok cd := cd_ok cd ca CO.
  Let Ha : cipher_ok ca := ca_ok cd ca CO.

  Lemma valid_cd k : In (length k) [8; 16; 24]%nat -> valid_key cd k = true.
  Proof. intros H. rewrite (cd_keys cd ca CO). apply mem_nat_in. exact H. Qed.
  Lemma valid_ca k : In (length k) [16; 24; 32]%nat -> valid_key ca k = true.
  Proof. intros H. rewrite (ca_keys cd ca CO). apply mem_nat_in. exact H. Qed.

  Lemma mac_des key data l : valid_key cd key = true -> (l <= 8)%nat ->
    exists m, generate_cbc_mac cd ca key data 1 (Some l) false = Ok m /\ length m = l.
  Proof.
    intros Hk Hl.
    destruct (generate_cbc_mac_ok cd ca key data l false Hd Hk) as (m & E & L & _).
    - cbv iota. rewrite (cd_bs cd ca CO). exact Hl.
    - exists m. split; assumption.
  Qed.

  Lemma mac_aes key data l : valid_key ca key = true -> (l <= 16)%nat ->
    exists m, generate_cbc_mac cd ca key data 1 (Some l) true = Ok m /\ length m = l.
  Proof.
    intros Hk Hl.
    destruct (generate_cbc_mac_ok cd ca key data l true Ha Hk) as (m & E & L & _).
    - cbv iota. rewrite (ca_bs cd ca CO). exact Hl.
    - exists m. split; assumption.
  Qed.

  (* ---------------- version B ---------------- *)
  Lemma b_derive_loop_ok kbpk k1 calls : valid_key cd kbpk = true ->
    exists e a, b_derive_loop cd ca kbpk k1 calls = Ok (e, a) /\
                length e = (8 * length calls)%nat /\ length a = (8 * length calls)%nat.
  Proof.
    intros Hk. induction calls as [|i r IH].
    - exists [], []. repeat split.
    - cbn [b_derive_loop].
      destruct (mac_des kbpk (py_xor (b_kd_input i 0 (length kbpk)) k1) 8 Hk (le_n _)) as (e & Ee & Le).
      destruct (mac_des kbpk (py_xor (b_kd_input i 1 (length kbpk)) k1) 8 Hk (le_n _)) as (a & Ea & La).
      destruct IH as (e' & a' & E' & Le' & La').
      rewrite Ee, Ea, E'. cbn [bind fst snd]. eexists. eexists. split; [reflexivity|].
      rewrite !app_length. cbn [length]. lia.
  Qed.

  Lemma b_derive_ok kbpk : In (length kbpk) [16; 24]%nat ->
    exists kbek kbak, b_derive cd ca kbpk = Ok (kbek, kbak) /\
                      length kbek = length kbpk /\ length kbak = length kbpk.
  Proof.
    intros Hl. assert (Hk : valid_key cd kbpk = true) by (apply valid_cd; cbn in *; tauto).
    unfold b_derive, derive_des_cmac_subkey.
    destruct (cmac_subkeys_ok cd Hd r64 kbpk Hk) as (k1 & k2 & E & _). rewrite E. cbn [bind fst].
    destruct (b_derive_loop_ok kbpk k1 (if (length kbpk =? 16)%nat then [1; 2] else [1; 2; 3]) Hk)
      as (e & a & El & Le & La).
    exists e, a. split; [exact El|].
    destruct Hl as [Hl|[Hl|[]]]; rewrite <- Hl in *; cbn in Le, La; split; assumption.
  Qed.

  Lemma b_generate_mac_ok kbak hdr kd : valid_key cd kbak = true -> forallb is_ascii hdr = true ->
    exists mac, b_generate_mac cd ca kbak hdr kd = Ok mac /\ length mac = 8%nat.
  Proof.
    intros Hk Hh. unfold b_generate_mac, derive_des_cmac_subkey.
    destruct (cmac_subkeys_ok cd Hd r64 kbak Hk) as (k1 & k2 & E & _). rewrite E. cbn [bind fst].
    rewrite (encode_ascii_ok hdr Hh). cbn [bind].
    apply mac_des; [exact Hk | lia].
  Qed.

  Lemma len_check_false n (kd : bytes) : (0 < n)%nat ->
    (length kd <? n)%nat || negb (length kd mod n =? 0)%nat = false ->
    (0 < length kd)%nat /\ (length kd mod n = 0)%nat.
  Proof.
    intros Hn H. apply orb_false_iff in H as [H1 H2]. apply negb_false_iff in H2.
    apply Nat.ltb_ge in H1. apply Nat.eqb_eq in H2. split; [lia | exact H2].
  Qed.

  Lemma b_unwrap_safe kbpk hdr kd mac : forallb is_ascii hdr = true -> length mac = 8%nat ->
    safe (b_unwrap cd ca kbpk hdr kd mac).
  Proof.
    intros Hh Hm. unfold b_unwrap, b_unwrap_clear.
    destruct (mem_nat (length kbpk) [16; 24]%nat) eqn:M; cbn [negb]; [|exact I].
    apply mem_nat_in in M.
    destruct ((length kd <? 8)%nat || negb (length kd mod 8 =? 0)%nat) eqn:LC; [exact I|].
    apply len_check_false in LC as [P1 P2]; [|lia].
    destruct (b_derive_ok kbpk M) as (kbek & kbak & E & Le & La). rewrite E. cbn [bind].
    assert (Vk : valid_key cd kbek = true) by (apply valid_cd; rewrite Le; cbn in *; tauto).
    assert (Va : valid_key cd kbak = true) by (apply valid_cd; rewrite La; cbn in *; tauto).
    destruct (decrypt_cbc_ok cd Hd kbek mac kd Vk) as (pt & Ed);
      rewrite ?(cd_bs cd ca CO); try assumption.
    rewrite Ed. cbn [bind].
    destruct (b_generate_mac_ok kbak hdr pt Va Hh) as (m & Em & _). rewrite Em. cbn [bind].
    destruct (negb (list_eqb m mac)); [exact I|]. cbn [bind]. apply extract_key_safe.
  Qed.

  (* ---------------- versions A and C ---------------- *)
  Lemma c_derive_len kbpk :
    length (fst (c_derive kbpk)) = length kbpk /\ length (snd (c_derive kbpk)) = length kbpk.
  Proof. unfold c_derive. cbn [fst snd]. rewrite !py_xor_length. split; reflexivity. Qed.

  Lemma c_generate_mac_ok kbak hdr kd : valid_key cd kbak = true -> forallb is_ascii hdr = true ->
    exists mac, c_generate_mac cd ca kbak hdr kd = Ok mac /\ length mac = 4%nat.
  Proof.
    intros Hk Hh. unfold c_generate_mac. rewrite (encode_ascii_ok hdr Hh). cbn [bind].
    apply mac_des; [exact Hk | lia].
  Qed.

  Lemma c_unwrap_safe kbpk hdr kd mac : forallb is_ascii hdr = true -> (8 <= length hdr)%nat ->
    safe (c_unwrap cd ca kbpk hdr kd mac).
  Proof.
    intros Hh Hl. unfold c_unwrap, c_unwrap_clear.
    destruct (mem_nat (length kbpk) [8; 16; 24]%nat) eqn:M; cbn [negb]; [|exact I].
    apply mem_nat_in in M.
    destruct ((length kd <? 8)%nat || negb (length kd mod 8 =? 0)%nat) eqn:LC; [exact I|].
    apply len_check_false in LC as [P1 P2]; [|lia].
    destruct (c_derive_len kbpk) as [Le La]. destruct (c_derive kbpk) as [kbek kbak]. cbn [fst snd] in *.
    assert (Vk : valid_key cd kbek = true) by (apply valid_cd; rewrite Le; exact M).
    assert (Va : valid_key cd kbak = true) by (apply valid_cd; rewrite La; exact M).
    destruct (c_generate_mac_ok kbak hdr kd Va Hh) as (m & Em & _). rewrite Em. cbn [bind].
    destruct (negb (list_eqb m mac)); [exact I|]. cbn [bind].
    rewrite (encode_ascii_ok hdr Hh). cbn [bind].
    destruct (decrypt_cbc_ok cd Hd kbek (firstn 8 hdr) kd Vk) as (pt & Ed);
      rewrite ?(cd_bs cd ca CO); try assumption.
    { apply firstn_length_le. exact Hl. }
    rewrite Ed. cbn [bind]. apply extract_key_safe.
  Qed.

  (* ---------------- version D ---------------- *)
  Lemma d_derive_loop_ok kbpk k2 calls : valid_key ca kbpk = true ->
    exists e a, d_derive_loop cd ca kbpk k2 calls = Ok (e, a) /\
                length e = (16 * length calls)%nat /\ length a = (16 * length calls)%nat.
  Proof.
    intros Hk. induction calls as [|i r IH].
    - exists [], []. repeat split.
    - cbn [d_derive_loop].
      destruct (mac_aes kbpk (py_xor (d_kd_input i 0 (length kbpk)) k2) 16 Hk (le_n _)) as (e & Ee & Le).
      destruct (mac_aes kbpk (py_xor (d_kd_input i 1 (length kbpk)) k2) 16 Hk (le_n _)) as (a & Ea & La).
      destruct IH as (e' & a' & E' & Le' & La').
      rewrite Ee, Ea, E'. cbn [bind fst snd]. eexists. eexists. split; [reflexivity|].
      rewrite !app_length. cbn [length]. lia.
  Qed.

  Lemma d_derive_ok kbpk : In (length kbpk) [16; 24; 32]%nat ->
    exists kbek kbak, d_derive cd ca kbpk = Ok (kbek, kbak) /\
                      length kbek = length kbpk /\ length kbak = length kbpk.
  Proof.
    intros Hl. assert (Hk : valid_key ca kbpk = true) by (apply valid_ca; exact Hl).
    unfold d_derive, derive_aes_cmac_subkey.
    destruct (cmac_subkeys_ok ca Ha r128 kbpk Hk) as (k1 & k2 & E & _). rewrite E. cbn [bind snd].
    destruct (d_derive_loop_ok kbpk k2 (if (length kbpk =? 16)%nat then [1] else [1; 2]) Hk)
      as (e & a & El & Le & La).
    rewrite El. cbn [bind fst snd]. eexists. eexists. split; [reflexivity|].
    rewrite !firstn_length.
    destruct Hl as [Hl|[Hl|[Hl|[]]]]; rewrite <- Hl in *; cbn in Le, La; lia.
  Qed.

  Lemma d_generate_mac_ok kbak hdr kd : valid_key ca kbak = true -> forallb is_ascii hdr = true ->
    exists mac, d_generate_mac cd ca kbak hdr kd = Ok mac /\ length mac = 16%nat.
  Proof.
    intros Hk Hh. unfold d_generate_mac, derive_aes_cmac_subkey.
    destruct (cmac_subkeys_ok ca Ha r128 kbak Hk) as (k1 & k2 & E & _). rewrite E. cbn [bind fst].
    rewrite (encode_ascii_ok hdr Hh). cbn [bind].
    apply mac_aes; [exact Hk | lia].
  Qed.

  Lemma d_unwrap_safe kbpk hdr kd mac : forallb is_ascii hdr = true -> length mac = 16%nat ->
    safe (d_unwrap cd ca kbpk hdr kd mac).
  Proof.
    intros Hh Hm. unfold d_unwrap, d_unwrap_clear.
    destruct (mem_nat (length kbpk) [16; 24; 32]%nat) eqn:M; cbn [negb]; [|exact I].
    apply mem_nat_in in M.
    destruct ((length kd <? 16)%nat || negb (length kd mod 16 =? 0)%nat) eqn:LC; [exact I|].
    apply len_check_false in LC as [P1 P2]; [|lia].
    destruct (d_derive_ok kbpk M) as (kbek & kbak & E & Le & La). rewrite E. cbn [bind].
    assert (Vk : valid_key ca kbek = true) by (apply valid_ca; rewrite Le; exact M).
    assert (Va : valid_key ca kbak = true) by (apply valid_ca; rewrite La; exact M).
    destruct (decrypt_cbc_ok ca Ha kbek mac kd Vk) as (pt & Ed);
      rewrite ?(ca_bs cd ca CO); try assumption.
    rewrite Ed. cbn [bind].
    destruct (d_generate_mac_ok kbak hdr pt Va Hh) as (m & Em & _). rewrite Em. cbn [bind].
    destruct (negb (list_eqb m mac)); [exact I|]. cbn [bind]. apply extract_key_safe.
  Qed.

  (* ---------------- KeyBlock.unwrap ---------------- *)
  Theorem kb_unwrap_safe kbpk h s : safe (snd (kb_unwrap cd ca kbpk h s)).
  Proof.
    unfold kb_unwrap, kb_unwrap_gen.
    pose proof (header_load_safe h s) as LS. pose proof (header_load_ok h s) as LO.
    destruct (header_load h s) as [h' r]. cbn [fst snd] in *.
    destruct r as [n|e]; [|exact LS]. cbn [bind].
    destruct (LO n eq_refl) as ((V & _) & (N1 & N2) & AS). clear LO LS.
    destruct (ascii_numeric (slice 1 4 s)) eqn:NUM; cbn [negb]; [|exact I].
    rewrite int_of_dec_ok; [| eapply length_nonnil; apply slice_length; lia | exact NUM]. cbn [bind].
    destruct (negb (dec_value (slice 1 4 s) =? lenN s)); [exact I|].
    assert (HL : length (firstn n s) = n) by (apply firstn_length_le; exact N2).
    destruct (version_cases _ V) as [E|[E|[E|E]]]; rewrite E;
      cbn [algo_block_size key_block_mac_len unwrap_dispatch bind];
      (match goal with |- safe (if ?c then _ else _) => destruct c; [exact I|] end);
      (apply safe_bind; [apply fromhex_kbe_safe|]; intros mac _);
      (match goal with |- safe (if negb (length mac =? ?k)%nat then _ else _) =>
         destruct (Nat.eqb_spec (length mac) k) as [LM|LM]; cbn [negb]; [|exact I] end);
      (apply safe_bind; [apply fromhex_kbe_safe|]; intros kd _).
    - apply c_unwrap_safe; [exact AS | lia].
    - apply b_unwrap_safe; [exact AS | exact LM].
    - apply c_unwrap_safe; [exact AS | lia].
    - apply d_unwrap_safe; [exact AS | exact LM].
  Qed.

  Theorem unwrap_safe kbpk s : safe (unwrap cd ca kbpk s).
  Proof.
    unfold unwrap. pose proof (kb_unwrap_safe kbpk default_header s) as H.
    destruct (kb_unwrap cd ca kbpk default_header s) as [h r]. cbn [snd] in H.
    destruct r as [k|e]; [exact I | exact H].
  Qed.

  (* the object keeps its invariants through an unwrap, successful or not *)
  Lemma kb_unwrap_fst kbpk h s : fst (kb_unwrap cd ca kbpk h s) = fst (header_load h s).
  Proof. unfold kb_unwrap, kb_unwrap_gen. destruct (header_load h s). reflexivity. Qed.
End Unwrap.
