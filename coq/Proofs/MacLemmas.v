(* psec.mac.generate_cbc_mac / generate_retail_mac are ISO/IEC 9797-1 MAC
   algorithms 1 and 3 (Spec/ISO9797.v) over the padded message. *)
From Coq Require Import Lia ZifyBool ZifyNat ZifyN.
From Psec Require Import Lib.Base Cipher.Cipher Model.Mac Spec.ISO9797.
From Psec Require Import Proofs.XorLemmas Proofs.PadLemmas Proofs.TdesLemmas.
Ltac Zify.zify_post_hook ::= Z.to_euclidean_division_equations.
Open Scope nat_scope.

(* ------------------------------------------------------------------ *)
(* lists                                                                *)
Lemma last_n_app {A} k (a b : list A) : k <= length b -> last_n k (a ++ b) = last_n k b.
Proof.
  intros H. unfold last_n. rewrite app_length, skipn_app.
  rewrite skipn_all2 by lia. cbn [app]. f_equal. lia.
Qed.

Lemma last_n_all {A} k (a : list A) : length a <= k -> last_n k a = a.
Proof. intros H. unfold last_n. replace (length a - k) with 0 by lia. reflexivity. Qed.

Lemma pos_multiple a b : 0 < b -> 0 < a -> a mod b = 0 ->
  a = (a / b) * b /\ 0 < a / b /\ b <= a.
Proof.
  intros Hb Ha Hm. pose proof (Nat.div_mod a b ltac:(lia)) as E.
  rewrite Hm, Nat.add_0_r in E. destruct (a / b) as [|q].
  - rewrite Nat.mul_0_r in E. lia.
  - rewrite Nat.mul_succ_r in E. rewrite (Nat.mul_comm (S q) b), Nat.mul_succ_r. lia.
Qed.

Lemma bytes_ok_rev' l : bytes_ok l = true -> bytes_ok (rev l) = true.
Proof.
  unfold bytes_ok. rewrite !forallb_forall. intros H x Hx. apply H. apply in_rev. assumption.
Qed.

Lemma le_bytes_ok n v : bytes_ok (le_bytes n v) = true.
Proof.
  revert v. induction n as [|n IH]; intros v; cbn [le_bytes]; [reflexivity|].
  apply bytes_ok_cons. split; [|apply IH]. apply N.mod_lt. discriminate.
Qed.

Lemma be_bytes_ok n v : bytes_ok (be_bytes n v) = true.
Proof. unfold be_bytes. apply bytes_ok_rev'. apply le_bytes_ok. Qed.

Lemma xor_pos_zero_l n b : length b = n -> xor_pos (repeat 0%N n) b = b.
Proof.
  revert b. induction n as [|n IH]; intros [|x b] H; cbn [length] in H; try discriminate; cbn [repeat xor_pos].
  - reflexivity.
  - rewrite N.lxor_0_l. f_equal. apply IH. lia.
Qed.

(* ------------------------------------------------------------------ *)
(* the spec's splitting is faithful                                     *)
Lemma split_blocks_S bsz n data :
  split_blocks bsz (S n) data = firstn bsz data :: split_blocks bsz n (skipn bsz data).
Proof. reflexivity. Qed.

Lemma split_blocks_length bsz n data : length (split_blocks bsz n data) = n.
Proof. revert data. induction n; intros; cbn [split_blocks length]; auto. Qed.

Lemma split_blocks_concat bsz n data : length data = n * bsz ->
  concat (split_blocks bsz n data) = data.
Proof.
  revert data. induction n as [|n IH]; intros data H; cbn [split_blocks concat].
  - destruct data; [reflexivity|discriminate].
  - rewrite IH by (rewrite skipn_length; lia). apply firstn_skipn.
Qed.

Lemma split_blocks_block bsz n data b : length data = n * bsz ->
  In b (split_blocks bsz n data) -> length b = bsz.
Proof.
  revert data. induction n as [|n IH]; intros data H Hin; cbn [split_blocks In] in Hin; [contradiction|].
  destruct Hin as [<-|Hin].
  - rewrite firstn_length. lia.
  - apply (IH (skipn bsz data)); [rewrite skipn_length; lia | assumption].
Qed.

Lemma split_blocks_app bsz n1 n2 d1 d2 : length d1 = n1 * bsz ->
  split_blocks bsz (n1 + n2) (d1 ++ d2) = split_blocks bsz n1 d1 ++ split_blocks bsz n2 d2.
Proof.
  revert d1. induction n1 as [|n1 IH]; intros d1 H.
  - destruct d1; [reflexivity|discriminate].
  - cbn [Nat.add split_blocks app].
    rewrite firstn_app, skipn_app.
    replace (bsz - length d1) with 0 by lia. cbn [firstn skipn]. rewrite app_nil_r.
    f_equal. apply IH. rewrite skipn_length. lia.
Qed.

Theorem split_blocks_faithful bsz n data : length data = n * bsz ->
  length (split_blocks bsz n data) = n /\
  concat (split_blocks bsz n data) = data /\
  forall b, In b (split_blocks bsz n data) -> length b = bsz.
Proof.
  intros H. split; [apply split_blocks_length|]. split; [apply split_blocks_concat; assumption|].
  intros b. apply split_blocks_block. assumption.
Qed.

Theorem mac_truncate_leftmost len (m : list N) :
  mac_truncate len m = firstn len m /\
  length (mac_truncate len m) = Nat.min len (length m) /\
  exists rest, m = mac_truncate len m ++ rest.
Proof.
  split; [reflexivity|]. split; [apply firstn_length|].
  exists (skipn len m). symmetry. apply firstn_skipn.
Qed.

(* ------------------------------------------------------------------ *)
(* the iteration of algorithm 1                                         *)
Lemma alg1_from_nil c k h : alg1_from c k h [] = h.
Proof. reflexivity. Qed.

Lemma alg1_from_cons c k h d bl :
  alg1_from c k h (d :: bl) = alg1_from c k (enc c k (xor_pos h d)) bl.
Proof. reflexivity. Qed.

(* CBC-MAC splice identity *)
Theorem alg1_from_app c k h bl1 bl2 :
  alg1_from c k h (bl1 ++ bl2) = alg1_from c k (alg1_from c k h bl1) bl2.
Proof. unfold alg1_from. apply fold_left_app. Qed.

Theorem alg1_splice c k bl1 bl2 :
  alg1 c k (bl1 ++ bl2) = alg1_from c k (alg1 c k bl1) bl2.
Proof. unfold alg1. apply alg1_from_app. Qed.

Theorem alg1_splice_all c k h bl1 bl2 :
  alg1_from c k h (bl1 ++ bl2) = alg1_from c k (alg1_from c k h bl1) bl2 /\
  alg1 c k (bl1 ++ bl2) = alg1_from c k (alg1 c k bl1) bl2 /\
  alg1 c k bl1 = alg1_from c k (repeat 0%N (bs c)) bl1.
Proof. split; [apply alg1_from_app|]. split; [apply alg1_splice|reflexivity]. Qed.

(* ------------------------------------------------------------------ *)
(* padding: which methods succeed, and bytes stay bytes                 *)
Lemma pad_dispatch_ok_cases p data bsz out :
  pad_dispatch p data bsz = Ok out -> (p = 1 \/ p = 2 \/ p = 3)%N.
Proof.
  intros E.
  destruct (N.eq_dec p 1); [auto|]. destruct (N.eq_dec p 2); [auto|]. destruct (N.eq_dec p 3); [auto|].
  rewrite pad_unknown_method in E by assumption. discriminate.
Qed.

Lemma pad1_bytes_ok data bsz out : bytes_ok data = true ->
  pad_iso_1 data bsz = Ok out -> bytes_ok out = true.
Proof.
  intros B. unfold pad_iso_1.
  destruct (bsz =? 0); [discriminate|].
  destruct (0 <? length data mod bsz).
  - intros E; injection E as <-. apply bytes_ok_app. split; [assumption|]. apply bytes_ok_repeat. reflexivity.
  - destruct (length data =? 0); intros E; injection E as <-; [|assumption].
    apply bytes_ok_repeat. reflexivity.
Qed.

Lemma pad_dispatch_bytes_ok p data bsz out : bytes_ok data = true ->
  pad_dispatch p data bsz = Ok out -> bytes_ok out = true.
Proof.
  intros B E. destruct (pad_dispatch_ok_cases _ _ _ _ E) as [->|[->| ->]]; cbn [pad_dispatch] in E.
  - eapply pad1_bytes_ok; eassumption.
  - unfold pad_iso_2 in E. eapply pad1_bytes_ok; [|eassumption].
    apply bytes_ok_app. split; [assumption|reflexivity].
  - unfold pad_iso_3, to_bytes_be in E.
    destruct (lenN data * 8 <? 256 ^ N.of_nat bsz)%N; [|discriminate]. cbn [bind] in E.
    destruct (pad_iso_1 data bsz) as [t|] eqn:E1; [|discriminate]. cbn [bind] in E.
    injection E as <-. apply bytes_ok_app. split; [apply be_bytes_ok|].
    eapply pad1_bytes_ok; eassumption.
Qed.

(* the padding succeeds for methods 1 and 2, and for method 3 exactly when
   the bit length fits one block *)
Lemma pad_dispatch_total p data bsz : 0 < bsz ->
  (p = 1 \/ p = 2 \/ (p = 3 /\ N.of_nat (length data) * 8 < 256 ^ N.of_nat bsz))%N ->
  exists out, pad_dispatch p data bsz = Ok out.
Proof.
  intros Hb [->|[->|[-> Hfit]]]; cbn [pad_dispatch].
  - eexists. apply pad1_shape; assumption.
  - unfold pad_iso_2. eexists. apply pad1_shape; assumption.
  - destruct (pad3_exact data bsz Hb Hfit) as (k & E & _). eexists; eassumption.
Qed.

(* ------------------------------------------------------------------ *)
(* one lawful cipher                                                    *)
Definition mlen_default (mlen : option nat) (d : nat) : nat :=
  match mlen with Some l => l | None => d end.

(* generate_cbc_mac once the algorithm has been chosen *)
Definition cbc_mac_core (c : cipher) (key data : bytes) (padding : N) (mlen : option nat) : res bytes :=
  do data <- pad_dispatch padding data (bs c);
  do ct <- encrypt_cbc c key (repeat 0%N (bs c)) data;
  Ok (firstn (mlen_default mlen (bs c)) (last_n (bs c) ct)).

Lemma cbc_enc_S c k n iv data :
  cbc_enc_n c k (S n) iv data =
  enc c k (xorb (firstn (bs c) data) iv) ++
  cbc_enc_n c k n (enc c k (xorb (firstn (bs c) data) iv)) (skipn (bs c) data).
Proof. reflexivity. Qed.

Section OneCipher.
  Variable c : cipher.
  Hypothesis Hc : cipher_ok c.

  Lemma block_firstn data : bs c <= length data -> bytes_ok data = true ->
    block_ok c (firstn (bs c) data).
  Proof.
    intros L B. split; [rewrite firstn_length; lia | apply bytes_ok_firstn; assumption].
  Qed.

  Lemma block_zero : block_ok c (repeat 0%N (bs c)).
  Proof. split; [apply repeat_length | apply bytes_ok_repeat; reflexivity]. Qed.

  (* the library's xor on two blocks is the spec's xor (arguments swapped) *)
  Lemma xorb_block a b : block_ok c a -> block_ok c b ->
    block_ok c (xorb a b) /\ xorb a b = xor_pos b a.
  Proof.
    intros [La Ba] [Lb Bb]. unfold xorb. split.
    - split; [rewrite py_xor_length; assumption | apply py_xor_bytes_ok; assumption].
    - rewrite py_xor_is_bytewise by assumption. apply xor_pos_comm. congruence.
  Qed.

  (* the last block of n+1 blocks of CBC is the iteration H_{n+1}, from any H_0 *)
  Lemma cbc_enc_chain k n : valid_key c k = true -> forall iv data,
    block_ok c iv -> length data = S n * bs c -> bytes_ok data = true ->
    length (cbc_enc_n c k (S n) iv data) = S n * bs c /\
    last_n (bs c) (cbc_enc_n c k (S n) iv data) =
      alg1_from c k iv (split_blocks (bs c) (S n) data) /\
    block_ok c (last_n (bs c) (cbc_enc_n c k (S n) iv data)).
  Proof.
    intros Hk. induction n as [|n IH]; intros iv data Hiv L B.
    - rewrite cbc_enc_S, split_blocks_S. cbn [cbc_enc_n split_blocks]. rewrite app_nil_r.
      assert (HD : block_ok c (firstn (bs c) data)) by (apply block_firstn; [lia|assumption]).
      destruct (xorb_block _ _ HD Hiv) as [HX EX].
      pose proof (enc_block c Hc k _ Hk HX) as HE.
      rewrite alg1_from_cons, alg1_from_nil, <- EX.
      rewrite last_n_all by (destruct HE as [-> _]; lia).
      destruct HE as [LE BE]. repeat split; try assumption. lia.
    - rewrite cbc_enc_S, split_blocks_S.
      assert (HD : block_ok c (firstn (bs c) data)) by (apply block_firstn; [lia|assumption]).
      destruct (xorb_block _ _ HD Hiv) as [HX EX].
      pose proof (enc_block c Hc k _ Hk HX) as HE.
      destruct (IH (enc c k (xorb (firstn (bs c) data) iv)) (skipn (bs c) data) HE) as (L' & E' & B').
      { rewrite skipn_length. lia. }
      { apply bytes_ok_skipn; assumption. }
      rewrite last_n_app by lia.
      rewrite alg1_from_cons, <- EX. rewrite app_length.
      destruct HE as [LE BE]. destruct B' as [LB' BB']. repeat split; try assumption; lia.
  Qed.

  (* a padded message passes the wrapper's guards *)
  Lemma encrypt_cbc_zero_iv key padded : 0 < length padded -> length padded mod bs c = 0 ->
    encrypt_cbc c key (repeat 0%N (bs c)) padded =
    if valid_key c key then Ok (cbc_enc_n c key (length padded / bs c) (repeat 0%N (bs c)) padded)
    else Err ValueError.
  Proof.
    intros Hp Hm. pose proof (bs_pos c Hc) as Hb. unfold encrypt_cbc, nblocks.
    assert (bad_len c padded = false) as ->.
    { unfold bad_len. rewrite Hm. cbn [Nat.eqb negb]. rewrite orb_false_r. apply Nat.ltb_ge.
      apply (pos_multiple _ _ Hb Hp Hm). }
    rewrite repeat_length, Nat.eqb_refl. destruct (valid_key c key); reflexivity.
  Qed.

  Lemma cbc_mac_after_pad key data padding mlen padded :
    pad_dispatch padding data (bs c) = Ok padded ->
    cbc_mac_core c key data padding mlen =
    if valid_key c key
    then Ok (firstn (mlen_default mlen (bs c))
               (last_n (bs c) (cbc_enc_n c key (length padded / bs c) (repeat 0%N (bs c)) padded)))
    else Err ValueError.
  Proof.
    intros E. pose proof (bs_pos c Hc) as Hb.
    destruct (pad_multiple _ _ _ _ Hb (pad_dispatch_ok_cases _ _ _ _ E) E) as (Hp & Hm & _).
    unfold cbc_mac_core. rewrite E. cbn [bind]. rewrite encrypt_cbc_zero_iv by assumption.
    destruct (valid_key c key); reflexivity.
  Qed.

  (* H_q of the padded message, as computed by CBC from the zero IV *)
  Lemma cbc_last_is_alg1 key padded : valid_key c key = true -> bytes_ok padded = true ->
    0 < length padded -> length padded mod bs c = 0 ->
    last_n (bs c) (cbc_enc_n c key (length padded / bs c) (repeat 0%N (bs c)) padded) =
      alg1 c key (split_blocks (bs c) (length padded / bs c) padded) /\
    block_ok c (alg1 c key (split_blocks (bs c) (length padded / bs c) padded)).
  Proof.
    intros Hk B Hp Hm. pose proof (bs_pos c Hc) as Hb.
    destruct (pos_multiple _ _ Hb Hp Hm) as (EL & Hq & _).
    destruct (length padded / bs c) as [|n] eqn:En; [lia|].
    destruct (cbc_enc_chain key n Hk (repeat 0%N (bs c)) padded block_zero) as (_ & E & HB);
      [assumption | assumption |].
    unfold alg1. rewrite <- E. split; [reflexivity | assumption].
  Qed.

  Theorem cbc_mac_core_is_alg1 key data padding mlen padded :
    valid_key c key = true -> bytes_ok data = true ->
    pad_dispatch padding data (bs c) = Ok padded ->
    cbc_mac_core c key data padding mlen =
    Ok (mac_truncate (mlen_default mlen (bs c))
          (alg1 c key (split_blocks (bs c) (length padded / bs c) padded))).
  Proof.
    intros Hk B E. pose proof (bs_pos c Hc) as Hb.
    rewrite (cbc_mac_after_pad _ _ _ _ _ E), Hk.
    destruct (pad_multiple _ _ _ _ Hb (pad_dispatch_ok_cases _ _ _ _ E) E) as (Hp & Hm & _).
    pose proof (pad_dispatch_bytes_ok _ _ _ _ B E) as Bp.
    destruct (cbc_last_is_alg1 key padded Hk Bp Hp Hm) as [-> _]. reflexivity.
  Qed.

  Theorem cbc_mac_core_bad_key key data padding mlen padded :
    pad_dispatch padding data (bs c) = Ok padded -> valid_key c key = false ->
    cbc_mac_core c key data padding mlen = Err ValueError.
  Proof. intros E Hk. rewrite (cbc_mac_after_pad _ _ _ _ _ E), Hk. reflexivity. Qed.

  (* the only crash: method 3 on a message whose bit length does not fit one block *)
  Theorem cbc_mac_core_crash_iff key data padding mlen :
    is_crash (cbc_mac_core c key data padding mlen) = true <->
    (padding = 3 /\ 256 ^ N.of_nat (bs c) <= N.of_nat (length data) * 8)%N.
  Proof.
    pose proof (bs_pos c Hc) as Hb.
    assert (Hok : forall padded, pad_dispatch padding data (bs c) = Ok padded ->
                  is_crash (cbc_mac_core c key data padding mlen) = false).
    { intros padded E. rewrite (cbc_mac_after_pad _ _ _ _ _ E). destruct (valid_key c key); reflexivity. }
    destruct (N.eq_dec padding 3) as [->|N3].
    - destruct (N.ltb_spec (N.of_nat (length data) * 8) (256 ^ N.of_nat (bs c))) as [Hfit|Hover].
      + destruct (pad_dispatch_total 3 data (bs c) Hb) as (out & E); [auto|].
        rewrite (Hok out E). split; [discriminate | intros [_ H]; lia].
      + unfold cbc_mac_core. cbn [pad_dispatch]. rewrite pad3_overflow by assumption. cbn. tauto.
    - destruct (N.eq_dec padding 1) as [->|N1]; [|destruct (N.eq_dec padding 2) as [->|N2]].
      + destruct (pad_dispatch_total 1 data (bs c) Hb) as (out & E); [auto|].
        rewrite (Hok out E). split; [discriminate | intros [H _]; discriminate].
      + destruct (pad_dispatch_total 2 data (bs c) Hb) as (out & E); [auto|].
        rewrite (Hok out E). split; [discriminate | intros [H _]; discriminate].
      + unfold cbc_mac_core. rewrite pad_unknown_method by assumption. cbn.
        split; [discriminate | intros [H _]; contradiction].
  Qed.

  Theorem cbc_mac_core_overflow key data mlen :
    (256 ^ N.of_nat (bs c) <= N.of_nat (length data) * 8)%N ->
    cbc_mac_core c key data 3 mlen = Err (Crash COverflow).
  Proof. intros H. unfold cbc_mac_core. cbn [pad_dispatch]. rewrite pad3_overflow by assumption. reflexivity. Qed.

  (* the trick of generate_retail_mac: a one-block CBC decryption under K' with
     IV = H, fed to the still-open CBC encryptor under K whose chain value is H *)
  Lemma retail_tail k1 k2 h : valid_key c k1 = true -> valid_key c k2 = true -> block_ok c h ->
    cbc_enc_n c k1 1 h (cbc_dec_n c k2 1 h h) = enc c k1 (dec c k2 h).
  Proof.
    intros H1 H2 Hh. cbn [cbc_enc_n cbc_dec_n]. rewrite !app_nil_r.
    assert (Fh : firstn (bs c) h = h) by (apply firstn_all2; destruct Hh as [-> _]; lia).
    rewrite Fh. pose proof (dec_block c Hc k2 h H2 Hh) as HD.
    destruct (xorb_block _ _ HD Hh) as [HX _].
    rewrite (firstn_all2 (xorb (dec c k2 h) h)) by (destruct HX as [-> _]; lia).
    unfold xorb. destruct HD as [LD BD]. destruct Hh as [Lh Bh].
    rewrite py_xor_involutive by (try assumption; lia). reflexivity.
  Qed.

  Lemma retail_generic k1 k2 padded : valid_key c k1 = true -> valid_key c k2 = true ->
    bytes_ok padded = true -> 0 < length padded -> length padded mod bs c = 0 ->
    cbc_enc_n c k1 1
      (last_n (bs c) (cbc_enc_n c k1 (length padded / bs c) (repeat 0%N (bs c)) padded))
      (cbc_dec_n c k2 1
         (last_n (bs c) (cbc_enc_n c k1 (length padded / bs c) (repeat 0%N (bs c)) padded))
         (last_n (bs c) (cbc_enc_n c k1 (length padded / bs c) (repeat 0%N (bs c)) padded))) =
    alg3 c k1 k2 (split_blocks (bs c) (length padded / bs c) padded).
  Proof.
    intros H1 H2 B Hp Hm. destruct (cbc_last_is_alg1 k1 padded H1 B Hp Hm) as [-> HB].
    unfold alg3. apply retail_tail; assumption.
  Qed.
End OneCipher.

(* ------------------------------------------------------------------ *)
(* the two entry points                                                 *)
Section TwoCiphers.
  Variables cd ca : cipher.
  Hypothesis Hd : cipher_ok cd.
  Hypothesis Ha : cipher_ok ca.

  Lemma generate_cbc_mac_core key data padding mlen aes :
    generate_cbc_mac cd ca key data padding mlen aes =
    cbc_mac_core (if aes then ca else cd) key data padding mlen.
  Proof. destruct mlen; reflexivity. Qed.

  Lemma pick_ok (aes : bool) : cipher_ok (if aes then ca else cd).
  Proof. destruct aes; assumption. Qed.

  Theorem cbc_mac_is_alg1 key data padding mlen (aes : bool) :
    let c := if aes then ca else cd in
    valid_key c key = true -> bytes_ok data = true ->
    forall padded, pad_dispatch padding data (bs c) = Ok padded ->
    generate_cbc_mac cd ca key data padding mlen aes =
    Ok (mac_truncate (match mlen with Some l => l | None => bs c end)
          (alg1 c key (split_blocks (bs c) (length padded / bs c) padded))).
  Proof.
    intros c Hk B padded E. rewrite generate_cbc_mac_core.
    exact (cbc_mac_core_is_alg1 c (pick_ok aes) key data padding mlen padded Hk B E).
  Qed.

  Theorem cbc_mac_errors key data padding mlen (aes : bool) :
    let c := if aes then ca else cd in
    ((padding <> 1 -> padding <> 2 -> padding <> 3 ->
      generate_cbc_mac cd ca key data padding mlen aes = Err ValueError) /\
     (forall padded, pad_dispatch padding data (bs c) = Ok padded -> valid_key c key = false ->
      generate_cbc_mac cd ca key data padding mlen aes = Err ValueError) /\
     (is_crash (generate_cbc_mac cd ca key data padding mlen aes) = true <->
      padding = 3 /\ 256 ^ N.of_nat (bs c) <= N.of_nat (length data) * 8) /\
     (256 ^ N.of_nat (bs c) <= N.of_nat (length data) * 8 ->
      generate_cbc_mac cd ca key data 3 mlen aes = Err (Crash COverflow)))%N.
  Proof.
    intros c. rewrite !generate_cbc_mac_core. fold c. split; [|split; [|split]].
    - intros. unfold cbc_mac_core. rewrite pad_unknown_method by assumption. reflexivity.
    - intros padded E Hk. exact (cbc_mac_core_bad_key c (pick_ok aes) key data padding mlen padded E Hk).
    - exact (cbc_mac_core_crash_iff c (pick_ok aes) key data padding mlen).
    - intros H. exact (cbc_mac_core_overflow c key data mlen H).
  Qed.

  Theorem retail_mac_is_alg3 key1 key2 data padding mlen padded :
    valid_key cd key1 = true -> valid_key cd key2 = true -> bs cd = 8 ->
    bytes_ok data = true -> pad_dispatch padding data 8 = Ok padded ->
    generate_retail_mac cd key1 key2 data padding mlen =
    Ok (mac_truncate (match mlen with Some l => l | None => 8 end)
          (alg3 cd key1 key2 (split_blocks 8 (length padded / 8) padded))).
  Proof.
    intros H1 H2 Hbs B E.
    assert (Hb : 0 < 8) by lia.
    destruct (pad_multiple _ _ _ _ Hb (pad_dispatch_ok_cases _ _ _ _ E) E) as (Hp & Hm & _).
    pose proof (pad_dispatch_bytes_ok _ _ _ _ B E) as Bp.
    unfold generate_retail_mac. rewrite E. cbn [bind]. rewrite H1, H2. cbn [negb].
    rewrite <- Hbs in Hm |- *.
    rewrite (retail_generic cd Hd key1 key2 padded H1 H2 Bp Hp Hm). reflexivity.
  Qed.

  Theorem retail_mac_errors key1 key2 data padding mlen :
    ((padding <> 1 -> padding <> 2 -> padding <> 3 ->
      generate_retail_mac cd key1 key2 data padding mlen = Err ValueError) /\
     (forall padded, pad_dispatch padding data 8 = Ok padded ->
      valid_key cd key1 = false \/ valid_key cd key2 = false ->
      generate_retail_mac cd key1 key2 data padding mlen = Err ValueError))%N.
  Proof.
    split.
    - intros. unfold generate_retail_mac. rewrite pad_unknown_method by assumption. reflexivity.
    - intros padded E H. unfold generate_retail_mac. rewrite E. cbn [bind].
      destruct (valid_key cd key1); [|reflexivity]. cbn [negb].
      destruct H as [H|H]; [discriminate|]. rewrite H. reflexivity.
  Qed.

  (* a message that pads to exactly one block B: E_k1 (D_k2 (E_k1 B)) *)
  Theorem retail_single_block key1 key2 data padding mlen B :
    valid_key cd key1 = true -> valid_key cd key2 = true -> bs cd = 8 ->
    bytes_ok data = true -> pad_dispatch padding data 8 = Ok B -> length B = 8 ->
    generate_retail_mac cd key1 key2 data padding mlen =
    Ok (mac_truncate (match mlen with Some l => l | None => 8 end)
          (enc cd key1 (dec cd key2 (enc cd key1 B)))).
  Proof.
    intros H1 H2 Hbs Bd E L.
    rewrite (retail_mac_is_alg3 key1 key2 data padding mlen B H1 H2 Hbs Bd E).
    rewrite L. change (8 / 8) with 1. cbn [split_blocks].
    rewrite firstn_all2 by lia. unfold alg3, alg1. rewrite alg1_from_cons, alg1_from_nil.
    rewrite Hbs, xor_pos_zero_l by assumption. reflexivity.
  Qed.
End TwoCiphers.

(* ------------------------------------------------------------------ *)
(* Triple DES built from any lawful DES                                 *)
Section Tdes.
  Variable d : des_prim.
  Hypothesis Hdes : des_ok d.
  Variable ca : cipher.
  Hypothesis Ha : cipher_ok ca.

  Theorem tdes_cbc_mac_is_alg1 key data padding mlen padded :
    tdes_valid_key key = true -> bytes_ok data = true ->
    pad_dispatch padding data 8 = Ok padded ->
    generate_cbc_mac (tdes d) ca key data padding mlen false =
    Ok (mac_truncate (match mlen with Some l => l | None => 8 end)
          (alg1 (tdes d) key (split_blocks 8 (length padded / 8) padded))).
  Proof.
    intros Hk B E.
    exact (cbc_mac_is_alg1 (tdes d) ca (tdes_ok d Hdes) Ha key data padding mlen false Hk B padded E).
  Qed.

  Theorem tdes_retail_mac_is_alg3 key1 key2 data padding mlen padded :
    tdes_valid_key key1 = true -> tdes_valid_key key2 = true ->
    bytes_ok data = true -> pad_dispatch padding data 8 = Ok padded ->
    generate_retail_mac (tdes d) key1 key2 data padding mlen =
    Ok (mac_truncate (match mlen with Some l => l | None => 8 end)
          (alg3 (tdes d) key1 key2 (split_blocks 8 (length padded / 8) padded))).
  Proof.
    intros H1 H2 B E.
    exact (retail_mac_is_alg3 (tdes d) (tdes_ok d Hdes) key1 key2 data padding mlen padded
             H1 H2 eq_refl B E).
  Qed.

  (* with single-length keys the retail MAC of a one-block message is
     DES-EDE under (k1, k2, k1) *)
  Theorem tdes_retail_single_block key1 key2 data padding mlen B :
    length key1 = 8 -> length key2 = 8 -> bytes_ok data = true ->
    pad_dispatch padding data 8 = Ok B -> length B = 8 ->
    generate_retail_mac (tdes d) key1 key2 data padding mlen =
    Ok (mac_truncate (match mlen with Some l => l | None => 8 end)
          (des_enc d key1 (des_dec d key2 (des_enc d key1 B)))).
  Proof.
    intros L1 L2 Bd E L.
    assert (V1 : valid_key (tdes d) key1 = true)
      by (cbn [valid_key tdes]; unfold tdes_valid_key; rewrite L1; reflexivity).
    assert (V2 : valid_key (tdes d) key2 = true)
      by (cbn [valid_key tdes]; unfold tdes_valid_key; rewrite L2; reflexivity).
    rewrite (retail_single_block (tdes d) (tdes_ok d Hdes) key1 key2 data padding mlen B
               V1 V2 eq_refl Bd E L).
    assert (HB : block8_ok B) by (split; [assumption | exact (pad_dispatch_bytes_ok _ _ _ _ Bd E)]).
    destruct (tdes_single d key1 B Hdes L1 HB) as [-> _].
    pose proof (des_enc_block d Hdes key1 B L1 HB) as HE.
    destruct (tdes_single d key2 _ Hdes L2 HE) as [_ ->].
    pose proof (des_dec_block d Hdes key2 _ L2 HE) as HD.
    destruct (tdes_single d key1 _ Hdes L1 HD) as [-> _].
    reflexivity.
  Qed.
End Tdes.
