(* The cryptographic half of the TR-31 wrap -> unwrap round trip (property C01)
   for the three method pairs (B, A/C, D) and through the dispatch tables,
   for every pair of lawful ciphers. *)
From Coq Require Import Lia ZifyBool ZifyNat ZifyN.
From Psec Require Import Lib.Base Cipher.Cipher Model.Tools Model.Mac Model.Tr31.
From Psec Require Import Proofs.XorLemmas Proofs.PadLemmas Proofs.Tr31Defs Proofs.Tr31CryptoBase.
Ltac Zify.zify_post_hook ::= Z.to_euclidean_division_equations.
Open Scope N_scope.

(* KBPK sizes each key block version admits *)
Definition kbpk_size_ok (v : str) (n : nat) : Prop :=
  match v with
  | [65] | [67] => n = 8%nat \/ n = 16%nat \/ n = 24%nat
  | [66] => n = 16%nat \/ n = 24%nat
  | [68] => n = 16%nat \/ n = 24%nat \/ n = 32%nat
  | _ => False
  end.

Section Versions.
  Variables cd ca : cipher.
  Hypothesis Hcs : ciphers_ok cd ca.

  Let Hcd : cipher_ok cd := cd_ok _ _ Hcs.
  Let Hca : cipher_ok ca := ca_ok _ _ Hcs.

  Lemma cd_valid k : (length k = 8 \/ length k = 16 \/ length k = 24)%nat -> valid_key cd k = true.
  Proof.
    intros H. rewrite (cd_keys _ _ Hcs). unfold tdes_valid_key.
    destruct H as [-> |[-> | ->]]; reflexivity.
  Qed.

  Lemma ca_valid k : (length k = 16 \/ length k = 24 \/ length k = 32)%nat -> valid_key ca k = true.
  Proof.
    intros H. rewrite (ca_keys _ _ Hcs). unfold aes_valid_key.
    destruct H as [-> |[-> | ->]]; reflexivity.
  Qed.

  Lemma des_mac_ok key data mlen : valid_key cd key = true -> bytes_ok data = true ->
    (mlen <= 8)%nat ->
    exists m, generate_cbc_mac cd ca key data 1 (Some mlen) false = Ok m /\
              length m = mlen /\ bytes_ok m = true.
  Proof.
    intros Hk Bd Hm.
    destruct (cbc_mac_ok cd ca Hcs key data mlen false Hk Bd) as (m & E & L & B).
    exists m. cbv iota in L. rewrite (cd_bs _ _ Hcs) in L.
    split; [exact E|]. split; [lia|exact B].
  Qed.

  Lemma aes_mac_ok key data mlen : valid_key ca key = true -> bytes_ok data = true ->
    (mlen <= 16)%nat ->
    exists m, generate_cbc_mac cd ca key data 1 (Some mlen) true = Ok m /\
              length m = mlen /\ bytes_ok m = true.
  Proof.
    intros Hk Bd Hm.
    destruct (cbc_mac_ok cd ca Hcs key data mlen true Hk Bd) as (m & E & L & B).
    exists m. cbv iota in L. rewrite (ca_bs _ _ Hcs) in L.
    split; [exact E|]. split; [lia|exact B].
  Qed.

  Lemma r64_ok : bytes_ok r64 = true.
  Proof. reflexivity. Qed.
  Lemma r128_ok : bytes_ok r128 = true.
  Proof. vm_compute. reflexivity. Qed.

  (* the data every CMAC-style MAC of versions B and D is computed over *)
  Lemma mac_data_ok n hs kd k1 : bytes_ok hs = true -> bytes_ok kd = true -> bytes_ok k1 = true ->
    bytes_ok (drop_last n (hs ++ kd) ++ py_xor (last_n n (hs ++ kd)) k1) = true.
  Proof.
    intros Bh Bd B1.
    assert (B : bytes_ok (hs ++ kd) = true) by (apply bytes_ok_app; split; assumption).
    apply bytes_ok_app. split.
    - unfold drop_last. apply bytes_ok_firstn. exact B.
    - apply py_xor_bytes_ok; [|exact B1]. unfold last_n. apply bytes_ok_skipn. exact B.
  Qed.

  (* ---------------------------------------------------------------- *)
  (* version B                                                          *)
  Lemma b_kd_input_ok i u n : i < 256 -> u < 256 -> bytes_ok (b_kd_input i u n) = true.
  Proof.
    intros Hi Hu. unfold b_kd_input.
    destruct (n =? 16)%nat; repeat (apply bytes_ok_cons; split; [lia|]); reflexivity.
  Qed.

  Lemma b_derive_loop_ok kbpk k1 calls : valid_key cd kbpk = true -> bytes_ok k1 = true ->
    Forall (fun i => i < 256) calls ->
    exists e a, b_derive_loop cd ca kbpk k1 calls = Ok (e, a) /\
      length e = (8 * length calls)%nat /\ length a = (8 * length calls)%nat /\
      bytes_ok e = true /\ bytes_ok a = true.
  Proof.
    intros Hk B1 Hcalls. induction Hcalls as [|i r Hi Hr IH].
    - exists [], []. repeat split; reflexivity.
    - cbn [b_derive_loop].
      destruct (des_mac_ok kbpk (py_xor (b_kd_input i 0 (length kbpk)) k1) 8 Hk) as (e1 & E1 & L1 & Be1);
        [apply py_xor_bytes_ok; [apply b_kd_input_ok; lia|exact B1] | lia |].
      destruct (des_mac_ok kbpk (py_xor (b_kd_input i 1 (length kbpk)) k1) 8 Hk) as (a1 & E2 & L2 & Ba1);
        [apply py_xor_bytes_ok; [apply b_kd_input_ok; lia|exact B1] | lia |].
      destruct IH as (e & a & E & Le & La & Be & Ba).
      rewrite E1, E2, E. cbn [bind fst snd].
      eexists. eexists. split; [reflexivity|].
      rewrite !app_length. cbn [length].
      repeat split; try lia; apply bytes_ok_app; split; assumption.
  Qed.

  Lemma b_derive_ok kbpk : (length kbpk = 16 \/ length kbpk = 24)%nat ->
    exists kbek kbak, b_derive cd ca kbpk = Ok (kbek, kbak) /\
      length kbek = length kbpk /\ length kbak = length kbpk /\
      bytes_ok kbek = true /\ bytes_ok kbak = true.
  Proof.
    intros Hl.
    assert (Hv : valid_key cd kbpk = true) by (apply cd_valid; lia).
    unfold b_derive, derive_des_cmac_subkey.
    destruct (cmac_subkeys_ok cd r64 kbpk Hcd Hv r64_ok) as (k1 & k2 & E & L1 & B1 & _).
    rewrite E. cbn [bind fst].
    destruct Hl as [Hl|Hl].
    - replace (length kbpk =? 16)%nat with true by (rewrite Hl; reflexivity).
      destruct (b_derive_loop_ok kbpk k1 [1; 2] Hv B1) as (e & a & El & Le & La & Be & Ba).
      { repeat constructor. }
      exists e, a. cbn [length] in Le, La. repeat split; try assumption; lia.
    - replace (length kbpk =? 16)%nat with false by (rewrite Hl; reflexivity).
      destruct (b_derive_loop_ok kbpk k1 [1; 2; 3] Hv B1) as (e & a & El & Le & La & Be & Ba).
      { repeat constructor. }
      exists e, a. cbn [length] in Le, La. repeat split; try assumption; lia.
  Qed.

  Lemma b_generate_mac_ok kbak hs kd : (length kbak = 16 \/ length kbak = 24)%nat ->
    ascii_str hs -> bytes_ok kd = true ->
    exists m, b_generate_mac cd ca kbak hs kd = Ok m /\ length m = 8%nat /\ bytes_ok m = true.
  Proof.
    intros Hl Ha Bd.
    assert (Hv : valid_key cd kbak = true) by (apply cd_valid; lia).
    unfold b_generate_mac, derive_des_cmac_subkey.
    destruct (cmac_subkeys_ok cd r64 kbak Hcd Hv r64_ok) as (k1 & k2 & E & L1 & B1 & _).
    rewrite E, (ascii_encode hs Ha). cbn [bind fst].
    apply des_mac_ok; [exact Hv| |lia].
    apply mac_data_ok; [apply ascii_bytes_ok; exact Ha|exact Bd|exact B1].
  Qed.

  Lemma b_roundtrip kbpk hs key extra tape s :
    (length kbpk = 16 \/ length kbpk = 24)%nat ->
    bytes_ok kbpk = true -> bytes_ok key = true -> bytes_ok tape = true ->
    ascii_str hs -> lenN key * 8 < 65536 ->
    b_wrap cd ca kbpk hs key extra tape = Ok s ->
    exists ek mac,
      s = hs ++ hex_upper ek ++ hex_upper mac /\
      bytes_ok ek = true /\ bytes_ok mac = true /\ length mac = 8%nat /\
      length ek = (2 + length key + length tape)%nat /\
      (length ek mod 8 = 0)%nat /\ (8 <= length ek)%nat /\
      b_unwrap cd ca kbpk hs ek mac = Ok key /\
      b_unwrap_clear cd ca kbpk hs ek mac = Ok (be_bytes 2 (lenN key * 8) ++ key ++ tape).
  Proof.
    intros Hl _ Bkey Bt Ha Hlen W. unfold b_wrap in W.
    assert (Hmem : mem_nat (length kbpk) [16; 24]%nat = true) by (destruct Hl as [-> | ->]; reflexivity).
    rewrite Hmem in W. cbn [negb] in W.
    destruct (b_derive_ok kbpk Hl) as (kbek & kbak & Ed & Lek & Lak & _ & _).
    rewrite Ed in W. cbn [bind] in W.
    match type of W with context [Nat.eqb (length tape) ?x] =>
      destruct (Nat.eqb_spec (length tape) x) as [Lt|]; [|discriminate] end.
    cbn [negb] in W.
    pose proof (key_len_prefix_ok key Hlen) as Elp.
    rewrite Elp in W. cbn [bind] in W.
    set (lp := be_bytes 2 (lenN key * 8)) in *.
    set (clear := lp ++ key ++ tape) in *.
    assert (Lclear : length clear = (2 + length key + length tape)%nat).
    { unfold clear, lp. rewrite !app_length, be_bytes_length. lia. }
    assert (Bclear : bytes_ok clear = true).
    { unfold clear, lp. apply bytes_ok_app. split; [apply be_bytes_ok|]. apply bytes_ok_app. split; assumption. }
    destruct (b_generate_mac_ok kbak hs clear ltac:(lia) Ha Bclear) as (mac & Em & Lm & Bm).
    rewrite Em in W. cbn [bind] in W.
    assert (Hvk : valid_key cd kbek = true) by (apply cd_valid; lia).
    destruct (encrypt_cbc_ok cd Hcd kbek Hvk mac clear) as (ek & Ee & Le & Be & Dd).
    { rewrite (cd_bs _ _ Hcs). exact Lm. }
    { exact Bm. }
    { exact Bclear. }
    { rewrite (cd_bs _ _ Hcs). lia. }
    { rewrite (cd_bs _ _ Hcs). lia. }
    rewrite Ee in W. cbn [bind] in W. injection W as <-.
    assert (Huc : b_unwrap_clear cd ca kbpk hs ek mac = Ok clear).
    { unfold b_unwrap_clear. rewrite Hmem. cbn [negb].
      assert ((length ek <? 8)%nat || negb (length ek mod 8 =? 0)%nat = false) as ->.
      { apply orb_false_iff. split; [apply Nat.ltb_ge; lia|].
        apply negb_false_iff. apply Nat.eqb_eq. lia. }
      rewrite Ed. cbn [bind]. rewrite Dd. cbn [bind]. rewrite Em. cbn [bind].
      rewrite list_eqb_refl. reflexivity. }
    exists ek, mac. repeat split; try assumption; try lia.
    unfold b_unwrap. rewrite Huc. cbn [bind].
    apply (extract_key_prefix key tape lp Bkey Hlen Elp).
  Qed.

  (* ---------------------------------------------------------------- *)
  (* versions A and C                                                   *)
  Lemma c_derive_ok kbpk : bytes_ok kbpk = true ->
    length (fst (c_derive kbpk)) = length kbpk /\ length (snd (c_derive kbpk)) = length kbpk /\
    bytes_ok (fst (c_derive kbpk)) = true /\ bytes_ok (snd (c_derive kbpk)) = true.
  Proof.
    intros B. unfold c_derive. cbn [fst snd]. rewrite !py_xor_length.
    repeat split; apply py_xor_bytes_ok; try assumption; apply bytes_ok_repeat; lia.
  Qed.

  Lemma c_generate_mac_ok kbak hs kd : (length kbak = 8 \/ length kbak = 16 \/ length kbak = 24)%nat ->
    ascii_str hs -> bytes_ok kd = true ->
    exists m, c_generate_mac cd ca kbak hs kd = Ok m /\ length m = 4%nat /\ bytes_ok m = true.
  Proof.
    intros Hl Ha Bd. unfold c_generate_mac. rewrite (ascii_encode hs Ha). cbn [bind].
    apply des_mac_ok; [apply cd_valid; exact Hl| |lia].
    apply bytes_ok_app. split; [apply ascii_bytes_ok; exact Ha|exact Bd].
  Qed.

  Lemma c_roundtrip kbpk hs key extra tape s :
    (length kbpk = 8 \/ length kbpk = 16 \/ length kbpk = 24)%nat ->
    bytes_ok kbpk = true -> bytes_ok key = true -> bytes_ok tape = true ->
    ascii_str hs -> (16 <= length hs)%nat -> lenN key * 8 < 65536 ->
    c_wrap cd ca kbpk hs key extra tape = Ok s ->
    exists ek mac,
      s = hs ++ hex_upper ek ++ hex_upper mac /\
      bytes_ok ek = true /\ bytes_ok mac = true /\ length mac = 4%nat /\
      length ek = (2 + length key + length tape)%nat /\
      (length ek mod 8 = 0)%nat /\ (8 <= length ek)%nat /\
      c_unwrap cd ca kbpk hs ek mac = Ok key /\
      c_unwrap_clear cd ca kbpk hs ek mac = Ok (be_bytes 2 (lenN key * 8) ++ key ++ tape).
  Proof.
    intros Hl Bk Bkey Bt Ha Hhs Hlen W. unfold c_wrap in W.
    assert (Hmem : mem_nat (length kbpk) [8; 16; 24]%nat = true) by (destruct Hl as [-> |[-> | ->]]; reflexivity).
    rewrite Hmem in W. cbn [negb] in W.
    destruct (c_derive_ok kbpk Bk) as (Lek & Lak & _ & _).
    destruct (c_derive kbpk) as [kbek kbak] eqn:Ed. cbn [fst snd] in Lek, Lak.
    match type of W with context [Nat.eqb (length tape) ?x] =>
      destruct (Nat.eqb_spec (length tape) x) as [Lt|]; [|discriminate] end.
    cbn [negb] in W.
    pose proof (key_len_prefix_ok key Hlen) as Elp.
    rewrite Elp in W. cbn [bind] in W.
    set (lp := be_bytes 2 (lenN key * 8)) in *.
    set (clear := lp ++ key ++ tape) in *.
    assert (Lclear : length clear = (2 + length key + length tape)%nat).
    { unfold clear, lp. rewrite !app_length, be_bytes_length. lia. }
    assert (Bclear : bytes_ok clear = true).
    { unfold clear, lp. apply bytes_ok_app. split; [apply be_bytes_ok|]. apply bytes_ok_app. split; assumption. }
    rewrite (ascii_encode hs Ha) in W. cbn [bind] in W.
    assert (Bhs : bytes_ok hs = true) by (apply ascii_bytes_ok; exact Ha).
    assert (Hvk : valid_key cd kbek = true) by (apply cd_valid; lia).
    destruct (encrypt_cbc_ok cd Hcd kbek Hvk (firstn 8 hs) clear) as (ek & Ee & Le & Be & Dd).
    { rewrite (cd_bs _ _ Hcs), firstn_length. lia. }
    { apply bytes_ok_firstn. exact Bhs. }
    { exact Bclear. }
    { rewrite (cd_bs _ _ Hcs). lia. }
    { rewrite (cd_bs _ _ Hcs). lia. }
    rewrite Ee in W. cbn [bind] in W.
    destruct (c_generate_mac_ok kbak hs ek ltac:(lia) Ha Be) as (mac & Em & Lm & Bm).
    rewrite Em in W. cbn [bind] in W. injection W as <-.
    assert (Huc : c_unwrap_clear cd ca kbpk hs ek mac = Ok clear).
    { unfold c_unwrap_clear. rewrite Hmem. cbn [negb].
      assert ((length ek <? 8)%nat || negb (length ek mod 8 =? 0)%nat = false) as ->.
      { apply orb_false_iff. split; [apply Nat.ltb_ge; lia|].
        apply negb_false_iff. apply Nat.eqb_eq. lia. }
      rewrite Ed. rewrite Em. cbn [bind].
      rewrite list_eqb_refl. cbn [negb]. rewrite (ascii_encode hs Ha). cbn [bind]. exact Dd. }
    exists ek, mac. repeat split; try assumption; try lia.
    unfold c_unwrap. rewrite Huc. cbn [bind].
    apply (extract_key_prefix key tape lp Bkey Hlen Elp).
  Qed.

  (* ---------------------------------------------------------------- *)
  (* version D                                                          *)
  Lemma d_kd_input_ok i u n : i < 256 -> u < 256 -> bytes_ok (d_kd_input i u n) = true.
  Proof.
    intros Hi Hu. unfold d_kd_input. apply bytes_ok_app. split; [|reflexivity].
    destruct (n =? 16)%nat; [|destruct (n =? 24)%nat];
      repeat (apply bytes_ok_cons; split; [lia|]); reflexivity.
  Qed.

  Lemma d_derive_loop_ok kbpk k2 calls : valid_key ca kbpk = true -> bytes_ok k2 = true ->
    Forall (fun i => i < 256) calls ->
    exists e a, d_derive_loop cd ca kbpk k2 calls = Ok (e, a) /\
      length e = (16 * length calls)%nat /\ length a = (16 * length calls)%nat /\
      bytes_ok e = true /\ bytes_ok a = true.
  Proof.
    intros Hk B1 Hcalls. induction Hcalls as [|i r Hi Hr IH].
    - exists [], []. repeat split; reflexivity.
    - cbn [d_derive_loop].
      destruct (aes_mac_ok kbpk (py_xor (d_kd_input i 0 (length kbpk)) k2) 16 Hk) as (e1 & E1 & L1 & Be1);
        [apply py_xor_bytes_ok; [apply d_kd_input_ok; lia|exact B1] | lia |].
      destruct (aes_mac_ok kbpk (py_xor (d_kd_input i 1 (length kbpk)) k2) 16 Hk) as (a1 & E2 & L2 & Ba1);
        [apply py_xor_bytes_ok; [apply d_kd_input_ok; lia|exact B1] | lia |].
      destruct IH as (e & a & E & Le & La & Be & Ba).
      rewrite E1, E2, E. cbn [bind fst snd].
      eexists. eexists. split; [reflexivity|].
      rewrite !app_length. cbn [length].
      repeat split; try lia; apply bytes_ok_app; split; assumption.
  Qed.

  Lemma d_derive_ok kbpk : (length kbpk = 16 \/ length kbpk = 24 \/ length kbpk = 32)%nat ->
    exists kbek kbak, d_derive cd ca kbpk = Ok (kbek, kbak) /\
      length kbek = length kbpk /\ length kbak = length kbpk /\
      bytes_ok kbek = true /\ bytes_ok kbak = true.
  Proof.
    intros Hl.
    assert (Hv : valid_key ca kbpk = true) by (apply ca_valid; lia).
    unfold d_derive, derive_aes_cmac_subkey.
    destruct (cmac_subkeys_ok ca r128 kbpk Hca Hv r128_ok) as (k1 & k2 & E & _ & _ & L2 & B2).
    rewrite E. cbn [bind snd].
    assert (Hcase : (length kbpk = 16 /\ (length kbpk =? 16) = true \/
                     (length kbpk = 24 \/ length kbpk = 32) /\ (length kbpk =? 16) = false)%nat).
    { destruct Hl as [Hl|[Hl|Hl]]; rewrite Hl; [left|right|right]; split; try reflexivity; lia. }
    destruct Hcase as [[Hl' Eb]|[Hl' Eb]]; rewrite Eb.
    - destruct (d_derive_loop_ok kbpk k2 [1] Hv B2) as (e & a & El & Le & La & Be & Ba).
      { repeat constructor. }
      rewrite El. cbn [bind fst snd]. eexists. eexists. split; [reflexivity|].
      cbn [length] in Le, La. rewrite !firstn_length.
      repeat split; try lia; apply bytes_ok_firstn; assumption.
    - destruct (d_derive_loop_ok kbpk k2 [1; 2] Hv B2) as (e & a & El & Le & La & Be & Ba).
      { repeat constructor. }
      rewrite El. cbn [bind fst snd]. eexists. eexists. split; [reflexivity|].
      cbn [length] in Le, La. rewrite !firstn_length.
      repeat split; try lia; apply bytes_ok_firstn; assumption.
  Qed.

  Lemma d_generate_mac_ok kbak hs kd : (length kbak = 16 \/ length kbak = 24 \/ length kbak = 32)%nat ->
    ascii_str hs -> bytes_ok kd = true ->
    exists m, d_generate_mac cd ca kbak hs kd = Ok m /\ length m = 16%nat /\ bytes_ok m = true.
  Proof.
    intros Hl Ha Bd.
    assert (Hv : valid_key ca kbak = true) by (apply ca_valid; lia).
    unfold d_generate_mac, derive_aes_cmac_subkey.
    destruct (cmac_subkeys_ok ca r128 kbak Hca Hv r128_ok) as (k1 & k2 & E & L1 & B1 & _).
    rewrite E, (ascii_encode hs Ha). cbn [bind fst].
    apply aes_mac_ok; [exact Hv| |lia].
    apply mac_data_ok; [apply ascii_bytes_ok; exact Ha|exact Bd|exact B1].
  Qed.

  Lemma d_roundtrip kbpk hs key extra tape s :
    (length kbpk = 16 \/ length kbpk = 24 \/ length kbpk = 32)%nat ->
    bytes_ok kbpk = true -> bytes_ok key = true -> bytes_ok tape = true ->
    ascii_str hs -> lenN key * 8 < 65536 ->
    d_wrap cd ca kbpk hs key extra tape = Ok s ->
    exists ek mac,
      s = hs ++ hex_upper ek ++ hex_upper mac /\
      bytes_ok ek = true /\ bytes_ok mac = true /\ length mac = 16%nat /\
      length ek = (2 + length key + length tape)%nat /\
      (length ek mod 16 = 0)%nat /\ (16 <= length ek)%nat /\
      d_unwrap cd ca kbpk hs ek mac = Ok key /\
      d_unwrap_clear cd ca kbpk hs ek mac = Ok (be_bytes 2 (lenN key * 8) ++ key ++ tape).
  Proof.
    intros Hl _ Bkey Bt Ha Hlen W. unfold d_wrap in W.
    assert (Hmem : mem_nat (length kbpk) [16; 24; 32]%nat = true) by (destruct Hl as [-> |[-> | ->]]; reflexivity).
    rewrite Hmem in W. cbn [negb] in W.
    destruct (d_derive_ok kbpk Hl) as (kbek & kbak & Ed & Lek & Lak & _ & _).
    rewrite Ed in W. cbn [bind] in W.
    match type of W with context [Nat.eqb (length tape) ?x] =>
      destruct (Nat.eqb_spec (length tape) x) as [Lt|]; [|discriminate] end.
    cbn [negb] in W.
    pose proof (key_len_prefix_ok key Hlen) as Elp.
    rewrite Elp in W. cbn [bind] in W.
    set (lp := be_bytes 2 (lenN key * 8)) in *.
    set (clear := lp ++ key ++ tape) in *.
    assert (Lclear : length clear = (2 + length key + length tape)%nat).
    { unfold clear, lp. rewrite !app_length, be_bytes_length. lia. }
    assert (Bclear : bytes_ok clear = true).
    { unfold clear, lp. apply bytes_ok_app. split; [apply be_bytes_ok|]. apply bytes_ok_app. split; assumption. }
    destruct (d_generate_mac_ok kbak hs clear ltac:(lia) Ha Bclear) as (mac & Em & Lm & Bm).
    rewrite Em in W. cbn [bind] in W.
    assert (Hvk : valid_key ca kbek = true) by (apply ca_valid; lia).
    destruct (encrypt_cbc_ok ca Hca kbek Hvk mac clear) as (ek & Ee & Le & Be & Dd).
    { rewrite (ca_bs _ _ Hcs). exact Lm. }
    { exact Bm. }
    { exact Bclear. }
    { rewrite (ca_bs _ _ Hcs). lia. }
    { rewrite (ca_bs _ _ Hcs). lia. }
    rewrite Ee in W. cbn [bind] in W. injection W as <-.
    assert (Huc : d_unwrap_clear cd ca kbpk hs ek mac = Ok clear).
    { unfold d_unwrap_clear. rewrite Hmem. cbn [negb].
      assert ((length ek <? 16)%nat || negb (length ek mod 16 =? 0)%nat = false) as ->.
      { apply orb_false_iff. split; [apply Nat.ltb_ge; lia|].
        apply negb_false_iff. apply Nat.eqb_eq. lia. }
      rewrite Ed. cbn [bind]. rewrite Dd. cbn [bind]. rewrite Em. cbn [bind].
      rewrite list_eqb_refl. reflexivity. }
    exists ek, mac. repeat split; try assumption; try lia.
    unfold d_unwrap. rewrite Huc. cbn [bind].
    apply (extract_key_prefix key tape lp Bkey Hlen Elp).
  Qed.

  (* ---------------------------------------------------------------- *)
  (* through the dispatch tables                                        *)
  Lemma dispatch_roundtrip v w u uc maclen bsz kbpk hs key extra tape s :
    v = [65] \/ v = [66] \/ v = [67] \/ v = [68] ->
    wrap_dispatch cd ca v = Ok w -> unwrap_dispatch cd ca v = Ok u ->
    unwrap_clear_dispatch cd ca v = Ok uc ->
    key_block_mac_len v = Ok maclen -> algo_block_size v = Ok bsz ->
    kbpk_size_ok v (length kbpk) ->
    bytes_ok kbpk = true -> bytes_ok key = true -> bytes_ok tape = true ->
    ascii_str hs -> (16 <= length hs)%nat -> lenN key * 8 < 65536 ->
    w kbpk hs key extra tape = Ok s ->
    exists ek mac,
      s = hs ++ hex_upper ek ++ hex_upper mac /\
      bytes_ok ek = true /\ bytes_ok mac = true /\ length mac = maclen /\
      length ek = (2 + length key + length tape)%nat /\
      (length ek mod bsz = 0)%nat /\ (bsz <= length ek)%nat /\
      u kbpk hs ek mac = Ok key /\
      uc kbpk hs ek mac = Ok (be_bytes 2 (lenN key * 8) ++ key ++ tape).
  Proof.
    intros Hv Ew Eu Euc Em Eb Hsz Bk Bkey Bt Ha Hhs Hlen W.
    destruct Hv as [-> |[-> |[-> | ->]]];
      cbn in Ew, Eu, Euc, Em, Eb, Hsz;
      injection Ew as <-; injection Eu as <-; injection Euc as <-;
      injection Em as <-; injection Eb as <-.
    - exact (c_roundtrip kbpk hs key extra tape s Hsz Bk Bkey Bt Ha Hhs Hlen W).
    - exact (b_roundtrip kbpk hs key extra tape s Hsz Bk Bkey Bt Ha Hlen W).
    - exact (c_roundtrip kbpk hs key extra tape s Hsz Bk Bkey Bt Ha Hhs Hlen W).
    - exact (d_roundtrip kbpk hs key extra tape s Hsz Bk Bkey Bt Ha Hlen W).
  Qed.

  (* the os.urandom draw: a wrap succeeds only on a tape of pad_len + extra bytes *)
  Lemma b_wrap_tape_len kbpk hs key extra tape s :
    b_wrap cd ca kbpk hs key extra tape = Ok s ->
    length tape = (8 - (2 + length key + extra) mod 8 + extra)%nat.
  Proof.
    unfold b_wrap. destruct (negb (mem_nat (length kbpk) [16; 24]%nat)); [discriminate|].
    destruct (b_derive cd ca kbpk) as [[kbek kbak]|]; [|discriminate]. cbn [bind].
    destruct (Nat.eqb_spec (length tape) (8 - (2 + length key + extra) mod 8 + extra)); [auto|discriminate].
  Qed.

  Lemma c_wrap_tape_len kbpk hs key extra tape s :
    c_wrap cd ca kbpk hs key extra tape = Ok s ->
    length tape = (8 - (2 + length key + extra) mod 8 + extra)%nat.
  Proof.
    unfold c_wrap. destruct (negb (mem_nat (length kbpk) [8; 16; 24]%nat)); [discriminate|].
    destruct (c_derive kbpk) as [kbek kbak].
    destruct (Nat.eqb_spec (length tape) (8 - (2 + length key + extra) mod 8 + extra)); [auto|discriminate].
  Qed.

  Lemma d_wrap_tape_len kbpk hs key extra tape s :
    d_wrap cd ca kbpk hs key extra tape = Ok s ->
    length tape = (16 - (2 + length key + extra) mod 16 + extra)%nat.
  Proof.
    unfold d_wrap. destruct (negb (mem_nat (length kbpk) [16; 24; 32]%nat)); [discriminate|].
    destruct (d_derive cd ca kbpk) as [[kbek kbak]|]; [|discriminate]. cbn [bind].
    destruct (Nat.eqb_spec (length tape) (16 - (2 + length key + extra) mod 16 + extra)); [auto|discriminate].
  Qed.

  Lemma dispatch_tape_len v w bsz kbpk hs key extra tape s :
    v = [65] \/ v = [66] \/ v = [67] \/ v = [68] ->
    wrap_dispatch cd ca v = Ok w -> algo_block_size v = Ok bsz ->
    w kbpk hs key extra tape = Ok s ->
    length tape = (bsz - (2 + length key + extra) mod bsz + extra)%nat.
  Proof.
    intros Hv Ew Eb W.
    destruct Hv as [-> |[-> |[-> | ->]]]; cbn in Ew, Eb; injection Ew as <-; injection Eb as <-.
    - eapply c_wrap_tape_len; eassumption.
    - eapply b_wrap_tape_len; eassumption.
    - eapply c_wrap_tape_len; eassumption.
    - eapply d_wrap_tape_len; eassumption.
  Qed.

  (* the tables are total on the four supported versions *)
  Lemma dispatch_defined v : v = [65] \/ v = [66] \/ v = [67] \/ v = [68] ->
    exists w u uc maclen bsz,
      wrap_dispatch cd ca v = Ok w /\ unwrap_dispatch cd ca v = Ok u /\
      unwrap_clear_dispatch cd ca v = Ok uc /\
      key_block_mac_len v = Ok maclen /\ algo_block_size v = Ok bsz.
  Proof.
    intros [-> |[-> |[-> | ->]]]; repeat eexists.
  Qed.
End Versions.

Print Assumptions b_roundtrip.
Print Assumptions c_roundtrip.
Print Assumptions d_roundtrip.
Print Assumptions dispatch_roundtrip.
