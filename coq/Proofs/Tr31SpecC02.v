(* C02: unwrap accepts a string only if the MAC over the entire header text and
   the whole key data verifies over its full length (reduction of "tampered
   blocks are rejected" to the unforgeability of CMAC / CBC-MAC). *)
From Coq Require Import Lia ZifyBool ZifyNat ZifyN.
From Psec Require Import Lib.Base Cipher.Cipher Model.Tools Model.Mac Model.Tr31
  Proofs.XorLemmas Proofs.PadLemmas Proofs.Tr31Defs Spec.CMAC Spec.TR31 Proofs.Tr31Spec.
Ltac Zify.zify_post_hook ::= Z.to_euclidean_division_equations.
Open Scope N_scope.

(* ------------------------------------------------------------------ *)
Lemma list_eqb_eq a b : list_eqb a b = true <-> a = b.
Proof.
  revert b. induction a as [|x a IH]; intros [|y b]; cbn [list_eqb]; split; intro E;
    try reflexivity; try discriminate.
  - apply andb_true_iff in E as [E1 E2]. apply N.eqb_eq in E1. apply IH in E2. congruence.
  - injection E as -> ->. rewrite N.eqb_refl. cbn. apply IH. reflexivity.
Qed.

Lemma list_eqb_neq a b : list_eqb a b = false <-> a <> b.
Proof.
  split.
  - intros E F. apply list_eqb_eq in F. congruence.
  - intro F. destruct (list_eqb a b) eqn:E; [|reflexivity]. apply list_eqb_eq in E. contradiction.
Qed.

Lemma unhex_digit_lt c v : unhex_digit c = Some v -> v < 16.
Proof.
  unfold unhex_digit, is_digit. intro E.
  destruct ((48 <=? c) && (c <=? 57)) eqn:E1; [injection E as <-; lia|].
  destruct ((65 <=? c) && (c <=? 70)) eqn:E2; [injection E as <-; lia|].
  destruct ((97 <=? c) && (c <=? 102)) eqn:E3; [injection E as <-; lia|discriminate].
Qed.

Lemma bytes_fromhex_ok s : forall b, bytes_fromhex s = Ok b -> bytes_ok b = true.
Proof.
  induction s as [s IH] using (well_founded_induction (Wf_nat.well_founded_ltof _ (@length N))).
  intros b E. destruct s as [|c r]; cbn [bytes_fromhex] in E.
  - injection E as <-. reflexivity.
  - destruct (is_space c).
    + apply (IH r); [unfold Wf_nat.ltof; cbn [length]; auto with arith | assumption].
    + destruct r as [|d r']; [discriminate|].
      destruct (unhex_digit c) as [h|] eqn:Eh; [|discriminate].
      destruct (unhex_digit d) as [l|] eqn:El; [|discriminate].
      destruct (bytes_fromhex r') as [t|] eqn:Et; [|discriminate]. cbn [bind] in E. injection E as <-.
      apply bytes_ok_cons. split.
      * apply unhex_digit_lt in Eh. apply unhex_digit_lt in El. destruct h; lia.
      * apply (IH r'); [unfold Wf_nat.ltof; cbn [length]; auto with arith | assumption].
Qed.

(* ------------------------------------------------------------------ *)
(* the library's CBC is the Spec's CBC                                  *)
Section Cbc.
  Variable c : cipher.
  Hypothesis Hc : cipher_ok c.
  Variable key : list N.
  Hypothesis Hk : valid_key c key = true.

  Lemma cbc_dec_spec n iv ct : block_ok c iv -> bytes_ok ct = true -> length ct = (n * bs c)%nat ->
    cbc_dec_n c key n iv ct = spec_cbc_dec c key n iv ct /\
    bytes_ok (spec_cbc_dec c key n iv ct) = true /\ length (spec_cbc_dec c key n iv ct) = (n * bs c)%nat.
  Proof.
    revert iv ct. induction n as [|n IH]; intros iv ct Hiv Hct Hl; cbn [cbc_dec_n spec_cbc_dec].
    - repeat split; reflexivity.
    - assert (Hf : block_ok c (firstn (bs c) ct)) by (apply firstn_block; [assumption | rewrite Hl; cbn [Nat.mul]; lia]).
      assert (Hd : block_ok c (dec c key (firstn (bs c) ct))) by (apply (dec_block c Hc); assumption).
      destruct (IH (firstn (bs c) ct) (skipn (bs c) ct) Hf) as (E1 & E2 & E3);
        [apply bytes_ok_skipn; assumption | rewrite skipn_length; lia |].
      unfold xorb. rewrite py_xor_is_bytewise by (try apply Hd; apply Hiv). rewrite E1.
      split; [reflexivity|]. split.
      + apply bytes_ok_app. split; [|assumption]. apply xor_pos_bytes_ok; [apply Hd | apply Hiv].
      + rewrite app_length, xor_pos_length, E3. destruct Hd as [-> _]. lia.
  Qed.

  Lemma cbc_enc_spec n iv m : block_ok c iv -> bytes_ok m = true -> length m = (n * bs c)%nat ->
    cbc_enc_n c key n iv m = spec_cbc_enc c key n iv m /\
    bytes_ok (spec_cbc_enc c key n iv m) = true /\ length (spec_cbc_enc c key n iv m) = (n * bs c)%nat.
  Proof.
    revert iv m. induction n as [|n IH]; intros iv m Hiv Hm Hl; cbn [cbc_enc_n spec_cbc_enc].
    - repeat split; reflexivity.
    - assert (Hf : block_ok c (firstn (bs c) m)) by (apply firstn_block; [assumption | rewrite Hl; cbn [Nat.mul]; lia]).
      unfold xorb. rewrite py_xor_is_bytewise by (try apply Hf; apply Hiv).
      assert (He : block_ok c (enc c key (xor_pos (firstn (bs c) m) iv))).
      { apply (enc_block c Hc); [assumption|]. apply xor_block; [assumption | apply Hiv]. }
      destruct (IH _ (skipn (bs c) m) He) as (E1 & E2 & E3);
        [apply bytes_ok_skipn; assumption | rewrite skipn_length; lia |].
      rewrite E1. split; [reflexivity|]. split.
      + apply bytes_ok_app. split; [apply He | assumption].
      + rewrite app_length, E3. destruct He as [-> _]. lia.
  Qed.

  Lemma decrypt_cbc_spec iv ct : block_ok c iv -> bytes_ok ct = true ->
    (bs c <= length ct)%nat -> (length ct mod bs c = 0)%nat ->
    decrypt_cbc c key iv ct = Ok (spec_decrypt c key iv ct) /\
    bytes_ok (spec_decrypt c key iv ct) = true /\ length (spec_decrypt c key iv ct) = length ct.
  Proof.
    intros Hiv Hct Hl Hm. pose proof (bs_pos c Hc) as Hpos.
    unfold decrypt_cbc, bad_len, nblocks, spec_decrypt. rewrite Hk, Hm. destruct Hiv as [Liv Biv].
    rewrite Liv, !Nat.eqb_refl. destruct (Nat.ltb_spec (length ct) (bs c)); [lia|]. cbn [Nat.eqb negb orb].
    assert (Hq : length ct = (length ct / bs c * bs c)%nat).
    { pose proof (Nat.div_mod (length ct) (bs c)). nia. }
    destruct (cbc_dec_spec (length ct / bs c) iv ct (conj Liv Biv) Hct Hq) as (E1 & E2 & E3).
    rewrite E1. repeat split; try assumption. rewrite E3. symmetry. exact Hq.
  Qed.

  Lemma encrypt_cbc_spec iv m : block_ok c iv -> bytes_ok m = true ->
    (bs c <= length m)%nat -> (length m mod bs c = 0)%nat ->
    encrypt_cbc c key iv m = Ok (spec_encrypt c key iv m) /\
    bytes_ok (spec_encrypt c key iv m) = true /\ length (spec_encrypt c key iv m) = length m.
  Proof.
    intros Hiv Hct Hl Hm. pose proof (bs_pos c Hc) as Hpos.
    unfold encrypt_cbc, bad_len, nblocks, spec_encrypt. rewrite Hk, Hm. destruct Hiv as [Liv Biv].
    rewrite Liv, !Nat.eqb_refl. destruct (Nat.ltb_spec (length m) (bs c)); [lia|]. cbn [Nat.eqb negb orb].
    assert (Hq : length m = (length m / bs c * bs c)%nat).
    { pose proof (Nat.div_mod (length m) (bs c)). nia. }
    destruct (cbc_enc_spec (length m / bs c) iv m (conj Liv Biv) Hct Hq) as (E1 & E2 & E3).
    rewrite E1. repeat split; try assumption. rewrite E3. symmetry. exact Hq.
  Qed.

  Lemma bytes_ok_pad10 m : bytes_ok m = true -> bytes_ok (pad10 (bs c) m) = true.
  Proof.
    intro Hm. unfold pad10. apply bytes_ok_app. split; [assumption|]. apply bytes_ok_cons.
    split; [reflexivity|]. apply bytes_ok_repeat. reflexivity.
  Qed.

  Lemma cmac_block msg : bytes_ok msg = true -> block_ok c (cmac c key msg).
  Proof.
    intro Hm. pose proof (bs_pos c Hc) as Hpos. unfold cmac. apply (enc_block c Hc); [assumption|].
    apply xor_block.
    - apply cbc_chain_block; try assumption; [apply zeros_block|].
      pose proof (Nat.div_mod (length msg - 1) (bs c)). nia.
    - destruct (_ =? _)%nat.
      + apply xor_pos_bytes_ok; [apply bytes_ok_skipn; assumption | apply dbl_block].
      + apply xor_pos_bytes_ok; [apply bytes_ok_pad10; apply bytes_ok_skipn; assumption | apply dbl_block].
  Qed.
End Cbc.

(* ------------------------------------------------------------------ *)
(* what _b_generate_mac / _d_generate_mac compute on an arbitrary input:
   K1 is xored into the last [bs] bytes and the result is zero padded.  On a
   positive block multiple this is CMAC (psec_mac_bd_cmac). *)
Definition psec_mac_bd (c : cipher) (key msg : list N) : list N :=
  cbc_mac c key (iso_pad1 (bs c)
    (drop_last (bs c) msg ++ xor_pos (last_n (bs c) msg) (cmac_K1 c key))).

Lemma psec_mac_bd_cmac c key msg : cipher_ok c ->
  (0 < length msg)%nat -> (length msg mod bs c = 0)%nat -> psec_mac_bd c key msg = cmac c key msg.
Proof.
  intros Hc Hp Hm. pose proof (bs_pos c Hc) as Hpos. unfold psec_mac_bd.
  assert (Hq : exists q, length msg = (S q * bs c)%nat).
  { exists (length msg / bs c - 1)%nat. pose proof (Nat.div_mod (length msg) (bs c)).
    assert (0 < length msg / bs c)%nat by nia. nia. }
  destruct Hq as [q Hq].
  assert (Ld : length (drop_last (bs c) msg) = (q * bs c)%nat).
  { unfold drop_last. rewrite firstn_length. lia. }
  assert (Ll : length (last_n (bs c) msg) = bs c).
  { unfold last_n. rewrite skipn_length. lia. }
  rewrite iso_pad1_multiple.
  - rewrite <- (cmac_complete c Hc key _ _ q Ld Ll). rewrite drop_last_app. reflexivity.
  - rewrite app_length, xor_pos_length. lia.
  - rewrite app_length, xor_pos_length, Ld, Ll.
    replace (q * bs c + bs c)%nat with (S q * bs c)%nat by lia. apply Nat.mod_mul. lia.
Qed.

Lemma mem_nat_2 n a b : mem_nat n [a; b] = true <-> n = a \/ n = b.
Proof. unfold mem_nat. cbn [existsb]. rewrite !orb_true_iff, !Nat.eqb_eq. intuition discriminate. Qed.
Lemma mem_nat_3 n a b d : mem_nat n [a; b; d] = true <-> n = a \/ n = b \/ n = d.
Proof. unfold mem_nat. cbn [existsb]. rewrite !orb_true_iff, !Nat.eqb_eq. intuition discriminate. Qed.

Lemma len_guard_false n b : (0 < b)%nat ->
  ((n <? b)%nat || negb (n mod b =? 0)%nat = false) <-> ((b <= n)%nat /\ (n mod b = 0)%nat).
Proof.
  intro Hb. rewrite orb_false_iff, negb_false_iff, Nat.ltb_ge, Nat.eqb_eq. reflexivity.
Qed.

Section Versions.
  Variables cd ca : cipher.
  Hypothesis H : ciphers_ok cd ca.
  Let Hcd : cipher_ok cd := cd_ok cd ca H.
  Let Hca : cipher_ok ca := ca_ok cd ca H.

  Lemma tdes_len_valid k : (length k = 8 \/ length k = 16 \/ length k = 24)%nat -> valid_key cd k = true.
  Proof.
    intro Hl. rewrite (cd_keys cd ca H). unfold tdes_valid_key. destruct Hl as [-> | [-> | ->]]; reflexivity.
  Qed.
  Lemma aes_len_valid k : (length k = 16 \/ length k = 24 \/ length k = 32)%nat -> valid_key ca k = true.
  Proof.
    intro Hl. rewrite (ca_keys cd ca H). unfold aes_valid_key. destruct Hl as [-> | [-> | ->]]; reflexivity.
  Qed.

  (* the derived keys are keys of the size of the KBPK *)
  Lemma kdf_b_keys kbpk : bytes_ok kbpk = true -> (length kbpk = 16 \/ length kbpk = 24)%nat ->
    length (fst (spec_kdf_b cd kbpk)) = length kbpk /\ length (snd (spec_kdf_b cd kbpk)) = length kbpk /\
    bytes_ok (fst (spec_kdf_b cd kbpk)) = true /\ bytes_ok (snd (spec_kdf_b cd kbpk)) = true.
  Proof.
    intros Bk Hl.
    assert (Hk : valid_key cd kbpk = true) by (apply tdes_len_valid; tauto).
    assert (B : forall x, bytes_ok x = true -> length (cmac cd kbpk x) = 8%nat /\ bytes_ok (cmac cd kbpk x) = true).
    { intros x Bx. destruct (cmac_block cd Hcd kbpk Hk x Bx) as [L B]. rewrite (cd_bs cd ca H) in L. auto. }
    unfold spec_kdf_b, kdf_pair, kdf_blocks.
    destruct Hl as [Hl|Hl]; rewrite Hl; cbn [Nat.eqb flat_map fst snd]; rewrite !app_length;
      repeat split;
      repeat match goal with |- context [length (cmac _ kbpk ?x)] => rewrite (proj1 (B x eq_refl)) end;
      try reflexivity;
      repeat (apply bytes_ok_app; split; [apply B; reflexivity|]); reflexivity.
  Qed.

  Lemma kdf_d_keys kbpk : bytes_ok kbpk = true ->
    (length kbpk = 16 \/ length kbpk = 24 \/ length kbpk = 32)%nat ->
    length (fst (spec_kdf_d ca kbpk)) = length kbpk /\ length (snd (spec_kdf_d ca kbpk)) = length kbpk /\
    bytes_ok (fst (spec_kdf_d ca kbpk)) = true /\ bytes_ok (snd (spec_kdf_d ca kbpk)) = true.
  Proof.
    intros Bk Hl.
    assert (Hk : valid_key ca kbpk = true) by (apply aes_len_valid; tauto).
    assert (B : forall x, bytes_ok x = true -> length (cmac ca kbpk x) = 16%nat /\ bytes_ok (cmac ca kbpk x) = true).
    { intros x Bx. destruct (cmac_block ca Hca kbpk Hk x Bx) as [L B]. rewrite (ca_bs cd ca H) in L. auto. }
    unfold spec_kdf_d, kdf_pair, kdf_blocks.
    destruct Hl as [Hl|[Hl|Hl]]; rewrite Hl; cbn [Nat.eqb flat_map fst snd]; rewrite !firstn_length, !app_length;
      repeat split;
      repeat match goal with |- context [length (cmac _ kbpk ?x)] => rewrite (proj1 (B x eq_refl)) end;
      try reflexivity;
      apply bytes_ok_firstn;
      repeat (apply bytes_ok_app; split; [apply B; reflexivity|]); reflexivity.
  Qed.

  (* the MAC functions on arbitrary input *)
  Lemma b_generate_mac_eq kbak hs data : valid_key cd kbak = true -> bytes_ok data = true ->
    b_generate_mac cd ca kbak hs data = (do hb <- encode_ascii hs; Ok (psec_mac_bd cd kbak (hb ++ data))).
  Proof.
    intros Hk Bd. unfold b_generate_mac, derive_des_cmac_subkey.
    rewrite (subkeys_des cd ca H) by assumption. cbn [bind fst].
    unfold encode_ascii. destruct (forallb _ hs) eqn:Ha; cbn [bind]; [|reflexivity].
    destruct (ascii_encode hs Ha) as [_ Bh].
    assert (Bm : bytes_ok (hs ++ data) = true) by (apply bytes_ok_app; auto).
    destruct (cmac_K1_block cd kbak) as [_ BK].
    pose proof (gen_cbc_mac_spec cd ca false kbak
      (drop_last 8 (hs ++ data) ++ py_xor (last_n 8 (hs ++ data)) (cmac_K1 cd kbak)) 8) as G.
    cbv beta iota zeta in G. rewrite G; clear G; try assumption.
    2:{ apply bytes_ok_app. split; [apply bytes_ok_firstn; assumption|].
        apply py_xor_bytes_ok; [apply bytes_ok_skipn; assumption | assumption]. }
    f_equal. unfold psec_mac_bd. rewrite (cd_bs cd ca H).
    rewrite py_xor_is_bytewise by (try assumption; apply bytes_ok_skipn; assumption).
    apply firstn_all2.
    match goal with |- (length (cbc_mac cd kbak ?m) <= _)%nat =>
      assert (Hb : block_ok cd (cbc_mac cd kbak m)) end.
    { apply cbc_mac_block; try assumption. apply bytes_ok_iso_pad1. apply bytes_ok_app.
      split; [apply bytes_ok_firstn; assumption|].
      apply xor_pos_bytes_ok; [apply bytes_ok_skipn; assumption | assumption]. }
    destruct Hb as [-> _]. rewrite (cd_bs cd ca H). lia.
  Qed.

  Lemma d_generate_mac_eq kbak hs data : valid_key ca kbak = true -> bytes_ok data = true ->
    d_generate_mac cd ca kbak hs data = (do hb <- encode_ascii hs; Ok (psec_mac_bd ca kbak (hb ++ data))).
  Proof.
    intros Hk Bd. unfold d_generate_mac, derive_aes_cmac_subkey.
    rewrite (subkeys_aes cd ca H) by assumption. cbn [bind fst].
    unfold encode_ascii. destruct (forallb _ hs) eqn:Ha; cbn [bind]; [|reflexivity].
    destruct (ascii_encode hs Ha) as [_ Bh].
    assert (Bm : bytes_ok (hs ++ data) = true) by (apply bytes_ok_app; auto).
    destruct (cmac_K1_block ca kbak) as [_ BK].
    pose proof (gen_cbc_mac_spec cd ca true kbak
      (drop_last 16 (hs ++ data) ++ py_xor (last_n 16 (hs ++ data)) (cmac_K1 ca kbak)) 16) as G.
    cbv beta iota zeta in G. rewrite G; clear G; try assumption.
    2:{ apply bytes_ok_app. split; [apply bytes_ok_firstn; assumption|].
        apply py_xor_bytes_ok; [apply bytes_ok_skipn; assumption | assumption]. }
    f_equal. unfold psec_mac_bd. rewrite (ca_bs cd ca H).
    rewrite py_xor_is_bytewise by (try assumption; apply bytes_ok_skipn; assumption).
    apply firstn_all2.
    match goal with |- (length (cbc_mac ca kbak ?m) <= _)%nat =>
      assert (Hb : block_ok ca (cbc_mac ca kbak m)) end.
    { apply cbc_mac_block; try assumption. apply bytes_ok_iso_pad1. apply bytes_ok_app.
      split; [apply bytes_ok_firstn; assumption|].
      apply xor_pos_bytes_ok; [apply bytes_ok_skipn; assumption | assumption]. }
    destruct Hb as [-> _]. rewrite (ca_bs cd ca H). lia.
  Qed.

  Lemma c_generate_mac_eq kbak hs data : valid_key cd kbak = true -> bytes_ok data = true ->
    c_generate_mac cd ca kbak hs data = (do hb <- encode_ascii hs; Ok (spec_mac_c cd kbak hb data)).
  Proof.
    intros Hk Bd. unfold encode_ascii. destruct (forallb _ hs) eqn:Ha; cbn [bind].
    - apply (mac_c_padded cd ca H); assumption.
    - unfold c_generate_mac, encode_ascii. rewrite Ha. reflexivity.
  Qed.

  (* ---------------- what each version's unwrap accepts ---------------- *)
  (* B: the received MAC is the IV of the decryption and must equal the MAC
     recomputed over header text ++ decrypted key data *)
  Definition auth_b (kbpk hdr ek mac k : list N) : Prop :=
    (length kbpk = 16 \/ length kbpk = 24)%nat /\
    (8 <= length ek)%nat /\ (length ek mod 8 = 0)%nat /\ ascii_str hdr /\
    let kbek := fst (spec_kdf_b cd kbpk) in
    let kbak := snd (spec_kdf_b cd kbpk) in
    let clear := spec_decrypt cd kbek mac ek in
    mac = psec_mac_bd cd kbak (hdr ++ clear) /\ extract_key clear = Ok k.

  Definition auth_d (kbpk hdr ek mac k : list N) : Prop :=
    (length kbpk = 16 \/ length kbpk = 24 \/ length kbpk = 32)%nat /\
    (16 <= length ek)%nat /\ (length ek mod 16 = 0)%nat /\ ascii_str hdr /\
    let kbek := fst (spec_kdf_d ca kbpk) in
    let kbak := snd (spec_kdf_d ca kbpk) in
    let clear := spec_decrypt ca kbek mac ek in
    mac = psec_mac_bd ca kbak (hdr ++ clear) /\ extract_key clear = Ok k.

  (* A / C: the MAC is over header text ++ encrypted key data *)
  Definition auth_c (kbpk hdr ek mac k : list N) : Prop :=
    (length kbpk = 8 \/ length kbpk = 16 \/ length kbpk = 24)%nat /\
    (8 <= length ek)%nat /\ (length ek mod 8 = 0)%nat /\ ascii_str hdr /\ (8 <= length hdr)%nat /\
    let kbek := fst (spec_variant kbpk) in
    let kbak := snd (spec_variant kbpk) in
    mac = spec_mac_c cd kbak hdr ek /\
    extract_key (spec_decrypt cd kbek (firstn 8 hdr) ek) = Ok k.

  Lemma b_unwrap_iff kbpk hdr ek mac k :
    bytes_ok kbpk = true -> bytes_ok ek = true -> bytes_ok mac = true -> length mac = 8%nat ->
    (b_unwrap cd ca kbpk hdr ek mac = Ok k <-> auth_b kbpk hdr ek mac k).
  Proof.
    intros Bk Bek Bmac Lmac. unfold b_unwrap, b_unwrap_clear, auth_b.
    destruct (mem_nat (length kbpk) [16; 24]%nat) eqn:E1; cbn [negb].
    2:{ split; [cbn [bind]; discriminate|]. intros (Hl & _). apply mem_nat_2 in Hl. congruence. }
    apply mem_nat_2 in E1.
    destruct ((length ek <? 8)%nat || negb (length ek mod 8 =? 0)%nat) eqn:E2.
    { split; [cbn [bind]; discriminate|]. intros (_ & A & B & _).
      assert (X : (length ek <? 8)%nat || negb (length ek mod 8 =? 0)%nat = false) by (apply len_guard_false; [lia|auto]).
      congruence. }
    apply len_guard_false in E2; [|lia]. destruct E2 as [A B].
    rewrite (kdf_b cd ca H kbpk Bk E1). cbn [bind].
    destruct (kdf_b_keys kbpk Bk E1) as (Le & La & Be & Ba).
    destruct (spec_kdf_b cd kbpk) as [kbek kbak]. cbn [fst snd] in *.
    assert (Vke : valid_key cd kbek = true) by (apply tdes_len_valid; rewrite Le; tauto).
    assert (Vka : valid_key cd kbak = true) by (apply tdes_len_valid; rewrite La; tauto).
    assert (Hiv : block_ok cd mac) by (split; [rewrite (cd_bs cd ca H); assumption | assumption]).
    destruct (decrypt_cbc_spec cd Hcd kbek Vke mac ek Hiv Bek) as (D1 & D2 & D3);
      [rewrite (cd_bs cd ca H); assumption | rewrite (cd_bs cd ca H); assumption |].
    rewrite D1. cbn [bind]. rewrite (b_generate_mac_eq kbak hdr _ Vka D2).
    unfold encode_ascii. destruct (forallb _ hdr) eqn:Ha; cbn [bind].
    2:{ split; [discriminate|]. intros (_ & _ & _ & Ha' & _). unfold ascii_str in Ha'. congruence. }
    destruct (list_eqb _ mac) eqn:Em; cbn [negb bind].
    - apply list_eqb_eq in Em. split.
      + intro Hx. repeat split; auto.
      + intros (_ & _ & _ & _ & _ & Hx). exact Hx.
    - apply list_eqb_neq in Em. split; [discriminate|].
      intros (_ & _ & _ & _ & Hm & _). symmetry in Hm. contradiction.
  Qed.

  Lemma d_unwrap_iff kbpk hdr ek mac k :
    bytes_ok kbpk = true -> bytes_ok ek = true -> bytes_ok mac = true -> length mac = 16%nat ->
    (d_unwrap cd ca kbpk hdr ek mac = Ok k <-> auth_d kbpk hdr ek mac k).
  Proof.
    intros Bk Bek Bmac Lmac. unfold d_unwrap, d_unwrap_clear, auth_d.
    destruct (mem_nat (length kbpk) [16; 24; 32]%nat) eqn:E1; cbn [negb].
    2:{ split; [cbn [bind]; discriminate|]. intros (Hl & _). apply mem_nat_3 in Hl. congruence. }
    apply mem_nat_3 in E1.
    destruct ((length ek <? 16)%nat || negb (length ek mod 16 =? 0)%nat) eqn:E2.
    { split; [cbn [bind]; discriminate|]. intros (_ & A & B & _).
      assert (X : (length ek <? 16)%nat || negb (length ek mod 16 =? 0)%nat = false) by (apply len_guard_false; [lia|auto]).
      congruence. }
    apply len_guard_false in E2; [|lia]. destruct E2 as [A B].
    rewrite (kdf_d cd ca H kbpk Bk E1). cbn [bind].
    destruct (kdf_d_keys kbpk Bk E1) as (Le & La & Be & Ba).
    destruct (spec_kdf_d ca kbpk) as [kbek kbak]. cbn [fst snd] in *.
    assert (Vke : valid_key ca kbek = true) by (apply aes_len_valid; rewrite Le; tauto).
    assert (Vka : valid_key ca kbak = true) by (apply aes_len_valid; rewrite La; tauto).
    assert (Hiv : block_ok ca mac) by (split; [rewrite (ca_bs cd ca H); assumption | assumption]).
    destruct (decrypt_cbc_spec ca Hca kbek Vke mac ek Hiv Bek) as (D1 & D2 & D3);
      [rewrite (ca_bs cd ca H); assumption | rewrite (ca_bs cd ca H); assumption |].
    rewrite D1. cbn [bind]. rewrite (d_generate_mac_eq kbak hdr _ Vka D2).
    unfold encode_ascii. destruct (forallb _ hdr) eqn:Ha; cbn [bind].
    2:{ split; [discriminate|]. intros (_ & _ & _ & Ha' & _). unfold ascii_str in Ha'. congruence. }
    destruct (list_eqb _ mac) eqn:Em; cbn [negb bind].
    - apply list_eqb_eq in Em. split.
      + intro Hx. repeat split; auto.
      + intros (_ & _ & _ & _ & _ & Hx). exact Hx.
    - apply list_eqb_neq in Em. split; [discriminate|].
      intros (_ & _ & _ & _ & Hm & _). symmetry in Hm. contradiction.
  Qed.

  Lemma variant_keys kbpk : bytes_ok kbpk = true ->
    length (fst (spec_variant kbpk)) = length kbpk /\ length (snd (spec_variant kbpk)) = length kbpk /\
    bytes_ok (fst (spec_variant kbpk)) = true /\ bytes_ok (snd (spec_variant kbpk)) = true.
  Proof.
    intro Bk. rewrite <- (variant_c kbpk Bk). unfold c_derive. cbn [fst snd].
    rewrite !py_xor_length. repeat split; apply py_xor_bytes_ok; try assumption; apply bytes_ok_repeat; lia.
  Qed.

  Lemma c_unwrap_iff kbpk hdr ek mac k :
    bytes_ok kbpk = true -> bytes_ok ek = true -> bytes_ok mac = true ->
    (c_unwrap cd ca kbpk hdr ek mac = Ok k <-> auth_c kbpk hdr ek mac k).
  Proof.
    intros Bk Bek Bmac. unfold c_unwrap, c_unwrap_clear, auth_c.
    destruct (mem_nat (length kbpk) [8; 16; 24]%nat) eqn:E1; cbn [negb].
    2:{ split; [cbn [bind]; discriminate|]. intros (Hl & _). apply mem_nat_3 in Hl. congruence. }
    apply mem_nat_3 in E1.
    destruct ((length ek <? 8)%nat || negb (length ek mod 8 =? 0)%nat) eqn:E2.
    { split; [cbn [bind]; discriminate|]. intros (_ & A & B & _).
      assert (X : (length ek <? 8)%nat || negb (length ek mod 8 =? 0)%nat = false) by (apply len_guard_false; [lia|auto]).
      congruence. }
    apply len_guard_false in E2; [|lia]. destruct E2 as [A B].
    rewrite (variant_c kbpk Bk).
    destruct (variant_keys kbpk Bk) as (Le & La & Be & Ba).
    destruct (spec_variant kbpk) as [kbek kbak]. cbn [fst snd] in *.
    assert (Vke : valid_key cd kbek = true) by (apply tdes_len_valid; rewrite Le; tauto).
    assert (Vka : valid_key cd kbak = true) by (apply tdes_len_valid; rewrite La; tauto).
    rewrite (c_generate_mac_eq kbak hdr ek Vka Bek).
    unfold encode_ascii. destruct (forallb _ hdr) eqn:Ha; cbn [bind].
    2:{ split; [discriminate|]. intros (_ & _ & _ & Ha' & _). unfold ascii_str in Ha'. congruence. }
    destruct (ascii_encode hdr Ha) as [_ Bh].
    destruct (list_eqb _ mac) eqn:Em; cbn [negb bind].
    2:{ apply list_eqb_neq in Em. split; [discriminate|].
        intros (_ & _ & _ & _ & _ & Hm & _). symmetry in Hm. contradiction. }
    apply list_eqb_eq in Em.
    destruct (Nat.le_gt_cases 8 (length hdr)) as [Lh|Lh].
    - assert (Hiv : block_ok cd (firstn 8 hdr)).
      { split; [rewrite firstn_length, (cd_bs cd ca H); lia | apply bytes_ok_firstn; assumption]. }
      destruct (decrypt_cbc_spec cd Hcd kbek Vke (firstn 8 hdr) ek Hiv Bek) as (D1 & D2 & D3);
        [rewrite (cd_bs cd ca H); assumption | rewrite (cd_bs cd ca H); assumption |].
      rewrite D1. cbn [bind]. split.
      + intro Hx. repeat split; auto.
      + intros (_ & _ & _ & _ & _ & _ & Hx). exact Hx.
    - split; [|intros (_ & _ & _ & _ & Lh' & _); lia].
      unfold decrypt_cbc, bad_len. rewrite (cd_bs cd ca H), Vke, B.
      destruct (Nat.ltb_spec (length ek) 8); [lia|]. cbn [Nat.eqb negb orb].
      rewrite firstn_length. destruct (Nat.eqb_spec (Nat.min 8 (length hdr)) 8); [lia|].
      cbn [negb bind]. discriminate.
  Qed.
End Versions.

(* ------------------------------------------------------------------ *)
(* KeyBlock.unwrap: the parse around the version-specific unwrap        *)
Lemma fromhex_kbe_ok s b : fromhex_kbe s = Ok b <-> bytes_fromhex s = Ok b.
Proof.
  unfold fromhex_kbe. destruct (bytes_fromhex s) as [x|[]]; split; intro E; try discriminate; assumption.
Qed.

Lemma version_cases (v : str) :
  v = [65] \/ v = [66] \/ v = [67] \/ v = [68] \/
  (algo_block_size v = Err (Crash CKey) /\ key_block_mac_len v = Err (Crash CKey) /\
   forall cd ca, unwrap_dispatch cd ca v = Err KeyBlockError).
Proof.
  destruct v as [|c t]; [do 4 right; repeat split; reflexivity|].
  destruct c as [|p]; [destruct t; do 4 right; repeat split; reflexivity|].
  do 7 (try solve [destruct t; do 4 right; repeat split; reflexivity]; destruct p as [p|p|]);
    try solve [destruct t; do 4 right; repeat split; reflexivity];
    destruct t; try solve [do 4 right; repeat split; reflexivity]; auto 6.
Qed.

Definition unwrap_parse (cd ca : cipher) (kbpk : bytes) (s : str) (h : header) (k : bytes) : Prop :=
  exists header_len abs maclen mac ek u,
    header_load default_header s = (h, Ok header_len) /\
    int_of_dec (slice 1 4 s) = Ok (lenN s) /\
    algo_block_size (version_id h) = Ok abs /\ (length s mod abs = 0)%nat /\
    key_block_mac_len (version_id h) = Ok maclen /\
    bytes_fromhex (last_n (maclen * 2) (skipn header_len s)) = Ok mac /\ length mac = maclen /\
    bytes_fromhex (drop_last (maclen * 2) (skipn header_len s)) = Ok ek /\
    unwrap_dispatch cd ca (version_id h) = Ok u /\
    u kbpk (firstn header_len s) ek mac = Ok k.

Lemma int_of_dec_numeric s v : int_of_dec s = Ok v -> ascii_numeric s = true.
Proof.
  unfold int_of_dec. destruct s; [discriminate|]. destruct (ascii_numeric _); [reflexivity|discriminate].
Qed.

Lemma unwrap_struct cd ca kbpk s h k :
  unwrap cd ca kbpk s = Ok (h, k) <-> unwrap_parse cd ca kbpk s h k.
Proof.
  unfold unwrap, kb_unwrap, kb_unwrap_gen, unwrap_parse. split.
  - destruct (header_load default_header s) as [h' r] eqn:HL. intro E.
    destruct r as [hl|e]; cbn [bind] in E; [|discriminate].
    destruct (ascii_numeric (slice 1 4 s)); cbn [negb] in E; [|discriminate].
    destruct (int_of_dec (slice 1 4 s)) as [kl|] eqn:EI; cbn [bind] in E; [|discriminate].
    destruct (kl =? lenN s) eqn:EL; cbn [negb] in E; [|discriminate]. apply N.eqb_eq in EL. subst kl.
    destruct (algo_block_size (version_id h')) as [abs|] eqn:EA; cbn [bind] in E; [|discriminate].
    destruct (length s mod abs =? 0)%nat eqn:EM; cbn [negb] in E; [|discriminate]. apply Nat.eqb_eq in EM.
    destruct (key_block_mac_len (version_id h')) as [ml|] eqn:EK; cbn [bind] in E; [|discriminate].
    destruct (fromhex_kbe (last_n (ml * 2) (skipn hl s))) as [mac|] eqn:EF1; cbn [bind] in E; [|discriminate].
    destruct (length mac =? ml)%nat eqn:ELm; cbn [negb] in E; [|discriminate]. apply Nat.eqb_eq in ELm.
    destruct (fromhex_kbe (drop_last (ml * 2) (skipn hl s))) as [ek|] eqn:EF2; cbn [bind] in E; [|discriminate].
    destruct (unwrap_dispatch cd ca (version_id h')) as [u|] eqn:EU; cbn [bind] in E; [|discriminate].
    destruct (u kbpk (firstn hl s) ek mac) as [k'|] eqn:EUk; cbn [bind] in E; [|discriminate].
    injection E as <- <-.
    apply fromhex_kbe_ok in EF1. apply fromhex_kbe_ok in EF2.
    exists hl, abs, ml, mac, ek, u. repeat split; assumption.
  - intros (hl & abs & ml & mac & ek & u & HL & EI & EA & EM & EK & EF1 & ELm & EF2 & EU & EUk).
    rewrite HL. cbn [bind]. rewrite (int_of_dec_numeric _ _ EI). cbn [negb]. rewrite EI. cbn [bind].
    rewrite N.eqb_refl. cbn [negb]. rewrite EA. cbn [bind]. rewrite EM. cbn [Nat.eqb negb].
    rewrite EK. cbn [bind].
    apply fromhex_kbe_ok in EF1. apply fromhex_kbe_ok in EF2.
    rewrite EF1. cbn [bind]. rewrite ELm, Nat.eqb_refl. cbn [negb]. rewrite EF2. cbn [bind].
    rewrite EU. cbn [bind]. rewrite EUk. reflexivity.
Qed.

(* the binary section of an accepted string: block-multiple total length, the
   last 2*maclen characters are exactly maclen hex pairs, the rest decodes *)
Definition binary_section (abs maclen : nat) (s : str) (header_len : nat) (ek mac : bytes) : Prop :=
  (length s mod abs = 0)%nat /\
  bytes_fromhex (last_n (maclen * 2) (skipn header_len s)) = Ok mac /\ length mac = maclen /\
  bytes_fromhex (drop_last (maclen * 2) (skipn header_len s)) = Ok ek.

Definition accepts (cd ca : cipher) (kbpk : bytes) (s : str) (h : header) (k : bytes) : Prop :=
  exists header_len ek mac,
    header_load default_header s = (h, Ok header_len) /\
    int_of_dec (slice 1 4 s) = Ok (lenN s) /\
    let hdr := firstn header_len s in
    (   (version_id h = [66] /\ binary_section 8 8 s header_len ek mac /\ auth_b cd kbpk hdr ek mac k)
     \/ (version_id h = [68] /\ binary_section 16 16 s header_len ek mac /\ auth_d ca kbpk hdr ek mac k)
     \/ ((version_id h = [65] \/ version_id h = [67]) /\
         binary_section 8 4 s header_len ek mac /\ auth_c cd kbpk hdr ek mac k)).

Theorem accept_iff cd ca : ciphers_ok cd ca -> forall kbpk s h k, bytes_ok kbpk = true ->
  (unwrap cd ca kbpk s = Ok (h, k) <-> accepts cd ca kbpk s h k).
Proof.
  intros H kbpk s h k Bk. rewrite unwrap_struct. unfold unwrap_parse, accepts, binary_section. split.
  - intros (hl & abs & ml & mac & ek & u & HL & EI & EA & EM & EK & EF1 & ELm & EF2 & EU & EUk).
    exists hl, ek, mac. split; [assumption|]. split; [assumption|]. cbv zeta.
    pose proof (bytes_fromhex_ok _ _ EF1) as Bmac. pose proof (bytes_fromhex_ok _ _ EF2) as Bek.
    destruct (version_cases (version_id h)) as [V|[V|[V|[V|(V & _)]]]]; rewrite V in *;
      [| | | |congruence]; cbn in EA, EK, EU; injection EA as <-; injection EK as <-; injection EU as <-.
    + right. right. split; [auto|]. split; [auto|]. apply (c_unwrap_iff cd ca H); assumption.
    + left. split; [reflexivity|]. split; [auto|]. apply (b_unwrap_iff cd ca H); assumption.
    + right. right. split; [auto|]. split; [auto|]. apply (c_unwrap_iff cd ca H); assumption.
    + right. left. split; [reflexivity|]. split; [auto|]. apply (d_unwrap_iff cd ca H); assumption.
  - intros (hl & ek & mac & HL & EI & Hv). cbv zeta in Hv.
    destruct Hv as [(V & (EM & EF1 & ELm & EF2) & A)|[(V & (EM & EF1 & ELm & EF2) & A)|(V & (EM & EF1 & ELm & EF2) & A)]];
      pose proof (bytes_fromhex_ok _ _ EF1) as Bmac; pose proof (bytes_fromhex_ok _ _ EF2) as Bek.
    + exists hl, 8%nat, 8%nat, mac, ek, (b_unwrap cd ca). rewrite V. repeat split; try assumption.
      apply (b_unwrap_iff cd ca H); assumption.
    + exists hl, 16%nat, 16%nat, mac, ek, (d_unwrap cd ca). rewrite V. repeat split; try assumption.
      apply (d_unwrap_iff cd ca H); assumption.
    + exists hl, 8%nat, 4%nat, mac, ek, (c_unwrap cd ca).
      destruct V as [V|V]; rewrite V; repeat split; try assumption; apply (c_unwrap_iff cd ca H); assumption.
Qed.

Corollary accept_only_if cd ca : ciphers_ok cd ca -> forall kbpk s h k, bytes_ok kbpk = true ->
  unwrap cd ca kbpk s = Ok (h, k) -> accepts cd ca kbpk s h k.
Proof. intros H kbpk s h k Bk. apply (accept_iff cd ca H); assumption. Qed.

(* ------------------------------------------------------------------ *)
(* with no white space in the binary section the header text is a whole number
   of blocks, and then the B / D acceptance condition is the CMAC equation *)
Lemma no_ws_header_multiple abs maclen s hl ek mac :
  (abs = 8 \/ abs = 16)%nat -> (0 < maclen)%nat -> ((maclen * 2) mod abs = 0)%nat ->
  binary_section abs maclen s hl ek mac -> (length ek mod abs = 0)%nat ->
  length (skipn hl s) = (2 * length ek + 2 * maclen)%nat ->
  (hl mod abs = 0)%nat /\ (hl <= length s)%nat.
Proof.
  intros Ha Hp Hm (EM & _ & _ & _) Hek Hl. rewrite skipn_length in Hl.
  destruct Ha; subst abs; lia.
Qed.

Section Cmac_form.
  Variables cd ca : cipher.
  Hypothesis H : ciphers_ok cd ca.

  Theorem auth_b_cmac kbpk hdr ek mac k :
    bytes_ok kbpk = true -> bytes_ok ek = true -> bytes_ok mac = true -> length mac = 8%nat ->
    auth_b cd kbpk hdr ek mac k -> (length hdr mod 8 = 0)%nat ->
    spec_open_b cd kbpk hdr ek mac = Some (spec_decrypt cd (fst (spec_kdf_b cd kbpk)) mac ek) /\
    mac = cmac cd (snd (spec_kdf_b cd kbpk)) (hdr ++ spec_decrypt cd (fst (spec_kdf_b cd kbpk)) mac ek).
  Proof.
    intros Bk Bek Bmac Lmac (Hl & A & B & Ha & Hm & Hx) Hh. cbv zeta in Hm.
    pose proof (cd_ok cd ca H) as Hcd.
    destruct (kdf_b_keys cd ca H kbpk Bk Hl) as (Le & La & Be & Ba).
    unfold spec_open_b, spec_mac_b.
    destruct (spec_kdf_b cd kbpk) as [kbek kbak]. cbn [fst snd] in *.
    assert (Vke : valid_key cd kbek = true) by (apply (tdes_len_valid cd ca H); rewrite Le; tauto).
    assert (Hiv : block_ok cd mac) by (split; [rewrite (cd_bs cd ca H); assumption | assumption]).
    destruct (decrypt_cbc_spec cd Hcd kbek Vke mac ek Hiv Bek) as (D1 & D2 & D3);
      [rewrite (cd_bs cd ca H); assumption | rewrite (cd_bs cd ca H); assumption |].
    rewrite psec_mac_bd_cmac in Hm; try assumption.
    - rewrite <- Hm. split; [|reflexivity].
      destruct (list_eqb mac mac) eqn:E; [reflexivity|]. apply list_eqb_neq in E. congruence.
    - rewrite app_length, D3. lia.
    - rewrite app_length, D3, (cd_bs cd ca H). lia.
  Qed.

  Theorem auth_d_cmac kbpk hdr ek mac k :
    bytes_ok kbpk = true -> bytes_ok ek = true -> bytes_ok mac = true -> length mac = 16%nat ->
    auth_d ca kbpk hdr ek mac k -> (length hdr mod 16 = 0)%nat ->
    spec_open_d ca kbpk hdr ek mac = Some (spec_decrypt ca (fst (spec_kdf_d ca kbpk)) mac ek) /\
    mac = cmac ca (snd (spec_kdf_d ca kbpk)) (hdr ++ spec_decrypt ca (fst (spec_kdf_d ca kbpk)) mac ek).
  Proof.
    intros Bk Bek Bmac Lmac (Hl & A & B & Ha & Hm & Hx) Hh. cbv zeta in Hm.
    pose proof (ca_ok cd ca H) as Hca.
    destruct (kdf_d_keys cd ca H kbpk Bk Hl) as (Le & La & Be & Ba).
    unfold spec_open_d, spec_mac_d.
    destruct (spec_kdf_d ca kbpk) as [kbek kbak]. cbn [fst snd] in *.
    assert (Vke : valid_key ca kbek = true) by (apply (aes_len_valid cd ca H); rewrite Le; tauto).
    assert (Hiv : block_ok ca mac) by (split; [rewrite (ca_bs cd ca H); assumption | assumption]).
    destruct (decrypt_cbc_spec ca Hca kbek Vke mac ek Hiv Bek) as (D1 & D2 & D3);
      [rewrite (ca_bs cd ca H); assumption | rewrite (ca_bs cd ca H); assumption |].
    rewrite psec_mac_bd_cmac in Hm; try assumption.
    - rewrite <- Hm. split; [|reflexivity].
      destruct (list_eqb mac mac) eqn:E; [reflexivity|]. apply list_eqb_neq in E. congruence.
    - rewrite app_length, D3. lia.
    - rewrite app_length, D3, (ca_bs cd ca H). lia.
  Qed.

  (* A / C: the condition of auth_c is the Spec's own opening *)
  Theorem auth_c_open kbpk hdr ek mac k :
    auth_c cd kbpk hdr ek mac k ->
    spec_open_c cd kbpk hdr ek mac = Some (spec_decrypt cd (fst (spec_variant kbpk)) (firstn 8 hdr) ek) /\
    ((length hdr + length ek) mod 8 = 0 ->
     mac = firstn 4 (cbc_mac cd (snd (spec_variant kbpk)) (hdr ++ ek)))%nat.
  Proof.
    intros (Hl & A & B & Ha & Lh & Hm & Hx). cbv zeta in Hm. unfold spec_open_c.
    destruct (spec_variant kbpk) as [kbek kbak]. cbn [fst snd] in *. rewrite <- Hm. split.
    - destruct (list_eqb mac mac) eqn:E; [reflexivity|]. apply list_eqb_neq in E. congruence.
    - intro Hmod. rewrite Hm. unfold spec_mac_c. rewrite iso_pad1_multiple; [reflexivity| |];
        rewrite app_length; [lia|]. rewrite (cd_bs cd ca H). assumption.
  Qed.
End Cmac_form.

(* ------------------------------------------------------------------ *)
(* facts about a successful Header.load                                 *)
Lemma set_field_version h f v h' : set_field h f v = Ok h' ->
  match f with
  | FVersionId => version_id h' = v /\ version_supported v = true
  | _ => version_id h' = version_id h
  end.
Proof.
  unfold set_field. destruct f.
  - destruct (version_supported v); intro E; [injection E as <-; auto | discriminate].
  - destruct (_ || _); intro E; [discriminate | injection E as <-; reflexivity].
  - destruct (_ || _); intro E; [discriminate | injection E as <-; reflexivity].
  - destruct (_ || _); intro E; [discriminate | injection E as <-; reflexivity].
  - destruct (_ || _); intro E; [discriminate | injection E as <-; reflexivity].
  - destruct (_ || _); intro E; [discriminate | injection E as <-; reflexivity].
Qed.

Lemma header_load_facts h0 s h hl : header_load h0 s = (h, Ok hl) ->
  (16 <= length s)%nat /\ (16 <= hl)%nat /\ version_supported (version_id h) = true.
Proof.
  unfold header_load, header_load_with.
  destruct (negb (ascii_alphanumeric (firstn 16 s))); [discriminate|].
  destruct (Nat.ltb_spec (length s) 16) as [|Ls]; [discriminate|].
  destruct (set_field h0 FVersionId (slice 0 1 s)) as [h1|] eqn:E1; [|discriminate].
  destruct (set_field h1 FKeyUsage (slice 5 2 s)) as [h2|] eqn:E2; [|discriminate].
  destruct (set_field h2 FAlgorithm (slice 7 1 s)) as [h3|] eqn:E3; [|discriminate].
  destruct (set_field h3 FModeOfUse (slice 8 1 s)) as [h4|] eqn:E4; [|discriminate].
  destruct (set_field h4 FVersionNum (slice 9 2 s)) as [h5|] eqn:E5; [|discriminate].
  destruct (set_field h5 FExportability (slice 11 1 s)) as [h6|] eqn:E6; [|discriminate].
  destruct (negb (ascii_numeric (slice 12 2 s))); [discriminate|].
  destruct (int_of_dec (slice 12 2 s)) as [bn|]; [|discriminate].
  destruct (blocks_load (N.to_nat bn) (skipn 16 s)) as [d r]. intro E. injection E as <- Er.
  destruct r as [n|]; cbn [bind] in Er; [|discriminate]. injection Er as <-.
  apply set_field_version in E1, E2, E3, E4, E5, E6. destruct E1 as [E1 V1].
  split; [assumption|]. split; [lia|].
  cbn [set_blocks set_reserved version_id]. rewrite E6, E5, E4, E3, E2, E1. exact V1.
Qed.

Lemma version_supported_cases v : version_supported v = true ->
  v = [65] \/ v = [66] \/ v = [67] \/ v = [68].
Proof.
  unfold version_supported. destruct v as [|c [|d r]]; try discriminate.
  unfold cA, cB, cC, cD. rewrite !orb_true_iff, !N.eqb_eq. intuition (subst; auto).
Qed.

Lemma header_load_block_size h0 s h hl : header_load h0 s = (h, Ok hl) ->
  exists abs, algo_block_size (version_id h) = Ok abs /\ (abs = 8 \/ abs = 16)%nat.
Proof.
  intro HL. apply header_load_facts in HL as (_ & _ & V). apply version_supported_cases in V.
  destruct V as [-> | [-> | [-> | ->]]]; cbn; eauto.
Qed.

Lemma slice_1_4_numeric s : (16 <= length s)%nat -> ascii_numeric (slice 1 4 s) = true ->
  int_of_dec (slice 1 4 s) = Ok (dec_value (slice 1 4 s)).
Proof.
  intros L E. unfold int_of_dec. rewrite E.
  destruct (slice 1 4 s) eqn:ES; [|reflexivity].
  apply (f_equal (@length N)) in ES. unfold slice in ES. rewrite firstn_length, skipn_length in ES.
  cbn [length] in ES. lia.
Qed.

(* a length field that is not the true length: KeyBlockError *)
Theorem wrong_length_field cd ca kbpk s h hl : header_load default_header s = (h, Ok hl) ->
  int_of_dec (slice 1 4 s) <> Ok (lenN s) -> unwrap cd ca kbpk s = Err KeyBlockError.
Proof.
  intros HL Hne. pose proof (header_load_facts _ _ _ _ HL) as (Ls & _ & _).
  unfold unwrap, kb_unwrap, kb_unwrap_gen. rewrite HL. cbn [bind].
  destruct (ascii_numeric (slice 1 4 s)) eqn:EN; cbn [negb]; [|reflexivity].
  rewrite (slice_1_4_numeric s Ls EN) in *. cbn [bind].
  destruct (N.eqb_spec (dec_value (slice 1 4 s)) (lenN s)) as [E|E]; [congruence|]. reflexivity.
Qed.

(* a length that is not a multiple of the version's block size: KeyBlockError *)
Theorem truncation cd ca kbpk s h hl abs : header_load default_header s = (h, Ok hl) ->
  algo_block_size (version_id h) = Ok abs -> (length s mod abs <> 0)%nat ->
  unwrap cd ca kbpk s = Err KeyBlockError.
Proof.
  intros HL EA Hm. pose proof (header_load_facts _ _ _ _ HL) as (Ls & _ & _).
  unfold unwrap, kb_unwrap, kb_unwrap_gen. rewrite HL. cbn [bind].
  destruct (ascii_numeric (slice 1 4 s)) eqn:EN; cbn [negb]; [|reflexivity].
  rewrite (slice_1_4_numeric s Ls EN). cbn [bind].
  destruct (_ =? lenN s); cbn [negb]; [|reflexivity].
  rewrite EA. cbn [bind]. destruct (Nat.eqb_spec (length s mod abs) 0); [contradiction|]. reflexivity.
Qed.

Corollary truncation_8 cd ca kbpk s h hl : header_load default_header s = (h, Ok hl) ->
  (length s mod 8 <> 0)%nat -> unwrap cd ca kbpk s = Err KeyBlockError.
Proof.
  intros HL Hm. destruct (header_load_block_size _ _ _ _ HL) as (abs & EA & Habs).
  apply (truncation cd ca kbpk s h hl abs HL EA). destruct Habs; subst abs; lia.
Qed.

(* ------------------------------------------------------------------ *)
(* binding: (header text, MAC message, tag) determine the key block     *)
Section Binding.
  Variable c : cipher.
  Hypothesis Hc : cipher_ok c.
  Variable key : list N.
  Hypothesis Hk : valid_key c key = true.

  Lemma cbc_dec_inj n iv ct ct' : block_ok c iv -> bytes_ok ct = true -> bytes_ok ct' = true ->
    length ct = (n * bs c)%nat -> length ct' = (n * bs c)%nat ->
    spec_cbc_dec c key n iv ct = spec_cbc_dec c key n iv ct' -> ct = ct'.
  Proof.
    revert iv ct ct'. induction n as [|n IH]; intros iv ct ct' Hiv B B' L L' E.
    - destruct ct; [|discriminate]. destruct ct'; [reflexivity|discriminate].
    - cbn [spec_cbc_dec] in E.
      assert (Hf : block_ok c (firstn (bs c) ct)) by (apply firstn_block; [assumption | rewrite L; cbn [Nat.mul]; lia]).
      assert (Hf' : block_ok c (firstn (bs c) ct')) by (apply firstn_block; [assumption | rewrite L'; cbn [Nat.mul]; lia]).
      pose proof (dec_block c Hc key _ Hk Hf) as Hd. pose proof (dec_block c Hc key _ Hk Hf') as Hd'.
      apply app_inv_len in E.
      2:{ rewrite !xor_pos_length. destruct Hd as [-> _]. destruct Hd' as [-> _]. reflexivity. }
      destruct E as [E1 E2].
      assert (Ed : dec c key (firstn (bs c) ct) = dec c key (firstn (bs c) ct')).
      { apply (f_equal (fun x => xor_pos x iv)) in E1.
        rewrite !xor_pos_involutive in E1; [assumption| |].
        - destruct Hd' as [-> _]. destruct Hiv as [-> _]. lia.
        - destruct Hd as [-> _]. destruct Hiv as [-> _]. lia. }
      assert (Eb : firstn (bs c) ct = firstn (bs c) ct').
      { apply (f_equal (enc c key)) in Ed. rewrite !(enc_dec c Hc) in Ed; assumption. }
      rewrite <- Eb in E2.
      apply IH in E2; try assumption.
      + rewrite <- (firstn_skipn (bs c) ct), <- (firstn_skipn (bs c) ct'). congruence.
      + apply bytes_ok_skipn; assumption.
      + apply bytes_ok_skipn; assumption.
      + rewrite skipn_length, L. cbn [Nat.mul]. lia.
      + rewrite skipn_length, L'. cbn [Nat.mul]. lia.
  Qed.

  Lemma spec_decrypt_inj iv ct ct' : block_ok c iv -> bytes_ok ct = true -> bytes_ok ct' = true ->
    (length ct mod bs c = 0)%nat -> length ct = length ct' ->
    spec_decrypt c key iv ct = spec_decrypt c key iv ct' -> ct = ct'.
  Proof.
    intros Hiv B B' M L E. unfold spec_decrypt in E. rewrite <- L in E.
    pose proof (bs_pos c Hc) as Hpos.
    assert (Hq : length ct = (length ct / bs c * bs c)%nat).
    { pose proof (Nat.div_mod (length ct) (bs c)). nia. }
    apply (cbc_dec_inj (length ct / bs c) iv); try assumption. congruence.
  Qed.
End Binding.

(* B: two accepted parses under the same KBPK with the same header length, the
   same MAC message (header text ++ clear key data) and the same tag have the
   same header text and the same encrypted key data.  [partial: the header
   length is a premise; that the header text delimits itself is part of the
   header codec] *)
Theorem binding_b_partial cd ca : ciphers_ok cd ca -> forall kbpk hdr hdr' ek ek' mac k k',
  bytes_ok kbpk = true -> bytes_ok ek = true -> bytes_ok ek' = true -> bytes_ok mac = true ->
  length mac = 8%nat ->
  auth_b cd kbpk hdr ek mac k -> auth_b cd kbpk hdr' ek' mac k' -> length hdr = length hdr' ->
  hdr ++ spec_decrypt cd (fst (spec_kdf_b cd kbpk)) mac ek
    = hdr' ++ spec_decrypt cd (fst (spec_kdf_b cd kbpk)) mac ek' ->
  hdr = hdr' /\ ek = ek' /\ k = k'.
Proof.
  intros H kbpk hdr hdr' ek ek' mac k k' Bk Bek Bek' Bmac Lmac
    (Hl & A & B & Ha & Hm & Hx) (_ & A' & B' & Ha' & Hm' & Hx') Lh E.
  cbv zeta in *. pose proof (cd_ok cd ca H) as Hcd.
  destruct (kdf_b_keys cd ca H kbpk Bk Hl) as (Le & La & Be & Ba).
  destruct (spec_kdf_b cd kbpk) as [kbek kbak]. cbn [fst snd] in *.
  assert (Vke : valid_key cd kbek = true) by (apply (tdes_len_valid cd ca H); rewrite Le; tauto).
  assert (Hiv : block_ok cd mac) by (split; [rewrite (cd_bs cd ca H); assumption | assumption]).
  destruct (decrypt_cbc_spec cd Hcd kbek Vke mac ek Hiv Bek) as (D1 & D2 & D3);
    [rewrite (cd_bs cd ca H); assumption | rewrite (cd_bs cd ca H); assumption |].
  destruct (decrypt_cbc_spec cd Hcd kbek Vke mac ek' Hiv Bek') as (D1' & D2' & D3');
    [rewrite (cd_bs cd ca H); assumption | rewrite (cd_bs cd ca H); assumption |].
  apply app_inv_len in E; [|assumption]. destruct E as [E1 E2].
  assert (Eek : ek = ek').
  { apply (spec_decrypt_inj cd Hcd kbek Vke mac); try assumption.
    - rewrite (cd_bs cd ca H). assumption.
    - rewrite <- D3, <- D3', E2. reflexivity. }
  subst ek'. split; [assumption|]. split; [reflexivity|]. congruence.
Qed.

Theorem binding_d_partial cd ca : ciphers_ok cd ca -> forall kbpk hdr hdr' ek ek' mac k k',
  bytes_ok kbpk = true -> bytes_ok ek = true -> bytes_ok ek' = true -> bytes_ok mac = true ->
  length mac = 16%nat ->
  auth_d ca kbpk hdr ek mac k -> auth_d ca kbpk hdr' ek' mac k' -> length hdr = length hdr' ->
  hdr ++ spec_decrypt ca (fst (spec_kdf_d ca kbpk)) mac ek
    = hdr' ++ spec_decrypt ca (fst (spec_kdf_d ca kbpk)) mac ek' ->
  hdr = hdr' /\ ek = ek' /\ k = k'.
Proof.
  intros H kbpk hdr hdr' ek ek' mac k k' Bk Bek Bek' Bmac Lmac
    (Hl & A & B & Ha & Hm & Hx) (_ & A' & B' & Ha' & Hm' & Hx') Lh E.
  cbv zeta in *. pose proof (ca_ok cd ca H) as Hca.
  destruct (kdf_d_keys cd ca H kbpk Bk Hl) as (Le & La & Be & Ba).
  destruct (spec_kdf_d ca kbpk) as [kbek kbak]. cbn [fst snd] in *.
  assert (Vke : valid_key ca kbek = true) by (apply (aes_len_valid cd ca H); rewrite Le; tauto).
  assert (Hiv : block_ok ca mac) by (split; [rewrite (ca_bs cd ca H); assumption | assumption]).
  destruct (decrypt_cbc_spec ca Hca kbek Vke mac ek Hiv Bek) as (D1 & D2 & D3);
    [rewrite (ca_bs cd ca H); assumption | rewrite (ca_bs cd ca H); assumption |].
  destruct (decrypt_cbc_spec ca Hca kbek Vke mac ek' Hiv Bek') as (D1' & D2' & D3');
    [rewrite (ca_bs cd ca H); assumption | rewrite (ca_bs cd ca H); assumption |].
  apply app_inv_len in E; [|assumption]. destruct E as [E1 E2].
  assert (Eek : ek = ek').
  { apply (spec_decrypt_inj ca Hca kbek Vke mac); try assumption.
    - rewrite (ca_bs cd ca H). assumption.
    - rewrite <- D3, <- D3', E2. reflexivity. }
  subst ek'. split; [assumption|]. split; [reflexivity|]. congruence.
Qed.

(* A / C: the MAC message is header text ++ encrypted key data itself *)
Theorem binding_c_partial cd : forall kbpk hdr hdr' ek ek' mac k k',
  auth_c cd kbpk hdr ek mac k -> auth_c cd kbpk hdr' ek' mac k' -> length hdr = length hdr' ->
  hdr ++ ek = hdr' ++ ek' -> hdr = hdr' /\ ek = ek' /\ k = k'.
Proof.
  intros kbpk hdr hdr' ek ek' mac k k' (_ & _ & _ & _ & _ & _ & Hx) (_ & _ & _ & _ & _ & _ & Hx') Lh E.
  cbv zeta in *. apply app_inv_len in E; [|assumption]. destruct E as [-> ->].
  split; [reflexivity|]. split; [reflexivity|]. congruence.
Qed.

(* the canonical text (upper-case hex, no white space) is determined by the
   triple; any other accepted text with the same triple differs only in the
   letter case / white space of its binary section, by [binary_section] *)
Lemma canonical_text_determined (hdr hdr' ek ek' mac mac' : list N) :
  hdr = hdr' -> ek = ek' -> mac = mac' ->
  spec_block_text hdr (ek, mac) = spec_block_text hdr' (ek', mac').
Proof. intros -> -> ->. reflexivity. Qed.

(* ------------------------------------------------------------------ *)
(* data of the Examples of Properties/C02.v *)
Definition ex_kbpk : bytes := [1;2;3;4;5;6;7;8;9;10;11;12;13;14;15;16].
(* version B, usage P0, algorithm T, mode E, one optional block KS = "1234" *)
Definition ex_header : header :=
  mkHeader [cB] [80;48] [84] [69] [48;48] [78] [48;48] [([75;83], [49;50;51;52])].
Definition ex_key : bytes := [17;34;51;68;85;102;119;136].
Definition ex_tape : bytes :=
  [201;202;203;204;205;206;207;208;209;210;211;212;213;214;215;216;217;218;219;220;221;222].
Definition ex_wrap (cd ca : cipher) : str :=
  match kb_wrap cd ca ex_kbpk ex_header ex_key None ex_tape with Ok s => s | Err _ => [] end.
(* replace the character at position i *)
Definition tamper (i : nat) (ch : N) (s : str) : str := firstn i s ++ ch :: skipn (S i) s.
(* lower-case the hex letters from position i on *)
Definition lower_from (i : nat) (s : str) : str :=
  firstn i s ++ map (fun ch => if is_upper ch then ch + 32 else ch) (skipn i s).
