(* C03: the TR-31 cryptography of the model (psec's hand-built CMAC, the key
   derivations, the MACs) equals the from-the-standard definitions of
   Spec/CMAC.v and Spec/TR31.v, for every lawful pair of ciphers. *)
From Coq Require Import Lia ZifyBool ZifyNat ZifyN.
From Psec Require Import Lib.Base Cipher.Cipher Model.Tools Model.Mac Model.Tr31
  Proofs.XorLemmas Proofs.PadLemmas Proofs.Tr31Defs Spec.CMAC Spec.TR31.
Ltac Zify.zify_post_hook ::= Z.to_euclidean_division_equations.
Open Scope N_scope.

(* ------------------------------------------------------------------ *)
(* bytes and integers                                                   *)

Lemma byte_cases (P : N -> bool) :
  forallb P (map N.of_nat (seq 0 256)) = true -> forall b, b < 256 -> P b = true.
Proof.
  intros H b Hb. rewrite forallb_forall in H. apply H. apply in_map_iff.
  exists (N.to_nat b). split; [apply N2Nat.id|]. apply in_seq. lia.
Qed.

Lemma land128_zero b : b < 256 -> (N.land b 128 =? 0) = (b <? 128).
Proof.
  intros Hb. apply (byte_cases (fun b => Bool.eqb (N.land b 128 =? 0) (b <? 128))) in Hb.
  - apply eqb_prop in Hb. exact Hb.
  - vm_compute. reflexivity.
Qed.

Lemma land127_mod b : N.land b 127 = b mod 128.
Proof. change 127 with (N.ones 7). rewrite N.land_ones. reflexivity. Qed.

Lemma bytes_ok_rev' l : bytes_ok l = true -> bytes_ok (rev l) = true.
Proof.
  unfold bytes_ok. rewrite !forallb_forall. intros H x Hx. apply H. apply in_rev. assumption.
Qed.

Lemma le_bytes_bytes_ok n v : bytes_ok (le_bytes n v) = true.
Proof.
  revert v. induction n as [|n IH]; intro v; cbn [le_bytes]; [reflexivity|].
  apply bytes_ok_cons. split; [apply N.mod_lt; discriminate | apply IH].
Qed.

Lemma be_bytes_bytes_ok n v : bytes_ok (be_bytes n v) = true.
Proof. unfold be_bytes. apply bytes_ok_rev'. apply le_bytes_bytes_ok. Qed.

Lemma xor_pos_app a b a' b' : length a = length b ->
  xor_pos (a ++ a') (b ++ b') = xor_pos a b ++ xor_pos a' b'.
Proof.
  revert b. induction a as [|x a IH]; intros [|y b] H; cbn [length] in H; try discriminate.
  - reflexivity.
  - cbn [app xor_pos]. f_equal. apply IH. lia.
Qed.

Lemma xor_pos_rev a b : length a = length b -> xor_pos (rev a) (rev b) = rev (xor_pos a b).
Proof.
  revert b. induction a as [|x a IH]; intros [|y b] H; cbn [length] in H; try discriminate.
  - reflexivity.
  - cbn [rev xor_pos]. rewrite xor_pos_app by (rewrite !rev_length; lia).
    rewrite IH by lia. reflexivity.
Qed.

Lemma xor_pos_le_bytes n x y : x < 256 ^ N.of_nat n -> y < 256 ^ N.of_nat n ->
  xor_pos (le_bytes n x) (le_bytes n y) = le_bytes n (N.lxor x y).
Proof.
  intros Hx Hy.
  rewrite <- py_xor_is_bytewise by apply le_bytes_bytes_ok.
  unfold py_xor. rewrite le_bytes_length.
  rewrite firstn_all2 by (rewrite le_bytes_length; lia).
  rewrite !le_int_le_bytes by assumption. reflexivity.
Qed.

Lemma xor_pos_be_bytes n x y : x < 256 ^ N.of_nat n -> y < 256 ^ N.of_nat n ->
  xor_pos (be_bytes n x) (be_bytes n y) = be_bytes n (N.lxor x y).
Proof.
  intros Hx Hy. unfold be_bytes.
  rewrite xor_pos_rev by (rewrite !le_bytes_length; reflexivity).
  rewrite xor_pos_le_bytes by assumption. reflexivity.
Qed.

Lemma le_int_app a b : le_int (a ++ b) = le_int a + 256 ^ lenN a * le_int b.
Proof.
  induction a as [|x a IH]; cbn [app le_int].
  - change (lenN (@nil N)) with 0. rewrite N.pow_0_r. lia.
  - rewrite IH. unfold lenN. cbn [length]. rewrite Nat2N.inj_succ, N.pow_succ_r'. lia.
Qed.

Lemma be_int_cons x t : be_int (x :: t) = x * 256 ^ lenN t + be_int t.
Proof.
  unfold be_int. cbn [rev]. rewrite le_int_app. cbn [le_int].
  unfold lenN. rewrite rev_length. lia.
Qed.

Lemma le_int_lt l : bytes_ok l = true -> le_int l < 256 ^ lenN l.
Proof.
  induction l as [|x l IH]; intro H.
  - cbn. lia.
  - apply bytes_ok_cons in H as [Hx Hl]. specialize (IH Hl).
    cbn [le_int]. unfold lenN in *. cbn [length]. rewrite Nat2N.inj_succ, N.pow_succ_r'. lia.
Qed.

Lemma be_int_lt l : bytes_ok l = true -> be_int l < 256 ^ lenN l.
Proof.
  intro H. unfold be_int. replace (lenN l) with (lenN (rev l)) by (unfold lenN; rewrite rev_length; reflexivity).
  apply le_int_lt. apply bytes_ok_rev'. assumption.
Qed.

(* ------------------------------------------------------------------ *)
(* the model's mask / shift / conditional xor is the doubling of the spec *)

Lemma model_dbl b r :
  bytes_ok b = true -> (0 < length b)%nat ->
  r = be_bytes (length b) (cmac_R (length b)) -> cmac_R (length b) < 256 ^ lenN b ->
  exists b0 sh, index b 0 = Ok b0 /\ shift_left_1 b = Ok sh /\
    (if negb (N.land b0 128 =? 0) then py_xor sh r else sh) = dbl b.
Proof.
  intros Hb Hlen -> HR. destruct b as [|b0 t]; [cbn in Hlen; lia|]. clear Hlen.
  apply bytes_ok_cons in Hb as [Hb0 Ht].
  pose proof (be_int_lt t Ht) as HT.
  exists b0. unfold shift_left_1, index. cbn [nth_error].
  unfold dbl, msb_set. rewrite !be_int_cons, land127_mod.
  set (n := length (b0 :: t)) in *.
  assert (Hn : 256 ^ lenN (b0 :: t) = 256 * 256 ^ lenN t).
  { unfold lenN. cbn [length]. rewrite Nat2N.inj_succ, N.pow_succ_r'. reflexivity. }
  assert (Hn' : 256 ^ N.of_nat n = 256 * 256 ^ lenN t) by exact Hn.
  rewrite Hn in *. rewrite Hn'.
  set (P := 256 ^ lenN t) in *. set (T := be_int t) in *.
  assert (HP : 0 < P) by (apply N.neq_0_lt_0; apply N.pow_nonzero; discriminate).
  assert (Hhalf : 256 * P / 2 = 128 * P) by (symmetry; apply N.div_unique_exact; lia).
  rewrite Hhalf.
  assert (Hm : b0 mod 128 < 128) by (apply N.mod_lt; discriminate).
  assert (Hfit : 2 * (b0 mod 128 * P + T) < 256 * P) by nia.
  unfold to_bytes_be. fold n. rewrite Hn'.
  apply N.ltb_lt in Hfit as Hfit'. rewrite Hfit'.
  eexists. split; [reflexivity|]. split; [reflexivity|].
  rewrite land128_zero by assumption.
  assert (Hsh : (2 * (b0 * P + T)) mod (256 * P) = 2 * (b0 mod 128 * P + T)).
  { destruct (N.ltb_spec b0 128).
    - rewrite (N.mod_small b0 128) by assumption. apply N.mod_small. rewrite (N.mod_small b0 128) in Hfit by assumption. exact Hfit.
    - symmetry. apply N.mod_unique with 1; [exact Hfit|].
      assert (b0 mod 128 = b0 - 128) as ->.
      { symmetry. apply N.mod_unique with 1; lia. }
      nia. }
  rewrite Hsh.
  destruct (N.ltb_spec b0 128) as [Hlt|Hge]; cbn [negb].
  - destruct (N.leb_spec (128 * P) (b0 * P + T)); [nia|]. reflexivity.
  - destruct (N.leb_spec (128 * P) (b0 * P + T)); [|nia].
    rewrite py_xor_is_bytewise by apply be_bytes_bytes_ok.
    apply xor_pos_be_bytes; rewrite Hn'; assumption.
Qed.

Lemma dbl_block b : length (dbl b) = length b /\ bytes_ok (dbl b) = true.
Proof. unfold dbl. split; [apply be_bytes_length | apply be_bytes_bytes_ok]. Qed.

(* ------------------------------------------------------------------ *)
(* list slicing                                                         *)

Lemma last_n_app_ge {A} k (a b : list A) : (k <= length b)%nat -> last_n k (a ++ b) = last_n k b.
Proof.
  intro H. unfold last_n. rewrite app_length.
  replace (length a + length b - k)%nat with (length a + (length b - k))%nat by lia.
  rewrite skipn_app. rewrite skipn_all2 by lia.
  replace (length a + (length b - k) - length a)%nat with (length b - k)%nat by lia. reflexivity.
Qed.

Lemma last_n_all {A} k (a : list A) : (length a <= k)%nat -> last_n k a = a.
Proof. intro H. unfold last_n. replace (length a - k)%nat with 0%nat by lia. reflexivity. Qed.

Lemma drop_last_app {A} k (s : list A) : drop_last k s ++ last_n k s = s.
Proof. unfold drop_last, last_n. apply firstn_skipn. Qed.

Lemma firstn_app_le {A} n (a b : list A) : (n <= length a)%nat -> firstn n (a ++ b) = firstn n a.
Proof.
  intro H. rewrite firstn_app. replace (n - length a)%nat with 0%nat by lia.
  cbn [firstn]. apply app_nil_r.
Qed.

Lemma skipn_app_le {A} n (a b : list A) : (n <= length a)%nat -> skipn n (a ++ b) = skipn n a ++ b.
Proof.
  intro H. rewrite skipn_app. replace (n - length a)%nat with 0%nat by lia. reflexivity.
Qed.

Lemma div_succ_mul n b : (0 < b)%nat -> ((S n * b - 1) / b = n)%nat.
Proof. intro H. symmetry. apply Nat.div_unique with (b - 1)%nat; nia. Qed.

Lemma div_mul_exact n b : (0 < b)%nat -> ((n * b) / b = n)%nat.
Proof. intro H. apply Nat.div_mul. lia. Qed.

Lemma iso_pad1_is_pad1 bsz m : (0 < bsz)%nat -> pad_iso_1 m bsz = Ok (iso_pad1 bsz m).
Proof.
  intro Hb. rewrite pad1_shape by assumption. unfold iso_pad1, pad1_count. f_equal.
  destruct (Nat.eqb_spec (length m) 0) as [E|E].
  - destruct m; [|discriminate]. cbn [length]. rewrite Nat.mod_0_l by lia. reflexivity.
  - destruct (Nat.ltb_spec 0 (length m mod bsz)) as [Hr|Hr].
    + rewrite (Nat.mod_small (bsz - length m mod bsz)); [reflexivity|].
      pose proof (Nat.mod_upper_bound (length m) bsz). lia.
    + replace (length m mod bsz)%nat with 0%nat by lia. rewrite Nat.sub_0_r, Nat.mod_same by lia. reflexivity.
Qed.

Lemma iso_pad1_multiple bsz m : (0 < length m)%nat -> (length m mod bsz = 0)%nat -> iso_pad1 bsz m = m.
Proof.
  intros Hp Hm. unfold iso_pad1. destruct (Nat.eqb_spec (length m) 0); [lia|].
  rewrite Hm, Nat.sub_0_r. destruct (Nat.eq_dec bsz 0) as [->|Hb]; [cbn; apply app_nil_r|].
  rewrite Nat.mod_same by assumption. cbn. apply app_nil_r.
Qed.

Lemma bytes_ok_iso_pad1 bsz m : bytes_ok m = true -> bytes_ok (iso_pad1 bsz m) = true.
Proof.
  intro H. unfold iso_pad1. destruct (length m =? 0)%nat.
  - apply bytes_ok_repeat. lia.
  - apply bytes_ok_app. split; [assumption|]. apply bytes_ok_repeat. lia.
Qed.

(* ------------------------------------------------------------------ *)
(* CBC over a lawful cipher                                             *)
Section Chain.
  Variable c : cipher.
  Hypothesis Hc : cipher_ok c.
  Variable key : list N.
  Hypothesis Hk : valid_key c key = true.

  Lemma zeros_block : block_ok c (repeat 0 (bs c)).
  Proof. split; [apply repeat_length | apply bytes_ok_repeat; reflexivity]. Qed.

  Lemma xor_block x y : block_ok c x -> bytes_ok y = true -> block_ok c (xor_pos x y).
  Proof.
    intros [Lx Bx] By. split; [rewrite xor_pos_length; assumption | apply xor_pos_bytes_ok; assumption].
  Qed.

  Lemma firstn_block m : bytes_ok m = true -> (bs c <= length m)%nat -> block_ok c (firstn (bs c) m).
  Proof.
    intros B L. split; [rewrite firstn_length; apply Nat.min_l; assumption | apply bytes_ok_firstn; assumption].
  Qed.

  Lemma enc_blk b : block_ok c b -> block_ok c (enc c key b).
  Proof. apply (enc_block c Hc); assumption. Qed.
  Lemma dec_blk b : block_ok c b -> block_ok c (dec c key b).
  Proof. apply (dec_block c Hc); assumption. Qed.

  Lemma cbc_chain_block n x m : block_ok c x -> bytes_ok m = true -> (n * bs c <= length m)%nat ->
    block_ok c (cbc_chain c key n x m).
  Proof.
    revert x m. induction n as [|n IH]; intros x m Hx Hm Hl; cbn [cbc_chain]; [assumption|].
    apply IH.
    - apply enc_blk. apply xor_block; [assumption|]. apply bytes_ok_firstn; assumption.
    - apply bytes_ok_skipn; assumption.
    - rewrite skipn_length. lia.
  Qed.

  Lemma cbc_chain_app n x pre l : length pre = (n * bs c)%nat ->
    cbc_chain c key n x (pre ++ l) = cbc_chain c key n x pre.
  Proof.
    revert x pre. induction n as [|n IH]; intros x pre Hl; cbn [cbc_chain]; [reflexivity|].
    rewrite firstn_app_le, skipn_app_le by lia. apply IH. rewrite skipn_length. lia.
  Qed.

  Lemma cbc_chain_plus n k x pre l : length pre = (n * bs c)%nat ->
    cbc_chain c key (n + k) x (pre ++ l) = cbc_chain c key k (cbc_chain c key n x pre) l.
  Proof.
    revert x pre. induction n as [|n IH]; intros x pre Hl.
    - destruct pre; [reflexivity|discriminate].
    - cbn [Nat.add cbc_chain]. rewrite firstn_app_le, skipn_app_le by lia.
      apply IH. rewrite skipn_length. lia.
  Qed.

  (* the last ciphertext block of the library's CBC encryption is the chain value *)
  Lemma cbc_enc_n_last n iv m : block_ok c iv -> bytes_ok m = true -> length m = (S n * bs c)%nat ->
    length (cbc_enc_n c key (S n) iv m) = (S n * bs c)%nat /\
    last_n (bs c) (cbc_enc_n c key (S n) iv m) = cbc_chain c key (S n) iv m.
  Proof.
    revert iv m. induction n as [|n IH]; intros iv m Hiv Hm Hl.
    - cbn [cbc_enc_n cbc_chain]. rewrite app_nil_r.
      assert (Hf : block_ok c (firstn (bs c) m)) by (apply firstn_block; [assumption|lia]).
      unfold xorb. rewrite py_xor_is_bytewise by (try apply Hf; apply Hiv).
      rewrite xor_pos_comm by (destruct Hf as [-> _]; destruct Hiv as [-> _]; reflexivity).
      assert (Hb : block_ok c (enc c key (xor_pos iv (firstn (bs c) m)))).
      { apply enc_blk. apply xor_block; [assumption | apply Hf]. }
      destruct Hb as [Lb _]. split; [lia|]. apply last_n_all. lia.
    - remember (S n) as n1. cbn [cbc_enc_n cbc_chain].
      assert (Hf : block_ok c (firstn (bs c) m)) by (apply firstn_block; [assumption|nia]).
      unfold xorb. rewrite py_xor_is_bytewise by (try apply Hf; apply Hiv).
      rewrite xor_pos_comm by (destruct Hf as [-> _]; destruct Hiv as [-> _]; reflexivity).
      assert (Hb : block_ok c (enc c key (xor_pos iv (firstn (bs c) m)))).
      { apply enc_blk. apply xor_block; [assumption | apply Hf]. }
      subst n1.
      destruct (IH (enc c key (xor_pos iv (firstn (bs c) m))) (skipn (bs c) m) Hb) as [L1 L2];
        [apply bytes_ok_skipn; assumption | rewrite skipn_length; lia |].
      split.
      + rewrite app_length, L1. destruct Hb as [-> _]. lia.
      + rewrite last_n_app_ge by (rewrite L1; lia). exact L2.
  Qed.

  Lemma cbc_mac_block m : bytes_ok m = true -> block_ok c (cbc_mac c key m).
  Proof.
    intro Hm. unfold cbc_mac. apply cbc_chain_block; [apply zeros_block | assumption |].
    pose proof (bs_pos c Hc). pose proof (Nat.div_mod (length m) (bs c)). nia.
  Qed.
End Chain.

(* generate_cbc_mac with padding method 1 is the CBC-MAC of the zero-padded data *)
Lemma gen_cbc_mac_spec cd ca aes key data mlen :
  let c := if aes : bool then ca else cd in
  cipher_ok c -> valid_key c key = true -> bytes_ok data = true ->
  generate_cbc_mac cd ca key data 1 (Some mlen) aes
  = Ok (firstn mlen (cbc_mac c key (iso_pad1 (bs c) data))).
Proof.
  intros c Hc Hk Hd. unfold generate_cbc_mac. fold c. cbn [pad_dispatch].
  pose proof (bs_pos c Hc) as Hpos.
  rewrite iso_pad1_is_pad1 by assumption. cbn [bind].
  set (p := iso_pad1 (bs c) data).
  assert (Hp : pad_iso_1 data (bs c) = Ok p) by (apply iso_pad1_is_pad1; assumption).
  destruct (pad1_exact data (bs c) Hpos) as (k & E & (P1 & P2 & _)).
  rewrite Hp in E. injection E as E.
  assert (Lp : (0 < length p /\ length p mod bs c = 0)%nat).
  { rewrite E, app_length, repeat_length. split; assumption. }
  destruct Lp as [Lp1 Lp2].
  assert (Bp : bytes_ok p = true) by (apply bytes_ok_iso_pad1; assumption).
  unfold encrypt_cbc, bad_len. rewrite Hk, repeat_length, Nat.eqb_refl. cbn [negb].
  assert (Hq : exists q, length p = (S q * bs c)%nat).
  { exists (length p / bs c - 1)%nat. pose proof (Nat.div_mod (length p) (bs c)).
    assert (0 < length p / bs c)%nat by nia. nia. }
  destruct Hq as [q Hq].
  destruct (Nat.ltb_spec (length p) (bs c)); [nia|].
  rewrite Lp2. cbn [Nat.eqb negb orb bind].
  unfold nblocks, cbc_mac. rewrite Hq, div_mul_exact by assumption.
  assert (Hz : block_ok c (repeat 0 (bs c))) by (split; [apply repeat_length | apply bytes_ok_repeat; lia]).
  destruct (cbc_enc_n_last c Hc key Hk q (repeat 0 (bs c)) p Hz Bp Hq) as [_ L].
  rewrite L. reflexivity.
Qed.

(* ------------------------------------------------------------------ *)
(* CMAC as a CBC-MAC of the message with a modified last block          *)
Section Cmac.
  Variable c : cipher.
  Hypothesis Hc : cipher_ok c.
  Variable key : list N.

  Lemma cmac_complete pre l n : length pre = (n * bs c)%nat -> length l = bs c ->
    cmac c key (pre ++ l) = cbc_mac c key (pre ++ xor_pos l (cmac_K1 c key)).
  Proof.
    intros Lp Ll. pose proof (bs_pos c Hc) as Hpos.
    unfold cmac, cbc_mac. rewrite !app_length, xor_pos_length, Lp, Ll.
    replace (n * bs c + bs c)%nat with (S n * bs c)%nat by lia.
    rewrite div_succ_mul, div_mul_exact by assumption.
    rewrite cbc_chain_app by assumption.
    rewrite <- Lp, skipn_app, Nat.sub_diag, skipn_all. cbn [app skipn].
    rewrite Ll, Nat.eqb_refl.
    replace (S n) with (n + 1)%nat by lia.
    rewrite cbc_chain_plus by assumption. cbn [cbc_chain].
    rewrite firstn_all2 by (rewrite xor_pos_length; lia). reflexivity.
  Qed.

  Lemma cmac_incomplete m : (length m < bs c)%nat ->
    cmac c key m = cbc_mac c key (xor_pos (pad10 (bs c) m) (cmac_K2 c key)).
  Proof.
    intros Lm. unfold cmac, cbc_mac.
    assert (Lp : length (pad10 (bs c) m) = bs c).
    { unfold pad10. rewrite app_length. cbn [length]. rewrite repeat_length. lia. }
    rewrite xor_pos_length, Lp, Nat.div_same by lia.
    rewrite (Nat.div_small (length m - 1)) by lia. cbn [cbc_chain Nat.mul skipn].
    destruct (Nat.eqb_spec (length m) (bs c)); [lia|].
    rewrite firstn_all2 by (rewrite xor_pos_length; lia). reflexivity.
  Qed.
End Cmac.

(* ------------------------------------------------------------------ *)
(* C03_subkeys                                                          *)
Lemma subkeys_spec c r key :
  cipher_ok c -> valid_key c key = true ->
  r = be_bytes (bs c) (cmac_R (bs c)) -> cmac_R (bs c) < 256 ^ N.of_nat (bs c) ->
  cmac_subkeys c r key = Ok (cmac_K1 c key, cmac_K2 c key).
Proof.
  intros Hc Hk Hr HR. pose proof (bs_pos c Hc) as Hpos. unfold cmac_subkeys.
  unfold encrypt_ecb, bad_len, nblocks. rewrite repeat_length, Hk, Nat.ltb_irrefl, Nat.mod_same, Nat.div_same by lia.
  cbn [Nat.eqb negb orb ecb_n bind]. rewrite app_nil_r, firstn_all2 by (rewrite repeat_length; lia).
  fold (cmac_L c key).
  assert (HL : block_ok c (cmac_L c key)).
  { apply (enc_block c Hc); [assumption|]. split; [apply repeat_length | apply bytes_ok_repeat; reflexivity]. }
  destruct HL as [LL BL].
  destruct (model_dbl (cmac_L c key) r BL) as (b0 & sh & E1 & E2 & E3);
    [lia | rewrite LL; assumption | unfold lenN; rewrite LL; assumption |].
  rewrite E1, E2. cbn [bind]. cbv zeta. rewrite E3. fold (cmac_K1 c key).
  destruct (dbl_block (cmac_L c key)) as [L1 B1]. fold (cmac_K1 c key) in L1, B1. rewrite LL in L1.
  destruct (model_dbl (cmac_K1 c key) r B1) as (b1 & sh1 & F1 & F2 & F3);
    [lia | rewrite L1; assumption | unfold lenN; rewrite L1; assumption |].
  rewrite F1, F2. cbn [bind]. rewrite F3. reflexivity.
Qed.

Section Main.
  Variables cd ca : cipher.
  Hypothesis H : ciphers_ok cd ca.

  Let Hcd : cipher_ok cd := cd_ok cd ca H.
  Let Hca : cipher_ok ca := ca_ok cd ca H.

  Theorem subkeys_des key : valid_key cd key = true ->
    cmac_subkeys cd r64 key = Ok (cmac_K1 cd key, cmac_K2 cd key).
  Proof.
    intro Hk. apply subkeys_spec; try assumption; rewrite (cd_bs cd ca H); [reflexivity | vm_compute; reflexivity].
  Qed.

  Theorem subkeys_aes key : valid_key ca key = true ->
    cmac_subkeys ca r128 key = Ok (cmac_K1 ca key, cmac_K2 ca key).
  Proof.
    intro Hk. apply subkeys_spec; try assumption; rewrite (ca_bs cd ca H); [reflexivity | vm_compute; reflexivity].
  Qed.

  Theorem subkeys_both key :
    (valid_key cd key = true -> cmac_subkeys cd r64 key = Ok (cmac_K1 cd key, cmac_K2 cd key)) /\
    (valid_key ca key = true -> cmac_subkeys ca r128 key = Ok (cmac_K1 ca key, cmac_K2 ca key)).
  Proof. split; [apply subkeys_des | apply subkeys_aes]. Qed.

  (* ---------------- the hand-built CMAC ---------------- *)
  Lemma cmac_K1_block c key : length (cmac_K1 c key) = length (cmac_L c key) /\ bytes_ok (cmac_K1 c key) = true.
  Proof. apply dbl_block. Qed.
  Lemma cmac_K2_block c key : length (cmac_K2 c key) = length (cmac_K1 c key) /\ bytes_ok (cmac_K2 c key) = true.
  Proof. apply dbl_block. Qed.

  Lemma cmac_via_model (aes : bool) key msg :
    let c := if aes then ca else cd in
    valid_key c key = true -> bytes_ok msg = true ->
    (0 < length msg)%nat -> (length msg mod bs c = 0)%nat ->
    generate_cbc_mac cd ca key (drop_last (bs c) msg ++ py_xor (last_n (bs c) msg) (cmac_K1 c key)) 1
                     (Some (bs c)) aes = Ok (cmac c key msg).
  Proof.
    intros c Hk Hm Hp Hmod.
    assert (Hc : cipher_ok c) by (destruct aes; assumption).
    pose proof (bs_pos c Hc) as Hpos.
    destruct (cmac_K1_block c key) as [_ BK].
    assert (Bd : bytes_ok (drop_last (bs c) msg) = true) by (apply bytes_ok_firstn; assumption).
    assert (Bl : bytes_ok (last_n (bs c) msg) = true) by (apply bytes_ok_skipn; assumption).
    pose proof (gen_cbc_mac_spec cd ca aes key
      (drop_last (bs c) msg ++ py_xor (last_n (bs c) msg) (cmac_K1 c key)) (bs c)) as G.
    cbv zeta in G. fold c in G. rewrite G; clear G; try assumption.
    2:{ apply bytes_ok_app. split; [assumption|]. apply py_xor_bytes_ok; assumption. }
    f_equal.
    assert (Hq : exists q, length msg = (S q * bs c)%nat).
    { exists (length msg / bs c - 1)%nat. pose proof (Nat.div_mod (length msg) (bs c)).
      assert (0 < length msg / bs c)%nat by nia. nia. }
    destruct Hq as [q Hq].
    assert (Ld : length (drop_last (bs c) msg) = (q * bs c)%nat).
    { unfold drop_last. rewrite firstn_length. lia. }
    assert (Ll : length (last_n (bs c) msg) = bs c).
    { unfold last_n. rewrite skipn_length. lia. }
    rewrite iso_pad1_multiple.
    2:{ rewrite app_length, py_xor_length. lia. }
    2:{ rewrite app_length, py_xor_length, Ld, Ll.
        replace (q * bs c + bs c)%nat with (S q * bs c)%nat by lia. apply Nat.mod_mul. lia. }
    rewrite py_xor_is_bytewise by assumption.
    rewrite <- (cmac_complete c Hc key _ _ q Ld Ll). rewrite drop_last_app.
    apply firstn_all2.
    assert (Hb : block_ok c (cmac c key msg)).
    { rewrite <- (drop_last_app (bs c) msg) at 1. rewrite (cmac_complete c Hc key _ _ q Ld Ll).
      apply cbc_mac_block; try assumption. apply bytes_ok_app. split; [assumption|].
      apply xor_pos_bytes_ok; assumption. }
    destruct Hb as [-> _]. lia.
  Qed.

  Lemma cmac_via_model_partial (aes : bool) key m :
    let c := if aes then ca else cd in
    valid_key c key = true -> bytes_ok m = true -> (length m < bs c)%nat ->
    generate_cbc_mac cd ca key (py_xor (pad10 (bs c) m) (cmac_K2 c key)) 1 (Some (bs c)) aes
    = Ok (cmac c key m).
  Proof.
    intros c Hk Hm Hl.
    assert (Hc : cipher_ok c) by (destruct aes; assumption).
    pose proof (bs_pos c Hc) as Hpos.
    destruct (cmac_K2_block c key) as [_ BK].
    assert (Lp : length (pad10 (bs c) m) = bs c).
    { unfold pad10. rewrite app_length. cbn [length]. rewrite repeat_length. lia. }
    assert (Bp : bytes_ok (pad10 (bs c) m) = true).
    { unfold pad10. apply bytes_ok_app. split; [assumption|]. apply bytes_ok_cons. split; [lia|].
      apply bytes_ok_repeat. lia. }
    pose proof (gen_cbc_mac_spec cd ca aes key (py_xor (pad10 (bs c) m) (cmac_K2 c key)) (bs c)) as G.
    cbv zeta in G. fold c in G. rewrite G; clear G; try assumption.
    2:{ apply py_xor_bytes_ok; assumption. }
    f_equal.
    rewrite iso_pad1_multiple.
    2:{ rewrite py_xor_length. lia. }
    2:{ rewrite py_xor_length, Lp. apply Nat.mod_same. lia. }
    rewrite py_xor_is_bytewise by assumption.
    rewrite <- (cmac_incomplete c key m Hl).
    apply firstn_all2.
    assert (Hb : block_ok c (cmac c key m)).
    { rewrite (cmac_incomplete c key m Hl). apply cbc_mac_block; try assumption.
      apply xor_pos_bytes_ok; assumption. }
    destruct Hb as [-> _]. lia.
  Qed.

  Lemma ascii_encode hs : ascii_str hs -> encode_ascii hs = Ok hs /\ bytes_ok hs = true.
  Proof.
    unfold ascii_str, encode_ascii. intro Ha. rewrite Ha. split; [reflexivity|].
    unfold bytes_ok, byte_ok. rewrite forallb_forall in *. intros x Hx. specialize (Ha x Hx). lia.
  Qed.

  Theorem cmac_b kbak hs data :
    valid_key cd kbak = true -> ascii_str hs -> bytes_ok data = true ->
    (0 < length hs + length data)%nat -> ((length hs + length data) mod 8 = 0)%nat ->
    b_generate_mac cd ca kbak hs data = Ok (cmac cd kbak (hs ++ data)).
  Proof.
    intros Hk Ha Hd Hp Hm. unfold b_generate_mac, derive_des_cmac_subkey.
    rewrite subkeys_des by assumption. cbn [bind fst].
    destruct (ascii_encode hs Ha) as [-> Bh]. cbn [bind].
    pose proof (cmac_via_model false kbak (hs ++ data)) as G. cbv beta iota zeta in G.
    rewrite (cd_bs cd ca H) in G. apply G; try assumption.
    - apply bytes_ok_app. auto.
    - rewrite app_length. assumption.
    - rewrite app_length. assumption.
  Qed.

  Theorem cmac_d kbak hs data :
    valid_key ca kbak = true -> ascii_str hs -> bytes_ok data = true ->
    (0 < length hs + length data)%nat -> ((length hs + length data) mod 16 = 0)%nat ->
    d_generate_mac cd ca kbak hs data = Ok (cmac ca kbak (hs ++ data)).
  Proof.
    intros Hk Ha Hd Hp Hm. unfold d_generate_mac, derive_aes_cmac_subkey.
    rewrite subkeys_aes by assumption. cbn [bind fst].
    destruct (ascii_encode hs Ha) as [-> Bh]. cbn [bind].
    pose proof (cmac_via_model true kbak (hs ++ data)) as G. cbv beta iota zeta in G.
    rewrite (ca_bs cd ca H) in G. apply G; try assumption.
    - apply bytes_ok_app. auto.
    - rewrite app_length. assumption.
    - rewrite app_length. assumption.
  Qed.

  (* ---------------- key derivation ---------------- *)
  Lemma kdf_block_des kbpk x :
    valid_key cd kbpk = true -> bytes_ok x = true -> length x = 8%nat ->
    generate_cbc_mac cd ca kbpk (py_xor x (cmac_K1 cd kbpk)) 1 (Some 8%nat) false = Ok (cmac cd kbpk x).
  Proof.
    intros Hk Bx Lx. pose proof (cmac_via_model false kbpk x) as G. cbv beta iota zeta in G.
    rewrite (cd_bs cd ca H) in G. unfold drop_last in G. rewrite Lx in G. cbn [Nat.sub firstn app] in G.
    rewrite last_n_all in G by lia. apply G; try assumption; [lia | reflexivity].
  Qed.

  Lemma kdf_block_aes kbpk x :
    valid_key ca kbpk = true -> bytes_ok x = true -> length x = 8%nat ->
    generate_cbc_mac cd ca kbpk (py_xor (x ++ [128; 0; 0; 0; 0; 0; 0; 0]) (cmac_K2 ca kbpk)) 1 (Some 16%nat) true
    = Ok (cmac ca kbpk x).
  Proof.
    intros Hk Bx Lx. pose proof (cmac_via_model_partial true kbpk x) as G. cbv beta iota zeta in G.
    rewrite (ca_bs cd ca H) in G. unfold pad10 in G. rewrite Lx in G. cbn [Nat.sub repeat] in G.
    apply G; try assumption. lia.
  Qed.

  Theorem kdf_b kbpk : bytes_ok kbpk = true -> (length kbpk = 16 \/ length kbpk = 24)%nat ->
    b_derive cd ca kbpk = Ok (spec_kdf_b cd kbpk).
  Proof.
    intros Bk Hl.
    assert (Hk : valid_key cd kbpk = true).
    { rewrite (cd_keys cd ca H). unfold tdes_valid_key. destruct Hl as [-> | ->]; reflexivity. }
    unfold b_derive, derive_des_cmac_subkey. rewrite subkeys_des by assumption. cbn [bind fst].
    unfold spec_kdf_b, kdf_pair, kdf_blocks.
    destruct Hl as [Hl|Hl]; rewrite Hl; cbn [Nat.eqb b_derive_loop flat_map]; unfold b_kd_input; rewrite ?Hl; cbn [Nat.eqb].
    - change [1; 0; 0; 0; 0; 0; 0; 128] with (kdf_input 1 usage_encryption alg_tdes2 bits_128).
      change [1; 0; 1; 0; 0; 0; 0; 128] with (kdf_input 1 usage_mac alg_tdes2 bits_128).
      change [2; 0; 0; 0; 0; 0; 0; 128] with (kdf_input 2 usage_encryption alg_tdes2 bits_128).
      change [2; 0; 1; 0; 0; 0; 0; 128] with (kdf_input 2 usage_mac alg_tdes2 bits_128).
      rewrite !kdf_block_des by (try assumption; reflexivity).
      cbn [bind fst snd]. reflexivity.
    - change [1; 0; 0; 0; 0; 1; 0; 192] with (kdf_input 1 usage_encryption alg_tdes3 bits_192).
      change [1; 0; 1; 0; 0; 1; 0; 192] with (kdf_input 1 usage_mac alg_tdes3 bits_192).
      change [2; 0; 0; 0; 0; 1; 0; 192] with (kdf_input 2 usage_encryption alg_tdes3 bits_192).
      change [2; 0; 1; 0; 0; 1; 0; 192] with (kdf_input 2 usage_mac alg_tdes3 bits_192).
      change [3; 0; 0; 0; 0; 1; 0; 192] with (kdf_input 3 usage_encryption alg_tdes3 bits_192).
      change [3; 0; 1; 0; 0; 1; 0; 192] with (kdf_input 3 usage_mac alg_tdes3 bits_192).
      rewrite !kdf_block_des by (try assumption; reflexivity).
      cbn [bind fst snd]. reflexivity.
  Qed.

  Theorem kdf_d kbpk : bytes_ok kbpk = true ->
    (length kbpk = 16 \/ length kbpk = 24 \/ length kbpk = 32)%nat ->
    d_derive cd ca kbpk = Ok (spec_kdf_d ca kbpk).
  Proof.
    intros Bk Hl.
    assert (Hk : valid_key ca kbpk = true).
    { rewrite (ca_keys cd ca H). unfold aes_valid_key. destruct Hl as [-> | [-> | ->]]; reflexivity. }
    unfold d_derive, derive_aes_cmac_subkey. rewrite subkeys_aes by assumption. cbn [bind snd].
    unfold spec_kdf_d, kdf_pair, kdf_blocks.
    destruct Hl as [Hl|[Hl|Hl]]; rewrite Hl; cbn [Nat.eqb d_derive_loop flat_map]; unfold d_kd_input; rewrite ?Hl; cbn [Nat.eqb].
    - change [1; 0; 0; 0; 0; 2; 0; 128] with (kdf_input 1 usage_encryption alg_aes128 bits_128).
      change [1; 0; 1; 0; 0; 2; 0; 128] with (kdf_input 1 usage_mac alg_aes128 bits_128).
      rewrite !kdf_block_aes by (try assumption; reflexivity).
      cbn [bind fst snd]. reflexivity.
    - change [1; 0; 0; 0; 0; 3; 0; 192] with (kdf_input 1 usage_encryption alg_aes192 bits_192).
      change [1; 0; 1; 0; 0; 3; 0; 192] with (kdf_input 1 usage_mac alg_aes192 bits_192).
      change [2; 0; 0; 0; 0; 3; 0; 192] with (kdf_input 2 usage_encryption alg_aes192 bits_192).
      change [2; 0; 1; 0; 0; 3; 0; 192] with (kdf_input 2 usage_mac alg_aes192 bits_192).
      rewrite !kdf_block_aes by (try assumption; reflexivity).
      cbn [bind fst snd]. reflexivity.
    - change [1; 0; 0; 0; 0; 4; 1; 0] with (kdf_input 1 usage_encryption alg_aes256 bits_256).
      change [1; 0; 1; 0; 0; 4; 1; 0] with (kdf_input 1 usage_mac alg_aes256 bits_256).
      change [2; 0; 0; 0; 0; 4; 1; 0] with (kdf_input 2 usage_encryption alg_aes256 bits_256).
      change [2; 0; 1; 0; 0; 4; 1; 0] with (kdf_input 2 usage_mac alg_aes256 bits_256).
      rewrite !kdf_block_aes by (try assumption; reflexivity).
      cbn [bind fst snd]. reflexivity.
  Qed.

  (* ---------------- variant method ---------------- *)
  Lemma xor_pos_repeat l v : xor_pos l (repeat v (length l)) = map (fun b => N.lxor b v) l.
  Proof. induction l as [|x l IH]; cbn [length repeat xor_pos map]; [reflexivity|]. f_equal. exact IH. Qed.

  Theorem variant_c kbpk : bytes_ok kbpk = true -> c_derive kbpk = spec_variant kbpk.
  Proof.
    intro Bk. unfold c_derive, spec_variant.
    rewrite !py_xor_is_bytewise by (try assumption; apply bytes_ok_repeat; lia).
    rewrite !xor_pos_repeat. reflexivity.
  Qed.

  (* ---------------- CBC-MAC of versions A and C ---------------- *)
  Theorem mac_c_padded kbak hs data :
    valid_key cd kbak = true -> ascii_str hs -> bytes_ok data = true ->
    c_generate_mac cd ca kbak hs data = Ok (spec_mac_c cd kbak hs data).
  Proof.
    intros Hk Ha Hd. unfold c_generate_mac, spec_mac_c.
    destruct (ascii_encode hs Ha) as [-> Bh]. cbn [bind].
    pose proof (gen_cbc_mac_spec cd ca false kbak (hs ++ data) 4) as G. cbv beta iota zeta in G.
    apply G; try assumption. apply bytes_ok_app. auto.
  Qed.

  Theorem mac_c kbak hs data :
    valid_key cd kbak = true -> ascii_str hs -> bytes_ok data = true ->
    (0 < length hs + length data)%nat -> ((length hs + length data) mod 8 = 0)%nat ->
    c_generate_mac cd ca kbak hs data = Ok (firstn 4 (cbc_mac cd kbak (hs ++ data))).
  Proof.
    intros Hk Ha Hd Hp Hm. rewrite mac_c_padded by assumption. unfold spec_mac_c.
    rewrite iso_pad1_multiple; [reflexivity | |]; rewrite app_length; [assumption|].
    rewrite (cd_bs cd ca H). assumption.
  Qed.
End Main.

(* the premises are satisfiable: the toy ciphers are a lawful pair *)
From Psec Require Import Cipher.Toy Proofs.TdesLemmas.
Theorem toy_ciphers_ok : ciphers_ok toy_tdes toy_aes.
Proof.
  constructor.
  - apply tdes_ok. apply toy_des_ok.
  - apply toy_aes_ok.
  - reflexivity.
  - reflexivity.
  - reflexivity.
  - reflexivity.
Qed.
