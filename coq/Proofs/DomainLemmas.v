(* C16 - documented input domains, part 1: explicit character classes, bridges
   to the boolean guards of the model, and the fact that the internal
   conversions (a2b_hex, bytes.fromhex, to_bytes, indexing, int(), ECB/CBC)
   cannot fail on guarded input. *)
From Coq Require Import Lia ZifyBool ZifyNat ZifyN.
From Psec Require Import Lib.Base Cipher.Cipher Model.Tools Model.Mac Model.Cvv Model.Pin
  Model.Pinblock Proofs.XorLemmas Proofs.PadLemmas.
Ltac Zify.zify_post_hook ::= Z.to_euclidean_division_equations.
Open Scope N_scope.

(* ------------------------------------------------------------------ *)
(* explicit character classes                                           *)
Definition dec_str (s : str) : Prop := Forall (fun c => 48 <= c <= 57) s.
Definition hex_char (c : N) : Prop := 48 <= c <= 57 \/ 65 <= c <= 70 \/ 97 <= c <= 102.
Definition hex_str (s : str) : Prop := Forall hex_char s.
(* what bytes.hex().upper() produces *)
Definition uhex_char (c : N) : Prop := 48 <= c <= 57 \/ 65 <= c <= 70.
Definition uhex_str (s : str) : Prop := Forall uhex_char s.
Definition af_str (s : str) : Prop := Forall (fun c => 65 <= c <= 70) s.

(* key sizes *)
Definition dom_tdes_key (key : bytes) : Prop :=
  (length key = 8 \/ length key = 16 \/ length key = 24)%nat.
Definition dom_aes_key (key : bytes) : Prop :=
  (length key = 16 \/ length key = 24 \/ length key = 32)%nat.

(* results that are not a crash: a value or ValueError *)
Definition ok_or_value_error {A} (r : res A) : Prop := (exists v, r = Ok v) \/ r = Err ValueError.

(* the shape of every C16 statement: inside the domain a value, outside it
   ValueError - hence a value exactly on the domain, and never a crash *)
Definition accepts_exactly {A} (dom : Prop) (r : res A) : Prop :=
  (dom -> exists v, r = Ok v) /\ (~ dom -> r = Err ValueError) /\
  ((exists v, r = Ok v) <-> dom).

Definition is_value_error {A} (r : res A) : bool :=
  match r with Err ValueError => true | _ => false end.

Lemma char_accepts {A} (dom : Prop) (r : res A) :
  (dom /\ exists v, r = Ok v) \/ (~ dom /\ r = Err ValueError) -> accepts_exactly dom r.
Proof.
  intros [[D E]|[D E]]; repeat split; intros; try tauto.
  destruct H as [v H]. rewrite E in H. discriminate.
Qed.

Lemma accepts_ok_or_value_error {A} (dom : Prop) (r : res A) :
  accepts_exactly dom r -> ok_or_value_error r /\ is_crash r = false.
Proof.
  intros (Acc & Rej & _). destruct r as [v|e].
  - split; [left; eexists|]; reflexivity.
  - assert (ND : ~ dom) by (intros D; destruct (Acc D) as [v E]; discriminate).
    rewrite (Rej ND). split; [right|]; reflexivity.
Qed.

Lemma accepts_exactly_reading {A} (dom : Prop) (r : res A) :
  accepts_exactly dom r <->
  (dom -> exists v, r = Ok v) /\ (~ dom -> r = Err ValueError) /\ ((exists v, r = Ok v) <-> dom).
Proof. reflexivity. Qed.

Lemma accepts_no_crash {A} (dom : Prop) (r : res A) :
  (dom /\ exists v, r = Ok v) \/ (~ dom /\ r = Err ValueError) -> ok_or_value_error r.
Proof. intros [[_ E]|[_ E]]; [left|right]; assumption. Qed.

(* ------------------------------------------------------------------ *)
(* list helpers                                                         *)
Lemma forallb_Forall {A} (f : A -> bool) (P : A -> Prop) :
  (forall x, f x = true <-> P x) -> forall l, forallb f l = true <-> Forall P l.
Proof.
  intros H l. induction l as [|a l IH]; cbn [forallb].
  - split; [constructor|reflexivity].
  - rewrite andb_true_iff, H, IH. split.
    + intros [? ?]. constructor; assumption.
    + intros F. inversion F. auto.
Qed.

Lemma Forall_firstn_ {A} (P : A -> Prop) n l : Forall P l -> Forall P (firstn n l).
Proof.
  intros H. revert n. induction H; intros [|n]; cbn [firstn]; constructor; auto.
Qed.
Lemma Forall_skipn_ {A} (P : A -> Prop) n l : Forall P l -> Forall P (skipn n l).
Proof.
  intros H. revert n. induction H; intros [|n]; cbn [skipn]; auto.
Qed.
Lemma Forall_repeat_ {A} (P : A -> Prop) x n : P x -> Forall P (repeat x n).
Proof. intros H. induction n; cbn [repeat]; constructor; auto. Qed.
Lemma Forall_last_n {A} (P : A -> Prop) n (l : list A) : Forall P l -> Forall P (last_n n l).
Proof. apply Forall_skipn_. Qed.
Lemma Forall_drop_last {A} (P : A -> Prop) n (l : list A) : Forall P l -> Forall P (drop_last n l).
Proof. apply Forall_firstn_. Qed.
Lemma Forall_slice {A} (P : A -> Prop) a n (l : list A) : Forall P l -> Forall P (slice a n l).
Proof. intros. apply Forall_firstn_, Forall_skipn_. assumption. Qed.

Lemma last_n_length {A} n (l : list A) : (n <= length l)%nat -> length (last_n n l) = n.
Proof. intros H. unfold last_n. rewrite skipn_length. lia. Qed.
Lemma drop_last_length {A} n (l : list A) : length (drop_last n l) = (length l - n)%nat.
Proof. unfold drop_last. rewrite firstn_length. lia. Qed.
Lemma slice_length {A} a n (l : list A) : length (slice a n l) = Nat.min n (length l - a).
Proof. unfold slice. rewrite firstn_length, skipn_length. reflexivity. Qed.
Lemma ljust_length k c s : length (ljust k c s) = Nat.max k (length s).
Proof. unfold ljust. rewrite app_length, repeat_length. lia. Qed.
Lemma rjust_length k c s : length (rjust k c s) = Nat.max k (length s).
Proof. unfold rjust. rewrite app_length, repeat_length. lia. Qed.

(* ------------------------------------------------------------------ *)
(* bridges: boolean guards of the model <-> explicit classes            *)
Lemma is_digit_iff c : is_digit c = true <-> 48 <= c <= 57.
Proof. unfold is_digit. lia. Qed.
Lemma is_hexch_iff c : is_hexch c = true <-> hex_char c.
Proof. unfold is_hexch, is_digit, hex_char. lia. Qed.

Lemma ascii_numeric_iff s : ascii_numeric s = true <-> dec_str s.
Proof. apply forallb_Forall. exact is_digit_iff. Qed.
Lemma ascii_hexchar_iff s : ascii_hexchar s = true <-> hex_str s.
Proof. apply forallb_Forall. exact is_hexch_iff. Qed.

Lemma ascii_numeric_false s : ascii_numeric s = false <-> ~ dec_str s.
Proof. rewrite <- ascii_numeric_iff. destruct (ascii_numeric s); split; congruence. Qed.
Lemma ascii_hexchar_false s : ascii_hexchar s = false <-> ~ hex_str s.
Proof. rewrite <- ascii_hexchar_iff. destruct (ascii_hexchar s); split; congruence. Qed.

Lemma dec_str_dec s : dec_str s \/ ~ dec_str s.
Proof. rewrite <- ascii_numeric_iff. destruct (ascii_numeric s); [left|right]; congruence. Qed.

Lemma dec_hex s : dec_str s -> hex_str s.
Proof. apply Forall_impl. unfold hex_char. intros; lia. Qed.
Lemma uhex_hex s : uhex_str s -> hex_str s.
Proof. apply Forall_impl. unfold hex_char, uhex_char. intros; lia. Qed.
Lemma dec_uhex s : dec_str s -> uhex_str s.
Proof. apply Forall_impl. unfold uhex_char. intros; lia. Qed.
Lemma af_uhex s : af_str s -> uhex_str s.
Proof. apply Forall_impl. unfold uhex_char. intros; lia. Qed.

Lemma mem_nat_3 n a b c : mem_nat n [a; b; c]%nat = true <-> (n = a \/ n = b \/ n = c)%nat.
Proof. unfold mem_nat. cbn [existsb]. rewrite !orb_true_iff, !Nat.eqb_eq. lia. Qed.
Lemma mem_nat_3_false n a b c :
  mem_nat n [a; b; c]%nat = false <-> ~ (n = a \/ n = b \/ n = c)%nat.
Proof. rewrite <- mem_nat_3. destruct (mem_nat n [a; b; c]%nat); split; congruence. Qed.

(* ------------------------------------------------------------------ *)
(* hex text -> bytes cannot fail on hex characters                      *)
Lemma unhex_digit_hex c : hex_char c -> exists v, unhex_digit c = Some v /\ v < 16.
Proof.
  unfold hex_char, unhex_digit, is_digit. intros H.
  destruct ((48 <=? c) && (c <=? 57)) eqn:E1; [eexists; split; [reflexivity|lia]|].
  destruct ((65 <=? c) && (c <=? 70)) eqn:E2; [eexists; split; [reflexivity|lia]|].
  destruct ((97 <=? c) && (c <=? 102)) eqn:E3; [eexists; split; [reflexivity|lia]|].
  lia.
Qed.

Lemma hex_not_space c : hex_char c -> is_space c = false.
Proof. unfold hex_char, is_space. lia. Qed.

Lemma a2b_hex_ok n : forall s, length s = (2 * n)%nat -> hex_str s ->
  exists b, a2b_hex s = Ok b /\ length b = n /\ bytes_ok b = true.
Proof.
  induction n as [|n IH]; intros s L H.
  - destruct s; [|discriminate]. exists []. auto.
  - destruct s as [|c [|d r]]; try (cbn in L; lia).
    inversion H as [|? ? Hc H1]; subst. inversion H1 as [|? ? Hd Hr]; subst.
    destruct (unhex_digit_hex c Hc) as (h & Eh & Bh).
    destruct (unhex_digit_hex d Hd) as (l & El & Bl).
    destruct (IH r ltac:(cbn in L; lia) Hr) as (t & Et & Lt & Bt).
    exists (16 * h + l :: t). cbn [a2b_hex]. rewrite Eh, El, Et. cbn [bind].
    split; [reflexivity|]. split; [cbn [length]; lia|].
    apply bytes_ok_cons. split; [lia|assumption].
Qed.

Lemma bytes_fromhex_ok n : forall s, length s = (2 * n)%nat -> hex_str s ->
  exists b, bytes_fromhex s = Ok b /\ length b = n /\ bytes_ok b = true.
Proof.
  induction n as [|n IH]; intros s L H.
  - destruct s; [|discriminate]. exists []. auto.
  - destruct s as [|c [|d r]]; try (cbn in L; lia).
    inversion H as [|? ? Hc H1]; subst. inversion H1 as [|? ? Hd Hr]; subst.
    destruct (unhex_digit_hex c Hc) as (h & Eh & Bh).
    destruct (unhex_digit_hex d Hd) as (l & El & Bl).
    destruct (IH r ltac:(cbn in L; lia) Hr) as (t & Et & Lt & Bt).
    exists (16 * h + l :: t). cbn [bytes_fromhex]. rewrite (hex_not_space c Hc), Eh, El, Et.
    cbn [bind].
    split; [reflexivity|]. split; [cbn [length]; lia|].
    apply bytes_ok_cons. split; [lia|assumption].
Qed.

(* n.to_bytes(1, "big") *)
Lemma to_bytes_be_1 v : v < 256 -> to_bytes_be 1 v = Ok [v].
Proof.
  intros H. unfold to_bytes_be. change (256 ^ N.of_nat 1) with 256.
  destruct (N.ltb_spec v 256); [|lia]. unfold be_bytes. cbn [le_bytes rev app].
  rewrite N.mod_small by assumption. reflexivity.
Qed.

Lemma index_ok {A} (s : list A) i d : (i < length s)%nat -> index s i = Ok (nth i s d).
Proof.
  intros H. unfold index. rewrite (nth_error_nth' s d H). reflexivity.
Qed.

Lemma int_of_dec_digit c : 48 <= c <= 57 -> int_of_dec [c] = Ok (c - 48).
Proof.
  intros H. unfold int_of_dec, ascii_numeric. cbn [forallb].
  apply is_digit_iff in H. rewrite H. reflexivity.
Qed.

Lemma int_of_hex_char c : hex_char c -> exists v, int_of_hex [c] = Ok v.
Proof.
  intros H. unfold int_of_hex, ascii_hexchar. cbn [forallb].
  apply is_hexch_iff in H. rewrite H. eexists. reflexivity.
Qed.

Lemma str_of_N_small n : n < 10 -> str_of_N n = [48 + n].
Proof.
  intros H. unfold str_of_N. cbn [dec_digits_aux].
  destruct (N.ltb_spec n 10); [|lia]. rewrite N.mod_small by assumption. reflexivity.
Qed.

(* py_xor always yields bytes of the length of its first argument *)
Lemma le_bytes_bytes_ok n v : bytes_ok (le_bytes n v) = true.
Proof.
  revert v. induction n as [|n IH]; intros v; cbn [le_bytes]; [reflexivity|].
  apply bytes_ok_cons. split; [|apply IH]. apply N.mod_lt. discriminate.
Qed.
Lemma py_xor_bytes_ok_any a b : bytes_ok (py_xor a b) = true.
Proof. unfold py_xor. apply le_bytes_bytes_ok. Qed.

(* ------------------------------------------------------------------ *)
(* bytes.hex() / .hex().upper()                                         *)
Lemma hexdigit_upper_uhex n : n < 16 -> uhex_char (hexdigit_upper n).
Proof. intros H. unfold hexdigit_upper, uhex_char. destruct (N.ltb_spec n 10); lia. Qed.
Lemma hexdigit_lower_hex n : n < 16 -> hex_char (hexdigit_lower n).
Proof. intros H. unfold hexdigit_lower, hex_char. destruct (N.ltb_spec n 10); lia. Qed.

Lemma hex_upper_length b : length (hex_upper b) = (2 * length b)%nat.
Proof. unfold hex_upper. induction b; cbn [flat_map app length]; lia. Qed.
Lemma hex_lower_length b : length (hex_lower b) = (2 * length b)%nat.
Proof. unfold hex_lower. induction b; cbn [flat_map app length]; lia. Qed.

Lemma hex_upper_uhex b : bytes_ok b = true -> uhex_str (hex_upper b).
Proof.
  unfold hex_upper, uhex_str. induction b as [|x b IH]; intros H; cbn [flat_map app]; [constructor|].
  apply bytes_ok_cons in H as [Hx Hb].
  constructor; [apply hexdigit_upper_uhex; lia|].
  constructor; [apply hexdigit_upper_uhex; lia|auto].
Qed.

(* ------------------------------------------------------------------ *)
(* ECB / CBC wrappers                                                   *)
Lemma bad_len_false c data : (0 < bs c)%nat ->
  bad_len c data = false <-> (0 < length data)%nat /\ (length data mod bs c = 0)%nat.
Proof.
  intros Hb. unfold bad_len. rewrite orb_false_iff, negb_false_iff, Nat.ltb_ge, Nat.eqb_eq.
  split.
  - intros [H1 H2]. split; [lia|assumption].
  - intros [H1 H2]. split; [|assumption].
    destruct (Nat.lt_ge_cases (length data) (bs c)) as [L|L]; [|assumption].
    rewrite Nat.mod_small in H2 by assumption. lia.
Qed.

Lemma bad_len_true c data : (0 < bs c)%nat ->
  bad_len c data = true <-> ~ ((0 < length data)%nat /\ (length data mod bs c = 0)%nat).
Proof.
  intros Hb. rewrite <- (bad_len_false c data Hb). destruct (bad_len c data); split; congruence.
Qed.

Lemma nblocks_exact c data : (0 < bs c)%nat -> (length data mod bs c = 0)%nat ->
  length data = (nblocks c data * bs c)%nat.
Proof.
  intros Hb H. unfold nblocks. apply Nat.div_exact in H; lia.
Qed.

Lemma ecb_n_ok c (f : list N -> list N) :
  (forall b, block_ok c b -> block_ok c (f b)) ->
  forall n data, length data = (n * bs c)%nat -> bytes_ok data = true ->
  length (ecb_n f (bs c) n data) = (n * bs c)%nat /\ bytes_ok (ecb_n f (bs c) n data) = true.
Proof.
  intros Hf. induction n as [|n IH]; intros data L B; cbn [ecb_n].
  - split; reflexivity.
  - assert (Hb : block_ok c (firstn (bs c) data)).
    { split; [rewrite firstn_length; lia | apply bytes_ok_firstn; assumption]. }
    destruct (Hf _ Hb) as [L1 B1].
    destruct (IH (skipn (bs c) data)) as [L2 B2].
    { rewrite skipn_length. lia. }
    { apply bytes_ok_skipn; assumption. }
    split; [rewrite app_length; lia|]. apply bytes_ok_app. auto.
Qed.

Section Wrappers.
  Variable c : cipher.
  Hypothesis Hc : cipher_ok c.

  Lemma encrypt_ecb_ok key data : valid_key c key = true -> bytes_ok data = true ->
    (0 < length data)%nat -> (length data mod bs c = 0)%nat ->
    exists r, encrypt_ecb c key data = Ok r /\ length r = length data /\ bytes_ok r = true.
  Proof.
    intros K B L M. pose proof (bs_pos c Hc) as Hb. unfold encrypt_ecb.
    rewrite (proj2 (bad_len_false c data Hb) (conj L M)), K. cbn [negb].
    eexists. split; [reflexivity|].
    pose proof (nblocks_exact c data Hb M) as EN.
    destruct (ecb_n_ok c (enc c key) (fun b Hb' => enc_block c Hc key b K Hb')
                (nblocks c data) data EN B) as [L1 B1].
    split; [lia|assumption].
  Qed.

  Lemma decrypt_ecb_ok key data : valid_key c key = true -> bytes_ok data = true ->
    (0 < length data)%nat -> (length data mod bs c = 0)%nat ->
    exists r, decrypt_ecb c key data = Ok r /\ length r = length data /\ bytes_ok r = true.
  Proof.
    intros K B L M. pose proof (bs_pos c Hc) as Hb. unfold decrypt_ecb.
    rewrite (proj2 (bad_len_false c data Hb) (conj L M)), K. cbn [negb].
    eexists. split; [reflexivity|].
    pose proof (nblocks_exact c data Hb M) as EN.
    destruct (ecb_n_ok c (dec c key) (fun b Hb' => dec_block c Hc key b K Hb')
                (nblocks c data) data EN B) as [L1 B1].
    split; [lia|assumption].
  Qed.

  (* the four wrappers accept exactly: valid key, (IV of one block,) data a
     positive multiple of the block size *)
  Definition dom_ecb (key data : bytes) : Prop :=
    valid_key c key = true /\ (0 < length data)%nat /\ (length data mod bs c = 0)%nat.
  Definition dom_cbc (key iv data : bytes) : Prop :=
    valid_key c key = true /\ length iv = bs c /\
    (0 < length data)%nat /\ (length data mod bs c = 0)%nat.

  Lemma encrypt_ecb_char key data :
    (dom_ecb key data /\ exists v, encrypt_ecb c key data = Ok v) \/
    (~ dom_ecb key data /\ encrypt_ecb c key data = Err ValueError).
  Proof.
    pose proof (bs_pos c Hc) as Hb. unfold dom_ecb, encrypt_ecb.
    destruct (bad_len c data) eqn:E.
    - right. apply bad_len_true in E; [|assumption]. tauto.
    - apply bad_len_false in E; [|assumption].
      destruct (valid_key c key); cbn [negb].
      + left. split; [tauto|]. eexists; reflexivity.
      + right. split; [intros [? _]; discriminate|reflexivity].
  Qed.

  Lemma decrypt_ecb_char key data :
    (dom_ecb key data /\ exists v, decrypt_ecb c key data = Ok v) \/
    (~ dom_ecb key data /\ decrypt_ecb c key data = Err ValueError).
  Proof.
    pose proof (bs_pos c Hc) as Hb. unfold dom_ecb, decrypt_ecb.
    destruct (bad_len c data) eqn:E.
    - right. apply bad_len_true in E; [|assumption]. tauto.
    - apply bad_len_false in E; [|assumption].
      destruct (valid_key c key); cbn [negb].
      + left. split; [tauto|]. eexists; reflexivity.
      + right. split; [intros [? _]; discriminate|reflexivity].
  Qed.

  Lemma encrypt_cbc_char key iv data :
    (dom_cbc key iv data /\ exists v, encrypt_cbc c key iv data = Ok v) \/
    (~ dom_cbc key iv data /\ encrypt_cbc c key iv data = Err ValueError).
  Proof.
    pose proof (bs_pos c Hc) as Hb. unfold dom_cbc, encrypt_cbc.
    destruct (bad_len c data) eqn:E.
    - right. apply bad_len_true in E; [|assumption]. tauto.
    - apply bad_len_false in E; [|assumption].
      destruct (valid_key c key); cbn [negb].
      + destruct (Nat.eqb_spec (length iv) (bs c)); cbn [negb].
        * left. split; [tauto|]. eexists; reflexivity.
        * right. split; [tauto|reflexivity].
      + right. split; [intros [? _]; discriminate|reflexivity].
  Qed.

  Lemma decrypt_cbc_char key iv data :
    (dom_cbc key iv data /\ exists v, decrypt_cbc c key iv data = Ok v) \/
    (~ dom_cbc key iv data /\ decrypt_cbc c key iv data = Err ValueError).
  Proof.
    pose proof (bs_pos c Hc) as Hb. unfold dom_cbc, decrypt_cbc.
    destruct (bad_len c data) eqn:E.
    - right. apply bad_len_true in E; [|assumption]. tauto.
    - apply bad_len_false in E; [|assumption].
      destruct (valid_key c key); cbn [negb].
      + destruct (Nat.eqb_spec (length iv) (bs c)); cbn [negb].
        * left. split; [tauto|]. eexists; reflexivity.
        * right. split; [tauto|reflexivity].
      + right. split; [intros [? _]; discriminate|reflexivity].
  Qed.
End Wrappers.
