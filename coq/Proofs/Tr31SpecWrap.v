(* C03, wrap side: the binary section that psec's _b_wrap / _c_wrap / _d_wrap
   emit is the Spec's binding (spec_bind_b, _c, _d of Spec/TR31.v) of the same header text,
   key and random padding. *)
From Coq Require Import Lia ZifyBool ZifyNat ZifyN.
From Psec Require Import Lib.Base Cipher.Cipher Model.Tools Model.Mac Model.Tr31
  Proofs.XorLemmas Proofs.PadLemmas Proofs.Tr31Defs Spec.CMAC Spec.TR31 Proofs.Tr31Spec
  Proofs.Tr31SpecC02.
Ltac Zify.zify_post_hook ::= Z.to_euclidean_division_equations.
Open Scope N_scope.

Lemma key_len_prefix_ok key lp : key_len_prefix key = Ok lp ->
  lp = be_bytes 2 (8 * lenN key) /\ length lp = 2%nat /\ bytes_ok lp = true.
Proof.
  unfold key_len_prefix, to_bytes_be. destruct (_ <? _); [|discriminate]. intro E. injection E as <-.
  rewrite N.mul_comm. split; [reflexivity|]. split; [apply be_bytes_length | apply be_bytes_bytes_ok].
Qed.

Lemma hex_upper_length b : length (hex_upper b) = (2 * length b)%nat.
Proof. induction b as [|x b IH]; [reflexivity|]. unfold hex_upper. cbn [flat_map app length]. fold (hex_upper b). lia. Qed.

Lemma Ok_inv {A} (a b : A) : Ok a = Ok b -> a = b.
Proof. intro E. injection E as ->. reflexivity. Qed.

Section Wrap.
  Variables cd ca : cipher.
  Hypothesis H : ciphers_ok cd ca.
  Let Hcd : cipher_ok cd := cd_ok cd ca H.
  Let Hca : cipher_ok ca := ca_ok cd ca H.

  Theorem wrap_b kbpk hs key extra tape s :
    bytes_ok kbpk = true -> bytes_ok key = true -> bytes_ok tape = true ->
    ascii_str hs -> (length hs mod 8 = 0)%nat ->
    b_wrap cd ca kbpk hs key extra tape = Ok s ->
    s = spec_block_text hs (spec_bind_b cd kbpk hs (spec_key_data key tape)) /\
    length tape = (8 - (2 + length key + extra) mod 8 + extra)%nat /\
    length s = (length hs + 2 * (2 + length key + length tape) + 2 * 8)%nat.
  Proof.
    intros Bk Bkey Btape Ha Hh. unfold b_wrap, spec_bind_b.
    destruct (mem_nat (length kbpk) [16; 24]%nat) eqn:E1; cbn [negb]; [|discriminate].
    apply mem_nat_2 in E1.
    rewrite (kdf_b cd ca H kbpk Bk E1). cbn [bind].
    destruct (kdf_b_keys cd ca H kbpk Bk E1) as (Le & La & Be & Ba).
    destruct (spec_kdf_b cd kbpk) as [kbek kbak]. cbn [fst snd] in *.
    assert (Vke : valid_key cd kbek = true) by (apply (tdes_len_valid cd ca H); rewrite Le; tauto).
    assert (Vka : valid_key cd kbak = true) by (apply (tdes_len_valid cd ca H); rewrite La; tauto).
    destruct (Nat.eqb_spec (length tape) (8 - (2 + length key + extra) mod 8 + extra)) as [Lt|]; cbn [negb]; [|discriminate].
    destruct (key_len_prefix key) as [lp|] eqn:Elp; cbn [bind]; [|discriminate].
    apply key_len_prefix_ok in Elp as (-> & Llp & Blp). fold (spec_key_data key tape).
    assert (Bc : bytes_ok (spec_key_data key tape) = true).
    { unfold spec_key_data. rewrite !bytes_ok_app. auto. }
    assert (Lc : length (spec_key_data key tape) = (2 + length key + length tape)%nat).
    { unfold spec_key_data. rewrite !app_length, Llp. lia. }
    assert (Lc8 : (8 <= length (spec_key_data key tape) /\ length (spec_key_data key tape) mod 8 = 0)%nat).
    { rewrite Lc, Lt. lia. }
    rewrite (cmac_b cd ca H kbak hs _ Vka Ha Bc) by lia. cbn [bind].
    fold (spec_mac_b cd kbak hs (spec_key_data key tape)).
    assert (Hm : block_ok cd (spec_mac_b cd kbak hs (spec_key_data key tape))).
    { apply cmac_block; try assumption. apply bytes_ok_app. split; [apply (ascii_encode hs Ha) | assumption]. }
    destruct (encrypt_cbc_spec cd Hcd kbek Vke _ _ Hm Bc) as (E & _ & Lek);
      [rewrite (cd_bs cd ca H); lia | rewrite (cd_bs cd ca H); lia |].
    rewrite E. cbn [bind]. intro X. injection X as <-. split; [reflexivity|]. split; [assumption|].
    rewrite !app_length, !hex_upper_length, Lek, Lc. destruct Hm as [-> _]. rewrite (cd_bs cd ca H). lia.
  Qed.

  Theorem wrap_d kbpk hs key extra tape s :
    bytes_ok kbpk = true -> bytes_ok key = true -> bytes_ok tape = true ->
    ascii_str hs -> (length hs mod 16 = 0)%nat ->
    d_wrap cd ca kbpk hs key extra tape = Ok s ->
    s = spec_block_text hs (spec_bind_d ca kbpk hs (spec_key_data key tape)) /\
    length tape = (16 - (2 + length key + extra) mod 16 + extra)%nat /\
    length s = (length hs + 2 * (2 + length key + length tape) + 2 * 16)%nat.
  Proof.
    intros Bk Bkey Btape Ha Hh. unfold d_wrap, spec_bind_d.
    destruct (mem_nat (length kbpk) [16; 24; 32]%nat) eqn:E1; cbn [negb]; [|discriminate].
    apply mem_nat_3 in E1.
    rewrite (kdf_d cd ca H kbpk Bk E1). cbn [bind].
    destruct (kdf_d_keys cd ca H kbpk Bk E1) as (Le & La & Be & Ba).
    destruct (spec_kdf_d ca kbpk) as [kbek kbak]. cbn [fst snd] in *.
    assert (Vke : valid_key ca kbek = true) by (apply (aes_len_valid cd ca H); rewrite Le; tauto).
    assert (Vka : valid_key ca kbak = true) by (apply (aes_len_valid cd ca H); rewrite La; tauto).
    destruct (Nat.eqb_spec (length tape) (16 - (2 + length key + extra) mod 16 + extra)) as [Lt|]; cbn [negb]; [|discriminate].
    destruct (key_len_prefix key) as [lp|] eqn:Elp; cbn [bind]; [|discriminate].
    apply key_len_prefix_ok in Elp as (-> & Llp & Blp). fold (spec_key_data key tape).
    assert (Bc : bytes_ok (spec_key_data key tape) = true).
    { unfold spec_key_data. rewrite !bytes_ok_app. auto. }
    assert (Lc : length (spec_key_data key tape) = (2 + length key + length tape)%nat).
    { unfold spec_key_data. rewrite !app_length, Llp. lia. }
    assert (Lc8 : (16 <= length (spec_key_data key tape) /\ length (spec_key_data key tape) mod 16 = 0)%nat).
    { rewrite Lc, Lt. lia. }
    rewrite (cmac_d cd ca H kbak hs _ Vka Ha Bc) by lia. cbn [bind].
    fold (spec_mac_d ca kbak hs (spec_key_data key tape)).
    assert (Hm : block_ok ca (spec_mac_d ca kbak hs (spec_key_data key tape))).
    { apply cmac_block; try assumption. apply bytes_ok_app. split; [apply (ascii_encode hs Ha) | assumption]. }
    destruct (encrypt_cbc_spec ca Hca kbek Vke _ _ Hm Bc) as (E & _ & Lek);
      [rewrite (ca_bs cd ca H); lia | rewrite (ca_bs cd ca H); lia |].
    rewrite E. cbn [bind]. intro X. injection X as <-. split; [reflexivity|]. split; [assumption|].
    rewrite !app_length, !hex_upper_length, Lek, Lc. destruct Hm as [-> _]. rewrite (ca_bs cd ca H). lia.
  Qed.

  Theorem wrap_c kbpk hs key extra tape s :
    bytes_ok kbpk = true -> bytes_ok key = true -> bytes_ok tape = true ->
    ascii_str hs -> (8 <= length hs)%nat ->
    c_wrap cd ca kbpk hs key extra tape = Ok s ->
    s = spec_block_text hs (spec_bind_c cd kbpk hs (spec_key_data key tape)) /\
    length tape = (8 - (2 + length key + extra) mod 8 + extra)%nat /\
    length s = (length hs + 2 * (2 + length key + length tape) + 2 * 4)%nat.
  Proof.
    intros Bk Bkey Btape Ha Hh. unfold c_wrap, spec_bind_c.
    destruct (mem_nat (length kbpk) [8; 16; 24]%nat) eqn:E1; cbn [negb]; [|discriminate].
    apply mem_nat_3 in E1.
    rewrite (variant_c kbpk Bk).
    destruct (variant_keys kbpk Bk) as (Le & La & Be & Ba).
    destruct (spec_variant kbpk) as [kbek kbak]. cbn [fst snd] in *.
    assert (Vke : valid_key cd kbek = true) by (apply (tdes_len_valid cd ca H); rewrite Le; tauto).
    assert (Vka : valid_key cd kbak = true) by (apply (tdes_len_valid cd ca H); rewrite La; tauto).
    destruct (Nat.eqb_spec (length tape) (8 - (2 + length key + extra) mod 8 + extra)) as [Lt|]; cbn [negb]; [|discriminate].
    destruct (key_len_prefix key) as [lp|] eqn:Elp; cbn [bind]; [|discriminate].
    apply key_len_prefix_ok in Elp as (-> & Llp & Blp). fold (spec_key_data key tape).
    assert (Bc : bytes_ok (spec_key_data key tape) = true).
    { unfold spec_key_data. rewrite !bytes_ok_app. auto. }
    assert (Lc : length (spec_key_data key tape) = (2 + length key + length tape)%nat).
    { unfold spec_key_data. rewrite !app_length, Llp. lia. }
    assert (Lc8 : (8 <= length (spec_key_data key tape) /\ length (spec_key_data key tape) mod 8 = 0)%nat).
    { rewrite Lc, Lt. lia. }
    destruct (ascii_encode hs Ha) as [-> Bh]. cbn [bind].
    assert (Hiv : block_ok cd (firstn 8 hs)).
    { split; [rewrite firstn_length, (cd_bs cd ca H); lia | apply bytes_ok_firstn; assumption]. }
    destruct (encrypt_cbc_spec cd Hcd kbek Vke _ _ Hiv Bc) as (E & Bek & Lek);
      [rewrite (cd_bs cd ca H); lia | rewrite (cd_bs cd ca H); lia |].
    rewrite E. cbn [bind].
    rewrite (mac_c_padded cd ca H kbak hs _ Vka Ha Bek). cbn [bind].
    intro X. apply Ok_inv in X. subst s. split; [reflexivity|]. split; [assumption|].
    cbv beta iota delta [spec_block_text fst snd].
    rewrite !app_length, !hex_upper_length, Lek, Lc. unfold spec_mac_c. rewrite firstn_length.
    match goal with |- context [length (cbc_mac cd kbak ?m)] =>
      assert (Hb : block_ok cd (cbc_mac cd kbak m)) end.
    { apply cbc_mac_block; try assumption. apply bytes_ok_iso_pad1. apply bytes_ok_app. auto. }
    destruct Hb as [-> _]. rewrite (cd_bs cd ca H). cbn [Nat.min]. lia.
  Qed.
End Wrap.

(* ------------------------------------------------------------------ *)
(* reverse direction: unwrap opens what the Spec binds                  *)
Lemma nibble_cases (P : N -> bool) :
  forallb P (map N.of_nat (seq 0 16)) = true -> forall b, b < 16 -> P b = true.
Proof.
  intros H b Hb. rewrite forallb_forall in H. apply H. apply in_map_iff.
  exists (N.to_nat b). split; [apply N2Nat.id|]. apply in_seq. lia.
Qed.

Lemma hexdigit_upper_unhex n : n < 16 ->
  is_space (hexdigit_upper n) = false /\ unhex_digit (hexdigit_upper n) = Some n.
Proof.
  intro Hn.
  apply (nibble_cases (fun n => negb (is_space (hexdigit_upper n)) &&
           match unhex_digit (hexdigit_upper n) with Some m => m =? n | None => false end)) in Hn.
  - apply andb_true_iff in Hn as [A B]. apply negb_true_iff in A. split; [assumption|].
    destruct (unhex_digit (hexdigit_upper n)); [|discriminate]. apply N.eqb_eq in B. congruence.
  - vm_compute. reflexivity.
Qed.

Lemma fromhex_hex_upper b : bytes_ok b = true -> bytes_fromhex (hex_upper b) = Ok b.
Proof.
  induction b as [|x b IH]; intro Hb; [reflexivity|].
  apply bytes_ok_cons in Hb as [Hx Hb].
  assert (H1 : x / 16 < 16) by (apply N.div_lt_upper_bound; lia).
  assert (H2 : x mod 16 < 16) by (apply N.mod_lt; lia).
  destruct (hexdigit_upper_unhex _ H1) as [S1 U1]. destruct (hexdigit_upper_unhex _ H2) as [S2 U2].
  unfold hex_upper. cbn [flat_map app]. fold (hex_upper b).
  cbn [bytes_fromhex]. rewrite S1, U1, U2, (IH Hb). cbn [bind].
  f_equal. f_equal. pose proof (N.div_mod x 16). lia.
Qed.

Lemma extract_key_data key pad : bytes_ok key = true -> 8 * lenN key < 65536 ->
  extract_key (spec_key_data key pad) = Ok key.
Proof.
  intros Bk Hl. unfold extract_key, spec_key_data.
  assert (L2 : length (be_bytes 2 (8 * lenN key)) = 2%nat) by apply be_bytes_length.
  assert (F : firstn 2 (be_bytes 2 (8 * lenN key) ++ key ++ pad) = be_bytes 2 (8 * lenN key)).
  { rewrite firstn_app, L2, Nat.sub_diag, firstn_O, app_nil_r. apply firstn_all2. lia. }
  assert (S : skipn 2 (be_bytes 2 (8 * lenN key) ++ key ++ pad) = key ++ pad).
  { rewrite skipn_app, L2, Nat.sub_diag, skipn_O. rewrite skipn_all2 by lia. reflexivity. }
  rewrite F. rewrite be_int_be_bytes by (change (256 ^ N.of_nat 2) with 65536; exact Hl).
  replace ((8 * lenN key) mod 8) with 0 by lia. cbn [N.eqb negb].
  replace (8 * lenN key / 8) with (lenN key) by lia.
  unfold slice. rewrite S. unfold lenN. rewrite Nat2N.id.
  rewrite firstn_app, Nat.sub_diag, firstn_all, firstn_O, app_nil_r, Nat.eqb_refl. reflexivity.
Qed.

Section RoundTrip.
  Variable c : cipher.
  Hypothesis Hc : cipher_ok c.
  Variable key : list N.
  Hypothesis Hk : valid_key c key = true.

  Lemma cbc_dec_enc n iv m : block_ok c iv -> bytes_ok m = true -> length m = (n * bs c)%nat ->
    spec_cbc_dec c key n iv (spec_cbc_enc c key n iv m) = m.
  Proof.
    revert iv m. induction n as [|n IH]; intros iv m Hiv Bm Lm; cbn [spec_cbc_enc spec_cbc_dec].
    - destruct m; [reflexivity|discriminate].
    - assert (Hf : block_ok c (firstn (bs c) m)) by (apply firstn_block; [assumption | rewrite Lm; cbn [Nat.mul]; lia]).
      assert (Hx : block_ok c (xor_pos (firstn (bs c) m) iv)) by (apply xor_block; [assumption | apply Hiv]).
      pose proof (enc_block c Hc key _ Hk Hx) as He.
      rewrite firstn_app_le by (destruct He as [-> _]; lia).
      rewrite firstn_all2 by (destruct He as [-> _]; lia).
      rewrite skipn_app_le by (destruct He as [-> _]; lia).
      rewrite skipn_all2 by (destruct He as [-> _]; lia). cbn [app].
      rewrite (dec_enc c Hc) by assumption.
      rewrite xor_pos_involutive by (destruct Hf as [-> _]; destruct Hiv as [-> _]; lia).
      rewrite IH; [apply firstn_skipn | assumption | apply bytes_ok_skipn; assumption |].
      rewrite skipn_length, Lm. cbn [Nat.mul]. lia.
  Qed.

  Lemma decrypt_encrypt iv m : block_ok c iv -> bytes_ok m = true ->
    (bs c <= length m)%nat -> (length m mod bs c = 0)%nat ->
    spec_decrypt c key iv (spec_encrypt c key iv m) = m.
  Proof.
    intros Hiv Bm L M. destruct (encrypt_cbc_spec c Hc key Hk iv m Hiv Bm L M) as (_ & _ & E3).
    unfold spec_decrypt. rewrite E3. unfold spec_encrypt. apply cbc_dec_enc; try assumption.
    pose proof (bs_pos c Hc). pose proof (Nat.div_mod (length m) (bs c)). nia.
  Qed.
End RoundTrip.

Lemma tail_split (hs et mt : list N) n : length mt = n ->
  skipn (length hs) (hs ++ et ++ mt) = et ++ mt /\
  firstn (length hs) (hs ++ et ++ mt) = hs /\
  last_n n (et ++ mt) = mt /\ drop_last n (et ++ mt) = et.
Proof.
  intro L. split; [|split; [|split]].
  - rewrite skipn_app, Nat.sub_diag, skipn_all. reflexivity.
  - rewrite firstn_app, Nat.sub_diag, firstn_all. cbn. apply app_nil_r.
  - rewrite last_n_app_ge by lia. apply last_n_all. lia.
  - unfold drop_last. rewrite app_length, L, Nat.add_sub. rewrite firstn_app, Nat.sub_diag, firstn_all. cbn. apply app_nil_r.
Qed.

Section Reverse.
  Variables cd ca : cipher.
  Hypothesis H : ciphers_ok cd ca.
  Let Hcd : cipher_ok cd := cd_ok cd ca H.
  Let Hca : cipher_ok ca := ca_ok cd ca H.

  (* Any text [hs ++ et ++ mt] whose header part loads as [h] with length
     [length hs], whose length field is right, and whose binary section is ANY
     hex spelling (letter case, white space in the key part) of what the Spec
     binds for (hs, key, pad), is unwrapped to (h, key). *)
  Theorem reverse_b kbpk hs key pad et mt h :
    bytes_ok kbpk = true -> (length kbpk = 16 \/ length kbpk = 24)%nat ->
    bytes_ok key = true -> bytes_ok pad = true -> 8 * lenN key < 65536 ->
    ((2 + length key + length pad) mod 8 = 0)%nat ->
    ascii_str hs -> (length hs mod 8 = 0)%nat ->
    let em := spec_bind_b cd kbpk hs (spec_key_data key pad) in
    let s := hs ++ et ++ mt in
    bytes_fromhex et = Ok (fst em) -> bytes_fromhex mt = Ok (snd em) -> length mt = 16%nat ->
    header_load default_header s = (h, Ok (length hs)) -> version_id h = [66] ->
    int_of_dec (slice 1 4 s) = Ok (lenN s) -> (length s mod 8 = 0)%nat ->
    unwrap cd ca kbpk s = Ok (h, key).
  Proof.
    intros Bk Lk Bkey Bpad Hfit Hmod Ha Hh em s Eet Emt Lmt HL V EI Ls.
    apply (accept_iff cd ca H); [assumption|].
    destruct (tail_split hs et mt 16 Lmt) as (T1 & T2 & T3 & T4). fold s in T1, T2.
    exists (length hs), (fst em), (snd em). split; [assumption|]. split; [assumption|]. cbv zeta.
    left. split; [assumption|].
    unfold em, spec_bind_b in *.
    destruct (kdf_b_keys cd ca H kbpk Bk Lk) as (Le & La & Be & Ba).
    unfold auth_b.
    destruct (spec_kdf_b cd kbpk) as [kbek kbak]. cbn [fst snd] in *.
    assert (Vke : valid_key cd kbek = true) by (apply (tdes_len_valid cd ca H); rewrite Le; tauto).
    assert (Vka : valid_key cd kbak = true) by (apply (tdes_len_valid cd ca H); rewrite La; tauto).
    set (clear := spec_key_data key pad) in *.
    assert (Bc : bytes_ok clear = true).
    { unfold clear, spec_key_data. rewrite !bytes_ok_app. repeat split; try assumption. apply be_bytes_bytes_ok. }
    assert (Lc : length clear = (2 + length key + length pad)%nat).
    { unfold clear, spec_key_data. rewrite !app_length, be_bytes_length. lia. }
    set (mac := spec_mac_b cd kbak hs clear) in *.
    assert (Hm : block_ok cd mac).
    { apply cmac_block; try assumption. apply bytes_ok_app. split; [apply (ascii_encode hs Ha) | assumption]. }
    destruct (encrypt_cbc_spec cd Hcd kbek Vke mac clear Hm Bc) as (_ & Bek & Lek);
      [rewrite (cd_bs cd ca H); lia | rewrite (cd_bs cd ca H); lia |].
    split.
    - unfold binary_section. change (8 * 2)%nat with 16%nat. rewrite T1, T3, T4. repeat split; try assumption.
      destruct Hm as [-> _]. apply (cd_bs cd ca H).
    - rewrite T2. split; [assumption|]. rewrite Lek. split; [lia|]. split; [lia|]. split; [assumption|].
      rewrite (decrypt_encrypt cd Hcd kbek Vke mac clear Hm Bc) by (rewrite (cd_bs cd ca H); lia).
      split; [|apply extract_key_data; assumption].
      rewrite psec_mac_bd_cmac; [reflexivity | assumption | |]; rewrite app_length; [lia|].
      rewrite (cd_bs cd ca H). lia.
  Qed.

  Theorem reverse_d kbpk hs key pad et mt h :
    bytes_ok kbpk = true -> (length kbpk = 16 \/ length kbpk = 24 \/ length kbpk = 32)%nat ->
    bytes_ok key = true -> bytes_ok pad = true -> 8 * lenN key < 65536 ->
    ((2 + length key + length pad) mod 16 = 0)%nat ->
    ascii_str hs -> (length hs mod 16 = 0)%nat ->
    let em := spec_bind_d ca kbpk hs (spec_key_data key pad) in
    let s := hs ++ et ++ mt in
    bytes_fromhex et = Ok (fst em) -> bytes_fromhex mt = Ok (snd em) -> length mt = 32%nat ->
    header_load default_header s = (h, Ok (length hs)) -> version_id h = [68] ->
    int_of_dec (slice 1 4 s) = Ok (lenN s) -> (length s mod 16 = 0)%nat ->
    unwrap cd ca kbpk s = Ok (h, key).
  Proof.
    intros Bk Lk Bkey Bpad Hfit Hmod Ha Hh em s Eet Emt Lmt HL V EI Ls.
    apply (accept_iff cd ca H); [assumption|].
    destruct (tail_split hs et mt 32 Lmt) as (T1 & T2 & T3 & T4). fold s in T1, T2.
    exists (length hs), (fst em), (snd em). split; [assumption|]. split; [assumption|]. cbv zeta.
    right. left. split; [assumption|].
    unfold em, spec_bind_d in *.
    destruct (kdf_d_keys cd ca H kbpk Bk Lk) as (Le & La & Be & Ba).
    unfold auth_d.
    destruct (spec_kdf_d ca kbpk) as [kbek kbak]. cbn [fst snd] in *.
    assert (Vke : valid_key ca kbek = true) by (apply (aes_len_valid cd ca H); rewrite Le; tauto).
    assert (Vka : valid_key ca kbak = true) by (apply (aes_len_valid cd ca H); rewrite La; tauto).
    set (clear := spec_key_data key pad) in *.
    assert (Bc : bytes_ok clear = true).
    { unfold clear, spec_key_data. rewrite !bytes_ok_app. repeat split; try assumption. apply be_bytes_bytes_ok. }
    assert (Lc : length clear = (2 + length key + length pad)%nat).
    { unfold clear, spec_key_data. rewrite !app_length, be_bytes_length. lia. }
    set (mac := spec_mac_d ca kbak hs clear) in *.
    assert (Hm : block_ok ca mac).
    { apply cmac_block; try assumption. apply bytes_ok_app. split; [apply (ascii_encode hs Ha) | assumption]. }
    destruct (encrypt_cbc_spec ca Hca kbek Vke mac clear Hm Bc) as (_ & Bek & Lek);
      [rewrite (ca_bs cd ca H); lia | rewrite (ca_bs cd ca H); lia |].
    split.
    - unfold binary_section. change (16 * 2)%nat with 32%nat. rewrite T1, T3, T4. repeat split; try assumption.
      destruct Hm as [-> _]. apply (ca_bs cd ca H).
    - rewrite T2. split; [assumption|]. rewrite Lek. split; [lia|]. split; [lia|]. split; [assumption|].
      rewrite (decrypt_encrypt ca Hca kbek Vke mac clear Hm Bc) by (rewrite (ca_bs cd ca H); lia).
      split; [|apply extract_key_data; assumption].
      rewrite psec_mac_bd_cmac; [reflexivity | assumption | |]; rewrite app_length; [lia|].
      rewrite (ca_bs cd ca H). lia.
  Qed.

  Theorem reverse_c kbpk hs key pad et mt h :
    bytes_ok kbpk = true -> (length kbpk = 8 \/ length kbpk = 16 \/ length kbpk = 24)%nat ->
    bytes_ok key = true -> bytes_ok pad = true -> 8 * lenN key < 65536 ->
    ((2 + length key + length pad) mod 8 = 0)%nat ->
    ascii_str hs -> (8 <= length hs)%nat ->
    let em := spec_bind_c cd kbpk hs (spec_key_data key pad) in
    let s := hs ++ et ++ mt in
    bytes_fromhex et = Ok (fst em) -> bytes_fromhex mt = Ok (snd em) -> length mt = 8%nat ->
    header_load default_header s = (h, Ok (length hs)) -> (version_id h = [65] \/ version_id h = [67]) ->
    int_of_dec (slice 1 4 s) = Ok (lenN s) -> (length s mod 8 = 0)%nat ->
    unwrap cd ca kbpk s = Ok (h, key).
  Proof.
    intros Bk Lk Bkey Bpad Hfit Hmod Ha Hh em s Eet Emt Lmt HL V EI Ls.
    apply (accept_iff cd ca H); [assumption|].
    destruct (tail_split hs et mt 8 Lmt) as (T1 & T2 & T3 & T4). fold s in T1, T2.
    exists (length hs), (fst em), (snd em). split; [assumption|]. split; [assumption|]. cbv zeta.
    right. right. split; [assumption|].
    unfold em, spec_bind_c in *.
    destruct (variant_keys kbpk Bk) as (Le & La & Be & Ba).
    unfold auth_c.
    destruct (spec_variant kbpk) as [kbek kbak]. cbn [fst snd] in *.
    assert (Vke : valid_key cd kbek = true) by (apply (tdes_len_valid cd ca H); rewrite Le; tauto).
    assert (Vka : valid_key cd kbak = true) by (apply (tdes_len_valid cd ca H); rewrite La; tauto).
    set (clear := spec_key_data key pad) in *.
    assert (Bc : bytes_ok clear = true).
    { unfold clear, spec_key_data. rewrite !bytes_ok_app. repeat split; try assumption. apply be_bytes_bytes_ok. }
    assert (Lc : length clear = (2 + length key + length pad)%nat).
    { unfold clear, spec_key_data. rewrite !app_length, be_bytes_length. lia. }
    destruct (ascii_encode hs Ha) as [_ Bh].
    assert (Hiv : block_ok cd (firstn 8 hs)).
    { split; [rewrite firstn_length, (cd_bs cd ca H); lia | apply bytes_ok_firstn; assumption]. }
    destruct (encrypt_cbc_spec cd Hcd kbek Vke (firstn 8 hs) clear Hiv Bc) as (_ & Bek & Lek);
      [rewrite (cd_bs cd ca H); lia | rewrite (cd_bs cd ca H); lia |].
    split.
    - unfold binary_section. change (4 * 2)%nat with 8%nat. rewrite T1, T3, T4. repeat split; try assumption.
      unfold spec_mac_c. rewrite firstn_length.
      match goal with |- (Nat.min 4 (length (cbc_mac cd kbak ?m)) = 4)%nat =>
        assert (Hb : block_ok cd (cbc_mac cd kbak m)) end.
      { apply cbc_mac_block; try assumption. apply bytes_ok_iso_pad1. apply bytes_ok_app. auto. }
      destruct Hb as [-> _]. rewrite (cd_bs cd ca H). reflexivity.
    - rewrite T2. split; [assumption|]. rewrite Lek. split; [lia|]. split; [lia|]. split; [assumption|].
      split; [assumption|]. split; [reflexivity|].
      rewrite (decrypt_encrypt cd Hcd kbek Vke (firstn 8 hs) clear Hiv Bc) by (rewrite (cd_bs cd ca H); lia).
      apply extract_key_data; assumption.
  Qed.
End Reverse.
