(* ISO 9797-1 padding (psec.mac.pad_iso_1/2/3): exactness, minimality, injectivity *)
From Coq Require Import Lia ZifyBool ZifyNat ZifyN.
From Psec Require Import Lib.Base Model.Mac.
Ltac Zify.zify_post_hook ::= Z.to_euclidean_division_equations.
Open Scope nat_scope.

(* k is the least number of bytes that brings n to a positive multiple of bsz *)
Definition least_pad (bsz n k : nat) : Prop :=
  0 < n + k /\ (n + k) mod bsz = 0 /\
  forall j, j < k -> ~ (0 < n + j /\ (n + j) mod bsz = 0).

Definition pad1_count (bsz n : nat) : nat :=
  if 0 <? n mod bsz then bsz - n mod bsz else if n =? 0 then bsz else 0.

Lemma pad1_count_least bsz n : 0 < bsz -> least_pad bsz n (pad1_count bsz n).
Proof.
  intros Hb. unfold least_pad, pad1_count.
  destruct (Nat.ltb_spec 0 (n mod bsz)) as [Hr|Hr].
  - repeat split.
    + lia.
    + pose proof (Nat.div_mod n bsz ltac:(lia)) as E.
      pose proof (Nat.mod_upper_bound n bsz ltac:(lia)) as U.
      replace (n + (bsz - n mod bsz)) with (n mod bsz + (bsz - n mod bsz) + (n / bsz) * bsz) by lia.
      replace (n mod bsz + (bsz - n mod bsz)) with (1 * bsz) by lia.
      rewrite <- Nat.mul_add_distr_r. apply Nat.mod_mul. lia.
    + intros j Hj [_ Hm].
      pose proof (Nat.div_mod n bsz ltac:(lia)) as E.
      pose proof (Nat.mod_upper_bound n bsz ltac:(lia)) as U.
      assert (Hs : (n mod bsz + j) mod bsz = 0).
      { rewrite <- Hm. rewrite (Nat.add_mod n j bsz) by lia.
        rewrite (Nat.add_mod (n mod bsz) j bsz) by lia. rewrite Nat.mod_mod by lia. reflexivity. }
      rewrite Nat.mod_small in Hs by lia. lia.
  - destruct (Nat.eqb_spec n 0) as [->|Hn].
    + repeat split; try lia.
      * simpl. apply Nat.mod_same. lia.
      * intros j Hj [Hp Hm]. simpl in *. rewrite Nat.mod_small in Hm by lia. lia.
    + repeat split; try lia.
      rewrite Nat.add_0_r. lia.
Qed.

Lemma least_pad_unique bsz n k1 k2 : least_pad bsz n k1 -> least_pad bsz n k2 -> k1 = k2.
Proof.
  intros (P1 & M1 & L1) (P2 & M2 & L2).
  destruct (Nat.lt_trichotomy k1 k2) as [H|[H|H]]; [|assumption|].
  - exfalso. apply (L2 k1 H). auto.
  - exfalso. apply (L1 k2 H). auto.
Qed.

Lemma pad1_shape data bsz : 0 < bsz ->
  pad_iso_1 data bsz = Ok (data ++ repeat 0%N (pad1_count bsz (length data))).
Proof.
  intros Hb. unfold pad_iso_1, pad1_count.
  destruct (Nat.eqb_spec bsz 0) as [|_]; [lia|].
  destruct (Nat.ltb_spec 0 (length data mod bsz)); [reflexivity|].
  destruct (Nat.eqb_spec (length data) 0) as [E|E].
  - destruct data; [reflexivity|discriminate].
  - simpl. rewrite app_nil_r. reflexivity.
Qed.

Theorem pad1_exact data bsz : 0 < bsz ->
  exists k, pad_iso_1 data bsz = Ok (data ++ repeat 0%N k) /\ least_pad bsz (length data) k.
Proof.
  intros Hb. exists (pad1_count bsz (length data)). split.
  - apply pad1_shape; assumption.
  - apply pad1_count_least; assumption.
Qed.

Theorem pad1_empty bsz : 0 < bsz -> pad_iso_1 [] bsz = Ok (repeat 0%N bsz).
Proof.
  intros Hb. rewrite pad1_shape by assumption. unfold pad1_count. simpl.
  rewrite Nat.mod_0_l by lia. reflexivity.
Qed.

Theorem pad2_exact data bsz : 0 < bsz ->
  exists k, pad_iso_2 data bsz = Ok (data ++ [128%N] ++ repeat 0%N k) /\
            (length data + 1 + k) mod bsz = 0 /\
            forall j, j < k -> (length data + 1 + j) mod bsz <> 0.
Proof.
  intros Hb. unfold pad_iso_2.
  destruct (pad1_exact (data ++ [128%N]) bsz Hb) as (k & E & (P & M & L)).
  exists k. rewrite E, <- app_assoc. split; [reflexivity|].
  rewrite app_length in *. simpl in *. split; [assumption|].
  intros j Hj Hm. apply (L j Hj). split; [lia|assumption].
Qed.

Theorem pad3_exact data bsz : 0 < bsz ->
  (N.of_nat (length data) * 8 < 256 ^ N.of_nat bsz)%N ->
  exists k, pad_iso_3 data bsz =
              Ok (be_bytes bsz (N.of_nat (length data) * 8) ++ data ++ repeat 0%N k) /\
            least_pad bsz (length data) k.
Proof.
  intros Hb Hfit. unfold pad_iso_3, to_bytes_be, lenN.
  apply N.ltb_lt in Hfit. rewrite Hfit. cbn [bind].
  destruct (pad1_exact data bsz Hb) as (k & E & L).
  exists k. rewrite E. cbn [bind]. split; [reflexivity|assumption].
Qed.

(* the length block really is the bit length, big endian, on [bsz] bytes *)
Lemma le_int_le_bytes n v : (v < 256 ^ N.of_nat n)%N -> le_int (le_bytes n v) = v.
Proof.
  revert v. induction n as [|n IH]; intros v Hv.
  - simpl in Hv. cbn. lia.
  - cbn [le_bytes le_int]. rewrite IH.
    + pose proof (N.div_mod v 256 ltac:(lia)). lia.
    + rewrite Nat2N.inj_succ, N.pow_succ_r' in Hv.
      apply N.div_lt_upper_bound; lia.
Qed.

Lemma le_bytes_length n v : length (le_bytes n v) = n.
Proof. revert v; induction n; intros; simpl; auto. Qed.

Lemma be_int_be_bytes n v : (v < 256 ^ N.of_nat n)%N -> be_int (be_bytes n v) = v.
Proof. intros. unfold be_int, be_bytes. rewrite rev_involutive. apply le_int_le_bytes; assumption. Qed.

Lemma be_bytes_length n v : length (be_bytes n v) = n.
Proof. unfold be_bytes. rewrite rev_length. apply le_bytes_length. Qed.

(* ---- results are positive multiples that contain the message ---- *)
Theorem pad_multiple p data bsz out : 0 < bsz -> (p = 1 \/ p = 2 \/ p = 3)%N ->
  pad_dispatch p data bsz = Ok out ->
  0 < length out /\ length out mod bsz = 0 /\
  (p <> 3%N -> firstn (length data) out = data) /\
  (p = 3%N -> firstn (length data) (skipn bsz out) = data).
Proof.
  intros Hb Hp E.
  destruct Hp as [->|[->| ->]]; cbn [pad_dispatch] in E.
  - destruct (pad1_exact data bsz Hb) as (k & E' & (P & M & _)). rewrite E' in E. injection E as <-.
    rewrite app_length, repeat_length. repeat split; try assumption; try discriminate.
    intros _. rewrite firstn_app, Nat.sub_diag, firstn_all. simpl. apply app_nil_r.
  - destruct (pad2_exact data bsz Hb) as (k & E' & M & _). rewrite E' in E. injection E as <-.
    rewrite app_length. simpl. rewrite repeat_length. repeat split; try discriminate; try lia.
    + replace (length data + S k) with (length data + 1 + k) by lia. assumption.
    + intros _. rewrite firstn_app, Nat.sub_diag, firstn_all. simpl. apply app_nil_r.
  - unfold pad_iso_3 in E. unfold to_bytes_be in E.
    destruct (lenN data * 8 <? 256 ^ N.of_nat bsz)%N; [|discriminate]. cbn [bind] in E.
    destruct (pad1_exact data bsz Hb) as (k & E' & (P & M & _)). rewrite E' in E. cbn [bind] in E.
    injection E as <-. rewrite !app_length, be_bytes_length, repeat_length.
    repeat split; try lia.
    + rewrite Nat.add_comm. rewrite <- Nat.add_mod_idemp_l by lia. rewrite M. simpl.
      apply Nat.mod_same. lia.
    + intros _. rewrite skipn_app, be_bytes_length, Nat.sub_diag, skipn_all2 by (rewrite be_bytes_length; lia).
      simpl. rewrite firstn_app, Nat.sub_diag, firstn_all. simpl. apply app_nil_r.
Qed.

(* ---- injectivity ---- *)
Lemma repeat_snoc {A} (x : A) n : repeat x n ++ [x] = x :: repeat x n.
Proof. induction n; simpl; congruence. Qed.
Lemma rev_repeat' {A} (x : A) n : rev (repeat x n) = repeat x n.
Proof. induction n; simpl; auto. rewrite IHn. apply repeat_snoc. Qed.
Lemma strip_zeros_marker (a b : list N) ka kb :
  a ++ [128%N] ++ repeat 0%N ka = b ++ [128%N] ++ repeat 0%N kb -> a = b.
Proof.
  intros E. apply (f_equal (@rev N)) in E.
  rewrite !rev_app_distr in E. simpl in E. rewrite !rev_repeat' in E.
  rewrite <- !app_assoc in E. simpl in E.
  revert kb E. induction ka as [|ka IH]; intros [|kb] E; simpl in E.
  - injection E as E. apply (f_equal (@rev N)) in E. rewrite !rev_involutive in E. assumption.
  - discriminate.
  - discriminate.
  - injection E as E. eauto.
Qed.

Theorem pad2_injective d1 d2 bsz p : 0 < bsz ->
  pad_iso_2 d1 bsz = Ok p -> pad_iso_2 d2 bsz = Ok p -> d1 = d2.
Proof.
  intros Hb E1 E2.
  destruct (pad2_exact d1 bsz Hb) as (k1 & F1 & _).
  destruct (pad2_exact d2 bsz Hb) as (k2 & F2 & _).
  rewrite F1 in E1. rewrite F2 in E2. injection E1 as <-. injection E2 as E.
  symmetry in E. exact (strip_zeros_marker _ _ _ _ E).
Qed.

Lemma app_inv_len {A} (a b c d : list A) :
  length a = length c -> a ++ b = c ++ d -> a = c /\ b = d.
Proof.
  revert c. induction a as [|x a IH]; intros [|y c] L E; simpl in *; try discriminate.
  - auto.
  - injection E as -> E. injection L as L. destruct (IH c L E) as [-> ->]. auto.
Qed.

Theorem pad3_injective d1 d2 bsz p : 0 < bsz ->
  pad_iso_3 d1 bsz = Ok p -> pad_iso_3 d2 bsz = Ok p -> d1 = d2.
Proof.
  intros Hb E1 E2. unfold pad_iso_3, to_bytes_be in E1, E2.
  destruct (N.ltb_spec (lenN d1 * 8) (256 ^ N.of_nat bsz)) as [H1|]; [|discriminate].
  destruct (N.ltb_spec (lenN d2 * 8) (256 ^ N.of_nat bsz)) as [H2|]; [|discriminate].
  cbn [bind] in E1, E2.
  destruct (pad1_exact d1 bsz Hb) as (k1 & F1 & _). destruct (pad1_exact d2 bsz Hb) as (k2 & F2 & _).
  rewrite F1 in E1. rewrite F2 in E2. cbn [bind] in E1, E2.
  injection E1 as <-. injection E2 as E.
  apply app_inv_len in E; [|rewrite !be_bytes_length; reflexivity].
  destruct E as [Eb Er].
  assert (Hlen : length d2 = length d1).
  { apply (f_equal be_int) in Eb. rewrite !be_int_be_bytes in Eb by assumption.
    unfold lenN in Eb. lia. }
  apply app_inv_len in Er; [|assumption]. destruct Er as [Er _]. symmetry. exact Er.
Qed.

(* outside the documented domain the model crashes like CPython does *)
Theorem pad3_overflow data bsz :
  (256 ^ N.of_nat bsz <= N.of_nat (length data) * 8)%N -> pad_iso_3 data bsz = Err (Crash COverflow).
Proof.
  intros H. unfold pad_iso_3, to_bytes_be, lenN.
  destruct (N.ltb_spec (N.of_nat (length data) * 8) (256 ^ N.of_nat bsz)); [lia|reflexivity].
Qed.

Theorem pad_unknown_method p data bsz : (p <> 1 -> p <> 2 -> p <> 3 ->
  pad_dispatch p data bsz = Err ValueError)%N.
Proof.
  intros. unfold pad_dispatch.
  destruct p as [|[[|[]|]|[|[]|]|]]; try reflexivity; try congruence.
Qed.
