(* C01, strengthening: every Header a successful Header.load produces is
   [header_ok] (so the round trip needs no premise on a header that came out of
   a load), and what unwrap returns can be wrapped again and unwrapped to the
   same pair. *)
From Coq Require Import Lia ZifyBool ZifyNat ZifyN.
From Psec Require Import Lib.Base Cipher.Cipher Model.Tools Model.Mac Model.Tr31.
From Psec Require Import Proofs.XorLemmas Proofs.Tr31Defs Proofs.Tr31SafetyBase Proofs.Tr31SafetyLoad.
From Psec Require Import Proofs.TextLemmas Proofs.Tr31CryptoBase Proofs.Tr31Codec Proofs.Tr31RoundTrip.
Ltac Zify.zify_post_hook ::= Z.to_euclidean_division_equations.
Open Scope N_scope.

(* ------------------------------------------------------------------ *)
(* dict: list_eqb decides equality, so a present key is overwritten in
   place and an absent one appended: keys stay distinct                 *)
Lemma list_eqb_true a b : list_eqb a b = true -> a = b.
Proof. apply TextLemmas.list_eqb_eq. Qed.

Lemma list_eqb_same a : list_eqb a a = true.
Proof. apply TextLemmas.list_eqb_eq. reflexivity. Qed.

Lemma dict_set_keys k v d x :
  In x (map fst (dict_set k v d)) -> x = k \/ In x (map fst d).
Proof.
  induction d as [|[k' v'] r IH]; cbn [dict_set].
  - cbn [map fst In]. intros [<-|[]]. left. reflexivity.
  - destruct (list_eqb k k'); cbn [map fst In].
    + intros H. right. exact H.
    + intros [<-|H]; [right; left; reflexivity|].
      destruct (IH H) as [->|Hin]; [left; reflexivity | right; right; exact Hin].
Qed.

Lemma dict_set_nodup k v d : NoDup (map fst d) -> NoDup (map fst (dict_set k v d)).
Proof.
  induction d as [|[k' v'] r IH]; intros Hnd; cbn [dict_set].
  - cbn [map fst]. constructor; [intros [] | constructor].
  - cbn [map fst] in Hnd. inversion Hnd as [|? ? Hfresh Hr]; subst.
    destruct (list_eqb k k') eqn:E; cbn [map fst].
    + constructor; assumption.
    + constructor; [|apply IH; exact Hr].
      intros Hin. apply dict_set_keys in Hin as [->|Hin]; [|contradiction].
      rewrite list_eqb_same in E. discriminate E.
Qed.

Lemma dict_set_entries k v d : block_entry_ok (k, v) ->
  Forall block_entry_ok d -> Forall block_entry_ok (dict_set k v d).
Proof.
  intros Hkv. induction d as [|[k' v'] r IH]; intros Hd; cbn [dict_set].
  - constructor; [exact Hkv | constructor].
  - inversion Hd as [|? ? H1 H2]; subst. destruct (list_eqb k k') eqn:E.
    + apply list_eqb_true in E. subst k'. constructor; [exact Hkv | exact H2].
    + constructor; [exact H1 | apply IH; exact H2].
Qed.

(* the blocks part of [header_ok] *)
Definition dict_ok (d : dict) : Prop := Forall block_entry_ok d /\ NoDup (map fst d).

Lemma dict_ok_nil : dict_ok [].
Proof. split; constructor. Qed.

Lemma blocks_setitem_dict_ok id data acc acc' : is_pad_id id = false -> dict_ok acc ->
  blocks_setitem id data acc = Ok acc' -> dict_ok acc'.
Proof.
  intros Hpad [Hf Hn]. unfold blocks_setitem.
  destruct (Nat.eqb_spec (length id) 2) as [L|L]; cbn [negb orb]; [|discriminate].
  destruct (ascii_alphanumeric id) eqn:A; cbn [negb]; [|discriminate].
  destruct (ascii_printable data) eqn:P; cbn [negb]; [|discriminate].
  intros E. injection E as <-. split.
  - apply dict_set_entries; [|exact Hf]. unfold block_entry_ok. cbn [fst snd]. auto.
  - apply dict_set_nodup. exact Hn.
Qed.

(* ------------------------------------------------------------------ *)
(* Blocks.load                                                          *)
Lemma blocks_load_aux_dict_ok n : forall rest consumed acc d m, dict_ok acc ->
  blocks_load_aux n rest consumed acc = (d, Ok m) -> dict_ok d.
Proof.
  induction n as [|n IH]; intros rest consumed acc d m Hacc H.
  - cbn [blocks_load_aux] in H. injection H as <- _. exact Hacc.
  - rewrite blocks_load_aux_S in H.
    destruct (negb (length (firstn 2 rest) =? 2)%nat); [discriminate H|].
    destruct (load_len (skipn 2 rest)) as [[[bl rest3] used]|e]; [|discriminate H].
    destruct (bl <? 0)%Z; [discriminate H|].
    destruct (lenN rest3 <? Z.to_N bl); [discriminate H|].
    cbv zeta in H.
    destruct (is_pad_id (firstn 2 rest)) eqn:Hpad.
    + destruct (negb (ascii_printable (firstn (N.to_nat (Z.to_N bl)) rest3))); [discriminate H|].
      eapply IH; [exact Hacc | exact H].
    + destruct (blocks_setitem (firstn 2 rest) (firstn (N.to_nat (Z.to_N bl)) rest3) acc)
        as [acc'|e] eqn:Es; [|discriminate H].
      eapply IH; [|exact H]. eapply blocks_setitem_dict_ok; eassumption.
Qed.

Lemma blocks_load_dict_ok n s d m : blocks_load n s = (d, Ok m) -> dict_ok d.
Proof. unfold blocks_load. apply blocks_load_aux_dict_ok. exact dict_ok_nil. Qed.

(* ------------------------------------------------------------------ *)
(* Header.load                                                          *)
Lemma header_load_blocks st s h n : header_load st s = (h, Ok n) ->
  exists bn m, blocks_load bn (skipn 16 s) = (blocks h, Ok m).
Proof.
  unfold header_load, header_load_with.
  destruct (negb (ascii_alphanumeric (firstn 16 s))); [discriminate|].
  destruct (length s <? 16)%nat; [discriminate|].
  destruct (set_field st FVersionId (slice 0 1 s)) as [h1|]; [|discriminate].
  destruct (set_field h1 FKeyUsage (slice 5 2 s)) as [h2|]; [|discriminate].
  destruct (set_field h2 FAlgorithm (slice 7 1 s)) as [h3|]; [|discriminate].
  destruct (set_field h3 FModeOfUse (slice 8 1 s)) as [h4|]; [|discriminate].
  destruct (set_field h4 FVersionNum (slice 9 2 s)) as [h5|]; [|discriminate].
  destruct (set_field h5 FExportability (slice 11 1 s)) as [h6|]; [|discriminate].
  cbv zeta.
  destruct (negb (ascii_numeric (slice 12 2 s))); [discriminate|].
  destruct (int_of_dec (slice 12 2 s)) as [bn|]; [|discriminate].
  destruct (blocks_load (N.to_nat bn) (skipn 16 s)) as [d r] eqn:E.
  intros H. destruct r as [m|e]; cbn [bind] in H; [|discriminate H].
  injection H as <- _. exists (N.to_nat bn), m. cbn [set_blocks blocks]. exact E.
Qed.

(* Goal 1 *)
Theorem header_load_ok : forall st s h n, header_load st s = (h, Ok n) -> header_ok h.
Proof.
  intros st s h n H.
  destruct (Tr31SafetyLoad.header_load_ok st s n) as (W & _).
  { rewrite H. reflexivity. }
  rewrite H in W. cbn [fst] in W.
  destruct W as (V & A & B & C & D & E & F & _).
  destruct (header_load_blocks st s h n H) as (bn & m & Hb).
  destruct (blocks_load_dict_ok _ _ _ _ Hb) as [G N].
  unfold header_ok. auto 10.
Qed.

Section Loaded.
  Variables cd ca : cipher.

  (* KeyBlock.unwrap: a success means the load inside it succeeded *)
  Lemma kb_unwrap_header_ok kbpk st s h k :
    kb_unwrap cd ca kbpk st s = (h, Ok k) -> header_ok h.
  Proof.
    unfold kb_unwrap, kb_unwrap_gen.
    destruct (header_load st s) as [h' r] eqn:E. intros H.
    destruct r as [n|e]; cbn [bind] in H.
    - assert (h' = h) as <- by congruence. eapply header_load_ok. exact E.
    - exfalso. congruence.
  Qed.

  (* Goal 3, first half *)
  Theorem unwrap_returns_header_ok : forall kbpk s h k,
    unwrap cd ca kbpk s = Ok (h, k) -> header_ok h.
  Proof.
    intros kbpk s h k. unfold unwrap.
    destruct (kb_unwrap cd ca kbpk default_header s) as [h' r] eqn:E.
    destruct r as [k'|e]; cbn [bind]; [|discriminate].
    intros H. injection H as <- <-. eapply kb_unwrap_header_ok. exact E.
  Qed.

  (* the object model *)
  Theorem step_load_header_ok : forall st s n,
    snd (step cd ca st (OpLoad s)) = OutNat n ->
    header_ok (st_header (fst (step cd ca st (OpLoad s)))).
  Proof.
    intros st s n. cbn [step].
    destruct (header_load (st_header st) s) as [h r] eqn:E. cbn [fst snd st_header].
    destruct r as [m|e]; [|discriminate]. intros _. eapply header_load_ok. exact E.
  Qed.

  Theorem step_unwrap_header_ok : forall st s k,
    snd (step cd ca st (OpUnwrap s)) = OutBytes k ->
    header_ok (st_header (fst (step cd ca st (OpUnwrap s)))).
  Proof.
    intros st s k. cbn [step].
    destruct (kb_unwrap cd ca (st_kbpk st) (st_header st) s) as [h r] eqn:E.
    cbn [fst snd st_header].
    destruct r as [k'|e]; [|discriminate]. intros _. eapply kb_unwrap_header_ok. exact E.
  Qed.

  Theorem step_success_header_ok : forall st s,
    (forall n, snd (step cd ca st (OpLoad s)) = OutNat n ->
       header_ok (st_header (fst (step cd ca st (OpLoad s))))) /\
    (forall k, snd (step cd ca st (OpUnwrap s)) = OutBytes k ->
       header_ok (st_header (fst (step cd ca st (OpUnwrap s))))).
  Proof.
    intros st s. split; [apply step_load_header_ok | apply step_unwrap_header_ok].
  Qed.
End Loaded.

(* ------------------------------------------------------------------ *)
(* the key unwrap returns is a byte string                              *)
Lemma unhex_digit_lt16 c v : unhex_digit c = Some v -> v < 16.
Proof.
  unfold unhex_digit, is_digit. intro E.
  destruct ((48 <=? c) && (c <=? 57)) eqn:E1; [injection E as <-; lia|].
  destruct ((65 <=? c) && (c <=? 70)) eqn:E2; [injection E as <-; lia|].
  destruct ((97 <=? c) && (c <=? 102)) eqn:E3; [injection E as <-; lia | discriminate].
Qed.

Lemma bytes_fromhex_bytes_ok_len n : forall s b, (length s <= n)%nat ->
  bytes_fromhex s = Ok b -> bytes_ok b = true.
Proof.
  induction n as [|n IH]; intros s b L E.
  - destruct s; [|cbn [length] in L; lia]. injection E as <-. reflexivity.
  - destruct s as [|c r]; [injection E as <-; reflexivity|]. cbn [length] in L.
    cbn [bytes_fromhex] in E. destruct (is_space c); [apply (IH r); [lia | exact E]|].
    destruct r as [|d r']; [discriminate E|]. cbn [length] in L.
    destruct (unhex_digit c) as [h|] eqn:Eh; [|discriminate E].
    destruct (unhex_digit d) as [l|] eqn:El; [|discriminate E].
    destruct (bytes_fromhex r') as [t|] eqn:Et; [|discriminate E]. cbn [bind] in E.
    injection E as <-. apply bytes_ok_cons. split.
    + apply unhex_digit_lt16 in Eh. apply unhex_digit_lt16 in El. destruct h; lia.
    + apply (IH r'); [lia | exact Et].
Qed.

Lemma fromhex_kbe_bytes_ok s b : fromhex_kbe s = Ok b -> bytes_ok b = true.
Proof.
  unfold fromhex_kbe. destruct (bytes_fromhex s) as [b'|e] eqn:E.
  - intros H. injection H as <-. apply (bytes_fromhex_bytes_ok_len (length s) s); [lia | exact E].
  - destruct e; discriminate.
Qed.

Lemma decrypt_cbc_bytes_ok c key iv data pt : cipher_ok c ->
  bytes_ok iv = true -> bytes_ok data = true ->
  decrypt_cbc c key iv data = Ok pt -> bytes_ok pt = true.
Proof.
  intros Hc Bi Bd. unfold decrypt_cbc, bad_len.
  destruct (Nat.ltb_spec (length data) (bs c)); [discriminate|].
  destruct (Nat.eqb_spec (length data mod bs c) 0) as [Hm|]; [|discriminate]. cbn [orb negb].
  destruct (valid_key c key) eqn:Hk; [|discriminate]. cbn [negb].
  destruct (Nat.eqb_spec (length iv) (bs c)) as [Li|]; [|discriminate]. cbn [negb].
  intros E. injection E as <-.
  apply (Tr31CryptoBase.cbc_dec_n_bytes_ok c Hc key Hk); try assumption.
  apply (Tr31CryptoBase.whole_blocks c Hc key). exact Hm.
Qed.

Lemma extract_key_bytes_ok ckd k : bytes_ok ckd = true -> extract_key ckd = Ok k ->
  bytes_ok k = true.
Proof.
  intros B. unfold extract_key.
  destruct (negb (be_int (firstn 2 ckd) mod 8 =? 0)); [discriminate|].
  destruct (negb (length (slice 2 (N.to_nat (be_int (firstn 2 ckd) / 8)) ckd)
                  =? N.to_nat (be_int (firstn 2 ckd) / 8))%nat); [discriminate|].
  intros E. injection E as <-. unfold slice. apply bytes_ok_firstn, bytes_ok_skipn. exact B.
Qed.

Section UnwrapBytes.
  Variables cd ca : cipher.
  Hypothesis Hcs : ciphers_ok cd ca.

  Lemma b_unwrap_bytes_ok kbpk hdr kd rm k : bytes_ok kd = true -> bytes_ok rm = true ->
    b_unwrap cd ca kbpk hdr kd rm = Ok k -> bytes_ok k = true.
  Proof.
    intros Bk Bm. unfold b_unwrap, b_unwrap_clear.
    destruct (negb (mem_nat (length kbpk) [16; 24]%nat)); [discriminate|].
    destruct ((length kd <? 8)%nat || negb (length kd mod 8 =? 0)%nat); [discriminate|].
    destruct (b_derive cd ca kbpk) as [[kbek kbak]|]; [|discriminate]. cbn [bind].
    destruct (decrypt_cbc cd kbek rm kd) as [ckd|] eqn:D; [|discriminate]. cbn [bind].
    destruct (b_generate_mac cd ca kbak hdr ckd) as [mac|]; [|discriminate]. cbn [bind].
    destruct (negb (list_eqb mac rm)); [discriminate|]. cbn [bind].
    apply extract_key_bytes_ok.
    eapply decrypt_cbc_bytes_ok; [apply (cd_ok _ _ Hcs) | exact Bm | exact Bk | exact D].
  Qed.

  Lemma d_unwrap_bytes_ok kbpk hdr kd rm k : bytes_ok kd = true -> bytes_ok rm = true ->
    d_unwrap cd ca kbpk hdr kd rm = Ok k -> bytes_ok k = true.
  Proof.
    intros Bk Bm. unfold d_unwrap, d_unwrap_clear.
    destruct (negb (mem_nat (length kbpk) [16; 24; 32]%nat)); [discriminate|].
    destruct ((length kd <? 16)%nat || negb (length kd mod 16 =? 0)%nat); [discriminate|].
    destruct (d_derive cd ca kbpk) as [[kbek kbak]|]; [|discriminate]. cbn [bind].
    destruct (decrypt_cbc ca kbek rm kd) as [ckd|] eqn:D; [|discriminate]. cbn [bind].
    destruct (d_generate_mac cd ca kbak hdr ckd) as [mac|]; [|discriminate]. cbn [bind].
    destruct (negb (list_eqb mac rm)); [discriminate|]. cbn [bind].
    apply extract_key_bytes_ok.
    eapply decrypt_cbc_bytes_ok; [apply (ca_ok _ _ Hcs) | exact Bm | exact Bk | exact D].
  Qed.

  Lemma c_unwrap_bytes_ok kbpk hdr kd rm k : bytes_ok kd = true -> bytes_ok rm = true ->
    c_unwrap cd ca kbpk hdr kd rm = Ok k -> bytes_ok k = true.
  Proof.
    intros Bk Bm. unfold c_unwrap, c_unwrap_clear, c_derive.
    destruct (negb (mem_nat (length kbpk) [8; 16; 24]%nat)); [discriminate|].
    destruct ((length kd <? 8)%nat || negb (length kd mod 8 =? 0)%nat); [discriminate|].
    destruct (c_generate_mac cd ca (py_xor kbpk (repeat 77 (length kbpk))) hdr kd) as [mac|];
      [|discriminate]. cbn [bind].
    destruct (negb (list_eqb mac rm)); [discriminate|].
    destruct (encode_ascii hdr) as [hb|] eqn:Hb; [|discriminate]. cbn [bind].
    apply Tr31Codec.encode_ascii_ok in Hb as [-> Bh].
    destruct (decrypt_cbc cd (py_xor kbpk (repeat 69 (length kbpk))) (firstn 8 hdr) kd)
      as [ckd|] eqn:D; [|discriminate]. cbn [bind].
    apply extract_key_bytes_ok.
    eapply decrypt_cbc_bytes_ok; [apply (cd_ok _ _ Hcs) | | exact Bk | exact D].
    apply bytes_ok_firstn. exact Bh.
  Qed.

  Lemma dispatch_bytes_ok v u kbpk hdr kd rm k : unwrap_dispatch cd ca v = Ok u ->
    bytes_ok kd = true -> bytes_ok rm = true -> u kbpk hdr kd rm = Ok k -> bytes_ok k = true.
  Proof.
    unfold unwrap_dispatch. intros H.
    repeat match type of H with
           | match ?x with _ => _ end = _ => destruct x; try discriminate H
           end; injection H as <-;
      first [apply c_unwrap_bytes_ok | apply b_unwrap_bytes_ok | apply d_unwrap_bytes_ok].
  Qed.

  Lemma kb_unwrap_key_bytes_ok kbpk st s h k :
    kb_unwrap cd ca kbpk st s = (h, Ok k) -> bytes_ok k = true.
  Proof.
    unfold kb_unwrap, kb_unwrap_gen.
    destruct (header_load st s) as [h' r]. intros H.
    injection H as _ Hr.
    destruct r as [hl|]; [|discriminate Hr]. cbn [bind] in Hr.
    destruct (negb (ascii_numeric (slice 1 4 s))); [discriminate Hr|].
    destruct (int_of_dec (slice 1 4 s)) as [kbl|]; [|discriminate Hr]. cbn [bind] in Hr.
    destruct (negb (kbl =? lenN s)); [discriminate Hr|].
    destruct (algo_block_size (version_id h')) as [abs|]; [|discriminate Hr]. cbn [bind] in Hr.
    destruct (negb (length s mod abs =? 0)%nat); [discriminate Hr|].
    destruct (key_block_mac_len (version_id h')) as [ml|]; [|discriminate Hr]. cbn [bind] in Hr.
    cbv zeta in Hr.
    destruct (fromhex_kbe (last_n (ml * 2) (skipn hl s))) as [rm|] eqn:Erm; [|discriminate Hr].
    cbn [bind] in Hr.
    destruct (negb (length rm =? ml)%nat); [discriminate Hr|].
    destruct (fromhex_kbe (drop_last (ml * 2) (skipn hl s))) as [kd|] eqn:Ekd; [|discriminate Hr].
    cbn [bind] in Hr.
    destruct (unwrap_dispatch cd ca (version_id h')) as [u|] eqn:Eu; [|discriminate Hr].
    cbn [bind] in Hr.
    eapply dispatch_bytes_ok; [exact Eu | | | exact Hr].
    - eapply fromhex_kbe_bytes_ok. exact Ekd.
    - eapply fromhex_kbe_bytes_ok. exact Erm.
  Qed.

  Theorem unwrap_key_bytes_ok : forall kbpk s h k,
    unwrap cd ca kbpk s = Ok (h, k) -> bytes_ok k = true.
  Proof.
    intros kbpk s h k. unfold unwrap.
    destruct (kb_unwrap cd ca kbpk default_header s) as [h' r] eqn:E.
    destruct r as [k'|e]; cbn [bind]; [|discriminate].
    intros H. injection H as <- <-. eapply kb_unwrap_key_bytes_ok. exact E.
  Qed.

  (* Goal 2: the header-string round trip without a premise on the header *)
  Theorem roundtrip_str_full : forall kbpk hs key mask tape s,
    bytes_ok kbpk = true -> bytes_ok key = true -> bytes_ok tape = true ->
    wrap_str cd ca kbpk hs key mask tape = Ok s ->
    exists h n, header_load default_header hs = (h, Ok n) /\ unwrap cd ca kbpk s = Ok (h, key).
  Proof.
    intros kbpk hs key mask tape s Bk Bkey Bt. unfold wrap_str.
    destruct (header_load default_header hs) as [h r] eqn:E.
    destruct r as [n|e]; cbn [bind]; [|discriminate].
    intros W. exists h, n. split; [reflexivity|].
    apply (roundtrip cd ca Hcs kbpk h key mask tape s); try assumption.
    eapply header_load_ok. exact E.
  Qed.

  (* Goal 3, second half: what unwrap returned wraps again (under any mask and
     any random tape for which the wrap succeeds) to a block that unwraps to
     the same header and key.  No premise on [h] or [k]. *)
  Theorem rewrap_roundtrip : forall kbpk s h k mask tape s',
    bytes_ok kbpk = true -> bytes_ok tape = true ->
    unwrap cd ca kbpk s = Ok (h, k) ->
    kb_wrap cd ca kbpk h k mask tape = Ok s' ->
    unwrap cd ca kbpk s' = Ok (h, k).
  Proof.
    intros kbpk s h k mask tape s' Bk Bt U W.
    apply (roundtrip cd ca Hcs kbpk h k mask tape s'); try assumption.
    - eapply unwrap_returns_header_ok. exact U.
    - eapply unwrap_key_bytes_ok. exact U.
  Qed.
End UnwrapBytes.

Print Assumptions header_load_ok.
Print Assumptions step_success_header_ok.
Print Assumptions unwrap_returns_header_ok.
Print Assumptions unwrap_key_bytes_ok.
Print Assumptions roundtrip_str_full.
Print Assumptions rewrap_roundtrip.
