(* psec.pinblock against Spec/ISO9564.v, through the nibble view of Proofs/HexLemmas.v *)
From Coq Require Import Lia ZifyBool ZifyNat ZifyN.
From Psec Require Import Lib.Base Cipher.Cipher Model.Pinblock.
From Psec Require Import Proofs.XorLemmas Proofs.HexLemmas Spec.ISO9564.
Ltac Zify.zify_post_hook ::= Z.to_euclidean_division_equations.
Open Scope N_scope.

(* ------------------------------------------------------------------ *)
(* list helpers                                                         *)
Lemma firstn_app_exact {A} (a b : list A) n : n = length a -> firstn n (a ++ b) = a.
Proof.
  intros ->. rewrite firstn_app, firstn_all, Nat.sub_diag. cbn [firstn]. apply app_nil_r.
Qed.

Lemma skipn_app_exact {A} (a b : list A) n : n = length a -> skipn n (a ++ b) = b.
Proof.
  intros ->. rewrite skipn_app, skipn_all, Nat.sub_diag. reflexivity.
Qed.

Lemma skipn_skipn_add {A} a b (l : list A) : skipn a (skipn b l) = skipn (b + a) l.
Proof.
  revert l. induction b as [|b IH]; intros [|x l]; cbn [skipn Nat.add]; try reflexivity.
  - apply skipn_nil.
  - apply IH.
Qed.

Lemma Forall_eq_repeat (v : N) l : Forall (fun n => n = v) l -> l = repeat v (length l).
Proof. induction 1 as [|x l Hx _ IH]; [reflexivity|]. cbn [length repeat]. congruence. Qed.

Lemma Forall_repeat {A} (P : A -> Prop) x k : P x -> Forall P (repeat x k).
Proof. intro H. induction k; cbn [repeat]; constructor; assumption. Qed.

Lemma even_14 : Nat.even 14 = true. Proof. reflexivity. Qed.

(* ------------------------------------------------------------------ *)
(* the guards                                                           *)
Lemma digits_eq s : digits s = digit_values s.
Proof. reflexivity. Qed.

Lemma ascii_numeric_Forall s : ascii_numeric s = true <-> Forall (fun c => 48 <= c <= 57) s.
Proof.
  unfold ascii_numeric. rewrite forallb_forall, Forall_forall.
  split; intros H c Hc; specialize (H c Hc); unfold is_digit in *; lia.
Qed.

Lemma bad_pin_false p : bad_pin p = false <-> (4 <= length p <= 12)%nat /\ ascii_numeric p = true.
Proof. unfold bad_pin. destruct (ascii_numeric p); cbn [negb]; lia. Qed.

Lemma bad_pan13_false p : bad_pan13 p = false <-> (13 <= length p)%nat /\ ascii_numeric p = true.
Proof. unfold bad_pan13. destruct (ascii_numeric p); cbn [negb]; lia. Qed.

Theorem pin_ok_iff p : pin_ok p <-> bad_pin p = false.
Proof. unfold pin_ok. rewrite bad_pin_false, ascii_numeric_Forall. reflexivity. Qed.

Lemma decimals_ok_chars d : decimals_ok d = true -> Forall (fun c => 48 <= c <= 57) (digit_chars d).
Proof. intro H. apply ascii_numeric_Forall. rewrite digit_chars_numeric. assumption. Qed.

(* ------------------------------------------------------------------ *)
(* Spec level: shape of the constructions                               *)
Lemma spec_pan_block_shape pan : bad_pan13 pan = false ->
  length (spec_pan_block pan) = 16%nat /\ nibbles_ok (spec_pan_block pan) = true.
Proof.
  intro H. apply bad_pan13_false in H as [Hl Hn]. unfold spec_pan_block. split.
  - rewrite app_length, digits_eq, digit_values_length, firstn_length, skipn_length. cbn [length]. lia.
  - apply nibbles_ok_app. split; [reflexivity|]. rewrite digits_eq. apply digit_values_nibbles_ok.
    apply ascii_numeric_firstn, ascii_numeric_skipn, Hn.
Qed.

Lemma pin_fields_shape c pin fill : c < 16 -> bad_pin pin = false ->
  length fill = (14 - length pin)%nat -> nibbles_ok fill = true ->
  length ([c; lenN pin] ++ digits pin ++ fill) = 16%nat /\
  nibbles_ok ([c; lenN pin] ++ digits pin ++ fill) = true.
Proof.
  intros Hc H Hf Hfo. apply bad_pin_false in H as [Hl Hn]. split.
  - rewrite !app_length, digits_eq, digit_values_length, Hf. cbn [length]. lia.
  - apply nibbles_ok_app. split.
    + apply nibbles_ok_cons. split; [assumption|]. apply nibbles_ok_cons. split; [unfold lenN; lia|reflexivity].
    + apply nibbles_ok_app. split; [|assumption]. rewrite digits_eq. apply digit_values_nibbles_ok, Hn.
Qed.

Lemma spec_pin_block_0_shape pin : bad_pin pin = false ->
  length (spec_pin_block_0 pin) = 16%nat /\ nibbles_ok (spec_pin_block_0 pin) = true.
Proof.
  intro H. apply pin_fields_shape; [lia | assumption | apply repeat_length | apply nibbles_ok_repeat; lia].
Qed.

Lemma spec_pin_block_2_shape pin : bad_pin pin = false ->
  length (spec_pin_block_2 pin) = 16%nat /\ nibbles_ok (spec_pin_block_2 pin) = true.
Proof.
  intro H. apply pin_fields_shape; [lia | assumption | apply repeat_length | apply nibbles_ok_repeat; lia].
Qed.

Lemma spec_pin_block_3_shape pin fill : bad_pin pin = false ->
  (10 <= length fill)%nat -> nibbles_ok fill = true ->
  length (spec_pin_block_3 pin fill) = 16%nat /\ nibbles_ok (spec_pin_block_3 pin fill) = true.
Proof.
  intros H Hl Hf. pose proof H as H'. apply bad_pin_false in H' as [Hp _].
  apply pin_fields_shape; [lia | assumption | rewrite firstn_length; lia | apply nibbles_ok_firstn, Hf].
Qed.

Lemma spec_block_0_shape pin pan : bad_pin pin = false -> bad_pan13 pan = false ->
  length (spec_block_0 pin pan) = 16%nat /\ nibbles_ok (spec_block_0 pin pan) = true.
Proof.
  intros H1 H2. destruct (spec_pin_block_0_shape pin H1). destruct (spec_pan_block_shape pan H2).
  unfold spec_block_0. split; [rewrite xor_pos_length; assumption | apply nibbles_ok_xor_pos; assumption].
Qed.

Lemma spec_block_3_shape pin pan fill : bad_pin pin = false -> bad_pan13 pan = false ->
  (10 <= length fill)%nat -> nibbles_ok fill = true ->
  length (spec_block_3 pin pan fill) = 16%nat /\ nibbles_ok (spec_block_3 pin pan fill) = true.
Proof.
  intros H1 H2 H3 H4. destruct (spec_pin_block_3_shape pin fill H1 H3 H4). destruct (spec_pan_block_shape pan H2).
  unfold spec_block_3. split; [rewrite xor_pos_length; assumption | apply nibbles_ok_xor_pos; assumption].
Qed.

(* a constructed block is well formed for its PIN *)
Lemma wf_fields_build ctrl (fillP : N -> Prop) p fill rest :
  pin_ok p -> length fill = (14 - length p)%nat -> Forall fillP fill ->
  wf_fields ctrl fillP ([ctrl; lenN p] ++ digits p ++ fill ++ rest) p.
Proof.
  intros Hp Hl Hf. unfold wf_fields. split; [assumption|]. split; [reflexivity|]. split; [reflexivity|].
  assert (Ld : length (digits p) = length p) by apply map_length.
  split.
  - cbn [app skipn]. apply firstn_app_exact. auto.
  - change (2 + length p)%nat with (S (S (length p))). cbn [app skipn].
    rewrite skipn_app_exact by auto. rewrite firstn_app_exact by auto. assumption.
Qed.

(* and conversely a well-formed block is such a construction *)
Lemma wf_fields_inv ctrl (fillP : N -> Prop) ns p : (16 <= length ns)%nat ->
  wf_fields ctrl fillP ns p ->
  exists fill, ns = [ctrl; lenN p] ++ digits p ++ fill ++ skipn 16 ns /\
               length fill = (14 - length p)%nat /\ Forall fillP fill.
Proof.
  intros Hlen ((Hl & Hall) & Hc & Hn & Hd & Hf).
  destruct ns as [|n0 [|n1 t]]; cbn [length] in Hlen; try lia.
  cbn [nth] in Hc, Hn. subst n0 n1. cbn [skipn] in Hd.
  change (2 + length p)%nat with (S (S (length p))) in Hf. cbn [skipn] in Hf.
  exists (firstn (14 - length p) (skipn (length p) t)). split; [|split].
  - cbn [app]. f_equal. f_equal. rewrite <- Hd.
    change (skipn 16 (ctrl :: lenN p :: t)) with (skipn 14 t).
    replace (skipn 14 t) with (skipn (14 - length p) (skipn (length p) t))
      by (rewrite skipn_skipn_add; f_equal; lia).
    rewrite (firstn_skipn (14 - length p)). rewrite firstn_skipn. reflexivity.
  - rewrite firstn_length, skipn_length. lia.
  - assumption.
Qed.

Lemma wf_fields_prefix ctrl fillP ns p : (16 <= length ns)%nat -> wf_fields ctrl fillP ns p ->
  firstn (2 + length p) ns = [ctrl; lenN p] ++ digits p.
Proof.
  intros Hlen H. destruct (wf_fields_inv _ _ _ _ Hlen H) as (fill & E & _ & _).
  rewrite E at 1. rewrite app_assoc. apply firstn_app_exact.
  rewrite app_length, digits_eq, digit_values_length. reflexivity.
Qed.

Theorem wf0_spec ns p : wf0 ns p <-> pin_ok p /\ ns = spec_pin_block_0 p.
Proof.
  split.
  - intros [Hlen H]. split; [apply H|].
    assert (H16 : (16 <= length ns)%nat) by lia.
    destruct (wf_fields_inv _ _ _ _ H16 H) as (fill & E & Lf & Ff).
    rewrite skipn_all2 in E by lia. rewrite app_nil_r in E.
    apply Forall_eq_repeat in Ff. rewrite Lf in Ff. rewrite E, Ff. reflexivity.
  - intros [Hp ->]. split.
    + apply spec_pin_block_0_shape. apply pin_ok_iff. assumption.
    + unfold spec_pin_block_0. rewrite <- (app_nil_r (repeat _ _)).
      apply wf_fields_build; [assumption | apply repeat_length | apply Forall_repeat; reflexivity].
Qed.

Theorem wf2_spec ns p : wf2 ns p <-> pin_ok p /\ ns = spec_pin_block_2 p.
Proof.
  split.
  - intros [Hlen H]. split; [apply H|].
    assert (H16 : (16 <= length ns)%nat) by lia.
    destruct (wf_fields_inv _ _ _ _ H16 H) as (fill & E & Lf & Ff).
    rewrite skipn_all2 in E by lia. rewrite app_nil_r in E.
    apply Forall_eq_repeat in Ff. rewrite Lf in Ff. rewrite E, Ff. reflexivity.
  - intros [Hp ->]. split.
    + apply spec_pin_block_2_shape. apply pin_ok_iff. assumption.
    + unfold spec_pin_block_2. rewrite <- (app_nil_r (repeat _ _)).
      apply wf_fields_build; [assumption | apply repeat_length | apply Forall_repeat; reflexivity].
Qed.

Theorem wf3_spec ns p : wf3 ns p <->
  pin_ok p /\ exists fill, length fill = (14 - length p)%nat /\ Forall (fun n => 10 <= n <= 15) fill /\
                           ns = spec_pin_block_3 p fill.
Proof.
  split.
  - intros [Hlen H]. split; [apply H|].
    assert (H16 : (16 <= length ns)%nat) by lia.
    destruct (wf_fields_inv _ _ _ _ H16 H) as (fill & E & Lf & Ff).
    rewrite skipn_all2 in E by lia. rewrite app_nil_r in E.
    exists fill. split; [assumption|]. split; [assumption|].
    unfold spec_pin_block_3. rewrite <- Lf, firstn_all. assumption.
  - intros (Hp & fill & Lf & Ff & ->). unfold spec_pin_block_3. rewrite <- Lf, firstn_all. split.
    + apply pin_fields_shape; [lia | apply pin_ok_iff; assumption | assumption |].
      apply nibbles_ok_Forall. eapply Forall_impl; [|exact Ff]. cbv beta. intros; lia.
    + rewrite <- (app_nil_r fill). apply wf_fields_build; assumption.
Qed.

Theorem wf4_spec ns p : wf4 ns p <->
  pin_ok p /\ exists tape, length tape = 16%nat /\ ns = spec_pin_field_4 p tape.
Proof.
  split.
  - intros [Hlen H]. split; [apply H|].
    assert (H16 : (16 <= length ns)%nat) by lia.
    destruct (wf_fields_inv _ _ _ _ H16 H) as (fill & E & Lf & Ff).
    exists (skipn 16 ns). split; [rewrite skipn_length; lia|].
    apply Forall_eq_repeat in Ff. rewrite Lf in Ff. rewrite E at 1. rewrite Ff. reflexivity.
  - intros (Hp & tape & Lt & ->). unfold spec_pin_field_4. split.
    + destruct Hp as [Hl _]. rewrite !app_length, digits_eq, digit_values_length, repeat_length, Lt.
      cbn [length]. lia.
    + apply wf_fields_build; [assumption | apply repeat_length | apply Forall_repeat; reflexivity].
Qed.

(* ------------------------------------------------------------------ *)
(* the decoders on nibbles                                              *)
Definition decode_nibbles (k : N) (fillb : list N -> nat -> bool) (ns : list N) : res str :=
  match ns with
  | n0 :: n1 :: t =>
      if negb (n0 =? k) then Err ValueError
      else if (n1 <? 4) || (12 <? n1) then Err ValueError
      else
        let pl := N.to_nat n1 in
        if negb (fillb (firstn (14 - pl) (skipn pl t)) pl) then Err ValueError
        else
          let d := firstn pl t in
          if negb (decimals_ok d) then Err ValueError else Ok (digit_chars d)
  | _ => Err (Crash CIndex)
  end.

Definition fillb_is (v : N) (f : list N) (pl : nat) : bool := list_eqb f (repeat v (14 - pl)).
Definition fillb_af (f : list N) (pl : nat) : bool := forallb (fun n => 10 <=? n) f.

Lemma decode_body_nibbles k fill_ok fillb ns :
  k < 16 -> (2 <= length ns)%nat -> nibbles_ok ns = true ->
  (forall f pl, nibbles_ok f = true -> fill_ok (map hexdigit_upper f) pl = fillb f pl) ->
  decode_body (hexdigit_upper k) fill_ok 16 (map hexdigit_upper ns) = decode_nibbles k fillb ns.
Proof.
  intros Hk Hlen Hns Hfill. destruct ns as [|n0 [|n1 t]]; cbn [length] in Hlen; try lia.
  apply nibbles_ok_cons in Hns as [H0 Hns]. apply nibbles_ok_cons in Hns as [H1 Ht].
  unfold decode_body, decode_nibbles, index. cbn [map nth_error bind].
  rewrite hexdigit_upper_eqb by assumption.
  destruct (n0 =? k); cbn [negb]; [|reflexivity].
  rewrite int_of_hex_hexdigit_upper by assumption. cbn [bind].
  destruct ((n1 <? 4) || (12 <? n1)); [reflexivity|].
  cbv zeta.
  replace (N.to_nat n1 + 2)%nat with (S (S (N.to_nat n1))) by lia.
  replace (16 - S (S (N.to_nat n1)))%nat with (14 - N.to_nat n1)%nat by lia.
  unfold slice. cbn [skipn]. rewrite !skipn_map, !firstn_map.
  rewrite Hfill by (apply nibbles_ok_firstn, nibbles_ok_skipn; assumption).
  destruct (fillb _ _); cbn [negb]; [|reflexivity].
  rewrite ascii_numeric_map_hexdigit_upper by (apply nibbles_ok_firstn; assumption).
  destruct (decimals_ok _) eqn:E; cbn [negb]; [|reflexivity].
  rewrite map_hexdigit_upper_decimals by assumption. reflexivity.
Qed.

Lemma list_eqb_map_upper a b : nibbles_ok a = true -> nibbles_ok b = true ->
  list_eqb (map hexdigit_upper a) (map hexdigit_upper b) = list_eqb a b.
Proof.
  revert b. induction a as [|x a IH]; intros [|y b] Ha Hb; try reflexivity.
  apply nibbles_ok_cons in Ha as [Hx Ha]. apply nibbles_ok_cons in Hb as [Hy Hb].
  cbn [map list_eqb]. rewrite hexdigit_upper_eqb, IH by assumption. reflexivity.
Qed.

Lemma fill_is_nibbles v f pl : v < 16 -> nibbles_ok f = true ->
  fill_is (hexdigit_upper v) (map hexdigit_upper f) pl = fillb_is v f pl.
Proof.
  intros Hv Hf. unfold fill_is, fillb_is. rewrite <- (map_repeat hexdigit_upper).
  apply list_eqb_map_upper; [assumption | apply nibbles_ok_repeat; assumption].
Qed.

Lemma fill_af_nibbles f pl : nibbles_ok f = true -> fill_af (map hexdigit_upper f) pl = fillb_af f pl.
Proof.
  unfold fill_af, fillb_af. induction f as [|x f IH]; intro H; [reflexivity|].
  apply nibbles_ok_cons in H as [Hx H]. cbn [map forallb].
  rewrite is_AF_hexdigit_upper, IH by assumption. reflexivity.
Qed.

Lemma fillb_is_spec v f pl : length f = (14 - pl)%nat ->
  (fillb_is v f pl = true <-> Forall (fun n => n = v) f).
Proof.
  intro L. unfold fillb_is. rewrite list_eqb_eq. split.
  - intros ->. apply Forall_repeat. reflexivity.
  - intro H. apply Forall_eq_repeat in H. rewrite L in H. assumption.
Qed.

Lemma fillb_af_spec f pl : nibbles_ok f = true ->
  (fillb_af f pl = true <-> Forall (fun n => 10 <= n <= 15) f).
Proof.
  intro Hf. unfold fillb_af. rewrite forallb_forall, Forall_forall.
  split; intros H x Hx; specialize (H x Hx); pose proof (nibbles_ok_In f x Hf Hx); lia.
Qed.

(* decode_nibbles accepts exactly the well-formed blocks *)
Lemma decode_nibbles_iff k fillb (fillP : N -> Prop) ns p :
  (16 <= length ns)%nat -> nibbles_ok ns = true ->
  (forall f pl, nibbles_ok f = true -> length f = (14 - pl)%nat -> (fillb f pl = true <-> Forall fillP f)) ->
  (decode_nibbles k fillb ns = Ok p <-> wf_fields k fillP ns p).
Proof.
  intros Hlen Hns Hfill. destruct ns as [|n0 [|n1 t]]; cbn [length] in Hlen; try lia.
  apply nibbles_ok_cons in Hns as [H0 Hns]. apply nibbles_ok_cons in Hns as [H1 Ht].
  unfold decode_nibbles, wf_fields. cbn [nth skipn].
  change (2 + length p)%nat with (S (S (length p))). cbn [skipn].
  split.
  - destruct (N.eqb_spec n0 k) as [->|]; cbn [negb]; [|discriminate].
    destruct ((n1 <? 4) || (12 <? n1)) eqn:E1; [discriminate|].
    cbv zeta. set (pl := N.to_nat n1).
    destruct (fillb _ pl) eqn:E2; cbn [negb]; [|discriminate].
    destruct (decimals_ok _) eqn:E3; cbn [negb]; [|discriminate].
    intro H. injection H as <-.
    assert (Lp : length (digit_chars (firstn pl t)) = pl).
    { rewrite digit_chars_length, firstn_length. lia. }
    rewrite Lp. split; [|split; [|split; [|split]]].
    + split; [rewrite Lp; lia | apply decimals_ok_chars; assumption].
    + reflexivity.
    + unfold lenN. rewrite Lp. lia.
    + rewrite digits_eq, digit_values_chars. reflexivity.
    + apply (Hfill _ pl); [apply nibbles_ok_firstn, nibbles_ok_skipn, Ht | | assumption].
      rewrite firstn_length, skipn_length. lia.
  - intros ((Hl & Hall) & -> & -> & Hd & Hf). rewrite N.eqb_refl. cbn [negb].
    destruct ((lenN p <? 4) || (12 <? lenN p)) eqn:E1; [unfold lenN in E1; lia|].
    cbv zeta. replace (N.to_nat (lenN p)) with (length p) by (unfold lenN; lia).
    apply ascii_numeric_Forall in Hall.
    assert (E2 : fillb (firstn (14 - length p) (skipn (length p) t)) (length p) = true).
    { apply (Hfill _ (length p)); [apply nibbles_ok_firstn, nibbles_ok_skipn, Ht | | assumption].
      rewrite firstn_length, skipn_length. lia. }
    rewrite E2, Hd, digits_eq, digit_values_decimal by assumption. cbn [negb].
    rewrite digit_chars_values by assumption. reflexivity.
Qed.

(* ... and rejects every other block with ValueError *)
Definition ok_or_value_error (r : res str) : Prop := (exists p, r = Ok p) \/ r = Err ValueError.

Lemma decode_nibbles_total k fillb ns : (2 <= length ns)%nat -> ok_or_value_error (decode_nibbles k fillb ns).
Proof.
  intros Hlen. destruct ns as [|n0 [|n1 t]]; cbn [length] in Hlen; try lia.
  unfold decode_nibbles, ok_or_value_error.
  destruct (negb (n0 =? k)); [right; reflexivity|].
  destruct ((n1 <? 4) || (12 <? n1)); [right; reflexivity|].
  cbv zeta. destruct (negb (fillb _ _)); [right; reflexivity|].
  destruct (negb (decimals_ok _)); [right; reflexivity|]. left. eexists. reflexivity.
Qed.

Lemma iff_total_reject (r : res str) (W : str -> Prop) :
  (forall p, r = Ok p <-> W p) -> ok_or_value_error r -> (forall p, ~ W p) -> r = Err ValueError.
Proof. intros Hiff [[p Hp]|He] Hn; [|assumption]. exfalso. apply (Hn p). apply Hiff. assumption. Qed.

(* the control nibble alone *)
Lemma decode_nibbles_ctrl k fillb ns p : decode_nibbles k fillb ns = Ok p -> nth 0 ns 16 = k.
Proof.
  destruct ns as [|n0 [|n1 t]]; try discriminate. unfold decode_nibbles.
  destruct (N.eqb_spec n0 k) as [->|]; cbn [negb]; [reflexivity | discriminate].
Qed.

Lemma decode_nibbles_wrong_ctrl k fillb ns : (2 <= length ns)%nat -> nth 0 ns 16 <> k ->
  decode_nibbles k fillb ns = Err ValueError.
Proof.
  intros Hlen. destruct ns as [|n0 [|n1 t]]; cbn [length] in Hlen; try lia. cbn [nth]. intro H.
  unfold decode_nibbles. destruct (N.eqb_spec n0 k); [contradiction | reflexivity].
Qed.

(* ------------------------------------------------------------------ *)
(* the account number block                                             *)
Lemma pan_slice (pan : str) : (13 <= length pan)%nat ->
  drop_last 1 (last_n 13 pan) = firstn 12 (skipn (length pan - 13) pan).
Proof.
  intro H. unfold drop_last, last_n. rewrite skipn_length. f_equal. lia.
Qed.

Lemma pan_block_spec pan : bad_pan13 pan = false ->
  pan_block pan = Ok (bytes_of_nibbles (spec_pan_block pan)).
Proof.
  intro H. apply bad_pan13_false in H as [Hl Hn]. unfold pan_block. rewrite pan_slice by assumption.
  rewrite a2b_hex_decimal.
  - reflexivity.
  - apply ascii_numeric_firstn, ascii_numeric_skipn, Hn.
  - rewrite firstn_length, skipn_length. replace (Nat.min 12 (length pan - (length pan - 13))) with 12%nat by lia.
    reflexivity.
Qed.

Lemma pan_block_bytes pan : bad_pan13 pan = false ->
  length (bytes_of_nibbles (spec_pan_block pan)) = 8%nat /\
  bytes_ok (bytes_of_nibbles (spec_pan_block pan)) = true /\
  nibbles_of_bytes (bytes_of_nibbles (spec_pan_block pan)) = spec_pan_block pan.
Proof.
  intro H. destruct (spec_pan_block_shape pan H) as [L O]. split; [|split].
  - rewrite bytes_of_nibbles_length, L. reflexivity.
  - apply bytes_of_nibbles_ok, O.
  - apply nibbles_of_bytes_of_nibbles; [assumption | rewrite L; reflexivity].
Qed.

(* ------------------------------------------------------------------ *)
(* the four decoders in terms of decode_nibbles                         *)
Lemma decode_masked_nibbles ctrl fill_ok fillb b pan : ctrl < 16 ->
  bad_pan13 pan = false -> length b = 8%nat -> bytes_ok b = true ->
  (forall f pl, nibbles_ok f = true -> fill_ok (map hexdigit_upper f) pl = fillb f pl) ->
  (do pb <- pan_block pan; decode_body (hexdigit_upper ctrl) fill_ok 16 (hex_upper (py_xor b pb))) =
  decode_nibbles ctrl fillb (xor_pos (nibbles_of_bytes b) (spec_pan_block pan)).
Proof.
  intros Hc Hpan Hlen Hb Hfill. rewrite pan_block_spec by assumption. cbn [bind].
  destruct (pan_block_bytes pan Hpan) as (L & O & E). destruct (spec_pan_block_shape pan Hpan) as [L' O'].
  rewrite py_xor_is_bytewise by assumption.
  rewrite hex_upper_nibbles, nibbles_of_bytes_xor_pos, E.
  apply decode_body_nibbles; try assumption.
  - rewrite xor_pos_length, nibbles_of_bytes_length. lia.
  - apply nibbles_ok_xor_pos; [apply nibbles_of_bytes_ok|]; assumption.
Qed.

Lemma decode0_nibbles b pan : bad_pan13 pan = false -> length b = 8%nat -> bytes_ok b = true ->
  decode_pinblock_iso_0 b pan =
  decode_nibbles 0 (fillb_is 15) (xor_pos (nibbles_of_bytes b) (spec_pan_block pan)).
Proof.
  intros Hpan Hlen Hb. unfold decode_pinblock_iso_0. rewrite Hpan, Hlen. cbn [Nat.eqb negb].
  change 48 with (hexdigit_upper 0). change chF with (hexdigit_upper 15).
  apply decode_masked_nibbles; try assumption; [lia|].
  intros f pl Hf. apply fill_is_nibbles; [lia | assumption].
Qed.

Lemma decode3_nibbles b pan : bad_pan13 pan = false -> length b = 8%nat -> bytes_ok b = true ->
  decode_pinblock_iso_3 b pan =
  decode_nibbles 3 fillb_af (xor_pos (nibbles_of_bytes b) (spec_pan_block pan)).
Proof.
  intros Hpan Hlen Hb. unfold decode_pinblock_iso_3. rewrite Hpan, Hlen. cbn [Nat.eqb negb].
  change 51 with (hexdigit_upper 3).
  apply decode_masked_nibbles; try assumption; [lia|].
  intros f pl Hf. apply fill_af_nibbles; assumption.
Qed.

Lemma decode2_nibbles b : length b = 8%nat -> bytes_ok b = true ->
  decode_pinblock_iso_2 b = decode_nibbles 2 (fillb_is 15) (nibbles_of_bytes b).
Proof.
  intros Hlen Hb. unfold decode_pinblock_iso_2. rewrite Hlen. cbn [Nat.eqb negb].
  change 50 with (hexdigit_upper 2). change chF with (hexdigit_upper 15). rewrite hex_upper_nibbles.
  apply decode_body_nibbles; [lia | rewrite nibbles_of_bytes_length; lia | apply nibbles_of_bytes_ok, Hb |].
  intros f pl Hf. apply fill_is_nibbles; [lia | assumption].
Qed.

Lemma decode4_nibbles b : length b = 16%nat -> bytes_ok b = true ->
  decode_pin_field_iso_4 b = decode_nibbles 4 (fillb_is 10) (nibbles_of_bytes b).
Proof.
  intros Hlen Hb. unfold decode_pin_field_iso_4. rewrite Hlen. cbn [Nat.eqb negb].
  change 52 with (hexdigit_upper 4). change chA with (hexdigit_upper 10). rewrite hex_upper_nibbles.
  apply decode_body_nibbles; [lia | rewrite nibbles_of_bytes_length; lia | apply nibbles_of_bytes_ok, Hb |].
  intros f pl Hf. apply fill_is_nibbles; [lia | assumption].
Qed.

(* masked block facts *)
Lemma masked_shape b pan : bad_pan13 pan = false -> length b = 8%nat -> bytes_ok b = true ->
  length (xor_pos (nibbles_of_bytes b) (spec_pan_block pan)) = 16%nat /\
  nibbles_ok (xor_pos (nibbles_of_bytes b) (spec_pan_block pan)) = true.
Proof.
  intros Hpan Hlen Hb. destruct (spec_pan_block_shape pan Hpan) as [L' O']. split.
  - rewrite xor_pos_length, nibbles_of_bytes_length. lia.
  - apply nibbles_ok_xor_pos; [apply nibbles_of_bytes_ok|]; assumption.
Qed.

(* ------------------------------------------------------------------ *)
(* C06: the decoders accept exactly the well-formed blocks              *)
Theorem decode0_iff b pan p : length b = 8%nat -> bytes_ok b = true -> bad_pan13 pan = false ->
  (decode_pinblock_iso_0 b pan = Ok p <->
   wf0 (xor_pos (nibbles_of_bytes b) (spec_pan_block pan)) p).
Proof.
  intros Hlen Hb Hpan. destruct (masked_shape b pan Hpan Hlen Hb) as [L O].
  rewrite decode0_nibbles by assumption. unfold wf0.
  rewrite (decode_nibbles_iff 0 (fillb_is 15) (fun n => n = 15)); [tauto | lia | assumption |].
  intros f pl _ Lf. apply fillb_is_spec. assumption.
Qed.

Theorem decode3_iff b pan p : length b = 8%nat -> bytes_ok b = true -> bad_pan13 pan = false ->
  (decode_pinblock_iso_3 b pan = Ok p <->
   wf3 (xor_pos (nibbles_of_bytes b) (spec_pan_block pan)) p).
Proof.
  intros Hlen Hb Hpan. destruct (masked_shape b pan Hpan Hlen Hb) as [L O].
  rewrite decode3_nibbles by assumption. unfold wf3.
  rewrite (decode_nibbles_iff 3 fillb_af (fun n => 10 <= n <= 15)); [tauto | lia | assumption |].
  intros f pl Hf _. apply fillb_af_spec. assumption.
Qed.

Theorem decode2_iff b p : length b = 8%nat -> bytes_ok b = true ->
  (decode_pinblock_iso_2 b = Ok p <-> wf2 (nibbles_of_bytes b) p).
Proof.
  intros Hlen Hb. rewrite decode2_nibbles by assumption. unfold wf2.
  pose proof (nibbles_of_bytes_length b) as L.
  rewrite (decode_nibbles_iff 2 (fillb_is 15) (fun n => n = 15));
    [intuition lia | lia | apply nibbles_of_bytes_ok, Hb |].
  intros f pl _ Lf. apply fillb_is_spec. assumption.
Qed.

Theorem decode4_iff b p : length b = 16%nat -> bytes_ok b = true ->
  (decode_pin_field_iso_4 b = Ok p <-> wf4 (nibbles_of_bytes b) p).
Proof.
  intros Hlen Hb. rewrite decode4_nibbles by assumption. unfold wf4.
  pose proof (nibbles_of_bytes_length b) as L.
  rewrite (decode_nibbles_iff 4 (fillb_is 10) (fun n => n = 10));
    [intuition lia | lia | apply nibbles_of_bytes_ok, Hb |].
  intros f pl _ Lf. apply fillb_is_spec. assumption.
Qed.

(* totality: a PIN or ValueError, whatever the arguments (bytes_ok is the model's
   notion of "is a bytes object") *)
Theorem decode0_total b pan : bytes_ok b = true -> ok_or_value_error (decode_pinblock_iso_0 b pan).
Proof.
  intro Hb. destruct (bad_pan13 pan) eqn:Hpan; [right; unfold decode_pinblock_iso_0; rewrite Hpan; reflexivity|].
  destruct (Nat.eqb_spec (length b) 8) as [Hlen|Hlen].
  - rewrite decode0_nibbles by assumption. apply decode_nibbles_total.
    destruct (masked_shape b pan Hpan Hlen Hb). lia.
  - right. unfold decode_pinblock_iso_0. rewrite Hpan. apply Nat.eqb_neq in Hlen. rewrite Hlen. reflexivity.
Qed.

Theorem decode3_total b pan : bytes_ok b = true -> ok_or_value_error (decode_pinblock_iso_3 b pan).
Proof.
  intro Hb. destruct (bad_pan13 pan) eqn:Hpan; [right; unfold decode_pinblock_iso_3; rewrite Hpan; reflexivity|].
  destruct (Nat.eqb_spec (length b) 8) as [Hlen|Hlen].
  - rewrite decode3_nibbles by assumption. apply decode_nibbles_total.
    destruct (masked_shape b pan Hpan Hlen Hb). lia.
  - right. unfold decode_pinblock_iso_3. rewrite Hpan. apply Nat.eqb_neq in Hlen. rewrite Hlen. reflexivity.
Qed.

Theorem decode2_total b : bytes_ok b = true -> ok_or_value_error (decode_pinblock_iso_2 b).
Proof.
  intro Hb. destruct (Nat.eqb_spec (length b) 8) as [Hlen|Hlen].
  - rewrite decode2_nibbles by assumption. apply decode_nibbles_total.
    rewrite nibbles_of_bytes_length. lia.
  - right. unfold decode_pinblock_iso_2. apply Nat.eqb_neq in Hlen. rewrite Hlen. reflexivity.
Qed.

Theorem decode4_total b : bytes_ok b = true -> ok_or_value_error (decode_pin_field_iso_4 b).
Proof.
  intro Hb. destruct (Nat.eqb_spec (length b) 16) as [Hlen|Hlen].
  - rewrite decode4_nibbles by assumption. apply decode_nibbles_total.
    rewrite nibbles_of_bytes_length. lia.
  - right. unfold decode_pin_field_iso_4. apply Nat.eqb_neq in Hlen. rewrite Hlen. reflexivity.
Qed.

(* ------------------------------------------------------------------ *)
(* the encoders                                                         *)
Lemma to_bytes_be_1 v : v < 256 -> to_bytes_be 1 v = Ok [v].
Proof.
  intro H. unfold to_bytes_be. change (256 ^ N.of_nat 1) with 256.
  destruct (N.ltb_spec v 256); [|lia]. unfold be_bytes. cbn [le_bytes rev app].
  rewrite N.mod_small by assumption. reflexivity.
Qed.

Lemma forallb_firstn {A} (f : A -> bool) k l : forallb f l = true -> forallb f (firstn k l) = true.
Proof.
  rewrite !forallb_forall. intros H x Hx. apply H. rewrite <- (firstn_skipn k l). apply in_or_app. auto.
Qed.

Lemma even_length_16 {A} (l : list A) : length l = 16%nat -> Nat.even (length l) = true.
Proof. intros ->. reflexivity. Qed.
Lemma even_length_32 {A} (l : list A) : length l = 32%nat -> Nat.even (length l) = true.
Proof. intros ->. reflexivity. Qed.

(* PIN digits followed by [14 - L] fill characters *)
Lemma encode_body pin fillchars fillnibs : bad_pin pin = false ->
  unhex_as fillchars fillnibs -> length fillnibs = (14 - length pin)%nat ->
  a2b_hex (pin ++ fillchars) = Ok (bytes_of_nibbles (digits pin ++ fillnibs)).
Proof.
  intros Hp Hu Hl. apply bad_pin_false in Hp as [Hlen Hn].
  apply a2b_hex_nibbles.
  - apply unhex_as_app; [apply unhex_as_decimal, Hn | assumption].
  - rewrite app_length, digits_eq, digit_values_length, Hl.
    replace (length pin + (14 - length pin))%nat with 14%nat by lia. reflexivity.
Qed.

Lemma py_xor_bytes_of_nibbles S P :
  nibbles_ok S = true -> nibbles_ok P = true ->
  Nat.even (length S) = true -> Nat.even (length P) = true ->
  py_xor (bytes_of_nibbles S) (bytes_of_nibbles P) = bytes_of_nibbles (xor_pos S P).
Proof.
  intros HS HP ES EP.
  rewrite py_xor_is_bytewise by (apply bytes_of_nibbles_ok; assumption).
  apply nibbles_of_bytes_inj. rewrite nibbles_of_bytes_xor_pos.
  rewrite (nibbles_of_bytes_of_nibbles S), (nibbles_of_bytes_of_nibbles P) by assumption.
  rewrite nibbles_of_bytes_of_nibbles; [reflexivity | apply nibbles_ok_xor_pos; assumption |].
  rewrite xor_pos_length. assumption.
Qed.

Lemma lenN_pin_small pin : bad_pin pin = false -> 4 <= lenN pin <= 12.
Proof. intro H. apply bad_pin_false in H as [H _]. unfold lenN. lia. Qed.

Theorem encode2_spec pin : bad_pin pin = false ->
  encode_pinblock_iso_2 pin = Ok (bytes_of_nibbles (spec_pin_block_2 pin)).
Proof.
  intro Hp. pose proof (lenN_pin_small pin Hp) as HL.
  unfold encode_pinblock_iso_2. rewrite Hp. rewrite to_bytes_be_1 by lia. cbn [bind].
  rewrite (encode_body pin (repeat chF (14 - length pin)) (repeat 15 (14 - length pin)));
    [| assumption | apply unhex_as_repeat; reflexivity | apply repeat_length].
  cbn [bind]. unfold spec_pin_block_2. cbn [app]. rewrite bytes_of_nibbles_cons2.
  f_equal. f_equal. lia.
Qed.

Theorem encode0_spec pin pan : bad_pin pin = false -> bad_pan13 pan = false ->
  encode_pinblock_iso_0 pin pan = Ok (bytes_of_nibbles (spec_block_0 pin pan)).
Proof.
  intros Hp Hpan. pose proof (lenN_pin_small pin Hp) as HL.
  unfold encode_pinblock_iso_0. rewrite Hp, Hpan. rewrite to_bytes_be_1 by lia. cbn [bind].
  rewrite (encode_body pin (repeat chF (14 - length pin)) (repeat 15 (14 - length pin)));
    [| assumption | apply unhex_as_repeat; reflexivity | apply repeat_length].
  cbn [bind]. rewrite pan_block_spec by assumption. cbn [bind].
  change ([lenN pin] ++ bytes_of_nibbles (digits pin ++ repeat 15 (14 - length pin)))
    with (bytes_of_nibbles (spec_pin_block_0 pin)).
  destruct (spec_pin_block_0_shape pin Hp) as [L1 O1]. destruct (spec_pan_block_shape pan Hpan) as [L2 O2].
  rewrite py_xor_bytes_of_nibbles; try assumption; try (apply even_length_16; assumption).
  reflexivity.
Qed.

Definition AF_ok (choices : str) : Prop := Forall (fun c => 65 <= c <= 70) choices.
(* nibble values of the fill symbols 'A'..'F' *)
Definition AF_values (choices : str) : list N := map (fun c => c - 55) choices.

Lemma AF_ok_forallb choices : AF_ok choices -> forallb (fun c => (65 <=? c) && (c <=? 70)) choices = true.
Proof.
  unfold AF_ok. rewrite Forall_forall, forallb_forall. intros H c Hc. specialize (H c Hc). lia.
Qed.

Lemma AF_values_shape choices : AF_ok choices ->
  length (AF_values choices) = length choices /\ nibbles_ok (AF_values choices) = true /\
  Forall (fun n => 10 <= n <= 15) (AF_values choices).
Proof.
  intro H. unfold AF_values. split; [apply map_length|].
  assert (F : Forall (fun n => 10 <= n <= 15) (map (fun c => c - 55) choices)).
  { unfold AF_ok in H. rewrite Forall_forall in *. intros n Hn. apply in_map_iff in Hn as (c & <- & Hc).
    specialize (H c Hc). cbv beta in H. lia. }
  split; [|assumption]. apply nibbles_ok_Forall. eapply Forall_impl; [|exact F]. cbv beta. intros; lia.
Qed.

Theorem encode3_spec pin pan choices : bad_pin pin = false -> bad_pan13 pan = false ->
  length choices = 10%nat -> AF_ok choices ->
  encode_pinblock_iso_3 pin pan choices = Ok (bytes_of_nibbles (spec_block_3 pin pan (AF_values choices))).
Proof.
  intros Hp Hpan Lc Hc. pose proof (lenN_pin_small pin Hp) as HL.
  pose proof Hp as Hp'. apply bad_pin_false in Hp' as [Hlen _].
  destruct (AF_values_shape choices Hc) as (La & Oa & Fa).
  unfold encode_pinblock_iso_3. rewrite Hp, Hpan. rewrite to_bytes_be_1 by lia. cbn [bind].
  rewrite (encode_body pin (firstn (14 - length pin) choices) (firstn (14 - length pin) (AF_values choices)));
    [| assumption | | rewrite firstn_length; lia].
  2:{ unfold AF_values. rewrite firstn_map. apply unhex_as_AF. apply forallb_firstn, AF_ok_forallb, Hc. }
  cbn [bind]. rewrite pan_block_spec by assumption. cbn [bind].
  replace ([lenN pin + 48] ++ bytes_of_nibbles (digits pin ++ firstn (14 - length pin) (AF_values choices)))
    with (bytes_of_nibbles (spec_pin_block_3 pin (AF_values choices))).
  2:{ unfold spec_pin_block_3. cbn [app]. rewrite bytes_of_nibbles_cons2. f_equal. lia. }
  destruct (spec_pin_block_3_shape pin (AF_values choices) Hp ltac:(lia) Oa) as [L1 O1].
  destruct (spec_pan_block_shape pan Hpan) as [L2 O2].
  rewrite py_xor_bytes_of_nibbles; try assumption; try (apply even_length_16; assumption).
  reflexivity.
Qed.

(* format 4 fields *)
Lemma spec_pin_field_4_shape pin tn : bad_pin pin = false -> length tn = 16%nat -> nibbles_ok tn = true ->
  length (spec_pin_field_4 pin tn) = 32%nat /\ nibbles_ok (spec_pin_field_4 pin tn) = true.
Proof.
  intros Hp Lt Ot. unfold spec_pin_field_4.
  destruct (pin_fields_shape 4 pin (repeat 10 (14 - length pin)) ltac:(lia) Hp (repeat_length _ _)
              (nibbles_ok_repeat 10 _ ltac:(lia))) as [L O].
  assert (E : [4; lenN pin] ++ digits pin ++ repeat 10 (14 - length pin) ++ tn =
              ([4; lenN pin] ++ digits pin ++ repeat 10 (14 - length pin)) ++ tn)
    by (rewrite <- !app_assoc; reflexivity).
  rewrite E. split.
  - rewrite app_length, L, Lt. reflexivity.
  - apply nibbles_ok_app. split; assumption.
Qed.

Theorem encode_pin_field4_spec pin tape8 : bad_pin pin = false -> length tape8 = 8%nat -> bytes_ok tape8 = true ->
  encode_pin_field_iso_4 pin tape8 = Ok (bytes_of_nibbles (spec_pin_field_4 pin (nibbles_of_bytes tape8))).
Proof.
  intros Hp Lt Ot. pose proof (lenN_pin_small pin Hp) as HL.
  pose proof Hp as Hp'. apply bad_pin_false in Hp' as [Hlen Hn].
  unfold encode_pin_field_iso_4. rewrite Hp. rewrite to_bytes_be_1 by lia. cbn [bind].
  unfold hex_lower, index. cbn [flat_map app nth_error bind].
  replace (lenN pin mod 16) with (lenN pin) by lia.
  apply a2b_hex_nibbles.
  - unfold spec_pin_field_4. cbn [app].
    apply unhex_as_cons; [reflexivity|].
    apply unhex_as_cons; [apply unhex_hexdigit_lower; lia|].
    apply unhex_as_app; [apply unhex_as_decimal, Hn|].
    apply unhex_as_app; [apply unhex_as_repeat; reflexivity|].
    apply unhex_as_hex_upper, Ot.
  - apply even_length_32. apply spec_pin_field_4_shape; try assumption.
    + rewrite nibbles_of_bytes_length. lia.
    + apply nibbles_of_bytes_ok, Ot.
Qed.

Definition bad_pan4 (pan : str) : bool :=
  (length pan <? 1)%nat || (19 <? length pan)%nat || negb (ascii_numeric pan).

Lemma bad_pan4_false p : bad_pan4 p = false <-> (1 <= length p <= 19)%nat /\ ascii_numeric p = true.
Proof. unfold bad_pan4. destruct (ascii_numeric p); cbn [negb]; lia. Qed.

Lemma spec_pan_field_4_shape pan : bad_pan4 pan = false ->
  length (spec_pan_field_4 pan) = 32%nat /\ nibbles_ok (spec_pan_field_4 pan) = true.
Proof.
  intro H. apply bad_pan4_false in H as [Hl Hn]. unfold spec_pan_field_4. split.
  - rewrite !app_length, !repeat_length, digits_eq, digit_values_length. cbn [length]. lia.
  - apply nibbles_ok_app. split; [apply nibbles_ok_cons; split; [lia|reflexivity]|].
    apply nibbles_ok_app. split; [apply nibbles_ok_repeat; lia|].
    apply nibbles_ok_app. split; [rewrite digits_eq; apply digit_values_nibbles_ok, Hn|].
    apply nibbles_ok_repeat; lia.
Qed.

Theorem encode_pan_field4_spec pan : bad_pan4 pan = false ->
  encode_pan_field_iso_4 pan = Ok (bytes_of_nibbles (spec_pan_field_4 pan)).
Proof.
  intro Hpan. pose proof Hpan as Hp'. apply bad_pan4_false in Hp' as [Hl Hn].
  unfold encode_pan_field_iso_4. fold (bad_pan4 pan). rewrite Hpan.
  rewrite str_of_N_digit by lia. unfold ljust, rjust.
  apply a2b_hex_nibbles.
  - unfold spec_pan_field_4. rewrite <- !app_assoc.
    apply unhex_as_app.
    { apply unhex_as_cons; [|apply unhex_as_nil]. rewrite unhex_digit_decimal by (unfold is_digit; lia).
      f_equal. lia. }
    apply unhex_as_app; [apply unhex_as_repeat; reflexivity|].
    apply unhex_as_app; [apply unhex_as_decimal, Hn|].
    rewrite !app_length, repeat_length. cbn [length].
    replace (32 - (1 + (12 - length pan + length pan)))%nat with (32 - (1 + Nat.max 12 (length pan)))%nat by lia.
    apply unhex_as_repeat. reflexivity.
  - apply even_length_32. apply spec_pan_field_4_shape. assumption.
Qed.

(* ------------------------------------------------------------------ *)
(* byte-level facts about the encoded blocks                            *)
Lemma bytes_of_nibbles_16 S : length S = 16%nat -> nibbles_ok S = true ->
  length (bytes_of_nibbles S) = 8%nat /\ bytes_ok (bytes_of_nibbles S) = true /\
  nibbles_of_bytes (bytes_of_nibbles S) = S.
Proof.
  intros L O. split; [rewrite bytes_of_nibbles_length, L; reflexivity|].
  split; [apply bytes_of_nibbles_ok, O|]. apply nibbles_of_bytes_of_nibbles; [assumption|rewrite L; reflexivity].
Qed.

Lemma bytes_of_nibbles_32 S : length S = 32%nat -> nibbles_ok S = true ->
  length (bytes_of_nibbles S) = 16%nat /\ bytes_ok (bytes_of_nibbles S) = true /\
  nibbles_of_bytes (bytes_of_nibbles S) = S.
Proof.
  intros L O. split; [rewrite bytes_of_nibbles_length, L; reflexivity|].
  split; [apply bytes_of_nibbles_ok, O|]. apply nibbles_of_bytes_of_nibbles; [assumption|rewrite L; reflexivity].
Qed.

(* ------------------------------------------------------------------ *)
(* C05: layout of the encoded blocks                                    *)
Theorem layout0 pin pan : bad_pin pin = false -> bad_pan13 pan = false ->
  exists b, encode_pinblock_iso_0 pin pan = Ok b /\ nibbles_of_bytes b = spec_block_0 pin pan.
Proof.
  intros Hp Hpan. destruct (spec_block_0_shape pin pan Hp Hpan) as [L O].
  destruct (bytes_of_nibbles_16 _ L O) as (Lb & Ob & E).
  eexists. split; [apply encode0_spec; assumption | exact E].
Qed.

Theorem layout2 pin : bad_pin pin = false ->
  exists b, encode_pinblock_iso_2 pin = Ok b /\ nibbles_of_bytes b = spec_pin_block_2 pin.
Proof.
  intros Hp. destruct (spec_pin_block_2_shape pin Hp) as [L O].
  destruct (bytes_of_nibbles_16 _ L O) as (Lb & Ob & E).
  eexists. split; [apply encode2_spec; assumption | exact E].
Qed.

Theorem layout3 pin pan choices : bad_pin pin = false -> bad_pan13 pan = false ->
  length choices = 10%nat -> AF_ok choices ->
  exists b, encode_pinblock_iso_3 pin pan choices = Ok b /\
            nibbles_of_bytes b = spec_block_3 pin pan (AF_values choices) /\
            Forall (fun n => 10 <= n <= 15) (AF_values choices).
Proof.
  intros Hp Hpan Lc Hc. destruct (AF_values_shape choices Hc) as (La & Oa & Fa).
  destruct (spec_block_3_shape pin pan (AF_values choices) Hp Hpan ltac:(lia) Oa) as [L O].
  destruct (bytes_of_nibbles_16 _ L O) as (Lb & Ob & E).
  eexists. split; [apply encode3_spec; assumption | split; [exact E | exact Fa]].
Qed.

Lemma tape_shape tape8 : length tape8 = 8%nat -> bytes_ok tape8 = true ->
  length (nibbles_of_bytes tape8) = 16%nat /\ nibbles_ok (nibbles_of_bytes tape8) = true.
Proof. intros L O. split; [rewrite nibbles_of_bytes_length; lia | apply nibbles_of_bytes_ok, O]. Qed.

Theorem layout_pin_field4 pin tape8 : bad_pin pin = false -> length tape8 = 8%nat -> bytes_ok tape8 = true ->
  exists f, encode_pin_field_iso_4 pin tape8 = Ok f /\ length f = 16%nat /\ bytes_ok f = true /\
            nibbles_of_bytes f = spec_pin_field_4 pin (nibbles_of_bytes tape8).
Proof.
  intros Hp Lt Ot. destruct (tape_shape tape8 Lt Ot) as [Ln On].
  destruct (spec_pin_field_4_shape pin _ Hp Ln On) as [L O].
  destruct (bytes_of_nibbles_32 _ L O) as (Lb & Ob & E).
  eexists. split; [apply encode_pin_field4_spec; assumption | auto].
Qed.

Theorem layout_pan_field4 pan : bad_pan4 pan = false ->
  exists f, encode_pan_field_iso_4 pan = Ok f /\ length f = 16%nat /\ bytes_ok f = true /\
            nibbles_of_bytes f = spec_pan_field_4 pan.
Proof.
  intros Hpan. destruct (spec_pan_field_4_shape pan Hpan) as [L O].
  destruct (bytes_of_nibbles_32 _ L O) as (Lb & Ob & E).
  eexists. split; [apply encode_pan_field4_spec; assumption | auto].
Qed.

(* the two regimes of the PAN field *)
Lemma spec_pan_field_4_short pan : (length pan <= 12)%nat ->
  spec_pan_field_4 pan = [0] ++ repeat 0 (12 - length pan) ++ digits pan ++ repeat 0 19.
Proof.
  intro H. unfold spec_pan_field_4.
  replace (Nat.max 0 (length pan - 12)) with 0%nat by lia.
  replace (32 - (1 + Nat.max 12 (length pan)))%nat with 19%nat by lia. reflexivity.
Qed.

Lemma spec_pan_field_4_long pan : (12 <= length pan <= 19)%nat ->
  spec_pan_field_4 pan = [N.of_nat (length pan - 12)] ++ digits pan ++ repeat 0 (31 - length pan).
Proof.
  intro H. unfold spec_pan_field_4.
  replace (12 - length pan)%nat with 0%nat by lia.
  replace (32 - (1 + Nat.max 12 (length pan)))%nat with (31 - length pan)%nat by lia. reflexivity.
Qed.

(* ------------------------------------------------------------------ *)
(* C04: encode then decode                                              *)
Theorem roundtrip0 pin pan : bad_pin pin = false -> bad_pan13 pan = false ->
  exists b, encode_pinblock_iso_0 pin pan = Ok b /\ length b = 8%nat /\ bytes_ok b = true /\
            decode_pinblock_iso_0 b pan = Ok pin.
Proof.
  intros Hp Hpan. destruct (spec_block_0_shape pin pan Hp Hpan) as [L O].
  destruct (bytes_of_nibbles_16 _ L O) as (Lb & Ob & E).
  destruct (spec_pin_block_0_shape pin Hp) as [L1 O1]. destruct (spec_pan_block_shape pan Hpan) as [L2 O2].
  eexists. split; [apply encode0_spec; assumption|]. split; [assumption|]. split; [assumption|].
  apply decode0_iff; try assumption. rewrite E. unfold spec_block_0.
  rewrite xor_pos_involutive by lia. apply wf0_spec. split; [apply pin_ok_iff; assumption | reflexivity].
Qed.

Theorem roundtrip2 pin : bad_pin pin = false ->
  exists b, encode_pinblock_iso_2 pin = Ok b /\ length b = 8%nat /\ bytes_ok b = true /\
            decode_pinblock_iso_2 b = Ok pin.
Proof.
  intros Hp. destruct (spec_pin_block_2_shape pin Hp) as [L O].
  destruct (bytes_of_nibbles_16 _ L O) as (Lb & Ob & E).
  eexists. split; [apply encode2_spec; assumption|]. split; [assumption|]. split; [assumption|].
  apply decode2_iff; try assumption. rewrite E.
  apply wf2_spec. split; [apply pin_ok_iff; assumption | reflexivity].
Qed.

Theorem roundtrip3 pin pan choices : bad_pin pin = false -> bad_pan13 pan = false ->
  length choices = 10%nat -> AF_ok choices ->
  exists b, encode_pinblock_iso_3 pin pan choices = Ok b /\ length b = 8%nat /\ bytes_ok b = true /\
            decode_pinblock_iso_3 b pan = Ok pin.
Proof.
  intros Hp Hpan Lc Hc. destruct (AF_values_shape choices Hc) as (La & Oa & Fa).
  assert (L10 : (10 <= length (AF_values choices))%nat) by lia.
  destruct (spec_block_3_shape pin pan (AF_values choices) Hp Hpan L10 Oa) as [L O].
  destruct (bytes_of_nibbles_16 _ L O) as (Lb & Ob & E).
  destruct (spec_pin_block_3_shape pin _ Hp L10 Oa) as [L1 O1]. destruct (spec_pan_block_shape pan Hpan) as [L2 O2].
  pose proof Hp as Hp'. apply bad_pin_false in Hp' as [Hlen _].
  eexists. split; [apply encode3_spec; assumption|]. split; [assumption|]. split; [assumption|].
  apply decode3_iff; try assumption. rewrite E. unfold spec_block_3.
  rewrite xor_pos_involutive by lia. apply wf3_spec. split; [apply pin_ok_iff; assumption|].
  exists (firstn (14 - length pin) (AF_values choices)). split; [rewrite firstn_length; lia|]. split.
  - rewrite Forall_forall in *. intros x Hx. apply Fa. rewrite <- (firstn_skipn (14 - length pin)).
    apply in_or_app. left. assumption.
  - unfold spec_pin_block_3. rewrite firstn_firstn. f_equal. f_equal. f_equal. lia.
Qed.

Theorem roundtrip_field4 pin tape8 : bad_pin pin = false -> length tape8 = 8%nat -> bytes_ok tape8 = true ->
  exists f, encode_pin_field_iso_4 pin tape8 = Ok f /\ length f = 16%nat /\ bytes_ok f = true /\
            decode_pin_field_iso_4 f = Ok pin.
Proof.
  intros Hp Lt Ot. destruct (layout_pin_field4 pin tape8 Hp Lt Ot) as (f & Ef & Lf & Of & Nf).
  exists f. split; [assumption|]. split; [assumption|]. split; [assumption|].
  apply decode4_iff; try assumption. rewrite Nf. apply wf4_spec.
  split; [apply pin_ok_iff; assumption|]. exists (nibbles_of_bytes tape8).
  split; [rewrite nibbles_of_bytes_length; lia | reflexivity].
Qed.

(* ------------------------------------------------------------------ *)
(* format 4 encipherment over an abstract 16-byte block cipher          *)
Section Format4.
  Variable ca : cipher.
  Hypothesis Hca : cipher_ok ca.
  Hypothesis Hbs : bs ca = 16%nat.

  Lemma encrypt_ecb_one key data : valid_key ca key = true -> length data = 16%nat ->
    encrypt_ecb ca key data = Ok (enc ca key data).
  Proof.
    intros Hk Hl. unfold encrypt_ecb, bad_len, nblocks. rewrite Hbs, Hl, Hk.
    change ((16 <? 16)%nat || negb (16 mod 16 =? 0)%nat) with false. change (16 / 16)%nat with 1%nat.
    cbn [negb ecb_n]. rewrite app_nil_r, firstn_all2 by lia. reflexivity.
  Qed.

  Lemma decrypt_ecb_one key data : valid_key ca key = true -> length data = 16%nat ->
    decrypt_ecb ca key data = Ok (dec ca key data).
  Proof.
    intros Hk Hl. unfold decrypt_ecb, bad_len, nblocks. rewrite Hbs, Hl, Hk.
    change ((16 <? 16)%nat || negb (16 mod 16 =? 0)%nat) with false. change (16 / 16)%nat with 1%nat.
    cbn [negb ecb_n]. rewrite app_nil_r, firstn_all2 by lia. reflexivity.
  Qed.

  Lemma block16 b : length b = 16%nat -> bytes_ok b = true -> block_ok ca b.
  Proof. intros L O. split; [rewrite Hbs; assumption | assumption]. Qed.

  Lemma block16_inv b : block_ok ca b -> length b = 16%nat /\ bytes_ok b = true.
  Proof. intros [L O]. rewrite Hbs in L. auto. Qed.

  (* C05: the enciphered block is E(E(PIN field) xor PAN field) *)
  Theorem encipher4_spec key pin pan tape8 pin_field pan_field :
    valid_key ca key = true -> length tape8 = 8%nat -> bytes_ok tape8 = true ->
    encode_pin_field_iso_4 pin tape8 = Ok pin_field -> encode_pan_field_iso_4 pan = Ok pan_field ->
    encipher_pinblock_iso_4 ca key pin pan tape8 = Ok (spec_encipher_4 (enc ca) key pin_field pan_field) /\
    block_ok ca (spec_encipher_4 (enc ca) key pin_field pan_field).
  Proof.
    intros Hk Lt Ot Ef Ep.
    assert (Hp : bad_pin pin = false).
    { destruct (bad_pin pin) eqn:E; [|reflexivity]. unfold encode_pin_field_iso_4 in Ef. rewrite E in Ef. discriminate Ef. }
    assert (Hpan : bad_pan4 pan = false).
    { destruct (bad_pan4 pan) eqn:E; [|reflexivity]. unfold encode_pan_field_iso_4 in Ep. fold (bad_pan4 pan) in Ep.
      rewrite E in Ep. discriminate Ep. }
    destruct (layout_pin_field4 pin tape8 Hp Lt Ot) as (f & Ef' & Lf & Of & _).
    destruct (layout_pan_field4 pan Hpan) as (g & Eg' & Lg & Og & _).
    rewrite Ef in Ef'. injection Ef' as <-. rewrite Ep in Eg'. injection Eg' as <-.
    unfold encipher_pinblock_iso_4. rewrite Ef, Ep. cbn [bind].
    rewrite encrypt_ecb_one by assumption. cbn [bind].
    destruct (block16_inv _ (enc_block ca Hca key pin_field Hk (block16 _ Lf Of))) as [La Oa].
    rewrite py_xor_is_bytewise by assumption.
    assert (Lx : length (xor_pos (enc ca key pin_field) pan_field) = 16%nat) by (rewrite xor_pos_length; assumption).
    assert (Ox : bytes_ok (xor_pos (enc ca key pin_field) pan_field) = true) by (apply xor_pos_bytes_ok; assumption).
    rewrite encrypt_ecb_one by assumption. unfold spec_encipher_4. split; [reflexivity|].
    apply (enc_block ca Hca); [assumption | apply block16; assumption].
  Qed.

  (* decipherment of any 16-byte block *)
  Lemma decipher4_unfold key blk pan pan_field :
    valid_key ca key = true -> length blk = 16%nat -> bytes_ok blk = true ->
    encode_pan_field_iso_4 pan = Ok pan_field ->
    decipher_pinblock_iso_4 ca key blk pan =
    decode_pin_field_iso_4 (dec ca key (py_xor (dec ca key blk) pan_field)).
  Proof.
    intros Hk Lb Ob Ep. unfold decipher_pinblock_iso_4. rewrite decrypt_ecb_one by assumption. cbn [bind].
    rewrite Ep. cbn [bind].
    destruct (block16_inv _ (dec_block ca Hca key blk Hk (block16 _ Lb Ob))) as [Ld Od].
    rewrite decrypt_ecb_one; [reflexivity | assumption | rewrite py_xor_length; assumption].
  Qed.

  (* C04: encipher then decipher *)
  Theorem roundtrip_encipher4 key pin pan tape8 :
    valid_key ca key = true -> bad_pin pin = false -> bad_pan4 pan = false ->
    length tape8 = 8%nat -> bytes_ok tape8 = true ->
    exists blk, encipher_pinblock_iso_4 ca key pin pan tape8 = Ok blk /\ length blk = 16%nat /\
                bytes_ok blk = true /\ decipher_pinblock_iso_4 ca key blk pan = Ok pin.
  Proof.
    intros Hk Hp Hpan Lt Ot.
    destruct (roundtrip_field4 pin tape8 Hp Lt Ot) as (f & Ef & Lf & Of & Df).
    destruct (layout_pan_field4 pan Hpan) as (g & Eg & Lg & Og & _).
    destruct (encipher4_spec key pin pan tape8 f g Hk Lt Ot Ef Eg) as [Ee Be].
    destruct (block16_inv _ Be) as [Le Oe].
    eexists. split; [exact Ee|]. split; [assumption|]. split; [assumption|].
    rewrite (decipher4_unfold key _ pan g) by assumption.
    unfold spec_encipher_4.
    pose proof (enc_block ca Hca key f Hk (block16 _ Lf Of)) as Ba.
    destruct (block16_inv _ Ba) as [La Oa].
    assert (Bx : block_ok ca (xor_pos (enc ca key f) g)).
    { apply block16; [rewrite xor_pos_length; assumption | apply xor_pos_bytes_ok; assumption]. }
    rewrite (dec_enc ca Hca) by assumption.
    rewrite py_xor_is_bytewise by (try apply xor_pos_bytes_ok; assumption).
    rewrite xor_pos_involutive by lia.
    rewrite (dec_enc ca Hca) by (try apply block16; assumption). exact Df.
  Qed.

  (* C06: PAN binding of format 4, as far as it holds for an abstract permutation:
     deciphering with a PAN whose PAN field differs never recovers the PIN field *)
  Theorem bind4_field key pin pan pan' tape8 pin_field pan_field pan_field' blk :
    valid_key ca key = true -> length tape8 = 8%nat -> bytes_ok tape8 = true ->
    encode_pin_field_iso_4 pin tape8 = Ok pin_field ->
    encode_pan_field_iso_4 pan = Ok pan_field -> encode_pan_field_iso_4 pan' = Ok pan_field' ->
    pan_field <> pan_field' ->
    encipher_pinblock_iso_4 ca key pin pan tape8 = Ok blk ->
    decipher_pinblock_iso_4 ca key blk pan' =
      decode_pin_field_iso_4 (dec ca key (py_xor (dec ca key blk) pan_field')) /\
    dec ca key (py_xor (dec ca key blk) pan_field') <> pin_field.
  Proof.
    intros Hk Lt Ot Ef Ep Ep' Hne Ee.
    destruct (encipher4_spec key pin pan tape8 _ _ Hk Lt Ot Ef Ep) as [Ee' Be].
    rewrite Ee in Ee'. injection Ee' as ->. destruct (block16_inv _ Be) as [Le Oe].
    split; [apply decipher4_unfold; assumption|].
    assert (Hp : bad_pin pin = false).
    { destruct (bad_pin pin) eqn:E; [|reflexivity]. unfold encode_pin_field_iso_4 in Ef. rewrite E in Ef. discriminate Ef. }
    assert (Hpan : forall q g, encode_pan_field_iso_4 q = Ok g -> length g = 16%nat /\ bytes_ok g = true).
    { intros q g Eq. destruct (bad_pan4 q) eqn:E.
      - unfold encode_pan_field_iso_4 in Eq. fold (bad_pan4 q) in Eq. rewrite E in Eq. discriminate Eq.
      - destruct (layout_pan_field4 q E) as (g' & Eg' & Lg & Og & _). rewrite Eq in Eg'. injection Eg' as <-. auto. }
    destruct (Hpan _ _ Ep) as [Lg Og]. destruct (Hpan _ _ Ep') as [Lg' Og'].
    destruct (layout_pin_field4 pin tape8 Hp Lt Ot) as (f & Ef' & Lf & Of & _).
    rewrite Ef in Ef'. injection Ef' as <-.
    unfold spec_encipher_4.
    pose proof (enc_block ca Hca key pin_field Hk (block16 _ Lf Of)) as Ba.
    destruct (block16_inv _ Ba) as [La Oa].
    assert (Bx : block_ok ca (xor_pos (enc ca key pin_field) pan_field)).
    { apply block16; [rewrite xor_pos_length; assumption | apply xor_pos_bytes_ok; assumption]. }
    rewrite (dec_enc ca Hca) by assumption.
    rewrite py_xor_is_bytewise by (try apply xor_pos_bytes_ok; assumption).
    set (X := xor_pos (xor_pos (enc ca key pin_field) pan_field) pan_field').
    assert (BX : block_ok ca X).
    { apply block16; [unfold X; rewrite !xor_pos_length; assumption | repeat apply xor_pos_bytes_ok; assumption]. }
    intro Hd. apply Hne.
    apply (xor_pos_cancel (enc ca key pin_field)); try lia.
    fold X. rewrite <- (enc_dec ca Hca key X Hk BX). rewrite Hd. reflexivity.
  Qed.
End Format4.

(* ------------------------------------------------------------------ *)
(* C06: PAN binding of formats 0 and 3                                  *)
Theorem bind0 pin pan pan' b : bad_pin pin = false -> bad_pan13 pan = false -> bad_pan13 pan' = false ->
  spec_pan_block pan <> spec_pan_block pan' ->
  encode_pinblock_iso_0 pin pan = Ok b -> decode_pinblock_iso_0 b pan' <> Ok pin.
Proof.
  intros Hp Hpan Hpan' Hne Ee Hd.
  destruct (spec_block_0_shape pin pan Hp Hpan) as [L O].
  destruct (bytes_of_nibbles_16 _ L O) as (Lb & Ob & E).
  destruct (spec_pin_block_0_shape pin Hp) as [L1 O1].
  destruct (spec_pan_block_shape pan Hpan) as [L2 O2]. destruct (spec_pan_block_shape pan' Hpan') as [L3 O3].
  rewrite encode0_spec in Ee by assumption.
  assert (Eb : b = bytes_of_nibbles (spec_block_0 pin pan)) by congruence. subst b. clear Ee.
  apply decode0_iff in Hd; try assumption. rewrite E in Hd. apply wf0_spec in Hd as [_ Hd].
  apply Hne. unfold spec_block_0 in Hd.
  apply (xor_pos_cancel (spec_pin_block_0 pin)); try lia. assumption.
Qed.

(* format 3: only the PAN digits that lie under the PIN digits are bound; a PAN
   digit under a fill nibble can change without the decoder noticing (see
   bind3_refuted in Properties/C06.v) *)
Theorem bind3_partial pin pan pan' choices b : bad_pin pin = false ->
  bad_pan13 pan = false -> bad_pan13 pan' = false -> length choices = 10%nat -> AF_ok choices ->
  firstn (2 + length pin) (spec_pan_block pan) <> firstn (2 + length pin) (spec_pan_block pan') ->
  encode_pinblock_iso_3 pin pan choices = Ok b -> decode_pinblock_iso_3 b pan' <> Ok pin.
Proof.
  intros Hp Hpan Hpan' Lc Hc Hne Ee Hd.
  destruct (AF_values_shape choices Hc) as (La & Oa & Fa).
  assert (L10 : (10 <= length (AF_values choices))%nat) by lia.
  destruct (spec_block_3_shape pin pan (AF_values choices) Hp Hpan L10 Oa) as [L O].
  destruct (bytes_of_nibbles_16 _ L O) as (Lb & Ob & E).
  destruct (spec_pin_block_3_shape pin _ Hp L10 Oa) as [L1 O1].
  destruct (spec_pan_block_shape pan Hpan) as [L2 O2]. destruct (spec_pan_block_shape pan' Hpan') as [L3 O3].
  pose proof Hp as Hp'. apply bad_pin_false in Hp' as [Hlen _].
  rewrite encode3_spec in Ee by assumption.
  assert (Eb : b = bytes_of_nibbles (spec_block_3 pin pan (AF_values choices))) by congruence. subst b. clear Ee.
  apply decode3_iff in Hd; try assumption. rewrite E in Hd. destruct Hd as [L4 Hd].
  apply wf_fields_prefix in Hd; [|lia].
  apply Hne. unfold spec_block_3 in Hd. rewrite !xor_pos_firstn in Hd.
  apply (xor_pos_cancel (firstn (2 + length pin) (spec_pin_block_3 pin (AF_values choices))));
    try (rewrite !firstn_length; lia).
  rewrite Hd. unfold spec_pin_block_3. rewrite app_assoc. symmetry. apply firstn_app_exact.
  rewrite app_length, digits_eq, digit_values_length. reflexivity.
Qed.

(* ------------------------------------------------------------------ *)
(* C06 corollaries: accepted PINs are PINs; formats exclude one another *)
Lemma decode0_ok_inv b pan p : decode_pinblock_iso_0 b pan = Ok p -> bad_pan13 pan = false /\ length b = 8%nat.
Proof.
  unfold decode_pinblock_iso_0. destruct (bad_pan13 pan); [discriminate|].
  destruct (Nat.eqb_spec (length b) 8); [auto | discriminate].
Qed.

Lemma decode3_ok_inv b pan p : decode_pinblock_iso_3 b pan = Ok p -> bad_pan13 pan = false /\ length b = 8%nat.
Proof.
  unfold decode_pinblock_iso_3. destruct (bad_pan13 pan); [discriminate|].
  destruct (Nat.eqb_spec (length b) 8); [auto | discriminate].
Qed.

Lemma decode2_ok_inv b p : decode_pinblock_iso_2 b = Ok p -> length b = 8%nat.
Proof. unfold decode_pinblock_iso_2. destruct (Nat.eqb_spec (length b) 8); [auto | discriminate]. Qed.

Lemma decode4_ok_inv b p : decode_pin_field_iso_4 b = Ok p -> length b = 16%nat.
Proof. unfold decode_pin_field_iso_4. destruct (Nat.eqb_spec (length b) 16); [auto | discriminate]. Qed.

Theorem decode0_pin_ok b pan p : bytes_ok b = true -> decode_pinblock_iso_0 b pan = Ok p -> bad_pin p = false.
Proof.
  intros Hb H. destruct (decode0_ok_inv _ _ _ H) as [Hpan Hl].
  apply decode0_iff in H; try assumption. apply pin_ok_iff. apply H.
Qed.

Theorem decode2_pin_ok b p : bytes_ok b = true -> decode_pinblock_iso_2 b = Ok p -> bad_pin p = false.
Proof.
  intros Hb H. pose proof (decode2_ok_inv _ _ H) as Hl.
  apply decode2_iff in H; try assumption. apply pin_ok_iff. apply H.
Qed.

Theorem decode3_pin_ok b pan p : bytes_ok b = true -> decode_pinblock_iso_3 b pan = Ok p -> bad_pin p = false.
Proof.
  intros Hb H. destruct (decode3_ok_inv _ _ _ H) as [Hpan Hl].
  apply decode3_iff in H; try assumption. apply pin_ok_iff. apply H.
Qed.

Theorem decode4_pin_ok b p : bytes_ok b = true -> decode_pin_field_iso_4 b = Ok p -> bad_pin p = false.
Proof.
  intros Hb H. pose proof (decode4_ok_inv _ _ H) as Hl.
  apply decode4_iff in H; try assumption. apply pin_ok_iff. apply H.
Qed.

(* the control nibble of a block: the high half of its first byte; the PAN mask
   leaves it unchanged *)
Definition ctrl_nibble (b : bytes) : N := nth 0 (nibbles_of_bytes b) 16.

Lemma masked_ctrl b pan : (1 <= length b)%nat ->
  nth 0 (xor_pos (nibbles_of_bytes b) (spec_pan_block pan)) 16 = ctrl_nibble b.
Proof.
  intro H. destruct b as [|x b]; cbn [length] in H; [lia|].
  unfold ctrl_nibble, spec_pan_block. rewrite nibbles_of_bytes_cons. cbn [app xor_pos nth].
  apply N.lxor_0_r.
Qed.

Lemma decode0_ctrl b pan p : bytes_ok b = true -> decode_pinblock_iso_0 b pan = Ok p ->
  length b = 8%nat /\ ctrl_nibble b = 0.
Proof.
  intros Hb H. destruct (decode0_ok_inv _ _ _ H) as [Hpan Hl]. split; [assumption|].
  rewrite decode0_nibbles in H by assumption. apply decode_nibbles_ctrl in H.
  rewrite masked_ctrl in H by lia. assumption.
Qed.

Lemma decode3_ctrl b pan p : bytes_ok b = true -> decode_pinblock_iso_3 b pan = Ok p ->
  length b = 8%nat /\ ctrl_nibble b = 3.
Proof.
  intros Hb H. destruct (decode3_ok_inv _ _ _ H) as [Hpan Hl]. split; [assumption|].
  rewrite decode3_nibbles in H by assumption. apply decode_nibbles_ctrl in H.
  rewrite masked_ctrl in H by lia. assumption.
Qed.

Lemma decode2_ctrl b p : bytes_ok b = true -> decode_pinblock_iso_2 b = Ok p ->
  length b = 8%nat /\ ctrl_nibble b = 2.
Proof.
  intros Hb H. pose proof (decode2_ok_inv _ _ H) as Hl. split; [assumption|].
  rewrite decode2_nibbles in H by assumption. apply decode_nibbles_ctrl in H. assumption.
Qed.

Lemma decode4_ctrl b p : bytes_ok b = true -> decode_pin_field_iso_4 b = Ok p ->
  length b = 16%nat /\ ctrl_nibble b = 4.
Proof.
  intros Hb H. pose proof (decode4_ok_inv _ _ H) as Hl. split; [assumption|].
  rewrite decode4_nibbles in H by assumption. apply decode_nibbles_ctrl in H. assumption.
Qed.

(* a block of another size or with another control nibble is rejected with ValueError *)
Lemma decode0_reject b pan : bytes_ok b = true -> length b <> 8%nat \/ ctrl_nibble b <> 0 ->
  decode_pinblock_iso_0 b pan = Err ValueError.
Proof.
  intros Hb H. destruct (decode0_total b pan Hb) as [[p Hp]|]; [|assumption].
  destruct (decode0_ctrl b pan p Hb Hp). tauto.
Qed.

Lemma decode2_reject b : bytes_ok b = true -> length b <> 8%nat \/ ctrl_nibble b <> 2 ->
  decode_pinblock_iso_2 b = Err ValueError.
Proof.
  intros Hb H. destruct (decode2_total b Hb) as [[p Hp]|]; [|assumption].
  destruct (decode2_ctrl b p Hb Hp). tauto.
Qed.

Lemma decode3_reject b pan : bytes_ok b = true -> length b <> 8%nat \/ ctrl_nibble b <> 3 ->
  decode_pinblock_iso_3 b pan = Err ValueError.
Proof.
  intros Hb H. destruct (decode3_total b pan Hb) as [[p Hp]|]; [|assumption].
  destruct (decode3_ctrl b pan p Hb Hp). tauto.
Qed.

Lemma decode4_reject b : bytes_ok b = true -> length b <> 16%nat \/ ctrl_nibble b <> 4 ->
  decode_pin_field_iso_4 b = Err ValueError.
Proof.
  intros Hb H. destruct (decode4_total b Hb) as [[p Hp]|]; [|assumption].
  destruct (decode4_ctrl b p Hb Hp). tauto.
Qed.

Theorem formats_exclusive b pan0 pan3 p : bytes_ok b = true ->
  (decode_pinblock_iso_0 b pan0 = Ok p ->
     decode_pinblock_iso_2 b = Err ValueError /\ decode_pinblock_iso_3 b pan3 = Err ValueError /\
     decode_pin_field_iso_4 b = Err ValueError) /\
  (decode_pinblock_iso_2 b = Ok p ->
     decode_pinblock_iso_0 b pan0 = Err ValueError /\ decode_pinblock_iso_3 b pan3 = Err ValueError /\
     decode_pin_field_iso_4 b = Err ValueError) /\
  (decode_pinblock_iso_3 b pan3 = Ok p ->
     decode_pinblock_iso_0 b pan0 = Err ValueError /\ decode_pinblock_iso_2 b = Err ValueError /\
     decode_pin_field_iso_4 b = Err ValueError) /\
  (decode_pin_field_iso_4 b = Ok p ->
     decode_pinblock_iso_0 b pan0 = Err ValueError /\ decode_pinblock_iso_2 b = Err ValueError /\
     decode_pinblock_iso_3 b pan3 = Err ValueError).
Proof.
  intro Hb. split; [|split; [|split]]; intro H.
  1: destruct (decode0_ctrl _ _ _ Hb H) as [L C].
  2: destruct (decode2_ctrl _ _ Hb H) as [L C].
  3: destruct (decode3_ctrl _ _ _ Hb H) as [L C].
  4: destruct (decode4_ctrl _ _ Hb H) as [L C].
  all: repeat split;
    first [apply decode0_reject | apply decode2_reject | apply decode3_reject | apply decode4_reject];
    try assumption; rewrite ?L, ?C; first [left; discriminate | right; discriminate].
Qed.

(* rejection of ill-formed blocks, in the form used by Properties/C06.v *)
Theorem decode0_reject_illformed b pan : length b = 8%nat -> bytes_ok b = true -> bad_pan13 pan = false ->
  (forall p, ~ wf0 (xor_pos (nibbles_of_bytes b) (spec_pan_block pan)) p) ->
  decode_pinblock_iso_0 b pan = Err ValueError.
Proof.
  intros Hl Hb Hpan. apply iff_total_reject; [|apply decode0_total; assumption].
  intro p. apply decode0_iff; assumption.
Qed.

Theorem decode3_reject_illformed b pan : length b = 8%nat -> bytes_ok b = true -> bad_pan13 pan = false ->
  (forall p, ~ wf3 (xor_pos (nibbles_of_bytes b) (spec_pan_block pan)) p) ->
  decode_pinblock_iso_3 b pan = Err ValueError.
Proof.
  intros Hl Hb Hpan. apply iff_total_reject; [|apply decode3_total; assumption].
  intro p. apply decode3_iff; assumption.
Qed.

Theorem decode2_reject_illformed b : length b = 8%nat -> bytes_ok b = true ->
  (forall p, ~ wf2 (nibbles_of_bytes b) p) -> decode_pinblock_iso_2 b = Err ValueError.
Proof.
  intros Hl Hb. apply iff_total_reject; [|apply decode2_total; assumption].
  intro p. apply decode2_iff; assumption.
Qed.

Theorem decode4_reject_illformed b : length b = 16%nat -> bytes_ok b = true ->
  (forall p, ~ wf4 (nibbles_of_bytes b) p) -> decode_pin_field_iso_4 b = Err ValueError.
Proof.
  intros Hl Hb. apply iff_total_reject; [|apply decode4_total; assumption].
  intro p. apply decode4_iff; assumption.
Qed.

(* wrong size / invalid PAN *)
Lemma decode0_bad_args b pan : length b <> 8%nat \/ bad_pan13 pan = true ->
  decode_pinblock_iso_0 b pan = Err ValueError.
Proof.
  unfold decode_pinblock_iso_0. destruct (bad_pan13 pan); [reflexivity|].
  intros [H|H]; [|discriminate]. apply Nat.eqb_neq in H. rewrite H. reflexivity.
Qed.

Lemma decode3_bad_args b pan : length b <> 8%nat \/ bad_pan13 pan = true ->
  decode_pinblock_iso_3 b pan = Err ValueError.
Proof.
  unfold decode_pinblock_iso_3. destruct (bad_pan13 pan); [reflexivity|].
  intros [H|H]; [|discriminate]. apply Nat.eqb_neq in H. rewrite H. reflexivity.
Qed.

Lemma decode2_bad_args b : length b <> 8%nat -> decode_pinblock_iso_2 b = Err ValueError.
Proof. unfold decode_pinblock_iso_2. intro H. apply Nat.eqb_neq in H. rewrite H. reflexivity. Qed.

Lemma decode4_bad_args b : length b <> 16%nat -> decode_pin_field_iso_4 b = Err ValueError.
Proof. unfold decode_pin_field_iso_4. intro H. apply Nat.eqb_neq in H. rewrite H. reflexivity. Qed.

Lemma AF_ok_iff choices : AF_ok choices <-> forallb (fun c => (65 <=? c) && (c <=? 70)) choices = true.
Proof.
  split; [apply AF_ok_forallb|]. unfold AF_ok. rewrite Forall_forall, forallb_forall.
  intros H c Hc. specialize (H c Hc). lia.
Qed.
