(* Property C01: a TR-31 wrap followed by an unwrap under the same KBPK returns
   the original key and a header equal to the supplied one.  This file joins
   the cryptographic half (Proofs/Tr31Crypto.v) and the text codec half
   (Proofs/Tr31Codec.v) through KeyBlock.wrap / KeyBlock.unwrap. *)
From Coq Require Import Lia ZifyBool ZifyNat ZifyN.
From Psec Require Import Lib.Base Cipher.Cipher Model.Tools Model.Mac Model.Tr31.
From Psec Require Import Proofs.XorLemmas Proofs.PadLemmas Proofs.TextLemmas Proofs.Tr31Defs.
From Psec Require Import Proofs.Tr31CryptoBase Proofs.Tr31Crypto Proofs.Tr31Codec.
Ltac Zify.zify_post_hook ::= Z.to_euclidean_division_equations.
Open Scope N_scope.

(* ------------------------------------------------------------------ *)
(* list framing                                                         *)
Lemma last_n_app_exact {A} (a b : list A) k : length b = k -> last_n k (a ++ b) = b.
Proof.
  intros <-. unfold last_n. rewrite app_length.
  replace (length a + length b - length b)%nat with (length a) by lia.
  apply Tr31CryptoBase.skipn_app_exact. reflexivity.
Qed.

Lemma drop_last_app_exact {A} (a b : list A) k : length b = k -> drop_last k (a ++ b) = a.
Proof.
  intros <-. unfold drop_last. rewrite app_length.
  replace (length a + length b - length b)%nat with (length a) by lia.
  apply Tr31CryptoBase.firstn_app_exact. reflexivity.
Qed.

Lemma mem_nat_in n l : mem_nat n l = true -> In n l.
Proof.
  unfold mem_nat. rewrite existsb_exists. intros (x & Hx & E).
  apply Nat.eqb_eq in E. subst. exact Hx.
Qed.

Lemma printable_ascii_str s : ascii_printable s = true -> ascii_str s.
Proof. intros H. unfold ascii_str. apply ascii_printable_lt128. exact H. Qed.

(* ------------------------------------------------------------------ *)
(* arithmetic of the length field                                       *)
Lemma masked_len_lower h key mask : lenN key <= masked_len h key mask.
Proof. unfold masked_len. destruct mask; lia. Qed.

(* the total length Header.dump writes is the length of what wrap returns *)
Lemma kb_len_actual abs ml (m : N) (t : str) (lkey ltape lek lmac : nat) :
  (abs = 8 \/ abs = 16)%nat -> N.of_nat lkey <= m ->
  ltape = (abs - (2 + lkey + (N.to_nat m - lkey)) mod abs + (N.to_nat m - lkey))%nat ->
  lek = (2 + lkey + ltape)%nat -> lmac = ml ->
  N.of_nat ((16 + length t) + (2 * lek + 2 * lmac)) = kb_len_of abs ml m t.
Proof.
  intros Habs Hm -> -> ->. unfold kb_len_of, lenN.
  destruct Habs as [-> | ->]; lia.
Qed.

(* 2 * masked_len <= kb_len <= 9999 bounds the key *)
Lemma kb_len_bounds_key abs ml (m : N) t (lkey : N) :
  lkey <= m -> kb_len_of abs ml m t <= 9999 -> lkey * 8 < 65536.
Proof. unfold kb_len_of. lia. Qed.

Lemma kb_total_multiple abs ml lt lek :
  (abs = 8 /\ (ml = 4 \/ ml = 8) \/ abs = 16 /\ ml = 16)%nat ->
  (lt mod abs = 0)%nat -> (lek mod abs = 0)%nat ->
  (((16 + lt) + (2 * lek + 2 * ml)) mod abs = 0)%nat.
Proof. intros [[-> [-> | ->]]|[-> ->]] H1 H2; lia. Qed.

Lemma version_abs_maclen v : version_supported v = true ->
  (version_abs v = 8 /\ (version_maclen v = 4 \/ version_maclen v = 8) \/
   version_abs v = 16 /\ version_maclen v = 16)%nat.
Proof.
  intros H. destruct (version_cases v H) as [-> | [-> | [-> | ->]]]; cbn; auto.
Qed.

Section RoundTrip.
  Variables cd ca : cipher.
  Hypothesis Hcs : ciphers_ok cd ca.

  (* ---------------------------------------------------------------- *)
  (* a successful wrap fixes the KBPK size                              *)
  Lemma b_wrap_kbpk kbpk hs key extra tape s :
    b_wrap cd ca kbpk hs key extra tape = Ok s -> (length kbpk = 16 \/ length kbpk = 24)%nat.
  Proof.
    unfold b_wrap. destruct (mem_nat (length kbpk) [16; 24]%nat) eqn:E; [|discriminate].
    intros _. apply mem_nat_in in E. cbn [In] in E. intuition lia.
  Qed.

  Lemma c_wrap_kbpk kbpk hs key extra tape s :
    c_wrap cd ca kbpk hs key extra tape = Ok s ->
    (length kbpk = 8 \/ length kbpk = 16 \/ length kbpk = 24)%nat.
  Proof.
    unfold c_wrap. destruct (mem_nat (length kbpk) [8; 16; 24]%nat) eqn:E; [|discriminate].
    intros _. apply mem_nat_in in E. cbn [In] in E. intuition lia.
  Qed.

  Lemma d_wrap_kbpk kbpk hs key extra tape s :
    d_wrap cd ca kbpk hs key extra tape = Ok s ->
    (length kbpk = 16 \/ length kbpk = 24 \/ length kbpk = 32)%nat.
  Proof.
    unfold d_wrap. destruct (mem_nat (length kbpk) [16; 24; 32]%nat) eqn:E; [|discriminate].
    intros _. apply mem_nat_in in E. cbn [In] in E. intuition lia.
  Qed.

  Lemma dispatch_kbpk v w kbpk hs key extra tape s :
    v = [65] \/ v = [66] \/ v = [67] \/ v = [68] ->
    wrap_dispatch cd ca v = Ok w -> w kbpk hs key extra tape = Ok s ->
    kbpk_size_ok v (length kbpk).
  Proof.
    intros Hv Ew W.
    destruct Hv as [-> |[-> |[-> | ->]]]; cbn in Ew; injection Ew as <-; cbn [kbpk_size_ok].
    - eapply c_wrap_kbpk; eassumption.
    - eapply b_wrap_kbpk; eassumption.
    - eapply c_wrap_kbpk; eassumption.
    - eapply d_wrap_kbpk; eassumption.
  Qed.

  (* KeyBlock.wrap succeeds only with a KBPK size the version admits *)
  Theorem kb_wrap_kbpk_size kbpk h key mask tape s :
    version_supported (version_id h) = true ->
    kb_wrap cd ca kbpk h key mask tape = Ok s -> kbpk_size_ok (version_id h) (length kbpk).
  Proof.
    intros Hv. unfold kb_wrap.
    destruct (wrap_dispatch cd ca (version_id h)) as [w|] eqn:Ew; [|discriminate]. cbn [bind].
    destruct (header_dump h (masked_len h key mask)) as [hs|]; [|discriminate]. cbn [bind].
    intros W. eapply dispatch_kbpk; [apply version_cases; exact Hv|exact Ew|exact W].
  Qed.

  (* ... and only for a key whose bit length fits the two-byte prefix *)
  Theorem kb_wrap_key_len kbpk h key mask tape s :
    version_supported (version_id h) = true ->
    kb_wrap cd ca kbpk h key mask tape = Ok s -> lenN key * 8 < 65536.
  Proof.
    intros Hv. unfold kb_wrap.
    destruct (wrap_dispatch cd ca (version_id h)) as [w|]; [|discriminate]. cbn [bind].
    destruct (header_dump h (masked_len h key mask)) as [hs|] eqn:Hhs; [|discriminate].
    intros _. destruct (header_dump_ok h _ hs Hv Hhs) as (n & t & _ & Hkb & _).
    eapply kb_len_bounds_key; [apply masked_len_lower|exact Hkb].
  Qed.

  (* ---------------------------------------------------------------- *)
  (* KeyBlock.unwrap on a framed key block                              *)
  Lemma kb_unwrap_framed st kbpk h hs ek mac abs ml u key len s :
    s = hs ++ hex_upper ek ++ hex_upper mac ->
    header_load st s = (h, Ok (length hs)) ->
    slice 1 4 s = zfill 4 (str_of_N len) -> len <= 9999 -> len = lenN s ->
    algo_block_size (version_id h) = Ok abs -> (length s mod abs = 0)%nat ->
    key_block_mac_len (version_id h) = Ok ml -> length mac = ml ->
    bytes_ok ek = true -> bytes_ok mac = true ->
    unwrap_dispatch cd ca (version_id h) = Ok u -> u kbpk hs ek mac = Ok key ->
    kb_unwrap cd ca kbpk st s = (h, Ok key).
  Proof.
    intros Es Hl Hsl Hlen Elen Ea Hmod Em Lm Be Bm Eu U.
    unfold kb_unwrap, kb_unwrap_gen. rewrite Hl. f_equal. cbn [bind].
    rewrite Hsl. destruct (int_of_dec_zfill4 len Hlen) as (I & _ & Nn). rewrite Nn, I.
    cbn [negb bind]. rewrite <- Elen, N.eqb_refl. cbn [negb]. rewrite Ea. cbn [bind].
    rewrite Hmod. cbn [Nat.eqb negb]. rewrite Em. cbn [bind].
    rewrite Es. rewrite (Tr31CryptoBase.skipn_app_exact hs _ _ eq_refl).
    rewrite last_n_app_exact by (rewrite Tr31CryptoBase.hex_upper_length; lia).
    rewrite (fromhex_kbe_hex_upper mac Bm). cbn [bind].
    rewrite Lm, Nat.eqb_refl. cbn [negb].
    rewrite drop_last_app_exact by (rewrite Tr31CryptoBase.hex_upper_length; lia).
    rewrite (fromhex_kbe_hex_upper ek Be). cbn [bind]. rewrite Eu. cbn [bind].
    rewrite (Tr31CryptoBase.firstn_app_exact hs _ _ eq_refl). exact U.
  Qed.

  (* ---------------------------------------------------------------- *)
  (* the round trip, for a KeyBlock object holding any prior header     *)
  Theorem kb_roundtrip st kbpk h key mask tape s :
    header_ok h -> bytes_ok kbpk = true -> bytes_ok key = true -> bytes_ok tape = true ->
    kb_wrap cd ca kbpk h key mask tape = Ok s ->
    kb_unwrap cd ca kbpk st s = (h, Ok key).
  Proof.
    intros Hok Bk Bkey Bt W. pose proof Hok as (Hv & _ & _ & _ & _ & _ & _ & Hbl & _).
    pose proof (version_cases _ Hv) as Hvc.
    pose proof (kb_wrap_kbpk_size _ _ _ _ _ _ Hv W) as Hsz.
    pose proof (kb_wrap_key_len _ _ _ _ _ _ Hv W) as Hklen.
    destruct (dispatch_defined cd ca _ Hvc) as (w & u & uc & maclen & bsz & Ew & Eu & Euc & Em & Eb).
    destruct (version_tables _ Hv) as (Eb' & Em' & Habs).
    assert (bsz = version_abs (version_id h)) as -> by congruence.
    assert (maclen = version_maclen (version_id h)) as -> by congruence.
    clear Eb' Em'.
    unfold kb_wrap in W. rewrite Ew in W. cbn [bind] in W.
    pose proof (masked_len_lower h key mask) as Hge.
    set (m := masked_len h key mask) in *.
    destruct (header_dump h m) as [hs|] eqn:Hhs; [|discriminate]. cbn [bind] in W.
    destruct (header_dump_ok h m hs Hv Hhs) as (n & t & Hd & Hkb & Ehs).
    set (abs := version_abs (version_id h)) in *.
    set (ml := version_maclen (version_id h)) in *.
    set (len := kb_len_of abs ml m t) in *.
    destruct (blocks_dump_shape abs _ n t Habs Hd) as (_ & _ & Hn & Htm & _).
    pose proof (blocks_dump_printable abs _ n t Habs Hbl Hd) as Pt.
    assert (Lhs : length hs = (16 + length t)%nat).
    { rewrite Ehs. apply header_text_length; assumption. }
    assert (Ahs : ascii_str hs).
    { rewrite Ehs. apply printable_ascii_str. apply header_text_printable; assumption. }
    pose proof (dispatch_tape_len cd ca _ _ _ _ _ _ _ _ _ Hvc Ew Eb W) as Lt.
    destruct (dispatch_roundtrip cd ca Hcs _ _ _ _ _ _ kbpk hs key _ tape s
                Hvc Ew Eu Euc Em Eb Hsz Bk Bkey Bt Ahs ltac:(lia) Hklen W)
      as (ek & mac & Es & Bek & Bmac & Lmac & Lek & Hekm & _ & U & _).
    assert (Ls : length s = ((16 + length t) + (2 * length ek + 2 * length mac))%nat).
    { rewrite Es, !app_length, !Tr31CryptoBase.hex_upper_length, Lhs. lia. }
    assert (Elen : len = lenN s).
    { unfold lenN. rewrite Ls. symmetry. unfold len.
      apply (kb_len_actual abs ml m t (length key) (length tape)); assumption. }
    apply (kb_unwrap_framed st kbpk h hs ek mac abs ml u key len s); try assumption.
    - rewrite Es. apply (header_dump_load h m hs Hok Hhs).
    - rewrite Es, slice_app_l by lia. rewrite Ehs.
      apply (header_text_fields h len n t Hok Hkb Hn).
    - rewrite Ls, Lmac. apply kb_total_multiple; try assumption.
      apply version_abs_maclen. exact Hv.
  Qed.

  (* module-level wrap / unwrap *)
  Theorem roundtrip kbpk h key mask tape s :
    header_ok h -> bytes_ok kbpk = true -> bytes_ok key = true -> bytes_ok tape = true ->
    kb_wrap cd ca kbpk h key mask tape = Ok s -> unwrap cd ca kbpk s = Ok (h, key).
  Proof.
    intros Hok Bk Bkey Bt W. unfold unwrap.
    rewrite (kb_roundtrip default_header kbpk h key mask tape s Hok Bk Bkey Bt W).
    reflexivity.
  Qed.

  (* module-level wrap given a header string (KeyBlock(kbpk, str) loads it into
     a fresh Header first) *)
  Theorem roundtrip_str kbpk hs h n key mask tape s :
    header_load default_header hs = (h, Ok n) -> header_ok h ->
    bytes_ok kbpk = true -> bytes_ok key = true -> bytes_ok tape = true ->
    wrap_str cd ca kbpk hs key mask tape = Ok s -> unwrap cd ca kbpk s = Ok (h, key).
  Proof.
    intros Hl Hok Bk Bkey Bt. unfold wrap_str. rewrite Hl. cbn [bind].
    apply roundtrip; assumption.
  Qed.

  (* wrapping leaves the object (KBPK and header) untouched *)
  Theorem wrap_pure st key mask tape :
    fst (step cd ca st (OpWrap key mask tape)) = st /\
    header_str (st_header (fst (step cd ca st (OpWrap key mask tape)))) = header_str (st_header st).
  Proof. split; reflexivity. Qed.

  (* the round trip through the object API, whatever header the unwrapping
     object held before *)
  Theorem roundtrip_object kbpk h h' key mask tape s :
    header_ok h -> bytes_ok kbpk = true -> bytes_ok key = true -> bytes_ok tape = true ->
    step cd ca (mkState kbpk h) (OpWrap key mask tape) = (mkState kbpk h, OutStr s) ->
    step cd ca (mkState kbpk h') (OpUnwrap s) = (mkState kbpk h, OutBytes key).
  Proof.
    intros Hok Bk Bkey Bt W. cbn [step st_kbpk st_header] in *.
    destruct (kb_wrap cd ca kbpk h key mask tape) as [s'|e] eqn:E; [|discriminate].
    injection W as <-.
    rewrite (kb_roundtrip h' kbpk h key mask tape s' Hok Bk Bkey Bt E). reflexivity.
  Qed.
End RoundTrip.

Print Assumptions roundtrip.
Print Assumptions roundtrip_str.
Print Assumptions roundtrip_object.
