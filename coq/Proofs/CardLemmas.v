(* Lemmas for C09 (CVV), C10 (Visa PVV) and C11 (IBM 3624 PIN / offset):
   the model functions of Model/Cvv.v and Model/Pin.v against the
   from-the-standard definitions of Spec/CardValues.v and Spec/IBM3624.v. *)
From Coq Require Import Lia ZifyBool ZifyNat ZifyN.
From Psec Require Import Lib.Base Cipher.Cipher Cipher.Toy Model.Tools Model.Cvv Model.Pin
  Proofs.XorLemmas Proofs.TdesLemmas Proofs.CardHex Spec.CardValues Spec.IBM3624.
Open Scope N_scope.
Ltac Zify.zify_post_hook ::= Z.to_euclidean_division_equations.

(* ------------------------------------------------------------------ *)
(* the spec's nibble helpers are the ones of Proofs/CardHex.v           *)
Lemma nibbles_of_bytes_nibs b : nibbles_of_bytes b = nibs b.
Proof. reflexivity. Qed.

Lemma bytes_of_nibbles_pack l : bytes_of_nibbles l = pack l.
Proof. reflexivity. Qed.

Lemma digits_of_length s : length (digits_of s) = length s.
Proof. apply map_length. Qed.

Lemma digits_of_app a b : digits_of (a ++ b) = digits_of a ++ digits_of b.
Proof. apply map_app. Qed.

Lemma digits_of_lt10 s : ascii_numeric s = true -> all_lt 10 (digits_of s).
Proof.
  rewrite ascii_numeric_forall. intros H x Hx. apply in_map_iff in Hx as (c & <- & Hc).
  specialize (H c Hc). apply is_digit_spec in H. lia.
Qed.

Lemma ascii_of_digits_length d : length (ascii_of_digits d) = length d.
Proof. apply map_length. Qed.

Lemma ascii_of_digits_numeric d : all_lt 10 d -> ascii_numeric (ascii_of_digits d) = true.
Proof.
  intros H. apply ascii_numeric_forall. intros c Hc. apply in_map_iff in Hc as (x & <- & Hx).
  specialize (H x Hx). apply is_digit_spec. lia.
Qed.

Lemma digits_of_ascii d : digits_of (ascii_of_digits d) = d.
Proof.
  unfold digits_of, ascii_of_digits. rewrite map_map. rewrite <- (map_id d) at 2.
  apply map_ext. intros x. lia.
Qed.

Lemma ascii_of_digits_of s : ascii_numeric s = true -> ascii_of_digits (digits_of s) = s.
Proof.
  intros H. unfold digits_of, ascii_of_digits. rewrite map_map. rewrite <- (map_id s) at 2.
  apply map_ext_in. intros c Hc. rewrite ascii_numeric_forall in H. specialize (H c Hc).
  apply is_digit_spec in H. lia.
Qed.

(* text of an even number of decimal digits -> packed bytes *)
Lemma hex_digits_bytes k s : length s = (2 * k)%nat -> ascii_numeric s = true ->
  a2b_hex s = Ok (bytes_of_nibbles (digits_of s)) /\
  bytes_fromhex s = Ok (bytes_of_nibbles (digits_of s)) /\
  length (bytes_of_nibbles (digits_of s)) = k /\
  bytes_ok (bytes_of_nibbles (digits_of s)) = true.
Proof.
  intros Hl Hn. rewrite bytes_of_nibbles_pack. unfold digits_of.
  rewrite <- (map_hv_digits s Hn).
  pose proof (numeric_is_hexchar s Hn) as Hh.
  split; [apply (a2b_hex_hexchar k); assumption|].
  split; [apply (bytes_fromhex_hexchar k); assumption|].
  split; [apply pack_length; rewrite map_length; assumption|].
  apply (pack_bytes_ok k); [rewrite map_length; assumption | apply map_hv_lt16; assumption].
Qed.

(* ------------------------------------------------------------------ *)
(* decimalisation (shared by C09 and C10)                               *)
Lemma decimalize_spec n ns : all_lt 16 ns ->
  decimalize n (map hexdigit_lower ns) = ascii_of_digits (spec_decimalize n ns).
Proof.
  intros H. unfold decimalize, spec_decimalize, ascii_of_digits.
  rewrite !filter_map.
  rewrite (filter_ext_in' (fun x => is_digit (hexdigit_lower x)) (fun x => x <? 10) ns)
    by (intros x Hx; apply hexdigit_lower_class; auto).
  rewrite (filter_ext_in' (fun x => is_af_lower (hexdigit_lower x)) (fun x => 10 <=? x) ns)
    by (intros x Hx; apply hexdigit_lower_class; auto).
  assert (HA : map hexdigit_lower (filter (fun x => x <? 10) ns) =
               map (fun x => 48 + x) (filter (fun x => x <? 10) ns)).
  { apply map_ext_in. intros x Hx. apply filter_In in Hx as [_ Hx]. unfold hexdigit_lower.
    rewrite Hx. reflexivity. }
  rewrite HA. clear HA.
  set (A := filter (fun x => x <? 10) ns).
  assert (HB : forall k, map af_to_digit (firstn k (map hexdigit_lower (filter (fun x => 10 <=? x) ns))) =
               map (fun x => 48 + x) (firstn k (map (fun x => x - 10) (filter (fun x => 10 <=? x) ns)))).
  { intros k. rewrite !firstn_map, !map_map. apply map_ext_in. intros x Hx.
    apply In_firstn in Hx. apply filter_In in Hx as [_ Hx]. unfold hexdigit_lower, af_to_digit.
    destruct (x <? 10) eqn:E; lia. }
  set (B := filter (fun x => 10 <=? x) ns) in *.
  cbv zeta. rewrite firstn_app, map_app. rewrite <- HB.
  rewrite firstn_map, map_length.
  destruct (Nat.ltb_spec (length (firstn n A)) n) as [Hlt|Hge].
  - rewrite firstn_length in Hlt. rewrite (firstn_all2 (n:=n) A) by lia. reflexivity.
  - rewrite firstn_length in Hge. replace (n - length A)%nat with O by lia.
    cbn [firstn map]. rewrite app_nil_r. reflexivity.
Qed.

Lemma spec_decimalize_length n ns : (n <= length ns)%nat -> length (spec_decimalize n ns) = n.
Proof.
  intros H. unfold spec_decimalize. rewrite firstn_length, app_length, map_length.
  pose proof (filter_length_split (fun x => x <? 10) ns) as S. cbv beta in S.
  rewrite (filter_ext_in' (fun x => negb (x <? 10)) (fun x => 10 <=? x) ns) in S by (intros; lia).
  lia.
Qed.

Lemma spec_decimalize_lt10 n ns : all_lt 16 ns -> all_lt 10 (spec_decimalize n ns).
Proof.
  intros H. unfold spec_decimalize. apply all_lt_firstn. apply all_lt_app. split.
  - intros x Hx. apply filter_In in Hx as [_ Hx]. lia.
  - intros x Hx. apply in_map_iff in Hx as (y & <- & Hy). apply filter_In in Hy as [Hy _].
    specialize (H y Hy). lia.
Qed.

Theorem decimalize_hex_lower n b : bytes_ok b = true ->
  decimalize n (hex_lower b) = ascii_of_digits (spec_decimalize n (nibbles_of_bytes b)) /\
  ((n <= 2 * length b)%nat -> length (decimalize n (hex_lower b)) = n) /\
  ascii_numeric (decimalize n (hex_lower b)) = true.
Proof.
  intros Hb. pose proof (nibs_lt16 b Hb) as Hn.
  rewrite hex_lower_nibs, decimalize_spec by assumption. change (nibbles_of_bytes b) with (nibs b).
  split; [reflexivity|]. split.
  - intros Hl. rewrite ascii_of_digits_length. apply spec_decimalize_length.
    rewrite nibs_length. assumption.
  - apply ascii_of_digits_numeric. apply spec_decimalize_lt10. assumption.
Qed.

(* ------------------------------------------------------------------ *)
(* guards as boolean equations                                          *)
Lemma tdes_valid_key_len k : tdes_valid_key k = true <->
  (length k = 8 \/ length k = 16 \/ length k = 24)%nat.
Proof.
  unfold tdes_valid_key, mem_nat. cbn [existsb]. rewrite !orb_true_iff, !Nat.eqb_eq. lia.
Qed.

Lemma tsp_window (pan : str) : (12 <= length pan)%nat ->
  drop_last 1 (last_n 12 pan) = firstn 11 (skipn (length pan - 12) pan).
Proof.
  intros H. unfold drop_last. rewrite last_n_length by assumption. reflexivity.
Qed.

Section Card.
  Variable cd : cipher.
  Hypothesis Hok : cipher_ok cd.
  Hypothesis Hbs : bs cd = 8%nat.
  Hypothesis Hvk : forall k, valid_key cd k = tdes_valid_key k.

  (* one block through encrypt_ecb *)
  Lemma enc_one key b : tdes_valid_key key = true -> length b = 8%nat -> bytes_ok b = true ->
    encrypt_ecb cd key b = Ok (enc cd key b) /\
    length (enc cd key b) = 8%nat /\ bytes_ok (enc cd key b) = true.
  Proof.
    intros Hk Hl Hb. rewrite <- Hvk in Hk. split.
    - apply encrypt_ecb_one; [assumption | assumption | congruence].
    - destruct (enc_block cd Hok key b Hk) as [L B]; [split; [congruence | assumption]|].
      split; [congruence | assumption].
  Qed.

  (* ---------------------------------------------------------------- *)
  (* C10: Visa PVV                                                     *)
  Theorem pvv_ok pvk pvki pin pan :
    tdes_valid_key pvk = true ->
    length pvki = 1%nat -> ascii_numeric pvki = true ->
    length pin = 4%nat -> ascii_numeric pin = true ->
    (12 <= length pan)%nat -> ascii_numeric pan = true ->
    exists v, generate_visa_pvv cd pvk pvki pin pan = Ok v /\
              v = spec_pvv (enc cd) pvk pvki pin pan /\
              length v = 4%nat /\ ascii_numeric v = true.
  Proof.
    intros Hk Hi Hin Hp Hpn Hl Hn.
    unfold generate_visa_pvv.
    change (mem_nat (length pvk) [8; 16; 24]%nat) with (tdes_valid_key pvk).
    rewrite Hk, Hi, Hin, Hp, Hpn, Hn.
    replace (length pan <? 12)%nat with false by (symmetry; apply Nat.ltb_ge; assumption).
    cbn [negb orb Nat.eqb]. cbv zeta.
    rewrite tsp_window by assumption.
    set (tsp := firstn 11 (skipn (length pan - 12) pan) ++ pvki ++ pin).
    assert (Ht : length tsp = (2 * 8)%nat).
    { unfold tsp. rewrite !app_length, firstn_length, skipn_length. lia. }
    assert (Htn : ascii_numeric tsp = true).
    { unfold tsp. apply ascii_numeric_app. split; [|apply ascii_numeric_app; split; assumption].
      apply ascii_numeric_firstn, ascii_numeric_skipn. assumption. }
    destruct (hex_digits_bytes 8 tsp Ht Htn) as (_ & Hf & Hbl & Hbo).
    rewrite Hf. cbn [bind].
    destruct (enc_one pvk _ Hk Hbl Hbo) as (He & Hel & Heo).
    rewrite He. cbn [bind].
    destruct (decimalize_hex_lower 4 _ Heo) as (Hd & Hdl & Hdn).
    eexists. split; [reflexivity|]. split; [|split].
    - rewrite Hd. unfold spec_pvv, spec_tsp. unfold tsp. rewrite !digits_of_app. reflexivity.
    - apply Hdl. rewrite Hel. lia.
    - assumption.
  Qed.

  Theorem pvv_domain pvk pvki pin pan :
    (tdes_valid_key pvk = false \/ length pvki <> 1%nat \/ ascii_numeric pvki = false \/
     length pin <> 4%nat \/ ascii_numeric pin = false \/
     (length pan < 12)%nat \/ ascii_numeric pan = false) ->
    generate_visa_pvv cd pvk pvki pin pan = Err ValueError.
  Proof using Type.
    clear Hok Hbs Hvk.
    intros H. unfold generate_visa_pvv.
    change (mem_nat (length pvk) [8; 16; 24]%nat) with (tdes_valid_key pvk).
    destruct (tdes_valid_key pvk) eqn:G1; cbn [negb]; [|reflexivity].
    destruct (Nat.eqb_spec (length pvki) 1); cbn [negb orb]; [|reflexivity].
    destruct (ascii_numeric pvki) eqn:G2; cbn [negb]; [|reflexivity].
    destruct (Nat.eqb_spec (length pin) 4); cbn [negb orb]; [|reflexivity].
    destruct (ascii_numeric pin) eqn:G3; cbn [negb]; [|reflexivity].
    destruct (Nat.ltb_spec (length pan) 12); cbn [orb]; [reflexivity|].
    destruct (ascii_numeric pan) eqn:G4; cbn [negb]; [|reflexivity].
    exfalso. destruct H as [H|[H|[H|[H|[H|[H|H]]]]]]; try discriminate; try contradiction; lia.
  Qed.

  (* total: a value or ValueError, never another exception *)
  Theorem pvv_total pvk pvki pin pan :
    (exists v, generate_visa_pvv cd pvk pvki pin pan = Ok v) \/
    generate_visa_pvv cd pvk pvki pin pan = Err ValueError.
  Proof.
    destruct (tdes_valid_key pvk) eqn:G1; [|right; apply pvv_domain; auto].
    destruct (Nat.eq_dec (length pvki) 1); [|right; apply pvv_domain; auto].
    destruct (ascii_numeric pvki) eqn:G2; [|right; apply pvv_domain; auto].
    destruct (Nat.eq_dec (length pin) 4); [|right; apply pvv_domain; auto].
    destruct (ascii_numeric pin) eqn:G3; [|right; apply pvv_domain; auto 6].
    destruct (Nat.lt_ge_cases (length pan) 12); [right; apply pvv_domain; auto 7|].
    destruct (ascii_numeric pan) eqn:G4; [|right; apply pvv_domain; auto 8].
    left. destruct (pvv_ok pvk pvki pin pan) as (v & Hv & _); auto. eauto.
  Qed.

  (* ---------------------------------------------------------------- *)
  (* C09: CVV                                                          *)
  Lemma cvv_text_block (s : str) : (length s <= 32)%nat -> ascii_numeric s = true ->
    let block := ljust 32 48 s in
    length (firstn 16 block) = (2 * 8)%nat /\ ascii_numeric (firstn 16 block) = true /\
    length (skipn 16 block) = (2 * 8)%nat /\ ascii_numeric (skipn 16 block) = true /\
    digits_of (firstn 16 block) = firstn 16 (pad_right 32 0 (digits_of s)) /\
    digits_of (skipn 16 block) = skipn 16 (pad_right 32 0 (digits_of s)).
  Proof using Type.
    clear Hok Hbs Hvk.
    intros Hl Hn block.
    assert (HL : length block = 32%nat) by (apply ljust_length; assumption).
    assert (HN : ascii_numeric block = true).
    { unfold block, ljust. apply ascii_numeric_app. split; [assumption|].
      apply ascii_numeric_repeat. reflexivity. }
    assert (HD : digits_of block = pad_right 32 0 (digits_of s)).
    { unfold block, ljust, pad_right, digits_of. rewrite map_ljust, map_length. reflexivity. }
    split; [rewrite firstn_length; lia|].
    split; [apply ascii_numeric_firstn; assumption|].
    split; [rewrite skipn_length; lia|].
    split; [apply ascii_numeric_skipn; assumption|].
    rewrite <- HD. unfold digits_of. split; [symmetry; apply firstn_map | symmetry; apply skipn_map].
  Qed.

  Theorem cvv_block_ok cvk pan expiry sc :
    length cvk = 16%nat ->
    (length pan <= 19)%nat -> ascii_numeric pan = true ->
    length expiry = 4%nat -> ascii_numeric expiry = true ->
    length sc = 3%nat -> ascii_numeric sc = true ->
    let nib := pad_right 32 0 (digits_of (pan ++ expiry ++ sc)) in
    let r := enc cd cvk (xor_bytes (enc cd (firstn 8 cvk) (bytes_of_nibbles (firstn 16 nib)))
                                   (bytes_of_nibbles (skipn 16 nib))) in
    cvv_block cd cvk pan expiry sc = Ok r /\ length r = 8%nat /\ bytes_ok r = true.
  Proof.
    intros Hk Hl Hn He Hen Hs Hsn nib r.
    unfold cvv_block. rewrite Hk, He, Hs, Hn, Hen, Hsn.
    replace (19 <? length pan)%nat with false by (symmetry; apply Nat.ltb_ge; assumption).
    cbn [negb orb Nat.eqb]. cbv zeta.
    assert (HsL : (length (pan ++ expiry ++ sc) <= 32)%nat) by (rewrite !app_length; lia).
    assert (HsN : ascii_numeric (pan ++ expiry ++ sc) = true).
    { apply ascii_numeric_app. split; [assumption|]. apply ascii_numeric_app. split; assumption. }
    destruct (cvv_text_block _ HsL HsN) as (L1 & N1 & L2 & N2 & D1 & D2).
    set (block := ljust 32 48 (pan ++ expiry ++ sc)) in *.
    destruct (hex_digits_bytes 8 _ L1 N1) as (A1 & _ & B1l & B1o).
    destruct (hex_digits_bytes 8 _ L2 N2) as (A2 & _ & B2l & B2o).
    rewrite D1 in *. rewrite D2 in *. fold nib in A1, A2, B1l, B1o, B2l, B2o.
    rewrite A1. cbn [bind].
    assert (Hk8 : tdes_valid_key (firstn 8 cvk) = true).
    { apply tdes_valid_key_len. rewrite firstn_length. lia. }
    destruct (enc_one (firstn 8 cvk) _ Hk8 B1l B1o) as (E1 & E1l & E1o).
    rewrite E1. cbn [bind]. rewrite A2. cbn [bind].
    rewrite py_xor_is_bytewise by assumption.
    rewrite xor_pos_combine by congruence.
    change (map (fun p => N.lxor (fst p) (snd p))
              (combine (enc cd (firstn 8 cvk) (bytes_of_nibbles (firstn 16 nib)))
                       (bytes_of_nibbles (skipn 16 nib))))
      with (xor_bytes (enc cd (firstn 8 cvk) (bytes_of_nibbles (firstn 16 nib)))
                      (bytes_of_nibbles (skipn 16 nib))).
    assert (Hk16 : tdes_valid_key cvk = true) by (apply tdes_valid_key_len; lia).
    assert (Xl : length (xor_bytes (enc cd (firstn 8 cvk) (bytes_of_nibbles (firstn 16 nib)))
                                   (bytes_of_nibbles (skipn 16 nib))) = 8%nat).
    { unfold xor_bytes. rewrite <- xor_pos_combine by congruence. rewrite xor_pos_length. assumption. }
    assert (Xo : bytes_ok (xor_bytes (enc cd (firstn 8 cvk) (bytes_of_nibbles (firstn 16 nib)))
                                     (bytes_of_nibbles (skipn 16 nib))) = true).
    { unfold xor_bytes. rewrite <- xor_pos_combine by congruence. apply xor_pos_bytes_ok; assumption. }
    destruct (enc_one cvk _ Hk16 Xl Xo) as (E2 & E2l & E2o).
    split; [exact E2|]. split; assumption.
  Qed.

  Theorem cvv_ok cvk pan expiry sc :
    length cvk = 16%nat ->
    (length pan <= 19)%nat -> ascii_numeric pan = true ->
    length expiry = 4%nat -> ascii_numeric expiry = true ->
    length sc = 3%nat -> ascii_numeric sc = true ->
    exists v, generate_cvv cd cvk pan expiry sc = Ok v /\
              v = spec_cvv (enc cd) cvk pan expiry sc /\
              length v = 3%nat /\ ascii_numeric v = true.
  Proof.
    intros Hk Hl Hn He Hen Hs Hsn.
    destruct (cvv_block_ok cvk pan expiry sc Hk Hl Hn He Hen Hs Hsn) as (Hb & Hrl & Hro).
    unfold generate_cvv. rewrite Hb. cbn [bind].
    destruct (decimalize_hex_lower 3 _ Hro) as (Hd & Hdl & Hdn).
    eexists. split; [reflexivity|]. split; [|split].
    - rewrite Hd. reflexivity.
    - apply Hdl. rewrite Hrl. lia.
    - assumption.
  Qed.

  Lemma cvv_block_domain cvk pan expiry sc :
    (length cvk <> 16%nat \/ (19 < length pan)%nat \/ ascii_numeric pan = false \/
     length expiry <> 4%nat \/ ascii_numeric expiry = false \/
     length sc <> 3%nat \/ ascii_numeric sc = false) ->
    cvv_block cd cvk pan expiry sc = Err ValueError.
  Proof using Type.
    clear Hok Hbs Hvk.
    intros H. unfold cvv_block.
    destruct (Nat.eqb_spec (length cvk) 16); cbn [negb]; [|reflexivity].
    destruct (Nat.ltb_spec 19 (length pan)); cbn [orb]; [reflexivity|].
    destruct (ascii_numeric pan) eqn:G2; cbn [negb]; [|reflexivity].
    destruct (Nat.eqb_spec (length expiry) 4); cbn [negb orb]; [|reflexivity].
    destruct (ascii_numeric expiry) eqn:G3; cbn [negb]; [|reflexivity].
    destruct (Nat.eqb_spec (length sc) 3); cbn [negb orb]; [|reflexivity].
    destruct (ascii_numeric sc) eqn:G4; cbn [negb]; [|reflexivity].
    exfalso. destruct H as [H|[H|[H|[H|[H|[H|H]]]]]]; try discriminate; try contradiction; lia.
  Qed.

  Theorem cvv_domain cvk pan expiry sc :
    (length cvk <> 16%nat \/ (19 < length pan)%nat \/ ascii_numeric pan = false \/
     length expiry <> 4%nat \/ ascii_numeric expiry = false \/
     length sc <> 3%nat \/ ascii_numeric sc = false) ->
    generate_cvv cd cvk pan expiry sc = Err ValueError.
  Proof using Type. clear Hok Hbs Hvk. intros H. unfold generate_cvv. rewrite cvv_block_domain by assumption. reflexivity. Qed.

  Theorem cvv_total cvk pan expiry sc :
    (exists v, generate_cvv cd cvk pan expiry sc = Ok v) \/
    generate_cvv cd cvk pan expiry sc = Err ValueError.
  Proof.
    destruct (Nat.eq_dec (length cvk) 16); [|right; apply cvv_domain; auto].
    destruct (Nat.lt_ge_cases 19 (length pan)); [right; apply cvv_domain; auto|].
    destruct (ascii_numeric pan) eqn:G2; [|right; apply cvv_domain; auto].
    destruct (Nat.eq_dec (length expiry) 4); [|right; apply cvv_domain; auto].
    destruct (ascii_numeric expiry) eqn:G3; [|right; apply cvv_domain; auto 6].
    destruct (Nat.eq_dec (length sc) 3); [|right; apply cvv_domain; auto 7].
    destruct (ascii_numeric sc) eqn:G4; [|right; apply cvv_domain; auto 8].
    left. destruct (cvv_ok cvk pan expiry sc) as (v & Hv & _); auto. eauto.
  Qed.
End Card.

(* ------------------------------------------------------------------ *)
(* instantiation: Triple DES built from any lawful single DES           *)
Lemma tdes_enc_double d k b : length k = 16%nat ->
  enc (tdes d) k b = des_enc d (firstn 8 k) (des_dec d (skipn 8 k) (des_enc d (firstn 8 k) b)).
Proof. intros H. cbn [enc tdes]. unfold tdes_keys. rewrite H. reflexivity. Qed.

Lemma tdes_enc_single d k b : des_ok d -> length k = 8%nat -> block8_ok b ->
  enc (tdes d) k b = des_enc d k b.
Proof. intros. apply tdes_single; assumption. Qed.

Theorem cvv_ok_tdes d cvk pan expiry sc : des_ok d ->
  length cvk = 16%nat ->
  (length pan <= 19)%nat -> ascii_numeric pan = true ->
  length expiry = 4%nat -> ascii_numeric expiry = true ->
  length sc = 3%nat -> ascii_numeric sc = true ->
  exists v, generate_cvv (tdes d) cvk pan expiry sc = Ok v /\
            v = spec_cvv (enc (tdes d)) cvk pan expiry sc /\
            v = spec_cvv_des (des_enc d) (des_dec d) cvk pan expiry sc /\
            length v = 3%nat /\ ascii_numeric v = true.
Proof.
  intros Hd Hk Hl Hn He Hen Hs Hsn.
  destruct (cvv_ok (tdes d) (tdes_ok d Hd) eq_refl (fun k => eq_refl) cvk pan expiry sc)
    as (v & Hv & Hspec & Hlen & Hnum); try assumption.
  exists v. split; [assumption|]. split; [assumption|]. split; [|split; assumption].
  rewrite Hspec. unfold spec_cvv, spec_cvv_des. cbv zeta.
  assert (HsL : (length (pan ++ expiry ++ sc) <= 32)%nat) by (rewrite !app_length; lia).
  assert (HsN : ascii_numeric (pan ++ expiry ++ sc) = true).
  { apply ascii_numeric_app. split; [assumption|]. apply ascii_numeric_app. split; assumption. }
  destruct (cvv_text_block _ HsL HsN) as (L1 & N1 & _ & _ & D1 & _).
  destruct (hex_digits_bytes 8 _ L1 N1) as (_ & _ & B1l & B1o). rewrite D1 in B1l, B1o.
  rewrite tdes_enc_double by assumption.
  rewrite (tdes_enc_single d (firstn 8 cvk)); [reflexivity | assumption | |].
  - rewrite firstn_length. lia.
  - split; assumption.
Qed.

Theorem pvv_ok_tdes d pvk pvki pin pan : des_ok d ->
  tdes_valid_key pvk = true ->
  length pvki = 1%nat -> ascii_numeric pvki = true ->
  length pin = 4%nat -> ascii_numeric pin = true ->
  (12 <= length pan)%nat -> ascii_numeric pan = true ->
  exists v, generate_visa_pvv (tdes d) pvk pvki pin pan = Ok v /\
            v = spec_pvv (enc (tdes d)) pvk pvki pin pan /\
            length v = 4%nat /\ ascii_numeric v = true.
Proof.
  intros Hd. apply (pvv_ok (tdes d) (tdes_ok d Hd) eq_refl (fun k => eq_refl)).
Qed.

(* ------------------------------------------------------------------ *)
(* C09, pinned behaviour: a single decimalisation pass can fall short.
   Witness: a lawful single DES (xor with the last key byte) inside the real
   Triple DES construction. *)
Definition xmask (k : list N) : N := last k 0 mod 256.
Definition xdes : des_prim :=
  {| des_enc := fun k b => map (fun x => N.lxor x (xmask k)) b;
     des_dec := fun k b => map (fun x => N.lxor x (xmask k)) b |}.

Lemma xmask_lt k : xmask k < 256.
Proof. unfold xmask. lia. Qed.

Theorem xdes_ok : des_ok xdes.
Proof.
  constructor; cbn [des_enc des_dec xdes]; unfold block8_ok.
  - intros k b _ [L B]. rewrite map_length. split; [assumption|].
    apply bytes_ok_map_xor; [apply xmask_lt | assumption].
  - intros k b _ [L B]. rewrite map_length. split; [assumption|].
    apply bytes_ok_map_xor; [apply xmask_lt | assumption].
  - intros. apply map_xor_twice.
  - intros. apply map_xor_twice.
Qed.

Definition legacy_cvk : bytes := [1; 2; 3; 4; 5; 6; 7; 0; 8; 9; 10; 11; 12; 13; 14; 238].
Definition legacy_pan : str := [49;49;49;49; 50;50;50;50; 51;51;51;51; 52;52;55;54].   (* "1111222233334476" *)
Definition legacy_expiry : str := [50; 53; 49; 50].                                     (* "2512" *)
Definition legacy_sc : str := [49; 48; 49].                                             (* "101" *)

(* Full statement that is FALSE for the pinned code (kept for the record):
     forall c cvk pan e s, cipher_ok c -> bs c = 8 -> (guards hold) ->
       exists v, generate_cvv_legacy c cvk pan e s = Ok v /\ length v = 3.
   Refutation, inside the genuine Triple DES construction over a lawful DES: *)
Theorem cvv_legacy_refuted_tdes :
  exists d, des_ok d /\
  exists cvk pan e s,
    length cvk = 16%nat /\ bytes_ok cvk = true /\
    (length pan <= 19)%nat /\ ascii_numeric pan = true /\
    length e = 4%nat /\ ascii_numeric e = true /\
    length s = 3%nat /\ ascii_numeric s = true /\
    exists v, generate_cvv_legacy (tdes d) cvk pan e s = Ok v /\ (length v < 3)%nat /\
    exists v', generate_cvv (tdes d) cvk pan e s = Ok v' /\ length v' = 3%nat /\ v' <> v.
Proof.
  exists xdes. split; [exact xdes_ok|].
  exists legacy_cvk, legacy_pan, legacy_expiry, legacy_sc.
  repeat (split; [vm_compute; (reflexivity || lia)|]).
  exists [57; 56]. split; [vm_compute; reflexivity|]. split; [cbn; lia|].
  exists [57; 56; 51]. split; [vm_compute; reflexivity|]. split; [reflexivity | discriminate].
Qed.

Theorem cvv_legacy_refuted :
  exists c, cipher_ok c /\ bs c = 8%nat /\ (forall k, valid_key c k = tdes_valid_key k) /\
  exists cvk pan e s,
    length cvk = 16%nat /\ bytes_ok cvk = true /\
    (length pan <= 19)%nat /\ ascii_numeric pan = true /\
    length e = 4%nat /\ ascii_numeric e = true /\
    length s = 3%nat /\ ascii_numeric s = true /\
    exists v, generate_cvv_legacy c cvk pan e s = Ok v /\ (length v < 3)%nat.
Proof.
  destruct cvv_legacy_refuted_tdes as (d & Hd & cvk & pan & e & s & H1 & H2 & H3 & H4 & H5 & H6 & H7 & H8 & v & Hv & Hl & _).
  exists (tdes d). split; [apply tdes_ok; assumption|]. split; [reflexivity|].
  split; [reflexivity|]. exists cvk, pan, e, s. repeat (split; [assumption|]).
  exists v. split; assumption.
Qed.

(* ------------------------------------------------------------------ *)
(* C11: IBM 3624                                                        *)
Lemma list_eqb_eq a b : list_eqb a b = true -> a = b.
Proof.
  revert b. induction a as [|x a IH]; intros [|y b] H; cbn [list_eqb] in H; try discriminate; [reflexivity|].
  apply andb_true_iff in H as [H1 H2]. apply N.eqb_eq in H1. subst. f_equal. auto.
Qed.

Lemma sweep10 (P : N -> bool) :
  forallb P [0;1;2;3;4;5;6;7;8;9] = true -> forall n, n <= 9 -> P n = true.
Proof.
  intros H n Hn. rewrite forallb_forall in H. apply H. apply le9_cases. assumption.
Qed.

(* str(x + y)[-1:]  and  str(10 + x - y)[-1:]  for decimal digits x, y *)
Lemma digit_add_last x y : x <= 9 -> y <= 9 ->
  last_n 1 (str_of_N (x + y)) = [48 + (x + y) mod 10].
Proof.
  intros Hx Hy.
  pose proof (sweep10 (fun x => forallb (fun y =>
     list_eqb (last_n 1 (str_of_N (x + y))) [48 + (x + y) mod 10]) [0;1;2;3;4;5;6;7;8;9])
     ltac:(vm_compute; reflexivity) x Hx) as H.
  cbv beta in H. rewrite forallb_forall in H. apply list_eqb_eq. apply H. apply le9_cases. assumption.
Qed.

Lemma digit_sub_last x y : x <= 9 -> y <= 9 ->
  last_n 1 (str_of_N (10 + x - y)) = [48 + (10 + x - y) mod 10].
Proof.
  intros Hx Hy.
  pose proof (sweep10 (fun x => forallb (fun y =>
     list_eqb (last_n 1 (str_of_N (10 + x - y))) [48 + (10 + x - y) mod 10]) [0;1;2;3;4;5;6;7;8;9])
     ltac:(vm_compute; reflexivity) x Hx) as H.
  cbv beta in H. rewrite forallb_forall in H. apply list_eqb_eq. apply H. apply le9_cases. assumption.
Qed.

Lemma int_of_dec_single a : is_digit a = true -> int_of_dec [a] = Ok (a - 48).
Proof.
  intros H. unfold int_of_dec, ascii_numeric, dec_value. cbn [forallb fold_left].
  rewrite H. cbn [andb]. reflexivity.
Qed.

Lemma ibm_add_spec : forall off ip,
  ascii_numeric ip = true -> ascii_numeric off = true -> (length off <= length ip)%nat ->
  ibm_add ip off = Ok (ascii_of_digits (map (fun p => (fst p + snd p) mod 10)
                                            (combine (digits_of ip) (digits_of off)))).
Proof.
  induction off as [|o off IH]; intros ip Hi Ho Hl.
  - destruct ip; reflexivity.
  - destruct ip as [|a ip]; [cbn in Hl; lia|].
    apply ascii_numeric_cons in Hi as [Ha Hi]. apply ascii_numeric_cons in Ho as [Ho' Ho].
    cbn [ibm_add]. rewrite (int_of_dec_single a Ha), (int_of_dec_single o Ho'). cbn [bind].
    rewrite IH by (try assumption; cbn in Hl; lia). cbn [bind].
    apply is_digit_spec in Ha. apply is_digit_spec in Ho'.
    rewrite digit_add_last by lia. reflexivity.
Qed.

Lemma ibm_sub_spec : forall pin ip,
  ascii_numeric ip = true -> ascii_numeric pin = true -> (length pin <= length ip)%nat ->
  ibm_sub ip pin = Ok (ascii_of_digits (map (fun p => (10 + snd p - fst p) mod 10)
                                            (combine (digits_of ip) (digits_of pin)))).
Proof.
  induction pin as [|o pin IH]; intros ip Hi Ho Hl.
  - destruct ip; reflexivity.
  - destruct ip as [|a ip]; [cbn in Hl; lia|].
    apply ascii_numeric_cons in Hi as [Ha Hi]. apply ascii_numeric_cons in Ho as [Ho' Ho].
    cbn [ibm_sub]. rewrite (int_of_dec_single a Ha), (int_of_dec_single o Ho'). cbn [bind].
    rewrite IH by (try assumption; cbn in Hl; lia). cbn [bind].
    apply is_digit_spec in Ha. apply is_digit_spec in Ho'.
    rewrite digit_sub_last by lia. reflexivity.
Qed.

(* digit-wise inverses *)
Lemma sub_add_inv : forall od nat, all_lt 10 nat -> all_lt 10 od -> (length od <= length nat)%nat ->
  map (fun p => (10 + snd p - fst p) mod 10)
      (combine nat (map (fun p => (fst p + snd p) mod 10) (combine nat od))) = od.
Proof.
  induction od as [|o od IH]; intros nat Hn Ho Hl.
  - destruct nat; reflexivity.
  - destruct nat as [|a nat]; [cbn in Hl; lia|].
    apply all_lt_cons in Hn as [Ha Hn]. apply all_lt_cons in Ho as [Ho' Ho].
    cbn [combine map fst snd]. rewrite IH by (try assumption; cbn in Hl; lia).
    f_equal. lia.
Qed.

Lemma add_sub_inv : forall pd nat, all_lt 10 nat -> all_lt 10 pd -> (length pd <= length nat)%nat ->
  map (fun p => (fst p + snd p) mod 10)
      (combine nat (map (fun p => (10 + snd p - fst p) mod 10) (combine nat pd))) = pd.
Proof.
  induction pd as [|o pd IH]; intros nat Hn Ho Hl.
  - destruct nat; reflexivity.
  - destruct nat as [|a nat]; [cbn in Hl; lia|].
    apply all_lt_cons in Hn as [Ha Hn]. apply all_lt_cons in Ho as [Ho' Ho].
    cbn [combine map fst snd]. rewrite IH by (try assumption; cbn in Hl; lia).
    f_equal. lia.
Qed.

Lemma nth_digits_of : forall t i, nth i (digits_of t) 0 = nth i t 0 - 48.
Proof.
  induction t as [|c t IH]; intros [|i]; try reflexivity. cbn [digits_of map nth]. apply IH.
Qed.

Lemma translate16_hex_upper table ns : length table = 16%nat -> all_lt 16 ns ->
  translate16 table (map hexdigit_upper ns) = map (fun n => nth (N.to_nat n) table 0) ns.
Proof.
  intros Ht Hn. unfold translate16. rewrite map_map. apply map_ext_in. intros n Hin.
  specialize (Hn n Hin). destruct (hexdigit_upper_unhex n Hn) as [-> ->].
  apply nth_indep. lia.
Qed.

Lemma upper_hex s : ascii_hexchar s = true ->
  ascii_hexchar (ascii_upper s) = true /\ map hv (ascii_upper s) = map hv s.
Proof.
  intros H. rewrite ascii_hexchar_forall in H. split.
  - apply ascii_hexchar_forall. intros c Hc. apply in_map_iff in Hc as (x & <- & Hx).
    apply hv_up_char. auto.
  - unfold ascii_upper. rewrite map_map. apply map_ext_in. intros c Hc. apply hv_up_char. auto.
Qed.

Lemma hv_hexchar_value c : is_hexch c = true -> hv c = hexchar_value c.
Proof.
  intros H. apply is_hexch_spec in H. unfold hv, unhex_digit, hexchar_value, is_digit.
  destruct ((48 <=? c) && (c <=? 57)) eqn:E1; [reflexivity|].
  destruct ((65 <=? c) && (c <=? 70)) eqn:E2; [reflexivity|].
  destruct ((97 <=? c) && (c <=? 102)) eqn:E3; [reflexivity|]. lia.
Qed.

Lemma slice_numeric o l (pan : str) : ascii_numeric pan = true -> ascii_numeric (slice o l pan) = true.
Proof. intros H. unfold slice. apply ascii_numeric_firstn, ascii_numeric_skipn. assumption. Qed.

Lemma validation_text pan o l padc : ascii_numeric pan = true -> is_hexch padc = true ->
  let vt := ascii_upper (ljust 16 padc (firstn 16 (slice o l pan))) in
  length vt = (2 * 8)%nat /\ ascii_hexchar vt = true /\
  map hv vt = spec_validation_nibbles pan o l padc.
Proof.
  intros Hn Hp vt.
  pose proof (slice_numeric o l pan Hn) as Hs.
  pose proof (ascii_numeric_firstn 16 _ Hs) as Hf.
  assert (Hfl : (length (firstn 16 (slice o l pan)) <= 16)%nat) by apply firstn_le_length.
  assert (Hw : ascii_hexchar (ljust 16 padc (firstn 16 (slice o l pan))) = true).
  { apply ascii_hexchar_forall. intros c Hc. unfold ljust in Hc. apply in_app_or in Hc as [Hc|Hc].
    - apply digit_is_hexch. rewrite ascii_numeric_forall in Hf. auto.
    - apply repeat_spec in Hc. subst. assumption. }
  destruct (upper_hex _ Hw) as [U1 U2]. fold vt in U1, U2.
  split; [unfold vt, ascii_upper; rewrite map_length; apply ljust_length; assumption|].
  split; [assumption|].
  rewrite U2. unfold ljust. rewrite map_ljust. rewrite (map_hv_digits _ Hf).
  rewrite (hv_hexchar_value padc Hp).
  unfold spec_validation_nibbles, pad_right, slice, digits_of.
  rewrite firstn_map, map_length. reflexivity.
Qed.

Section Ibm.
  Variable cd : cipher.
  Hypothesis Hok : cipher_ok cd.
  Hypothesis Hbs : bs cd = 8%nat.
  Hypothesis Hvk : forall k, valid_key cd k = tdes_valid_key k.

  Theorem ibm_intermediate_ok pvk table digits pan o l padc :
    tdes_valid_key pvk = true ->
    length table = 16%nat -> ascii_numeric table = true ->
    (4 <= length digits <= 16)%nat -> ascii_numeric digits = true ->
    (length pan <= 19)%nat -> ascii_numeric pan = true ->
    is_hexch padc = true ->
    length (slice o l pan) = l ->
    exists ip, ibm_intermediate cd pvk table digits pan o l [padc] = Ok ip /\
               length ip = 16%nat /\ ascii_numeric ip = true /\
               digits_of ip = spec_natural_pin (enc cd) pvk table pan o l padc.
  Proof.
    intros Hk Ht Htn Hd Hdn Hl Hn Hp Hw.
    unfold ibm_intermediate.
    change (mem_nat (length pvk) [8; 16; 24]%nat) with (tdes_valid_key pvk).
    rewrite Hk, Ht, Htn, Hdn, Hn.
    replace (length digits <? 4)%nat with false by (symmetry; apply Nat.ltb_ge; lia).
    replace (16 <? length digits)%nat with false by (symmetry; apply Nat.ltb_ge; lia).
    replace (19 <? length pan)%nat with false by (symmetry; apply Nat.ltb_ge; lia).
    replace (ascii_hexchar [padc]) with true
      by (symmetry; apply ascii_hexchar_cons; split; [assumption | reflexivity]).
    cbn [negb orb Nat.eqb length]. cbv zeta.
    rewrite Hw, Nat.eqb_refl. cbn [negb].
    destruct (validation_text pan o l padc Hn Hp) as (V1 & V2 & V3). cbv zeta in V1, V2, V3.
    set (vt := ascii_upper (ljust 16 padc (firstn 16 (slice o l pan)))) in *.
    rewrite (bytes_fromhex_hexchar 8 vt V1 V2). cbn [bind].
    assert (Bl : length (pack (map hv vt)) = 8%nat) by (apply pack_length; rewrite map_length; assumption).
    assert (Bo : bytes_ok (pack (map hv vt)) = true).
    { apply (pack_bytes_ok 8); [rewrite map_length; assumption | apply map_hv_lt16; assumption]. }
    destruct (enc_one cd Hok Hbs Hvk pvk _ Hk Bl Bo) as (E & El & Eo).
    rewrite E. cbn [bind].
    pose proof (nibs_lt16 _ Eo) as Hnib.
    rewrite hex_upper_nibs, translate16_hex_upper by assumption.
    eexists. split; [reflexivity|]. split; [|split].
    - rewrite map_length, nibs_length, El. reflexivity.
    - apply ascii_numeric_forall. intros c Hc. apply in_map_iff in Hc as (n & <- & Hin).
      specialize (Hnib n Hin). rewrite ascii_numeric_forall in Htn. apply Htn. apply nth_In. lia.
    - unfold spec_natural_pin. rewrite <- V3. unfold digits_of at 1. rewrite map_map.
      apply map_ext. intros n. symmetry. apply nth_digits_of.
  Qed.

  Lemma natural_pin_facts pvk table pan o l padc :
    tdes_valid_key pvk = true ->
    length table = 16%nat -> ascii_numeric table = true ->
    (length pan <= 19)%nat -> ascii_numeric pan = true ->
    is_hexch padc = true ->
    length (slice o l pan) = l ->
    length (spec_natural_pin (enc cd) pvk table pan o l padc) = 16%nat /\
    all_lt 10 (spec_natural_pin (enc cd) pvk table pan o l padc).
  Proof.
    intros Hk Ht Htn Hl Hn Hp Hw.
    destruct (ibm_intermediate_ok pvk table [48;48;48;48] pan o l padc) as (ip & _ & L & N & D);
      try assumption; [cbn; lia | reflexivity |].
    rewrite <- D. split; [rewrite digits_of_length; assumption | apply digits_of_lt10; assumption].
  Qed.

  Theorem ibm_pin_ok pvk table offset pan o l padc :
    tdes_valid_key pvk = true ->
    length table = 16%nat -> ascii_numeric table = true ->
    (4 <= length offset <= 16)%nat -> ascii_numeric offset = true ->
    (length pan <= 19)%nat -> ascii_numeric pan = true ->
    is_hexch padc = true ->
    length (slice o l pan) = l ->
    exists p, generate_ibm3624_pin cd pvk table offset pan o l [padc] = Ok p /\
              p = spec_ibm3624_pin (enc cd) pvk table offset pan o l padc /\
              length p = length offset /\ ascii_numeric p = true.
  Proof.
    intros Hk Ht Htn Hd Hdn Hl Hn Hp Hw.
    destruct (ibm_intermediate_ok pvk table offset pan o l padc) as (ip & Hi & L & N & D); try assumption.
    unfold generate_ibm3624_pin. rewrite Hi. cbn [bind].
    rewrite ibm_add_spec by (try assumption; lia).
    eexists. split; [reflexivity|]. rewrite D. split; [reflexivity|]. split.
    - rewrite ascii_of_digits_length, map_length, combine_length, digits_of_length.
      rewrite <- D, digits_of_length. lia.
    - apply ascii_of_digits_numeric. intros x Hx. apply in_map_iff in Hx as (q & <- & _). lia.
  Qed.

  Theorem ibm_offset_ok pvk table pin pan o l padc :
    tdes_valid_key pvk = true ->
    length table = 16%nat -> ascii_numeric table = true ->
    (4 <= length pin <= 16)%nat -> ascii_numeric pin = true ->
    (length pan <= 19)%nat -> ascii_numeric pan = true ->
    is_hexch padc = true ->
    length (slice o l pan) = l ->
    exists f, generate_ibm3624_offset cd pvk table pin pan o l [padc] = Ok f /\
              f = spec_ibm3624_offset (enc cd) pvk table pin pan o l padc /\
              length f = length pin /\ ascii_numeric f = true.
  Proof.
    intros Hk Ht Htn Hd Hdn Hl Hn Hp Hw.
    destruct (ibm_intermediate_ok pvk table pin pan o l padc) as (ip & Hi & L & N & D); try assumption.
    unfold generate_ibm3624_offset. rewrite Hi. cbn [bind].
    rewrite ibm_sub_spec by (try assumption; lia).
    eexists. split; [reflexivity|]. rewrite D. split; [reflexivity|]. split.
    - rewrite ascii_of_digits_length, map_length, combine_length, digits_of_length.
      rewrite <- D, digits_of_length. lia.
    - apply ascii_of_digits_numeric. intros x Hx. apply in_map_iff in Hx as (q & <- & _). lia.
  Qed.

  (* offset(pin(o)) = o *)
  Theorem ibm_inverse1 pvk table offset pan o l padc :
    tdes_valid_key pvk = true ->
    length table = 16%nat -> ascii_numeric table = true ->
    (4 <= length offset <= 16)%nat -> ascii_numeric offset = true ->
    (length pan <= 19)%nat -> ascii_numeric pan = true ->
    is_hexch padc = true ->
    length (slice o l pan) = l ->
    exists p, generate_ibm3624_pin cd pvk table offset pan o l [padc] = Ok p /\
              generate_ibm3624_offset cd pvk table p pan o l [padc] = Ok offset.
  Proof.
    intros Hk Ht Htn Hd Hdn Hl Hn Hp Hw.
    destruct (ibm_pin_ok pvk table offset pan o l padc) as (p & Hg & Hs & Hpl & Hpn); try assumption.
    exists p. split; [assumption|].
    destruct (ibm_offset_ok pvk table p pan o l padc) as (f & Hf & Hfs & _); try assumption; [lia|].
    rewrite Hf. f_equal. rewrite Hfs, Hs. unfold spec_ibm3624_offset, spec_ibm3624_pin.
    destruct (natural_pin_facts pvk table pan o l padc) as (NL & NT); try assumption.
    rewrite digits_of_ascii. rewrite sub_add_inv.
    - apply ascii_of_digits_of. assumption.
    - assumption.
    - apply digits_of_lt10. assumption.
    - rewrite digits_of_length. lia.
  Qed.

  (* pin(offset(p)) = p *)
  Theorem ibm_inverse2 pvk table pin pan o l padc :
    tdes_valid_key pvk = true ->
    length table = 16%nat -> ascii_numeric table = true ->
    (4 <= length pin <= 16)%nat -> ascii_numeric pin = true ->
    (length pan <= 19)%nat -> ascii_numeric pan = true ->
    is_hexch padc = true ->
    length (slice o l pan) = l ->
    exists f, generate_ibm3624_offset cd pvk table pin pan o l [padc] = Ok f /\
              generate_ibm3624_pin cd pvk table f pan o l [padc] = Ok pin.
  Proof.
    intros Hk Ht Htn Hd Hdn Hl Hn Hp Hw.
    destruct (ibm_offset_ok pvk table pin pan o l padc) as (f & Hg & Hs & Hfl & Hfn); try assumption.
    exists f. split; [assumption|].
    destruct (ibm_pin_ok pvk table f pan o l padc) as (p & Hq & Hps & _); try assumption; [lia|].
    rewrite Hq. f_equal. rewrite Hps, Hs. unfold spec_ibm3624_offset, spec_ibm3624_pin.
    destruct (natural_pin_facts pvk table pan o l padc) as (NL & NT); try assumption.
    rewrite digits_of_ascii. rewrite add_sub_inv.
    - apply ascii_of_digits_of. assumption.
    - assumption.
    - apply digits_of_lt10. assumption.
    - rewrite digits_of_length. lia.
  Qed.
End Ibm.

(* guards, no crash, pad case: these need nothing of the cipher *)
Lemma ibm_intermediate_domain cd pvk table digits pan o l pad :
  (tdes_valid_key pvk = false \/ length table <> 16%nat \/ ascii_numeric table = false \/
   (length digits < 4)%nat \/ (16 < length digits)%nat \/ ascii_numeric digits = false \/
   (19 < length pan)%nat \/ ascii_numeric pan = false \/
   length pad <> 1%nat \/ ascii_hexchar pad = false \/
   length (slice o l pan) <> l) ->
  ibm_intermediate cd pvk table digits pan o l pad = Err ValueError.
Proof.
  intros H. unfold ibm_intermediate.
  change (mem_nat (length pvk) [8; 16; 24]%nat) with (tdes_valid_key pvk).
  destruct (tdes_valid_key pvk) eqn:G1; cbn [negb]; [|reflexivity].
  destruct (Nat.eqb_spec (length table) 16); cbn [negb orb]; [|reflexivity].
  destruct (ascii_numeric table) eqn:G2; cbn [negb]; [|reflexivity].
  destruct (Nat.ltb_spec (length digits) 4); cbn [orb]; [reflexivity|].
  destruct (Nat.ltb_spec 16 (length digits)); cbn [orb]; [reflexivity|].
  destruct (ascii_numeric digits) eqn:G3; cbn [negb]; [|reflexivity].
  destruct (Nat.ltb_spec 19 (length pan)); cbn [orb]; [reflexivity|].
  destruct (ascii_numeric pan) eqn:G4; cbn [negb]; [|reflexivity].
  destruct (Nat.eqb_spec (length pad) 1); cbn [negb orb]; [|reflexivity].
  destruct (ascii_hexchar pad) eqn:G5; cbn [negb]; [|reflexivity].
  cbv zeta.
  destruct (Nat.eqb_spec (length (slice o l pan)) l); cbn [negb]; [|reflexivity].
  exfalso.
  destruct H as [H|[H|[H|[H|[H|[H|[H|[H|[H|[H|H]]]]]]]]]]; try discriminate; try contradiction; lia.
Qed.

Theorem ibm_pin_domain cd pvk table offset pan o l pad :
  (tdes_valid_key pvk = false \/ length table <> 16%nat \/ ascii_numeric table = false \/
   (length offset < 4)%nat \/ (16 < length offset)%nat \/ ascii_numeric offset = false \/
   (19 < length pan)%nat \/ ascii_numeric pan = false \/
   length pad <> 1%nat \/ ascii_hexchar pad = false \/
   length (slice o l pan) <> l) ->
  generate_ibm3624_pin cd pvk table offset pan o l pad = Err ValueError.
Proof.
  intros H. unfold generate_ibm3624_pin. rewrite ibm_intermediate_domain by assumption. reflexivity.
Qed.

Theorem ibm_offset_domain cd pvk table pin pan o l pad :
  (tdes_valid_key pvk = false \/ length table <> 16%nat \/ ascii_numeric table = false \/
   (length pin < 4)%nat \/ (16 < length pin)%nat \/ ascii_numeric pin = false \/
   (19 < length pan)%nat \/ ascii_numeric pan = false \/
   length pad <> 1%nat \/ ascii_hexchar pad = false \/
   length (slice o l pan) <> l) ->
  generate_ibm3624_offset cd pvk table pin pan o l pad = Err ValueError.
Proof.
  intros H. unfold generate_ibm3624_offset. rewrite ibm_intermediate_domain by assumption. reflexivity.
Qed.

(* the accepted window, in arithmetic terms *)
Lemma ibm_window_iff {A} o l (pan : list A) :
  length (slice o l pan) = l <-> (l = 0 \/ o + l <= length pan)%nat.
Proof. unfold slice. rewrite firstn_length, skipn_length. lia. Qed.

Lemma ibm_domain_cases pvk table digits pan (o l : nat) (pad : str) :
  (tdes_valid_key pvk = true /\ length table = 16%nat /\ ascii_numeric table = true /\
   (4 <= length digits <= 16)%nat /\ ascii_numeric digits = true /\
   (length pan <= 19)%nat /\ ascii_numeric pan = true /\
   (exists padc, pad = [padc] /\ is_hexch padc = true) /\
   length (slice o l pan) = l) \/
  (tdes_valid_key pvk = false \/ length table <> 16%nat \/ ascii_numeric table = false \/
   (length digits < 4)%nat \/ (16 < length digits)%nat \/ ascii_numeric digits = false \/
   (19 < length pan)%nat \/ ascii_numeric pan = false \/
   length pad <> 1%nat \/ ascii_hexchar pad = false \/
   length (slice o l pan) <> l).
Proof.
  destruct (tdes_valid_key pvk) eqn:G1; [|tauto].
  destruct (Nat.eq_dec (length table) 16); [|tauto].
  destruct (ascii_numeric table) eqn:G2; [|tauto].
  destruct (Nat.lt_ge_cases (length digits) 4); [tauto|].
  destruct (Nat.lt_ge_cases 16 (length digits)); [tauto|].
  destruct (ascii_numeric digits) eqn:G3; [|tauto].
  destruct (Nat.lt_ge_cases 19 (length pan)); [tauto|].
  destruct (ascii_numeric pan) eqn:G4; [|tauto].
  destruct (Nat.eq_dec (length pad) 1) as [E|]; [|tauto].
  destruct (ascii_hexchar pad) eqn:G5; [|tauto].
  destruct (Nat.eq_dec (length (slice o l pan)) l); [|tauto].
  left. repeat (split; [assumption || lia|]). split; [|assumption].
  destruct pad as [|c [|]]; try discriminate E. exists c. split; [reflexivity|].
  apply ascii_hexchar_cons in G5. tauto.
Qed.

Theorem ibm_total cd : cipher_ok cd -> bs cd = 8%nat -> (forall k, valid_key cd k = tdes_valid_key k) ->
  forall pvk table digits pan o l pad,
  ((exists v, generate_ibm3624_pin cd pvk table digits pan o l pad = Ok v) \/
   generate_ibm3624_pin cd pvk table digits pan o l pad = Err ValueError) /\
  ((exists v, generate_ibm3624_offset cd pvk table digits pan o l pad = Ok v) \/
   generate_ibm3624_offset cd pvk table digits pan o l pad = Err ValueError).
Proof.
  intros Hok Hbs Hvk pvk table digits pan o l pad.
  destruct (ibm_domain_cases pvk table digits pan o l pad) as
    [(H1 & H2 & H3 & H4 & H5 & H6 & H7 & (c & -> & H8) & H9)|H].
  - split; left.
    + destruct (ibm_pin_ok cd Hok Hbs Hvk pvk table digits pan o l c) as (p & Hp & _); try assumption. eauto.
    + destruct (ibm_offset_ok cd Hok Hbs Hvk pvk table digits pan o l c) as (p & Hp & _); try assumption. eauto.
  - split; right; [apply ibm_pin_domain | apply ibm_offset_domain]; assumption.
Qed.

Theorem ibm_no_crash cd : cipher_ok cd -> bs cd = 8%nat -> (forall k, valid_key cd k = tdes_valid_key k) ->
  forall pvk table digits pan o l pad,
  is_crash (generate_ibm3624_pin cd pvk table digits pan o l pad) = false /\
  is_crash (generate_ibm3624_offset cd pvk table digits pan o l pad) = false.
Proof.
  intros Hok Hbs Hvk pvk table digits pan o l pad.
  destruct (ibm_total cd Hok Hbs Hvk pvk table digits pan o l pad) as [[(v & ->)| ->] [(w & ->)| ->]];
    split; reflexivity.
Qed.

(* a lower-case pad digit behaves as its upper-case form *)
Lemma ibm_intermediate_pad_case cd pvk table digits pan o l c : 97 <= c <= 102 ->
  ibm_intermediate cd pvk table digits pan o l [c] =
  ibm_intermediate cd pvk table digits pan o l [c - 32].
Proof.
  intros Hc. unfold ibm_intermediate.
  assert (H1 : ascii_hexchar [c] = true).
  { apply ascii_hexchar_cons. split; [apply is_hexch_spec; lia | reflexivity]. }
  assert (H2 : ascii_hexchar [c - 32] = true).
  { apply ascii_hexchar_cons. split; [apply is_hexch_spec; lia | reflexivity]. }
  rewrite H1, H2. cbv zeta.
  assert (HU : forall s, ascii_upper (ljust 16 c s) = ascii_upper (ljust 16 (c - 32) s)).
  { intros s. unfold ascii_upper, ljust. rewrite !map_ljust. f_equal. f_equal.
    unfold up_char, is_lower.
    destruct ((97 <=? c) && (c <=? 122)) eqn:E1; [|lia].
    destruct ((97 <=? c - 32) && (c - 32 <=? 122)) eqn:E2; [lia|]. reflexivity. }
  rewrite HU. reflexivity.
Qed.

Theorem ibm_pad_case cd pvk table digits pan o l c : 97 <= c <= 102 ->
  generate_ibm3624_pin cd pvk table digits pan o l [c] =
    generate_ibm3624_pin cd pvk table digits pan o l [c - 32] /\
  generate_ibm3624_offset cd pvk table digits pan o l [c] =
    generate_ibm3624_offset cd pvk table digits pan o l [c - 32].
Proof.
  intros Hc. unfold generate_ibm3624_pin, generate_ibm3624_offset.
  rewrite (ibm_intermediate_pad_case cd pvk table digits pan o l c Hc). split; reflexivity.
Qed.

(* no other exception for CVV / PVV either *)
Theorem cvv_no_crash cd : cipher_ok cd -> bs cd = 8%nat -> (forall k, valid_key cd k = tdes_valid_key k) ->
  forall cvk pan expiry sc, is_crash (generate_cvv cd cvk pan expiry sc) = false.
Proof.
  intros Hok Hbs Hvk cvk pan expiry sc.
  destruct (cvv_total cd Hok Hbs Hvk cvk pan expiry sc) as [(v & ->)| ->]; reflexivity.
Qed.

Theorem pvv_no_crash cd : cipher_ok cd -> bs cd = 8%nat -> (forall k, valid_key cd k = tdes_valid_key k) ->
  forall pvk pvki pin pan, is_crash (generate_visa_pvv cd pvk pvki pin pan) = false.
Proof.
  intros Hok Hbs Hvk pvk pvki pin pan.
  destruct (pvv_total cd Hok Hbs Hvk pvk pvki pin pan) as [(v & ->)| ->]; reflexivity.
Qed.
