(* C16 - documented input domains, part 2: psec.pinblock *)
From Coq Require Import Lia ZifyBool ZifyNat ZifyN.
From Psec Require Import Lib.Base Cipher.Cipher Model.Tools Model.Pinblock
  Proofs.XorLemmas Proofs.DomainLemmas.
Ltac Zify.zify_post_hook ::= Z.to_euclidean_division_equations.
Open Scope N_scope.

(* ------------------------------------------------------------------ *)
(* documented domains                                                   *)
Definition dom_pin (pin : str) : Prop := (4 <= length pin <= 12)%nat /\ dec_str pin.
Definition dom_pan13 (pan : str) : Prop := (13 <= length pan)%nat /\ dec_str pan.
Definition dom_pan_1_19 (pan : str) : Prop := (1 <= length pan <= 19)%nat /\ dec_str pan.

Definition dom_encode_pinblock_iso_0 (pin pan : str) : Prop := dom_pin pin /\ dom_pan13 pan.
Definition dom_encode_pinblock_iso_2 (pin : str) : Prop := dom_pin pin.
Definition dom_encode_pinblock_iso_3 (pin pan : str) : Prop := dom_pin pin /\ dom_pan13 pan.
Definition dom_encode_pin_field_iso_4 (pin : str) : Prop := dom_pin pin.
Definition dom_encode_pan_field_iso_4 (pan : str) : Prop := dom_pan_1_19 pan.
Definition dom_encipher_pinblock_iso_4 (key : bytes) (pin pan : str) : Prop :=
  dom_aes_key key /\ dom_pin pin /\ dom_pan_1_19 pan.
(* necessary conditions of the decoders (their exact accept sets are C06) *)
Definition dom_decode_pinblock_pan (pinblock : bytes) (pan : str) : Prop :=
  dom_pan13 pan /\ length pinblock = 8%nat.
Definition dom_decipher_pinblock_iso_4 (key pin_block : bytes) (pan : str) : Prop :=
  dom_aes_key key /\ length pin_block = 16%nat /\ dom_pan_1_19 pan.

(* ------------------------------------------------------------------ *)
(* bridges                                                              *)
Lemma bad_pin_false pin : bad_pin pin = false <-> dom_pin pin.
Proof.
  unfold bad_pin, dom_pin.
  rewrite !orb_false_iff, negb_false_iff, ascii_numeric_iff, !Nat.ltb_ge. intuition lia.
Qed.
Lemma bad_pin_true pin : bad_pin pin = true <-> ~ dom_pin pin.
Proof. rewrite <- bad_pin_false. destruct (bad_pin pin); split; congruence. Qed.
Lemma dom_pin_dec pin : dom_pin pin \/ ~ dom_pin pin.
Proof. rewrite <- bad_pin_false. destruct (bad_pin pin); [right|left]; congruence. Qed.

Lemma bad_pan13_false pan : bad_pan13 pan = false <-> dom_pan13 pan.
Proof.
  unfold bad_pan13, dom_pan13.
  rewrite !orb_false_iff, negb_false_iff, ascii_numeric_iff, !Nat.ltb_ge. intuition lia.
Qed.
Lemma bad_pan13_true pan : bad_pan13 pan = true <-> ~ dom_pan13 pan.
Proof. rewrite <- bad_pan13_false. destruct (bad_pan13 pan); split; congruence. Qed.
Lemma dom_pan13_dec pan : dom_pan13 pan \/ ~ dom_pan13 pan.
Proof. rewrite <- bad_pan13_false. destruct (bad_pan13 pan); [right|left]; congruence. Qed.

Definition bad_pan_1_19 (pan : str) : bool :=
  (length pan <? 1)%nat || (19 <? length pan)%nat || negb (ascii_numeric pan).
Lemma bad_pan_1_19_false pan : bad_pan_1_19 pan = false <-> dom_pan_1_19 pan.
Proof.
  unfold bad_pan_1_19, dom_pan_1_19.
  rewrite !orb_false_iff, negb_false_iff, ascii_numeric_iff, !Nat.ltb_ge. intuition lia.
Qed.
Lemma bad_pan_1_19_true pan : bad_pan_1_19 pan = true <-> ~ dom_pan_1_19 pan.
Proof. rewrite <- bad_pan_1_19_false. destruct (bad_pan_1_19 pan); split; congruence. Qed.
Lemma dom_pan_1_19_dec pan : dom_pan_1_19 pan \/ ~ dom_pan_1_19 pan.
Proof. rewrite <- bad_pan_1_19_false. destruct (bad_pan_1_19 pan); [right|left]; congruence. Qed.

(* ------------------------------------------------------------------ *)
(* building blocks                                                      *)
Lemma pan_block_shape pan : dom_pan13 pan ->
  exists p, a2b_hex (drop_last 1 (last_n 13 pan)) = Ok p /\ pan_block pan = Ok (0 :: 0 :: p) /\
            length p = 6%nat /\ bytes_ok p = true.
Proof.
  intros [L D]. unfold pan_block.
  destruct (a2b_hex_ok 6 (drop_last 1 (last_n 13 pan))) as (p & E & Lp & Bp).
  - rewrite drop_last_length, last_n_length by lia. reflexivity.
  - apply dec_hex, Forall_drop_last, Forall_last_n. assumption.
  - exists p. rewrite E. cbn [bind]. auto.
Qed.

Lemma pin_body_shape pin fill : dom_pin pin -> length fill = (14 - length pin)%nat ->
  uhex_str fill ->
  exists body, a2b_hex (pin ++ fill) = Ok body /\ length body = 7%nat /\ bytes_ok body = true.
Proof.
  intros [L D] Lf Hf. apply a2b_hex_ok.
  - rewrite app_length. lia.
  - apply Forall_app. split; [apply dec_hex; assumption|apply uhex_hex; assumption].
Qed.

Lemma fill_F (pin : str) : uhex_str (repeat chF (14 - length pin)).
Proof. apply Forall_repeat_. unfold uhex_char, chF. lia. Qed.
Lemma fill_A (pin : str) : uhex_str (repeat chA (14 - length pin)).
Proof. apply Forall_repeat_. unfold uhex_char, chA. lia. Qed.

Lemma pin_len_byte pin k : dom_pin pin -> k <= 48 -> to_bytes_be 1 (lenN pin + k) = Ok [lenN pin + k].
Proof. intros [L _] Hk. apply to_bytes_be_1. unfold lenN. lia. Qed.

(* ------------------------------------------------------------------ *)
(* encoders, formats 0 / 2 / 3                                          *)
Lemma encode_pinblock_iso_0_shape pin pan : dom_pin pin -> dom_pan13 pan ->
  exists body p,
    a2b_hex (pin ++ repeat chF (14 - length pin)) = Ok body /\ length body = 7%nat /\
    bytes_ok body = true /\
    a2b_hex (drop_last 1 (last_n 13 pan)) = Ok p /\ length p = 6%nat /\ bytes_ok p = true /\
    encode_pinblock_iso_0 pin pan = Ok (py_xor (lenN pin :: body) (0 :: 0 :: p)).
Proof.
  intros Hpin Hpan. unfold encode_pinblock_iso_0.
  rewrite (proj2 (bad_pin_false pin) Hpin), (proj2 (bad_pan13_false pan) Hpan).
  pose proof (pin_len_byte pin 0 Hpin ltac:(lia)) as El. rewrite N.add_0_r in El.
  rewrite El. cbn [bind].
  destruct (pin_body_shape pin (repeat chF (14 - length pin)) Hpin (repeat_length _ _) (fill_F pin))
    as (body & Eb & Lb & Bb).
  destruct (pan_block_shape pan Hpan) as (p & Ea & Ep & Lp & Bp).
  rewrite Eb, Ep. cbn [bind]. exists body, p. cbn [app]. auto 10.
Qed.

Lemma encode_pinblock_iso_3_shape pin pan choices : dom_pin pin -> dom_pan13 pan ->
  length choices = 10%nat -> af_str choices ->
  exists body p,
    a2b_hex (pin ++ firstn (14 - length pin) choices) = Ok body /\ length body = 7%nat /\
    bytes_ok body = true /\
    a2b_hex (drop_last 1 (last_n 13 pan)) = Ok p /\ length p = 6%nat /\ bytes_ok p = true /\
    encode_pinblock_iso_3 pin pan choices = Ok (py_xor (lenN pin + 48 :: body) (0 :: 0 :: p)).
Proof.
  intros Hpin Hpan Lc Hc. unfold encode_pinblock_iso_3.
  rewrite (proj2 (bad_pin_false pin) Hpin), (proj2 (bad_pan13_false pan) Hpan).
  rewrite (pin_len_byte pin 48 Hpin ltac:(lia)). cbn [bind].
  destruct (pin_body_shape pin (firstn (14 - length pin) choices) Hpin) as (body & Eb & Lb & Bb).
  { rewrite firstn_length. destruct Hpin. lia. }
  { apply af_uhex, Forall_firstn_. assumption. }
  destruct (pan_block_shape pan Hpan) as (p & Ea & Ep & Lp & Bp).
  rewrite Eb, Ep. cbn [bind]. exists body, p. cbn [app]. auto 10.
Qed.

Lemma encode_pinblock_iso_2_shape pin : dom_pin pin ->
  exists body,
    a2b_hex (pin ++ repeat chF (14 - length pin)) = Ok body /\ length body = 7%nat /\
    bytes_ok body = true /\
    encode_pinblock_iso_2 pin = Ok (lenN pin + 32 :: body).
Proof.
  intros Hpin. unfold encode_pinblock_iso_2.
  rewrite (proj2 (bad_pin_false pin) Hpin).
  rewrite (pin_len_byte pin 32 Hpin ltac:(lia)). cbn [bind].
  destruct (pin_body_shape pin (repeat chF (14 - length pin)) Hpin (repeat_length _ _) (fill_F pin))
    as (body & Eb & Lb & Bb).
  rewrite Eb. cbn [bind]. exists body. cbn [app]. auto.
Qed.

Lemma encode_pinblock_iso_0_char pin pan :
  (dom_encode_pinblock_iso_0 pin pan /\ exists v, encode_pinblock_iso_0 pin pan = Ok v) \/
  (~ dom_encode_pinblock_iso_0 pin pan /\ encode_pinblock_iso_0 pin pan = Err ValueError).
Proof.
  unfold dom_encode_pinblock_iso_0.
  destruct (bad_pin pin) eqn:E1.
  { right. unfold encode_pinblock_iso_0. rewrite E1. apply bad_pin_true in E1. tauto. }
  destruct (bad_pan13 pan) eqn:E2.
  { right. unfold encode_pinblock_iso_0. rewrite E1, E2. apply bad_pan13_true in E2. tauto. }
  apply bad_pin_false in E1. apply bad_pan13_false in E2. left. split; [tauto|].
  destruct (encode_pinblock_iso_0_shape pin pan E1 E2) as (b & p & H). eexists. apply H.
Qed.

Lemma encode_pinblock_iso_3_char pin pan choices : length choices = 10%nat -> af_str choices ->
  (dom_encode_pinblock_iso_3 pin pan /\ exists v, encode_pinblock_iso_3 pin pan choices = Ok v) \/
  (~ dom_encode_pinblock_iso_3 pin pan /\ encode_pinblock_iso_3 pin pan choices = Err ValueError).
Proof.
  intros Lc Hc. unfold dom_encode_pinblock_iso_3.
  destruct (bad_pin pin) eqn:E1.
  { right. unfold encode_pinblock_iso_3. rewrite E1. apply bad_pin_true in E1. tauto. }
  destruct (bad_pan13 pan) eqn:E2.
  { right. unfold encode_pinblock_iso_3. rewrite E1, E2. apply bad_pan13_true in E2. tauto. }
  apply bad_pin_false in E1. apply bad_pan13_false in E2. left. split; [tauto|].
  destruct (encode_pinblock_iso_3_shape pin pan choices E1 E2 Lc Hc) as (b & p & H).
  eexists. apply H.
Qed.

(* rejection does not depend on the random symbols at all *)
Lemma encode_pinblock_iso_3_reject pin pan choices : ~ dom_encode_pinblock_iso_3 pin pan ->
  encode_pinblock_iso_3 pin pan choices = Err ValueError.
Proof.
  unfold dom_encode_pinblock_iso_3, encode_pinblock_iso_3. intros H.
  destruct (bad_pin pin) eqn:E1; [reflexivity|].
  destruct (bad_pan13 pan) eqn:E2; [reflexivity|].
  apply bad_pin_false in E1. apply bad_pan13_false in E2. tauto.
Qed.

Lemma encode_pinblock_iso_2_char pin :
  (dom_encode_pinblock_iso_2 pin /\ exists v, encode_pinblock_iso_2 pin = Ok v) \/
  (~ dom_encode_pinblock_iso_2 pin /\ encode_pinblock_iso_2 pin = Err ValueError).
Proof.
  unfold dom_encode_pinblock_iso_2.
  destruct (bad_pin pin) eqn:E1.
  { right. unfold encode_pinblock_iso_2. rewrite E1. apply bad_pin_true in E1. tauto. }
  apply bad_pin_false in E1. left. split; [tauto|].
  destruct (encode_pinblock_iso_2_shape pin E1) as (b & H). eexists. apply H.
Qed.

(* ------------------------------------------------------------------ *)
(* format 4 fields                                                      *)
Lemma encode_pin_field_iso_4_shape pin tape : dom_pin pin -> bytes_ok tape = true ->
  exists f,
    encode_pin_field_iso_4 pin tape = Ok f /\
    a2b_hex ([52; hexdigit_lower (lenN pin mod 16)] ++ pin ++ repeat chA (14 - length pin)
             ++ hex_upper tape) = Ok f /\
    length f = (8 + length tape)%nat /\ bytes_ok f = true.
Proof.
  intros Hpin Bt. unfold encode_pin_field_iso_4.
  rewrite (proj2 (bad_pin_false pin) Hpin).
  pose proof (pin_len_byte pin 0 Hpin ltac:(lia)) as El. rewrite N.add_0_r in El.
  rewrite El. cbn [bind]. cbn [hex_lower flat_map app]. unfold index. cbn [nth_error bind].
  destruct (a2b_hex_ok (8 + length tape)
              (52 :: hexdigit_lower (lenN pin mod 16) :: pin ++ repeat chA (14 - length pin)
               ++ hex_upper tape)) as (f & Ef & Lf & Bf).
  - destruct Hpin as [L _]. cbn [length]. rewrite !app_length, repeat_length, hex_upper_length. lia.
  - constructor; [unfold hex_char; lia|].
    constructor; [apply hexdigit_lower_hex; apply N.mod_lt; discriminate|].
    apply Forall_app. split; [apply dec_hex; apply Hpin|].
    apply Forall_app. split; [apply uhex_hex, fill_A | apply uhex_hex, hex_upper_uhex; assumption].
  - exists f. auto.
Qed.

Lemma encode_pin_field_iso_4_reject pin tape : ~ dom_pin pin ->
  encode_pin_field_iso_4 pin tape = Err ValueError.
Proof.
  intros H. apply bad_pin_true in H. unfold encode_pin_field_iso_4. rewrite H. reflexivity.
Qed.

Lemma encode_pin_field_iso_4_char pin tape : bytes_ok tape = true ->
  (dom_encode_pin_field_iso_4 pin /\ exists v, encode_pin_field_iso_4 pin tape = Ok v) \/
  (~ dom_encode_pin_field_iso_4 pin /\ encode_pin_field_iso_4 pin tape = Err ValueError).
Proof.
  intros Bt. unfold dom_encode_pin_field_iso_4. destruct (dom_pin_dec pin) as [H|H].
  - left. split; [assumption|].
    destruct (encode_pin_field_iso_4_shape pin tape H Bt) as (f & E & _). eauto.
  - right. split; [assumption|]. apply encode_pin_field_iso_4_reject. assumption.
Qed.

Lemma encode_pan_field_iso_4_shape pan : dom_pan_1_19 pan ->
  exists f, encode_pan_field_iso_4 pan = Ok f /\ length f = 16%nat /\ bytes_ok f = true.
Proof.
  intros Hpan. pose proof Hpan as [L D]. unfold encode_pan_field_iso_4.
  apply bad_pan_1_19_false in Hpan. unfold bad_pan_1_19 in Hpan. rewrite Hpan.
  rewrite str_of_N_small by lia.
  apply a2b_hex_ok.
  - rewrite ljust_length, app_length, rjust_length. cbn [length]. lia.
  - apply dec_hex. unfold ljust, rjust. apply Forall_app. split; [|apply Forall_repeat_; lia].
    apply Forall_app. split; [constructor; [lia|constructor]|].
    apply Forall_app. split; [apply Forall_repeat_; lia|assumption].
Qed.

Lemma encode_pan_field_iso_4_reject pan : ~ dom_pan_1_19 pan ->
  encode_pan_field_iso_4 pan = Err ValueError.
Proof.
  intros H. apply bad_pan_1_19_true in H. unfold bad_pan_1_19 in H.
  unfold encode_pan_field_iso_4. rewrite H. reflexivity.
Qed.

Lemma encode_pan_field_iso_4_char pan :
  (dom_encode_pan_field_iso_4 pan /\ exists v, encode_pan_field_iso_4 pan = Ok v) \/
  (~ dom_encode_pan_field_iso_4 pan /\ encode_pan_field_iso_4 pan = Err ValueError).
Proof.
  unfold dom_encode_pan_field_iso_4. destruct (dom_pan_1_19_dec pan) as [H|H].
  - left. split; [assumption|].
    destruct (encode_pan_field_iso_4_shape pan H) as (f & E & _). eauto.
  - right. split; [assumption|]. apply encode_pan_field_iso_4_reject. assumption.
Qed.

(* ------------------------------------------------------------------ *)
(* decoders: never an exception other than ValueError                   *)
Lemma decode_body_no_crash ctrl fill_ok fill_end block : (2 <= length block)%nat ->
  hex_str block -> ok_or_value_error (decode_body ctrl fill_ok fill_end block).
Proof.
  intros L H. unfold decode_body.
  rewrite (index_ok block 0 0) by lia. cbn [bind].
  destruct (negb (nth 0 block 0 =? ctrl)); [right; reflexivity|].
  rewrite (index_ok block 1 0) by lia. cbn [bind].
  destruct (int_of_hex_char (nth 1 block 0)) as [v Ev].
  { unfold hex_str in H. rewrite Forall_forall in H. apply H. apply nth_In. lia. }
  rewrite Ev. cbn [bind].
  destruct ((v <? 4) || (12 <? v)); [right; reflexivity|].
  destruct (negb (fill_ok _ _)); [right; reflexivity|].
  destruct (negb (ascii_numeric _)); [right; reflexivity|].
  left. eexists. reflexivity.
Qed.

Lemma decode_pan_no_crash ctrl fill_ok pinblock pan :
  let r := if bad_pan13 pan then Err ValueError
           else if negb (length pinblock =? 8)%nat then Err ValueError
           else do pb <- pan_block pan;
                decode_body ctrl fill_ok 16 (hex_upper (py_xor pinblock pb)) in
  (~ dom_decode_pinblock_pan pinblock pan -> r = Err ValueError) /\ ok_or_value_error r.
Proof.
  intros r. subst r. unfold dom_decode_pinblock_pan.
  destruct (bad_pan13 pan) eqn:E1.
  { split; [reflexivity|right; reflexivity]. }
  apply bad_pan13_false in E1.
  destruct (Nat.eqb_spec (length pinblock) 8) as [L|L]; cbn [negb].
  2:{ split; [reflexivity|right; reflexivity]. }
  split; [tauto|].
  destruct (pan_block_shape pan E1) as (p & _ & Ep & Lp & Bp). rewrite Ep. cbn [bind].
  apply decode_body_no_crash.
  - rewrite hex_upper_length, py_xor_length. lia.
  - apply uhex_hex, hex_upper_uhex, py_xor_bytes_ok_any.
Qed.

Lemma decode_pinblock_iso_0_char pinblock pan :
  (~ dom_decode_pinblock_pan pinblock pan -> decode_pinblock_iso_0 pinblock pan = Err ValueError) /\
  ok_or_value_error (decode_pinblock_iso_0 pinblock pan).
Proof. exact (decode_pan_no_crash 48 (fill_is chF) pinblock pan). Qed.

Lemma decode_pinblock_iso_3_char pinblock pan :
  (~ dom_decode_pinblock_pan pinblock pan -> decode_pinblock_iso_3 pinblock pan = Err ValueError) /\
  ok_or_value_error (decode_pinblock_iso_3 pinblock pan).
Proof. exact (decode_pan_no_crash 51 fill_af pinblock pan). Qed.

Lemma decode_pinblock_iso_2_char pinblock : bytes_ok pinblock = true ->
  (length pinblock <> 8%nat -> decode_pinblock_iso_2 pinblock = Err ValueError) /\
  ok_or_value_error (decode_pinblock_iso_2 pinblock).
Proof.
  intros B. unfold decode_pinblock_iso_2.
  destruct (Nat.eqb_spec (length pinblock) 8) as [L|L]; cbn [negb].
  2:{ split; [reflexivity|right; reflexivity]. }
  split; [tauto|]. apply decode_body_no_crash.
  - rewrite hex_upper_length. lia.
  - apply uhex_hex, hex_upper_uhex. assumption.
Qed.

Lemma decode_pin_field_iso_4_char pin_field : bytes_ok pin_field = true ->
  (length pin_field <> 16%nat -> decode_pin_field_iso_4 pin_field = Err ValueError) /\
  ok_or_value_error (decode_pin_field_iso_4 pin_field).
Proof.
  intros B. unfold decode_pin_field_iso_4.
  destruct (Nat.eqb_spec (length pin_field) 16) as [L|L]; cbn [negb].
  2:{ split; [reflexivity|right; reflexivity]. }
  split; [tauto|]. apply decode_body_no_crash.
  - rewrite hex_upper_length. lia.
  - apply uhex_hex, hex_upper_uhex. assumption.
Qed.

(* ------------------------------------------------------------------ *)
(* format 4 encipher / decipher                                         *)
Section Iso4.
  Variable ca : cipher.
  Hypothesis Hca : cipher_ok ca.
  Hypothesis Hbs : bs ca = 16%nat.
  Hypothesis Hkeys : forall k, valid_key ca k = aes_valid_key k.

  Lemma valid_aes key : valid_key ca key = true <-> dom_aes_key key.
  Proof. rewrite Hkeys. apply mem_nat_3. Qed.
  Lemma invalid_aes key : valid_key ca key = false <-> ~ dom_aes_key key.
  Proof. rewrite <- valid_aes. destruct (valid_key ca key); split; congruence. Qed.

  Lemma encipher_pinblock_iso_4_char key pin pan tape8 :
    length tape8 = 8%nat -> bytes_ok tape8 = true ->
    (dom_encipher_pinblock_iso_4 key pin pan /\
       exists v, encipher_pinblock_iso_4 ca key pin pan tape8 = Ok v) \/
    (~ dom_encipher_pinblock_iso_4 key pin pan /\
       encipher_pinblock_iso_4 ca key pin pan tape8 = Err ValueError).
  Proof.
    intros Lt Bt. unfold dom_encipher_pinblock_iso_4, encipher_pinblock_iso_4.
    destruct (dom_pin_dec pin) as [Hpin|Hpin].
    2:{ right. rewrite encode_pin_field_iso_4_reject by assumption. split; [tauto|reflexivity]. }
    destruct (encode_pin_field_iso_4_shape pin tape8 Hpin Bt) as (f & Ef & _ & Lf & Bf).
    rewrite Ef. cbn [bind].
    destruct (dom_pan_1_19_dec pan) as [Hpan|Hpan].
    2:{ right. rewrite encode_pan_field_iso_4_reject by assumption. split; [tauto|reflexivity]. }
    destruct (encode_pan_field_iso_4_shape pan Hpan) as (pf & Epf & Lpf & Bpf).
    rewrite Epf. cbn [bind].
    destruct (valid_key ca key) eqn:K.
    - left. split; [apply valid_aes in K; tauto|].
      destruct (encrypt_ecb_ok ca Hca key f K Bf) as (a & Ea & La & Ba).
      { lia. } { rewrite Lf, Lt, Hbs. reflexivity. }
      rewrite Ea. cbn [bind].
      destruct (encrypt_ecb_ok ca Hca key (py_xor a pf) K (py_xor_bytes_ok_any _ _)) as (b & Eb & _).
      { rewrite py_xor_length. lia. } { rewrite py_xor_length, La, Lf, Lt, Hbs. reflexivity. }
      eauto.
    - right. split; [apply invalid_aes in K; tauto|].
      unfold encrypt_ecb at 1.
      rewrite (proj2 (bad_len_false ca f (bs_pos ca Hca))).
      + rewrite K. reflexivity.
      + rewrite Lf, Lt, Hbs. split; [lia|reflexivity].
  Qed.

  Lemma decipher_pinblock_iso_4_char key pin_block pan : bytes_ok pin_block = true ->
    (~ dom_decipher_pinblock_iso_4 key pin_block pan ->
       decipher_pinblock_iso_4 ca key pin_block pan = Err ValueError) /\
    ok_or_value_error (decipher_pinblock_iso_4 ca key pin_block pan).
  Proof.
    intros B. unfold dom_decipher_pinblock_iso_4, decipher_pinblock_iso_4.
    destruct (decrypt_ecb_char ca Hca key pin_block) as [[D _]|[D E]].
    2:{ rewrite E. cbn [bind]. split; [reflexivity|right; reflexivity]. }
    destruct D as (K & L & M).
    destruct (decrypt_ecb_ok ca Hca key pin_block K B L M) as (b & Eb & Lb & Bb).
    rewrite Eb. cbn [bind].
    destruct (dom_pan_1_19_dec pan) as [Hpan|Hpan].
    2:{ rewrite encode_pan_field_iso_4_reject by assumption. cbn [bind].
        split; [reflexivity|right; reflexivity]. }
    destruct (encode_pan_field_iso_4_shape pan Hpan) as (pf & Epf & Lpf & Bpf).
    rewrite Epf. cbn [bind].
    destruct (decrypt_ecb_ok ca Hca key (py_xor b pf) K (py_xor_bytes_ok_any _ _))
      as (pfield & E2 & L2 & B2).
    { rewrite py_xor_length. lia. } { rewrite py_xor_length, Lb. assumption. }
    rewrite E2. cbn [bind]. rewrite py_xor_length in L2.
    destruct (decode_pin_field_iso_4_char pfield B2) as [R NC].
    split; [|assumption].
    intros ND. apply R. intros L16. apply ND. apply valid_aes in K.
    repeat split; try tauto; try lia; apply Hpan.
  Qed.
End Iso4.

(* ------------------------------------------------------------------ *)
(* final statements (used by Properties/C16.v)                          *)
Theorem encode_pinblock_iso_0_domain : forall pin pan,
  accepts_exactly (dom_encode_pinblock_iso_0 pin pan) (encode_pinblock_iso_0 pin pan).
Proof. intros. apply char_accepts, encode_pinblock_iso_0_char. Qed.

Theorem encode_pinblock_iso_2_domain : forall pin,
  accepts_exactly (dom_encode_pinblock_iso_2 pin) (encode_pinblock_iso_2 pin).
Proof. intros. apply char_accepts, encode_pinblock_iso_2_char. Qed.

Theorem encode_pinblock_iso_3_domain : forall pin pan choices,
  length choices = 10%nat -> af_str choices ->
  accepts_exactly (dom_encode_pinblock_iso_3 pin pan) (encode_pinblock_iso_3 pin pan choices).
Proof. intros. apply char_accepts, encode_pinblock_iso_3_char; assumption. Qed.

Theorem encode_pin_field_iso_4_domain : forall pin tape8,
  length tape8 = 8%nat -> bytes_ok tape8 = true ->
  accepts_exactly (dom_encode_pin_field_iso_4 pin) (encode_pin_field_iso_4 pin tape8).
Proof. intros. apply char_accepts, encode_pin_field_iso_4_char; assumption. Qed.

Theorem encode_pan_field_iso_4_domain : forall pan,
  accepts_exactly (dom_encode_pan_field_iso_4 pan) (encode_pan_field_iso_4 pan).
Proof. intros. apply char_accepts, encode_pan_field_iso_4_char. Qed.

Theorem encipher_pinblock_iso_4_domain : forall ca, cipher_ok ca -> bs ca = 16%nat ->
  (forall k, valid_key ca k = aes_valid_key k) ->
  forall key pin pan tape8, length tape8 = 8%nat -> bytes_ok tape8 = true ->
  accepts_exactly (dom_encipher_pinblock_iso_4 key pin pan)
                  (encipher_pinblock_iso_4 ca key pin pan tape8).
Proof. intros. apply char_accepts, encipher_pinblock_iso_4_char; assumption. Qed.

Theorem decode_pinblock_iso_0_domain : forall pinblock pan,
  (~ dom_decode_pinblock_pan pinblock pan -> decode_pinblock_iso_0 pinblock pan = Err ValueError) /\
  ok_or_value_error (decode_pinblock_iso_0 pinblock pan).
Proof. exact decode_pinblock_iso_0_char. Qed.

Theorem decode_pinblock_iso_3_domain : forall pinblock pan,
  (~ dom_decode_pinblock_pan pinblock pan -> decode_pinblock_iso_3 pinblock pan = Err ValueError) /\
  ok_or_value_error (decode_pinblock_iso_3 pinblock pan).
Proof. exact decode_pinblock_iso_3_char. Qed.

Theorem decode_pinblock_iso_2_domain : forall pinblock, bytes_ok pinblock = true ->
  (length pinblock <> 8%nat -> decode_pinblock_iso_2 pinblock = Err ValueError) /\
  ok_or_value_error (decode_pinblock_iso_2 pinblock).
Proof. exact decode_pinblock_iso_2_char. Qed.

Theorem decode_pin_field_iso_4_domain : forall pin_field, bytes_ok pin_field = true ->
  (length pin_field <> 16%nat -> decode_pin_field_iso_4 pin_field = Err ValueError) /\
  ok_or_value_error (decode_pin_field_iso_4 pin_field).
Proof. exact decode_pin_field_iso_4_char. Qed.

Theorem decipher_pinblock_iso_4_domain : forall ca, cipher_ok ca -> bs ca = 16%nat ->
  (forall k, valid_key ca k = aes_valid_key k) ->
  forall key pin_block pan, bytes_ok pin_block = true ->
  (~ dom_decipher_pinblock_iso_4 key pin_block pan ->
     decipher_pinblock_iso_4 ca key pin_block pan = Err ValueError) /\
  ok_or_value_error (decipher_pinblock_iso_4 ca key pin_block pan).
Proof. intros. apply decipher_pinblock_iso_4_char; assumption. Qed.

Theorem encode_pinblock_iso_3_reject_any_draw : forall pin pan choices,
  ~ dom_encode_pinblock_iso_3 pin pan -> encode_pinblock_iso_3 pin pan choices = Err ValueError.
Proof. exact encode_pinblock_iso_3_reject. Qed.

Theorem encode_pin_field_iso_4_reject_any_draw : forall pin tape,
  ~ dom_encode_pin_field_iso_4 pin -> encode_pin_field_iso_4 pin tape = Err ValueError.
Proof. exact encode_pin_field_iso_4_reject. Qed.
