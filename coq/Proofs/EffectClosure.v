(* Lifting the local purity lemma [policy_non_mutator] to whole call trees: starting from a function that is
   not a (declared or derived) mutator, no function reachable through calls that act on caller-visible state
   contains a direct write to shared state. *)
From Coq Require Import List String Bool.
From Psec Require Import Proofs.EffectPolicy.
Import ListNotations.
Open Scope string_scope.

(* ---------- resolution of call targets (conservative: methods are resolved by bare name) ---------- *)

Definition lookup_name (fs : list fn_summary) (n : string) : list fn_summary :=
  filter (fun g => String.eqb (fn_name g) n) fs.
Definition lookup_method (fs : list fn_summary) (m : string) : list fn_summary :=
  filter (fun g => String.eqb (fn_method g) m) fs.

(* objects visible to the caller of the function the effect belongs to *)
Definition shared (o : owner) : bool :=
  match o with
  | OSelf | OParam _ | OModule _ | OUnknown _ => true
  | OLocal | OFresh => false
  end.

(* f may run g on state visible to f's caller *)
Inductive calls (fs : list fn_summary) (f g : fn_summary) : Prop :=
| calls_name : In f fs -> In g fs -> In (ECallPsec (fn_name g)) (fn_effects f) -> calls fs f g
| calls_method o m : In f fs -> In g fs -> In (ECallMethod o m) (fn_effects f) -> shared o = true ->
                     fn_method g = m -> calls fs f g.

Inductive reaches (fs : list fn_summary) (f : fn_summary) : fn_summary -> Prop :=
| reaches_refl : reaches fs f f
| reaches_step g h : reaches fs f g -> calls fs g h -> reaches fs f h.

(* exactly the effects that [policy_non_mutator] excludes in a non-mutator *)
Definition direct_shared_write (meths : list string) (e : effect) : bool :=
  match e with
  | EWrite OSelf | EWrite (OParam _) | EWrite (OModule _) | EWrite (OUnknown _) => true
  | EWrite OLocal | EWrite OFresh => false
  | ECallMethod OSelf m | ECallMethod (OParam _) m | ECallMethod (OModule _) m => str_in m meths
  | ECallMethod (OUnknown _) _ => true
  | ECallMethod OLocal _ | ECallMethod OFresh _ => false
  | ECallUnknown _ | EDeclGlobal _ => true
  | ECallPsec _ | ECallPure _ | ECallEntropy _ => false
  end.

(* ---------- the side condition on mutators ---------- *)

Fixpoint ends_with (suf s : string) : bool :=
  String.eqb s suf || match s with EmptyString => false | String _ s' => ends_with suf s' end.

Definition is_ctor_or_setter (g : fn_summary) : bool :=
  String.eqb (fn_method g) "__init__" || ends_with ".setter" (fn_name g).

Definition calls_name_b (f : fn_summary) (n : string) : bool :=
  existsb (fun e => match e with ECallPsec k => String.eqb k n | _ => false end) (fn_effects f).
Definition calls_shared_method_b (f : fn_summary) (m : string) : bool :=
  existsb (fun e => match e with ECallMethod o k => shared o && String.eqb k m | _ => false end) (fn_effects f).

(* some summary that is not a mutator calls [n] by name / calls a method with bare name [m] on a shared receiver *)
Definition named_by_non_mutator (fs : list fn_summary) (n : string) : bool :=
  existsb (fun f => negb (str_in (fn_name f) (all_mutators fs)) && calls_name_b f n) fs.
Definition method_used_by_non_mutator (fs : list fn_summary) (m : string) : bool :=
  existsb (fun f => negb (str_in (fn_name f) (all_mutators fs)) && calls_shared_method_b f m) fs.

(* every mutator g
     - is never called by name (ECallPsec) from a non-mutator, and
     - either its bare method name is a mutating method name (so the policy already forbids non-mutators to call
       it on shared receivers), or it is a constructor / attribute setter whose bare method name is not called
       on a shared receiver by any non-mutator. *)
Definition mutator_guarded (fs : list fn_summary) (g : fn_summary) : bool :=
  negb (named_by_non_mutator fs (fn_name g)) &&
  (str_in (fn_method g) (all_mutating_methods fs) ||
   (is_ctor_or_setter g && negb (method_used_by_non_mutator fs (fn_method g)))).

Definition mutators_guarded (fs : list fn_summary) : bool :=
  forallb (fun g => negb (str_in (fn_name g) (all_mutators fs)) || mutator_guarded fs g) fs.

(* ---------- the closure theorem ---------- *)

Lemma calls_name_b_intro f n : In (ECallPsec n) (fn_effects f) -> calls_name_b f n = true.
Proof.
  intro H. unfold calls_name_b. apply existsb_exists. exists (ECallPsec n). split; [exact H|].
  apply String.eqb_refl.
Qed.

Lemma calls_shared_method_b_intro f o m :
  In (ECallMethod o m) (fn_effects f) -> shared o = true -> calls_shared_method_b f m = true.
Proof.
  intros H S. unfold calls_shared_method_b. apply existsb_exists. exists (ECallMethod o m). split; [exact H|].
  rewrite S. cbn [andb]. apply String.eqb_refl.
Qed.

(* a call on caller-visible state issued by a non-mutator only runs non-mutators *)
Lemma calls_non_mutator fs f g :
  policy_ok fs = true -> mutators_guarded fs = true ->
  str_in (fn_name f) (all_mutators fs) = false -> calls fs f g ->
  str_in (fn_name g) (all_mutators fs) = false.
Proof.
  intros P G Hf C.
  destruct (str_in (fn_name g) (all_mutators fs)) eqn:Hg; [exfalso | reflexivity].
  assert (Gg : mutator_guarded fs g = true).
  { unfold mutators_guarded in G. rewrite forallb_forall in G.
    destruct C as [_ Hgin _ | o m _ Hgin _ _ _]; specialize (G g Hgin); rewrite Hg in G; exact G. }
  unfold mutator_guarded in Gg. apply andb_true_iff in Gg. destruct Gg as [Gn Gm].
  apply negb_true_iff in Gn.
  destruct C as [Hfin Hgin He | o m Hfin Hgin He Hs Hm].
  - (* call by name *)
    assert (X : named_by_non_mutator fs (fn_name g) = true).
    { unfold named_by_non_mutator. apply existsb_exists. exists f. split; [exact Hfin|].
      rewrite Hf. cbn [negb andb]. apply calls_name_b_intro. exact He. }
    rewrite X in Gn. discriminate.
  - (* method call on a shared receiver *)
    subst m.
    pose proof (policy_non_mutator fs f _ P Hfin He Hf) as L.
    apply orb_true_iff in Gm. destruct Gm as [Gm | Gm].
    + destruct o; cbn [shared] in Hs; try discriminate; cbv beta iota in L; try contradiction;
        rewrite L in Gm; discriminate.
    + apply andb_true_iff in Gm. destruct Gm as [_ Gm]. apply negb_true_iff in Gm.
      assert (X : method_used_by_non_mutator fs (fn_method g) = true).
      { unfold method_used_by_non_mutator. apply existsb_exists. exists f. split; [exact Hfin|].
        rewrite Hf. cbn [negb andb]. apply (calls_shared_method_b_intro f o). exact He. exact Hs. }
      rewrite X in Gm. discriminate.
Qed.

Lemma calls_in_r fs f g : calls fs f g -> In g fs.
Proof. intro C; destruct C; assumption. Qed.

Lemma reaches_non_mutator fs f g :
  policy_ok fs = true -> mutators_guarded fs = true -> In f fs ->
  str_in (fn_name f) (all_mutators fs) = false -> reaches fs f g ->
  In g fs /\ str_in (fn_name g) (all_mutators fs) = false.
Proof.
  intros P G Hin Hf R. induction R as [| g h R IH C].
  - split; assumption.
  - destruct IH as [_ IHm]. split.
    + exact (calls_in_r _ _ _ C).
    + exact (calls_non_mutator fs g h P G IHm C).
Qed.

Lemma non_mutator_write_free fs g e :
  policy_ok fs = true -> In g fs -> str_in (fn_name g) (all_mutators fs) = false -> In e (fn_effects g) ->
  direct_shared_write (all_mutating_methods fs) e = false.
Proof.
  intros P Hin Hg He.
  pose proof (policy_non_mutator fs g e P Hin He Hg) as L.
  destruct e as [o|o m| | | | |]; cbn in *; try reflexivity; try contradiction.
  - destruct o; try reflexivity; contradiction.
  - destruct o; try reflexivity; try contradiction; exact L.
Qed.

Theorem closure_write_free : forall fs f g e,
  policy_ok fs = true -> mutators_guarded fs = true -> In f fs ->
  str_in (fn_name f) (all_mutators fs) = false -> reaches fs f g -> In e (fn_effects g) ->
  direct_shared_write (all_mutating_methods fs) e = false.
Proof.
  intros fs f g e P G Hin Hf R He.
  destruct (reaches_non_mutator fs f g P G Hin Hf R) as [Hgin Hg].
  exact (non_mutator_write_free fs g e P Hgin Hg He).
Qed.

(* ---------- executable closure, for evaluation on the generated summaries ---------- *)

Fixpoint add_new (xs acc : list string) : list string :=
  match xs with
  | [] => acc
  | x :: xs' => if str_in x acc then add_new xs' acc else add_new xs' (acc ++ [x])
  end.

(* names of the summaries one effect may run on caller-visible state *)
Definition effect_targets (fs : list fn_summary) (e : effect) : list string :=
  match e with
  | ECallPsec n => map fn_name (lookup_name fs n)
  | ECallMethod o m => if shared o then map fn_name (lookup_method fs m) else []
  | _ => []
  end.

Definition successors (fs : list fn_summary) (n : string) : list string :=
  flat_map (fun f => flat_map (effect_targets fs) (fn_effects f)) (lookup_name fs n).

Fixpoint reach_list (fuel : nat) (fs : list fn_summary) (names : list string) : list string :=
  match fuel with
  | O => names
  | S k => reach_list k fs (add_new (flat_map (successors fs) names) names)
  end.

(* ECallPsec targets of the given functions for which there is no summary (dispatch tables): the closure stops there *)
Definition unresolved (fs : list fn_summary) (names : list string) : list string :=
  add_new (flat_map (fun n => flat_map (fun f => flat_map (fun e =>
     match e with ECallPsec k => match lookup_name fs k with [] => [k] | _ => [] end | _ => [] end)
     (fn_effects f)) (lookup_name fs n)) names) [].

(* ---------- the same side condition with the mutator lists computed once (for vm_compute on the generated file) ---------- *)
Definition mutators_guarded_with (muts meths : list string) (fs : list fn_summary) : bool :=
  forallb (fun g =>
    negb (str_in (fn_name g) muts) ||
    (negb (existsb (fun f => negb (str_in (fn_name f) muts) && calls_name_b f (fn_name g)) fs) &&
     (str_in (fn_method g) meths ||
      (is_ctor_or_setter g &&
       negb (existsb (fun f => negb (str_in (fn_name f) muts) && calls_shared_method_b f (fn_method g)) fs))))) fs.

Definition mutators_guarded_fast (fs : list fn_summary) : bool :=
  let muts := all_mutators fs in
  let meths := all_mutating_methods fs in
  mutators_guarded_with muts meths fs.

Lemma mutators_guarded_fast_eq fs : mutators_guarded_fast fs = mutators_guarded fs.
Proof. reflexivity. Qed.
