(* ECB / CBC over whole messages (Cipher/Cipher.v) and the psec.des / psec.aes
   wrappers: lengths, well-formedness, inverses, block-wise characterisation.
   Everything is for an arbitrary lawful cipher ([cipher_ok]).  Lemmas for C19. *)
From Coq Require Import Lia Arith.
From Psec Require Import Lib.Base Cipher.Cipher Model.Tools Proofs.XorLemmas Proofs.TdesLemmas.
Open Scope nat_scope.

(* ------------------------------------------------------------------ *)
(* lists                                                                *)
Lemma firstn_app_exact {A} n (a b : list A) : length a = n -> firstn n (a ++ b) = a.
Proof. intros <-. rewrite firstn_app, Nat.sub_diag, firstn_O, app_nil_r. apply firstn_all. Qed.

Lemma skipn_app_exact {A} n (a b : list A) : length a = n -> skipn n (a ++ b) = b.
Proof. intros <-. rewrite skipn_app, Nat.sub_diag, skipn_all. reflexivity. Qed.

Lemma skipn_add {A} m n (l : list A) : skipn (m + n) l = skipn m (skipn n l).
Proof.
  revert l. induction n as [|n IH]; intro l.
  - rewrite Nat.add_0_r. reflexivity.
  - rewrite Nat.add_succ_r. destruct l as [|x l]; cbn [skipn]; [rewrite skipn_nil; reflexivity|apply IH].
Qed.

Lemma slice_0 {A} n (l : list A) : slice 0 n l = firstn n l.
Proof. reflexivity. Qed.

Lemma slice_skip {A} m n k (l : list A) : slice (m + n) k l = slice m k (skipn n l).
Proof. unfold slice. rewrite skipn_add. reflexivity. Qed.

Lemma slice_app_skip {A} m n k (a b : list A) : length a = n ->
  slice (m + n) k (a ++ b) = slice m k b.
Proof. intros H. rewrite slice_skip, skipn_app_exact by exact H. reflexivity. Qed.

Lemma slice_length {A} a n (l : list A) : a + n <= length l -> length (slice a n l) = n.
Proof. intros H. unfold slice. rewrite firstn_length, skipn_length. lia. Qed.

Lemma bytes_ok_slice a n l : bytes_ok l = true -> bytes_ok (slice a n l) = true.
Proof. intros H. unfold slice. apply bytes_ok_firstn, bytes_ok_skipn, H. Qed.

Lemma block_bound j n b : j < n -> j * b + b <= n * b.
Proof.
  intros H. rewrite <- Nat.mul_succ_l. apply Nat.mul_le_mono_r. lia.
Qed.

(* ------------------------------------------------------------------ *)
(* ECB with an arbitrary block function                                 *)
Section Ecb.
  Variable bsz : nat.
  (* = [block_ok c] when [bsz = bs c] *)
  Definition blk (b : list N) : Prop := length b = bsz /\ bytes_ok b = true.

  Lemma split_block n data : length data = S n * bsz -> bytes_ok data = true ->
    blk (firstn bsz data) /\ length (skipn bsz data) = n * bsz /\
    bytes_ok (skipn bsz data) = true.
  Proof.
    intros L B. rewrite Nat.mul_succ_l in L. unfold blk. rewrite firstn_length, skipn_length.
    repeat split; try lia.
    - apply bytes_ok_firstn; assumption.
    - apply bytes_ok_skipn; assumption.
  Qed.

  Lemma blk_slice j n data : length data = n * bsz -> bytes_ok data = true -> j < n ->
    blk (slice (j * bsz) bsz data).
  Proof.
    intros L B Hj. split; [|apply bytes_ok_slice; assumption].
    apply slice_length. rewrite L. apply block_bound. assumption.
  Qed.

  Variable f : list N -> list N.
  Hypothesis Hf : forall b, blk b -> blk (f b).

  Lemma ecb_n_ok n : forall data, length data = n * bsz -> bytes_ok data = true ->
    length (ecb_n f bsz n data) = n * bsz /\ bytes_ok (ecb_n f bsz n data) = true.
  Proof.
    induction n as [|n IH]; intros data L B; cbn [ecb_n].
    - split; reflexivity.
    - destruct (split_block n data L B) as (Hb & L' & B'). destruct (Hf _ Hb) as [Lf Bf].
      destruct (IH _ L' B') as [Lr Br]. split.
      + rewrite app_length, Lf, Lr, Nat.mul_succ_l. lia.
      + apply bytes_ok_app. auto.
  Qed.

  Lemma ecb_n_length n data : length data = n * bsz -> bytes_ok data = true ->
    length (ecb_n f bsz n data) = length data.
  Proof. intros L B. rewrite L. apply ecb_n_ok; assumption. Qed.

  Lemma ecb_n_bytes_ok n data : length data = n * bsz -> bytes_ok data = true ->
    bytes_ok (ecb_n f bsz n data) = true.
  Proof. intros L B. apply ecb_n_ok; assumption. Qed.

  (* ECB is independent per-block application *)
  Lemma ecb_n_slice n : forall data j, length data = n * bsz -> bytes_ok data = true -> j < n ->
    slice (j * bsz) bsz (ecb_n f bsz n data) = f (slice (j * bsz) bsz data).
  Proof.
    induction n as [|n IH]; intros data j L B Hj; [lia|]. cbn [ecb_n].
    destruct (split_block n data L B) as (Hb & L' & B'). destruct (Hf _ Hb) as [Lf Bf].
    destruct j as [|j].
    - rewrite Nat.mul_0_l, !slice_0. f_equal. apply firstn_app_exact; exact Lf.
    - rewrite Nat.mul_succ_l. rewrite (slice_app_skip _ _ _ _ _ Lf), slice_skip.
      apply IH; try assumption. lia.
  Qed.

  Variable g : list N -> list N.
  Hypothesis Hgf : forall b, blk b -> g (f b) = b.

  Lemma ecb_n_inv n : forall data, length data = n * bsz -> bytes_ok data = true ->
    ecb_n g bsz n (ecb_n f bsz n data) = data.
  Proof.
    induction n as [|n IH]; intros data L B; cbn [ecb_n].
    - destruct data; [reflexivity|discriminate].
    - destruct (split_block n data L B) as (Hb & L' & B'). destruct (Hf _ Hb) as [Lf Bf].
      rewrite (firstn_app_exact _ _ _ Lf), (skipn_app_exact _ _ _ Lf).
      rewrite Hgf by exact Hb. rewrite IH by assumption. apply firstn_skipn.
  Qed.
End Ecb.

(* ------------------------------------------------------------------ *)
Section WithCipher.
  Variable c : cipher.
  Hypothesis Hc : cipher_ok c.

  Let bpos : 0 < bs c := bs_pos c Hc.

  (* ---- the length guard ---- *)
  Theorem bad_len_iff data :
    bad_len c data = true <-> (length data = 0 \/ length data mod bs c <> 0).
  Proof.
    unfold bad_len. rewrite orb_true_iff, negb_true_iff, Nat.ltb_lt, Nat.eqb_neq. split.
    - intros [H|H]; [|right; exact H].
      destruct (Nat.eq_dec (length data) 0) as [E|E]; [left; exact E|right].
      rewrite Nat.mod_small by exact H. exact E.
    - intros [H|H]; [left; rewrite H; exact bpos|right; exact H].
  Qed.

  Lemma bad_len_false data : bad_len c data = false ->
    length data = nblocks c data * bs c /\ 0 < nblocks c data.
  Proof.
    unfold bad_len, nblocks. rewrite orb_false_iff, negb_false_iff, Nat.ltb_ge, Nat.eqb_eq.
    intros [H1 H2]. split.
    - pose proof (Nat.div_mod (length data) (bs c) ltac:(lia)) as E. rewrite H2 in E. lia.
    - apply Nat.div_str_pos. lia.
  Qed.

  Lemma good_len_iff data :
    bad_len c data = false <-> (0 < length data /\ length data mod bs c = 0).
  Proof.
    pose proof (bad_len_iff data) as I. destruct (bad_len c data).
    - split; [discriminate|]. intros [H1 H2]. destruct (proj1 I eq_refl); lia.
    - split; [|reflexivity]. intros _.
      destruct (Nat.eq_dec (length data) 0) as [E|E]; [discriminate (proj2 I (or_introl E))|].
      destruct (Nat.eq_dec (length data mod bs c) 0) as [E'|E']; [lia|].
      discriminate (proj2 I (or_intror E')).
  Qed.

  Lemma bad_len_same_length a b : length a = length b ->
    bad_len c a = bad_len c b /\ nblocks c a = nblocks c b.
  Proof. intros H. unfold bad_len, nblocks. rewrite H. split; reflexivity. Qed.

  Lemma nblocks_mul n data : length data = n * bs c -> nblocks c data = n.
  Proof. intros H. unfold nblocks. rewrite H. apply Nat.div_mul. lia. Qed.

  (* ---- totality and rejection (independent of the cipher laws) ---- *)
  Theorem wrappers_total k iv data :
    (is_ok (encrypt_ecb c k data) = true \/ encrypt_ecb c k data = Err ValueError) /\
    (is_ok (decrypt_ecb c k data) = true \/ decrypt_ecb c k data = Err ValueError) /\
    (is_ok (encrypt_cbc c k iv data) = true \/ encrypt_cbc c k iv data = Err ValueError) /\
    (is_ok (decrypt_cbc c k iv data) = true \/ decrypt_cbc c k iv data = Err ValueError).
  Proof.
    unfold encrypt_ecb, decrypt_ecb, encrypt_cbc, decrypt_cbc.
    destruct (bad_len c data), (valid_key c k), (length iv =? bs c); cbn; auto.
  Qed.

  Theorem wrappers_reject_len k iv data : bad_len c data = true ->
    encrypt_ecb c k data = Err ValueError /\ decrypt_ecb c k data = Err ValueError /\
    encrypt_cbc c k iv data = Err ValueError /\ decrypt_cbc c k iv data = Err ValueError.
  Proof.
    intros H. unfold encrypt_ecb, decrypt_ecb, encrypt_cbc, decrypt_cbc. rewrite H. auto.
  Qed.

  Theorem wrappers_reject_key k iv data : valid_key c k = false ->
    encrypt_ecb c k data = Err ValueError /\ decrypt_ecb c k data = Err ValueError /\
    encrypt_cbc c k iv data = Err ValueError /\ decrypt_cbc c k iv data = Err ValueError.
  Proof.
    intros H. unfold encrypt_ecb, decrypt_ecb, encrypt_cbc, decrypt_cbc. rewrite H.
    destruct (bad_len c data); cbn; auto.
  Qed.

  Theorem wrappers_reject_iv k iv data : length iv <> bs c ->
    encrypt_cbc c k iv data = Err ValueError /\ decrypt_cbc c k iv data = Err ValueError.
  Proof.
    intros H. apply Nat.eqb_neq in H. unfold encrypt_cbc, decrypt_cbc. rewrite H.
    destruct (bad_len c data), (valid_key c k); cbn; auto.
  Qed.

  (* ---- shape of the successful calls, and inversion ---- *)
  Lemma encrypt_ecb_ok k data : valid_key c k = true -> bad_len c data = false ->
    encrypt_ecb c k data = Ok (ecb_n (enc c k) (bs c) (nblocks c data) data).
  Proof. intros V G. unfold encrypt_ecb. rewrite V, G. reflexivity. Qed.

  Lemma decrypt_ecb_ok k data : valid_key c k = true -> bad_len c data = false ->
    decrypt_ecb c k data = Ok (ecb_n (dec c k) (bs c) (nblocks c data) data).
  Proof. intros V G. unfold decrypt_ecb. rewrite V, G. reflexivity. Qed.

  Lemma encrypt_cbc_ok k iv data : valid_key c k = true -> length iv = bs c ->
    bad_len c data = false ->
    encrypt_cbc c k iv data = Ok (cbc_enc_n c k (nblocks c data) iv data).
  Proof.
    intros V I G. apply Nat.eqb_eq in I. unfold encrypt_cbc. rewrite V, G, I. reflexivity.
  Qed.

  Lemma decrypt_cbc_ok k iv data : valid_key c k = true -> length iv = bs c ->
    bad_len c data = false ->
    decrypt_cbc c k iv data = Ok (cbc_dec_n c k (nblocks c data) iv data).
  Proof.
    intros V I G. apply Nat.eqb_eq in I. unfold decrypt_cbc. rewrite V, G, I. reflexivity.
  Qed.

  Lemma encrypt_ecb_inv k data ct : encrypt_ecb c k data = Ok ct ->
    valid_key c k = true /\ bad_len c data = false /\
    ct = ecb_n (enc c k) (bs c) (nblocks c data) data.
  Proof.
    unfold encrypt_ecb. destruct (bad_len c data); [discriminate|].
    destruct (valid_key c k); cbn [negb]; [|discriminate]. intros [= <-]. auto.
  Qed.

  Lemma decrypt_ecb_inv k data pt : decrypt_ecb c k data = Ok pt ->
    valid_key c k = true /\ bad_len c data = false /\
    pt = ecb_n (dec c k) (bs c) (nblocks c data) data.
  Proof.
    unfold decrypt_ecb. destruct (bad_len c data); [discriminate|].
    destruct (valid_key c k); cbn [negb]; [|discriminate]. intros [= <-]. auto.
  Qed.

  Lemma encrypt_cbc_inv k iv data ct : encrypt_cbc c k iv data = Ok ct ->
    valid_key c k = true /\ length iv = bs c /\ bad_len c data = false /\
    ct = cbc_enc_n c k (nblocks c data) iv data.
  Proof.
    unfold encrypt_cbc. destruct (bad_len c data); [discriminate|].
    destruct (valid_key c k); cbn [negb]; [|discriminate].
    destruct (Nat.eqb_spec (length iv) (bs c)); cbn [negb]; [|discriminate]. intros [= <-]. auto.
  Qed.

  Lemma decrypt_cbc_inv k iv data pt : decrypt_cbc c k iv data = Ok pt ->
    valid_key c k = true /\ length iv = bs c /\ bad_len c data = false /\
    pt = cbc_dec_n c k (nblocks c data) iv data.
  Proof.
    unfold decrypt_cbc. destruct (bad_len c data); [discriminate|].
    destruct (valid_key c k); cbn [negb]; [|discriminate].
    destruct (Nat.eqb_spec (length iv) (bs c)); cbn [negb]; [|discriminate]. intros [= <-]. auto.
  Qed.

  (* ---- blocks ---- *)
  Lemma xorb_block a b : block_ok c a -> block_ok c b -> block_ok c (xorb a b).
  Proof.
    intros [La Ba] [Lb Bb]. unfold xorb. split; [rewrite py_xor_length; exact La|].
    apply py_xor_bytes_ok; assumption.
  Qed.

  Lemma xorb_xorb a b : block_ok c a -> block_ok c b -> xorb (xorb a b) b = a.
  Proof.
    intros [La Ba] [Lb Bb]. unfold xorb. apply py_xor_involutive; try assumption. lia.
  Qed.

  Lemma xorb_xor_pos a b : bytes_ok a = true -> bytes_ok b = true -> xorb a b = xor_pos a b.
  Proof. apply py_xor_is_bytewise. Qed.

  Section WithKey.
    Variable k : list N.
    Hypothesis Hk : valid_key c k = true.

    Let EB := enc_block c Hc k.
    Let DB := dec_block c Hc k.
    Let DE := dec_enc c Hc k.
    Let ED := enc_dec c Hc k.

    Lemma enc_blk b : blk (bs c) b -> blk (bs c) (enc c k b).
    Proof. intros H. apply (EB b Hk H). Qed.
    Lemma dec_blk b : blk (bs c) b -> blk (bs c) (dec c k b).
    Proof. intros H. apply (DB b Hk H). Qed.
    Lemma dec_enc_blk b : blk (bs c) b -> dec c k (enc c k b) = b.
    Proof. intros H. apply (DE b Hk H). Qed.
    Lemma enc_dec_blk b : blk (bs c) b -> enc c k (dec c k b) = b.
    Proof. intros H. apply (ED b Hk H). Qed.

    (* ---- CBC: length and well-formedness ---- *)
    Lemma cbc_enc_n_ok n : forall iv data, block_ok c iv -> length data = n * bs c ->
      bytes_ok data = true ->
      length (cbc_enc_n c k n iv data) = n * bs c /\ bytes_ok (cbc_enc_n c k n iv data) = true.
    Proof.
      induction n as [|n IH]; intros iv data Hiv L B; cbn [cbc_enc_n].
      - split; reflexivity.
      - destruct (split_block (bs c) n data L B) as (Hb & L' & B').
        pose proof (EB _ Hk (xorb_block _ _ Hb Hiv)) as Hct.
        destruct (IH _ _ Hct L' B') as [Lr Br]. destruct Hct as [Lc Bc]. split.
        + rewrite app_length, Lc, Lr, Nat.mul_succ_l. lia.
        + apply bytes_ok_app. auto.
    Qed.

    Lemma cbc_dec_n_ok n : forall iv data, block_ok c iv -> length data = n * bs c ->
      bytes_ok data = true ->
      length (cbc_dec_n c k n iv data) = n * bs c /\ bytes_ok (cbc_dec_n c k n iv data) = true.
    Proof.
      induction n as [|n IH]; intros iv data Hiv L B; cbn [cbc_dec_n].
      - split; reflexivity.
      - destruct (split_block (bs c) n data L B) as (Hb & L' & B').
        pose proof (xorb_block _ _ (DB _ Hk Hb) Hiv) as Hp.
        destruct (IH _ _ Hb L' B') as [Lr Br]. destruct Hp as [Lp Bp]. split.
        + rewrite app_length, Lp, Lr, Nat.mul_succ_l. lia.
        + apply bytes_ok_app. auto.
    Qed.

    Lemma cbc_enc_n_length n iv data : block_ok c iv -> length data = n * bs c ->
      bytes_ok data = true -> length (cbc_enc_n c k n iv data) = length data.
    Proof. intros I L B. rewrite L. apply cbc_enc_n_ok; assumption. Qed.

    Lemma cbc_dec_n_length n iv data : block_ok c iv -> length data = n * bs c ->
      bytes_ok data = true -> length (cbc_dec_n c k n iv data) = length data.
    Proof. intros I L B. rewrite L. apply cbc_dec_n_ok; assumption. Qed.

    Lemma cbc_enc_n_bytes_ok n iv data : block_ok c iv -> length data = n * bs c ->
      bytes_ok data = true -> bytes_ok (cbc_enc_n c k n iv data) = true.
    Proof. intros I L B. apply cbc_enc_n_ok; assumption. Qed.

    Lemma cbc_dec_n_bytes_ok n iv data : block_ok c iv -> length data = n * bs c ->
      bytes_ok data = true -> bytes_ok (cbc_dec_n c k n iv data) = true.
    Proof. intros I L B. apply cbc_dec_n_ok; assumption. Qed.

    (* ---- CBC: inverses ---- *)
    Theorem cbc_dec_enc_n n : forall iv data, block_ok c iv -> length data = n * bs c ->
      bytes_ok data = true -> cbc_dec_n c k n iv (cbc_enc_n c k n iv data) = data.
    Proof.
      induction n as [|n IH]; intros iv data Hiv L B; cbn [cbc_enc_n cbc_dec_n].
      - destruct data; [reflexivity|discriminate].
      - destruct (split_block (bs c) n data L B) as (Hb & L' & B').
        pose proof (xorb_block _ _ Hb Hiv) as Hx.
        pose proof (EB _ Hk Hx) as Hct. pose proof (proj1 Hct) as Lc.
        rewrite (firstn_app_exact _ _ _ Lc), (skipn_app_exact _ _ _ Lc).
        rewrite (DE _ Hk Hx), (xorb_xorb _ _ Hb Hiv).
        rewrite (IH _ _ Hct L' B'). apply firstn_skipn.
    Qed.

    Theorem cbc_enc_dec_n n : forall iv data, block_ok c iv -> length data = n * bs c ->
      bytes_ok data = true -> cbc_enc_n c k n iv (cbc_dec_n c k n iv data) = data.
    Proof.
      induction n as [|n IH]; intros iv data Hiv L B; cbn [cbc_enc_n cbc_dec_n].
      - destruct data; [reflexivity|discriminate].
      - destruct (split_block (bs c) n data L B) as (Hb & L' & B').
        pose proof (DB _ Hk Hb) as Hd.
        pose proof (xorb_block _ _ Hd Hiv) as Hp. pose proof (proj1 Hp) as Lp.
        rewrite (firstn_app_exact _ _ _ Lp), (skipn_app_exact _ _ _ Lp).
        rewrite (xorb_xorb _ _ Hd Hiv), (ED _ Hk Hb).
        rewrite (IH _ _ Hb L' B'). apply firstn_skipn.
    Qed.

    (* ---- CBC: textbook chaining, block by block ---- *)
    Lemma cbc_enc_n_slice n : forall iv data j, block_ok c iv -> length data = n * bs c ->
      bytes_ok data = true -> j < n ->
      slice (j * bs c) (bs c) (cbc_enc_n c k n iv data) =
      enc c k (xorb (slice (j * bs c) (bs c) data)
                    (match j with
                     | O => iv
                     | S j' => slice (j' * bs c) (bs c) (cbc_enc_n c k n iv data)
                     end)).
    Proof.
      induction n as [|n IH]; intros iv data j Hiv L B Hj; [lia|]. cbn [cbc_enc_n].
      destruct (split_block (bs c) n data L B) as (Hb & L' & B').
      pose proof (EB _ Hk (xorb_block _ _ Hb Hiv)) as Hct. pose proof (proj1 Hct) as Lc.
      set (ct := enc c k (xorb (firstn (bs c) data) iv)) in *.
      destruct j as [|j].
      - rewrite Nat.mul_0_l, !slice_0. apply firstn_app_exact; exact Lc.
      - rewrite Nat.mul_succ_l. rewrite (slice_app_skip _ _ _ _ _ Lc), slice_skip.
        rewrite (IH ct (skipn (bs c) data) j Hct L' B' ltac:(lia)). do 2 f_equal.
        destruct j as [|j].
        + rewrite Nat.mul_0_l, slice_0. symmetry. apply firstn_app_exact; exact Lc.
        + rewrite Nat.mul_succ_l. rewrite (slice_app_skip _ _ _ _ _ Lc). reflexivity.
    Qed.

    Lemma cbc_dec_n_slice n : forall iv data j, block_ok c iv -> length data = n * bs c ->
      bytes_ok data = true -> j < n ->
      slice (j * bs c) (bs c) (cbc_dec_n c k n iv data) =
      xorb (dec c k (slice (j * bs c) (bs c) data))
           (match j with
            | O => iv
            | S j' => slice (j' * bs c) (bs c) data
            end).
    Proof.
      induction n as [|n IH]; intros iv data j Hiv L B Hj; [lia|]. cbn [cbc_dec_n].
      destruct (split_block (bs c) n data L B) as (Hb & L' & B').
      pose proof (xorb_block _ _ (DB _ Hk Hb) Hiv) as Hp. pose proof (proj1 Hp) as Lp.
      destruct j as [|j].
      - rewrite Nat.mul_0_l, !slice_0. apply firstn_app_exact; exact Lp.
      - rewrite Nat.mul_succ_l. rewrite (slice_app_skip _ _ _ _ _ Lp), slice_skip.
        rewrite (IH _ (skipn (bs c) data) j Hb L' B' ltac:(lia)). f_equal.
        destruct j as [|j].
        + rewrite Nat.mul_0_l, slice_0. reflexivity.
        + rewrite Nat.mul_succ_l, slice_skip. reflexivity.
    Qed.
  End WithKey.

  (* ------------------------------------------------------------------ *)
  (* the wrappers                                                         *)
  Theorem ecb_roundtrip k data : valid_key c k = true -> bytes_ok data = true ->
    bad_len c data = false ->
    (exists ct, encrypt_ecb c k data = Ok ct /\ length ct = length data /\
                bytes_ok ct = true /\ decrypt_ecb c k ct = Ok data) /\
    (exists pt, decrypt_ecb c k data = Ok pt /\ length pt = length data /\
                bytes_ok pt = true /\ encrypt_ecb c k pt = Ok data).
  Proof.
    intros V B G. destruct (bad_len_false data G) as [L _].
    set (n := nblocks c data) in *. split.
    - pose proof (ecb_n_ok (bs c) (enc c k) (enc_blk k V) n data L B) as [Lc Bc].
      eexists. split; [apply encrypt_ecb_ok; assumption|]. fold n.
      split; [lia|]. split; [assumption|].
      destruct (bad_len_same_length (ecb_n (enc c k) (bs c) n data) data ltac:(lia)) as [E1 E2].
      rewrite decrypt_ecb_ok by (rewrite ?E1; assumption). rewrite E2. fold n. f_equal.
      apply (ecb_n_inv (bs c) (enc c k) (enc_blk k V) (dec c k) (dec_enc_blk k V)); assumption.
    - pose proof (ecb_n_ok (bs c) (dec c k) (dec_blk k V) n data L B) as [Lc Bc].
      eexists. split; [apply decrypt_ecb_ok; assumption|]. fold n.
      split; [lia|]. split; [assumption|].
      destruct (bad_len_same_length (ecb_n (dec c k) (bs c) n data) data ltac:(lia)) as [E1 E2].
      rewrite encrypt_ecb_ok by (rewrite ?E1; assumption). rewrite E2. fold n. f_equal.
      apply (ecb_n_inv (bs c) (dec c k) (dec_blk k V) (enc c k) (enc_dec_blk k V)); assumption.
  Qed.

  Theorem cbc_roundtrip k iv data : valid_key c k = true -> length iv = bs c ->
    bytes_ok iv = true -> bytes_ok data = true -> bad_len c data = false ->
    (exists ct, encrypt_cbc c k iv data = Ok ct /\ length ct = length data /\
                bytes_ok ct = true /\ decrypt_cbc c k iv ct = Ok data) /\
    (exists pt, decrypt_cbc c k iv data = Ok pt /\ length pt = length data /\
                bytes_ok pt = true /\ encrypt_cbc c k iv pt = Ok data).
  Proof.
    intros V LI BI B G. destruct (bad_len_false data G) as [L _].
    assert (Hiv : block_ok c iv) by (split; assumption).
    set (n := nblocks c data) in *. split.
    - pose proof (cbc_enc_n_ok k V n iv data Hiv L B) as [Lc Bc].
      eexists. split; [apply encrypt_cbc_ok; assumption|]. fold n.
      split; [lia|]. split; [assumption|].
      destruct (bad_len_same_length (cbc_enc_n c k n iv data) data ltac:(lia)) as [E1 E2].
      rewrite decrypt_cbc_ok by (rewrite ?E1; assumption). rewrite E2. fold n. f_equal.
      apply cbc_dec_enc_n; assumption.
    - pose proof (cbc_dec_n_ok k V n iv data Hiv L B) as [Lc Bc].
      eexists. split; [apply decrypt_cbc_ok; assumption|]. fold n.
      split; [lia|]. split; [assumption|].
      destruct (bad_len_same_length (cbc_dec_n c k n iv data) data ltac:(lia)) as [E1 E2].
      rewrite encrypt_cbc_ok by (rewrite ?E1; assumption). rewrite E2. fold n. f_equal.
      apply cbc_enc_dec_n; assumption.
  Qed.

  (* any successful call preserves the length *)
  Theorem wrappers_length k iv data out : bytes_ok data = true -> bytes_ok iv = true ->
    (encrypt_ecb c k data = Ok out \/ decrypt_ecb c k data = Ok out \/
     encrypt_cbc c k iv data = Ok out \/ decrypt_cbc c k iv data = Ok out) ->
    length out = length data /\ bytes_ok out = true.
  Proof.
    intros B BI [H|[H|[H|H]]].
    - apply encrypt_ecb_inv in H as (V & G & ->). destruct (bad_len_false data G) as [L _].
      split; [apply ecb_n_length|apply ecb_n_bytes_ok]; try assumption; apply enc_blk; assumption.
    - apply decrypt_ecb_inv in H as (V & G & ->). destruct (bad_len_false data G) as [L _].
      split; [apply ecb_n_length|apply ecb_n_bytes_ok]; try assumption; apply dec_blk; assumption.
    - apply encrypt_cbc_inv in H as (V & LI & G & ->). destruct (bad_len_false data G) as [L _].
      split; [apply cbc_enc_n_length|apply cbc_enc_n_bytes_ok]; try assumption; split; assumption.
    - apply decrypt_cbc_inv in H as (V & LI & G & ->). destruct (bad_len_false data G) as [L _].
      split; [apply cbc_dec_n_length|apply cbc_dec_n_bytes_ok]; try assumption; split; assumption.
  Qed.

  Theorem ecb_blockwise k data out : bytes_ok data = true ->
    (encrypt_ecb c k data = Ok out ->
     forall j, j < length data / bs c ->
       slice (j * bs c) (bs c) out = enc c k (slice (j * bs c) (bs c) data)) /\
    (decrypt_ecb c k data = Ok out ->
     forall j, j < length data / bs c ->
       slice (j * bs c) (bs c) out = dec c k (slice (j * bs c) (bs c) data)).
  Proof.
    intros B. split; intros H j Hj.
    - apply encrypt_ecb_inv in H as (V & G & ->). destruct (bad_len_false data G) as [L _].
      apply ecb_n_slice; try assumption. apply enc_blk; assumption.
    - apply decrypt_ecb_inv in H as (V & G & ->). destruct (bad_len_false data G) as [L _].
      apply ecb_n_slice; try assumption. apply dec_blk; assumption.
  Qed.

  Lemma prev_if {A} j (a : A) (f : nat -> A) :
    (if j =? 0 then a else f (j - 1)) = match j with O => a | S j' => f j' end.
  Proof. destruct j as [|j]; cbn [Nat.eqb]; [reflexivity|]. rewrite Nat.sub_succ, Nat.sub_0_r. reflexivity. Qed.

  Theorem cbc_chaining_enc k iv data ct : bytes_ok data = true -> bytes_ok iv = true ->
    encrypt_cbc c k iv data = Ok ct ->
    forall j, j < length data / bs c ->
      slice (j * bs c) (bs c) ct =
      enc c k (xor_pos (slice (j * bs c) (bs c) data)
                       (if j =? 0 then iv else slice ((j - 1) * bs c) (bs c) ct)).
  Proof.
    intros B BI H j Hj. apply encrypt_cbc_inv in H as (V & LI & G & ->).
    destruct (bad_len_false data G) as [L _]. fold (nblocks c data) in Hj.
    set (n := nblocks c data) in *.
    assert (Hiv : block_ok c iv) by (split; assumption).
    rewrite (prev_if j iv (fun i => slice (i * bs c) (bs c) (cbc_enc_n c k n iv data))).
    rewrite (cbc_enc_n_slice k V n iv data j Hiv L B Hj). f_equal.
    apply xorb_xor_pos; [apply bytes_ok_slice; assumption|].
    destruct j; [assumption|]. apply bytes_ok_slice. apply cbc_enc_n_bytes_ok; assumption.
  Qed.

  Theorem cbc_chaining_dec k iv data pt : bytes_ok data = true -> bytes_ok iv = true ->
    decrypt_cbc c k iv data = Ok pt ->
    forall j, j < length data / bs c ->
      slice (j * bs c) (bs c) pt =
      xor_pos (dec c k (slice (j * bs c) (bs c) data))
              (if j =? 0 then iv else slice ((j - 1) * bs c) (bs c) data).
  Proof.
    intros B BI H j Hj. apply decrypt_cbc_inv in H as (V & LI & G & ->).
    destruct (bad_len_false data G) as [L _]. fold (nblocks c data) in Hj.
    set (n := nblocks c data) in *.
    assert (Hiv : block_ok c iv) by (split; assumption).
    rewrite (prev_if j iv (fun i => slice (i * bs c) (bs c) data)).
    rewrite (cbc_dec_n_slice k V n iv data j Hiv L B Hj).
    apply xorb_xor_pos.
    - apply (dec_blk k V). apply blk_slice with n; assumption.
    - destruct j; [assumption|]. apply bytes_ok_slice. assumption.
  Qed.
End WithCipher.

(* ------------------------------------------------------------------ *)
(* the psec entry points are these wrappers                             *)
Lemma tools_wrappers cd ca :
  encrypt_tdes_ecb cd = encrypt_ecb cd /\ decrypt_tdes_ecb cd = decrypt_ecb cd /\
  encrypt_tdes_cbc cd = encrypt_cbc cd /\ decrypt_tdes_cbc cd = decrypt_cbc cd /\
  encrypt_aes_ecb ca = encrypt_ecb ca /\ decrypt_aes_ecb ca = decrypt_ecb ca /\
  encrypt_aes_cbc ca = encrypt_cbc ca /\ decrypt_aes_cbc ca = decrypt_cbc ca.
Proof. repeat split. Qed.

(* des.generate_kcv *)
Theorem kcv_exact cd key n :
  generate_kcv cd key n =
  if valid_key cd key then Ok (firstn n (enc cd key (repeat 0%N 8))) else Err ValueError.
Proof. unfold generate_kcv. destruct (valid_key cd key); reflexivity. Qed.

(* ... which is the prefix of the ECB encryption of one zero block *)
Theorem kcv_is_ecb_prefix cd key n : bs cd = 8 ->
  generate_kcv cd key n = bind (encrypt_ecb cd key (repeat 0%N 8)) (fun ct => Ok (firstn n ct)).
Proof.
  intros H. unfold generate_kcv, encrypt_ecb, bad_len, nblocks. rewrite H.
  change (length (repeat 0%N 8)) with 8. cbn [Nat.ltb Nat.leb Nat.modulo Nat.divmod Nat.eqb fst snd Nat.sub Nat.div orb negb].
  destruct (valid_key cd key); cbn [negb bind]; [|reflexivity].
  cbn [ecb_n firstn repeat]. rewrite app_nil_r. reflexivity.
Qed.

(* ------------------------------------------------------------------ *)
(* Triple DES built from any lawful single DES                          *)
Section Tdes.
  Variable d : des_prim.
  Hypothesis Hd : des_ok d.

  Lemma tdes_good_len data : 0 < length data -> length data mod 8 = 0 ->
    bad_len (tdes d) data = false.
  Proof. intros H1 H2. apply (good_len_iff (tdes d) (tdes_ok d Hd)). auto. Qed.

  Theorem tdes_ecb_roundtrip k data : tdes_valid_key k = true -> bytes_ok data = true ->
    0 < length data -> length data mod 8 = 0 ->
    (exists ct, encrypt_tdes_ecb (tdes d) k data = Ok ct /\ length ct = length data /\
                bytes_ok ct = true /\ decrypt_tdes_ecb (tdes d) k ct = Ok data) /\
    (exists pt, decrypt_tdes_ecb (tdes d) k data = Ok pt /\ length pt = length data /\
                bytes_ok pt = true /\ encrypt_tdes_ecb (tdes d) k pt = Ok data).
  Proof.
    intros V B H1 H2. apply (ecb_roundtrip (tdes d) (tdes_ok d Hd)); try assumption.
    apply tdes_good_len; assumption.
  Qed.

  Theorem tdes_cbc_roundtrip k iv data : tdes_valid_key k = true -> length iv = 8 ->
    bytes_ok iv = true -> bytes_ok data = true -> 0 < length data -> length data mod 8 = 0 ->
    (exists ct, encrypt_tdes_cbc (tdes d) k iv data = Ok ct /\ length ct = length data /\
                bytes_ok ct = true /\ decrypt_tdes_cbc (tdes d) k iv ct = Ok data) /\
    (exists pt, decrypt_tdes_cbc (tdes d) k iv data = Ok pt /\ length pt = length data /\
                bytes_ok pt = true /\ encrypt_tdes_cbc (tdes d) k iv pt = Ok data).
  Proof.
    intros V LI BI B H1 H2. apply (cbc_roundtrip (tdes d) (tdes_ok d Hd)); try assumption.
    apply tdes_good_len; assumption.
  Qed.

  Theorem tdes_rejects k iv data : (length data = 0 \/ length data mod 8 <> 0) ->
    encrypt_tdes_ecb (tdes d) k data = Err ValueError /\
    decrypt_tdes_ecb (tdes d) k data = Err ValueError /\
    encrypt_tdes_cbc (tdes d) k iv data = Err ValueError /\
    decrypt_tdes_cbc (tdes d) k iv data = Err ValueError.
  Proof.
    intros H. apply wrappers_reject_len. apply (bad_len_iff (tdes d) (tdes_ok d Hd)). exact H.
  Qed.
End Tdes.
