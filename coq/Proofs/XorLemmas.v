(* psec.tools.xor goes through host-order integers; it is the bytewise xor. *)
From Coq Require Import Lia.
From Psec Require Import Lib.Base.
Open Scope N_scope.

(* reference: position-wise xor, surplus mask ignored, tail of data unchanged *)
Fixpoint xor_pos (data key : list N) : list N :=
  match data, key with
  | [], _ => []
  | d :: ds, [] => d :: ds
  | d :: ds, k :: ks => N.lxor d k :: xor_pos ds ks
  end.

Lemma bytes_ok_cons a l : bytes_ok (a :: l) = true <-> a < 256 /\ bytes_ok l = true.
Proof.
  unfold bytes_ok, byte_ok. cbn [forallb]. rewrite andb_true_iff, N.ltb_lt. reflexivity.
Qed.

Lemma bytes_ok_app a b : bytes_ok (a ++ b) = true <-> bytes_ok a = true /\ bytes_ok b = true.
Proof. unfold bytes_ok. rewrite forallb_app, andb_true_iff. reflexivity. Qed.

Lemma bytes_ok_firstn n l : bytes_ok l = true -> bytes_ok (firstn n l) = true.
Proof.
  revert n. induction l as [|a l IH]; intros [|n] H; cbn [firstn]; try reflexivity.
  apply bytes_ok_cons in H as [Ha Hl]. apply bytes_ok_cons. auto.
Qed.

Lemma bytes_ok_skipn n l : bytes_ok l = true -> bytes_ok (skipn n l) = true.
Proof.
  revert n. induction l as [|a l IH]; intros [|n] H; cbn [skipn]; auto.
  apply bytes_ok_cons in H as [Ha Hl]. auto.
Qed.

Lemma bytes_ok_repeat b n : b < 256 -> bytes_ok (repeat b n) = true.
Proof. intros Hb. induction n; cbn [repeat]; [reflexivity|]. apply bytes_ok_cons. auto. Qed.

Lemma low_bits_zero c i : c < 256 -> 8 <= i -> N.testbit c i = false.
Proof.
  intros Hc Hi. destruct (N.eq_dec c 0) as [->|]; [apply N.bits_0|].
  apply N.bits_above_log2. apply N.lt_le_trans with 8; [|lia]. apply N.log2_lt_pow2; lia.
Qed.

Lemma land_low_high a x : a < 256 -> N.land a (N.shiftl x 8) = 0.
Proof.
  intros Ha. apply N.bits_inj; intro i. rewrite N.land_spec, N.bits_0.
  destruct (N.ltb_spec i 8).
  - rewrite N.shiftl_spec_low by lia. apply andb_false_r.
  - rewrite (low_bits_zero a i) by lia. reflexivity.
Qed.

Lemma byte_split a x : a < 256 -> a + 256 * x = N.lor a (N.shiftl x 8).
Proof.
  intros Ha. replace (256 * x) with (N.shiftl x 8) by (rewrite N.shiftl_mul_pow2; change (2^8) with 256; lia).
  rewrite N.add_nocarry_lxor by (apply land_low_high; assumption).
  apply N.lxor_lor. apply land_low_high; assumption.
Qed.

Lemma high_zero_lt c : (forall i, 8 <= i -> N.testbit c i = false) -> c < 256.
Proof.
  intros H. assert (c = c mod 2^8) as ->.
  { apply N.bits_inj; intro i. destruct (N.ltb_spec i 8).
    - rewrite N.mod_pow2_bits_low by lia. reflexivity.
    - rewrite N.mod_pow2_bits_high by lia. apply H; lia. }
  apply N.mod_lt. discriminate.
Qed.

Lemma lxor_lt a b : a < 256 -> b < 256 -> N.lxor a b < 256.
Proof.
  intros Ha Hb. apply high_zero_lt. intros i Hi.
  rewrite N.lxor_spec, (low_bits_zero a i), (low_bits_zero b i) by lia. reflexivity.
Qed.

Lemma land_lt a b : a < 256 -> N.land a b < 256.
Proof.
  intros Ha. apply high_zero_lt. intros i Hi.
  rewrite N.land_spec, (low_bits_zero a i) by lia. reflexivity.
Qed.

Lemma lxor_split a b x y : a < 256 -> b < 256 ->
  N.lxor (a + 256 * x) (b + 256 * y) = N.lxor a b + 256 * N.lxor x y.
Proof.
  intros Ha Hb.
  assert (Hab : N.lxor a b < 256) by (apply lxor_lt; assumption).
  rewrite (byte_split a x Ha), (byte_split b y Hb), (byte_split _ _ Hab).
  apply N.bits_inj; intro i.
  rewrite !N.lxor_spec, !N.lor_spec, !N.lxor_spec.
  destruct (N.ltb_spec i 8).
  - rewrite !N.shiftl_spec_low by lia. rewrite !orb_false_r. reflexivity.
  - rewrite !N.shiftl_spec_high' by lia. rewrite N.lxor_spec.
    rewrite (low_bits_zero a i), (low_bits_zero b i) by lia. reflexivity.
Qed.

Lemma le_bytes_cons n a x : a < 256 -> le_bytes (S n) (a + 256 * x) = a :: le_bytes n x.
Proof.
  intros Ha. cbn [le_bytes].
  assert ((a + 256 * x) mod 256 = a) as -> by (symmetry; apply N.mod_unique with x; lia).
  assert ((a + 256 * x) / 256 = x) as -> by (symmetry; apply N.div_unique with a; lia).
  reflexivity.
Qed.

Lemma le_bytes_le_int l : bytes_ok l = true -> le_bytes (length l) (le_int l) = l.
Proof.
  induction l as [|a l IH]; intro H; [reflexivity|].
  apply bytes_ok_cons in H as [Ha Hl].
  cbn [length le_int]. rewrite le_bytes_cons by assumption. f_equal. auto.
Qed.

Theorem py_xor_is_bytewise data key : bytes_ok data = true -> bytes_ok key = true ->
  py_xor data key = xor_pos data key.
Proof.
  unfold py_xor. revert key. induction data as [|d ds IH]; intros key Hd Hk; [reflexivity|].
  apply bytes_ok_cons in Hd as [Hd0 Hds].
  destruct key as [|k ks].
  - cbn [xor_pos]. rewrite firstn_nil. cbn [le_int]. rewrite N.lxor_0_r.
    apply le_bytes_le_int. apply bytes_ok_cons. auto.
  - apply bytes_ok_cons in Hk as [Hk0 Hks].
    cbn [length firstn le_int xor_pos].
    rewrite lxor_split by assumption.
    rewrite le_bytes_cons by (apply lxor_lt; assumption).
    f_equal. apply IH; assumption.
Qed.

Lemma xor_pos_length data key : length (xor_pos data key) = length data.
Proof.
  revert key. induction data as [|d ds IH]; intros [|k ks]; cbn [xor_pos length]; auto.
Qed.

Lemma xor_pos_bytes_ok data key : bytes_ok data = true -> bytes_ok key = true ->
  bytes_ok (xor_pos data key) = true.
Proof.
  revert key. induction data as [|d ds IH]; intros [|k ks] Hd Hk; cbn [xor_pos]; auto.
  apply bytes_ok_cons in Hd as [? ?]. apply bytes_ok_cons in Hk as [? ?].
  apply bytes_ok_cons. split; [apply lxor_lt; assumption | auto].
Qed.

Lemma xor_pos_nth data key i : (i < length data)%nat -> (i < length key)%nat ->
  nth i (xor_pos data key) 0 = N.lxor (nth i data 0) (nth i key 0).
Proof.
  revert key i. induction data as [|d ds IH]; intros [|k ks] [|i] Hd Hk; cbn [length] in *; try lia;
    cbn [xor_pos nth]; [reflexivity|]. apply IH; lia.
Qed.

Lemma xor_pos_nth_beyond data key i : (length key <= i)%nat ->
  nth i (xor_pos data key) 0 = nth i data 0.
Proof.
  revert key i. induction data as [|d ds IH]; intros [|k ks] [|i] Hk; cbn [length] in *; try lia;
    cbn [xor_pos nth]; try reflexivity. apply IH; lia.
Qed.

(* same-length involution: (d xor k) xor k = d *)
Lemma xor_pos_involutive data key : (length data <= length key)%nat ->
  xor_pos (xor_pos data key) key = data.
Proof.
  revert key. induction data as [|d ds IH]; intros [|k ks] H; cbn [length] in *; try lia; cbn [xor_pos]; auto.
  rewrite N.lxor_assoc, N.lxor_nilpotent, N.lxor_0_r. f_equal. apply IH; lia.
Qed.

Lemma xor_pos_comm a b : length a = length b -> xor_pos a b = xor_pos b a.
Proof.
  revert b. induction a as [|x a IH]; intros [|y b] H; cbn [length] in *; try lia; cbn [xor_pos]; auto.
  rewrite N.lxor_comm. f_equal. apply IH; lia.
Qed.

(* the py_xor versions used everywhere else *)
Lemma py_xor_length data key : length (py_xor data key) = length data.
Proof.
  unfold py_xor. generalize (N.lxor (le_int data) (le_int (firstn (length data) key))).
  generalize (length data). induction n; intros; cbn [le_bytes length]; auto.
Qed.

Lemma py_xor_bytes_ok data key : bytes_ok data = true -> bytes_ok key = true ->
  bytes_ok (py_xor data key) = true.
Proof. intros. rewrite py_xor_is_bytewise by assumption. apply xor_pos_bytes_ok; assumption. Qed.

Lemma py_xor_involutive data key : bytes_ok data = true -> bytes_ok key = true ->
  (length data <= length key)%nat -> py_xor (py_xor data key) key = data.
Proof.
  intros Hd Hk Hl. rewrite (py_xor_is_bytewise data key) by assumption.
  rewrite py_xor_is_bytewise by (try apply xor_pos_bytes_ok; assumption).
  apply xor_pos_involutive; assumption.
Qed.
