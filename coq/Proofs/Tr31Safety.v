(* C15, part 5: summary statements, the legacy (pinned-tree) counterexample,
   non-vacuity with the toy ciphers, and the object-level form. *)
From Coq Require Import Lia.
From Psec Require Import Lib.Base Cipher.Cipher Cipher.Toy Model.Tools Model.Mac Model.Tr31
  Proofs.TdesLemmas Proofs.Tr31Defs Proofs.Tr31SafetyBase Proofs.Tr31SafetyLoad
  Proofs.Tr31SafetyUnwrap Proofs.Tr31SafetyWrap.
Open Scope N_scope.

(* the hypotheses on the two ciphers are satisfiable *)
Theorem toy_ciphers_ok : ciphers_ok toy_tdes toy_aes.
Proof.
  constructor.
  - apply tdes_ok. exact toy_des_ok.
  - exact toy_aes_ok.
  - reflexivity.
  - reflexivity.
  - intros k. reflexivity.
  - intros k. reflexivity.
Qed.

(* ------------------------------------------------------------------ *)
(* the pinned tree: pad-block data is not validated                     *)
(* "B0056P0TE00N0100PB08" + 4 x U+00E9 + 32 x "0" *)
Definition legacy_witness : str :=
  [66; 48; 48; 53; 54; 80; 48; 84; 69; 48; 48; 78; 48; 49; 48; 48; 80; 66; 48; 56]
  ++ [233; 233; 233; 233] ++ repeat 48 32.
Definition legacy_kbpk : bytes := repeat 49 16.

Lemma legacy_crash :
  unwrap_legacy toy_tdes toy_aes legacy_kbpk legacy_witness = Err (Crash CUnicodeEncode).
Proof. vm_compute. reflexivity. Qed.

Theorem legacy_refuted : exists cd ca kbpk s, ciphers_ok cd ca /\ bytes_ok kbpk = true /\
  unwrap_legacy cd ca kbpk s = Err (Crash CUnicodeEncode).
Proof.
  exists toy_tdes, toy_aes, legacy_kbpk, legacy_witness.
  split; [exact toy_ciphers_ok|]. split; [reflexivity | exact legacy_crash].
Qed.

(* the header of the witness loads on the pinned tree: the crash is in the MAC step *)
Lemma legacy_load_ok :
  snd (header_load_legacy default_header legacy_witness) = Ok 24%nat.
Proof. vm_compute. reflexivity. Qed.

Lemma repaired_on_witness :
  unwrap toy_tdes toy_aes legacy_kbpk legacy_witness = Err HeaderError.
Proof. vm_compute. reflexivity. Qed.

(* ------------------------------------------------------------------ *)
(* non-vacuity: a wrap with a tape of the right length succeeds and unwraps *)
Definition ex_whdr : str := [66; 48; 48; 48; 48; 80; 48; 84; 69; 48; 48; 78; 48; 48; 48; 48].
Definition ex_dhdr : str := [68; 48; 48; 48; 48; 68; 48; 65; 69; 48; 48; 69; 48; 48; 48; 48].
Definition ex_key : bytes := repeat 238 16.
Definition ex_tape : bytes := [1; 2; 3; 4; 5; 6; 7; 8; 9; 10; 11; 12; 13; 14].
Definition ex_tape_d : bytes := ex_tape ++ ex_tape ++ [15; 16].

Lemma wrap_unwrap_example_B :
  length ex_tape = wrap_tape_len (fst (header_load default_header ex_whdr)) ex_key None /\
  match wrap_str toy_tdes toy_aes legacy_kbpk ex_whdr ex_key None ex_tape with
  | Ok blk => match unwrap toy_tdes toy_aes legacy_kbpk blk with
              | Ok (_, k) => k = ex_key
              | Err _ => False
              end
  | Err _ => False
  end.
Proof. vm_compute. split; reflexivity. Qed.

Lemma wrap_unwrap_example_D :
  length ex_tape_d = wrap_tape_len (fst (header_load default_header ex_dhdr)) ex_key None /\
  match wrap_str toy_tdes toy_aes legacy_kbpk ex_dhdr ex_key None ex_tape_d with
  | Ok blk => match unwrap toy_tdes toy_aes legacy_kbpk blk with
              | Ok (_, k) => k = ex_key
              | Err _ => False
              end
  | Err _ => False
  end.
Proof. vm_compute. split; reflexivity. Qed.

(* the tape marker is reachable only through a wrong tape: shown on an instance *)
Lemma wrong_tape_example :
  wrap_str toy_tdes toy_aes legacy_kbpk ex_whdr ex_key None [] = Err (Crash CType).
Proof. vm_compute. reflexivity. Qed.

(* a module error on each path, for the record *)
Lemma errors_example :
  unwrap toy_tdes toy_aes legacy_kbpk [] = Err HeaderError /\
  unwrap toy_tdes toy_aes legacy_kbpk ex_whdr = Err KeyBlockError /\
  unwrap toy_tdes toy_aes [] (ex_whdr) = Err KeyBlockError /\
  wrap_str toy_tdes toy_aes [1; 2; 3] ex_whdr ex_key None ex_tape = Err KeyBlockError.
Proof. vm_compute. repeat split. Qed.

(* ------------------------------------------------------------------ *)
(* objects                                                              *)
Section Objects.
  Variable cd ca : cipher.
  Hypothesis CO : ciphers_ok cd ca.

  (* the invariant named in the task: a supported version id.  It holds of a new
     Header and every operation keeps it, successful or not. *)
  Theorem step_version st o : version_supported (version_id (st_header st)) = true ->
    version_supported (version_id (st_header (fst (step cd ca st o)))) = true.
  Proof.
    intros V. destruct o as [s|s|key mask tape|f v|id data|id|]; cbn [step].
    - pose proof (header_load_version (st_header st) s V) as H.
      destruct (header_load (st_header st) s). exact H.
    - pose proof (header_load_version (st_header st) s V) as H.
      rewrite <- (kb_unwrap_fst cd ca (st_kbpk st)) in H.
      destruct (kb_unwrap cd ca (st_kbpk st) (st_header st) s). exact H.
    - exact V.
    - destruct f; cbn [set_field field_len].
      + destruct (version_supported v) eqn:Vv; [exact Vv | exact V].
      + destruct (negb _ || negb _); exact V.
      + destruct (negb _ || negb _); exact V.
      + destruct (negb _ || negb _); exact V.
      + destruct (negb _ || negb _); exact V.
      + destruct (negb _ || negb _); exact V.
    - destruct (blocks_setitem id data (blocks (st_header st))); exact V.
    - destruct (dict_del id (blocks (st_header st))); exact V.
    - exact V.
  Qed.

  (* after any history on a fresh KeyBlock, the next load / unwrap / wrap / str /
     assignment raises the module's errors only *)
  Theorem reachable_safe kbpk ops o :
    let st := fst (run cd ca (mkState kbpk default_header) ops) in
    header_wf (st_header st) /\
    match o with
    | OpDelBlock _ => True
    | OpWrap _ _ _ => out_safe (snd (step cd ca st o)) \/ snd (step cd ca st o) = OutErr (Crash CType)
    | _ => out_safe (snd (step cd ca st o))
    end.
  Proof.
    intros st.
    assert (W : header_wf (st_header st)) by (apply run_wf; exact default_header_wf).
    split; [exact W | apply step_safe; [exact CO | exact W]].
  Qed.
End Objects.

(* the premise [header_ok] of the wrap theorem is satisfiable *)
Lemma default_header_ok : header_ok default_header.
Proof.
  unfold header_ok, field_ok. cbn. repeat split; constructor.
Qed.
