(* C17: a reused Header / KeyBlock object behaves like a fresh one.
   Header.load overwrites every field it reads before it can succeed, and every
   check it makes looks at the input text only; KeyBlock.unwrap starts with a
   load.  No cipher hypothesis is needed. *)
From Coq Require Import Lia.
From Psec Require Import Lib.Base Cipher.Cipher Cipher.Toy Model.Tr31.
Open Scope N_scope.

(* ------------------------------------------------------------------ *)
(* Header.load                                                          *)

(* generic in the Blocks.load used (repaired or pinned) *)
Lemma header_load_with_history_free bload s h1 h2 :
  snd (header_load_with bload h1 s) = snd (header_load_with bload h2 s) /\
  (forall n, snd (header_load_with bload h1 s) = Ok n ->
             fst (header_load_with bload h1 s) = fst (header_load_with bload h2 s)).
Proof.
  destruct h1 as [a1 b1 c1 d1 e1 f1 g1 k1], h2 as [a2 b2 c2 d2 e2 f2 g2 k2].
  unfold header_load_with.
  destruct (negb (ascii_alphanumeric (firstn 16 s))); [split; [reflexivity | discriminate]|].
  destruct (length s <? 16)%nat; [split; [reflexivity | discriminate]|].
  cbn [set_field field_len version_id key_usage algorithm mode_of_use version_num
       exportability reserved blocks].
  destruct (version_supported (slice 0 1 s)); [|split; [reflexivity | discriminate]].
  destruct (negb (length (slice 5 2 s) =? 2)%nat || negb (ascii_alphanumeric (slice 5 2 s)));
    [split; [reflexivity | discriminate]|].
  cbn [set_field field_len version_id key_usage algorithm mode_of_use version_num
       exportability reserved blocks].
  destruct (negb (length (slice 7 1 s) =? 1)%nat || negb (ascii_alphanumeric (slice 7 1 s)));
    [split; [reflexivity | discriminate]|].
  cbn [set_field field_len version_id key_usage algorithm mode_of_use version_num
       exportability reserved blocks].
  destruct (negb (length (slice 8 1 s) =? 1)%nat || negb (ascii_alphanumeric (slice 8 1 s)));
    [split; [reflexivity | discriminate]|].
  cbn [set_field field_len version_id key_usage algorithm mode_of_use version_num
       exportability reserved blocks].
  destruct (negb (length (slice 9 2 s) =? 2)%nat || negb (ascii_alphanumeric (slice 9 2 s)));
    [split; [reflexivity | discriminate]|].
  cbn [set_field field_len version_id key_usage algorithm mode_of_use version_num
       exportability reserved blocks].
  destruct (negb (length (slice 11 1 s) =? 1)%nat || negb (ascii_alphanumeric (slice 11 1 s)));
    [split; [reflexivity | discriminate]|].
  cbn [set_field field_len version_id key_usage algorithm mode_of_use version_num
       exportability reserved blocks set_reserved set_blocks].
  destruct (negb (ascii_numeric (slice 12 2 s))); [split; [reflexivity | discriminate]|].
  destruct (int_of_dec (slice 12 2 s)) as [bn|e]; [|split; [reflexivity | discriminate]].
  destruct (bload (N.to_nat bn) (skipn 16 s)) as [d r].
  cbn [fst snd].
  split; reflexivity.
Qed.

Theorem load_history_free s h1 h2 :
  snd (header_load h1 s) = snd (header_load h2 s) /\
  (forall n, snd (header_load h1 s) = Ok n -> fst (header_load h1 s) = fst (header_load h2 s)).
Proof. apply header_load_with_history_free. Qed.

(* ------------------------------------------------------------------ *)
(* KeyBlock.unwrap                                                      *)
Section WithCiphers.
  Variable cd ca : cipher.

  Lemma kb_unwrap_gen_history_free disp hload kbpk s h1 h2 :
    (snd (hload h1 s) = snd (hload h2 s) /\
     (forall n, snd (hload h1 s) = Ok n -> fst (hload h1 s) = fst (hload h2 s))) ->
    snd (kb_unwrap_gen disp hload kbpk h1 s) = snd (kb_unwrap_gen disp hload kbpk h2 s) /\
    (forall k, snd (kb_unwrap_gen disp hload kbpk h1 s) = Ok k ->
               fst (kb_unwrap_gen disp hload kbpk h1 s) = fst (kb_unwrap_gen disp hload kbpk h2 s)).
  Proof.
    intros [Hs Hf]. unfold kb_unwrap_gen.
    destruct (hload h1 s) as [h1' r1] eqn:E1. destruct (hload h2 s) as [h2' r2] eqn:E2.
    cbn [fst snd] in *. subst r2.
    destruct r1 as [n|e].
    - specialize (Hf n eq_refl). subst h2'. split; [reflexivity | intros; reflexivity].
    - cbn [bind]. split; [reflexivity | discriminate].
  Qed.

  Theorem unwrap_history_free kbpk s h1 h2 :
    snd (kb_unwrap cd ca kbpk h1 s) = snd (kb_unwrap cd ca kbpk h2 s) /\
    (forall k, snd (kb_unwrap cd ca kbpk h1 s) = Ok k ->
               fst (kb_unwrap cd ca kbpk h1 s) = fst (kb_unwrap cd ca kbpk h2 s)).
  Proof. apply kb_unwrap_gen_history_free. apply load_history_free. Qed.

  (* ---------------------------------------------------------------- *)
  (* histories                                                          *)
  Definition run_step (acc : kb_state * list outcome) (o : op) : kb_state * list outcome :=
    let '(s, outs) := acc in let '(s', out) := step cd ca s o in (s', outs ++ [out]).

  Lemma run_is_fold st ops : run cd ca st ops = fold_left run_step ops (st, []).
  Proof. reflexivity. Qed.

  Lemma run_snoc st ops o :
    run cd ca st (ops ++ [o]) =
    (fst (step cd ca (fst (run cd ca st ops)) o),
     snd (run cd ca st ops) ++ [snd (step cd ca (fst (run cd ca st ops)) o)]).
  Proof.
    rewrite !run_is_fold, fold_left_app. cbn [fold_left].
    destruct (fold_left run_step ops (st, [])) as [s outs]. cbn [run_step fst snd].
    destruct (step cd ca s o) as [s' out]. reflexivity.
  Qed.

  Lemma step_kbpk st o : st_kbpk (fst (step cd ca st o)) = st_kbpk st.
  Proof.
    destruct o as [s|s|key mask tape|f v|id data|id|]; cbn [step].
    - destruct (header_load (st_header st) s). reflexivity.
    - destruct (kb_unwrap cd ca (st_kbpk st) (st_header st) s). reflexivity.
    - reflexivity.
    - destruct (set_field (st_header st) f v); reflexivity.
    - destruct (blocks_setitem id data (blocks (st_header st))); reflexivity.
    - destruct (dict_del id (blocks (st_header st))); reflexivity.
    - reflexivity.
  Qed.

  Lemma fold_run_kbpk ops acc :
    st_kbpk (fst (fold_left run_step ops acc)) = st_kbpk (fst acc).
  Proof.
    revert acc. induction ops as [|o ops IH]; intros acc; [reflexivity|].
    cbn [fold_left]. rewrite IH. destruct acc as [s outs]. cbn [run_step].
    pose proof (step_kbpk s o) as K. destruct (step cd ca s o) as [s' out]. exact K.
  Qed.

  Theorem run_kbpk st ops : st_kbpk (fst (run cd ca st ops)) = st_kbpk st.
  Proof. rewrite run_is_fold. apply fold_run_kbpk. Qed.

  (* one outcome per operation *)
  Lemma run_outcomes_length st ops : length (snd (run cd ca st ops)) = length ops.
  Proof.
    induction ops as [|o ops IH] using rev_ind; [reflexivity|].
    rewrite run_snoc. cbn [snd]. rewrite !app_length, IH. reflexivity.
  Qed.

  (* two objects with the same KBPK: same next unwrap / load *)
  Lemma step_unwrap_same_kbpk st1 st2 s : st_kbpk st1 = st_kbpk st2 ->
    snd (step cd ca st1 (OpUnwrap s)) = snd (step cd ca st2 (OpUnwrap s)) /\
    (forall k, snd (step cd ca st2 (OpUnwrap s)) = OutBytes k ->
               fst (step cd ca st1 (OpUnwrap s)) = fst (step cd ca st2 (OpUnwrap s))).
  Proof.
    intros K. cbn [step]. rewrite K.
    destruct (unwrap_history_free (st_kbpk st2) s (st_header st1) (st_header st2)) as [Hs Hf].
    destruct (kb_unwrap cd ca (st_kbpk st2) (st_header st1) s) as [h1 r1].
    destruct (kb_unwrap cd ca (st_kbpk st2) (st_header st2) s) as [h2 r2].
    cbn [fst snd] in *. subst r2. split; [reflexivity|].
    intros k Hk. destruct r1 as [k'|e]; [|discriminate].
    rewrite (Hf k' eq_refl). reflexivity.
  Qed.

  Lemma step_load_same_kbpk st1 st2 s : st_kbpk st1 = st_kbpk st2 ->
    snd (step cd ca st1 (OpLoad s)) = snd (step cd ca st2 (OpLoad s)) /\
    (forall n, snd (step cd ca st2 (OpLoad s)) = OutNat n ->
               fst (step cd ca st1 (OpLoad s)) = fst (step cd ca st2 (OpLoad s))).
  Proof.
    intros K. cbn [step]. rewrite K.
    destruct (load_history_free s (st_header st1) (st_header st2)) as [Hs Hf].
    destruct (header_load (st_header st1) s) as [h1 r1].
    destruct (header_load (st_header st2) s) as [h2 r2].
    cbn [fst snd] in *. subst r2. split; [reflexivity|].
    intros n Hn. destruct r1 as [n'|e]; [|discriminate].
    rewrite (Hf n' eq_refl). reflexivity.
  Qed.

  Theorem reachable_history_free kbpk ops s :
    let st := fst (run cd ca (mkState kbpk default_header) ops) in
    let fresh := mkState kbpk default_header in
    (snd (step cd ca st (OpUnwrap s)) = snd (step cd ca fresh (OpUnwrap s)) /\
     (forall k, snd (step cd ca fresh (OpUnwrap s)) = OutBytes k ->
                fst (step cd ca st (OpUnwrap s)) = fst (step cd ca fresh (OpUnwrap s)))) /\
    (snd (step cd ca st (OpLoad s)) = snd (step cd ca fresh (OpLoad s)) /\
     (forall n, snd (step cd ca fresh (OpLoad s)) = OutNat n ->
                fst (step cd ca st (OpLoad s)) = fst (step cd ca fresh (OpLoad s)))).
  Proof.
    intros st fresh.
    assert (K : st_kbpk st = st_kbpk fresh) by (unfold st; rewrite run_kbpk; reflexivity).
    split; [apply step_unwrap_same_kbpk | apply step_load_same_kbpk]; exact K.
  Qed.

  (* wrapping and printing do not touch the object; the wrap outcome is a
     function of (kbpk, header fields, key, mask, tape) *)
  Theorem wrap_pure st key mask tape :
    fst (step cd ca st (OpWrap key mask tape)) = st /\
    fst (step cd ca st OpStr) = st /\
    snd (step cd ca st (OpWrap key mask tape)) =
      match kb_wrap cd ca (st_kbpk st) (st_header st) key mask tape with
      | Ok s => OutStr s | Err e => OutErr e end.
  Proof. repeat split. Qed.

  Theorem wrap_depends_on_fields st1 st2 key mask tape :
    st_kbpk st1 = st_kbpk st2 -> st_header st1 = st_header st2 ->
    snd (step cd ca st1 (OpWrap key mask tape)) = snd (step cd ca st2 (OpWrap key mask tape)) /\
    snd (step cd ca st1 OpStr) = snd (step cd ca st2 OpStr).
  Proof. intros K H. cbn [step snd]. rewrite K, H. split; reflexivity. Qed.
End WithCiphers.

(* ------------------------------------------------------------------ *)
(* concrete histories                                                   *)
(* "B0000P0TE00N01ZZ" + "KS08ABCD": one optional block, reserved "ZZ" *)
Definition ex_hdr1 : str := [66; 48; 48; 48; 48; 80; 48; 84; 69; 48; 48; 78; 48; 49; 90; 90; 75; 83; 48; 56; 65; 66; 67; 68].
(* "D0016K1AB01SXX77": alphanumeric, but the block count "XX" is not numeric *)
Definition ex_bad : str := [68; 48; 48; 49; 54; 75; 49; 65; 66; 48; 49; 83; 88; 88; 55; 55].
(* "A0016D0AN00E0000" *)
Definition ex_hdr2 : str := [65; 48; 48; 49; 54; 68; 48; 65; 78; 48; 48; 69; 48; 48; 48; 48].

(* A load that fails at the block-count check has already overwritten the six
   fields and the reserved field, and still holds the OLD optional blocks: the
   object after a failure is a mixture.  History-freedom of the next load is
   therefore a real theorem, not a consequence of "failure leaves no trace". *)
Lemma failed_load_keeps_prefix :
  header_load (fst (header_load default_header ex_hdr1)) ex_bad =
  (mkHeader [68] [75; 49] [65] [66] [48; 49] [83] [55; 55] [([75; 83], [65; 66; 67; 68])],
   Err HeaderError).
Proof. vm_compute. reflexivity. Qed.

(* load a header with a block and reserved "ZZ"; a failing load; then another
   header: same return value and same object as a fresh Header loading it *)
Lemma history_example cd ca kbpk :
  let st := fst (run cd ca (mkState kbpk default_header) [OpLoad ex_hdr1; OpLoad ex_bad]) in
  snd (run cd ca (mkState kbpk default_header) [OpLoad ex_hdr1; OpLoad ex_bad]) =
    [OutNat 24; OutErr HeaderError] /\
  step cd ca st (OpLoad ex_hdr2) = step cd ca (mkState kbpk default_header) (OpLoad ex_hdr2) /\
  step cd ca st (OpLoad ex_hdr2) =
    (mkState kbpk (mkHeader [65] [68; 48] [65] [78] [48; 48] [69] [48; 48] []), OutNat 16).
Proof. vm_compute. repeat split. Qed.

(* unwrap a version-D block, fail on garbage, then unwrap a version-B block:
   same key and same object as a fresh KeyBlock (toy ciphers, blocks produced by
   the model's own wrap) *)
Definition ex_kbpk : bytes := repeat 49 16.
Definition ex_whdr_b : str := [66; 48; 48; 48; 48; 80; 48; 84; 69; 48; 48; 78; 48; 48; 48; 48].
Definition ex_whdr_d : str := [68; 48; 48; 48; 48; 68; 48; 65; 69; 48; 48; 69; 48; 48; 48; 48].
Definition ex_key_b : bytes := repeat 238 16.
Definition ex_key_d : bytes := repeat 17 24.
Definition ex_tape_b : bytes := [1; 2; 3; 4; 5; 6; 7; 8; 9; 10; 11; 12; 13; 14].
Definition ex_tape_dd : bytes := [1; 2; 3; 4; 5; 6; 7; 8; 9; 10; 11; 12; 13; 14; 15; 16; 17; 18; 19; 20; 21; 22].

Lemma unwrap_history_example :
  match wrap_str toy_tdes toy_aes ex_kbpk ex_whdr_b ex_key_b None ex_tape_b,
        wrap_str toy_tdes toy_aes ex_kbpk ex_whdr_d ex_key_d None ex_tape_dd with
  | Ok blk_b, Ok blk_d =>
      let fresh := mkState ex_kbpk default_header in
      let st := fst (run toy_tdes toy_aes fresh [OpUnwrap blk_d; OpUnwrap ex_bad]) in
      snd (run toy_tdes toy_aes fresh [OpUnwrap blk_d; OpUnwrap ex_bad]) =
        [OutBytes ex_key_d; OutErr HeaderError] /\
      st_header st <> default_header /\
      step toy_tdes toy_aes st (OpUnwrap blk_b) = step toy_tdes toy_aes fresh (OpUnwrap blk_b) /\
      snd (step toy_tdes toy_aes st (OpUnwrap blk_b)) = OutBytes ex_key_b
  | _, _ => False
  end.
Proof. vm_compute. repeat split. discriminate. Qed.
