(* TR-31 text codec: Blocks.dump / Blocks.load and Header.dump / __str__ /
   Header.load are mutually inverse on well-formed headers; framing facts of
   the wrap output; length facts behind the key-length mask. *)
From Coq Require Import Lia ZifyBool ZifyNat ZifyN.
From Psec Require Import Lib.Base Cipher.Cipher Model.Mac Model.Tr31.
From Psec Require Import Proofs.XorLemmas Proofs.PadLemmas Proofs.TextLemmas Proofs.Tr31Defs.
Ltac Zify.zify_post_hook ::= Z.to_euclidean_division_equations.
Open Scope N_scope.

(* ------------------------------------------------------------------ *)
(* the length field of one optional block                               *)
Definition block_len_text (l : N) : res str :=
  if l + 4 <=? 255 then do b <- to_bytes_be 1 (l + 4); Ok (hex_upper b)
  else match to_bytes_be 2 (l + 10) with
       | Ok b => Ok ([c0; c0; c0; 50] ++ hex_upper b)
       | Err _ => Err HeaderError
       end.

Lemma dump_items_cons id data r :
  dump_items ((id, data) :: r) =
  do lp <- block_len_text (lenN data); do t <- dump_items r; Ok (id ++ lp ++ data ++ t).
Proof. reflexivity. Qed.

Lemma block_len_text_ok l lp : block_len_text l = Ok lp ->
  (l + 4 <= 255 /\ lp = hex_upper (be_bytes 1 (l + 4))) \/
  (256 <= l + 4 /\ l + 10 < 65536 /\ lp = [48; 48; 48; 50] ++ hex_upper (be_bytes 2 (l + 10))).
Proof.
  unfold block_len_text. destruct (N.leb_spec (l + 4) 255) as [H|H].
  - rewrite to_bytes_be_1 by lia. cbn [bind]. intros E. injection E as <-. left. auto.
  - destruct (N.ltb_spec (l + 10) 65536) as [H2|H2].
    + rewrite to_bytes_be_2 by assumption. intros E. injection E as <-. right.
      split; [lia|]. split; [assumption|reflexivity].
    + rewrite to_bytes_be_2_err by assumption. discriminate.
Qed.

Lemma block_len_text_short l : l + 4 <= 255 ->
  block_len_text l = Ok (hex_upper (be_bytes 1 (l + 4))).
Proof.
  intros H. unfold block_len_text. destruct (N.leb_spec (l + 4) 255); [|lia].
  rewrite to_bytes_be_1 by lia. reflexivity.
Qed.

Lemma block_len_text_long l : 256 <= l + 4 -> l + 10 < 65536 ->
  block_len_text l = Ok ([48; 48; 48; 50] ++ hex_upper (be_bytes 2 (l + 10))).
Proof.
  intros H H2. unfold block_len_text. destruct (N.leb_spec (l + 4) 255); [lia|].
  rewrite to_bytes_be_2 by assumption. reflexivity.
Qed.

Lemma block_len_text_err l e : block_len_text l = Err e -> e = HeaderError /\ 65526 <= l.
Proof.
  unfold block_len_text. destruct (N.leb_spec (l + 4) 255) as [H|H].
  - rewrite to_bytes_be_1 by lia. discriminate.
  - destruct (N.ltb_spec (l + 10) 65536) as [H2|H2].
    + rewrite to_bytes_be_2 by assumption. discriminate.
    + rewrite to_bytes_be_2_err by assumption. intros E. injection E as <-. split; [reflexivity|lia].
Qed.

Lemma block_len_text_total l : l <= 65525 -> exists lp, block_len_text l = Ok lp.
Proof.
  intros H. destruct (N.leb_spec (l + 4) 255).
  - eexists. apply block_len_text_short. assumption.
  - eexists. apply block_len_text_long; lia.
Qed.

Lemma block_len_text_printable l lp : block_len_text l = Ok lp ->
  ascii_printable lp = true /\ (length lp = 2 \/ length lp = 8)%nat.
Proof.
  intros H. apply block_len_text_ok in H as [[_ ->]|(_ & _ & ->)].
  - split; [apply hex_upper_printable, be_bytes_bytes_ok | left; reflexivity].
  - split; [|right; reflexivity]. apply ascii_printable_app. split; [reflexivity|].
    apply hex_upper_printable, be_bytes_bytes_ok.
Qed.

(* codec lemma 2, extended form *)
Theorem parse_extended_len_text l rest : 256 <= l + 4 -> l + 10 < 65536 ->
  parse_extended_len ([48; 50] ++ hex_upper (be_bytes 2 (l + 10)) ++ rest)
  = Ok (Z.of_N l, rest, 6%nat).
Proof.
  intros H1 H2. destruct (int_of_hex_word (l + 10) H2) as (V & L & Hx).
  unfold parse_extended_len. cbn [app firstn skipn].
  change (ascii_hexchar [48; 50]) with true. cbn [length Nat.eqb negb orb].
  change (int_of_hex [48; 50]) with (Ok (A:=N) 2). cbn [bind].
  change (2 * 2) with 4. change (4 =? 0) with false. cbv iota.
  change (N.to_nat 4) with 4%nat.
  rewrite (firstn_app_len _ rest 4 L), (skipn_app_len _ rest 4 L).
  rewrite L, Hx, V. cbn [Nat.eqb negb orb bind].
  do 2 f_equal. f_equal. lia.
Qed.

(* the part of one Blocks.load iteration that reads the length *)
Definition load_len (rest1 : str) : res (Z * str * nat) :=
  let block_len_s := firstn 2 rest1 in
  if negb (length block_len_s =? 2)%nat || negb (ascii_hexchar block_len_s) then Err HeaderError
  else match int_of_hex block_len_s with
       | Err e => Err e
       | Ok bl0 => if bl0 =? 0 then parse_extended_len (skipn 2 rest1)
                   else Ok ((Z.of_N bl0 - 4)%Z, skipn 2 rest1, 0%nat)
       end.

Lemma blocks_load_aux_S n' rest consumed acc :
  blocks_load_aux (S n') rest consumed acc =
  if negb (length (firstn 2 rest) =? 2)%nat then (acc, Err HeaderError) else
  match load_len (skipn 2 rest) with
  | Err e => (acc, Err e)
  | Ok (block_len, rest3, used) =>
      if (block_len <? 0)%Z then (acc, Err HeaderError) else
      if lenN rest3 <? Z.to_N block_len then (acc, Err HeaderError) else
      let k := N.to_nat (Z.to_N block_len) in
      if is_pad_id (firstn 2 rest) then
        if negb (ascii_printable (firstn k rest3)) then (acc, Err HeaderError)
        else blocks_load_aux n' (skipn k rest3) (consumed + 4 + used + k)%nat acc
      else match blocks_setitem (firstn 2 rest) (firstn k rest3) acc with
           | Err e => (acc, Err e)
           | Ok acc' => blocks_load_aux n' (skipn k rest3) (consumed + 4 + used + k)%nat acc'
           end
  end.
Proof.
  cbn [blocks_load_aux]. unfold load_len.
  destruct (negb (length (firstn 2 rest) =? 2)%nat); [reflexivity|].
  destruct (negb (length (firstn 2 (skipn 2 rest)) =? 2)%nat
            || negb (ascii_hexchar (firstn 2 (skipn 2 rest)))); [reflexivity|].
  destruct (int_of_hex (firstn 2 (skipn 2 rest))) as [bl0|e]; [|reflexivity].
  reflexivity.
Qed.

Theorem load_len_text l lp rest : block_len_text l = Ok lp ->
  load_len (lp ++ rest) = Ok (Z.of_N l, rest, (length lp - 2)%nat).
Proof.
  intros H. apply block_len_text_ok in H as [[Hs ->]|(H1 & H2 & ->)].
  - destruct (int_of_hex_byte (l + 4)) as (V & L & Hx); [lia|].
    unfold load_len. rewrite (firstn_app_len _ rest 2 L), (skipn_app_len _ rest 2 L).
    rewrite L, Hx, V. cbn [Nat.eqb negb orb].
    destruct (N.eqb_spec (l + 4) 0); [lia|]. do 2 f_equal. f_equal. lia.
  - unfold load_len. cbn [app firstn skipn].
    change (ascii_hexchar [48; 48]) with true. cbn [length Nat.eqb negb orb].
    change (int_of_hex [48; 48]) with (Ok (A:=N) 0). change (0 =? 0) with true. cbv iota.
    change (50 :: hex_upper (be_bytes 2 (l + 10)) ++ rest)
      with ([50] ++ hex_upper (be_bytes 2 (l + 10)) ++ rest).
    change (48 :: [50] ++ hex_upper (be_bytes 2 (l + 10)) ++ rest)
      with ([48; 50] ++ hex_upper (be_bytes 2 (l + 10)) ++ rest).
    rewrite parse_extended_len_text by assumption. reflexivity.
Qed.

(* ------------------------------------------------------------------ *)
(* one iteration of Blocks.load on a block written by Blocks.dump       *)
Lemma Z_of_N_not_neg x : (Z.of_N x <? 0)%Z = false.
Proof. lia. Qed.

Theorem blocks_load_step n' id data lp rest consumed acc :
  length id = 2%nat -> block_len_text (lenN data) = Ok lp ->
  blocks_load_aux (S n') (id ++ lp ++ data ++ rest) consumed acc =
    if is_pad_id id then
      if negb (ascii_printable data) then (acc, Err HeaderError)
      else blocks_load_aux n' rest (consumed + length (id ++ lp ++ data))%nat acc
    else match blocks_setitem id data acc with
         | Err e => (acc, Err e)
         | Ok acc' => blocks_load_aux n' rest (consumed + length (id ++ lp ++ data))%nat acc'
         end.
Proof.
  intros Hid Hlp. rewrite blocks_load_aux_S.
  rewrite (firstn_app_len id _ 2 Hid), (skipn_app_len id _ 2 Hid), Hid.
  cbn [Nat.eqb negb]. rewrite (load_len_text _ _ _ Hlp).
  rewrite Z_of_N_not_neg, N2Z.id. unfold lenN at 1. rewrite app_length.
  destruct (N.ltb_spec (N.of_nat (length data + length rest)) (lenN data)) as [Hc|_];
    [unfold lenN in Hc; lia|].
  cbv zeta. unfold lenN. rewrite Nat2N.id.
  rewrite (firstn_app_len data rest _ eq_refl), (skipn_app_len data rest _ eq_refl).
  assert (E : (consumed + 4 + (length lp - 2) + length data
               = consumed + length (id ++ lp ++ data))%nat).
  { rewrite !app_length, Hid. destruct (block_len_text_printable _ _ Hlp) as [_ [L|L]]; rewrite L; lia. }
  rewrite E. reflexivity.
Qed.

(* ------------------------------------------------------------------ *)
(* dict                                                                 *)
Lemma dict_set_fresh k v d : ~ In k (map fst d) -> dict_set k v d = d ++ [(k, v)].
Proof.
  induction d as [|[k' v'] r IH]; intros H; [reflexivity|].
  cbn [dict_set map fst In app] in *.
  rewrite list_eqb_neq by (intros ->; apply H; left; reflexivity).
  rewrite IH by (intros Hin; apply H; right; exact Hin). reflexivity.
Qed.

Lemma blocks_setitem_ok id data acc :
  length id = 2%nat -> ascii_alphanumeric id = true -> ascii_printable data = true ->
  blocks_setitem id data acc = Ok (dict_set id data acc).
Proof.
  intros L A P. unfold blocks_setitem. rewrite L, A, P. reflexivity.
Qed.

(* ------------------------------------------------------------------ *)
(* codec lemma 3: dump_items / blocks_load_aux                           *)
Theorem dump_items_load d : forall t, Forall block_entry_ok d -> NoDup (map fst d) ->
  dump_items d = Ok t ->
  forall k rest consumed acc,
    (forall x, In x (map fst acc) -> ~ In x (map fst d)) ->
    blocks_load_aux (length d + k) (t ++ rest) consumed acc =
    blocks_load_aux k rest (consumed + length t)%nat (acc ++ d).
Proof.
  induction d as [|[id data] r IH]; intros t Hok Hnd Hd k rest consumed acc Hdisj.
  - cbn [dump_items] in Hd. injection Hd as <-. cbn [length app Nat.add].
    rewrite Nat.add_0_r, app_nil_r. reflexivity.
  - rewrite dump_items_cons in Hd.
    destruct (block_len_text (lenN data)) as [lp|e] eqn:Hlp; [|discriminate]. cbn [bind] in Hd.
    destruct (dump_items r) as [tr|e] eqn:Hr; [|discriminate]. cbn [bind] in Hd.
    injection Hd as <-.
    inversion Hok as [|? ? Hent Hokr]; subst. inversion Hnd as [|? ? Hfresh Hndr]; subst.
    destruct Hent as (Lid & Aid & Pid & Pdata). cbn [fst snd] in *.
    cbn [length Nat.add]. rewrite <- !app_assoc.
    rewrite (blocks_load_step _ id data lp (tr ++ rest) consumed acc Lid Hlp).
    rewrite Pid. rewrite (blocks_setitem_ok id data acc Lid Aid Pdata).
    rewrite dict_set_fresh.
    2:{ intros Hin. apply (Hdisj id Hin). cbn [map fst In]. left. reflexivity. }
    rewrite (IH tr Hokr Hndr eq_refl k rest).
    2:{ intros x Hx. rewrite map_app, in_app_iff in Hx. cbn [map fst In] in Hx.
        destruct Hx as [Hx|[<-|[]]].
        - intros Hin. apply (Hdisj x Hx). cbn [map fst In]. right. exact Hin.
        - exact Hfresh. }
    rewrite <- app_assoc. cbn [app]. f_equal. rewrite !app_length. lia.
Qed.

Corollary dump_items_load_all d t rest consumed acc :
  Forall block_entry_ok d -> NoDup (map fst d) -> dump_items d = Ok t ->
  (forall x, In x (map fst acc) -> ~ In x (map fst d)) ->
  blocks_load_aux (length d) (t ++ rest) consumed acc = (acc ++ d, Ok (consumed + length t)%nat).
Proof.
  intros Hok Hnd Hd Hdisj.
  pose proof (dump_items_load d t Hok Hnd Hd 0%nat rest consumed acc Hdisj) as E.
  rewrite Nat.add_0_r in E. rewrite E. reflexivity.
Qed.

Lemma dump_items_printable d : forall t, Forall block_entry_ok d -> dump_items d = Ok t ->
  ascii_printable t = true.
Proof.
  induction d as [|[id data] r IH]; intros t Hok Hd.
  - injection Hd as <-. reflexivity.
  - rewrite dump_items_cons in Hd.
    destruct (block_len_text (lenN data)) as [lp|e] eqn:Hlp; [|discriminate]. cbn [bind] in Hd.
    destruct (dump_items r) as [tr|e] eqn:Hr; [|discriminate]. cbn [bind] in Hd.
    injection Hd as <-. inversion Hok as [|? ? Hent Hokr]; subst.
    destruct Hent as (Lid & Aid & Pid & Pdata). cbn [fst snd] in *.
    rewrite !ascii_printable_app. repeat split.
    + apply ascii_alnum_printable. assumption.
    + apply (block_len_text_printable _ _ Hlp).
    + assumption.
    + apply IH; [assumption|reflexivity].
Qed.

(* when does dump_items succeed *)
Lemma dump_items_ok_iff d :
  (exists t, dump_items d = Ok t) <-> Forall (fun e => lenN (snd e) <= 65525) d.
Proof.
  induction d as [|[id data] r IH].
  - split; [constructor | intros _; eexists; reflexivity].
  - rewrite dump_items_cons. split.
    + intros [t Hd]. destruct (block_len_text (lenN data)) as [lp|e] eqn:Hlp; [|discriminate].
      cbn [bind] in Hd. destruct (dump_items r) as [tr|e] eqn:Hr; [|discriminate].
      constructor.
      * cbn [snd]. apply block_len_text_ok in Hlp. lia.
      * apply IH. eexists. reflexivity.
    + intros H. inversion H as [|? ? H1 H2]; subst. cbn [snd] in H1.
      destruct (block_len_text_total _ H1) as [lp ->]. apply IH in H2 as [tr ->].
      eexists. reflexivity.
Qed.

Lemma dump_items_err d e : dump_items d = Err e ->
  e = HeaderError /\ Exists (fun b => 65525 < lenN (snd b)) d.
Proof.
  induction d as [|[id data] r IH]; [discriminate|]. rewrite dump_items_cons.
  destruct (block_len_text (lenN data)) as [lp|e'] eqn:Hlp.
  - cbn [bind]. destruct (dump_items r) as [tr|e'] eqn:Hr; [discriminate|].
    cbn [bind]. intros E. injection E as <-. destruct (IH eq_refl) as [-> Hex].
    split; [reflexivity | apply Exists_cons_tl; assumption].
  - cbn [bind]. intros E. injection E as <-. apply block_len_text_err in Hlp as [-> Hl].
    split; [reflexivity|]. apply Exists_cons_hd. cbn [snd]. lia.
Qed.

(* ------------------------------------------------------------------ *)
(* Blocks.dump with the pad block                                       *)
Lemma Ok_pair_inj {A B} (a a' : A) (b b' : B) : Ok (a, b) = Ok (a', b') -> a = a' /\ b = b'.
Proof. intros E. inversion E. auto. Qed.

Definition pad_block (p : nat) : str :=
  [80; 66] ++ hex_upper (be_bytes 1 (N.of_nat (4 + p))) ++ repeat 48 p.

Lemma pad_block_length p : length (pad_block p) = (4 + p)%nat.
Proof. unfold pad_block. rewrite !app_length, repeat_length. reflexivity. Qed.

Theorem blocks_dump_shape abs d n t : (abs = 8 \/ abs = 16)%nat ->
  blocks_dump abs d = Ok (n, t) ->
  exists t0, dump_items d = Ok t0 /\ (n <= 99)%nat /\ (length t mod abs = 0)%nat /\
    ((t = t0 /\ n = length d /\ (length t0 mod abs = 0)%nat) \/
     ((length t0 mod abs <> 0)%nat /\
      exists p, (1 <= p <= abs)%nat /\ p = (abs - (length t0 + 4) mod abs)%nat /\
                t = t0 ++ pad_block p /\ n = S (length d))).
Proof.
  intros Habs. unfold blocks_dump.
  destruct (dump_items d) as [t0|e]; [|discriminate]. cbn [bind].
  destruct (Nat.eqb_spec (length t0 mod abs) 0) as [Hm|Hm]; cbn [negb bind].
  - rewrite Nat.add_0_r. destruct (Nat.ltb_spec 99 (length d)); [discriminate|].
    intros E. injection E as <- <-. exists t0. rewrite app_nil_r.
    split; [reflexivity|]. split; [lia|]. split; [assumption|]. left. auto.
  - set (p := (abs - (length t0 + 4) mod abs)%nat).
    assert (Hp : (1 <= p <= abs)%nat) by (unfold p; destruct Habs as [-> | ->]; lia).
    rewrite to_bytes_be_1 by (destruct Habs as [-> | ->]; lia). cbn [bind].
    destruct (Nat.ltb_spec 99 (length d + 1)); [discriminate|].
    intros E. apply Ok_pair_inj in E as [<- <-]. exists t0.
    split; [reflexivity|]. split; [lia|]. split.
    + change ([cP; cB] ++ hex_upper (be_bytes 1 (N.of_nat (4 + p))) ++ repeat c0 p)
        with (pad_block p).
      rewrite app_length, pad_block_length. unfold p. destruct Habs as [-> | ->]; lia.
    + right. split; [assumption|]. exists p. split; [assumption|]. split; [reflexivity|].
      split; [reflexivity|lia].
Qed.

Lemma pad_block_load p rest consumed acc : (p <= 251)%nat ->
  blocks_load_aux 1 (pad_block p ++ rest) consumed acc = (acc, Ok (consumed + (4 + p))%nat).
Proof.
  intros Hp. unfold pad_block. rewrite <- !app_assoc.
  rewrite (blocks_load_step 0 [80; 66] (repeat 48 p)
             (hex_upper (be_bytes 1 (N.of_nat (4 + p)))) rest consumed acc eq_refl).
  - change (is_pad_id [80; 66]) with true. cbv iota.
    replace (ascii_printable (repeat 48 p)) with true
      by (symmetry; apply forallb_repeat; reflexivity).
    cbn [negb blocks_load_aux]. rewrite !app_length, repeat_length. reflexivity.
  - unfold lenN. rewrite repeat_length. rewrite block_len_text_short by lia.
    do 3 f_equal. lia.
Qed.

(* codec lemma 3, with the pad block *)
Theorem blocks_dump_load abs d n t rest : (abs = 8 \/ abs = 16)%nat ->
  Forall block_entry_ok d -> NoDup (map fst d) ->
  blocks_dump abs d = Ok (n, t) ->
  blocks_load n (t ++ rest) = (d, Ok (length t)).
Proof.
  intros Habs Hok Hnd Hd.
  destruct (blocks_dump_shape abs d n t Habs Hd) as (t0 & Ht0 & _ & _ & Hcase).
  unfold blocks_load. destruct Hcase as [(-> & -> & _)|(_ & p & Hp & _ & -> & ->)].
  - rewrite (dump_items_load_all d t0 rest 0 [] Hok Hnd Ht0) by (intros x []). reflexivity.
  - replace (S (length d)) with (length d + 1)%nat by lia. rewrite <- app_assoc.
    rewrite (dump_items_load d t0 Hok Hnd Ht0 1%nat (pad_block p ++ rest) 0%nat [])
      by (intros x []).
    rewrite pad_block_load by (destruct Habs; lia).
    rewrite app_length, pad_block_length. reflexivity.
Qed.

Lemma pad_block_printable p : ascii_printable (pad_block p) = true.
Proof.
  unfold pad_block. rewrite !ascii_printable_app. repeat split.
  - apply hex_upper_printable, be_bytes_bytes_ok.
  - apply forallb_repeat. reflexivity.
Qed.

Lemma blocks_dump_printable abs d n t : (abs = 8 \/ abs = 16)%nat -> Forall block_entry_ok d ->
  blocks_dump abs d = Ok (n, t) -> ascii_printable t = true.
Proof.
  intros Habs Hok Hd.
  destruct (blocks_dump_shape abs d n t Habs Hd) as (t0 & Ht0 & _ & _ & Hcase).
  pose proof (dump_items_printable d t0 Hok Ht0) as P0.
  destruct Hcase as [(-> & _)|(_ & p & _ & _ & -> & _)]; [assumption|].
  apply ascii_printable_app. split; [assumption | apply pad_block_printable].
Qed.

(* statement of C12_pad_block_shape *)
Theorem blocks_dump_pad_shape abs d n t t0 : (abs = 8 \/ abs = 16)%nat ->
  blocks_dump abs d = Ok (n, t) -> dump_items d = Ok t0 ->
  (t = t0 /\ n = length d /\ (length t0 mod abs = 0)%nat) \/
  (exists p, (1 <= p <= abs)%nat /\
     t = t0 ++ [80; 66] ++ hex_upper (be_bytes 1 (N.of_nat (4 + p))) ++ repeat 48 p /\
     n = S (length d) /\ (length t mod abs = 0)%nat).
Proof.
  intros Habs Hd Ht0.
  destruct (blocks_dump_shape abs d n t Habs Hd) as (t0' & Ht0' & _ & Hm & Hcase).
  rewrite Ht0 in Ht0'. injection Ht0' as <-.
  destruct Hcase as [H|(_ & p & Hp & _ & -> & ->)]; [left; exact H|].
  right. exists p. repeat split; try lia; assumption.
Qed.

(* both branches of the pad formula occur; a full-size pad when (len+4) mod abs = 0 *)
Lemma pad_num_full abs l : (abs = 8 \/ abs = 16)%nat -> ((l + 4) mod abs = 0)%nat ->
  (l mod abs <> 0 /\ abs - (l + 4) mod abs = abs)%nat.
Proof. intros [-> | ->] H; lia. Qed.

(* ------------------------------------------------------------------ *)
(* versions                                                             *)
Lemma version_cases v : version_supported v = true -> v = [65] \/ v = [66] \/ v = [67] \/ v = [68].
Proof.
  destruct v as [|c [|]]; try discriminate. unfold version_supported, cA, cB, cC, cD. intros H.
  assert (c = 65 \/ c = 66 \/ c = 67 \/ c = 68) as [-> | [-> | [-> | ->]]] by lia; auto.
Qed.

Definition version_abs (v : str) : nat := match v with [68] => 16%nat | _ => 8%nat end.
Definition version_maclen (v : str) : nat :=
  match v with [66] => 8%nat | [68] => 16%nat | _ => 4%nat end.

Lemma version_tables v : version_supported v = true ->
  algo_block_size v = Ok (version_abs v) /\ key_block_mac_len v = Ok (version_maclen v) /\
  (version_abs v = 8 \/ version_abs v = 16)%nat.
Proof.
  intros H. destruct (version_cases v H) as [-> | [-> | [-> | ->]]]; cbn; auto.
Qed.

Lemma algo_block_size_cases v abs : algo_block_size v = Ok abs -> (abs = 8 \/ abs = 16)%nat.
Proof.
  unfold algo_block_size. intros H.
  repeat match type of H with
         | match ?x with _ => _ end = _ => destruct x; try discriminate
         end; injection H as <-; auto.
Qed.

(* ------------------------------------------------------------------ *)
(* codec lemma 4: Header text re-loads                                  *)
Lemma forallb_cons_true {A} (p : A -> bool) x l :
  forallb p (x :: l) = true -> p x = true /\ forallb p l = true.
Proof. cbn [forallb]. intros H. apply andb_true_iff in H. exact H. Qed.

Lemma version_alnum c : version_supported [c] = true -> is_alnum c = true.
Proof. unfold version_supported, cA, cB, cC, cD, is_alnum, is_digit, is_upper, is_lower. lia. Qed.

Theorem header_load_text_gen h len n t rest st :
  header_ok h -> len <= 9999 -> (n <= 99)%nat ->
  blocks_load n (t ++ rest) = (blocks h, Ok (length t)) ->
  header_load st (header_text h len n t ++ rest) = (h, Ok (16 + length t)%nat).
Proof.
  intros Hok Hlen Hn Hbl.
  destruct h as [v ku alg mou vn ex rs bl]. unfold header_ok, field_ok in Hok.
  cbn [version_id key_usage algorithm mode_of_use version_num exportability reserved blocks] in *.
  destruct Hok as (Hv & [Lku Aku] & [Lalg Aalg] & [Lmou Amou] & [Lvn Avn] & [Lex Aex] & [Lrs Ars] & _).
  destruct v as [|cv [|]]; try discriminate Hv.
  apply length2 in Lku as (k1 & k2 & ->). apply length1 in Lalg as (a1 & ->).
  apply length1 in Lmou as (m1 & ->). apply length2 in Lvn as (n1 & n2 & ->).
  apply length1 in Lex as (e1 & ->). apply length2 in Lrs as (r1 & r2 & ->).
  destruct (int_of_dec_zfill4 len Hlen) as (_ & L4 & N4).
  destruct (int_of_dec_zfill2 (N.of_nat n)) as (V2 & L2 & N2); [lia|].
  unfold header_text.
  cbn [version_id key_usage algorithm mode_of_use version_num exportability reserved blocks].
  remember (zfill 4 (str_of_N len)) as z4 eqn:E4. clear E4.
  remember (zfill 2 (str_of_N (N.of_nat n))) as z2 eqn:E2. clear E2.
  destruct z4 as [|d1 [|d2 [|d3 [|d4 [|]]]]]; try discriminate L4.
  destruct z2 as [|b1 [|b2 [|]]]; try discriminate L2.
  pose proof (ascii_numeric_alnum _ N4) as A4. pose proof (ascii_numeric_alnum _ N2) as A2.
  pose proof (version_alnum cv Hv) as Acv.
  unfold ascii_alphanumeric in *.
  repeat match goal with
         | H : forallb is_alnum (_ :: _) = true |- _ => apply forallb_cons_true in H as [? H]
         end.
  unfold header_load, header_load_with, slice.
  cbn [app firstn skipn length forallb Nat.ltb Nat.leb].
  cbn [set_field]. rewrite Hv.
  cbn [set_field field_len length Nat.eqb forallb
       version_id key_usage algorithm mode_of_use version_num exportability reserved blocks].
  unfold ascii_alphanumeric. cbn [forallb].
  repeat match goal with
         | H : is_alnum ?c = true |- context [is_alnum ?c] => rewrite H
         end.
  cbn [andb negb orb
       version_id key_usage algorithm mode_of_use version_num exportability reserved blocks].
  rewrite N2, V2. cbn [negb]. rewrite Nat2N.id, Hbl.
  unfold set_blocks, set_reserved.
  cbn [bind version_id key_usage algorithm mode_of_use version_num exportability reserved blocks].
  reflexivity.
Qed.

Theorem header_load_text h len n t rest st abs :
  header_ok h -> algo_block_size (version_id h) = Ok abs ->
  blocks_dump abs (blocks h) = Ok (n, t) -> len <= 9999 ->
  header_load st (header_text h len n t ++ rest) = (h, Ok (16 + length t)%nat).
Proof.
  intros Hok Habs Hd Hlen. pose proof (algo_block_size_cases _ _ Habs) as Hc.
  destruct (blocks_dump_shape abs _ n t Hc Hd) as (_ & _ & Hn & _).
  pose proof Hok as (_ & _ & _ & _ & _ & _ & _ & Hbl & Hnd).
  apply header_load_text_gen; try assumption.
  apply (blocks_dump_load abs); assumption.
Qed.

Lemma header_text_length h len n t : header_ok h -> len <= 9999 -> (n <= 99)%nat ->
  length (header_text h len n t) = (16 + length t)%nat.
Proof.
  intros Hok Hlen Hn.
  destruct Hok as (Hv & [Lku _] & [Lalg _] & [Lmou _] & [Lvn _] & [Lex _] & [Lrs _] & _).
  destruct (int_of_dec_zfill4 len Hlen) as (_ & L4 & _).
  destruct (int_of_dec_zfill2 (N.of_nat n)) as (_ & L2 & _); [lia|].
  assert (Lv : length (version_id h) = 1%nat).
  { destruct (version_cases _ Hv) as [-> | [-> | [-> | ->]]]; reflexivity. }
  unfold header_text. rewrite !app_length, L4, L2, Lv, Lku, Lalg, Lmou, Lvn, Lex, Lrs. lia.
Qed.

(* codec lemma 5: characters of the header text *)
Theorem header_text_printable h len n t : header_ok h -> ascii_printable t = true ->
  ascii_printable (header_text h len n t) = true.
Proof.
  intros Hok Ht.
  destruct Hok as (Hv & [_ Aku] & [_ Aalg] & [_ Amou] & [_ Avn] & [_ Aex] & [_ Ars] & _).
  assert (Av : ascii_alphanumeric (version_id h) = true).
  { destruct (version_cases _ Hv) as [-> | [-> | [-> | ->]]]; reflexivity. }
  unfold header_text. rewrite !ascii_printable_app.
  repeat split; try (apply ascii_alnum_printable; assumption); try assumption;
    apply ascii_alnum_printable, ascii_numeric_alnum, zfill_str_of_N_numeric.
Qed.

Lemma header_text_fields h len n t : header_ok h -> len <= 9999 -> (n <= 99)%nat ->
  slice 1 4 (header_text h len n t) = zfill 4 (str_of_N len) /\
  slice 12 2 (header_text h len n t) = zfill 2 (str_of_N (N.of_nat n)).
Proof.
  intros Hok Hlen Hn.
  destruct Hok as (Hv & [Lku _] & [Lalg _] & [Lmou _] & [Lvn _] & [Lex _] & [Lrs _] & _).
  destruct (int_of_dec_zfill4 len Hlen) as (_ & L4 & _).
  destruct (int_of_dec_zfill2 (N.of_nat n)) as (_ & L2 & _); [lia|].
  assert (Lv : length (version_id h) = 1%nat).
  { destruct (version_cases _ Hv) as [-> | [-> | [-> | ->]]]; reflexivity. }
  unfold header_text. split.
  - apply slice_app_mid; assumption.
  - rewrite !app_assoc. rewrite <- (app_assoc _ (zfill 2 _)).
    rewrite <- (app_assoc _ (zfill 2 _ ++ _)). rewrite <- (app_assoc (zfill 2 _)).
    apply slice_app_mid; [|assumption].
    rewrite !app_length, L4, Lv, Lku, Lalg, Lmou, Lvn, Lex. reflexivity.
Qed.

Lemma slice_app_l {A} (a b : list A) i k : (i + k <= length a)%nat -> slice i k (a ++ b) = slice i k a.
Proof.
  intros H. unfold slice. rewrite skipn_app, firstn_app, skipn_length.
  replace (k - (length a - i))%nat with 0%nat by lia. cbn [firstn]. apply app_nil_r.
Qed.

(* ------------------------------------------------------------------ *)
(* Header.__str__ and Header.dump                                       *)
Lemma header_str_ok h s : version_supported (version_id h) = true -> header_str h = Ok s ->
  exists n t, blocks_dump (version_abs (version_id h)) (blocks h) = Ok (n, t) /\
              s = header_text h (16 + lenN t) n t.
Proof.
  intros Hv. unfold header_str. destruct (version_tables _ Hv) as (-> & _ & _). cbn [bind].
  destruct (blocks_dump _ _) as [[n t]|e]; [|discriminate]. cbn [bind].
  intros E. injection E as <-. eauto.
Qed.

Definition kb_len_of (abs ml : nat) (key_len : N) (t : str) : N :=
  16 + 4 + key_len * 2 + (N.of_nat abs - (2 + key_len) mod N.of_nat abs) * 2
  + N.of_nat ml * 2 + lenN t.

Lemma header_dump_ok h kl s : version_supported (version_id h) = true ->
  header_dump h kl = Ok s ->
  exists n t, blocks_dump (version_abs (version_id h)) (blocks h) = Ok (n, t) /\
    kb_len_of (version_abs (version_id h)) (version_maclen (version_id h)) kl t <= 9999 /\
    s = header_text h (kb_len_of (version_abs (version_id h)) (version_maclen (version_id h)) kl t) n t.
Proof.
  intros Hv. unfold header_dump. destruct (version_tables _ Hv) as (-> & -> & _). cbn [bind].
  destruct (blocks_dump _ _) as [[n t]|e]; [|discriminate]. cbn [bind].
  fold (kb_len_of (version_abs (version_id h)) (version_maclen (version_id h)) kl t).
  destruct (N.ltb_spec 9999 (kb_len_of (version_abs (version_id h)) (version_maclen (version_id h)) kl t));
    [discriminate|].
  intros E. injection E as <-. exists n, t. auto.
Qed.

Lemma zfill_length_ge k s : (k <= length (zfill k s))%nat.
Proof. unfold zfill, rjust. rewrite app_length, repeat_length. lia. Qed.

(* codec lemma 4 for str(header); the premise on the size is necessary *)
Theorem header_str_load h s : header_ok h -> header_str h = Ok s -> lenN s <= 9999 ->
  forall st rest, header_load st (s ++ rest) = (h, Ok (length s)).
Proof.
  intros Hok Hs Hlen st rest. pose proof Hok as (Hv & _).
  destruct (header_str_ok h s Hv Hs) as (n & t & Hd & ->).
  destruct (version_tables _ Hv) as (Habs & _ & Hc).
  destruct (blocks_dump_shape _ _ n t Hc Hd) as (_ & _ & Hn & _).
  assert (Hl : 16 + lenN t <= 9999).
  { destruct (N.le_gt_cases (16 + lenN t) 9999) as [|Hbig]; [assumption|]. exfalso.
    (* the text is at least as long as its blocks part *)
    destruct Hok as (_ & [Lku _] & [Lalg _] & [Lmou _] & [Lvn _] & [Lex _] & [Lrs _] & _).
    assert (Lv : length (version_id h) = 1%nat).
    { destruct (version_cases _ Hv) as [-> | [-> | [-> | ->]]]; reflexivity. }
    destruct (int_of_dec_zfill2 (N.of_nat n)) as (_ & L2 & _); [lia|].
    pose proof (zfill_length_ge 4 (str_of_N (16 + lenN t))) as L4.
    unfold lenN, header_text in Hlen. rewrite !app_length in Hlen. unfold lenN in Hbig, L4. lia. }
  rewrite (header_load_text h _ n t rest st _ Hok Habs Hd Hl).
  rewrite header_text_length by assumption. reflexivity.
Qed.

Theorem header_dump_load h kl s : header_ok h -> header_dump h kl = Ok s ->
  forall st rest, header_load st (s ++ rest) = (h, Ok (length s)).
Proof.
  intros Hok Hs st rest. pose proof Hok as (Hv & _).
  destruct (header_dump_ok h kl s Hv Hs) as (n & t & Hd & Hl & ->).
  destruct (version_tables _ Hv) as (Habs & _ & Hc).
  destruct (blocks_dump_shape _ _ n t Hc Hd) as (_ & _ & Hn & _).
  rewrite (header_load_text h _ n t rest st _ Hok Habs Hd Hl).
  rewrite header_text_length by assumption. reflexivity.
Qed.

(* ------------------------------------------------------------------ *)
(* cipher length facts (abstract ciphers)                               *)
Section CipherFacts.
  Variable c : cipher.
  Hypothesis Hc : cipher_ok c.

  Lemma cbc_enc_n_ok k : valid_key c k = true -> forall n iv data,
    block_ok c iv -> bytes_ok data = true -> length data = (n * bs c)%nat ->
    length (cbc_enc_n c k n iv data) = (n * bs c)%nat /\ bytes_ok (cbc_enc_n c k n iv data) = true.
  Proof.
    intros Hk. induction n as [|n IH]; intros iv data [Liv Biv] Bd Ld; [split; reflexivity|].
    cbn [cbc_enc_n]. cbn [Nat.mul] in Ld.
    assert (Hct : block_ok c (enc c k (xorb (firstn (bs c) data) iv))).
    { apply (enc_block c Hc); [assumption|]. unfold xorb. split.
      - rewrite py_xor_length, firstn_length. lia.
      - apply py_xor_bytes_ok; [apply bytes_ok_firstn|]; assumption. }
    destruct (IH _ (skipn (bs c) data) Hct (bytes_ok_skipn _ _ Bd)) as [L B].
    { rewrite skipn_length. lia. }
    destruct Hct as [Lct Bct]. split.
    - rewrite app_length, L, Lct. cbn [Nat.mul]. reflexivity.
    - apply bytes_ok_app. auto.
  Qed.

  Lemma encrypt_cbc_ok k iv data ct : bytes_ok iv = true -> bytes_ok data = true ->
    encrypt_cbc c k iv data = Ok ct ->
    length ct = length data /\ bytes_ok ct = true /\ (bs c <= length data)%nat /\
    (length data mod bs c = 0)%nat /\ valid_key c k = true /\ length iv = bs c.
  Proof.
    intros Biv Bd. unfold encrypt_cbc, bad_len.
    pose proof (bs_pos c Hc) as Hpos.
    destruct (Nat.ltb_spec (length data) (bs c)); [discriminate|].
    destruct (Nat.eqb_spec (length data mod bs c) 0) as [Hm|]; [|discriminate]. cbn [orb negb].
    destruct (valid_key c k) eqn:Hk; [|discriminate]. cbn [negb].
    destruct (Nat.eqb_spec (length iv) (bs c)) as [Liv|]; [|discriminate]. cbn [negb].
    intros E. injection E as <-.
    assert (Ld : length data = (nblocks c data * bs c)%nat).
    { unfold nblocks. rewrite Nat.mul_comm. apply Nat.div_exact; lia. }
    destruct (cbc_enc_n_ok k Hk (nblocks c data) iv data (conj Liv Biv) Bd Ld) as [L B].
    rewrite L, <- Ld. auto 10.
  Qed.
End CipherFacts.

Lemma encode_ascii_ok s hb : encode_ascii s = Ok hb -> hb = s /\ bytes_ok s = true.
Proof.
  unfold encode_ascii. destruct (forallb (fun c => c <? 128) s) eqn:H; [|discriminate].
  intros E. injection E as <-. split; [reflexivity|].
  eapply forallb_impl; [|exact H]. intros x. unfold byte_ok. lia.
Qed.

Lemma last_n_length {A} k (l : list A) : (k <= length l)%nat -> length (last_n k l) = k.
Proof. intros H. unfold last_n. rewrite skipn_length. lia. Qed.

Section WrapFacts.
  Variables cd ca : cipher.
  Hypothesis Hcs : ciphers_ok cd ca.

  Lemma generate_cbc_mac_ok key data m (aes : bool) mac :
    bytes_ok data = true -> (m <= bs (if aes then ca else cd))%nat ->
    generate_cbc_mac cd ca key data 1 (Some m) aes = Ok mac ->
    length mac = m /\ bytes_ok mac = true.
  Proof.
    intros Bd Hm. unfold generate_cbc_mac. set (c := if aes then ca else cd) in *.
    assert (Hc : cipher_ok c) by (destruct aes; [apply (ca_ok _ _ Hcs) | apply (cd_ok _ _ Hcs)]).
    cbn [pad_dispatch]. rewrite pad1_shape by (apply (bs_pos c Hc)). cbn [bind].
    set (data' := data ++ repeat 0 (pad1_count (bs c) (length data))).
    assert (Bd' : bytes_ok data' = true).
    { apply bytes_ok_app. split; [assumption | apply bytes_ok_repeat; lia]. }
    destruct (encrypt_cbc c key (repeat 0 (bs c)) data') as [ct|e] eqn:E; [|discriminate].
    cbn [bind]. intros M. injection M as <-.
    assert (Bz : bytes_ok (repeat 0 (bs c)) = true) by (apply bytes_ok_repeat; lia).
    destruct (encrypt_cbc_ok c Hc _ _ _ _ Bz Bd' E) as (L & B & Hge & _).
    split.
    - rewrite firstn_length, last_n_length by lia. lia.
    - apply bytes_ok_firstn. unfold last_n. apply bytes_ok_skipn. assumption.
  Qed.

  Lemma shift_left_1_ok b sh : shift_left_1 b = Ok sh -> bytes_ok sh = true.
  Proof.
    unfold shift_left_1. destruct b as [|b0 r]; [discriminate|]. intros H.
    apply to_bytes_be_ok in H as [-> _]. apply be_bytes_bytes_ok.
  Qed.

  Lemma cmac_subkeys_ok c r key k1 k2 : bytes_ok r = true ->
    cmac_subkeys c r key = Ok (k1, k2) -> bytes_ok k1 = true /\ bytes_ok k2 = true.
  Proof.
    intros Br. unfold cmac_subkeys.
    destruct (encrypt_ecb c key (repeat 0 (bs c))) as [s|]; [|discriminate]. cbn [bind].
    destruct (index s 0) as [s0|]; [|discriminate]. cbn [bind].
    destruct (shift_left_1 s) as [sh|] eqn:Hsh; [|discriminate]. cbn [bind].
    apply shift_left_1_ok in Hsh.
    set (k1' := if negb (N.land s0 128 =? 0) then py_xor sh r else sh).
    assert (B1 : bytes_ok k1' = true).
    { unfold k1'. destruct (negb (N.land s0 128 =? 0)); [apply py_xor_bytes_ok|]; assumption. }
    destruct (index k1' 0) as [k10|]; [|discriminate]. cbn [bind].
    destruct (shift_left_1 k1') as [sh1|] eqn:Hsh1; [|discriminate]. cbn [bind].
    apply shift_left_1_ok in Hsh1.
    intros E. injection E as <- <-. split; [assumption|].
    destruct (negb (N.land k10 128 =? 0)); [apply py_xor_bytes_ok|]; assumption.
  Qed.

  Lemma key_len_prefix_ok key lp : key_len_prefix key = Ok lp ->
    length lp = 2%nat /\ bytes_ok lp = true.
  Proof.
    unfold key_len_prefix. intros H. apply to_bytes_be_ok in H as [-> _].
    split; [reflexivity | apply be_bytes_bytes_ok].
  Qed.

  Lemma mac_data_ok n hdr kd k1 : bytes_ok hdr = true -> bytes_ok kd = true -> bytes_ok k1 = true ->
    bytes_ok (drop_last n (hdr ++ kd) ++ py_xor (last_n n (hdr ++ kd)) k1) = true.
  Proof.
    intros Bh Bk B1. assert (B : bytes_ok (hdr ++ kd) = true) by (apply bytes_ok_app; auto).
    apply bytes_ok_app. split.
    - unfold drop_last. apply bytes_ok_firstn. assumption.
    - apply py_xor_bytes_ok; [|assumption]. unfold last_n. apply bytes_ok_skipn. assumption.
  Qed.

  Lemma b_generate_mac_ok kbak hdr kd mac : bytes_ok kd = true ->
    b_generate_mac cd ca kbak hdr kd = Ok mac ->
    length mac = 8%nat /\ bytes_ok mac = true /\ bytes_ok hdr = true.
  Proof.
    intros Bk. unfold b_generate_mac, derive_des_cmac_subkey.
    destruct (cmac_subkeys cd r64 kbak) as [[k1 k2]|] eqn:Hks; [|discriminate]. cbn [bind fst].
    apply cmac_subkeys_ok in Hks as [B1 _]; [|reflexivity].
    destruct (encode_ascii hdr) as [hb|] eqn:Hhb; [|discriminate]. cbn [bind].
    apply encode_ascii_ok in Hhb as [-> Bh]. intros H.
    apply generate_cbc_mac_ok in H as [L B].
    - auto.
    - apply mac_data_ok; assumption.
    - rewrite (cd_bs _ _ Hcs). lia.
  Qed.

  Lemma d_generate_mac_ok kbak hdr kd mac : bytes_ok kd = true ->
    d_generate_mac cd ca kbak hdr kd = Ok mac ->
    length mac = 16%nat /\ bytes_ok mac = true /\ bytes_ok hdr = true.
  Proof.
    intros Bk. unfold d_generate_mac, derive_aes_cmac_subkey.
    destruct (cmac_subkeys ca r128 kbak) as [[k1 k2]|] eqn:Hks; [|discriminate]. cbn [bind fst].
    apply cmac_subkeys_ok in Hks as [B1 _]; [|reflexivity].
    destruct (encode_ascii hdr) as [hb|] eqn:Hhb; [|discriminate]. cbn [bind].
    apply encode_ascii_ok in Hhb as [-> Bh]. intros H.
    apply generate_cbc_mac_ok in H as [L B].
    - auto.
    - apply mac_data_ok; assumption.
    - rewrite (ca_bs _ _ Hcs). lia.
  Qed.

  Lemma c_generate_mac_ok kbak hdr kd mac : bytes_ok kd = true ->
    c_generate_mac cd ca kbak hdr kd = Ok mac ->
    length mac = 4%nat /\ bytes_ok mac = true /\ bytes_ok hdr = true.
  Proof.
    intros Bk. unfold c_generate_mac.
    destruct (encode_ascii hdr) as [hb|] eqn:Hhb; [|discriminate]. cbn [bind].
    apply encode_ascii_ok in Hhb as [-> Bh]. intros H.
    apply generate_cbc_mac_ok in H as [L B].
    - auto.
    - apply bytes_ok_app. auto.
    - rewrite (cd_bs _ _ Hcs). lia.
  Qed.

  (* what every version's wrap produces *)
  Definition wrap_shape (abs ml : nat) (hdr : str) (key : bytes) (extra : nat) (tape : bytes)
             (s : str) : Prop :=
    exists ek mac, s = hdr ++ hex_upper ek ++ hex_upper mac /\
      length mac = ml /\ bytes_ok mac = true /\ bytes_ok ek = true /\
      length ek = (2 + length key + length tape)%nat /\
      (length ek mod abs = 0)%nat /\ (abs <= length ek)%nat /\
      length tape = (abs - (2 + length key + extra) mod abs + extra)%nat.

  Lemma clear_key_data_ok lp key tape : length lp = 2%nat -> bytes_ok lp = true ->
    bytes_ok key = true -> bytes_ok tape = true ->
    bytes_ok (lp ++ key ++ tape) = true /\
    length (lp ++ key ++ tape) = (2 + length key + length tape)%nat.
  Proof.
    intros L B Bk Bt. split.
    - apply bytes_ok_app. split; [assumption|]. apply bytes_ok_app. auto.
    - rewrite !app_length, L. lia.
  Qed.

  Theorem b_wrap_shape kbpk hdr key extra tape s :
    bytes_ok key = true -> bytes_ok tape = true ->
    b_wrap cd ca kbpk hdr key extra tape = Ok s -> wrap_shape 8 8 hdr key extra tape s.
  Proof.
    intros Bk Bt. unfold b_wrap.
    destruct (negb (mem_nat (length kbpk) [16; 24]%nat)); [discriminate|].
    destruct (b_derive cd ca kbpk) as [[kbek kbak]|]; [|discriminate]. cbn [bind].
    destruct (Nat.eqb_spec (length tape) (8 - (2 + length key + extra) mod 8 + extra)) as [Lt|];
      [|discriminate]. cbn [negb].
    destruct (key_len_prefix key) as [lp|] eqn:Hlp; [|discriminate]. cbn [bind].
    apply key_len_prefix_ok in Hlp as [Llp Blp].
    destruct (clear_key_data_ok lp key tape Llp Blp Bk Bt) as [Bckd Lckd].
    destruct (b_generate_mac cd ca kbak hdr (lp ++ key ++ tape)) as [mac|] eqn:Hmac; [|discriminate].
    cbn [bind]. apply b_generate_mac_ok in Hmac as (Lm & Bm & Bh); [|assumption].
    destruct (encrypt_cbc cd kbek mac (lp ++ key ++ tape)) as [ek|] eqn:Hek; [|discriminate].
    cbn [bind]. intros E. injection E as <-.
    destruct (encrypt_cbc_ok cd (cd_ok _ _ Hcs) _ _ _ _ Bm Bckd Hek) as (L & B & Hge & Hmod & _).
    rewrite (cd_bs _ _ Hcs) in Hge, Hmod. rewrite Lckd in L.
    exists ek, mac. rewrite L. rewrite <- Lckd. auto 10.
  Qed.

  Theorem d_wrap_shape kbpk hdr key extra tape s :
    bytes_ok key = true -> bytes_ok tape = true ->
    d_wrap cd ca kbpk hdr key extra tape = Ok s -> wrap_shape 16 16 hdr key extra tape s.
  Proof.
    intros Bk Bt. unfold d_wrap.
    destruct (negb (mem_nat (length kbpk) [16; 24; 32]%nat)); [discriminate|].
    destruct (d_derive cd ca kbpk) as [[kbek kbak]|]; [|discriminate]. cbn [bind].
    destruct (Nat.eqb_spec (length tape) (16 - (2 + length key + extra) mod 16 + extra)) as [Lt|];
      [|discriminate]. cbn [negb].
    destruct (key_len_prefix key) as [lp|] eqn:Hlp; [|discriminate]. cbn [bind].
    apply key_len_prefix_ok in Hlp as [Llp Blp].
    destruct (clear_key_data_ok lp key tape Llp Blp Bk Bt) as [Bckd Lckd].
    destruct (d_generate_mac cd ca kbak hdr (lp ++ key ++ tape)) as [mac|] eqn:Hmac; [|discriminate].
    cbn [bind]. apply d_generate_mac_ok in Hmac as (Lm & Bm & Bh); [|assumption].
    destruct (encrypt_cbc ca kbek mac (lp ++ key ++ tape)) as [ek|] eqn:Hek; [|discriminate].
    cbn [bind]. intros E. injection E as <-.
    destruct (encrypt_cbc_ok ca (ca_ok _ _ Hcs) _ _ _ _ Bm Bckd Hek) as (L & B & Hge & Hmod & _).
    rewrite (ca_bs _ _ Hcs) in Hge, Hmod. rewrite Lckd in L.
    exists ek, mac. rewrite L. rewrite <- Lckd. auto 10.
  Qed.

  Theorem c_wrap_shape kbpk hdr key extra tape s :
    bytes_ok key = true -> bytes_ok tape = true ->
    c_wrap cd ca kbpk hdr key extra tape = Ok s -> wrap_shape 8 4 hdr key extra tape s.
  Proof.
    intros Bk Bt. unfold c_wrap.
    destruct (negb (mem_nat (length kbpk) [8; 16; 24]%nat)); [discriminate|].
    unfold c_derive.
    destruct (Nat.eqb_spec (length tape) (8 - (2 + length key + extra) mod 8 + extra)) as [Lt|];
      [|discriminate]. cbn [negb].
    destruct (key_len_prefix key) as [lp|] eqn:Hlp; [|discriminate]. cbn [bind].
    apply key_len_prefix_ok in Hlp as [Llp Blp].
    destruct (clear_key_data_ok lp key tape Llp Blp Bk Bt) as [Bckd Lckd].
    destruct (encode_ascii hdr) as [hb|] eqn:Hhb; [|discriminate]. cbn [bind].
    apply encode_ascii_ok in Hhb as [-> Bh].
    destruct (encrypt_cbc cd _ (firstn 8 hdr) (lp ++ key ++ tape)) as [ek|] eqn:Hek; [|discriminate].
    cbn [bind].
    destruct (encrypt_cbc_ok cd (cd_ok _ _ Hcs) _ _ _ _ (bytes_ok_firstn 8 _ Bh) Bckd Hek)
      as (L & B & Hge & Hmod & _).
    destruct (c_generate_mac cd ca _ hdr ek) as [mac|] eqn:Hmac; [|discriminate].
    cbn [bind]. apply c_generate_mac_ok in Hmac as (Lm & Bm & _); [|assumption].
    intros E. injection E as <-.
    rewrite (cd_bs _ _ Hcs) in Hge, Hmod. rewrite Lckd in L.
    exists ek, mac. rewrite L. rewrite <- Lckd. auto 10.
  Qed.
End WrapFacts.

(* ------------------------------------------------------------------ *)
(* KeyBlock.wrap                                                        *)
Definition eff_mask (h : header) (mask : option Z) (dflt : N) : N :=
  match mask with
  | None => algo_id_max_key_len (algorithm h) dflt
  | Some z => Z.to_N z
  end.

Definition pad_len_N (abs : nat) (m : N) : N := N.of_nat abs - (2 + m) mod N.of_nat abs.

Section KbWrap.
  Variables cd ca : cipher.
  Hypothesis Hcs : ciphers_ok cd ca.

  Lemma masked_len_eff h key mask :
    masked_len h key mask = N.max (eff_mask h mask (lenN key)) (lenN key).
  Proof. unfold masked_len, eff_mask. destruct mask; [lia|reflexivity]. Qed.

  Lemma masked_len_ge h key mask : lenN key <= masked_len h key mask.
  Proof. rewrite masked_len_eff. lia. Qed.

  (* keys within the mask are masked to it; longer keys are wrapped whole *)
  Lemma masked_len_within h key mask : lenN key <= eff_mask h mask (lenN key) ->
    masked_len h key mask = eff_mask h mask (lenN key).
  Proof. rewrite masked_len_eff. lia. Qed.
  Lemma masked_len_beyond h key mask : eff_mask h mask (lenN key) <= lenN key ->
    masked_len h key mask = lenN key.
  Proof. rewrite masked_len_eff. lia. Qed.

  Lemma wrap_dispatch_shape v w kbpk hdr key extra tape s :
    version_supported v = true -> wrap_dispatch cd ca v = Ok w ->
    bytes_ok key = true -> bytes_ok tape = true ->
    w kbpk hdr key extra tape = Ok s ->
    wrap_shape (version_abs v) (version_maclen v) hdr key extra tape s.
  Proof.
    intros Hv Hw Bk Bt Hs.
    destruct (version_cases v Hv) as [-> | [-> | [-> | ->]]]; cbn [wrap_dispatch] in Hw;
      injection Hw as <-; cbn [version_abs version_maclen].
    - eapply c_wrap_shape; eassumption.
    - eapply b_wrap_shape; eassumption.
    - eapply c_wrap_shape; eassumption.
    - eapply d_wrap_shape; eassumption.
  Qed.

  Theorem kb_wrap_shape kbpk h key mask tape s :
    header_ok h -> bytes_ok key = true -> bytes_ok tape = true ->
    kb_wrap cd ca kbpk h key mask tape = Ok s ->
    exists n t ek mac,
      blocks_dump (version_abs (version_id h)) (blocks h) = Ok (n, t) /\
      s = header_text h (lenN s) n t ++ hex_upper ek ++ hex_upper mac /\
      lenN s <= 9999 /\
      lenN s = 16 + lenN t
               + 2 * (2 + masked_len h key mask
                      + pad_len_N (version_abs (version_id h)) (masked_len h key mask))
               + 2 * N.of_nat (version_maclen (version_id h)) /\
      length mac = version_maclen (version_id h) /\ bytes_ok mac = true /\ bytes_ok ek = true /\
      lenN ek = 2 + masked_len h key mask
                + pad_len_N (version_abs (version_id h)) (masked_len h key mask) /\
      (length ek mod version_abs (version_id h) = 0)%nat /\
      (version_abs (version_id h) <= length ek)%nat /\
      lenN tape = pad_len_N (version_abs (version_id h)) (masked_len h key mask)
                  + (masked_len h key mask - lenN key).
  Proof.
    intros Hok Bk Bt. pose proof Hok as (Hv & _). unfold kb_wrap.
    destruct (wrap_dispatch cd ca (version_id h)) as [w|] eqn:Hw; [|discriminate]. cbn [bind].
    pose proof (masked_len_ge h key mask) as Hge.
    set (m := masked_len h key mask) in *.
    destruct (header_dump h m) as [hs|] eqn:Hhs; [|discriminate]. cbn [bind]. intros Hs.
    destruct (header_dump_ok h m hs Hv Hhs) as (n & t & Hd & Hkb & ->).
    destruct (version_tables _ Hv) as (_ & _ & Habs).
    destruct (blocks_dump_shape _ _ n t Habs Hd) as (_ & _ & Hn & _).
    pose proof (wrap_dispatch_shape _ _ _ _ _ _ _ _ Hv Hw Bk Bt Hs)
      as (ek & mac & -> & Lm & Bm & Be & Lek & Hmod & Hle & Lt).
    set (abs := version_abs (version_id h)) in *.
    set (ml := version_maclen (version_id h)) in *.
    assert (Lek' : lenN ek = 2 + m + pad_len_N abs m).
    { unfold lenN, pad_len_N in *. destruct Habs as [Ha|Ha]; rewrite Ha in *; lia. }
    assert (Lt' : lenN tape = pad_len_N abs m + (m - lenN key)).
    { unfold lenN, pad_len_N in *. destruct Habs as [Ha|Ha]; rewrite Ha in *; lia. }
    assert (Ls : lenN (header_text h (kb_len_of abs ml m t) n t ++ hex_upper ek ++ hex_upper mac)
                 = kb_len_of abs ml m t).
    { unfold lenN at 1. rewrite !app_length, !hex_upper_length, header_text_length by assumption.
      unfold kb_len_of. fold (pad_len_N abs m). unfold lenN in *. lia. }
    exists n, t, ek, mac. rewrite Ls.
    split; [assumption|]. split; [reflexivity|]. split; [assumption|].
    split; [unfold kb_len_of; fold (pad_len_N abs m); unfold lenN in *; lia|].
    auto 10.
  Qed.
End KbWrap.

(* ------------------------------------------------------------------ *)
(* limits of Blocks.dump / Header.dump                                  *)
Definition pad_count (abs : nat) (t0 : str) : nat :=
  if (length t0 mod abs =? 0)%nat then 0%nat else 1%nat.

Lemma blocks_dump_ok_count abs d n t : (abs = 8 \/ abs = 16)%nat -> blocks_dump abs d = Ok (n, t) ->
  exists t0, dump_items d = Ok t0 /\ n = (length d + pad_count abs t0)%nat /\ (n <= 99)%nat /\
             Forall (fun e => lenN (snd e) <= 65525) d.
Proof.
  intros Habs Hd. destruct (blocks_dump_shape abs d n t Habs Hd) as (t0 & Ht0 & Hn & _ & Hcase).
  exists t0. split; [assumption|]. split; [|split; [assumption|]].
  - unfold pad_count. destruct Hcase as [(_ & -> & Hm)|(Hm & p & _ & _ & _ & ->)].
    + rewrite Hm. cbn [Nat.eqb]. lia.
    + destruct (Nat.eqb_spec (length t0 mod abs) 0); lia.
  - apply dump_items_ok_iff. eauto.
Qed.

Lemma blocks_dump_err abs d e : (abs = 8 \/ abs = 16)%nat -> blocks_dump abs d = Err e ->
  e = HeaderError /\
  (Exists (fun b => 65525 < lenN (snd b)) d \/
   exists t0, dump_items d = Ok t0 /\ (99 < length d + pad_count abs t0)%nat).
Proof.
  intros Habs. unfold blocks_dump, pad_count.
  destruct (dump_items d) as [t0|e0] eqn:Ht0.
  - cbn [bind]. destruct (Nat.eqb_spec (length t0 mod abs) 0) as [Hm|Hm]; cbn [negb bind].
    + destruct (Nat.ltb_spec 99 (length d + 0)); [|discriminate]. intros E. injection E as <-.
      split; [reflexivity|]. right. exists t0. split; [reflexivity|].
      rewrite Hm. cbn [Nat.eqb]. assumption.
    + rewrite to_bytes_be_1 by (destruct Habs as [-> | ->]; lia). cbn [bind].
      destruct (Nat.ltb_spec 99 (length d + 1)); [|discriminate]. intros E. injection E as <-.
      split; [reflexivity|]. right. exists t0. split; [reflexivity|].
      destruct (Nat.eqb_spec (length t0 mod abs) 0); [contradiction|assumption].
  - cbn [bind]. intros E. injection E as <-. destruct (dump_items_err d e0 Ht0) as [-> Hex]. auto.
Qed.

(* Header.dump succeeds only within the three limits ... *)
Theorem header_dump_limits_ok h kl s : version_supported (version_id h) = true ->
  header_dump h kl = Ok s ->
  Forall (fun e => lenN (snd e) <= 65525) (blocks h) /\
  exists n t t0, blocks_dump (version_abs (version_id h)) (blocks h) = Ok (n, t) /\
    dump_items (blocks h) = Ok t0 /\
    n = (length (blocks h) + pad_count (version_abs (version_id h)) t0)%nat /\ (n <= 99)%nat /\
    kb_len_of (version_abs (version_id h)) (version_maclen (version_id h)) kl t <= 9999 /\
    kb_len_of (version_abs (version_id h)) (version_maclen (version_id h)) kl t
      = 16 + lenN t + 2 * (2 + kl + pad_len_N (version_abs (version_id h)) kl)
        + 2 * N.of_nat (version_maclen (version_id h)).
Proof.
  intros Hv Hs. destruct (header_dump_ok h kl s Hv Hs) as (n & t & Hd & Hkb & _).
  destruct (version_tables _ Hv) as (_ & _ & Habs).
  destruct (blocks_dump_ok_count _ _ n t Habs Hd) as (t0 & Ht0 & En & Hn & Hall).
  split; [assumption|]. exists n, t, t0. repeat split; try assumption.
  unfold kb_len_of, pad_len_N. lia.
Qed.

(* ... and fails, always with HeaderError, exactly when one of them is exceeded *)
Theorem header_dump_limits_err h kl e : version_supported (version_id h) = true ->
  header_dump h kl = Err e ->
  e = HeaderError /\
  (Exists (fun b => 65525 < lenN (snd b)) (blocks h) \/
   (exists t0, dump_items (blocks h) = Ok t0 /\
               (99 < length (blocks h) + pad_count (version_abs (version_id h)) t0)%nat) \/
   (exists n t, blocks_dump (version_abs (version_id h)) (blocks h) = Ok (n, t) /\
                9999 < kb_len_of (version_abs (version_id h)) (version_maclen (version_id h)) kl t)).
Proof.
  intros Hv. unfold header_dump. destruct (version_tables _ Hv) as (-> & -> & Habs). cbn [bind].
  destruct (blocks_dump _ _) as [[n t]|e0] eqn:Hd; cbn [bind].
  - fold (kb_len_of (version_abs (version_id h)) (version_maclen (version_id h)) kl t).
    destruct (N.ltb_spec 9999 (kb_len_of (version_abs (version_id h)) (version_maclen (version_id h)) kl t));
      [|discriminate].
    intros E. injection E as <-. split; [reflexivity|]. right. right. exists n, t. auto.
  - intros E. injection E as <-. destruct (blocks_dump_err _ _ _ Habs Hd) as [-> [H|H]]; auto.
Qed.

(* ------------------------------------------------------------------ *)
(* C12 framing and C13 length statements                                *)
Section Framing.
  Variables cd ca : cipher.
  Hypothesis Hcs : ciphers_ok cd ca.

  Theorem wrap_framing kbpk h key mask tape s :
    header_ok h -> bytes_ok key = true -> bytes_ok tape = true ->
    kb_wrap cd ca kbpk h key mask tape = Ok s ->
    let abs := version_abs (version_id h) in
    ascii_printable s = true /\ lenN s <= 9999 /\
    slice 1 4 s = zfill 4 (str_of_N (lenN s)) /\ (length s mod abs = 0)%nat /\
    exists n t ek mac,
      blocks_dump abs (blocks h) = Ok (n, t) /\
      slice 12 2 s = zfill 2 (str_of_N (N.of_nat n)) /\ (n <= 99)%nat /\
      (n = length (blocks h) \/ n = S (length (blocks h))) /\
      ((16 + length t) mod abs = 0)%nat /\
      s = header_text h (lenN s) n t ++ hex_upper ek ++ hex_upper mac /\
      length mac = version_maclen (version_id h) /\
      (length ek mod abs = 0)%nat /\ (abs <= length ek)%nat /\
      bytes_ok ek = true /\ bytes_ok mac = true /\
      forallb is_upper_hex (hex_upper ek ++ hex_upper mac) = true.
  Proof.
    intros Hok Bk Bt Hs abs. pose proof Hok as (Hv & _ & _ & _ & _ & _ & _ & Hbl & _).
    destruct (kb_wrap_shape cd ca Hcs kbpk h key mask tape s Hok Bk Bt Hs)
      as (n & t & ek & mac & Hd & Es & Hlen & Elen & Lm & Bm & Be & Lek & Hmod & Hle & _).
    fold abs in Hd, Elen, Lek, Hmod, Hle.
    destruct (version_tables _ Hv) as (_ & _ & Habs). fold abs in Habs.
    destruct (blocks_dump_shape abs _ n t Habs Hd) as (t0 & _ & Hn & Htm & Hcase).
    pose proof (blocks_dump_printable abs _ n t Habs Hbl Hd) as Pt.
    remember (lenN s) as L eqn:EL.
    destruct (header_text_fields h L n t Hok Hlen Hn) as [F1 F2].
    pose proof (header_text_length h L n t Hok Hlen Hn) as LH.
    assert (Hsm : (length s mod abs = 0)%nat).
    { assert (E2 : N.of_nat (length s) = 16 + lenN t + 2 * lenN ek
                                         + 2 * N.of_nat (version_maclen (version_id h))).
      { unfold lenN in EL. rewrite <- EL, Elen, Lek. reflexivity. }
      unfold lenN in E2. unfold abs in *.
      destruct (version_cases _ Hv) as [E | [E | [E | E]]]; rewrite E in *;
        cbn [version_abs version_maclen] in *; lia. }
    split.
    { rewrite Es, !ascii_printable_app. repeat split.
      - apply header_text_printable; assumption.
      - apply hex_upper_printable; assumption.
      - apply hex_upper_printable; assumption. }
    split; [assumption|].
    split; [rewrite Es, slice_app_l by lia; exact F1|].
    split; [assumption|].
    exists n, t, ek, mac.
    split; [assumption|].
    split; [rewrite Es, slice_app_l by lia; exact F2|].
    split; [assumption|].
    split; [destruct Hcase as [(_ & -> & _)|(_ & p & _ & _ & _ & ->)]; auto|].
    split; [destruct Habs as [Ha|Ha]; rewrite Ha in *; lia|].
    split; [assumption|].
    split; [assumption|]. split; [assumption|]. split; [assumption|].
    split; [assumption|]. split; [assumption|].
    rewrite forallb_app, !hex_upper_is_upper_hex by assumption. reflexivity.
  Qed.

  Theorem wrap_length kbpk h key mask tape s n t :
    header_ok h -> bytes_ok key = true -> bytes_ok tape = true ->
    kb_wrap cd ca kbpk h key mask tape = Ok s ->
    blocks_dump (version_abs (version_id h)) (blocks h) = Ok (n, t) ->
    lenN s = 16 + lenN t
             + 2 * (2 + masked_len h key mask
                    + pad_len_N (version_abs (version_id h)) (masked_len h key mask))
             + 2 * N.of_nat (version_maclen (version_id h)).
  Proof.
    intros Hok Bk Bt Hs Hd.
    destruct (kb_wrap_shape cd ca Hcs kbpk h key mask tape s Hok Bk Bt Hs)
      as (n' & t' & ek & mac & Hd' & _ & _ & Elen & _).
    rewrite Hd in Hd'. injection Hd' as <- <-. exact Elen.
  Qed.

  (* the effective mask does not depend on the key: algorithm T, D, A or an explicit mask *)
  Theorem wrap_length_equal kbpk h mask e k1 k2 tape1 tape2 s1 s2 :
    header_ok h -> (forall dflt, eff_mask h mask dflt = e) ->
    bytes_ok k1 = true -> bytes_ok k2 = true -> bytes_ok tape1 = true -> bytes_ok tape2 = true ->
    lenN k1 <= e -> lenN k2 <= e ->
    kb_wrap cd ca kbpk h k1 mask tape1 = Ok s1 -> kb_wrap cd ca kbpk h k2 mask tape2 = Ok s2 ->
    length s1 = length s2.
  Proof.
    intros Hok He B1 B2 Bt1 Bt2 L1 L2 H1 H2.
    destruct (kb_wrap_shape cd ca Hcs kbpk h k1 mask tape1 s1 Hok B1 Bt1 H1)
      as (n & t & _ & _ & Hd & _ & _ & E1 & _).
    pose proof (wrap_length kbpk h k2 mask tape2 s2 n t Hok B2 Bt2 H2 Hd) as E2.
    rewrite (masked_len_within h k1 mask), He in E1 by (rewrite He; assumption).
    rewrite (masked_len_within h k2 mask), He in E2 by (rewrite He; assumption).
    unfold lenN in E1, E2. lia.
  Qed.

  Lemma pad_len_N_bounds abs m : (abs = 8 \/ abs = 16)%nat ->
    1 <= pad_len_N abs m <= N.of_nat abs /\ (2 + m + pad_len_N abs m) mod N.of_nat abs = 0.
  Proof. unfold pad_len_N. intros [-> | ->]; lia. Qed.

  Theorem wrap_enc_bounds kbpk h key mask tape s :
    header_ok h -> bytes_ok key = true -> bytes_ok tape = true ->
    kb_wrap cd ca kbpk h key mask tape = Ok s ->
    exists n t ek mac,
      blocks_dump (version_abs (version_id h)) (blocks h) = Ok (n, t) /\
      s = header_text h (lenN s) n t ++ hex_upper ek ++ hex_upper mac /\
      length mac = version_maclen (version_id h) /\
      2 + masked_len h key mask < lenN ek /\
      lenN ek <= 2 + masked_len h key mask + N.of_nat (version_abs (version_id h)) /\
      lenN key <= masked_len h key mask.
  Proof.
    intros Hok Bk Bt Hs. pose proof Hok as (Hv & _).
    destruct (kb_wrap_shape cd ca Hcs kbpk h key mask tape s Hok Bk Bt Hs)
      as (n & t & ek & mac & Hd & Es & _ & _ & Lm & _ & _ & Lek & _).
    destruct (version_tables _ Hv) as (_ & _ & Habs).
    pose proof (pad_len_N_bounds _ (masked_len h key mask) Habs) as [Hp _].
    pose proof (masked_len_ge h key mask).
    exists n, t, ek, mac. repeat split; try assumption; lia.
  Qed.

  Theorem wrap_tape_len kbpk h key mask tape s :
    header_ok h -> bytes_ok key = true -> bytes_ok tape = true ->
    kb_wrap cd ca kbpk h key mask tape = Ok s ->
    lenN tape = pad_len_N (version_abs (version_id h)) (masked_len h key mask)
                + (masked_len h key mask - lenN key).
  Proof.
    intros Hok Bk Bt Hs.
    destruct (kb_wrap_shape cd ca Hcs kbpk h key mask tape s Hok Bk Bt Hs)
      as (n & t & ek & mac & _ & _ & _ & _ & _ & _ & _ & _ & _ & _ & Lt).
    exact Lt.
  Qed.
End Framing.

(* effective masks *)
Lemma eff_mask_T h d : algorithm h = [84] -> eff_mask h None d = 24.
Proof. unfold eff_mask. intros ->. reflexivity. Qed.
Lemma eff_mask_D h d : algorithm h = [68] -> eff_mask h None d = 24.
Proof. unfold eff_mask. intros ->. reflexivity. Qed.
Lemma eff_mask_A h d : algorithm h = [65] -> eff_mask h None d = 32.
Proof. unfold eff_mask. intros ->. reflexivity. Qed.
Lemma algo_id_max_key_len_other c d : c <> 84 -> c <> 68 -> c <> 65 ->
  algo_id_max_key_len [c] d = d.
Proof.
  intros H1 H2 H3. unfold algo_id_max_key_len.
  destruct c as [|p]; [reflexivity|].
  repeat (match goal with
          | |- context [match ?q with _ => _ end] => is_var q; destruct q
          end; cbv beta iota); try reflexivity; congruence.
Qed.

Lemma eff_mask_other h d : algorithm h <> [84] -> algorithm h <> [68] -> algorithm h <> [65] ->
  eff_mask h None d = d.
Proof.
  unfold eff_mask. intros H1 H2 H3.
  destruct (algorithm h) as [|c [|x l]]; [reflexivity| |].
  - apply algo_id_max_key_len_other; congruence.
  - unfold algo_id_max_key_len. destruct c as [|p]; [reflexivity|].
    repeat (match goal with
            | |- context [match ?q with _ => _ end] => is_var q; destruct q
            end; cbv beta iota); reflexivity.
Qed.
Lemma eff_mask_some h z d : eff_mask h (Some z) d = Z.to_N z.
Proof. reflexivity. Qed.

(* ------------------------------------------------------------------ *)
(* the same statements phrased with the model's own lookup tables       *)
Lemma tables_inv v abs ml : version_supported v = true ->
  algo_block_size v = Ok abs -> key_block_mac_len v = Ok ml ->
  abs = version_abs v /\ ml = version_maclen v.
Proof.
  intros Hv Ha Hm. destruct (version_tables v Hv) as (Ea & Em & _).
  rewrite Ea in Ha. rewrite Em in Hm. injection Ha as <-. injection Hm as <-. auto.
Qed.

Section Statements.
  Variables cd ca : cipher.
  Hypothesis Hcs : ciphers_ok cd ca.

  Theorem wrap_framing_tables kbpk h key mask tape s abs ml :
    header_ok h -> bytes_ok key = true -> bytes_ok tape = true ->
    algo_block_size (version_id h) = Ok abs -> key_block_mac_len (version_id h) = Ok ml ->
    kb_wrap cd ca kbpk h key mask tape = Ok s ->
    ascii_printable s = true /\ lenN s <= 9999 /\
    slice 1 4 s = zfill 4 (str_of_N (lenN s)) /\ (length s mod abs = 0)%nat /\
    exists n t ek mac,
      blocks_dump abs (blocks h) = Ok (n, t) /\
      slice 12 2 s = zfill 2 (str_of_N (N.of_nat n)) /\ (n <= 99)%nat /\
      (n = length (blocks h) \/ n = S (length (blocks h))) /\
      ((16 + length t) mod abs = 0)%nat /\
      s = header_text h (lenN s) n t ++ hex_upper ek ++ hex_upper mac /\
      length mac = ml /\
      (length ek mod abs = 0)%nat /\ (abs <= length ek)%nat /\
      bytes_ok ek = true /\ bytes_ok mac = true /\
      forallb is_upper_hex (hex_upper ek ++ hex_upper mac) = true.
  Proof.
    intros Hok Bk Bt Ha Hm Hs. pose proof Hok as (Hv & _).
    destruct (tables_inv _ _ _ Hv Ha Hm) as [-> ->].
    exact (wrap_framing cd ca Hcs kbpk h key mask tape s Hok Bk Bt Hs).
  Qed.

  Theorem wrap_length_tables kbpk h key mask tape s abs ml n t :
    header_ok h -> bytes_ok key = true -> bytes_ok tape = true ->
    algo_block_size (version_id h) = Ok abs -> key_block_mac_len (version_id h) = Ok ml ->
    kb_wrap cd ca kbpk h key mask tape = Ok s ->
    blocks_dump abs (blocks h) = Ok (n, t) ->
    let m := masked_len h key mask in
    let padlen := N.of_nat abs - (2 + m) mod N.of_nat abs in
    lenN s = 16 + lenN t + 2 * (2 + m + padlen) + 2 * N.of_nat ml.
  Proof.
    intros Hok Bk Bt Ha Hm Hs Hd. pose proof Hok as (Hv & _).
    destruct (tables_inv _ _ _ Hv Ha Hm) as [-> ->].
    exact (wrap_length cd ca Hcs kbpk h key mask tape s n t Hok Bk Bt Hs Hd).
  Qed.

  Theorem wrap_enc_bounds_tables kbpk h key mask tape s abs ml :
    header_ok h -> bytes_ok key = true -> bytes_ok tape = true ->
    algo_block_size (version_id h) = Ok abs -> key_block_mac_len (version_id h) = Ok ml ->
    kb_wrap cd ca kbpk h key mask tape = Ok s ->
    let m := masked_len h key mask in
    exists n t ek mac,
      blocks_dump abs (blocks h) = Ok (n, t) /\
      s = header_text h (lenN s) n t ++ hex_upper ek ++ hex_upper mac /\
      length mac = ml /\
      2 + m < lenN ek /\ lenN ek <= 2 + m + N.of_nat abs /\ lenN key <= m.
  Proof.
    intros Hok Bk Bt Ha Hm Hs. pose proof Hok as (Hv & _).
    destruct (tables_inv _ _ _ Hv Ha Hm) as [-> ->].
    exact (wrap_enc_bounds cd ca Hcs kbpk h key mask tape s Hok Bk Bt Hs).
  Qed.

  Theorem wrap_tape_len_tables kbpk h key mask tape s abs :
    header_ok h -> bytes_ok key = true -> bytes_ok tape = true ->
    algo_block_size (version_id h) = Ok abs ->
    kb_wrap cd ca kbpk h key mask tape = Ok s ->
    let m := masked_len h key mask in
    let padlen := N.of_nat abs - (2 + m) mod N.of_nat abs in
    lenN tape = padlen + (m - lenN key).
  Proof.
    intros Hok Bk Bt Ha Hs. pose proof Hok as (Hv & _).
    destruct (version_tables _ Hv) as (Ea & _ & _). rewrite Ea in Ha. injection Ha as <-.
    exact (wrap_tape_len cd ca Hcs kbpk h key mask tape s Hok Bk Bt Hs).
  Qed.
End Statements.

Theorem header_str_load_tables h t : header_ok h -> header_str h = Ok t -> lenN t <= 9999 ->
  (forall st, header_load st t = (h, Ok (length t))) /\
  (forall st rest, header_load st (t ++ rest) = (h, Ok (length t))) /\
  exists abs n bt, algo_block_size (version_id h) = Ok abs /\
    blocks_dump abs (blocks h) = Ok (n, bt) /\ t = header_text h (16 + lenN bt) n bt.
Proof.
  intros Hok Ht Hl. split; [|split].
  - intros st. pose proof (header_str_load h t Hok Ht Hl st []) as E. rewrite app_nil_r in E. exact E.
  - apply header_str_load; assumption.
  - pose proof Hok as (Hv & _). destruct (header_str_ok h t Hv Ht) as (n & bt & Hd & E).
    destruct (version_tables _ Hv) as (Ea & _ & _). eauto 10.
Qed.

Theorem header_dump_load_tables h kl t : header_ok h -> header_dump h kl = Ok t ->
  (forall st, header_load st t = (h, Ok (length t))) /\
  (forall st rest, header_load st (t ++ rest) = (h, Ok (length t))).
Proof.
  intros Hok Ht. split.
  - intros st. pose proof (header_dump_load h kl t Hok Ht st []) as E. rewrite app_nil_r in E. exact E.
  - apply (header_dump_load h kl); assumption.
Qed.

Theorem blocks_roundtrip_tables abs d n t : (abs = 8 \/ abs = 16)%nat ->
  Forall block_entry_ok d -> NoDup (map fst d) -> blocks_dump abs d = Ok (n, t) ->
  (forall rest, blocks_load n (t ++ rest) = (d, Ok (length t))) /\
  (length t mod abs = 0)%nat /\ (n <= 99)%nat /\ ascii_printable t = true.
Proof.
  intros Habs Hok Hnd Hd. split; [|split; [|split]].
  - intros rest. apply (blocks_dump_load abs); assumption.
  - destruct (blocks_dump_shape abs d n t Habs Hd) as (_ & _ & _ & Hm & _). exact Hm.
  - destruct (blocks_dump_shape abs d n t Habs Hd) as (_ & _ & Hn & _). exact Hn.
  - apply (blocks_dump_printable abs d n t); assumption.
Qed.

(* ------------------------------------------------------------------ *)
(* the toy ciphers satisfy [ciphers_ok]: the theorems above are not vacuous *)
From Psec Require Import Cipher.Toy Proofs.TdesLemmas.
Lemma toy_ciphers_ok : ciphers_ok toy_tdes toy_aes.
Proof.
  constructor; try reflexivity.
  - apply tdes_ok, toy_des_ok.
  - apply toy_aes_ok.
Qed.
