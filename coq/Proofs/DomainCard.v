(* C16 - documented input domains, part 3: psec.cvv and psec.pin *)
From Coq Require Import Lia ZifyBool ZifyNat ZifyN.
From Psec Require Import Lib.Base Cipher.Cipher Model.Tools Model.Cvv Model.Pin
  Proofs.XorLemmas Proofs.DomainLemmas.
Ltac Zify.zify_post_hook ::= Z.to_euclidean_division_equations.
Open Scope N_scope.

(* ------------------------------------------------------------------ *)
(* documented domains                                                   *)

Definition dom_generate_cvv (cvk : bytes) (pan expiry service_code : str) : Prop :=
  length cvk = 16%nat /\
  ((length pan <= 19)%nat /\ dec_str pan) /\
  (length expiry = 4%nat /\ dec_str expiry) /\
  (length service_code = 3%nat /\ dec_str service_code).

Definition dom_generate_visa_pvv (pvk : bytes) (pvki pin pan : str) : Prop :=
  dom_tdes_key pvk /\
  (length pvki = 1%nat /\ dec_str pvki) /\
  (length pin = 4%nat /\ dec_str pin) /\
  ((12 <= length pan)%nat /\ dec_str pan).

(* [digits] is the offset (generate_ibm3624_pin) or the PIN (generate_ibm3624_offset) *)
Definition dom_generate_ibm3624 (pvk : bytes) (table digits pan : str)
           (pv_offset pv_length : nat) (pan_pad : str) : Prop :=
  dom_tdes_key pvk /\
  (length table = 16%nat /\ dec_str table) /\
  ((4 <= length digits <= 16)%nat /\ dec_str digits) /\
  ((length pan <= 19)%nat /\ dec_str pan) /\
  (exists c, pan_pad = [c] /\ hex_char c) /\
  (pv_length = 0%nat \/ (pv_offset + pv_length <= length pan)%nat).

(* ------------------------------------------------------------------ *)
(* bridges for the individual guards                                    *)
Lemma guard_len_eq n s :
  negb (length s =? n)%nat || negb (ascii_numeric s) = false <-> length s = n /\ dec_str s.
Proof. rewrite orb_false_iff, !negb_false_iff, Nat.eqb_eq, ascii_numeric_iff. tauto. Qed.
Lemma guard_len_le n s :
  (n <? length s)%nat || negb (ascii_numeric s) = false <-> (length s <= n)%nat /\ dec_str s.
Proof. rewrite orb_false_iff, !negb_false_iff, Nat.ltb_ge, ascii_numeric_iff. tauto. Qed.
Lemma guard_len_ge n s :
  (length s <? n)%nat || negb (ascii_numeric s) = false <-> (n <= length s)%nat /\ dec_str s.
Proof. rewrite orb_false_iff, !negb_false_iff, Nat.ltb_ge, ascii_numeric_iff. tauto. Qed.
Lemma guard_len_range a b s :
  (length s <? a)%nat || (b <? length s)%nat || negb (ascii_numeric s) = false <->
  (a <= length s <= b)%nat /\ dec_str s.
Proof. rewrite !orb_false_iff, !negb_false_iff, !Nat.ltb_ge, ascii_numeric_iff. tauto. Qed.
Lemma guard_pad s :
  negb (length s =? 1)%nat || negb (ascii_hexchar s) = false <-> exists c, s = [c] /\ hex_char c.
Proof.
  rewrite orb_false_iff, !negb_false_iff, Nat.eqb_eq, ascii_hexchar_iff. split.
  - intros [L H]. destruct s as [|c [|? ?]]; try discriminate. exists c. split; [reflexivity|].
    inversion H. assumption.
  - intros (c & -> & H). split; [reflexivity|]. constructor; [assumption|constructor].
Qed.
Lemma guard_window (pan : str) o l :
  negb (length (slice o l pan) =? l)%nat = false <-> (l = 0 \/ o + l <= length pan)%nat.
Proof. rewrite negb_false_iff, Nat.eqb_eq, slice_length. lia. Qed.

Lemma not_false_iff (b : bool) (P : Prop) : (b = false <-> P) -> (b = true <-> ~ P).
Proof. intros H. destruct b; split; intros; try congruence; [intro; apply H in H1; discriminate | exfalso; apply H0; apply H; reflexivity]. Qed.

(* ------------------------------------------------------------------ *)
(* translate / add / subtract steps of IBM 3624 cannot fail             *)
Lemma translate16_dec table s : length table = 16%nat -> dec_str table -> uhex_str s ->
  dec_str (translate16 table s).
Proof.
  intros L D H. unfold translate16, dec_str. apply Forall_forall. intros x Hx.
  apply in_map_iff in Hx as (c & <- & Hc).
  unfold uhex_str in H. rewrite Forall_forall in H. specialize (H c Hc).
  assert (G : is_digit c || ((65 <=? c) && (c <=? 70)) = true).
  { unfold uhex_char in H. unfold is_digit. lia. }
  rewrite G.
  destruct (unhex_digit_hex c) as (v & Ev & Bv); [unfold hex_char, uhex_char in *; lia|].
  rewrite Ev. unfold dec_str in D. rewrite Forall_forall in D. apply D. apply nth_In. lia.
Qed.

Lemma translate16_length table s : length (translate16 table s) = length s.
Proof. apply map_length. Qed.

Lemma ibm_add_ok : forall off ip, dec_str ip -> dec_str off -> (length off <= length ip)%nat ->
  exists r, ibm_add ip off = Ok r.
Proof.
  induction off as [|o off IH]; intros ip Hip Hoff L; [destruct ip; eexists; reflexivity|].
  destruct ip as [|a ip]; [cbn in L; lia|].
  inversion Hip; subst. inversion Hoff; subst.
  destruct (IH ip) as (t & Et); try assumption; [cbn in L; lia|].
  cbn [ibm_add]. rewrite !int_of_dec_digit by assumption. cbn [bind]. rewrite Et. cbn [bind].
  eexists. reflexivity.
Qed.

Lemma ibm_sub_ok : forall pin ip, dec_str ip -> dec_str pin -> (length pin <= length ip)%nat ->
  exists r, ibm_sub ip pin = Ok r.
Proof.
  induction pin as [|p pin IH]; intros ip Hip Hpin L; [destruct ip; eexists; reflexivity|].
  destruct ip as [|a ip]; [cbn in L; lia|].
  inversion Hip; subst. inversion Hpin; subst.
  destruct (IH ip) as (t & Et); try assumption; [cbn in L; lia|].
  cbn [ibm_sub]. rewrite !int_of_dec_digit by assumption. cbn [bind]. rewrite Et. cbn [bind].
  eexists. reflexivity.
Qed.

Lemma up_char_hex c : hex_char c -> hex_char (up_char c).
Proof. unfold hex_char, up_char, is_lower. intros H. destruct ((97 <=? c) && (c <=? 122)) eqn:E; lia. Qed.

Lemma ascii_upper_hex s : hex_str s -> hex_str (ascii_upper s).
Proof.
  unfold hex_str, ascii_upper. intros H. apply Forall_forall. intros x Hx.
  apply in_map_iff in Hx as (c & <- & Hc). rewrite Forall_forall in H. apply up_char_hex. auto.
Qed.

Section Card.
  Variable cd : cipher.
  Hypothesis Hcd : cipher_ok cd.
  Hypothesis Hbs : bs cd = 8%nat.
  Hypothesis Hkeys : forall k, valid_key cd k = tdes_valid_key k.

  Lemma valid_tdes key : valid_key cd key = true <-> dom_tdes_key key.
  Proof. rewrite Hkeys. apply mem_nat_3. Qed.

  Lemma tdes_ecb_8 key data : dom_tdes_key key -> length data = 8%nat -> bytes_ok data = true ->
    exists r, encrypt_ecb cd key data = Ok r /\ length r = 8%nat /\ bytes_ok r = true.
  Proof.
    intros K L B. apply valid_tdes in K.
    destruct (encrypt_ecb_ok cd Hcd key data K B) as (r & E & Lr & Br).
    - lia.
    - rewrite L, Hbs. reflexivity.
    - exists r. rewrite <- L. auto.
  Qed.

  (* ---------------- generate_cvv ---------------- *)
  Lemma generate_cvv_char cvk pan expiry service_code :
    (dom_generate_cvv cvk pan expiry service_code /\
       exists v, generate_cvv cd cvk pan expiry service_code = Ok v) \/
    (~ dom_generate_cvv cvk pan expiry service_code /\
       generate_cvv cd cvk pan expiry service_code = Err ValueError).
  Proof.
    unfold dom_generate_cvv, generate_cvv, cvv_block.
    destruct (Nat.eqb_spec (length cvk) 16) as [Lk|Lk]; cbn [negb].
    2:{ right. split; [tauto|reflexivity]. }
    destruct ((19 <? length pan)%nat || negb (ascii_numeric pan)) eqn:G1.
    { right. apply (not_false_iff _ _ (guard_len_le 19 pan)) in G1. split; [tauto|reflexivity]. }
    apply guard_len_le in G1.
    destruct (negb (length expiry =? 4)%nat || negb (ascii_numeric expiry)) eqn:G2.
    { right. apply (not_false_iff _ _ (guard_len_eq 4 expiry)) in G2. split; [tauto|reflexivity]. }
    apply guard_len_eq in G2.
    destruct (negb (length service_code =? 3)%nat || negb (ascii_numeric service_code)) eqn:G3.
    { right. apply (not_false_iff _ _ (guard_len_eq 3 service_code)) in G3.
      split; [tauto|reflexivity]. }
    apply guard_len_eq in G3.
    left. split; [tauto|].
    destruct G1 as [L1 D1]. destruct G2 as [L2 D2]. destruct G3 as [L3 D3].
    set (block := ljust 32 48 (pan ++ expiry ++ service_code)).
    assert (Lb : length block = 32%nat).
    { unfold block. rewrite ljust_length, !app_length. lia. }
    assert (Db : dec_str block).
    { unfold block, ljust. apply Forall_app. split; [|apply Forall_repeat_; lia].
      apply Forall_app. split; [assumption|]. apply Forall_app. split; assumption. }
    destruct (a2b_hex_ok 8 (firstn 16 block)) as (b1 & E1 & Lb1 & Bb1).
    { rewrite firstn_length. lia. } { apply dec_hex, Forall_firstn_. assumption. }
    rewrite E1. cbn [bind].
    destruct (tdes_ecb_8 (firstn 8 cvk) b1) as (r1 & Er1 & Lr1 & Br1); try assumption.
    { unfold dom_tdes_key. rewrite firstn_length. lia. }
    rewrite Er1. cbn [bind].
    destruct (a2b_hex_ok 8 (skipn 16 block)) as (b2 & E2 & Lb2 & Bb2).
    { rewrite skipn_length. lia. } { apply dec_hex, Forall_skipn_. assumption. }
    rewrite E2. cbn [bind].
    destruct (tdes_ecb_8 cvk (py_xor r1 b2)) as (r & Er & Lr & Br).
    { unfold dom_tdes_key. lia. } { rewrite py_xor_length. assumption. }
    { apply py_xor_bytes_ok_any. }
    rewrite Er. cbn [bind]. eexists. reflexivity.
  Qed.

  (* ---------------- generate_visa_pvv ---------------- *)
  Lemma generate_visa_pvv_char pvk pvki pin pan :
    (dom_generate_visa_pvv pvk pvki pin pan /\
       exists v, generate_visa_pvv cd pvk pvki pin pan = Ok v) \/
    (~ dom_generate_visa_pvv pvk pvki pin pan /\
       generate_visa_pvv cd pvk pvki pin pan = Err ValueError).
  Proof.
    unfold dom_generate_visa_pvv, generate_visa_pvv.
    destruct (mem_nat (length pvk) [8; 16; 24]%nat) eqn:G0; cbn [negb].
    2:{ right. apply mem_nat_3_false in G0. unfold dom_tdes_key. split; [tauto|reflexivity]. }
    apply mem_nat_3 in G0.
    destruct (negb (length pvki =? 1)%nat || negb (ascii_numeric pvki)) eqn:G1.
    { right. apply (not_false_iff _ _ (guard_len_eq 1 pvki)) in G1. split; [tauto|reflexivity]. }
    apply guard_len_eq in G1.
    destruct (negb (length pin =? 4)%nat || negb (ascii_numeric pin)) eqn:G2.
    { right. apply (not_false_iff _ _ (guard_len_eq 4 pin)) in G2. split; [tauto|reflexivity]. }
    apply guard_len_eq in G2.
    destruct ((length pan <? 12)%nat || negb (ascii_numeric pan)) eqn:G3.
    { right. apply (not_false_iff _ _ (guard_len_ge 12 pan)) in G3. split; [tauto|reflexivity]. }
    apply guard_len_ge in G3.
    left. split; [unfold dom_tdes_key; tauto|].
    destruct G1 as [L1 D1]. destruct G2 as [L2 D2]. destruct G3 as [L3 D3].
    destruct (bytes_fromhex_ok 8 (drop_last 1 (last_n 12 pan) ++ pvki ++ pin)) as (tb & Et & Lt & Bt).
    { rewrite !app_length, drop_last_length, last_n_length by lia. lia. }
    { apply dec_hex. apply Forall_app. split; [apply Forall_drop_last, Forall_last_n; assumption|].
      apply Forall_app. split; assumption. }
    rewrite Et. cbn [bind].
    destruct (tdes_ecb_8 pvk tb G0 Lt Bt) as (e & Ee & _).
    rewrite Ee. cbn [bind]. eexists. reflexivity.
  Qed.

  (* ---------------- IBM 3624 ---------------- *)
  Lemma ibm_intermediate_char pvk table digits pan pv_offset pv_length pan_pad :
    (dom_generate_ibm3624 pvk table digits pan pv_offset pv_length pan_pad /\
       exists ip, ibm_intermediate cd pvk table digits pan pv_offset pv_length pan_pad = Ok ip /\
                  length ip = 16%nat /\ dec_str ip) \/
    (~ dom_generate_ibm3624 pvk table digits pan pv_offset pv_length pan_pad /\
       ibm_intermediate cd pvk table digits pan pv_offset pv_length pan_pad = Err ValueError).
  Proof.
    unfold dom_generate_ibm3624, ibm_intermediate.
    destruct (mem_nat (length pvk) [8; 16; 24]%nat) eqn:G0; cbn [negb].
    2:{ right. apply mem_nat_3_false in G0. unfold dom_tdes_key. split; [tauto|reflexivity]. }
    apply mem_nat_3 in G0.
    destruct (negb (length table =? 16)%nat || negb (ascii_numeric table)) eqn:G1.
    { right. apply (not_false_iff _ _ (guard_len_eq 16 table)) in G1. split; [tauto|reflexivity]. }
    apply guard_len_eq in G1.
    destruct ((length digits <? 4)%nat || (16 <? length digits)%nat || negb (ascii_numeric digits)) eqn:G2.
    { right. apply (not_false_iff _ _ (guard_len_range 4 16 digits)) in G2.
      split; [tauto|reflexivity]. }
    apply guard_len_range in G2.
    destruct ((19 <? length pan)%nat || negb (ascii_numeric pan)) eqn:G3.
    { right. apply (not_false_iff _ _ (guard_len_le 19 pan)) in G3. split; [tauto|reflexivity]. }
    apply guard_len_le in G3.
    destruct (negb (length pan_pad =? 1)%nat || negb (ascii_hexchar pan_pad)) eqn:G4.
    { right. apply (not_false_iff _ _ (guard_pad pan_pad)) in G4. split; [tauto|reflexivity]. }
    apply guard_pad in G4.
    destruct (negb (length (slice pv_offset pv_length pan) =? pv_length)%nat) eqn:G5.
    { right. apply (not_false_iff _ _ (guard_window pan pv_offset pv_length)) in G5.
      split; [tauto|reflexivity]. }
    apply guard_window in G5.
    left. split; [unfold dom_tdes_key; tauto|].
    destruct G1 as [L1 D1]. destruct G3 as [L3 D3]. destruct G4 as (c & -> & Hc).
    set (vd := ascii_upper (ljust 16 c (firstn 16 (slice pv_offset pv_length pan)))).
    destruct (bytes_fromhex_ok 8 vd) as (vb & Ev & Lv & Bv).
    { unfold vd, ascii_upper. rewrite map_length, ljust_length, firstn_length. lia. }
    { unfold vd. apply ascii_upper_hex. unfold ljust. apply Forall_app. split.
      - apply dec_hex, Forall_firstn_, Forall_slice. assumption.
      - apply Forall_repeat_. assumption. }
    rewrite Ev. cbn [bind].
    destruct (tdes_ecb_8 pvk vb G0 Lv Bv) as (e & Ee & Le & Be).
    rewrite Ee. cbn [bind]. eexists. split; [reflexivity|]. split.
    - rewrite translate16_length, hex_upper_length. lia.
    - apply translate16_dec; try assumption. apply hex_upper_uhex. assumption.
  Qed.

  Lemma generate_ibm3624_pin_char pvk table offset pan pv_offset pv_length pan_pad :
    (dom_generate_ibm3624 pvk table offset pan pv_offset pv_length pan_pad /\
       exists v, generate_ibm3624_pin cd pvk table offset pan pv_offset pv_length pan_pad = Ok v) \/
    (~ dom_generate_ibm3624 pvk table offset pan pv_offset pv_length pan_pad /\
       generate_ibm3624_pin cd pvk table offset pan pv_offset pv_length pan_pad = Err ValueError).
  Proof.
    unfold generate_ibm3624_pin.
    destruct (ibm_intermediate_char pvk table offset pan pv_offset pv_length pan_pad)
      as [[D (ip & E & L & Hip)]|[D E]]; rewrite E; cbn [bind].
    - left. split; [assumption|]. apply ibm_add_ok; [assumption|apply D|].
      destruct D as (_ & _ & [? _] & _). lia.
    - right. auto.
  Qed.

  Lemma generate_ibm3624_offset_char pvk table pin pan pv_offset pv_length pan_pad :
    (dom_generate_ibm3624 pvk table pin pan pv_offset pv_length pan_pad /\
       exists v, generate_ibm3624_offset cd pvk table pin pan pv_offset pv_length pan_pad = Ok v) \/
    (~ dom_generate_ibm3624 pvk table pin pan pv_offset pv_length pan_pad /\
       generate_ibm3624_offset cd pvk table pin pan pv_offset pv_length pan_pad = Err ValueError).
  Proof.
    unfold generate_ibm3624_offset.
    destruct (ibm_intermediate_char pvk table pin pan pv_offset pv_length pan_pad)
      as [[D (ip & E & L & Hip)]|[D E]]; rewrite E; cbn [bind].
    - left. split; [assumption|]. apply ibm_sub_ok; [assumption|apply D|].
      destruct D as (_ & _ & [? _] & _). lia.
    - right. auto.
  Qed.
End Card.

(* ------------------------------------------------------------------ *)
(* final statements (used by Properties/C16.v)                          *)
Theorem generate_cvv_domain : forall cd, cipher_ok cd -> bs cd = 8%nat ->
  (forall k, valid_key cd k = tdes_valid_key k) ->
  forall cvk pan expiry service_code,
  accepts_exactly (dom_generate_cvv cvk pan expiry service_code)
                  (generate_cvv cd cvk pan expiry service_code).
Proof. intros. apply char_accepts, generate_cvv_char; assumption. Qed.

Theorem generate_visa_pvv_domain : forall cd, cipher_ok cd -> bs cd = 8%nat ->
  (forall k, valid_key cd k = tdes_valid_key k) ->
  forall pvk pvki pin pan,
  accepts_exactly (dom_generate_visa_pvv pvk pvki pin pan) (generate_visa_pvv cd pvk pvki pin pan).
Proof. intros. apply char_accepts, generate_visa_pvv_char; assumption. Qed.

Theorem generate_ibm3624_pin_domain : forall cd, cipher_ok cd -> bs cd = 8%nat ->
  (forall k, valid_key cd k = tdes_valid_key k) ->
  forall pvk table offset pan pv_offset pv_length pan_pad,
  accepts_exactly (dom_generate_ibm3624 pvk table offset pan pv_offset pv_length pan_pad)
                  (generate_ibm3624_pin cd pvk table offset pan pv_offset pv_length pan_pad).
Proof. intros. apply char_accepts, generate_ibm3624_pin_char; assumption. Qed.

Theorem generate_ibm3624_offset_domain : forall cd, cipher_ok cd -> bs cd = 8%nat ->
  (forall k, valid_key cd k = tdes_valid_key k) ->
  forall pvk table pin pan pv_offset pv_length pan_pad,
  accepts_exactly (dom_generate_ibm3624 pvk table pin pan pv_offset pv_length pan_pad)
                  (generate_ibm3624_offset cd pvk table pin pan pv_offset pv_length pan_pad).
Proof. intros. apply char_accepts, generate_ibm3624_offset_char; assumption. Qed.
