(* C16 - documented input domains, part 4: psec.mac, psec.des, psec.aes *)
From Coq Require Import Lia ZifyBool ZifyNat ZifyN.
From Psec Require Import Lib.Base Cipher.Cipher Model.Tools Model.Mac
  Proofs.XorLemmas Proofs.PadLemmas Proofs.DomainLemmas.
Ltac Zify.zify_post_hook ::= Z.to_euclidean_division_equations.
Open Scope N_scope.

(* ------------------------------------------------------------------ *)
(* documented domains                                                   *)
Definition dom_padding (p : N) : Prop := p = 1 \/ p = 2 \/ p = 3.

Definition dom_generate_cbc_mac (key : bytes) (padding : N) (aes : bool) : Prop :=
  (if aes then dom_aes_key key else dom_tdes_key key) /\ dom_padding padding.
Definition dom_generate_retail_mac (key1 key2 : bytes) (padding : N) : Prop :=
  dom_tdes_key key1 /\ dom_tdes_key key2 /\ dom_padding padding.

Definition dom_tdes_ecb (key data : bytes) : Prop :=
  dom_tdes_key key /\ (0 < length data)%nat /\ (length data mod 8 = 0)%nat.
Definition dom_tdes_cbc (key iv data : bytes) : Prop :=
  dom_tdes_key key /\ length iv = 8%nat /\ (0 < length data)%nat /\ (length data mod 8 = 0)%nat.
Definition dom_aes_ecb (key data : bytes) : Prop :=
  dom_aes_key key /\ (0 < length data)%nat /\ (length data mod 16 = 0)%nat.
Definition dom_aes_cbc (key iv data : bytes) : Prop :=
  dom_aes_key key /\ length iv = 16%nat /\ (0 < length data)%nat /\ (length data mod 16 = 0)%nat.

Definition dom_generate_kcv (key : bytes) : Prop := dom_tdes_key key.
Definition dom_apply_key_variant (key : bytes) (variant : Z) : Prop :=
  dom_tdes_key key /\ (0 <= variant <= 31)%Z.

(* ------------------------------------------------------------------ *)
Lemma dom_padding_dec p : dom_padding p \/ ~ dom_padding p.
Proof. unfold dom_padding. lia. Qed.

(* the padding methods cannot fail inside the documented domain *)
Lemma pad_dispatch_ok p data bsz : (0 < bsz)%nat -> dom_padding p ->
  (p = 3 -> lenN data * 8 < 256 ^ N.of_nat bsz) ->
  exists out, pad_dispatch p data bsz = Ok out /\ (0 < length out)%nat /\
              (length out mod bsz = 0)%nat.
Proof.
  intros Hb Hp Hfit.
  assert (E : exists out, pad_dispatch p data bsz = Ok out).
  { destruct Hp as [->|[->| ->]]; cbn [pad_dispatch].
    - destruct (pad1_exact data bsz Hb) as (k & E & _). eauto.
    - destruct (pad2_exact data bsz Hb) as (k & E & _). eauto.
    - destruct (pad3_exact data bsz Hb (Hfit eq_refl)) as (k & E & _). eauto. }
  destruct E as (out & E). exists out. split; [assumption|].
  destruct (pad_multiple p data bsz out Hb Hp E) as (P & M & _). auto.
Qed.

Lemma pad_dispatch_reject p data bsz : ~ dom_padding p -> pad_dispatch p data bsz = Err ValueError.
Proof. unfold dom_padding. intros H. apply pad_unknown_method; lia. Qed.

Section Mac.
  Variable cd : cipher.
  Variable ca : cipher.
  Hypothesis Hcd : cipher_ok cd.
  Hypothesis Hca : cipher_ok ca.
  Hypothesis Hbsd : bs cd = 8%nat.
  Hypothesis Hbsa : bs ca = 16%nat.
  Hypothesis Hkd : forall k, valid_key cd k = tdes_valid_key k.
  Hypothesis Hka : forall k, valid_key ca k = aes_valid_key k.

  Lemma valid_tdes key : valid_key cd key = true <-> dom_tdes_key key.
  Proof. rewrite Hkd. apply mem_nat_3. Qed.
  Lemma valid_aes key : valid_key ca key = true <-> dom_aes_key key.
  Proof. rewrite Hka. apply mem_nat_3. Qed.
  Lemma invalid_tdes key : valid_key cd key = false <-> ~ dom_tdes_key key.
  Proof. rewrite <- valid_tdes. destruct (valid_key cd key); split; congruence. Qed.
  Lemma invalid_aes key : valid_key ca key = false <-> ~ dom_aes_key key.
  Proof. rewrite <- valid_aes. destruct (valid_key ca key); split; congruence. Qed.

  (* ---------------- generate_cbc_mac ---------------- *)
  Lemma generate_cbc_mac_char key data padding mlen (aes : bool) :
    (padding = 3 -> lenN data * 8 < (if aes then 256 ^ 16 else 256 ^ 8)) ->
    (dom_generate_cbc_mac key padding aes /\
       exists v, generate_cbc_mac cd ca key data padding mlen aes = Ok v) \/
    (~ dom_generate_cbc_mac key padding aes /\
       generate_cbc_mac cd ca key data padding mlen aes = Err ValueError).
  Proof.
    intros Hfit. unfold dom_generate_cbc_mac, generate_cbc_mac.
    set (c := if aes then ca else cd).
    assert (Hc : cipher_ok c) by (unfold c; destruct aes; assumption).
    assert (Hk : valid_key c key = true <-> (if aes then dom_aes_key key else dom_tdes_key key)).
    { unfold c. destruct aes; [apply valid_aes|apply valid_tdes]. }
    assert (Hf : padding = 3 -> lenN data * 8 < 256 ^ N.of_nat (bs c)).
    { intros E. specialize (Hfit E). unfold c. destruct aes; [rewrite Hbsa|rewrite Hbsd]; exact Hfit. }
    destruct (dom_padding_dec padding) as [P|P].
    2:{ right. rewrite pad_dispatch_reject by assumption. split; [tauto|reflexivity]. }
    destruct (pad_dispatch_ok padding data (bs c) (bs_pos c Hc) P Hf) as (out & E & L & M).
    rewrite E. cbn [bind].
    destruct (encrypt_cbc_char c Hc key (repeat 0 (bs c)) out) as [[D (ct & Ect)]|[D Ect]];
      rewrite Ect; cbn [bind].
    - left. split; [|eexists; reflexivity]. destruct D as (K & _). apply Hk in K. tauto.
    - right. split; [|reflexivity]. intros [K _]. apply D. unfold dom_cbc.
      rewrite repeat_length. apply Hk in K. tauto.
  Qed.

  (* ---------------- generate_retail_mac ---------------- *)
  Lemma generate_retail_mac_char key1 key2 data padding mlen :
    (padding = 3 -> lenN data * 8 < 256 ^ 8) ->
    (dom_generate_retail_mac key1 key2 padding /\
       exists v, generate_retail_mac cd key1 key2 data padding mlen = Ok v) \/
    (~ dom_generate_retail_mac key1 key2 padding /\
       generate_retail_mac cd key1 key2 data padding mlen = Err ValueError).
  Proof.
    clear ca Hca Hbsa Hka.
    intros Hfit. unfold dom_generate_retail_mac, generate_retail_mac.
    destruct (dom_padding_dec padding) as [P|P].
    2:{ right. rewrite pad_dispatch_reject by assumption. split; [tauto|reflexivity]. }
    destruct (pad_dispatch_ok padding data 8 ltac:(lia) P Hfit) as (out & E & L & M).
    rewrite E. cbn [bind].
    destruct (valid_key cd key1) eqn:K1; cbn [negb].
    2:{ right. apply invalid_tdes in K1. split; [tauto|reflexivity]. }
    destruct (valid_key cd key2) eqn:K2; cbn [negb].
    2:{ right. apply invalid_tdes in K2. split; [tauto|reflexivity]. }
    left. apply valid_tdes in K1. apply valid_tdes in K2. split; [tauto|eexists; reflexivity].
  Qed.

  (* ---------------- des.py / aes.py wrappers ---------------- *)
  Lemma dom_ecb_tdes key data : dom_ecb cd key data <-> dom_tdes_ecb key data.
  Proof. unfold dom_ecb, dom_tdes_ecb. rewrite valid_tdes, Hbsd. tauto. Qed.
  Lemma dom_cbc_tdes key iv data : dom_cbc cd key iv data <-> dom_tdes_cbc key iv data.
  Proof. unfold dom_cbc, dom_tdes_cbc. rewrite valid_tdes, Hbsd. tauto. Qed.
  Lemma dom_ecb_aes key data : dom_ecb ca key data <-> dom_aes_ecb key data.
  Proof. unfold dom_ecb, dom_aes_ecb. rewrite valid_aes, Hbsa. tauto. Qed.
  Lemma dom_cbc_aes key iv data : dom_cbc ca key iv data <-> dom_aes_cbc key iv data.
  Proof. unfold dom_cbc, dom_aes_cbc. rewrite valid_aes, Hbsa. tauto. Qed.

  Lemma char_transfer {A} (P Q : Prop) (r : res A) : (P <-> Q) ->
    (P /\ exists v, r = Ok v) \/ (~ P /\ r = Err ValueError) ->
    (Q /\ exists v, r = Ok v) \/ (~ Q /\ r = Err ValueError).
  Proof. tauto. Qed.

  Lemma encrypt_tdes_ecb_char key data :
    (dom_tdes_ecb key data /\ exists v, encrypt_tdes_ecb cd key data = Ok v) \/
    (~ dom_tdes_ecb key data /\ encrypt_tdes_ecb cd key data = Err ValueError).
  Proof. apply (char_transfer _ _ _ (dom_ecb_tdes key data)), encrypt_ecb_char, Hcd. Qed.
  Lemma decrypt_tdes_ecb_char key data :
    (dom_tdes_ecb key data /\ exists v, decrypt_tdes_ecb cd key data = Ok v) \/
    (~ dom_tdes_ecb key data /\ decrypt_tdes_ecb cd key data = Err ValueError).
  Proof. apply (char_transfer _ _ _ (dom_ecb_tdes key data)), decrypt_ecb_char, Hcd. Qed.
  Lemma encrypt_tdes_cbc_char key iv data :
    (dom_tdes_cbc key iv data /\ exists v, encrypt_tdes_cbc cd key iv data = Ok v) \/
    (~ dom_tdes_cbc key iv data /\ encrypt_tdes_cbc cd key iv data = Err ValueError).
  Proof. apply (char_transfer _ _ _ (dom_cbc_tdes key iv data)), encrypt_cbc_char, Hcd. Qed.
  Lemma decrypt_tdes_cbc_char key iv data :
    (dom_tdes_cbc key iv data /\ exists v, decrypt_tdes_cbc cd key iv data = Ok v) \/
    (~ dom_tdes_cbc key iv data /\ decrypt_tdes_cbc cd key iv data = Err ValueError).
  Proof. apply (char_transfer _ _ _ (dom_cbc_tdes key iv data)), decrypt_cbc_char, Hcd. Qed.

  Lemma encrypt_aes_ecb_char key data :
    (dom_aes_ecb key data /\ exists v, encrypt_aes_ecb ca key data = Ok v) \/
    (~ dom_aes_ecb key data /\ encrypt_aes_ecb ca key data = Err ValueError).
  Proof. apply (char_transfer _ _ _ (dom_ecb_aes key data)), encrypt_ecb_char, Hca. Qed.
  Lemma decrypt_aes_ecb_char key data :
    (dom_aes_ecb key data /\ exists v, decrypt_aes_ecb ca key data = Ok v) \/
    (~ dom_aes_ecb key data /\ decrypt_aes_ecb ca key data = Err ValueError).
  Proof. apply (char_transfer _ _ _ (dom_ecb_aes key data)), decrypt_ecb_char, Hca. Qed.
  Lemma encrypt_aes_cbc_char key iv data :
    (dom_aes_cbc key iv data /\ exists v, encrypt_aes_cbc ca key iv data = Ok v) \/
    (~ dom_aes_cbc key iv data /\ encrypt_aes_cbc ca key iv data = Err ValueError).
  Proof. apply (char_transfer _ _ _ (dom_cbc_aes key iv data)), encrypt_cbc_char, Hca. Qed.
  Lemma decrypt_aes_cbc_char key iv data :
    (dom_aes_cbc key iv data /\ exists v, decrypt_aes_cbc ca key iv data = Ok v) \/
    (~ dom_aes_cbc key iv data /\ decrypt_aes_cbc ca key iv data = Err ValueError).
  Proof. apply (char_transfer _ _ _ (dom_cbc_aes key iv data)), decrypt_cbc_char, Hca. Qed.

  (* ---------------- generate_kcv ---------------- *)
  Lemma generate_kcv_char key klen :
    (dom_generate_kcv key /\ exists v, generate_kcv cd key klen = Ok v) \/
    (~ dom_generate_kcv key /\ generate_kcv cd key klen = Err ValueError).
  Proof.
    unfold dom_generate_kcv, generate_kcv. destruct (valid_key cd key) eqn:K; cbn [negb].
    - left. apply valid_tdes in K. split; [assumption|eexists; reflexivity].
    - right. apply invalid_tdes in K. split; [assumption|reflexivity].
  Qed.
End Mac.

(* ---------------- apply_key_variant ---------------- *)
Lemma apply_key_variant_char key variant :
  (dom_apply_key_variant key variant /\ exists v, apply_key_variant key variant = Ok v) \/
  (~ dom_apply_key_variant key variant /\ apply_key_variant key variant = Err ValueError).
Proof.
  unfold dom_apply_key_variant, apply_key_variant.
  destruct (mem_nat (length key) [8; 16; 24]%nat) eqn:G0; cbn [negb].
  2:{ right. apply mem_nat_3_false in G0. unfold dom_tdes_key. split; [tauto|reflexivity]. }
  apply mem_nat_3 in G0.
  destruct (Z.ltb_spec variant 0); cbn [orb].
  { right. split; [lia|reflexivity]. }
  destruct (Z.ltb_spec 31 variant).
  { right. split; [lia|reflexivity]. }
  left. split; [unfold dom_tdes_key; tauto|].
  rewrite to_bytes_be_1 by lia. cbn [bind]. eexists. reflexivity.
Qed.

(* ------------------------------------------------------------------ *)
(* final statements (used by Properties/C16.v)                          *)
Theorem generate_cbc_mac_domain : forall cd ca, cipher_ok cd -> cipher_ok ca ->
  bs cd = 8%nat -> bs ca = 16%nat ->
  (forall k, valid_key cd k = tdes_valid_key k) -> (forall k, valid_key ca k = aes_valid_key k) ->
  forall key data padding mlen (aes : bool),
  (padding = 3 -> lenN data * 8 < (if aes then 256 ^ 16 else 256 ^ 8)) ->
  accepts_exactly (dom_generate_cbc_mac key padding aes)
                  (generate_cbc_mac cd ca key data padding mlen aes).
Proof. intros. apply char_accepts. apply generate_cbc_mac_char; assumption. Qed.

Theorem generate_retail_mac_domain : forall cd, bs cd = 8%nat ->
  (forall k, valid_key cd k = tdes_valid_key k) ->
  forall key1 key2 data padding mlen,
  (padding = 3 -> lenN data * 8 < 256 ^ 8) ->
  accepts_exactly (dom_generate_retail_mac key1 key2 padding)
                  (generate_retail_mac cd key1 key2 data padding mlen).
Proof. intros. apply char_accepts. eapply generate_retail_mac_char; eassumption. Qed.

Theorem tdes_wrappers_domain : forall cd, cipher_ok cd -> bs cd = 8%nat ->
  (forall k, valid_key cd k = tdes_valid_key k) ->
  forall key iv data,
  accepts_exactly (dom_tdes_ecb key data) (encrypt_tdes_ecb cd key data) /\
  accepts_exactly (dom_tdes_ecb key data) (decrypt_tdes_ecb cd key data) /\
  accepts_exactly (dom_tdes_cbc key iv data) (encrypt_tdes_cbc cd key iv data) /\
  accepts_exactly (dom_tdes_cbc key iv data) (decrypt_tdes_cbc cd key iv data).
Proof.
  intros. split; [|split; [|split]]; apply char_accepts;
    [eapply encrypt_tdes_ecb_char|eapply decrypt_tdes_ecb_char
    |eapply encrypt_tdes_cbc_char|eapply decrypt_tdes_cbc_char]; eassumption.
Qed.

Theorem aes_wrappers_domain : forall ca, cipher_ok ca -> bs ca = 16%nat ->
  (forall k, valid_key ca k = aes_valid_key k) ->
  forall key iv data,
  accepts_exactly (dom_aes_ecb key data) (encrypt_aes_ecb ca key data) /\
  accepts_exactly (dom_aes_ecb key data) (decrypt_aes_ecb ca key data) /\
  accepts_exactly (dom_aes_cbc key iv data) (encrypt_aes_cbc ca key iv data) /\
  accepts_exactly (dom_aes_cbc key iv data) (decrypt_aes_cbc ca key iv data).
Proof.
  intros. split; [|split; [|split]]; apply char_accepts;
    [eapply encrypt_aes_ecb_char|eapply decrypt_aes_ecb_char
    |eapply encrypt_aes_cbc_char|eapply decrypt_aes_cbc_char]; eassumption.
Qed.

Theorem generate_kcv_domain : forall cd, (forall k, valid_key cd k = tdes_valid_key k) ->
  forall key klen, accepts_exactly (dom_generate_kcv key) (generate_kcv cd key klen).
Proof. intros. apply char_accepts. eapply generate_kcv_char; eassumption. Qed.

Theorem apply_key_variant_domain : forall key variant,
  accepts_exactly (dom_apply_key_variant key variant) (apply_key_variant key variant).
Proof. intros. apply char_accepts, apply_key_variant_char. Qed.
