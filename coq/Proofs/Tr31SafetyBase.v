(* C15, part 1: the partial primitives and the cryptographic helpers of
   psec/tr31.py succeed on every argument the key-block code can hand them.

   "Never hangs": every function of the model (Lib/Base.v, Cipher/Cipher.v,
   Model/*.v) is a Gallina [Fixpoint] by structural recursion or a non-recursive
   [Definition]; each loop of tr31.py is a [for] over a range/list fixed before the
   loop (at most 99 optional blocks, at most 3 CMAC calls).  Termination holds by
   construction and needs no theorem. *)
From Coq Require Import Lia ZifyBool ZifyNat ZifyN.
From Psec Require Import Lib.Base Cipher.Cipher Model.Tools Model.Mac Model.Tr31
  Proofs.XorLemmas Proofs.PadLemmas Proofs.Tr31Defs.
Ltac Zify.zify_post_hook ::= Z.to_euclidean_division_equations.
Open Scope N_scope.

(* ------------------------------------------------------------------ *)
(* the property                                                         *)
Definition safe {A} (r : res A) : Prop :=
  match r with
  | Ok _ => True
  | Err HeaderError => True
  | Err KeyBlockError => True
  | Err _ => False
  end.

(* [Err (Crash CType)] is the model's marker for "the caller of the MODEL gave a
   random tape of the wrong length"; the code draws the tape itself *)
Definition safe_or_tape {A} (r : res A) : Prop := safe r \/ r = Err (Crash CType).

Lemma safe_bind {A B} (m : res A) (f : A -> res B) :
  safe m -> (forall a, m = Ok a -> safe (f a)) -> safe (bind m f).
Proof. intros Hm Hf. destruct m as [a|e]; [apply Hf; reflexivity | exact Hm]. Qed.

Lemma safe_tape_bind {A B} (m : res A) (f : A -> res B) :
  safe m -> (forall a, m = Ok a -> safe_or_tape (f a)) -> safe_or_tape (bind m f).
Proof. intros Hm Hf. destruct m as [a|e]; [apply Hf; reflexivity | left; exact Hm]. Qed.

(* sharper: the marker appears only when [bad] (the tape length is wrong) holds *)
Definition safe_or_badtape {A} (bad : Prop) (r : res A) : Prop :=
  safe r \/ (bad /\ r = Err (Crash CType)).

Lemma badtape_bind {A B} bad (m : res A) (f : A -> res B) :
  safe m -> (forall a, m = Ok a -> safe_or_badtape bad (f a)) -> safe_or_badtape bad (bind m f).
Proof. intros Hm Hf. destruct m as [a|e]; [apply Hf; reflexivity | left; exact Hm]. Qed.

Lemma badtape_weaken {A} bad (r : res A) : safe_or_badtape bad r -> safe_or_tape r.
Proof. intros [H|[_ H]]; [left | right]; exact H. Qed.

Lemma badtape_good {A} (bad : Prop) (r : res A) : safe_or_badtape bad r -> ~ bad -> safe r.
Proof. intros [H|[H _]] N; [exact H | contradiction]. Qed.

Lemma safe_ok {A} (a : A) : safe (Ok a).  Proof. exact I. Qed.
Lemma safe_he {A} : safe (@Err A HeaderError).  Proof. exact I. Qed.
Lemma safe_kbe {A} : safe (@Err A KeyBlockError).  Proof. exact I. Qed.

(* ------------------------------------------------------------------ *)
(* character classes are ASCII                                          *)
Definition is_ascii (c : N) : bool := c <? 128.

Lemma forallb_impl {A} (p q : A -> bool) l :
  (forall x, p x = true -> q x = true) -> forallb p l = true -> forallb q l = true.
Proof. intros H. rewrite !forallb_forall. auto. Qed.

Lemma is_digit_ascii c : is_digit c = true -> is_ascii c = true.
Proof. unfold is_digit, is_ascii. lia. Qed.
Lemma is_alnum_ascii c : is_alnum c = true -> is_ascii c = true.
Proof. unfold is_alnum, is_digit, is_upper, is_lower, is_ascii. lia. Qed.
Lemma is_print_ascii c : is_print c = true -> is_ascii c = true.
Proof. unfold is_print, is_ascii. lia. Qed.
Lemma is_hexch_ascii c : is_hexch c = true -> is_ascii c = true.
Proof. unfold is_hexch, is_digit, is_ascii. lia. Qed.

Lemma alnum_ascii s : ascii_alphanumeric s = true -> forallb is_ascii s = true.
Proof. apply forallb_impl, is_alnum_ascii. Qed.
Lemma print_ascii s : ascii_printable s = true -> forallb is_ascii s = true.
Proof. apply forallb_impl, is_print_ascii. Qed.
Lemma hexch_ascii s : ascii_hexchar s = true -> forallb is_ascii s = true.
Proof. apply forallb_impl, is_hexch_ascii. Qed.
Lemma numeric_ascii s : ascii_numeric s = true -> forallb is_ascii s = true.
Proof. apply forallb_impl, is_digit_ascii. Qed.

Lemma encode_ascii_ok s : forallb is_ascii s = true -> encode_ascii s = Ok s.
Proof. intros H. unfold encode_ascii. fold is_ascii. rewrite H. reflexivity. Qed.

(* ------------------------------------------------------------------ *)
(* int(), int(,16), bytes.fromhex                                       *)
Lemma int_of_dec_ok s : s <> [] -> ascii_numeric s = true -> int_of_dec s = Ok (dec_value s).
Proof. intros Hn H. unfold int_of_dec. destruct s; [congruence|]. rewrite H. reflexivity. Qed.

Lemma int_of_hex_ok s : s <> [] -> ascii_hexchar s = true -> int_of_hex s = Ok (hex_value s).
Proof. intros Hn H. unfold int_of_hex. destruct s; [congruence|]. rewrite H. reflexivity. Qed.

Lemma length_nonnil {A} (l : list A) n : length l = S n -> l <> [].
Proof. destruct l; [discriminate | congruence]. Qed.

(* bytes.fromhex never raises anything but ValueError *)
Lemma bytes_fromhex_cases_len n : forall s, (length s <= n)%nat ->
  (exists b, bytes_fromhex s = Ok b) \/ bytes_fromhex s = Err ValueError.
Proof.
  induction n as [|n IH]; intros s L.
  - destruct s; [left; eexists; reflexivity | cbn [length] in L; lia].
  - destruct s as [|c r]; [left; eexists; reflexivity|]. cbn [length] in L.
    cbn [bytes_fromhex]. destruct (is_space c); [apply IH; lia|].
    destruct r as [|d r']; [right; reflexivity|]. cbn [length] in L.
    destruct (unhex_digit c); [|right; reflexivity].
    destruct (unhex_digit d); [|right; reflexivity].
    destruct (IH r') as [[b E]|E]; [lia| |]; rewrite E; cbn [bind].
    + left. eexists. reflexivity.
    + right. reflexivity.
Qed.

Lemma bytes_fromhex_cases s :
  (exists b, bytes_fromhex s = Ok b) \/ bytes_fromhex s = Err ValueError.
Proof. apply (bytes_fromhex_cases_len (length s)). lia. Qed.

Lemma fromhex_kbe_safe s : safe (fromhex_kbe s).
Proof.
  unfold fromhex_kbe. destruct (bytes_fromhex_cases s) as [[b E]|E]; rewrite E; exact I.
Qed.

(* ------------------------------------------------------------------ *)
(* integers <-> bytes                                                   *)
Lemma le_bytes_bytes_ok n v : bytes_ok (le_bytes n v) = true.
Proof.
  revert v. induction n as [|n IH]; intro v; cbn [le_bytes]; [reflexivity|].
  apply bytes_ok_cons. split; [apply N.mod_lt; discriminate | apply IH].
Qed.

Lemma bytes_ok_rev' l : bytes_ok l = true -> bytes_ok (rev l) = true.
Proof.
  unfold bytes_ok. rewrite !forallb_forall. intros H x Hx. apply H. apply in_rev. assumption.
Qed.

Lemma be_bytes_bytes_ok n v : bytes_ok (be_bytes n v) = true.
Proof. unfold be_bytes. apply bytes_ok_rev'. apply le_bytes_bytes_ok. Qed.

Lemma py_xor_ok_any d k : bytes_ok (py_xor d k) = true.
Proof. unfold py_xor. apply le_bytes_bytes_ok. Qed.

Lemma pow256_succ n : 256 ^ N.of_nat (S n) = 256 * 256 ^ N.of_nat n.
Proof. rewrite Nat2N.inj_succ, N.pow_succ_r'. reflexivity. Qed.

Lemma pow256_pos n : 0 < 256 ^ N.of_nat n.
Proof. apply N.neq_0_lt_0. apply N.pow_nonzero. discriminate. Qed.

Lemma le_int_bound l : bytes_ok l = true -> le_int l < 256 ^ N.of_nat (length l).
Proof.
  induction l as [|a l IH]; intro H.
  - cbn. lia.
  - apply bytes_ok_cons in H as [Ha Hl]. specialize (IH Hl).
    cbn [le_int length]. rewrite pow256_succ. lia.
Qed.

Lemma le_int_app a b : le_int (a ++ b) = le_int a + 256 ^ N.of_nat (length a) * le_int b.
Proof.
  induction a as [|x a IH].
  - cbn [app le_int length]. change (256 ^ N.of_nat 0) with 1. lia.
  - cbn [app le_int length]. rewrite IH, pow256_succ. lia.
Qed.

Lemma be_int_cons x r : be_int (x :: r) = be_int r + 256 ^ N.of_nat (length r) * x.
Proof.
  unfold be_int. cbn [rev]. rewrite le_int_app, rev_length. cbn [le_int]. lia.
Qed.

Lemma be_int_bound l : bytes_ok l = true -> be_int l < 256 ^ N.of_nat (length l).
Proof.
  intros H. unfold be_int. rewrite <- rev_length. apply le_int_bound. apply bytes_ok_rev'. exact H.
Qed.

Lemma land_127_le x : N.land x 127 <= 127.
Proof.
  change 127 with (N.ones 7) at 1. rewrite N.land_ones.
  pose proof (N.mod_lt x (2 ^ 7)) as H. change (2 ^ 7) with 128 in *. lia.
Qed.

Lemma to_bytes_be_ok k v : v < 256 ^ N.of_nat k -> to_bytes_be k v = Ok (be_bytes k v).
Proof. intros H. unfold to_bytes_be. apply N.ltb_lt in H. rewrite H. reflexivity. Qed.

Lemma be_bytes_len n v : length (be_bytes n v) = n.
Proof. apply be_bytes_length. Qed.

(* shift_left_1: the cleared top bit makes room for the shift *)
Lemma shift_left_1_ok b : b <> [] -> bytes_ok b = true ->
  exists r, shift_left_1 b = Ok r /\ length r = length b /\ bytes_ok r = true.
Proof.
  intros Hn Hb. destruct b as [|b0 r]; [congruence|].
  apply bytes_ok_cons in Hb as [_ Hr].
  unfold shift_left_1. rewrite to_bytes_be_ok.
  - eexists. split; [reflexivity|]. split; [apply be_bytes_len | apply be_bytes_bytes_ok].
  - rewrite be_int_cons. cbn [length]. rewrite pow256_succ.
    pose proof (be_int_bound r Hr). pose proof (land_127_le b0).
    pose proof (pow256_pos (length r)). nia.
Qed.

Lemma index_0_ok {A} (s : list A) : s <> [] -> exists x, index s 0 = Ok x.
Proof. destruct s as [|x s]; [congruence|]. intros _. exists x. reflexivity. Qed.

(* ------------------------------------------------------------------ *)
(* lists                                                                *)
Lemma firstn_add {A} a b (l : list A) : firstn (a + b) l = firstn a l ++ firstn b (skipn a l).
Proof.
  revert l. induction a as [|a IH]; intros l; [reflexivity|].
  destruct l as [|x l]; [cbn; rewrite firstn_nil; reflexivity|].
  cbn [Nat.add firstn skipn app]. rewrite IH. reflexivity.
Qed.

Lemma last_n_length {A} k (s : list A) : (k <= length s)%nat -> length (last_n k s) = k.
Proof. intros H. unfold last_n. rewrite skipn_length. lia. Qed.

(* ------------------------------------------------------------------ *)
(* block cipher modes                                                   *)
Section Cipher.
  Variable c : cipher.
  Hypothesis Hc : cipher_ok c.

  Lemma mod0_ge (a b : nat) : (0 < b)%nat -> (0 < a)%nat -> (a mod b = 0)%nat -> (b <= a)%nat.
  Proof.
    intros Hb Ha Hm. apply Nat.mod_divides in Hm; [|lia]. destruct Hm as [q ->].
    destruct q; nia.
  Qed.

  Lemma bad_len_false data : (0 < length data)%nat -> (length data mod bs c = 0)%nat ->
    bad_len c data = false.
  Proof.
    intros Hp Hm. unfold bad_len. pose proof (bs_pos c Hc) as Hb.
    pose proof (mod0_ge _ _ Hb Hp Hm) as Hge.
    apply orb_false_iff. split.
    - apply Nat.ltb_ge. exact Hge.
    - rewrite Hm. reflexivity.
  Qed.

  Lemma nblocks_bounds data : (0 < length data)%nat -> (length data mod bs c = 0)%nat ->
    (1 <= nblocks c data)%nat /\ (nblocks c data * bs c <= length data)%nat.
  Proof.
    intros Hp Hm. pose proof (bs_pos c Hc) as Hb. pose proof (mod0_ge _ _ Hb Hp Hm) as Hge.
    unfold nblocks. split.
    - apply Nat.div_str_pos. lia.
    - rewrite Nat.mul_comm. apply Nat.mul_div_le. lia.
  Qed.

  Lemma xorb_block d iv : length d = bs c -> block_ok c (xorb d iv).
  Proof.
    intros L. unfold block_ok, xorb. rewrite py_xor_length. split; [exact L | apply py_xor_ok_any].
  Qed.

  Lemma cbc_enc_n_props k : valid_key c k = true -> forall n iv data,
    (n * bs c <= length data)%nat ->
    length (cbc_enc_n c k n iv data) = (n * bs c)%nat /\ bytes_ok (cbc_enc_n c k n iv data) = true.
  Proof.
    intros Hk. induction n as [|n IH]; intros iv data L; [split; reflexivity|].
    cbn [cbc_enc_n].
    assert (B : block_ok c (enc c k (xorb (firstn (bs c) data) iv))).
    { apply (enc_block c Hc); [exact Hk|]. apply xorb_block. apply firstn_length_le. lia. }
    destruct B as [BL BB].
    destruct (IH (enc c k (xorb (firstn (bs c) data) iv)) (skipn (bs c) data)) as [IL IB].
    { rewrite skipn_length. lia. }
    split.
    - rewrite app_length, BL, IL. lia.
    - apply bytes_ok_app. split; assumption.
  Qed.

  Lemma encrypt_cbc_ok key iv data : valid_key c key = true -> length iv = bs c ->
    (0 < length data)%nat -> (length data mod bs c = 0)%nat ->
    exists ct, encrypt_cbc c key iv data = Ok ct /\ length ct = length data /\ bytes_ok ct = true.
  Proof.
    intros Hk Hiv Hp Hm. unfold encrypt_cbc. rewrite (bad_len_false data Hp Hm), Hk, Hiv, Nat.eqb_refl.
    cbn [negb]. eexists. split; [reflexivity|].
    destruct (nblocks_bounds data Hp Hm) as [_ Hn].
    destruct (cbc_enc_n_props key Hk (nblocks c data) iv data Hn) as [L B].
    split; [|exact B]. rewrite L. unfold nblocks.
    pose proof (bs_pos c Hc). pose proof (Nat.div_mod (length data) (bs c)). nia.
  Qed.

  Lemma decrypt_cbc_ok key iv data : valid_key c key = true -> length iv = bs c ->
    (0 < length data)%nat -> (length data mod bs c = 0)%nat ->
    exists pt, decrypt_cbc c key iv data = Ok pt.
  Proof.
    intros Hk Hiv Hp Hm. unfold decrypt_cbc. rewrite (bad_len_false data Hp Hm), Hk, Hiv, Nat.eqb_refl.
    cbn [negb]. eexists. reflexivity.
  Qed.

  Lemma encrypt_ecb_zero key : valid_key c key = true ->
    encrypt_ecb c key (repeat 0 (bs c)) = Ok (enc c key (repeat 0 (bs c))) /\
    block_ok c (enc c key (repeat 0 (bs c))).
  Proof.
    intros Hk. pose proof (bs_pos c Hc) as Hb.
    assert (BZ : block_ok c (repeat 0 (bs c))).
    { split; [apply repeat_length | apply bytes_ok_repeat; lia]. }
    split; [|apply (enc_block c Hc); assumption].
    unfold encrypt_ecb. rewrite bad_len_false, Hk; rewrite ?repeat_length; try lia.
    - cbn [negb]. unfold nblocks. rewrite repeat_length, Nat.div_same by lia.
      cbn [ecb_n]. rewrite app_nil_r. rewrite firstn_all2 by (rewrite repeat_length; lia). reflexivity.
    - apply Nat.mod_same. lia.
  Qed.

  (* CMAC subkeys *)
  Lemma cmac_subkeys_ok r_const key : valid_key c key = true ->
    exists k1 k2, cmac_subkeys c r_const key = Ok (k1, k2) /\
                  length k1 = bs c /\ length k2 = bs c.
  Proof.
    intros Hk. pose proof (bs_pos c Hc) as Hb.
    destruct (encrypt_ecb_zero key Hk) as [E [SL SB]].
    unfold cmac_subkeys. rewrite E. cbn [bind].
    set (s := enc c key (repeat 0 (bs c))) in *.
    assert (Sn : s <> []) by (destruct s; [cbn in SL; lia | congruence]).
    destruct (index_0_ok s Sn) as [s0 E0]. rewrite E0. cbn [bind].
    destruct (shift_left_1_ok s Sn SB) as (sh & Esh & Lsh & Bsh). rewrite Esh. cbn [bind].
    set (k1 := if negb (N.land s0 128 =? 0) then py_xor sh r_const else sh).
    assert (K1 : length k1 = bs c /\ bytes_ok k1 = true).
    { unfold k1. destruct (negb (N.land s0 128 =? 0)).
      - rewrite py_xor_length. split; [lia | apply py_xor_ok_any].
      - split; [lia | exact Bsh]. }
    destruct K1 as [K1L K1B].
    assert (K1n : k1 <> []) by (destruct k1; [cbn in K1L; lia | congruence]).
    destruct (index_0_ok k1 K1n) as [k10 E10]. rewrite E10. cbn [bind].
    destruct (shift_left_1_ok k1 K1n K1B) as (sh1 & Esh1 & Lsh1 & Bsh1). rewrite Esh1. cbn [bind].
    eexists. eexists. split; [reflexivity|]. split; [exact K1L|].
    destruct (negb (N.land k10 128 =? 0)); [rewrite py_xor_length|]; lia.
  Qed.
End Cipher.

(* ------------------------------------------------------------------ *)
(* generate_cbc_mac with padding method 1                               *)
Section Mac.
  Variable cd ca : cipher.

  Lemma generate_cbc_mac_ok key data l (aes : bool) :
    cipher_ok (if aes then ca else cd) -> valid_key (if aes then ca else cd) key = true ->
    (l <= bs (if aes then ca else cd))%nat ->
    exists m, generate_cbc_mac cd ca key data 1 (Some l) aes = Ok m /\ length m = l /\
              bytes_ok m = true.
  Proof.
    intros Hc Hk Hl. unfold generate_cbc_mac. set (c := if aes then ca else cd) in *.
    pose proof (bs_pos c Hc) as Hb.
    change (pad_dispatch 1 data (bs c)) with (pad_iso_1 data (bs c)).
    destruct (pad1_exact data (bs c) Hb) as (k & E & P1 & P2 & _). rewrite E. cbn [bind].
    set (p := data ++ repeat 0 k) in *.
    assert (LP : length p = (length data + k)%nat) by (unfold p; rewrite app_length, repeat_length; reflexivity).
    rewrite <- LP in P1, P2.
    destruct (encrypt_cbc_ok c Hc key (repeat 0 (bs c)) p Hk (repeat_length _ _) P1 P2) as (ct & Ec & Lc & Bc).
    rewrite Ec. cbn [bind]. eexists. split; [reflexivity|].
    pose proof (mod0_ge _ _ Hb P1 P2) as Hge.
    split.
    - rewrite firstn_length, last_n_length by lia. lia.
    - apply bytes_ok_firstn. unfold last_n. apply bytes_ok_skipn. exact Bc.
  Qed.
End Mac.
