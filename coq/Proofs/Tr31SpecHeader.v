(* C03 (stretch): Header.load decodes every header text the Spec can spell
   (Spec/TR31.v spec_header_text: short or extended block lengths with any size
   of the length field, hex letter case per digit, any pad block). *)
From Coq Require Import Lia ZifyBool ZifyNat ZifyN.
From Psec Require Import Lib.Base Cipher.Cipher Model.Tools Model.Mac Model.Tr31
  Proofs.XorLemmas Proofs.PadLemmas Proofs.Tr31Defs Spec.CMAC Spec.TR31 Proofs.Tr31Spec
  Proofs.Tr31SpecC02 Proofs.Tr31SpecWrap.
Ltac Zify.zify_post_hook ::= Z.to_euclidean_division_equations.
Open Scope N_scope.

(* ------------------------------------------------------------------ *)
(* fixed-width hex and decimal numbers                                  *)
Lemma hex_digit_ok u d : d < 16 ->
  unhex_digit (hex_digit u d) = Some d /\ is_hexch (hex_digit u d) = true /\ hex_digit u d < 128.
Proof.
  intro Hd.
  apply (nibble_cases (fun d => match unhex_digit (hex_digit u d) with Some m => m =? d | None => false end
                                && is_hexch (hex_digit u d) && (hex_digit u d <? 128))) in Hd.
  - apply andb_true_iff in Hd as [Hd C]. apply andb_true_iff in Hd as [A B].
    destruct (unhex_digit (hex_digit u d)); [|discriminate]. apply N.eqb_eq in A. subst.
    apply N.ltb_lt in C. auto.
  - destruct u; vm_compute; reflexivity.
Qed.

Lemma hex_num_length cs v : length (hex_num cs v) = length cs.
Proof. induction cs as [|u r IH]; cbn [hex_num length]; congruence. Qed.

Lemma mod16_lt x : x mod 16 < 16.
Proof. apply N.mod_lt. discriminate. Qed.

Lemma hex_num_hexchar cs v : ascii_hexchar (hex_num cs v) = true.
Proof.
  induction cs as [|u r IH]; [reflexivity|]. cbn [hex_num]. unfold ascii_hexchar. cbn [forallb].
  rewrite (proj1 (proj2 (hex_digit_ok u _ (mod16_lt _)))). exact IH.
Qed.

Lemma hex_num_ascii cs v : forallb (fun c => c <? 128) (hex_num cs v) = true.
Proof.
  induction cs as [|u r IH]; [reflexivity|]. cbn [hex_num forallb].
  rewrite IH, andb_true_r. apply N.ltb_lt. apply hex_digit_ok. apply mod16_lt.
Qed.

Lemma lenN_cons {A} (x : A) l : lenN (x :: l) = lenN l + 1.
Proof. unfold lenN. cbn [length]. lia. Qed.

Lemma hex_value_fold cs v acc :
  fold_left (fun acc c => 16 * acc + match unhex_digit c with Some x => x | None => 0 end)
            (hex_num cs v) acc
  = acc * 16 ^ lenN cs + v mod 16 ^ lenN cs.
Proof.
  revert acc. induction cs as [|u r IH]; intro acc.
  - change (lenN (@nil bool)) with 0. rewrite N.pow_0_r, N.mod_1_r. cbn [hex_num fold_left]. lia.
  - cbn [hex_num fold_left]. rewrite (proj1 (hex_digit_ok u _ (mod16_lt _))). rewrite IH.
    rewrite lenN_cons, N.pow_add_r, N.pow_1_r.
    assert (HP : 16 ^ lenN r <> 0) by (apply N.pow_nonzero; discriminate).
    rewrite (N.mod_mul_r v (16 ^ lenN r) 16) by (try assumption; discriminate).
    set (d := (v / 16 ^ lenN r) mod 16) in *. clearbody d.
    set (P := 16 ^ lenN r) in *. clearbody P.
    set (m := v mod P) in *. clearbody m. lia.
Qed.

Lemma int_of_hex_num cs v : cs <> [] -> v < 16 ^ lenN cs -> int_of_hex (hex_num cs v) = Ok v.
Proof.
  intros Hne Hv. unfold int_of_hex. rewrite hex_num_hexchar.
  destruct cs as [|u r]; [contradiction|].
  change (hex_num (u :: r) v) with (hex_digit u ((v / 16 ^ lenN r) mod 16) :: hex_num r v).
  cbv iota. change (hex_digit u ((v / 16 ^ lenN r) mod 16) :: hex_num r v) with (hex_num (u :: r) v).
  unfold hex_value. rewrite hex_value_fold. rewrite N.mod_small by assumption. f_equal; try lia.
Qed.

Lemma dec_num_length w v : length (dec_num w v) = w.
Proof. induction w as [|w IH]; cbn [dec_num length]; congruence. Qed.

Lemma mod10_lt x : x mod 10 < 10.
Proof. apply N.mod_lt. discriminate. Qed.

Lemma dec_num_numeric w v : ascii_numeric (dec_num w v) = true.
Proof.
  induction w as [|w IH]; [reflexivity|]. cbn [dec_num]. unfold ascii_numeric. cbn [forallb].
  fold (ascii_numeric (dec_num w v)). rewrite IH, andb_true_r. unfold is_digit.
  pose proof (mod10_lt (v / 10 ^ N.of_nat w)) as Hd.
  set (d := (v / 10 ^ N.of_nat w) mod 10) in *. clearbody d. lia.
Qed.

Lemma dec_value_fold w v acc :
  fold_left (fun acc c => 10 * acc + (c - 48)) (dec_num w v) acc
  = acc * 10 ^ N.of_nat w + v mod 10 ^ N.of_nat w.
Proof.
  revert acc. induction w as [|w IH]; intro acc.
  - change (N.of_nat 0) with 0. rewrite N.pow_0_r, N.mod_1_r. cbn [dec_num fold_left]. lia.
  - cbn [dec_num fold_left]. rewrite IH.
    rewrite Nat2N.inj_succ, N.pow_succ_r'.
    assert (HP : 10 ^ N.of_nat w <> 0) by (apply N.pow_nonzero; discriminate).
    rewrite (N.mul_comm 10 (10 ^ N.of_nat w)).
    rewrite (N.mod_mul_r v (10 ^ N.of_nat w) 10) by (try assumption; discriminate).
    pose proof (mod10_lt (v / 10 ^ N.of_nat w)) as Hd.
    set (d := (v / 10 ^ N.of_nat w) mod 10) in *. clearbody d.
    set (P := 10 ^ N.of_nat w) in *. clearbody P.
    set (m := v mod P) in *. clearbody m. lia.
Qed.

Lemma int_of_dec_num w v : (0 < w)%nat -> v < 10 ^ N.of_nat w -> int_of_dec (dec_num w v) = Ok v.
Proof.
  intros Hw Hv. unfold int_of_dec. rewrite dec_num_numeric.
  destruct w as [|w]; [lia|].
  change (dec_num (S w) v) with ((48 + (v / 10 ^ N.of_nat w) mod 10) :: dec_num w v).
  cbv iota. change ((48 + (v / 10 ^ N.of_nat w) mod 10) :: dec_num w v) with (dec_num (S w) v).
  unfold dec_value. rewrite dec_value_fold. rewrite N.mod_small by assumption. f_equal; try lia.
Qed.

Lemma dec_num_alnum w v : ascii_alphanumeric (dec_num w v) = true.
Proof.
  pose proof (dec_num_numeric w v) as Hn. unfold ascii_numeric, ascii_alphanumeric in *.
  rewrite forallb_forall in *. intros x Hx. unfold is_alnum. rewrite (Hn x Hx). reflexivity.
Qed.

(* ------------------------------------------------------------------ *)
(* Blocks.load on one optional block, in any legal spelling             *)
Lemma firstn_app_exact {A} (a b : list A) n : length a = n -> firstn n (a ++ b) = a.
Proof. intros <-. rewrite firstn_app, Nat.sub_diag, firstn_all, firstn_O. apply app_nil_r. Qed.
Lemma skipn_app_exact {A} (a b : list A) n : length a = n -> skipn n (a ++ b) = b.
Proof. intros <-. rewrite skipn_app, Nat.sub_diag, skipn_all. reflexivity. Qed.

Lemma parse_ext c1 ll c2 total tail :
  length c1 = 2%nat -> 0 < ll < 256 -> length c2 = N.to_nat (2 * ll) -> total < 16 ^ (2 * ll) ->
  parse_extended_len (hex_num c1 ll ++ hex_num c2 total ++ tail)
  = Ok ((Z.of_N total - 6 - Z.of_N (2 * ll))%Z, tail, (2 + N.to_nat (2 * ll))%nat).
Proof.
  intros L1 Hll L2 Ht. unfold parse_extended_len.
  rewrite (firstn_app_exact (hex_num c1 ll)) by (rewrite hex_num_length; assumption).
  rewrite (skipn_app_exact (hex_num c1 ll)) by (rewrite hex_num_length; assumption).
  rewrite hex_num_length, L1, hex_num_hexchar. cbn [Nat.eqb negb orb].
  rewrite int_of_hex_num.
  2:{ destruct c1; [discriminate|]. discriminate. }
  2:{ unfold lenN. rewrite L1. change (16 ^ N.of_nat 2) with 256. lia. }
  cbn [bind]. destruct (N.eqb_spec (2 * ll) 0) as [E|_]; [lia|].
  rewrite (firstn_app_exact (hex_num c2 total)) by (rewrite hex_num_length; assumption).
  rewrite (skipn_app_exact (hex_num c2 total)) by (rewrite hex_num_length; assumption).
  rewrite hex_num_length, L2, Nat.eqb_refl, hex_num_hexchar. cbn [negb orb].
  rewrite int_of_hex_num.
  2:{ destruct c2; [|discriminate]. cbn [length] in L2. lia. }
  2:{ unfold lenN. rewrite L2, N2Nat.id. assumption. }
  cbn [bind]. reflexivity.
Qed.

Definition item_ok (it : item) : Prop :=
  let '(id, data, f) := it in
  length id = 2%nat /\ ascii_alphanumeric id = true /\ ascii_printable data = true /\
  len_form_legal data f.

(* what Blocks.load does with a decoded block: pad blocks are dropped *)
Definition item_step (acc : dict) (it : item) : dict :=
  let '(id, data, _) := it in if is_pad_id id then acc else dict_set id data acc.

Lemma int_of_hex_00 : int_of_hex [48; 48] = Ok 0.
Proof. reflexivity. Qed.
Lemma hexchar_00 : ascii_hexchar [48; 48] = true.
Proof. reflexivity. Qed.

(* the part of one step of blocks_load_aux after the block length is known *)
Lemma load_item_tail n id data rest consumed acc used :
  length id = 2%nat -> ascii_alphanumeric id = true -> ascii_printable data = true ->
  (let bln := lenN data in
   if lenN (data ++ rest) <? bln then (acc, Err HeaderError) else
   let k := N.to_nat bln in
   let data' := firstn k (data ++ rest) in
   let rest4 := skipn k (data ++ rest) in
   let consumed' := (consumed + 4 + used + k)%nat in
   if is_pad_id id then
     if negb (ascii_printable data') then (acc, Err HeaderError)
     else blocks_load_aux n rest4 consumed' acc
   else
     match blocks_setitem id data' acc with
     | Err e => (acc, Err e)
     | Ok acc' => blocks_load_aux n rest4 consumed' acc'
     end)
  = blocks_load_aux n rest (consumed + 4 + used + length data)%nat
      (if is_pad_id id then acc else dict_set id data acc).
Proof.
  intros Lid Aid Pd. cbv zeta.
  destruct (N.ltb_spec (lenN (data ++ rest)) (lenN data)) as [X|_].
  { unfold lenN in X. rewrite app_length in X. lia. }
  unfold lenN. rewrite Nat2N.id.
  rewrite (firstn_app_exact data rest) by reflexivity.
  rewrite (skipn_app_exact data rest) by reflexivity.
  destruct (is_pad_id id).
  - rewrite Pd. reflexivity.
  - unfold blocks_setitem. rewrite Lid, Aid, Pd. reflexivity.
Qed.

Lemma load_item n it rest consumed acc : item_ok it ->
  blocks_load_aux (S n) (item_text it ++ rest) consumed acc =
  blocks_load_aux n rest (consumed + length (item_text it))%nat (item_step acc it).
Proof.
  destruct it as [[id data] f]. intros (Lid & Aid & Pd & Lf).
  destruct id as [|i1 [|i2 [|]]]; try discriminate Lid.
  unfold item_text, item_step, opt_block_text. destruct f as [cs|c1 ll c2]; cbn [len_form_legal] in Lf.
  - destruct Lf as [Lcs Hv].
    pose proof (hex_num_length cs (4 + lenN data)) as Lh. rewrite Lcs in Lh.
    pose proof (hex_num_hexchar cs (4 + lenN data)) as Hh.
    assert (Hi : int_of_hex (hex_num cs (4 + lenN data)) = Ok (4 + lenN data)).
    { apply int_of_hex_num; [destruct cs; discriminate|].
      unfold lenN at 2. rewrite Lcs. change (16 ^ N.of_nat 2) with 256. assumption. }
    destruct (hex_num cs (4 + lenN data)) as [|h1 [|h2 [|]]]; try discriminate Lh.
    rewrite <- !app_assoc. cbn [app].
    cbn [blocks_load_aux firstn skipn length Nat.eqb negb orb].
    rewrite Hh, Hi. cbn [negb orb].
    destruct (N.eqb_spec (4 + lenN data) 0) as [X|_]; [lia|].
    destruct (Z.ltb_spec (Z.of_N (4 + lenN data) - 4) 0) as [X|_]; [lia|].
    replace (Z.to_N (Z.of_N (4 + lenN data) - 4)) with (lenN data) by lia.
    pose proof (load_item_tail n [i1; i2] data rest consumed acc 0 Lid Aid Pd) as T.
    cbv zeta in T. rewrite T. f_equal. rewrite ?app_length. cbn [length]. lia.
  - destruct Lf as (L1 & Hll & L2 & Ht).
    rewrite <- !app_assoc. cbn [app].
    cbn [blocks_load_aux firstn skipn length Nat.eqb negb orb].
    rewrite hexchar_00, int_of_hex_00. cbn [negb orb N.eqb].
    rewrite (parse_ext c1 ll c2 _ (data ++ rest) L1 Hll L2 Ht).
    destruct (Z.ltb_spec (Z.of_N (6 + 2 * ll + lenN data) - 6 - Z.of_N (2 * ll)) 0) as [X|_]; [lia|].
    replace (Z.to_N (Z.of_N (6 + 2 * ll + lenN data) - 6 - Z.of_N (2 * ll))) with (lenN data) by lia.
    pose proof (load_item_tail n [i1; i2] data rest consumed acc (2 + N.to_nat (2 * ll)) Lid Aid Pd) as T.
    cbv zeta in T. rewrite T. f_equal. rewrite ?app_length, ?hex_num_length, ?L1, ?L2. cbn [length]. lia.
Qed.

Lemma load_items items : forall rest consumed acc, Forall item_ok items ->
  blocks_load_aux (length items) (flat_map item_text items ++ rest) consumed acc =
  (fold_left item_step items acc, Ok (consumed + length (flat_map item_text items))%nat).
Proof.
  induction items as [|it items IH]; intros rest consumed acc Hok.
  - cbn. rewrite Nat.add_0_r. reflexivity.
  - inversion Hok as [|? ? Hit Hrest]; subst. cbn [length flat_map fold_left].
    rewrite <- app_assoc, (load_item _ it _ consumed acc Hit), (IH _ _ _ Hrest).
    f_equal. f_equal. rewrite app_length. lia.
Qed.

(* ------------------------------------------------------------------ *)
(* the dictionary Blocks.load builds                                    *)
Lemma dict_set_fresh k v d : ~ In k (map fst d) -> dict_set k v d = d ++ [(k, v)].
Proof.
  induction d as [|[k' v'] d IH]; intro Hn; [reflexivity|]. cbn [dict_set].
  cbn [map fst In] in Hn.
  destruct (list_eqb k k') eqn:E.
  - apply list_eqb_eq in E. subst. exfalso. apply Hn. left. reflexivity.
  - cbn [app]. f_equal. apply IH. intro X. apply Hn. right. assumption.
Qed.

Definition item_entry (it : item) : str * str := (fst (fst it), snd (fst it)).

Lemma fold_opt opt : forall acc,
  Forall (fun it : item => is_pad_id (fst (fst it)) = false) opt ->
  NoDup (map fst acc ++ map (fun it => fst (item_entry it)) opt) ->
  fold_left item_step opt acc = acc ++ map item_entry opt.
Proof.
  induction opt as [|[[id data] f] opt IH]; intros acc Hp Hn.
  - cbn. symmetry. apply app_nil_r.
  - inversion Hp as [|? ? Hp1 Hp2]; subst. cbn [fst] in Hp1.
    cbn [fold_left item_step]. rewrite Hp1.
    cbn [map item_entry fst snd] in *.
    assert (Hf : ~ In id (map fst acc)).
    { apply NoDup_remove_2 in Hn. intro X. apply Hn. apply in_or_app. left. assumption. }
    rewrite (dict_set_fresh id data acc Hf).
    rewrite IH; [rewrite <- app_assoc; reflexivity | assumption |].
    rewrite map_app. cbn [map fst]. rewrite <- app_assoc. cbn [app].
    (* NoDup (A ++ id :: B) from NoDup (A ++ id :: B) *) exact Hn.
Qed.

Lemma fold_pads pads : forall acc,
  Forall (fun it : item => is_pad_id (fst (fst it)) = true) pads -> fold_left item_step pads acc = acc.
Proof.
  induction pads as [|[[id data] f] pads IH]; intros acc Hp; [reflexivity|].
  inversion Hp as [|? ? Hp1 Hp2]; subst. cbn [fst] in Hp1. cbn [fold_left item_step]. rewrite Hp1. auto.
Qed.

Lemma forallb_dec4 (p : N -> bool) a b c d : forallb p [a; b; c; d] = true ->
  p a = true /\ p b = true /\ p c = true /\ p d = true.
Proof. cbn [forallb]. rewrite !andb_true_iff. tauto. Qed.

(* Header.load on any legal spelling of the header of h followed by anything *)
Theorem header_load_spec h0 h total_len (opt pads : list item) tail :
  header_ok h -> total_len < 10000 ->
  map item_entry opt = blocks h ->
  Forall item_ok (opt ++ pads) ->
  Forall (fun it : item => is_pad_id (fst (fst it)) = true) pads ->
  (length (opt ++ pads) <= 99)%nat ->
  let hs := spec_header_text (version_id h) (key_usage h) (algorithm h) (mode_of_use h)
              (version_num h) (exportability h) (reserved h) total_len (opt ++ pads) in
  header_load h0 (hs ++ tail) = (h, Ok (length hs)).
Proof.
  destruct h as [v ku alg mou vn ex res bl].
  intros (Hv & (Lku & Aku) & (Lalg & Aalg) & (Lmou & Amou) & (Lvn & Avn) & (Lex & Aex) &
          (Lres & Ares) & Fbl & Nd) Htl Hopt Hok Hpads Hcnt.
  cbn [version_id key_usage algorithm mode_of_use version_num exportability reserved blocks] in *.
  destruct v as [|v0 [|]]; try discriminate Hv.
  destruct ku as [|k1 [|k2 [|]]]; try discriminate Lku.
  destruct alg as [|a1 [|]]; try discriminate Lalg.
  destruct mou as [|m1 [|]]; try discriminate Lmou.
  destruct vn as [|n1 [|n2 [|]]]; try discriminate Lvn.
  destruct ex as [|e1 [|]]; try discriminate Lex.
  destruct res as [|r1 [|r2 [|]]]; try discriminate Lres.
  set (items := opt ++ pads) in *.
  assert (Hcnt' : lenN items < 10 ^ N.of_nat 2) by (unfold lenN; change (10 ^ N.of_nat 2) with 100; lia).
  pose proof (dec_num_length 4 total_len) as L4. pose proof (dec_num_alnum 4 total_len) as A4.
  pose proof (dec_num_length 2 (lenN items)) as L2. pose proof (dec_num_alnum 2 (lenN items)) as A2.
  pose proof (dec_num_numeric 2 (lenN items)) as N2.
  pose proof (int_of_dec_num 2 (lenN items) ltac:(lia) Hcnt') as I2.
  unfold spec_header_text.
  destruct (dec_num 4 total_len) as [|l1 [|l2 [|l3 [|l4 [|]]]]]; try discriminate L4.
  destruct (dec_num 2 (lenN items)) as [|c1 [|c2 [|]]]; try discriminate L2.
  cbn [app].
  assert (Hv0 : is_alnum v0 = true).
  { unfold version_supported, cA, cB, cC, cD in Hv. unfold is_alnum, is_digit, is_upper, is_lower. lia. }
  apply forallb_dec4 in A4 as (X1 & X2 & X3 & X4).
  unfold ascii_alphanumeric in Aku, Aalg, Amou, Avn, Aex, Ares, A2. cbn [forallb] in Aku, Aalg, Amou, Avn, Aex, Ares, A2.
  rewrite ?andb_true_r in Aku, Aalg, Amou, Avn, Aex, Ares, A2.
  apply andb_true_iff in Aku, Avn, Ares, A2.
  unfold header_load, header_load_with.
  cbn [firstn skipn slice length].
  unfold ascii_alphanumeric at 1. cbn [forallb].
  rewrite Hv0, X1, X2, X3, X4, (proj1 Aku), (proj2 Aku), Aalg, Amou,
    (proj1 Avn), (proj2 Avn), Aex, (proj1 A2), (proj2 A2), (proj1 Ares), (proj2 Ares).
  cbn [andb negb Nat.ltb Nat.leb].
  unfold set_field. rewrite Hv.
  cbn [field_len length Nat.eqb negb orb version_id key_usage algorithm mode_of_use version_num
       exportability reserved blocks].
  unfold ascii_alphanumeric. cbn [forallb].
  rewrite (proj1 Aku), (proj2 Aku), Aalg, Amou, (proj1 Avn), (proj2 Avn), Aex.
  cbn [andb negb orb version_id key_usage algorithm mode_of_use version_num
       exportability reserved blocks].
  rewrite N2. cbn [negb]. rewrite I2.
  unfold blocks_load, lenN. rewrite Nat2N.id.
  rewrite (load_items items tail 0%nat [] Hok).
  cbn [bind set_blocks set_reserved version_id key_usage algorithm mode_of_use version_num
       exportability reserved blocks].
  unfold items. rewrite fold_left_app.
  rewrite (fold_pads pads _ Hpads).
  rewrite fold_opt.
  - cbn [app]. rewrite Hopt. reflexivity.
  - rewrite <- Hopt in Fbl. clear - Fbl. induction opt as [|it opt IH]; constructor.
    + inversion Fbl as [|? ? (_ & _ & P & _) _]; subst. exact P.
    + apply IH. inversion Fbl; assumption.
  - cbn [map app]. rewrite <- Hopt in Nd. rewrite map_map in Nd. exact Nd.
Qed.

(* ------------------------------------------------------------------ *)
(* the header text is ASCII                                             *)
Lemma alnum_ascii s : ascii_alphanumeric s = true -> forallb (fun c => c <? 128) s = true.
Proof.
  unfold ascii_alphanumeric. rewrite !forallb_forall. intros Hs x Hx. specialize (Hs x Hx).
  unfold is_alnum, is_digit, is_upper, is_lower in Hs. lia.
Qed.
Lemma printable_ascii s : ascii_printable s = true -> forallb (fun c => c <? 128) s = true.
Proof.
  unfold ascii_printable. rewrite !forallb_forall. intros Hs x Hx. specialize (Hs x Hx).
  unfold is_print in Hs. lia.
Qed.

Lemma item_text_ascii it : item_ok it -> forallb (fun c => c <? 128) (item_text it) = true.
Proof.
  destruct it as [[id data] f]. intros (Lid & Aid & Pd & Lf). unfold item_text, opt_block_text.
  destruct f; rewrite !forallb_app, ?hex_num_ascii, (alnum_ascii _ Aid), (printable_ascii _ Pd); reflexivity.
Qed.

Lemma items_text_ascii items : Forall item_ok items ->
  forallb (fun c => c <? 128) (flat_map item_text items) = true.
Proof.
  induction 1 as [|it items Hit _ IH]; [reflexivity|]. cbn [flat_map]. rewrite forallb_app, IH, item_text_ascii by assumption. reflexivity.
Qed.

Lemma header_premises h total_len (opt pads : list item) tail :
  header_ok h -> map item_entry opt = blocks h ->
  Forall item_ok (opt ++ pads) -> Forall (fun it : item => is_pad_id (fst (fst it)) = true) pads ->
  (length (opt ++ pads) <= 99)%nat ->
  let hs := spec_header_text (version_id h) (key_usage h) (algorithm h) (mode_of_use h)
              (version_num h) (exportability h) (reserved h) total_len (opt ++ pads) in
  let s := hs ++ tail in
  total_len = lenN s -> total_len < 10000 ->
  ascii_str hs /\ header_load default_header s = (h, Ok (length hs)) /\
  int_of_dec (slice 1 4 s) = Ok (lenN s) /\ (16 <= length hs)%nat.
Proof.
  intros Hh Hopt Hok Hpads Hcnt hs s Et Htl.
  pose proof (header_load_spec default_header h total_len opt pads tail Hh Htl Hopt Hok Hpads Hcnt) as HL.
  cbv zeta in HL. fold hs in HL. fold s in HL.
  split; [|split; [exact HL|split]].
  - destruct Hh as (Hv & (Lku & Aku) & (Lalg & Aalg) & (Lmou & Amou) & (Lvn & Avn) & (Lex & Aex) &
          (Lres & Ares) & Fbl & Nd).
    unfold ascii_str, hs, spec_header_text. rewrite !forallb_app.
    rewrite (alnum_ascii _ Aku), (alnum_ascii _ Aalg), (alnum_ascii _ Amou), (alnum_ascii _ Avn),
      (alnum_ascii _ Aex), (alnum_ascii _ Ares), !(alnum_ascii _ (dec_num_alnum _ _)),
      (items_text_ascii _ Hok).
    destruct (version_id h) as [|v0 [|]]; try discriminate Hv. cbn [forallb].
    unfold version_supported, cA, cB, cC, cD in Hv. rewrite !andb_true_r. lia.
  - rewrite <- Et. destruct Hh as (Hv & _).
    unfold s, hs, spec_header_text.
    destruct (version_id h) as [|v0 [|]]; try discriminate Hv.
    cbn [app]. unfold slice. cbn [skipn]. rewrite <- app_assoc.
    rewrite firstn_app_exact by apply dec_num_length.
    apply int_of_dec_num; [lia | assumption].
  - apply header_load_facts in HL. tauto.
Qed.

Section ReverseFull.
  Variables cd ca : cipher.
  Hypothesis H : ciphers_ok cd ca.

  (* C03_reverse, version B: every legal spelling is unwrapped to (h, key) *)
  Theorem reverse_full_b kbpk h key pad (opt pads : list item) total_len et mt :
    bytes_ok kbpk = true -> (length kbpk = 16 \/ length kbpk = 24)%nat ->
    bytes_ok key = true -> bytes_ok pad = true -> 8 * lenN key < 65536 ->
    ((2 + length key + length pad) mod 8 = 0)%nat ->
    header_ok h -> version_id h = [66] -> map item_entry opt = blocks h ->
    Forall item_ok (opt ++ pads) -> Forall (fun it : item => is_pad_id (fst (fst it)) = true) pads ->
    (length (opt ++ pads) <= 99)%nat ->
    let hs := spec_header_text (version_id h) (key_usage h) (algorithm h) (mode_of_use h)
                (version_num h) (exportability h) (reserved h) total_len (opt ++ pads) in
    (length hs mod 8 = 0)%nat ->
    let em := spec_bind_b cd kbpk hs (spec_key_data key pad) in
    bytes_fromhex et = Ok (fst em) -> bytes_fromhex mt = Ok (snd em) -> length mt = 16%nat ->
    let s := hs ++ et ++ mt in
    total_len = lenN s -> total_len < 10000 -> (length s mod 8 = 0)%nat ->
    unwrap cd ca kbpk s = Ok (h, key).
  Proof.
    intros Bk Lk Bkey Bpad Hfit Hmod Hh V Hopt Hok Hpads Hcnt hs Hhs em Eet Emt Lmt s Et Htl Ls.
    destruct (header_premises h total_len opt pads (et ++ mt) Hh Hopt Hok Hpads Hcnt Et Htl)
      as (Ha & HL & EI & _).
    apply (reverse_b cd ca H kbpk hs key pad et mt h); assumption.
  Qed.

  Theorem reverse_full_d kbpk h key pad (opt pads : list item) total_len et mt :
    bytes_ok kbpk = true -> (length kbpk = 16 \/ length kbpk = 24 \/ length kbpk = 32)%nat ->
    bytes_ok key = true -> bytes_ok pad = true -> 8 * lenN key < 65536 ->
    ((2 + length key + length pad) mod 16 = 0)%nat ->
    header_ok h -> version_id h = [68] -> map item_entry opt = blocks h ->
    Forall item_ok (opt ++ pads) -> Forall (fun it : item => is_pad_id (fst (fst it)) = true) pads ->
    (length (opt ++ pads) <= 99)%nat ->
    let hs := spec_header_text (version_id h) (key_usage h) (algorithm h) (mode_of_use h)
                (version_num h) (exportability h) (reserved h) total_len (opt ++ pads) in
    (length hs mod 16 = 0)%nat ->
    let em := spec_bind_d ca kbpk hs (spec_key_data key pad) in
    bytes_fromhex et = Ok (fst em) -> bytes_fromhex mt = Ok (snd em) -> length mt = 32%nat ->
    let s := hs ++ et ++ mt in
    total_len = lenN s -> total_len < 10000 -> (length s mod 16 = 0)%nat ->
    unwrap cd ca kbpk s = Ok (h, key).
  Proof.
    intros Bk Lk Bkey Bpad Hfit Hmod Hh V Hopt Hok Hpads Hcnt hs Hhs em Eet Emt Lmt s Et Htl Ls.
    destruct (header_premises h total_len opt pads (et ++ mt) Hh Hopt Hok Hpads Hcnt Et Htl)
      as (Ha & HL & EI & _).
    apply (reverse_d cd ca H kbpk hs key pad et mt h); assumption.
  Qed.

  Theorem reverse_full_c kbpk h key pad (opt pads : list item) total_len et mt :
    bytes_ok kbpk = true -> (length kbpk = 8 \/ length kbpk = 16 \/ length kbpk = 24)%nat ->
    bytes_ok key = true -> bytes_ok pad = true -> 8 * lenN key < 65536 ->
    ((2 + length key + length pad) mod 8 = 0)%nat ->
    header_ok h -> (version_id h = [65] \/ version_id h = [67]) -> map item_entry opt = blocks h ->
    Forall item_ok (opt ++ pads) -> Forall (fun it : item => is_pad_id (fst (fst it)) = true) pads ->
    (length (opt ++ pads) <= 99)%nat ->
    let hs := spec_header_text (version_id h) (key_usage h) (algorithm h) (mode_of_use h)
                (version_num h) (exportability h) (reserved h) total_len (opt ++ pads) in
    let em := spec_bind_c cd kbpk hs (spec_key_data key pad) in
    bytes_fromhex et = Ok (fst em) -> bytes_fromhex mt = Ok (snd em) -> length mt = 8%nat ->
    let s := hs ++ et ++ mt in
    total_len = lenN s -> total_len < 10000 -> (length s mod 8 = 0)%nat ->
    unwrap cd ca kbpk s = Ok (h, key).
  Proof.
    intros Bk Lk Bkey Bpad Hfit Hmod Hh V Hopt Hok Hpads Hcnt hs em Eet Emt Lmt s Et Htl Ls.
    destruct (header_premises h total_len opt pads (et ++ mt) Hh Hopt Hok Hpads Hcnt Et Htl)
      as (Ha & HL & EI & L16).
    apply (reverse_c cd ca H kbpk hs key pad et mt h); try assumption. unfold hs. lia.
  Qed.
End ReverseFull.

(* ------------------------------------------------------------------ *)
(* forward: Header.dump emits one of the Spec's spellings               *)
Lemma hexdigit_upper_is n : hexdigit_upper n = hex_digit true n.
Proof. reflexivity. Qed.

Lemma hex_upper_1 v : v < 256 -> hex_upper (be_bytes 1 v) = hex_num [true; true] v.
Proof.
  intro Hv. unfold be_bytes, hex_upper. cbn [le_bytes rev app flat_map hex_num].
  change (lenN [true]) with 1. change (lenN (@nil bool)) with 0.
  rewrite N.pow_1_r, N.pow_0_r, N.div_1_r, !hexdigit_upper_is.
  rewrite (N.mod_small v 256) by assumption.
  rewrite (N.mod_small (v / 16) 16) by (apply N.div_lt_upper_bound; lia). reflexivity.
Qed.

Lemma hex_upper_2 v : v < 65536 ->
  hex_upper (be_bytes 2 v) = hex_num [true; true; true; true] v.
Proof.
  intro Hv. unfold be_bytes, hex_upper. cbn [le_bytes rev app flat_map hex_num].
  change (lenN [true; true; true]) with 3. change (lenN [true; true]) with 2.
  change (lenN [true]) with 1. change (lenN (@nil bool)) with 0.
  change (16 ^ 3) with 4096. change (16 ^ 2) with 256. rewrite N.pow_1_r, N.pow_0_r, N.div_1_r.
  rewrite !hexdigit_upper_is.
  replace ((v / 256) mod 256 / 16) with ((v / 4096) mod 16) by lia.
  replace (((v / 256) mod 256) mod 16) with ((v / 256) mod 16) by lia.
  replace (v mod 256 / 16) with ((v / 16) mod 16) by lia.
  replace ((v mod 256) mod 16) with (v mod 16) by lia. reflexivity.
Qed.

Lemma range100 x : x < 100 -> In x (map N.of_nat (seq 0 100)).
Proof. intro H. apply in_map_iff. exists (N.to_nat x). split; [apply N2Nat.id|]. apply in_seq. lia. Qed.

Lemma zfill4_dec n : n < 10000 -> zfill 4 (str_of_N n) = dec_num 4 n.
Proof.
  intro Hn.
  assert (X : forallb (fun a => forallb (fun b =>
                 list_eqb (zfill 4 (str_of_N (100 * a + b))) (dec_num 4 (100 * a + b)))
                 (map N.of_nat (seq 0 100))) (map N.of_nat (seq 0 100)) = true) by (vm_compute; reflexivity).
  rewrite forallb_forall in X.
  assert (Ha : n / 100 < 100) by (apply N.div_lt_upper_bound; lia).
  assert (Hb : n mod 100 < 100) by (apply N.mod_lt; lia).
  specialize (X _ (range100 _ Ha)). rewrite forallb_forall in X. specialize (X _ (range100 _ Hb)).
  apply list_eqb_eq in X. rewrite <- (N.div_mod n 100) in X by lia. exact X.
Qed.

Lemma zfill2_dec n : n < 100 -> zfill 2 (str_of_N n) = dec_num 2 n.
Proof.
  intro Hn.
  assert (X : forallb (fun n => list_eqb (zfill 2 (str_of_N n)) (dec_num 2 n))
                      (map N.of_nat (seq 0 100)) = true) by (vm_compute; reflexivity).
  rewrite forallb_forall in X. apply list_eqb_eq. apply X. apply in_map_iff.
  exists (N.to_nat n). split; [apply N2Nat.id|]. apply in_seq. lia.
Qed.

(* psec's choice of block length form *)
Definition psec_form (data : list N) : len_form :=
  if lenN data + 4 <=? 255 then LenShort [true; true]
  else LenExtended [true; true] 2 [true; true; true; true].
Definition psec_item (e : str * str) : item := (fst e, snd e, psec_form (snd e)).

Lemma dump_items_spec d : forall t, dump_items d = Ok t ->
  t = flat_map item_text (map psec_item d) /\
  Forall (fun e => len_form_legal (snd e) (psec_form (snd e))) d.
Proof.
  induction d as [|[id data] d IH]; intros t E.
  - cbn in E. injection E as <-. split; [reflexivity | constructor].
  - cbn [dump_items] in E. unfold psec_item at 1. cbn [map flat_map fst snd item_text].
    unfold psec_form at 1 3.
    destruct (N.leb_spec (lenN data + 4) 255) as [Hs|Hs].
    + unfold to_bytes_be in E. change (256 ^ N.of_nat 1) with 256 in E.
      destruct (N.ltb_spec (lenN data + 4) 256); [|lia]. cbn [bind] in E.
      destruct (dump_items d) as [t'|] eqn:Ed; cbn [bind] in E; [|discriminate]. injection E as <-.
      destruct (IH t' eq_refl) as [-> F]. split.
      * unfold opt_block_text.
        change (id ++ hex_upper (be_bytes 1 (lenN data + 4)) ++ data ++ flat_map item_text (map psec_item d)
                = (id ++ hex_num [true; true] (4 + lenN data) ++ data) ++ flat_map item_text (map psec_item d)).
        rewrite hex_upper_1 by lia. rewrite (N.add_comm (lenN data) 4).
        rewrite <- !app_assoc. reflexivity.
      * constructor; [|assumption]. cbn [snd]. unfold psec_form.
        destruct (N.leb_spec (lenN data + 4) 255); [|lia]. cbn [len_form_legal]. split; [reflexivity|lia].
    + unfold to_bytes_be in E. change (256 ^ N.of_nat 2) with 65536 in E.
      destruct (N.ltb_spec (lenN data + 10) 65536) as [Hf|]; [|discriminate]. cbn [bind] in E.
      destruct (dump_items d) as [t'|] eqn:Ed; cbn [bind] in E; [|discriminate]. injection E as <-.
      destruct (IH t' eq_refl) as [-> F]. split.
      * unfold opt_block_text.
        change (id ++ ([c0; c0; c0; 50] ++ hex_upper (be_bytes 2 (lenN data + 10))) ++ data
                   ++ flat_map item_text (map psec_item d)
                = (id ++ [48; 48] ++ hex_num [true; true] 2 ++
                   hex_num [true; true; true; true] (6 + 2 * 2 + lenN data) ++ data)
                  ++ flat_map item_text (map psec_item d)).
        rewrite hex_upper_2 by lia.
        replace (6 + 2 * 2 + lenN data) with (lenN data + 10) by lia.
        rewrite <- !app_assoc. reflexivity.
      * constructor; [|assumption]. cbn [snd]. unfold psec_form.
        destruct (N.leb_spec (lenN data + 4) 255); [lia|]. cbn [len_form_legal].
        change (16 ^ (2 * 2)) with 65536. change (N.to_nat (2 * 2)) with 4%nat.
        repeat split; try reflexivity; lia.
Qed.

Definition psec_pad_item (pad_num : nat) : item :=
  ([cP; cB], repeat c0 pad_num, LenShort [true; true]).

Lemma Ok_pair_inv {A B} (a a' : A) (b b' : B) : @Ok (A * B) (a, b) = Ok (a', b') -> a = a' /\ b = b'.
Proof. intro E. injection E as -> ->. auto. Qed.

Lemma blocks_dump_spec abs d n t : (abs = 8 \/ abs = 16)%nat -> blocks_dump abs d = Ok (n, t) ->
  exists pads : list item,
    t = flat_map item_text (map psec_item d ++ pads) /\ n = length (map psec_item d ++ pads) /\
    (n <= 99)%nat /\ ((16 + length t) mod abs = 0)%nat /\
    Forall (fun e => len_form_legal (snd e) (psec_form (snd e))) d /\
    Forall item_ok pads /\ Forall (fun it : item => is_pad_id (fst (fst it)) = true) pads.
Proof.
  intros Habs E. unfold blocks_dump in E.
  destruct (dump_items d) as [bl|] eqn:Ed; cbn [bind] in E; [|discriminate].
  destruct (dump_items_spec d bl Ed) as [Ebl F].
  destruct (Nat.eqb_spec (length bl mod abs) 0) as [Hm|Hm]; cbv beta iota zeta delta [negb bind] in E.
  - destruct (Nat.ltb_spec 99 (length d + 0)); [discriminate|]. injection E as <- <-.
    exists []. rewrite !app_nil_r, map_length. repeat split; try assumption; try constructor; try lia.
  - set (pad_num := (abs - (length bl + 4) mod abs)%nat) in *.
    assert (Hp : (pad_num <= 16)%nat) by (unfold pad_num; destruct Habs; subst abs; lia).
    unfold to_bytes_be in E. change (256 ^ N.of_nat 1) with 256 in E.
    destruct (N.ltb_spec (N.of_nat (4 + pad_num)) 256); [|lia]. cbv beta iota delta [bind] in E.
    destruct (Nat.ltb_spec 99 (length d + 1)); [discriminate|]. apply Ok_pair_inv in E as [<- <-].
    exists [psec_pad_item pad_num].
    assert (Lr : lenN (repeat c0 pad_num) = N.of_nat pad_num) by (unfold lenN; rewrite repeat_length; reflexivity).
    repeat split.
    + rewrite flat_map_app, <- Ebl. f_equal. cbn [flat_map item_text psec_pad_item opt_block_text].
      rewrite app_nil_r, Lr, hex_upper_1 by lia. replace (N.of_nat (4 + pad_num)) with (4 + N.of_nat pad_num) by lia.
      reflexivity.
    + rewrite app_length, map_length. reflexivity.
    + lia.
    + rewrite !app_length, hex_upper_length, be_bytes_length, repeat_length. cbn [length].
      unfold pad_num. destruct Habs; subst abs; lia.
    + assumption.
    + constructor; [|constructor]. unfold item_ok, psec_pad_item. repeat split.
      * unfold ascii_printable. apply forallb_forall. intros x Hx. apply repeat_spec in Hx. subst. reflexivity.
      * rewrite Lr. lia.
    + constructor; [reflexivity | constructor].
Qed.

Lemma header_text_ascii h total_len items : header_ok h -> Forall item_ok items ->
  ascii_str (spec_header_text (version_id h) (key_usage h) (algorithm h) (mode_of_use h)
              (version_num h) (exportability h) (reserved h) total_len items).
Proof.
  intros Hh Hok.
  destruct Hh as (Hv & (Lku & Aku) & (Lalg & Aalg) & (Lmou & Amou) & (Lvn & Avn) & (Lex & Aex) &
          (Lres & Ares) & Fbl & Nd).
  unfold ascii_str, spec_header_text. rewrite !forallb_app.
  rewrite (alnum_ascii _ Aku), (alnum_ascii _ Aalg), (alnum_ascii _ Amou), (alnum_ascii _ Avn),
    (alnum_ascii _ Aex), (alnum_ascii _ Ares), !(alnum_ascii _ (dec_num_alnum _ _)),
    (items_text_ascii _ Hok).
  destruct (version_id h) as [|v0 [|]]; try discriminate Hv. cbn [forallb].
  unfold version_supported, cA, cB, cC, cD in Hv. rewrite !andb_true_r. lia.
Qed.

Lemma header_text_len h total_len items : header_ok h ->
  length (spec_header_text (version_id h) (key_usage h) (algorithm h) (mode_of_use h)
            (version_num h) (exportability h) (reserved h) total_len items)
  = (16 + length (flat_map item_text items))%nat.
Proof.
  intros (Hv & (Lku & _) & (Lalg & _) & (Lmou & _) & (Lvn & _) & (Lex & _) & (Lres & _) & _).
  unfold spec_header_text. rewrite !app_length, !dec_num_length, Lku, Lalg, Lmou, Lvn, Lex, Lres.
  destruct (version_id h) as [|v0 [|]]; try discriminate Hv. cbn [length]. lia.
Qed.

Lemma psec_items_ok d : Forall block_entry_ok d ->
  Forall (fun e => len_form_legal (snd e) (psec_form (snd e))) d ->
  Forall item_ok (map psec_item d) /\ map item_entry (map psec_item d) = d.
Proof.
  induction d as [|[id data] d IH]; intros F1 F2; [split; [constructor|reflexivity]|].
  inversion F1 as [|? ? (A & B & C & D) F1']; subst. inversion F2 as [|? ? L F2']; subst.
  destruct (IH F1' F2') as [I1 I2]. cbn [fst snd] in *. split.
  - cbn [map]. constructor; [|assumption]. unfold psec_item, item_ok. cbn [fst snd]. auto.
  - cbn [map]. rewrite I2. reflexivity.
Qed.

(* Header.dump emits the Spec's header text under psec's choices (short form
   up to 255, else "0002" + 4 digits; upper-case hex; a pad block "PB" of '0's
   exactly when needed), with the right count, a block-multiple length and the
   length field it was asked to write *)
Theorem header_dump_spec h klen hs : header_ok h -> header_dump h klen = Ok hs ->
  exists abs ml total_len (pads : list item),
    algo_block_size (version_id h) = Ok abs /\ (abs = 8 \/ abs = 16)%nat /\
    key_block_mac_len (version_id h) = Ok ml /\
    total_len = lenN hs + 4 + 2 * klen + 2 * (N.of_nat abs - (2 + klen) mod N.of_nat abs)
                + 2 * N.of_nat ml /\
    total_len < 10000 /\
    hs = spec_header_text (version_id h) (key_usage h) (algorithm h) (mode_of_use h)
           (version_num h) (exportability h) (reserved h) total_len (map psec_item (blocks h) ++ pads) /\
    Forall item_ok (map psec_item (blocks h) ++ pads) /\
    map item_entry (map psec_item (blocks h)) = blocks h /\
    Forall (fun it : item => is_pad_id (fst (fst it)) = true) pads /\
    (length (map psec_item (blocks h) ++ pads) <= 99)%nat /\
    (length hs mod abs = 0)%nat.
Proof.
  intros Hh E. pose proof Hh as (Hv & _ & _ & _ & _ & _ & _ & Fbl & Nd).
  unfold header_dump in E.
  assert (Hver : exists abs ml, algo_block_size (version_id h) = Ok abs /\
            key_block_mac_len (version_id h) = Ok ml /\ (abs = 8 \/ abs = 16)%nat).
  { apply version_supported_cases in Hv. destruct Hv as [-> | [-> | [-> | ->]]]; cbn; eauto 10. }
  destruct Hver as (abs & ml & EA & EM & Habs). rewrite EA, EM in E. cbn [bind] in E.
  destruct (blocks_dump abs (blocks h)) as [[n t]|] eqn:EB; cbn [bind] in E; [|discriminate].
  destruct (blocks_dump_spec abs (blocks h) n t Habs EB) as (pads & Et & En & Hn & Hmod & F & Pok & Ppad).
  destruct (psec_items_ok (blocks h) Fbl F) as [Iok Ient].
  set (items := map psec_item (blocks h) ++ pads) in *.
  match type of E with (if 9999 <? ?k then _ else _) = _ => set (kb_len := k) in * end.
  destruct (N.ltb_spec 9999 kb_len) as [|Hk]; [discriminate|]. apply Ok_inv in E.
  assert (Iall : Forall item_ok items) by (apply Forall_app; auto).
  assert (Ehs : hs = spec_header_text (version_id h) (key_usage h) (algorithm h) (mode_of_use h)
           (version_num h) (exportability h) (reserved h) kb_len items).
  { rewrite <- E. unfold header_text, spec_header_text.
    rewrite zfill4_dec by lia. rewrite zfill2_dec by lia.
    rewrite En, Et. unfold lenN. reflexivity. }
  assert (Lhs : length hs = (16 + length t)%nat).
  { rewrite Ehs, header_text_len by assumption. rewrite Et. reflexivity. }
  exists abs, ml, kb_len, pads. repeat split; try assumption.
  - unfold kb_len, lenN. rewrite Lhs. lia.
  - lia.
  - fold items. rewrite <- En. assumption.
  - rewrite Lhs. assumption.
Qed.

Lemma masked_len_ge h key mask : lenN key <= masked_len h key mask.
Proof. unfold masked_len. destruct mask; lia. Qed.

Section Forward.
  Variables cd ca : cipher.
  Hypothesis H : ciphers_ok cd ca.

  (* C03_forward, version B: the block KeyBlock.wrap emits is a legal spelling *)
  Theorem forward_b kbpk h key mask tape s :
    header_ok h -> version_id h = [66] ->
    bytes_ok kbpk = true -> bytes_ok key = true -> bytes_ok tape = true ->
    kb_wrap cd ca kbpk h key mask tape = Ok s ->
    exists total_len (pads : list item),
      let items := map psec_item (blocks h) ++ pads in
      let hs := spec_header_text (version_id h) (key_usage h) (algorithm h) (mode_of_use h)
                  (version_num h) (exportability h) (reserved h) total_len items in
      Forall item_ok items /\ map item_entry (map psec_item (blocks h)) = blocks h /\
      Forall (fun it : item => is_pad_id (fst (fst it)) = true) pads /\
      (length items <= 99)%nat /\ (length hs mod 8 = 0)%nat /\
      s = spec_block_text hs (spec_bind_b cd kbpk hs (spec_key_data key tape)) /\
      total_len = lenN s /\ total_len < 10000 /\
      ((2 + length key + length tape) mod 8 = 0)%nat /\ (length s mod 8 = 0)%nat.
  Proof.
    intros Hh V Bk Bkey Btape. unfold kb_wrap. rewrite V. cbn [wrap_dispatch bind].
    rewrite <- V.
    destruct (header_dump h (masked_len h key mask)) as [hs0|] eqn:EH; cbn [bind]; [|discriminate].
    intro EW.
    destruct (header_dump_spec h _ hs0 Hh EH)
      as (abs & ml & T & pads & EA & Habs & EM & ET & HT & Ehs & Iok & Ient & Ppad & Hcnt & Hmod).
    rewrite V in EA, EM. cbn in EA, EM. apply Ok_inv in EA. apply Ok_inv in EM. subst abs ml.
    assert (Ha : ascii_str hs0) by (rewrite Ehs; apply header_text_ascii; assumption).
    destruct (wrap_b cd ca H kbpk hs0 key _ tape s Bk Bkey Btape Ha Hmod EW) as (Es & Lt & Ls).
    pose proof (masked_len_ge h key mask) as Hge. unfold lenN in Hge, ET.
    exists T, pads. cbv zeta. rewrite <- Ehs.
    repeat split; try assumption.
    - unfold lenN. lia.
    - lia.
    - lia.
  Qed.

  Theorem forward_d kbpk h key mask tape s :
    header_ok h -> version_id h = [68] ->
    bytes_ok kbpk = true -> bytes_ok key = true -> bytes_ok tape = true ->
    kb_wrap cd ca kbpk h key mask tape = Ok s ->
    exists total_len (pads : list item),
      let items := map psec_item (blocks h) ++ pads in
      let hs := spec_header_text (version_id h) (key_usage h) (algorithm h) (mode_of_use h)
                  (version_num h) (exportability h) (reserved h) total_len items in
      Forall item_ok items /\ map item_entry (map psec_item (blocks h)) = blocks h /\
      Forall (fun it : item => is_pad_id (fst (fst it)) = true) pads /\
      (length items <= 99)%nat /\ (length hs mod 16 = 0)%nat /\
      s = spec_block_text hs (spec_bind_d ca kbpk hs (spec_key_data key tape)) /\
      total_len = lenN s /\ total_len < 10000 /\
      ((2 + length key + length tape) mod 16 = 0)%nat /\ (length s mod 16 = 0)%nat.
  Proof.
    intros Hh V Bk Bkey Btape. unfold kb_wrap. rewrite V. cbn [wrap_dispatch bind].
    rewrite <- V.
    destruct (header_dump h (masked_len h key mask)) as [hs0|] eqn:EH; cbn [bind]; [|discriminate].
    intro EW.
    destruct (header_dump_spec h _ hs0 Hh EH)
      as (abs & ml & T & pads & EA & Habs & EM & ET & HT & Ehs & Iok & Ient & Ppad & Hcnt & Hmod).
    rewrite V in EA, EM. cbn in EA, EM. apply Ok_inv in EA. apply Ok_inv in EM. subst abs ml.
    assert (Ha : ascii_str hs0) by (rewrite Ehs; apply header_text_ascii; assumption).
    destruct (wrap_d cd ca H kbpk hs0 key _ tape s Bk Bkey Btape Ha Hmod EW) as (Es & Lt & Ls).
    pose proof (masked_len_ge h key mask) as Hge. unfold lenN in Hge, ET.
    exists T, pads. cbv zeta. rewrite <- Ehs.
    repeat split; try assumption.
    - unfold lenN. lia.
    - lia.
    - lia.
  Qed.

  Theorem forward_c kbpk h key mask tape s :
    header_ok h -> (version_id h = [65] \/ version_id h = [67]) ->
    bytes_ok kbpk = true -> bytes_ok key = true -> bytes_ok tape = true ->
    kb_wrap cd ca kbpk h key mask tape = Ok s ->
    exists total_len (pads : list item),
      let items := map psec_item (blocks h) ++ pads in
      let hs := spec_header_text (version_id h) (key_usage h) (algorithm h) (mode_of_use h)
                  (version_num h) (exportability h) (reserved h) total_len items in
      Forall item_ok items /\ map item_entry (map psec_item (blocks h)) = blocks h /\
      Forall (fun it : item => is_pad_id (fst (fst it)) = true) pads /\
      (length items <= 99)%nat /\ (length hs mod 8 = 0)%nat /\
      s = spec_block_text hs (spec_bind_c cd kbpk hs (spec_key_data key tape)) /\
      total_len = lenN s /\ total_len < 10000 /\
      ((2 + length key + length tape) mod 8 = 0)%nat /\ (length s mod 8 = 0)%nat.
  Proof.
    intros Hh V Bk Bkey Btape. unfold kb_wrap.
    assert (EWD : wrap_dispatch cd ca (version_id h) = Ok (c_wrap cd ca)) by (destruct V as [-> | ->]; reflexivity).
    rewrite EWD. cbn [bind].
    destruct (header_dump h (masked_len h key mask)) as [hs0|] eqn:EH; cbn [bind]; [|discriminate].
    intro EW.
    destruct (header_dump_spec h _ hs0 Hh EH)
      as (abs & ml & T & pads & EA & Habs & EM & ET & HT & Ehs & Iok & Ient & Ppad & Hcnt & Hmod).
    assert (abs = 8%nat /\ ml = 4%nat) as [-> ->].
    { destruct V as [V | V]; rewrite V in EA, EM; cbn in EA, EM; apply Ok_inv in EA; apply Ok_inv in EM; auto. }
    assert (Ha : ascii_str hs0) by (rewrite Ehs; apply header_text_ascii; assumption).
    assert (L8 : (8 <= length hs0)%nat).
    { rewrite Ehs, header_text_len by assumption. lia. }
    destruct (wrap_c cd ca H kbpk hs0 key _ tape s Bk Bkey Btape Ha L8 EW) as (Es & Lt & Ls).
    pose proof (masked_len_ge h key mask) as Hge. unfold lenN in Hge, ET.
    exists T, pads. cbv zeta. rewrite <- Ehs.
    repeat split; try assumption.
    - unfold lenN. lia.
    - lia.
    - lia.
  Qed.
End Forward.

(* ------------------------------------------------------------------ *)
(* the Spec's own round trip: what it binds, it opens                   *)
Lemma list_eqb_refl a : list_eqb a a = true.
Proof. apply list_eqb_eq. reflexivity. Qed.

Lemma spec_key_of_data key pad : 8 * lenN key < 65536 -> spec_key_of (spec_key_data key pad) = key.
Proof.
  intro Hl. unfold spec_key_of, spec_key_data.
  assert (L2 : length (be_bytes 2 (8 * lenN key)) = 2%nat) by apply be_bytes_length.
  rewrite (firstn_app_exact _ _ 2 L2), (skipn_app_exact _ _ 2 L2).
  rewrite be_int_be_bytes by (change (256 ^ N.of_nat 2) with 65536; exact Hl).
  replace (8 * lenN key / 8) with (lenN key) by lia. unfold lenN. rewrite Nat2N.id.
  apply firstn_app_exact. reflexivity.
Qed.

Section SpecRoundTrip.
  Variables cd ca : cipher.
  Hypothesis H : ciphers_ok cd ca.

  Theorem spec_roundtrip_b kbpk hs clear :
    bytes_ok kbpk = true -> (length kbpk = 16 \/ length kbpk = 24)%nat ->
    ascii_str hs -> bytes_ok clear = true -> (8 <= length clear)%nat -> (length clear mod 8 = 0)%nat ->
    spec_open_b cd kbpk hs (fst (spec_bind_b cd kbpk hs clear)) (snd (spec_bind_b cd kbpk hs clear))
    = Some clear.
  Proof.
    intros Bk Lk Ha Bc L8 M8. pose proof (cd_ok cd ca H) as Hcd.
    destruct (kdf_b_keys cd ca H kbpk Bk Lk) as (Le & La & Be & Ba).
    unfold spec_open_b, spec_bind_b. destruct (spec_kdf_b cd kbpk) as [kbek kbak]. cbn [fst snd] in *.
    assert (Vke : valid_key cd kbek = true) by (apply (tdes_len_valid cd ca H); rewrite Le; tauto).
    assert (Vka : valid_key cd kbak = true) by (apply (tdes_len_valid cd ca H); rewrite La; tauto).
    assert (Hm : block_ok cd (spec_mac_b cd kbak hs clear)).
    { apply cmac_block; try assumption. apply bytes_ok_app. split; [apply (ascii_encode hs Ha) | assumption]. }
    rewrite (decrypt_encrypt cd Hcd kbek Vke _ clear Hm Bc) by (rewrite (cd_bs cd ca H); assumption).
    rewrite list_eqb_refl. reflexivity.
  Qed.

  Theorem spec_roundtrip_d kbpk hs clear :
    bytes_ok kbpk = true -> (length kbpk = 16 \/ length kbpk = 24 \/ length kbpk = 32)%nat ->
    ascii_str hs -> bytes_ok clear = true -> (16 <= length clear)%nat -> (length clear mod 16 = 0)%nat ->
    spec_open_d ca kbpk hs (fst (spec_bind_d ca kbpk hs clear)) (snd (spec_bind_d ca kbpk hs clear))
    = Some clear.
  Proof.
    intros Bk Lk Ha Bc L8 M8. pose proof (ca_ok cd ca H) as Hca.
    destruct (kdf_d_keys cd ca H kbpk Bk Lk) as (Le & La & Be & Ba).
    unfold spec_open_d, spec_bind_d. destruct (spec_kdf_d ca kbpk) as [kbek kbak]. cbn [fst snd] in *.
    assert (Vke : valid_key ca kbek = true) by (apply (aes_len_valid cd ca H); rewrite Le; tauto).
    assert (Vka : valid_key ca kbak = true) by (apply (aes_len_valid cd ca H); rewrite La; tauto).
    assert (Hm : block_ok ca (spec_mac_d ca kbak hs clear)).
    { apply cmac_block; try assumption. apply bytes_ok_app. split; [apply (ascii_encode hs Ha) | assumption]. }
    rewrite (decrypt_encrypt ca Hca kbek Vke _ clear Hm Bc) by (rewrite (ca_bs cd ca H); assumption).
    rewrite list_eqb_refl. reflexivity.
  Qed.

  Theorem spec_roundtrip_c kbpk hs clear :
    bytes_ok kbpk = true -> (length kbpk = 8 \/ length kbpk = 16 \/ length kbpk = 24)%nat ->
    ascii_str hs -> (8 <= length hs)%nat ->
    bytes_ok clear = true -> (8 <= length clear)%nat -> (length clear mod 8 = 0)%nat ->
    spec_open_c cd kbpk hs (fst (spec_bind_c cd kbpk hs clear)) (snd (spec_bind_c cd kbpk hs clear))
    = Some clear.
  Proof.
    intros Bk Lk Ha Lh Bc L8 M8. pose proof (cd_ok cd ca H) as Hcd.
    destruct (variant_keys kbpk Bk) as (Le & La & Be & Ba).
    unfold spec_open_c, spec_bind_c. destruct (spec_variant kbpk) as [kbek kbak]. cbn [fst snd] in *.
    assert (Vke : valid_key cd kbek = true) by (apply (tdes_len_valid cd ca H); rewrite Le; tauto).
    destruct (ascii_encode hs Ha) as [_ Bh].
    assert (Hiv : block_ok cd (firstn 8 hs)).
    { split; [rewrite firstn_length, (cd_bs cd ca H); lia | apply bytes_ok_firstn; assumption]. }
    rewrite list_eqb_refl.
    rewrite (decrypt_encrypt cd Hcd kbek Vke _ clear Hiv Bc) by (rewrite (cd_bs cd ca H); assumption).
    reflexivity.
  Qed.
End SpecRoundTrip.
