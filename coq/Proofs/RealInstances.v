(* The executable instances the correspondence harness runs (extracted from
   [real_tdes] and [real_aes_n]) are lawful ciphers (Cipher/DESok.v, AESok.v,
   RealOk.v), so every theorem quantified over lawful ciphers applies to the
   very model that is executed against /repo.  A few headline instances: *)
From Psec Require Import Lib.Base Cipher.Cipher Cipher.DES Cipher.AES Cipher.AESok Cipher.RealOk
  Model.Tools Model.Mac Model.Tr31 Proofs.Tr31Defs Proofs.Tr31RoundTrip Proofs.CipherLemmas Proofs.Tr31Safety.

Theorem executed_ciphers_lawful : ciphers_ok real_tdes real_aes_n.
Proof. exact real_ciphers_n_ok. Qed.
Print Assumptions executed_ciphers_lawful.

(* TR-31 round trip for the executed model *)
Theorem roundtrip_executed : forall kbpk h key mask tape s,
  header_ok h -> bytes_ok kbpk = true -> bytes_ok key = true -> bytes_ok tape = true ->
  kb_wrap real_tdes real_aes_n kbpk h key mask tape = Ok s ->
  unwrap real_tdes real_aes_n kbpk s = Ok (h, key).
Proof. exact (roundtrip real_tdes real_aes_n real_ciphers_n_ok). Qed.
Print Assumptions roundtrip_executed.
