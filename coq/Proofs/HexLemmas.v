(* General lemmas about hexadecimal text (Lib/Base.v: hexdigit_upper/lower,
   unhex_digit, hex_upper, hex_lower, a2b_hex, int_of_hex) through a nibble view:
   a byte string is the list of its 4-bit halves, high half first. *)
From Coq Require Import Lia ZifyBool ZifyNat ZifyN.
From Psec Require Import Lib.Base Proofs.XorLemmas.
Ltac Zify.zify_post_hook ::= Z.to_euclidean_division_equations.
Open Scope N_scope.

(* ------------------------------------------------------------------ *)
(* nibbles                                                              *)
Definition nibble_ok (n : N) : bool := n <? 16.
Definition nibbles_ok (l : list N) : bool := forallb nibble_ok l.

(* two nibbles per byte, high nibble first *)
Definition nibbles_of_bytes (b : list N) : list N :=
  flat_map (fun x => [x / 16; x mod 16]) b.

Fixpoint bytes_of_nibbles (ns : list N) : list N :=
  match ns with
  | h :: l :: r => 16 * h + l :: bytes_of_nibbles r
  | _ => []
  end.

Lemma map_repeat {A B} (f : A -> B) x k : map f (repeat x k) = repeat (f x) k.
Proof. induction k; cbn [repeat map]; [reflexivity | f_equal; assumption]. Qed.

(* induction two elements at a time *)
Lemma list_pair_ind {A} (P : list A -> Prop) :
  P [] -> (forall a, P [a]) -> (forall a b l, P l -> P (a :: b :: l)) -> forall l, P l.
Proof.
  intros H0 H1 H2. fix IH 1.
  intros [|a [|b l]]; [exact H0 | exact (H1 a) | exact (H2 a b l (IH l))].
Qed.

(* finite sweeps: a boolean property checked on 0..15 / 0..255 holds below the bound *)
Definition nibble_range : list N := map N.of_nat (seq 0 16).
Definition byte_range : list N := map N.of_nat (seq 0 256).

Lemma in_nibble_range n : n < 16 -> In n nibble_range.
Proof.
  intros H. unfold nibble_range. apply in_map_iff. exists (N.to_nat n). split; [apply N2Nat.id|].
  apply in_seq. lia.
Qed.

Lemma in_byte_range n : n < 256 -> In n byte_range.
Proof.
  intros H. unfold byte_range. apply in_map_iff. exists (N.to_nat n). split; [apply N2Nat.id|].
  apply in_seq. lia.
Qed.

Lemma nibble_sweep (P : N -> bool) : forallb P nibble_range = true -> forall n, n < 16 -> P n = true.
Proof. intros H n Hn. rewrite forallb_forall in H. apply H. apply in_nibble_range. assumption. Qed.

Lemma byte_sweep (P : N -> bool) : forallb P byte_range = true -> forall n, n < 256 -> P n = true.
Proof. intros H n Hn. rewrite forallb_forall in H. apply H. apply in_byte_range. assumption. Qed.

Lemma nibble_sweep2 (P : N -> N -> bool) :
  forallb (fun a => forallb (P a) nibble_range) nibble_range = true ->
  forall a b, a < 16 -> b < 16 -> P a b = true.
Proof.
  intros H a b Ha Hb. apply (nibble_sweep (P a)); [|assumption].
  apply (nibble_sweep (fun a => forallb (P a) nibble_range)); assumption.
Qed.

Lemma nibbles_ok_cons a l : nibbles_ok (a :: l) = true <-> a < 16 /\ nibbles_ok l = true.
Proof. unfold nibbles_ok, nibble_ok. cbn [forallb]. rewrite andb_true_iff, N.ltb_lt. reflexivity. Qed.

Lemma nibbles_ok_app a b : nibbles_ok (a ++ b) = true <-> nibbles_ok a = true /\ nibbles_ok b = true.
Proof. unfold nibbles_ok. rewrite forallb_app, andb_true_iff. reflexivity. Qed.

Lemma nibbles_ok_Forall l : nibbles_ok l = true <-> Forall (fun n => n < 16) l.
Proof.
  unfold nibbles_ok, nibble_ok. rewrite forallb_forall, Forall_forall.
  split; intros H x Hx; specialize (H x Hx); lia.
Qed.

Lemma nibbles_ok_In l n : nibbles_ok l = true -> In n l -> n < 16.
Proof. intros H Hn. apply nibbles_ok_Forall in H. rewrite Forall_forall in H. auto. Qed.

Lemma nibbles_ok_repeat n k : n < 16 -> nibbles_ok (repeat n k) = true.
Proof. intros Hn. induction k; cbn [repeat]; [reflexivity|]. apply nibbles_ok_cons. auto. Qed.

Lemma nibbles_ok_firstn k l : nibbles_ok l = true -> nibbles_ok (firstn k l) = true.
Proof.
  revert k. induction l as [|a l IH]; intros [|k] H; cbn [firstn]; try reflexivity.
  apply nibbles_ok_cons in H as [Ha Hl]. apply nibbles_ok_cons. auto.
Qed.

Lemma nibbles_ok_skipn k l : nibbles_ok l = true -> nibbles_ok (skipn k l) = true.
Proof.
  revert k. induction l as [|a l IH]; intros [|k] H; cbn [skipn]; auto.
  apply nibbles_ok_cons in H as [Ha Hl]. auto.
Qed.

Lemma nibbles_ok_nth l i : nibbles_ok l = true -> nth i l 0 < 16.
Proof.
  intros H. destruct (Nat.ltb_spec i (length l)).
  - apply (nibbles_ok_In l); [assumption|]. apply nth_In. assumption.
  - rewrite nth_overflow by assumption. lia.
Qed.

Lemma nibbles_ok_xor_pos a b : nibbles_ok a = true -> nibbles_ok b = true ->
  nibbles_ok (xor_pos a b) = true.
Proof.
  revert b. induction a as [|x a IH]; intros [|y b] Ha Hb; cbn [xor_pos]; auto.
  apply nibbles_ok_cons in Ha as [Hx Ha]. apply nibbles_ok_cons in Hb as [Hy Hb].
  apply nibbles_ok_cons. split; [|auto].
  assert (E : (N.lxor x y <? 16) = true); [|lia].
  apply (nibble_sweep2 (fun x y => N.lxor x y <? 16)); [vm_compute; reflexivity | assumption | assumption].
Qed.

(* ------------------------------------------------------------------ *)
(* bytes <-> nibbles                                                    *)
Lemma nibbles_of_bytes_cons x b : nibbles_of_bytes (x :: b) = x / 16 :: x mod 16 :: nibbles_of_bytes b.
Proof. reflexivity. Qed.

Lemma nibbles_of_bytes_app a b : nibbles_of_bytes (a ++ b) = nibbles_of_bytes a ++ nibbles_of_bytes b.
Proof. unfold nibbles_of_bytes. apply flat_map_app. Qed.

Lemma nibbles_of_bytes_length b : length (nibbles_of_bytes b) = (2 * length b)%nat.
Proof. induction b as [|x b IH]; [reflexivity|]. rewrite nibbles_of_bytes_cons. cbn [length]. lia. Qed.

Lemma nibbles_of_bytes_ok b : bytes_ok b = true -> nibbles_ok (nibbles_of_bytes b) = true.
Proof.
  induction b as [|x b IH]; intro H; [reflexivity|].
  apply bytes_ok_cons in H as [Hx Hb]. rewrite nibbles_of_bytes_cons.
  apply nibbles_ok_cons. split; [lia|]. apply nibbles_ok_cons. split; [lia|auto].
Qed.

Lemma nibbles_of_small_byte x : x < 16 -> nibbles_of_bytes [x] = [0; x].
Proof.
  intros H. cbn [nibbles_of_bytes flat_map app]. f_equal; [lia|]. f_equal. lia.
Qed.

Lemma bytes_of_nibbles_cons2 h l r : bytes_of_nibbles (h :: l :: r) = 16 * h + l :: bytes_of_nibbles r.
Proof. reflexivity. Qed.

Lemma bytes_of_nibbles_app a b : Nat.even (length a) = true ->
  bytes_of_nibbles (a ++ b) = bytes_of_nibbles a ++ bytes_of_nibbles b.
Proof.
  revert a. apply (list_pair_ind (fun a => Nat.even (length a) = true ->
    bytes_of_nibbles (a ++ b) = bytes_of_nibbles a ++ bytes_of_nibbles b)).
  - reflexivity.
  - intros a H. discriminate H.
  - intros x y l IH H. cbn [length Nat.even] in H. cbn [app]. rewrite !bytes_of_nibbles_cons2.
    cbn [app]. f_equal. auto.
Qed.

Lemma bytes_of_nibbles_length ns : length (bytes_of_nibbles ns) = (length ns / 2)%nat.
Proof.
  revert ns. apply list_pair_ind; try reflexivity.
  intros a b l IH. rewrite bytes_of_nibbles_cons2. cbn [length]. rewrite IH.
  change (S (S (length l))) with (2 + length l)%nat. lia.
Qed.

Lemma bytes_of_nibbles_ok ns : nibbles_ok ns = true -> bytes_ok (bytes_of_nibbles ns) = true.
Proof.
  revert ns. apply (list_pair_ind (fun ns => nibbles_ok ns = true -> bytes_ok (bytes_of_nibbles ns) = true));
    try reflexivity.
  intros a b l IH H. apply nibbles_ok_cons in H as [Ha H]. apply nibbles_ok_cons in H as [Hb H].
  rewrite bytes_of_nibbles_cons2. apply bytes_ok_cons. split; [lia|auto].
Qed.

Lemma bytes_of_nibbles_of_bytes b : bytes_of_nibbles (nibbles_of_bytes b) = b.
Proof.
  induction b as [|x b IH]; [reflexivity|].
  rewrite nibbles_of_bytes_cons, bytes_of_nibbles_cons2, IH. f_equal. lia.
Qed.

Lemma nibbles_of_bytes_of_nibbles ns : nibbles_ok ns = true -> Nat.even (length ns) = true ->
  nibbles_of_bytes (bytes_of_nibbles ns) = ns.
Proof.
  revert ns. apply (list_pair_ind (fun ns => nibbles_ok ns = true -> Nat.even (length ns) = true ->
    nibbles_of_bytes (bytes_of_nibbles ns) = ns)).
  - reflexivity.
  - intros a _ H. discriminate H.
  - intros a b l IH H E. apply nibbles_ok_cons in H as [Ha H]. apply nibbles_ok_cons in H as [Hb H].
    cbn [length Nat.even] in E.
    rewrite bytes_of_nibbles_cons2, nibbles_of_bytes_cons, IH by assumption.
    f_equal; [lia|]. f_equal. lia.
Qed.

Lemma nibbles_of_bytes_inj a b : nibbles_of_bytes a = nibbles_of_bytes b -> a = b.
Proof.
  intros H. rewrite <- (bytes_of_nibbles_of_bytes a), <- (bytes_of_nibbles_of_bytes b), H. reflexivity.
Qed.

Lemma even_length_nibbles_of_bytes b : Nat.even (length (nibbles_of_bytes b)) = true.
Proof. rewrite nibbles_of_bytes_length. induction (length b) as [|n IH]; [reflexivity|].
  replace (2 * S n)%nat with (S (S (2 * n))) by lia. exact IH. Qed.

(* xor commutes with the split into nibbles (no bound needed) *)
Lemma lxor_div16 a b : N.lxor a b / 16 = N.lxor (a / 16) (b / 16).
Proof. change 16 with (2 ^ 4). rewrite <- !N.shiftr_div_pow2. apply N.shiftr_lxor. Qed.

Lemma lxor_mod16 a b : N.lxor a b mod 16 = N.lxor (a mod 16) (b mod 16).
Proof.
  change 16 with (2 ^ 4). apply N.bits_inj; intro i. rewrite N.lxor_spec.
  destruct (N.ltb_spec i 4).
  - rewrite !N.mod_pow2_bits_low by assumption. apply N.lxor_spec.
  - rewrite !N.mod_pow2_bits_high by assumption. reflexivity.
Qed.

Theorem nibbles_of_bytes_xor_pos a b :
  nibbles_of_bytes (xor_pos a b) = xor_pos (nibbles_of_bytes a) (nibbles_of_bytes b).
Proof.
  revert b. induction a as [|x a IH]; intros [|y b]; try reflexivity.
  cbn [xor_pos]. rewrite !nibbles_of_bytes_cons. cbn [xor_pos].
  rewrite lxor_div16, lxor_mod16, IH. reflexivity.
Qed.

(* ------------------------------------------------------------------ *)
(* xor_pos on lists (used for nibble strings)                           *)
Lemma xor_pos_app a1 a2 b1 b2 : length a1 = length b1 ->
  xor_pos (a1 ++ a2) (b1 ++ b2) = xor_pos a1 b1 ++ xor_pos a2 b2.
Proof.
  revert b1. induction a1 as [|x a1 IH]; intros [|y b1] H; cbn [length] in H; try lia.
  - reflexivity.
  - cbn [app xor_pos]. f_equal. apply IH. lia.
Qed.

Lemma xor_pos_zeros a k : xor_pos a (repeat 0 k) = a.
Proof.
  revert k. induction a as [|x a IH]; intros [|k]; cbn [repeat xor_pos]; try reflexivity.
  rewrite N.lxor_0_r, IH. reflexivity.
Qed.

Lemma xor_pos_firstn k a b : firstn k (xor_pos a b) = xor_pos (firstn k a) (firstn k b).
Proof.
  revert a b. induction k as [|k IH]; intros [|x a] [|y b]; cbn [firstn xor_pos]; try reflexivity.
  f_equal. apply IH.
Qed.

Lemma xor_pos_skipn k a b : length a = length b -> skipn k (xor_pos a b) = xor_pos (skipn k a) (skipn k b).
Proof.
  revert a b. induction k as [|k IH]; intros [|x a] [|y b] H; cbn [length] in H; try lia;
    cbn [skipn xor_pos]; try reflexivity.
  apply IH. lia.
Qed.

(* (a xor p) xor q = a with all three of one length forces p = q *)
Lemma xor_pos_cancel a p q : length p = length a -> length q = length a ->
  xor_pos (xor_pos a p) q = a -> p = q.
Proof.
  revert p q. induction a as [|x a IH]; intros [|y p] [|z q] Hp Hq H; cbn [length] in *; try lia.
  - reflexivity.
  - cbn [xor_pos] in H. injection H as H0 H1. f_equal; [|apply IH; auto; lia].
    rewrite N.lxor_assoc in H0.
    assert (E : N.lxor y z = 0).
    { rewrite <- (N.lxor_nilpotent x). rewrite <- H0 at 2.
      rewrite <- N.lxor_assoc, N.lxor_nilpotent, N.lxor_0_l. reflexivity. }
    apply N.lxor_eq. assumption.
Qed.

(* ------------------------------------------------------------------ *)
(* hex digits                                                           *)
Ltac case_if :=
  match goal with |- context [if ?c then _ else _] => destruct c eqn:? end.

Lemma hexdigit_upper_decimal n : n < 10 -> hexdigit_upper n = 48 + n.
Proof. intros H. unfold hexdigit_upper. case_if; lia. Qed.

Lemma hexdigit_lower_decimal n : n < 10 -> hexdigit_lower n = 48 + n.
Proof. intros H. unfold hexdigit_lower. case_if; lia. Qed.

Lemma unhex_hexdigit_upper n : n < 16 -> unhex_digit (hexdigit_upper n) = Some n.
Proof.
  intros H. unfold hexdigit_upper. destruct (n <? 10) eqn:E; unfold unhex_digit, is_digit;
    repeat case_if; try lia; f_equal; lia.
Qed.

Lemma unhex_hexdigit_lower n : n < 16 -> unhex_digit (hexdigit_lower n) = Some n.
Proof.
  intros H. unfold hexdigit_lower. destruct (n <? 10) eqn:E; unfold unhex_digit, is_digit;
    repeat case_if; try lia; f_equal; lia.
Qed.

Lemma hexdigit_upper_inj n m : n < 16 -> m < 16 -> hexdigit_upper n = hexdigit_upper m -> n = m.
Proof.
  intros Hn Hm E. apply (f_equal unhex_digit) in E.
  rewrite !unhex_hexdigit_upper in E by assumption. congruence.
Qed.

Lemma hexdigit_lower_inj n m : n < 16 -> m < 16 -> hexdigit_lower n = hexdigit_lower m -> n = m.
Proof.
  intros Hn Hm E. apply (f_equal unhex_digit) in E.
  rewrite !unhex_hexdigit_lower in E by assumption. congruence.
Qed.

Lemma hexdigit_upper_eqb n m : n < 16 -> m < 16 -> (hexdigit_upper n =? hexdigit_upper m) = (n =? m).
Proof.
  intros Hn Hm. destruct (N.eqb_spec n m) as [->|Hne]; [apply N.eqb_refl|].
  apply N.eqb_neq. intro E. apply Hne. apply hexdigit_upper_inj; assumption.
Qed.

Lemma is_digit_hexdigit_upper n : n < 16 -> is_digit (hexdigit_upper n) = (n <? 10).
Proof. intros H. unfold is_digit, hexdigit_upper. case_if; lia. Qed.

Lemma is_hexch_hexdigit_upper n : n < 16 -> is_hexch (hexdigit_upper n) = true.
Proof. intros H. unfold is_hexch, is_digit, hexdigit_upper. case_if; lia. Qed.

Lemma is_hexch_hexdigit_lower n : n < 16 -> is_hexch (hexdigit_lower n) = true.
Proof. intros H. unfold is_hexch, is_digit, hexdigit_lower. case_if; lia. Qed.

(* the letters A..F are the digits of 10..15 *)
Lemma is_AF_hexdigit_upper n : n < 16 ->
  ((65 <=? hexdigit_upper n) && (hexdigit_upper n <=? 70)) = (10 <=? n).
Proof. intros H. unfold hexdigit_upper. case_if; lia. Qed.

Lemma unhex_digit_decimal c : is_digit c = true -> unhex_digit c = Some (c - 48).
Proof. intros H. unfold unhex_digit. rewrite H. reflexivity. Qed.

Lemma unhex_digit_AF c : 65 <= c <= 70 -> unhex_digit c = Some (c - 55).
Proof. intros H. unfold unhex_digit, is_digit. repeat case_if; try lia; reflexivity. Qed.

Lemma unhex_digit_lt c n : unhex_digit c = Some n -> n < 16.
Proof.
  unfold unhex_digit, is_digit. repeat case_if; intro E; try discriminate E; injection E as <-; lia.
Qed.

Lemma is_hexch_unhex c : is_hexch c = true <-> exists n, unhex_digit c = Some n.
Proof.
  unfold is_hexch, unhex_digit. split.
  - intros H. repeat case_if; try (eexists; reflexivity). lia.
  - intros [n H]. revert H. repeat case_if; intro H; try discriminate H; lia.
Qed.

Lemma decimal_char_of_digit n : n < 10 -> is_digit (48 + n) = true /\ 48 + n - 48 = n.
Proof. intros H. unfold is_digit. lia. Qed.

(* int(c, 16) of one hex digit *)
Lemma int_of_hex_hexdigit_upper n : n < 16 -> int_of_hex [hexdigit_upper n] = Ok n.
Proof.
  intros H. unfold int_of_hex, ascii_hexchar, hex_value. cbn [forallb fold_left].
  rewrite is_hexch_hexdigit_upper, unhex_hexdigit_upper by assumption. cbn [andb]. f_equal.
Qed.

Lemma int_of_hex_hexdigit_lower n : n < 16 -> int_of_hex [hexdigit_lower n] = Ok n.
Proof.
  intros H. unfold int_of_hex, ascii_hexchar, hex_value. cbn [forallb fold_left].
  rewrite is_hexch_hexdigit_lower, unhex_hexdigit_lower by assumption. cbn [andb]. f_equal.
Qed.

(* ------------------------------------------------------------------ *)
(* decimal digit strings and their nibble values                        *)
Definition digit_values (s : str) : list N := map (fun c => c - 48) s.
Definition digit_chars (ns : list N) : str := map (fun n => 48 + n) ns.
Definition decimals_ok (ns : list N) : bool := forallb (fun n => n <? 10) ns.

Lemma digit_values_length s : length (digit_values s) = length s.
Proof. apply map_length. Qed.
Lemma digit_chars_length ns : length (digit_chars ns) = length ns.
Proof. apply map_length. Qed.

Lemma digit_values_app a b : digit_values (a ++ b) = digit_values a ++ digit_values b.
Proof. apply map_app. Qed.

Lemma digit_values_repeat c k : digit_values (repeat c k) = repeat (c - 48) k.
Proof. exact (map_repeat (fun c => c - 48) c k). Qed.

Lemma digit_chars_values s : ascii_numeric s = true -> digit_chars (digit_values s) = s.
Proof.
  unfold ascii_numeric, digit_chars, digit_values. intro H. rewrite map_map.
  rewrite <- (map_id s) at 2. apply map_ext_in. intros c Hc.
  rewrite forallb_forall in H. specialize (H c Hc). unfold is_digit in H. lia.
Qed.

Lemma digit_values_chars ns : digit_values (digit_chars ns) = ns.
Proof.
  unfold digit_chars, digit_values. rewrite map_map. rewrite <- (map_id ns) at 2.
  apply map_ext. intros n. lia.
Qed.

Lemma digit_values_decimal s : ascii_numeric s = true -> decimals_ok (digit_values s) = true.
Proof.
  unfold ascii_numeric, decimals_ok, digit_values. rewrite !forallb_forall. intros H n Hn.
  apply in_map_iff in Hn as (c & <- & Hc). specialize (H c Hc). unfold is_digit in H. lia.
Qed.

Lemma digit_chars_numeric ns : ascii_numeric (digit_chars ns) = decimals_ok ns.
Proof.
  unfold ascii_numeric, decimals_ok, digit_chars. induction ns as [|n ns IH]; [reflexivity|].
  cbn [map forallb]. rewrite IH. f_equal. unfold is_digit. lia.
Qed.

Lemma decimals_ok_nibbles_ok ns : decimals_ok ns = true -> nibbles_ok ns = true.
Proof.
  unfold decimals_ok, nibbles_ok, nibble_ok. rewrite !forallb_forall. intros H n Hn.
  specialize (H n Hn). lia.
Qed.

Lemma digit_values_nibbles_ok s : ascii_numeric s = true -> nibbles_ok (digit_values s) = true.
Proof. intro H. apply decimals_ok_nibbles_ok, digit_values_decimal, H. Qed.

Lemma ascii_numeric_app a b : ascii_numeric (a ++ b) = ascii_numeric a && ascii_numeric b.
Proof. apply forallb_app. Qed.

Lemma ascii_numeric_firstn k s : ascii_numeric s = true -> ascii_numeric (firstn k s) = true.
Proof.
  unfold ascii_numeric. rewrite !forallb_forall. intros H c Hc. apply H.
  rewrite <- (firstn_skipn k s). apply in_or_app. left. assumption.
Qed.

Lemma ascii_numeric_skipn k s : ascii_numeric s = true -> ascii_numeric (skipn k s) = true.
Proof.
  unfold ascii_numeric. rewrite !forallb_forall. intros H c Hc. apply H.
  rewrite <- (firstn_skipn k s). apply in_or_app. right. assumption.
Qed.

(* the upper-case hex text of decimal nibbles is their decimal text *)
Lemma map_hexdigit_upper_decimals ns : decimals_ok ns = true -> map hexdigit_upper ns = digit_chars ns.
Proof.
  unfold decimals_ok, digit_chars. rewrite forallb_forall. intro H. apply map_ext_in. intros n Hn.
  apply hexdigit_upper_decimal. specialize (H n Hn). lia.
Qed.

Lemma ascii_numeric_map_hexdigit_upper ns : nibbles_ok ns = true ->
  ascii_numeric (map hexdigit_upper ns) = decimals_ok ns.
Proof.
  unfold ascii_numeric, decimals_ok. induction ns as [|n ns IH]; intro H; [reflexivity|].
  apply nibbles_ok_cons in H as [Hn H]. cbn [map forallb]. rewrite IH by assumption.
  rewrite is_digit_hexdigit_upper by assumption. reflexivity.
Qed.

(* ------------------------------------------------------------------ *)
(* hex text                                                             *)
(* [s] is hex text whose digit values are [ns] *)
Definition unhex_as (s : str) (ns : list N) : Prop := map unhex_digit s = map Some ns.

Lemma unhex_as_length s ns : unhex_as s ns -> length s = length ns.
Proof. unfold unhex_as. intro H. apply (f_equal (@length _)) in H. rewrite !map_length in H. exact H. Qed.

Lemma unhex_as_nil : unhex_as [] [].
Proof. reflexivity. Qed.

Lemma unhex_as_cons c s n ns : unhex_digit c = Some n -> unhex_as s ns -> unhex_as (c :: s) (n :: ns).
Proof. unfold unhex_as. intros H1 H2. cbn [map]. rewrite H1, H2. reflexivity. Qed.

Lemma unhex_as_app s1 s2 n1 n2 : unhex_as s1 n1 -> unhex_as s2 n2 -> unhex_as (s1 ++ s2) (n1 ++ n2).
Proof. unfold unhex_as. intros H1 H2. rewrite !map_app, H1, H2. reflexivity. Qed.

Lemma unhex_as_nibbles_ok s ns : unhex_as s ns -> nibbles_ok ns = true.
Proof.
  unfold unhex_as. revert ns. induction s as [|c s IH]; intros [|n ns] H; try discriminate H; [reflexivity|].
  cbn [map] in H. injection H as H0 H1. apply nibbles_ok_cons. split; [|auto].
  apply (unhex_digit_lt c). assumption.
Qed.

Lemma unhex_as_upper ns : nibbles_ok ns = true -> unhex_as (map hexdigit_upper ns) ns.
Proof.
  unfold unhex_as. induction ns as [|n ns IH]; intro H; [reflexivity|].
  apply nibbles_ok_cons in H as [Hn H]. cbn [map]. rewrite unhex_hexdigit_upper, IH by assumption.
  reflexivity.
Qed.

Lemma unhex_as_lower ns : nibbles_ok ns = true -> unhex_as (map hexdigit_lower ns) ns.
Proof.
  unfold unhex_as. induction ns as [|n ns IH]; intro H; [reflexivity|].
  apply nibbles_ok_cons in H as [Hn H]. cbn [map]. rewrite unhex_hexdigit_lower, IH by assumption.
  reflexivity.
Qed.

(* ASCII decimal digits are the hex digits of the nibbles 0..9 *)
Lemma unhex_as_decimal s : ascii_numeric s = true -> unhex_as s (digit_values s).
Proof.
  unfold unhex_as, ascii_numeric, digit_values. induction s as [|c s IH]; intro H; [reflexivity|].
  cbn [forallb] in H. apply andb_true_iff in H as [Hc H]. cbn [map].
  rewrite unhex_digit_decimal, IH by assumption. reflexivity.
Qed.

Lemma unhex_as_AF s : forallb (fun c => (65 <=? c) && (c <=? 70)) s = true ->
  unhex_as s (map (fun c => c - 55) s).
Proof.
  unfold unhex_as. induction s as [|c s IH]; intro H; [reflexivity|].
  cbn [forallb] in H. apply andb_true_iff in H as [Hc H]. cbn [map].
  rewrite unhex_digit_AF, IH by (assumption || lia). reflexivity.
Qed.

Lemma unhex_as_repeat c n k : unhex_digit c = Some n -> unhex_as (repeat c k) (repeat n k).
Proof. unfold unhex_as. intro H. rewrite !map_repeat, H. reflexivity. Qed.

(* binascii.a2b_hex on hex text of even length *)
Theorem a2b_hex_nibbles s ns : unhex_as s ns -> Nat.even (length ns) = true ->
  a2b_hex s = Ok (bytes_of_nibbles ns).
Proof.
  unfold unhex_as. revert s.
  apply (list_pair_ind (fun ns => forall s, map unhex_digit s = map Some ns ->
    Nat.even (length ns) = true -> a2b_hex s = Ok (bytes_of_nibbles ns))) with (l := ns).
  - intros [|c s] H _; [reflexivity | discriminate H].
  - intros a s _ H. discriminate H.
  - intros a b l IH [|c [|d s]] H E; try discriminate H.
    cbn [map] in H. injection H as Hc Hd H. cbn [length Nat.even] in E.
    cbn [a2b_hex]. rewrite Hc, Hd. rewrite (IH s H E). reflexivity.
Qed.

Corollary a2b_hex_map_upper ns : nibbles_ok ns = true -> Nat.even (length ns) = true ->
  a2b_hex (map hexdigit_upper ns) = Ok (bytes_of_nibbles ns).
Proof. intros H E. apply a2b_hex_nibbles; [apply unhex_as_upper; assumption | assumption]. Qed.

Corollary a2b_hex_decimal s : ascii_numeric s = true -> Nat.even (length s) = true ->
  a2b_hex s = Ok (bytes_of_nibbles (digit_values s)).
Proof.
  intros H E. apply a2b_hex_nibbles; [apply unhex_as_decimal; assumption|].
  rewrite digit_values_length. assumption.
Qed.

(* bytes.hex() / bytes.hex().upper() *)
Theorem hex_upper_nibbles b : hex_upper b = map hexdigit_upper (nibbles_of_bytes b).
Proof.
  unfold hex_upper, nibbles_of_bytes. induction b as [|x b IH]; [reflexivity|].
  cbn [flat_map]. rewrite IH, map_app. reflexivity.
Qed.

Theorem hex_lower_nibbles b : hex_lower b = map hexdigit_lower (nibbles_of_bytes b).
Proof.
  unfold hex_lower, nibbles_of_bytes. induction b as [|x b IH]; [reflexivity|].
  cbn [flat_map]. rewrite IH, map_app. reflexivity.
Qed.

Lemma hex_upper_length b : length (hex_upper b) = (2 * length b)%nat.
Proof. rewrite hex_upper_nibbles, map_length. apply nibbles_of_bytes_length. Qed.

Lemma hex_lower_length b : length (hex_lower b) = (2 * length b)%nat.
Proof. rewrite hex_lower_nibbles, map_length. apply nibbles_of_bytes_length. Qed.

Lemma unhex_as_hex_upper b : bytes_ok b = true -> unhex_as (hex_upper b) (nibbles_of_bytes b).
Proof. intro H. rewrite hex_upper_nibbles. apply unhex_as_upper, nibbles_of_bytes_ok, H. Qed.

Lemma unhex_as_hex_lower b : bytes_ok b = true -> unhex_as (hex_lower b) (nibbles_of_bytes b).
Proof. intro H. rewrite hex_lower_nibbles. apply unhex_as_lower, nibbles_of_bytes_ok, H. Qed.

(* a2b_hex inverts hex() and hex().upper() *)
Theorem a2b_hex_hex_upper b : bytes_ok b = true -> a2b_hex (hex_upper b) = Ok b.
Proof.
  intro H. rewrite (a2b_hex_nibbles _ _ (unhex_as_hex_upper b H) (even_length_nibbles_of_bytes b)).
  rewrite bytes_of_nibbles_of_bytes. reflexivity.
Qed.

Theorem a2b_hex_hex_lower b : bytes_ok b = true -> a2b_hex (hex_lower b) = Ok b.
Proof.
  intro H. rewrite (a2b_hex_nibbles _ _ (unhex_as_hex_lower b H) (even_length_nibbles_of_bytes b)).
  rewrite bytes_of_nibbles_of_bytes. reflexivity.
Qed.

Theorem hex_upper_inj a b : bytes_ok a = true -> bytes_ok b = true -> hex_upper a = hex_upper b -> a = b.
Proof.
  intros Ha Hb E. apply (f_equal a2b_hex) in E. rewrite !a2b_hex_hex_upper in E by assumption.
  congruence.
Qed.

(* indexing hex text *)
Lemma index_map {A B} (f : A -> B) l i : index (map f l) i = match nth_error l i with
  | Some x => Ok (f x) | None => Err (Crash CIndex) end.
Proof. unfold index. rewrite nth_error_map. destruct (nth_error l i); reflexivity. Qed.

(* list_eqb is equality *)
Lemma list_eqb_eq a b : list_eqb a b = true <-> a = b.
Proof.
  revert b. induction a as [|x a IH]; intros [|y b]; cbn [list_eqb]; split; intro H;
    try reflexivity; try discriminate H.
  - apply andb_true_iff in H as [H1 H2]. apply N.eqb_eq in H1. apply IH in H2. congruence.
  - injection H as -> ->. rewrite N.eqb_refl. apply IH. reflexivity.
Qed.

Lemma map_hexdigit_upper_inj a b : nibbles_ok a = true -> nibbles_ok b = true ->
  map hexdigit_upper a = map hexdigit_upper b -> a = b.
Proof.
  revert b. induction a as [|x a IH]; intros [|y b] Ha Hb E; try discriminate E; [reflexivity|].
  apply nibbles_ok_cons in Ha as [Hx Ha]. apply nibbles_ok_cons in Hb as [Hy Hb].
  cbn [map] in E. injection E as E0 E1. f_equal; [apply hexdigit_upper_inj; assumption | auto].
Qed.

(* str(n) of a one-digit number *)
Lemma str_of_N_digit n : n < 10 -> str_of_N n = [48 + n].
Proof.
  intro H. unfold str_of_N. cbn [dec_digits_aux].
  destruct (N.ltb_spec n 10); [|lia]. rewrite N.mod_small by assumption. reflexivity.
Qed.
